(** * Rel2HistAllR: package U, STAGE 2: the merged class of Rel2HistAll + OReset.

      [rel_allR_op o := rel_r_op o || r2h_batch_op o]      (Rel2HistR's class: core + Shrink + reads + filters +
                                                            registration + queries + Reset; + the five batch operations)
      [InvAllR s n k := Inv2R s n k]                        (the epoch-relative invariant of Rel2HistR)

    Rel2BatchHist proves the batch step from [Inv2 s n], whose clause [issued_ok] speaks about EVERY handle ever issued;
    after a Reset the handles of earlier epochs are foreign. Here the five batch operations are re-proved from
    state-level facts ([St2], [r2d_KeysLive], no observers, unlocked, [r2r_ids2]) and a condition on the handles in
    relation-TARGET position ([rel_u_handles]: the relation lists of ONewBatch / OExchangeBatch / OSetRelBatch; the
    BATCH relations [brels], which only select tables, need nothing): they must be proper ([r2r_hproper]: "does not pass
    the generation check unless stored"), and for OExchangeBatch their ids must lie within the pool (the hypothesis
    [r2x_args] of Rel2BatchExchange; for single-entity Exchange Rel2HistR removed the range hypothesis by re-proving the
    operation, for the batch form this is NOT done here: [r2u_foreign_ok] keeps the range clause for OExchangeBatch).
    Handles of the current epoch satisfy both ([r2u_current_ok]); the side condition of a line is about its FOREIGN
    handles only ([r2u_foreign_ok], the extension of [r2r_foreign_ok] to the batch positions).

    Main results: [r2u_batch_spec] (one batch operation from state-level facts), [r2u_trans_issued_from] (handle
    accounting relative to an epoch across a batch step), [step_inv_allR_batch], [step_inv_allR] (one step of the merged
    class, BOTH outcomes, locked and unlocked; the epoch moves at a Reset on an unlocked world), [r2u_run_inv_R] (from ANY
    state satisfying the invariant), [reachable_inv_allR]; corollaries [targets_always_zero_or_alive_allR],
    [reachable_locked_structural_unchanged_allR], [reachable_unlocked_reset_succeeds_allR] (the result is [r2r_fresh]),
    [remove_target_detaches_allR]; checker [rel_allR_hist_b] and non-vacuity [r2u_scriptR] (batch operations in two epochs,
    a foreign handle as batch relation target, locked window, Reset rejected while locked). Helper prefix [r2u_]. *)
From Ark Require Import Model.Base Model.Mask Model.Pool Model.Util Model.World Model.Run.
From Ark Require Import Proofs.TableProofs Proofs.MaskProofs Proofs.Hoare Proofs.WF Proofs.StorageA Proofs.StorageBDefs
  Proofs.StorageB_sb1 Proofs.StorageB_sb2 Proofs.StorageB_sb3 Proofs.LockWorld Proofs.StorageC Proofs.ViewProofs Proofs.RelProofs
  Proofs.CacheProofs Proofs.QueryProofs Proofs.ResetShrinkProofs Proofs.BatchProofs Proofs.BatchOps
  Proofs.Rel2Defs Proofs.Rel2Struct Proofs.Rel2Remove Proofs.Rel2SetRel Proofs.Rel2Ops Proofs.Rel2Maint Proofs.Rel2Hist
  Proofs.Rel2Cache Proofs.Rel2BatchClean Proofs.Rel2BatchRows Proofs.Rel2Batch Proofs.Rel2BatchExchange Proofs.Rel2BatchNew
  Proofs.Rel2BatchSetRel Proofs.Rel2BatchHist Proofs.Rel2HistQ Proofs.Rel2HistQL Proofs.Rel2HistAll Proofs.Rel2HistR.
From Ark Require Properties.Common Proofs.Rel2Check Proofs.StorageD.
From RecordUpdate Require Import RecordSet.
Import RecordSetNotations.
From Coq Require Import Lia.
Close Scope Z_scope.

(* ================================================================================================ *)
(** * Part 1: the five batch operations from state-level facts *)

Lemma r2u_trans_same : forall s s', St2 s' -> r2d_KeysLive s' -> r2e_noobs s' ->
  w_reg s' = w_reg s -> w_issued s' = w_issued s -> w_pool s' = w_pool s -> (forall x, live s x = true -> live s' x = true) ->
  r2h_trans 0 s s'.
Proof.
  intros s s' A B C D E F G. split; [exact A|]. split; [exact B|]. split; [exact C|]. split; [exact D|]. split; [exact E|].
  split; [apply r2h_pool_step_eq; exact F|]. intros x Hx. left. apply G. exact Hx.
Qed.

Lemma r2u_trans_weaken : forall m s s', r2h_trans 0 s s' -> r2h_trans m s s'.
Proof.
  intros m s s' (A & B & C & D & E & (P1 & P2 & P3) & G).
  split; [exact A|]. split; [exact B|]. split; [exact C|]. split; [exact D|]. split; [exact E|]. split; [|exact G].
  split; [exact P1|]. split; [exact P2|]. lia.
Qed.

Section r2u_ops.
Variables (debug : bool) (s : W).
Hypothesis HS : St2 s.
Hypothesis HK : r2d_KeysLive s.
Hypothesis Hno : r2e_noobs s.
Hypothesis Hlk : is_locked s = false.
Hypothesis Hids : r2r_ids2 s.
Let HW : WF s := proj1 HS.

Lemma r2u_trans_refl : r2h_trans 0 s s.
Proof. apply (r2u_trans_same s s HS HK Hno); auto. Qed.

Lemma r2u_trans_storage_same : forall s', storage_same s s' -> w_oagg s' = w_oagg s -> r2h_trans 0 s s'.
Proof.
  intros s' SS Eo. pose proof (sb3_storage_same_content s s' SS) as CS.
  pose proof SS as (E1 & E2 & E3 & E4 & E5 & E6 & E7 & E8 & E9 & E10 & E11 & E12 & E13 & E14 & E15 & E16 & E17 & E18).
  apply (r2u_trans_same s s'); try assumption.
  - apply (r2c_storage_same_St2 s s' SS HS).
  - apply (r2B_storage_same_KeysLive s s' SS HK).
  - apply (r2B_noobs_oagg s s' Eo Hno).
  - intros x Hx. rewrite (proj1 (CS x)). exact Hx.
Qed.

Lemma r2u_post_refl : forall m leak er, r2h_post m leak s (Err er s).
Proof. intros m leak er. split; [apply r2u_trans_weaken, r2u_trans_refl|left; exact Hlk]. Qed.

Lemma r2u_resolved : forall m leak hrels (k : list rel -> MW (list Z)),
  (forall rels, r2e_resolved s hrels rels -> r2h_post m leak s (k rels s)) ->
  r2h_post m leak s (bind (resolveR hrels) k s).
Proof.
  intros m leak hrels k H. destruct (r2e_resolveR hrels s) as [(rels & E & HR)|(er & E)].
  - rewrite (sa_bind_ok E). apply H. exact HR.
  - rewrite (sa_bind_err E). apply (r2u_post_refl m leak er).
Qed.

Lemma r2u_batch_rels : forall m leak f brels (k : list rel -> MW (list Z)),
  (forall br, r2h_post m leak s (k br s)) -> r2h_post m leak s (bind (batch_rels f brels) k s).
Proof.
  intros m leak f brels k H. pose proof (readonly_batch_rels f brels s) as Hro.
  destruct (batch_rels f brels s) as [br s1|er s1] eqn:E; cbn [state_of] in Hro; subst s1.
  - rewrite (sa_bind_ok E). apply H.
  - rewrite (sa_bind_err E). apply (r2u_post_refl m leak er).
Qed.

(** ** ORemoveEntities: no handle is looked at *)
Lemma r2u_op_ORemoveEntities : forall f hbrels nofn,
  r2h_post 0 (r2h_leak_remove s f hbrels nofn) s (step_op debug (ORemoveEntities f hbrels nofn) s).
Proof.
  intros f hbrels nofn. cbn [step_op].
  destruct (r2e_resolveR hbrels s) as [(brels & E1 & HR)|(er & E1)]; [|rewrite (sa_bind_err E1); apply (r2u_post_refl 0 _ er)].
  rewrite (sa_bind_ok E1).
  pose proof (readonly_batch_rels f brels s) as Hro.
  destruct (batch_rels f brels s) as [br s1|er s1] eqn:E2; cbn [state_of] in Hro; subst s1;
    [|rewrite (sa_bind_err E2); apply (r2u_post_refl 0 _ er)].
  rewrite (sa_bind_ok E2).
  pose proof (r2B_remove_entities_outcomes s f br (negb nofn) HS HK Hno Hlk) as Ho.
  unfold bind. destruct (w_remove_entities f br (negb nofn) s) as [u s'|er s'] eqn:E3.
  - destruct Ho as (tabs & Hg & (A & B & C & D & Hrm & Hkp & _ & FU & PL & (Q1 & Q2))). unfold r2h_post, ret. cbn [state_of is_err].
    split; [|left; exact D].
    pose proof FU as (F1 & _ & _ & _ & F5 & _).
    split; [exact A|]. split; [exact B|]. split; [exact C|]. split; [exact F1|]. split; [exact F5|]. split.
    + split; [|split].
      * intros i l g E. destruct (r2B_doomed s tabs (i, g)) eqn:Ed.
        -- destruct (Q2 (i, g) Ed) as (l' & E'). cbn [fst snd] in E'. exists l', (N.modulo (g + 1) 4294967296). split; [exact E'|right; reflexivity].
        -- exists l, g. split; [|left; reflexivity]. rewrite Q1; [exact E|]. intros e Hd Ee.
           pose proof Hd as Hd'. apply r2B_doomed_iff in Hd'. destruct Hd' as (Hl & _). destruct (live_alive s e HW Hl) as (Ha & _).
           destruct (sc_alive_slot s e Ha) as (l0 & E0). rewrite Ee, E in E0. injection E0 as _ Eg.
           assert (Ee' : e = (i, g)) by (destruct e as [ei eg]; cbn [fst snd] in *; subst; reflexivity). subst e. congruence.
      * intros i l g H1 H2. apply sa_nth_error_lt in H2. sc_lia.
      * sc_lia.
    + intros x Hx. destruct (r2B_doomed s tabs x) eqn:Ed.
      * right. apply (Q2 x Ed).
      * left. rewrite (proj1 (Hkp x Ed)). exact Hx.
  - destruct Ho as (SS & SD & Hcase). unfold r2h_post. cbn [state_of is_err].
    split.
    { destruct SD as (_ & _ & _ & _ & Eo & _). apply (r2u_trans_storage_same s' SS Eo). }
    destruct Hcase as [(_ & _ & _ & ->)|(Hg & Hs)]; [left; exact Hlk|].
    destruct nofn.
    + left. rewrite (Hs eq_refl). exact Hlk.
    + right. split; [reflexivity|]. split; [reflexivity|]. exists brels, br, er. repeat split; assumption.
Qed.

(** the resolved targets of a relation list whose handles are proper *)
Lemma r2u_targets_ok : forall hrels rels, r2e_resolved s hrels rels ->
  (forall hr, In hr hrels -> r2r_hproper s (snd hr)) -> forall r, In r rels -> r2b_handle_ok s (snd r).
Proof. intros hrels rels HR Hp. apply (r2r_resolved_ok s hrels rels HW Hids HR Hp). Qed.

(** ** OExchangeBatch: targets proper and within the pool *)
Lemma r2u_op_OExchangeBatch : forall f hbrels add rem hrels vals, registered s add ->
  (forall hr, In hr hrels -> r2r_hproper s (snd hr)) ->
  (forall hr x, In hr hrels -> handle s (snd hr) = Some x -> fst x < length (w_istarget s)) ->
  r2h_post 0 False s (step_op debug (OExchangeBatch f hbrels add rem hrels vals) s).
Proof.
  intros f hbrels add rem hrels vals Hreg Hp Hrange. cbn [step_op].
  apply r2u_resolved. intros brels _. apply r2u_resolved. intros rels HR. apply r2u_batch_rels. intros br.
  pose proof (readonly_to_relations (mk_of_list add) rels s) as Hro.
  destruct (to_relations (mk_of_list add) rels s) as [[] s1|er s1] eqn:E; cbn [state_of] in Hro; subst s1;
    [|rewrite (sa_bind_err E); apply (r2u_post_refl 0 False er)].
  rewrite (sa_bind_ok E).
  assert (Hargs : r2x_args s add rels).
  { split; [exact Hreg|]. intros r Hr. split; [apply (r2u_targets_ok hrels rels HR Hp r Hr)|].
    destruct (r2e_resolved_rev s hrels rels r HR Hr) as (hr & Hin & _ & Hh). apply (Hrange hr (snd r) Hin Hh). }
  destruct (r2x_exchange_batch_inv s f br add rem rels vals HS HK Hno Hlk Hargs) as (A & B & C & D & FU & EP & HL).
  assert (Est : forall (k : MW (list Z)), (forall s0, state_of (k s0) = s0) -> state_of ((w_exchange_batch f br add rem rels vals ;;; k) s) = state_of (w_exchange_batch f br add rem rels vals s)).
  { intros k Hk. unfold bind. destruct (w_exchange_batch f br add rem rels vals s); [apply Hk|reflexivity]. }
  unfold r2h_post. rewrite Est by (intros s0; reflexivity). split; [|left; exact D].
  pose proof FU as (F1 & _ & _ & _ & F5 & _).
  apply (r2u_trans_same s _ A B C F1 F5 EP). intros x Hx. rewrite HL. exact Hx.
Qed.

(** ** OSetRelBatch: targets proper *)
Lemma r2u_op_OSetRelBatch : forall f hbrels mids hrels,
  (forall hr, In hr hrels -> r2r_hproper s (snd hr)) ->
  r2h_post 0 False s (step_op debug (OSetRelBatch f hbrels mids hrels) s).
Proof.
  intros f hbrels mids hrels Hp. cbn [step_op].
  apply r2u_resolved. intros brels _. apply r2u_resolved. intros rels HR. apply r2u_batch_rels. intros br.
  pose proof (readonly_to_relations (mk_of_list mids) rels s) as Hro.
  destruct (to_relations (mk_of_list mids) rels s) as [[] s1|er s1] eqn:E; cbn [state_of] in Hro; subst s1;
    [|rewrite (sa_bind_err E); apply (r2u_post_refl 0 False er)].
  rewrite (sa_bind_ok E).
  pose proof (r2s_set_relations_batch_post s f br rels HS HK Hno Hlk (r2u_targets_ok hrels rels HR Hp)) as Hp'.
  assert (Est : forall (k : MW (list Z)), (forall s0, state_of (k s0) = s0) ->
            state_of ((w_set_relations_batch f br rels ;;; k) s) = state_of (w_set_relations_batch f br rels s)).
  { intros k Hk. unfold bind. destruct (w_set_relations_batch f br rels s); [apply Hk|reflexivity]. }
  unfold r2h_post. rewrite Est by (intros s0; reflexivity).
  destruct Hp' as (A & B & C & D & HL & _ & EP & FU). split; [|left; exact D].
  pose proof FU as (F1 & _ & _ & _ & F5 & _).
  apply (r2u_trans_same s _ A B C F1 F5 EP). intros x Hx. rewrite HL. exact Hx.
Qed.

(** ** The creating operations *)
Lemma r2u_op_ONewEntities : forall m nofn, room_n s m ->
  r2h_post m False s (step_op debug (ONewEntities m nofn) s) /\ r2h_logged_fresh s (step_op debug (ONewEntities m nofn) s).
Proof.
  intros m nofn Hm. cbn [step_op].
  pose proof (r2n_new_entities_spec s m (negb nofn) HS HK Hno Hlk Hm) as Hsp.
  destruct (r2h_fnp_w_new_entities m (negb nofn) s Hno) as (_ & Hpc).
  unfold bind. destruct (w_new_entities m (negb nofn) s) as [u s'|er s'] eqn:E; cbn [state_of] in Hpc.
  - destruct Hsp as (A & B & C & D & FU & _ & es & Hfr & _ & Hoth & Hlog).
    pose proof FU as (F1 & _ & _ & _ & F5 & _). split.
    + unfold r2h_post, ret. cbn [state_of is_err]. split; [|left; exact D].
      split; [exact A|]. split; [exact B|]. split; [exact C|]. split; [exact F1|]. split; [exact F5|].
      split; [apply r2h_pc_step; exact Hpc|]. intros x Hx. left. apply (r2h_fresh_keeps s s' m es Hfr Hoth x Hx).
    + intros res s1 Er Hl0 e He. unfold ret in Er. injection Er as _ <-. rewrite Hlog, Hl0 in He. cbn [app] in He.
      destruct (negb nofn); [|destruct He]. rewrite r2h_logged_entries in He.
      destruct Hfr as (_ & _ & Hf). destruct (Hf e He) as (L0 & L1 & _). split; assumption.
  - destruct Hsp as (_ & _ & _ & A & B & C & D & FU & _ & es & Hfr & _ & Hoth).
    pose proof FU as (F1 & _ & _ & _ & F5 & _). split.
    + unfold r2h_post. cbn [state_of is_err]. split; [|left; exact D].
      split; [exact A|]. split; [exact B|]. split; [exact C|]. split; [exact F1|]. split; [exact F5|].
      split; [apply r2h_pc_step; exact Hpc|]. intros x Hx. left. apply (r2h_fresh_keeps s s' m es Hfr Hoth x Hx).
    + intros res s1 Er. discriminate.
Qed.

Lemma r2u_op_ONewBatch : forall m ids hrels vals nofn, room_n s m -> registered s ids ->
  (forall hr, In hr hrels -> r2r_hproper s (snd hr)) ->
  r2h_post m (r2h_leak_newbatch m ids vals nofn) s (step_op debug (ONewBatch m ids hrels vals nofn) s) /\
  r2h_logged_fresh s (step_op debug (ONewBatch m ids hrels vals nofn) s).
Proof.
  intros m ids hrels vals nofn Hm Hreg Hp. cbn [step_op].
  destruct (r2e_resolveR hrels s) as [(rels & E1 & HR)|(er & E1)].
  2:{ rewrite (sa_bind_err E1). split; [|intros res s1 Er; discriminate]. apply r2u_post_refl. }
  rewrite (sa_bind_ok E1).
  assert (Hh : r2n_handles s rels) by (intros r Hr; apply (r2u_targets_ok hrels rels HR Hp r Hr)).
  pose proof (r2n_new_batch_spec s m ids rels vals (negb nofn) HS HK Hno Hlk Hm Hreg Hh) as Hsp.
  destruct (r2h_fnp_w_new_batch m ids rels vals (negb nofn) s Hno) as (_ & Hpc).
  unfold bind. destruct (w_new_batch m ids rels vals (negb nofn) s) as [u s'|er s'] eqn:E; cbn [state_of] in Hpc.
  - destruct Hsp as ((A & B & C) & D & FU & _ & _ & _ & es & (Hfr & _ & Hoth) & Hlog).
    pose proof FU as (F1 & _ & _ & _ & F5 & _). split.
    + unfold r2h_post, ret. cbn [state_of is_err]. split; [|left; exact D].
      split; [exact A|]. split; [exact B|]. split; [exact C|]. split; [exact F1|]. split; [exact F5|].
      split; [apply r2h_pc_step; exact Hpc|]. intros x Hx. left. apply (r2h_fresh_keeps s s' m es Hfr Hoth x Hx).
    + intros res s1 Er Hl0 e He. unfold ret in Er. injection Er as _ <-. rewrite Hlog, Hl0 in He. cbn [app] in He.
      destruct (negb nofn); [|destruct He]. rewrite r2h_logged_entries in He.
      destruct Hfr as (_ & _ & Hf). destruct (Hf e He) as (L0 & L1 & _). split; assumption.
  - destruct Hsp as ((A & B & C) & FU & Hcase). pose proof FU as (F1 & _ & _ & _ & F5 & _).
    split; [|intros res s1 Er; discriminate].
    unfold r2h_post. cbn [state_of is_err].
    assert (Hkeep : forall x, live s x = true -> live s' x = true).
    { destruct Hcase as [(-> & _)|[(_ & _ & _ & Hnb & _)|[(_ & _ & _ & _ & _ & _ & _ & es & Hfr & _ & Hoth)|(_ & _ & _ & _ & _ & _ & _ & _ & e0 & rest & Hfr & Hoth & _)]]].
      - intros x Hx. exact Hx.
      - intros x Hx. rewrite (proj1 (Hnb x)). exact Hx.
      - apply (r2h_fresh_keeps s s' m es Hfr Hoth).
      - apply (r2h_fresh_keeps s s' m (e0 :: rest) Hfr Hoth). }
    split.
    { split; [exact A|]. split; [exact B|]. split; [exact C|]. split; [exact F1|]. split; [exact F5|].
      split; [apply r2h_pc_step; exact Hpc|]. intros x Hx. left. apply (Hkeep x Hx). }
    destruct Hcase as [(-> & _)|[(_ & _ & _ & _ & Hl)|[(_ & _ & _ & _ & _ & Hl & _)|(_ & Hfn & Hpos & Hbad & _)]]].
    + left. exact Hlk.
    + left. exact Hl.
    + left. exact Hl.
    + right. split; [reflexivity|]. split; [destruct nofn; [discriminate Hfn|reflexivity]|]. split; assumption.
Qed.

End r2u_ops.

(* ================================================================================================ *)
(** * Part 2: one batch operation, the handles of an epoch *)

(** the handles of a batch line in relation-TARGET position (the batch relations [brels] only select tables) *)
Definition rel_u_handles (o : op) : list Z :=
  match o with
  | ONewBatch _ _ hrels _ _ | OExchangeBatch _ _ _ _ hrels _ | OSetRelBatch _ _ _ hrels => map snd hrels
  | _ => []
  end.

(** the handles whose id must lie within the pool (hypothesis [r2x_args] of Rel2BatchExchange) *)
Definition rel_u_ranged (o : op) : list Z :=
  match o with OExchangeBatch _ _ _ _ hrels _ => map snd hrels | _ => [] end.

Definition r2u_hrange (s : W) (h : Z) : Prop := forall x, handle s h = Some x -> fst x < length (w_istarget s).

Definition r2u_handles_ok (s : W) (o : op) : Prop :=
  (forall h, In h (rel_u_handles o) -> r2r_hproper s h) /\ (forall h, In h (rel_u_ranged o) -> r2u_hrange s h).

(** The side condition on a batch line: every FOREIGN handle (a non-negative index below the epoch) in relation-target
    position is proper, and within the pool for OExchangeBatch. *)
Definition r2u_foreign_ok (k : nat) (s : W) (o : op) : Prop :=
  (forall h, In h (rel_u_handles o) -> Z.ltb h 0 = false -> Z.to_nat h < k -> r2r_hproper s h) /\
  (forall h, In h (rel_u_ranged o) -> Z.ltb h 0 = false -> Z.to_nat h < k -> r2u_hrange s h).

(** a handle of the current epoch lies within the pool *)
Lemma r2u_current_range : forall s n k h, WF s -> issued_ok_from k s n ->
  (Z.ltb h 0 = true \/ k <= Z.to_nat h) -> r2u_hrange s h.
Proof.
  intros s n k h HW (I1 & _) Hh x Hx. destruct (wf_index_len _ HW) as (L1 & L2). rewrite L2, L1.
  unfold handle in Hx. destruct (Z.ltb h 0) eqn:Eh.
  - injection Hx as <-. cbn. destruct (wf_pool _ HW) as (fl & (Hp & _) & _). lia.
  - destruct Hh as [Hc|Hk]; [discriminate|]. destruct (I1 x (r2r_nth_skipn _ _ k _ x Hx Hk)) as (R & _). lia.
Qed.

Lemma r2u_current_ok : forall s n k o, WF s -> issued_ok_from k s n -> r2u_foreign_ok k s o -> r2u_handles_ok s o.
Proof.
  intros s n k o HW HI (F1 & F2). split.
  - intros h Hin. destruct (Z.ltb h 0) eqn:Eh; [apply (r2r_current_proper s n k h HW HI); left; exact Eh|].
    destruct (Nat.lt_ge_cases (Z.to_nat h) k) as [Hlt|Hge]; [apply (F1 h Hin Eh Hlt)|].
    apply (r2r_current_proper s n k h HW HI). right. exact Hge.
  - intros h Hin. destruct (Z.ltb h 0) eqn:Eh; [apply (r2u_current_range s n k h HW HI); left; exact Eh|].
    destruct (Nat.lt_ge_cases (Z.to_nat h) k) as [Hlt|Hge]; [apply (F2 h Hin Eh Hlt)|].
    apply (r2u_current_range s n k h HW HI). right. exact Hge.
Qed.

Lemma r2u_hp_rels : forall s (hrels : list hrel), (forall h, In h (map snd hrels) -> r2r_hproper s h) ->
  forall hr, In hr hrels -> r2r_hproper s (snd hr).
Proof. intros s hrels H hr Hin. apply H. apply in_map. exact Hin. Qed.

(** One batch operation on an unlocked world, from state-level facts only. *)
Theorem r2u_batch_spec : forall debug s o, St2 s -> r2d_KeysLive s -> r2e_noobs s -> is_locked s = false -> r2r_ids2 s ->
  room_n s (r2h_created o) -> r2h_batch_op o = true -> registered s (r2h_op_ids o) -> r2u_handles_ok s o ->
  r2h_post (r2h_created o) (r2h_leak s o) s (step_op debug o s) /\
  (issues_from_log o = true -> r2h_logged_fresh s (step_op debug o s)).
Proof.
  intros debug s o HS HK Hno Hlk Hids Hroom Hb Hreg (Hp & Hr).
  destruct o; try discriminate Hb; cbn [r2h_created r2h_op_ids r2h_leak issues_from_log rel_u_handles rel_u_ranged] in *.
  - destruct (r2u_op_ONewEntities debug s HS HK Hno Hlk n nofn Hroom) as (A & B). split; [exact A|intros _; exact B].
  - split; [apply (r2u_op_ORemoveEntities debug s HS HK Hno Hlk)|discriminate].
  - destruct (r2u_op_ONewBatch debug s HS HK Hno Hlk Hids n ids rels vals nofn Hroom Hreg (r2u_hp_rels s rels Hp)) as (A & B).
    split; [exact A|intros _; exact B].
  - split; [|discriminate]. apply (r2u_op_OExchangeBatch debug s HS HK Hno Hlk Hids); [exact Hreg|apply (r2u_hp_rels s rels Hp)|].
    intros hr x Hin Hh. apply (Hr (snd hr)); [apply in_map; exact Hin|exact Hh].
  - split; [|discriminate]. apply (r2u_op_OSetRelBatch debug s HS HK Hno Hlk Hids). apply (r2u_hp_rels s rels Hp).
Qed.

(** ** Handle accounting relative to an epoch *)

(** the world with the foreign handles forgotten: [issued_ok_from k s] is [issued_ok] of it *)
Definition r2u_cut (k : nat) (s : W) : W := s <| w_issued := skipn k (w_issued s) |>.

Lemma r2u_from_cut : forall k s n, issued_ok_from k s n <-> issued_ok (r2u_cut k s) n.
Proof. intros k s n. unfold issued_ok_from, issued_ok, r2u_cut. cbn. tauto. Qed.

Lemma r2u_trans_issued_from : forall k s s' n m, WF s -> issued_ok_from k s n -> n + m + 4 < Nat.pow 2 31 ->
  r2h_trans m s s' -> issued_ok_from k s' (n + S m).
Proof.
  intros k s s' n m HW HI Hn (_ & _ & _ & _ & Ei & HP & HL).
  apply r2u_from_cut. apply r2u_from_cut in HI.
  apply (r2h_issued_step (r2u_cut k s) (r2u_cut k s') n m HI Hn HP).
  - unfold r2u_cut. cbn. rewrite Ei. reflexivity.
  - intros x Hx Hl. change (live s x = true) in Hl. change (live (r2u_cut k s') x) with (live s' x).
    change (w_pool (r2u_cut k s')) with (w_pool s').
    destruct (HL x Hl) as [H|(l & E)]; [left; exact H|right].
    exists l, (N.modulo (snd x + 1) 4294967296). split; [exact E|].
    destruct HI as (_ & I2 & _). destruct (live_alive s x HW Hl) as (Ha & H2). destruct (sc_alive_slot s x Ha) as (l0 & E0).
    pose proof (I2 _ _ _ E0 H2) as Hg. pose proof (sc_pow_bound n ltac:(lia)) as Hb. rewrite N.mod_small by lia. lia.
Qed.

Lemma r2u_skipn_app : forall A (l es : list A) k x, In x (skipn k (l ++ es)) -> In x (skipn k l) \/ In x es.
Proof.
  intros A l es k x H. rewrite skipn_app in H. apply in_app_or in H. destruct H as [H|H]; [left; exact H|].
  right. apply (r2r_skipn_in _ _ _ _ H).
Qed.

(** handing out handles of stored entities; the log is cleared *)
Lemma r2u_finish_R : forall s1 m k (es : list ent), Inv2R s1 m k -> (forall e, In e es -> live s1 e = true) ->
  Inv2R (s1 <| w_issued ::= fun l => l ++ es |> <| w_log := [] |>) m k.
Proof.
  intros s1 m k es (H1 & H2 & H3 & H4 & H5 & H6 & H7) Hes.
  set (s' := s1 <| w_issued ::= fun l => l ++ es |> <| w_log := [] |>).
  assert (HL : forall x, live s' x = live s1 x) by (intros x; reflexivity).
  split; [apply (r2e_St2_ext s1 s'); try reflexivity; exact H1|].
  split; [apply (r2d_KeysLive_mono s1 s' H2 eq_refl); intros x Hx; exact Hx|].
  split; [apply (r2B_noobs_oagg s1 s' eq_refl H3)|].
  split.
  { apply (r2r_issued_ext k s1 s' m eq_refl HL); [|exact H4]. intros x Hx.
    change (w_issued s') with (w_issued s1 ++ es) in Hx. apply r2u_skipn_app in Hx. destruct Hx as [Hx|Hx]; [left; exact Hx|right].
    pose proof (Hes x Hx) as Hl. destruct (live_alive s1 x (proj1 H1) Hl) as (Ha & Hge). destruct (sc_alive_slot s1 x Ha) as (l & E).
    apply sa_nth_error_lt in E. split; [split; assumption|exact Hl]. }
  split; [apply (r2q_tabled_ext s1 s' eq_refl H5)|]. split; [apply (r2q_filters_ok_ext s1 s' eq_refl eq_refl H6)|].
  intros x Hx. change (w_issued s') with (w_issued s1 ++ es) in Hx. apply in_app_or in Hx.
  destruct Hx as [Hx|Hx]; [apply (H7 x Hx)|]. apply (live_alive s1 x (proj1 H1) (Hes x Hx)).
Qed.

(* ================================================================================================ *)
(** * Part 3: one step of a batch line under the epoch-relative invariant *)

Definition InvAllR (s : W) (n k : nat) : Prop := Inv2R s n k.

Lemma r2u_handles_ok_log : forall s o l, r2u_handles_ok s o -> r2u_handles_ok (s <| w_log := l |>) o.
Proof.
  intros s o l (A & B). split.
  - intros h Hin. apply (r2r_hproper_ext s _ h eq_refl eq_refl (fun x => eq_refl)). apply (A h Hin).
  - intros h Hin x Hx. apply (B h Hin x Hx).
Qed.

Theorem step_inv_allR_batch : forall debug wd s n k line o,
  InvAllR s n k -> n + r2h_created o + 4 < Nat.pow 2 31 -> decode_op line = Some o -> r2h_batch_op o = true ->
  (forall c, In c (r2h_op_ids o) -> c < length (w_reg s)) ->
  (is_locked s = false -> r2u_foreign_ok k s o) ->
  let s' := fst (step debug wd s line) in
  InvAllR s' (n + S (r2h_created o)) k /\ w_reg s' = w_reg s /\
  (exists es, w_issued s' = w_issued s ++ es /\ forall e, In e es -> live s' e = true /\ live s e = false) /\
  (is_locked s = true -> s' = s <| w_log := [] |>) /\
  (is_locked s = false ->
     is_locked s' = false \/ (is_err (step_op debug o (s <| w_log := [] |>)) = true /\ r2h_leak (s <| w_log := [] |>) o)).
Proof.
  intros debug wd s n k line o HI Hn Hd Hb Hreg Hfor. cbv zeta. unfold InvAllR in *.
  destruct (is_locked s) eqn:Hl.
  - pose proof (r2u_batch_locked debug wd s line o Hd Hb Hl) as E. rewrite E.
    split; [apply (r2r_Inv2R_mono _ n); [lia|apply r2r_Inv2R_log; exact HI]|].
    split; [reflexivity|]. split; [exists []; split; [cbn; rewrite app_nil_r; reflexivity|intros e []]|].
    split; [reflexivity|discriminate].
  - pose proof (r2u_fr_step debug wd s line o Hd Hb) as Hfr. revert Hfr.
    rewrite (r2h_step_state debug wd s line o Hd Hb). cbv zeta. intros Hfr.
    pose proof (r2r_Inv2R_log s n k [] HI) as HI0. pose proof HI as (HSs & _ & _ & _ & HTs & HFs & _).
    set (s0 := s <| w_log := [] |>) in *.
    destruct HI0 as (HS0 & HK0 & Hno0 & Hiss0 & HT0 & HF0 & Hids0).
    assert (Hroom0 : room_n s0 (r2h_created o)) by (destruct Hiss0 as (_ & _ & I3); unfold room_n; sc_lia).
    assert (Hok0 : r2u_handles_ok s0 o).
    { apply r2u_handles_ok_log. apply (r2u_current_ok s n k o (proj1 HSs)); [apply HI|apply (Hfor eq_refl)]. }
    destruct (r2u_batch_spec debug s0 o HS0 HK0 Hno0 Hl Hids0 Hroom0 Hb Hreg Hok0) as ((T & Hlock) & Hlg).
    pose proof (r2u_trans_issued_from k s0 _ n (r2h_created o) (proj1 HS0) Hiss0 Hn T) as HIs.
    destruct T as (T1 & T2 & T3 & T4 & T5 & T6 & T7).
    set (r := step_op debug o s0) in *. set (s1 := state_of r) in *.
    assert (Hes : exists es, (if (issues_from_log o && negb (is_err r))%bool
                              then s1 <| w_issued ::= fun l => l ++ logged_entities (w_log s1) |> else s1) <| w_log := [] |>
                             = s1 <| w_issued ::= fun l => l ++ es |> <| w_log := [] |> /\
                             forall e, In e es -> live s1 e = true /\ live s0 e = false).
    { destruct (issues_from_log o) eqn:Ei; cbn [andb].
      - destruct r as [res s1'|er s1'] eqn:Er; cbn [is_err negb].
        + exists (logged_entities (w_log s1)). split; [reflexivity|]. intros e He. apply (Hlg eq_refl res s1' eq_refl eq_refl e He).
        + exists []. split; [apply r2h_issued_nil|intros e []].
      - exists []. split; [apply r2h_issued_nil|intros e []]. }
    destruct Hes as (es & Ees & Hesl). rewrite Ees in *.
    assert (HI1 : Inv2R s1 (n + S (r2h_created o)) k).
    { assert (Hfr1 : r2u_fr s s1).
      { apply (r2u_fr_trans s s0); [apply r2u_fr_same; reflexivity|]. apply (r2u_frp_step_op debug o Hb s0). }
      split; [exact T1|]. split; [exact T2|]. split; [exact T3|]. split; [exact HIs|].
      split; [apply (r2u_fr_H s s1 Hfr1 HSs T1 HTs)|].
      split; [destruct Hfr1 as (_ & (Ef & _)); apply (r2q_filters_ok_ext s s1 T4 Ef HFs)|].
      intros x Hx. rewrite T5 in Hx. apply (Hids0 x Hx). }
    split; [apply (r2u_finish_R s1 _ k es HI1); intros e He; apply (Hesl e He)|].
    split; [exact T4|]. split.
    { exists es. split; [cbn; rewrite T5; reflexivity|]. intros e He. exact (Hesl e He). }
    split; [discriminate|]. intros _. exact Hlock.
Qed.

(* ================================================================================================ *)
(** * Part 4: one step of the merged class with Reset; histories *)

Definition rel_allR_op (o : op) : bool := (rel_r_op o || r2h_batch_op o)%bool.

Lemma r2u_opR_cases : forall o, rel_allR_op o = true ->
  (rel_r_op o = true /\ r2h_batch_op o = false /\ r2h_created o = 0 /\ r2h_op_ids o = [] /\ rel_u_handles o = [] /\ rel_u_ranged o = []) \/
  (rel_r_op o = false /\ r2h_batch_op o = true /\ rel_op_ids o = [] /\ rel_r_handles o = [] /\ forall k s, r2r_epoch k s o = k).
Proof.
  intros o H. unfold rel_allR_op in H. destruct (r2h_batch_op o) eqn:Hb.
  - right. destruct o; try discriminate Hb; repeat split; reflexivity.
  - left. rewrite Bool.orb_false_r in H. destruct o; try discriminate Hb; repeat split; try reflexivity; exact H.
Qed.

(** One step of a decoded line of the merged class keeps the invariant, in BOTH outcomes, in locked and unlocked worlds;
    a Reset on an unlocked world moves the epoch to the end of [w_issued]. Side conditions: added component ids are
    registered; [rel_q_flt_ok] for UnsafeFilter lines; for a structural line on an unlocked world the FOREIGN handles in
    the positions looked at through the generation check alone are proper ([r2r_foreign_ok] for the single-entity
    operations, [r2u_foreign_ok] for the batch operations). *)
Theorem step_inv_allR : forall debug wd s n k line o,
  InvAllR s n k -> n + r2h_created o + 4 < Nat.pow 2 31 -> decode_op line = Some o -> rel_allR_op o = true ->
  (forall c, In c (rel_all_ids o) -> c < length (w_reg s)) -> rel_q_flt_ok (w_reg s) o ->
  (is_locked s = false -> r2r_foreign_ok k s o /\ r2u_foreign_ok k s o) ->
  let s' := fst (step debug wd s line) in
  InvAllR s' (n + S (r2h_created o)) (r2r_epoch k s o) /\ w_reg s' = w_reg s /\
  (exists es, w_issued s' = w_issued s ++ es /\ forall e, In e es -> live s' e = true /\ live s e = false).
Proof.
  intros debug wd s n k line o HI Hn Hd Hop Hreg Hflt Hfor. cbv zeta.
  destruct (r2u_opR_cases o Hop) as [(Hq & _ & Hc & _)|(_ & Hb & _ & _ & Hk)].
  - rewrite Hc in *. rewrite Nat.add_0_r in Hn. rewrite Nat.add_1_r.
    destruct (step_inv2R debug wd s n k line o HI Hn Hd Hq) as (S1 & S2 & S3).
    { intros c Hin. apply Hreg. unfold rel_all_ids. apply in_or_app. left. exact Hin. }
    { exact Hflt. }
    { intros Hl. apply (Hfor Hl). }
    split; [exact S1|]. split; [exact S2|].
    destruct S3 as [E|(e & E & L1 & L0 & _)].
    + exists []. split; [rewrite app_nil_r; exact E|intros e []].
    + exists [e]. split; [exact E|]. intros x [<-|[]]. split; assumption.
  - rewrite Hk.
    destruct (step_inv_allR_batch debug wd s n k line o HI Hn Hd Hb) as (S1 & S2 & S3 & _).
    { intros c Hin. apply Hreg. unfold rel_all_ids. apply in_or_app. right. exact Hin. }
    { intros Hl. apply (Hfor Hl). }
    split; [exact S1|]. split; [exact S2|exact S3].
Qed.

(** ** Histories: the state and the epoch after each line ([r2r_step] / [r2r_run_from] of Rel2HistR) *)

Definition rel_allR_line (reg : list ckind) (sk : W * nat) (line : list Z) : Prop :=
  exists o, decode_op line = Some o /\ rel_allR_op o = true /\ (forall c, In c (rel_all_ids o) -> c < length reg) /\
            rel_q_flt_ok reg o /\
            (is_locked (fst sk) = false -> r2r_foreign_ok (snd sk) (fst sk) o /\ r2u_foreign_ok (snd sk) (fst sk) o).

Fixpoint rel_allR_hist (debug : bool) (reg : list ckind) (sk : W * nat) (lines : list (list Z)) : Prop :=
  match lines with
  | [] => True
  | l :: rest => rel_allR_line reg sk l /\ rel_allR_hist debug reg (r2r_step debug sk l) rest
  end.

(** From ANY state satisfying the invariant (in particular from a fresh one: the world after a Reset) every covered
    history keeps it. *)
Theorem r2u_run_inv_R : forall debug reg lines s n k,
  InvAllR s n k -> w_reg s = reg -> rel_allR_hist debug reg (s, k) lines -> n + r2h_total lines + 4 < Nat.pow 2 31 ->
  InvAllR (fst (r2r_run_from debug (s, k) lines)) (n + r2h_total lines) (snd (r2r_run_from debug (s, k) lines)) /\
  w_reg (fst (r2r_run_from debug (s, k) lines)) = reg.
Proof.
  intros debug reg lines. induction lines as [|l lines IH]; intros s n k HI Hr HH Hb.
  - cbn. rewrite Nat.add_0_r. split; assumption.
  - cbn [rel_allR_hist] in HH. destruct HH as ((o & Hd & Hop & Hids & Hflt & Hfor) & HH).
    assert (Et : r2h_total (l :: lines) = r2h_cost l + r2h_total lines) by reflexivity.
    assert (Hcost : r2h_cost l = S (r2h_created o)) by (unfold r2h_cost; rewrite Hd; reflexivity).
    rewrite Et, Hcost in *.
    unfold r2r_run_from in *. cbn [fold_left]. cbn [fst snd] in Hfor.
    destruct (step_inv_allR debug false s n k l o HI) as (S1 & S2 & _); auto; try lia.
    { rewrite Hr. exact Hids. }
    { rewrite Hr. exact Hflt. }
    unfold r2r_step in *. cbn [fst snd] in *. rewrite Hd in *.
    destruct (IH _ (n + S (r2h_created o)) _ S1) as (A & B); [congruence|exact HH|lia|].
    replace (n + (S (r2h_created o) + r2h_total lines)) with (n + S (r2h_created o) + r2h_total lines) by lia.
    split; assumption.
Qed.

Theorem reachable_inv_allR : forall c lines,
  cfg_ok2 c -> rel_allR_hist (sc_debug c) (sc_kinds c) (init_world c, 0) lines -> r2h_total lines + 4 < Nat.pow 2 31 ->
  InvAllR (Properties.Common.exec c lines) (r2h_total lines) (r2r_epoch_of c lines).
Proof.
  intros c lines Hc HH Hb. rewrite <- r2r_run_exec. unfold r2r_epoch_of, r2r_run.
  destruct (r2u_run_inv_R (sc_debug c) (sc_kinds c) lines (init_world c) 0 0) as (A & _); auto.
  apply r2r_Inv2R_of_Q. apply r2q_init. exact Hc.
Qed.

(** From a fresh world (the world after a successful Reset) every covered history keeps the invariant, with the step
    counter restarting at 0 and every earlier handle foreign. *)
Theorem fresh_start_inv_allR : forall debug lines s,
  r2r_fresh s -> rel_allR_hist debug (w_reg s) (s, length (w_issued s)) lines -> r2h_total lines + 4 < Nat.pow 2 31 ->
  InvAllR (fst (r2r_run_from debug (s, length (w_issued s)) lines)) (r2h_total lines)
          (snd (r2r_run_from debug (s, length (w_issued s)) lines)).
Proof.
  intros debug lines s HF HH Hb.
  destruct (r2u_run_inv_R debug (w_reg s) lines s 0 (length (w_issued s)) (r2r_fresh_inv s HF) eq_refl HH) as (A & _); [lia|exact A].
Qed.

(** The histories of Rel2HistR and of Rel2HistAll (epoch 0: no handle is foreign) are covered. *)
Lemma rel_r_line_allR : forall reg sk line, rel_r_line reg sk line -> rel_allR_line reg sk line.
Proof.
  intros reg sk line (o & Hd & Hop & Hids & Hflt & Hfor).
  assert (Hall : rel_allR_op o = true) by (unfold rel_allR_op; rewrite Hop; reflexivity).
  destruct (r2u_opR_cases o Hall) as [(_ & _ & _ & E1 & E2 & E3)|(Hq & _)]; [|congruence].
  exists o. split; [exact Hd|]. split; [exact Hall|]. split; [|split; [exact Hflt|]].
  - intros c Hin. unfold rel_all_ids in Hin. rewrite E1, app_nil_r in Hin. apply Hids. exact Hin.
  - intros Hl. split; [apply (Hfor Hl)|]. unfold r2u_foreign_ok. rewrite E2, E3. split; intros h [].
Qed.

Lemma rel_r_hist_allR : forall debug reg lines sk, rel_r_hist debug reg sk lines -> rel_allR_hist debug reg sk lines.
Proof.
  intros debug reg lines. induction lines as [|l lines IH]; intros sk H; [exact I|].
  destruct H as (H1 & H2). split; [apply rel_r_line_allR; exact H1|apply IH; exact H2].
Qed.

(** ... and so are the histories of Rel2HistAll (stage 1): without Reset the epoch stays 0 and no handle is foreign. *)
Lemma rel_all_hist_allR : forall debug reg lines s, Forall (rel_all_line reg) lines -> rel_allR_hist debug reg (s, 0) lines.
Proof.
  intros debug reg lines. induction lines as [|l lines IH]; intros s HF; [exact I|].
  inversion HF as [|? ? (o & Hd & Hop & Hids & Hflt) HF']; subst. split.
  - exists o. split; [exact Hd|]. split.
    { unfold rel_all_op in Hop. unfold rel_allR_op, rel_r_op. destruct (rel_q_op o); [reflexivity|].
      cbn [orb] in Hop |- *. rewrite Hop. apply Bool.orb_true_r. }
    split; [exact Hids|]. split; [exact Hflt|]. intros _. cbn [snd]. split.
    + intros h _ _ Hlt. lia.
    + split; intros h _ _ Hlt; lia.
  - unfold r2r_step. cbn [fst snd]. rewrite Hd.
    assert (Ek : r2r_epoch 0 s o = 0).
    { destruct o; try reflexivity. unfold rel_all_op, rel_q_op in Hop. discriminate Hop. }
    rewrite Ek. apply IH. exact HF'.
Qed.

(* ================================================================================================ *)
(** * Part 5: corollaries over the full class *)

Theorem targets_always_zero_or_alive_allR : forall c lines e cmp x,
  cfg_ok2 c -> rel_allR_hist (sc_debug c) (sc_kinds c) (init_world c, 0) lines -> r2h_total lines + 4 < Nat.pow 2 31 ->
  tgt (Properties.Common.exec c lines) e cmp = Some x ->
  x = zero_ent \/ live (Properties.Common.exec c lines) x = true.
Proof.
  intros c lines e cmp x Hc Hl Hb H. destruct (reachable_inv_allR c lines Hc Hl Hb) as (HS & _).
  apply (r2_St2_targets _ e cmp x HS H).
Qed.

Lemma r2u_run_log : forall debug reg lines sk, rel_allR_hist debug reg sk lines -> w_log (fst sk) = [] ->
  w_log (fst (r2r_run_from debug sk lines)) = [].
Proof.
  intros debug reg lines. induction lines as [|l lines IH]; intros sk HH H0; [exact H0|].
  destruct HH as ((o & Hd & _) & HH). unfold r2r_run_from in *. cbn [fold_left]. apply (IH _ HH).
  unfold r2r_step. cbn [fst]. apply (r2q_step_log _ _ _ _ o Hd).
Qed.

(** C07: in every reachable LOCKED state every structural operation (batch operations, Shrink and Reset included) fails and
    leaves the state exactly unchanged. *)
Theorem reachable_locked_structural_unchanged_allR : forall c lines wd line o,
  rel_allR_hist (sc_debug c) (sc_kinds c) (init_world c, 0) lines ->
  is_locked (Properties.Common.exec c lines) = true -> decode_op line = Some o -> structural o = true ->
  (exists er, step_op (sc_debug c) o (Properties.Common.exec c lines) = Err er (Properties.Common.exec c lines)) /\
  fst (step (sc_debug c) wd (Properties.Common.exec c lines) line) = Properties.Common.exec c lines.
Proof.
  intros c lines wd line o Hl Hlk Hd Hs.
  apply (locked_structural_step_unchanged (sc_debug c) wd _ line o Hd Hs Hlk).
  rewrite <- r2r_run_exec. unfold r2r_run. apply (r2u_run_log _ _ _ _ Hl). reflexivity.
Qed.

(** C16: Reset succeeds in every UNLOCKED reachable state, and the result is a fresh world ([r2r_fresh]: the invariant
    with a new epoch and a new step counter, nothing stored, pool = [pool_new], ...); on a locked one it is rejected. *)
Theorem reachable_unlocked_reset_succeeds_allR : forall c lines,
  cfg_ok2 c -> rel_allR_hist (sc_debug c) (sc_kinds c) (init_world c, 0) lines -> r2h_total lines + 4 < Nat.pow 2 31 ->
  let s := Properties.Common.exec c lines in
  (is_locked s = false -> exists s', step_op (sc_debug c) OReset s = Ok [] s' /\ r2r_fresh s' /\
                                     w_reg s' = w_reg s /\ w_cfg s' = w_cfg s /\ w_issued s' = w_issued s) /\
  (is_locked s = true -> exists er, step_op (sc_debug c) OReset s = Err er s).
Proof.
  intros c lines Hc Hl Hb s. split; intros Hlk.
  - destruct (r2r_reset_unlocked (sc_debug c) s _ _ (reachable_inv_allR c lines Hc Hl Hb) Hlk) as (s' & E & A1 & A2 & A3 & A4 & _).
    exists s'. repeat (split; [assumption|]). exact A4.
  - apply (r2r_reset_locked (sc_debug c) s Hlk).
Qed.

(** C04: removing a stored target (through ANY handle that denotes it) in an unlocked reachable state detaches it. *)
Theorem remove_target_detaches_allR : forall c lines h x,
  cfg_ok2 c -> rel_allR_hist (sc_debug c) (sc_kinds c) (init_world c, 0) lines -> r2h_total lines + 4 < Nat.pow 2 31 ->
  let s := Properties.Common.exec c lines in
  is_locked s = false -> handle s h = Some x -> live s x = true ->
  exists s', step_op (sc_debug c) (ORemoveEntity h) s = Ok [] s' /\ St2 s' /\ live s' x = false /\
    forall e, e <> x -> live s' e = live s e /\ (forall cmp, val s' e cmp = val s e cmp) /\
      (forall cmp, tgt s' e cmp = r2c_detached x (tgt s e cmp)).
Proof.
  intros c lines h x Hc Hl Hb s Hlk Hh Hlx.
  destruct (remove_target_detaches_step_R (sc_debug c) s _ _ h x (reachable_inv_allR c lines Hc Hl Hb) Hlk Hh Hlx)
    as (s' & E & P1 & _ & P3 & _ & P5).
  exists s'. repeat (split; [assumption|]). exact P5.
Qed.

Theorem reachable_filters_ok_allR : forall c lines fi f,
  cfg_ok2 c -> rel_allR_hist (sc_debug c) (sc_kinds c) (init_world c, 0) lines -> r2h_total lines + 4 < Nat.pow 2 31 ->
  nth_error (w_filters (Properties.Common.exec c lines)) fi = Some f ->
  r2k_rels_ok (Properties.Common.exec c lines) (f_mask f) (f_rels f) /\ r2k_tabled (Properties.Common.exec c lines) f.
Proof.
  intros c lines fi f Hc Hl Hb Hf. destruct (reachable_inv_allR c lines Hc Hl Hb) as (_ & _ & _ & _ & HT & HF & _).
  split; [apply (HF fi f Hf)|]. intros aid a Ha _ Hn. apply (HT aid a Ha Hn).
Qed.

(* ================================================================================================ *)
(** * Part 6: a checker for histories, non-vacuity *)

(** (stronger than [r2u_foreign_ok]: ALL handles in the positions, foreign or not) *)
Definition r2u_foreign_okb (s : W) (o : op) : bool :=
  (forallb (fun h => match handle s h with Some x => r2r_properb s x | None => true end) (rel_u_handles o) &&
   forallb (fun h => match handle s h with Some x => Nat.ltb (fst x) (length (w_istarget s)) | None => true end) (rel_u_ranged o))%bool.

Lemma r2u_foreign_okb_sound : forall k s o, r2u_foreign_okb s o = true -> r2u_foreign_ok k s o.
Proof.
  intros k s o H. unfold r2u_foreign_okb in H. apply andb_true_iff in H. destruct H as (H1 & H2). split.
  - intros h Hin _ _ x Hx Ha. rewrite forallb_forall in H1. specialize (H1 h Hin). rewrite Hx in H1.
    unfold r2r_properb in H1. rewrite Ha in H1. exact H1.
  - intros h Hin _ _ x Hx. rewrite forallb_forall in H2. specialize (H2 h Hin). rewrite Hx in H2. apply Nat.ltb_lt. exact H2.
Qed.

Definition rel_allR_line_b (reg : list ckind) (sk : W * nat) (line : list Z) : bool :=
  match decode_op line with
  | Some o => (rel_allR_op o && forallb (fun c => Nat.ltb c (length reg)) (rel_all_ids o) && rel_q_flt_okb reg o &&
               r2r_foreign_okb (fst sk) o && r2u_foreign_okb (fst sk) o)%bool
  | None => false
  end.

Fixpoint rel_allR_hist_b (debug : bool) (reg : list ckind) (sk : W * nat) (lines : list (list Z)) : bool :=
  match lines with
  | [] => true
  | l :: rest => (rel_allR_line_b reg sk l && rel_allR_hist_b debug reg (r2r_step debug sk l) rest)%bool
  end.

Lemma rel_allR_line_b_sound : forall reg sk line, rel_allR_line_b reg sk line = true -> rel_allR_line reg sk line.
Proof.
  intros reg sk line H. unfold rel_allR_line_b in H. destruct (decode_op line) as [o|] eqn:E; [|discriminate].
  apply andb_true_iff in H. destruct H as (H1234 & H5). apply andb_true_iff in H1234. destruct H1234 as (H123 & H4).
  apply andb_true_iff in H123. destruct H123 as (H12 & H3). apply andb_true_iff in H12. destruct H12 as (H1 & H2).
  exists o. split; [exact E|]. split; [exact H1|]. split; [|split; [apply rel_q_flt_okb_sound; exact H3|]].
  - intros c Hc. rewrite forallb_forall in H2. apply Nat.ltb_lt. apply H2. exact Hc.
  - intros _. split; [apply r2r_foreign_okb_sound; exact H4|apply r2u_foreign_okb_sound; exact H5].
Qed.

Lemma rel_allR_hist_b_sound : forall debug reg lines sk, rel_allR_hist_b debug reg sk lines = true -> rel_allR_hist debug reg sk lines.
Proof.
  intros debug reg lines. induction lines as [|l lines IH]; intros sk H; [exact I|].
  cbn [rel_allR_hist_b] in H. apply andb_true_iff in H. destruct H as (H1 & H2).
  split; [apply rel_allR_line_b_sound; exact H1|apply IH; exact H2].
Qed.

Local Open Scope Z_scope.

(** components of [r2_cfg]: 0,1,2 plain; 3,4 relation components *)
Definition r2u_scriptR : list (list Z) :=
  [[0]; [0];                              (* handles 0 = (2,0), 1 = (3,0) *)
   [30; 2; 2;0;3; 1; 3;0; 1; 0;7];        (* NewBatch 2, components {0,3}, relation 3 -> handle 0, with callback: handles 2, 3 *)
   [15; 0; 2;0;3; 0; 0; 1; 3;0];          (* filter 0: components 0 and 3, fixed relation 3 -> handle 0 *)
   [16; 0];                               (* register it *)
   [15; 0; 1;0; 0; 0; 0];                 (* filter 1: component 0 *)
   [19; 0; 0];                            (* open a query: LOCKED *)
   [13];                                  (* Reset: rejected *)
   [12; 1; 0; 1];                         (* RemoveEntities: rejected *)
   [21; 0];                               (* Close *)
   [13];                                  (* RESET: the epoch moves to 4; handles 0..3 are foreign from here on *)
   [3; 2];                                (* NewEntities 2 with callback: handles 4 = (2,0), 5 = (3,0): the foreign handles 0, 1 alias them *)
   [30; 2; 2;0;3; 1; 3;0; 1; 0;7];        (* NewBatch with the FOREIGN handle 0 as relation target (it denotes the stored (2,0)): handles 6, 7 *)
   [30; 1; 2;0;3; 1; 3;2; 0];             (* NewBatch with the foreign handle 2 = (4,0), which aliases the stored handle 6: accepted, handle 8 *)
   [32; 1; 0; 1;3; 1; 3;5];               (* SetRelationsBatch through filter 1: relation 3 -> handle 5 (current epoch) *)
   [31; 1; 0; 1;1; 0; 1; 4;1; 0];         (* ExchangeBatch naming relation 4 without adding it: rejected by ToRelations *)
   [31; 1; 0; 2;1;4; 0; 1; 4;1; 0];       (* ExchangeBatch: add 1 and relation 4 -> FOREIGN handle 1 (denotes the stored (3,0)) *)
   [18; 0; 0];                            (* a complete iteration of filter 0 (unregistered by the Reset) *)
   [12; 1; 0; 1];                         (* RemoveEntities through filter 1 *)
   [13];                                  (* RESET: a third epoch *)
   [3; 1; 1]; [38]].

Example r2u_scriptR_covered :
  rel_allR_hist_b false (sc_kinds Rel2Check.r2_cfg) (init_world Rel2Check.r2_cfg, 0%nat) r2u_scriptR = true.
Proof. vm_compute. reflexivity. Qed.

(** the script is not a history of Rel2HistR (batch operations) *)
Example r2u_scriptR_new :
  rel_r_hist_b false (sc_kinds Rel2Check.r2_cfg) (init_world Rel2Check.r2_cfg, 0%nat) r2u_scriptR = false.
Proof. vm_compute. reflexivity. Qed.

(** 0 = the step returned normally, 1 = it panicked *)
Example r2u_scriptR_runs :
  Rel2Check.r2_flags Rel2Check.r2_cfg (init_world Rel2Check.r2_cfg) r2u_scriptR =
  [0;0; 0; 0; 0; 0; 0; 1; 1; 0; 0; 0; 0; 0; 0; 1; 0; 0; 0; 0; 0;0].
Proof. vm_compute. reflexivity. Qed.

(** epoch and lock after 0, 1, ... steps *)
Example r2u_scriptR_epochs :
  map (fun k => (r2r_epoch_of Rel2Check.r2_cfg (firstn k r2u_scriptR), is_locked (Properties.Common.exec Rel2Check.r2_cfg (firstn k r2u_scriptR))))
      (seq 0 23) =
  repeat (0%nat, false) 7 ++ repeat (0%nat, true) 3 ++ [(0%nat, false)] ++ repeat (4%nat, false) 9 ++ repeat (9%nat, false) 3.
Proof. vm_compute. reflexivity. Qed.

Lemma r2u_scriptR_hist : forall k,
  rel_allR_hist false (sc_kinds Rel2Check.r2_cfg) (init_world Rel2Check.r2_cfg, 0%nat) (firstn k r2u_scriptR).
Proof.
  intros k. apply rel_allR_hist_b_sound.
  assert (H : forall n, (n <= 22)%nat ->
     rel_allR_hist_b false (sc_kinds Rel2Check.r2_cfg) (init_world Rel2Check.r2_cfg, 0%nat) (firstn n r2u_scriptR) = true).
  { intros n Hn. do 23 (destruct n as [|n]; [vm_compute; reflexivity|]). lia. }
  destruct (Nat.le_gt_cases k 22) as [Hk|Hk]; [apply (H k Hk)|].
  rewrite firstn_all2; [exact r2u_scriptR_covered|]. cbn. lia.
Qed.

Example r2u_scriptR_inv :
  InvAllR (Properties.Common.exec Rel2Check.r2_cfg r2u_scriptR) (r2h_total r2u_scriptR) (r2r_epoch_of Rel2Check.r2_cfg r2u_scriptR) /\
  r2r_epoch_of Rel2Check.r2_cfg r2u_scriptR = 9%nat.
Proof.
  split; [|vm_compute; reflexivity].
  apply reachable_inv_allR; [exact r2q_cfg_ok| |apply r2_N_small; vm_compute; reflexivity].
  pose proof (r2u_scriptR_hist 22) as H. rewrite firstn_all2 in H by (cbn; lia). exact H.
Qed.

(** The state after 17 steps, in the SECOND epoch: batch-created entities whose relation targets were given through
    FOREIGN handles (handle 0 for relation 3 at creation, handle 1 for relation 4 in ExchangeBatch) and through a handle
    of the current epoch (SetRelationsBatch); the invariant holds. *)
Definition r2u_midR : W := Properties.Common.exec Rel2Check.r2_cfg (firstn 17 r2u_scriptR).

Example r2u_midR_inv : InvAllR r2u_midR (r2h_total (firstn 17 r2u_scriptR)) 4.
Proof.
  assert (E : r2r_epoch_of Rel2Check.r2_cfg (firstn 17 r2u_scriptR) = 4%nat) by (vm_compute; reflexivity). rewrite <- E.
  apply (reachable_inv_allR Rel2Check.r2_cfg (firstn 17 r2u_scriptR) r2q_cfg_ok (r2u_scriptR_hist 17)).
  apply r2_N_small. vm_compute. reflexivity.
Qed.

Example r2u_scriptR_effect :
  w_issued r2u_midR = [(2%nat, 0%N); (3%nat, 0%N); (4%nat, 0%N); (5%nat, 0%N); (2%nat, 0%N); (3%nat, 0%N); (4%nat, 0%N); (5%nat, 0%N); (6%nat, 0%N)] /\
  tgt (Properties.Common.exec Rel2Check.r2_cfg (firstn 13 r2u_scriptR)) (4%nat, 0%N) 3 = Some (2%nat, 0%N) /\
  tgt (Properties.Common.exec Rel2Check.r2_cfg (firstn 15 r2u_scriptR)) (4%nat, 0%N) 3 = Some (3%nat, 0%N) /\
  tgt r2u_midR (4%nat, 0%N) 4 = Some (3%nat, 0%N) /\ live r2u_midR (3%nat, 0%N) = true.
Proof. vm_compute. repeat split; reflexivity. Qed.

(** a LOCKED state of the history (after 8 steps): Reset and every batch call are rejected, the state is unchanged *)
Example r2u_lockedR_blocked : forall wd line o, decode_op line = Some o -> structural o = true ->
  let s := Properties.Common.exec Rel2Check.r2_cfg (firstn 8 r2u_scriptR) in
  (exists er, step_op false o s = Err er s) /\ fst (step false wd s line) = s.
Proof.
  intros wd line o Hd Hs.
  apply (reachable_locked_structural_unchanged_allR Rel2Check.r2_cfg (firstn 8 r2u_scriptR) wd line o (r2u_scriptR_hist 8)); auto.
Qed.

Example r2u_endR_reset : exists s', step_op false OReset (Properties.Common.exec Rel2Check.r2_cfg r2u_scriptR) = Ok [] s' /\ r2r_fresh s'.
Proof.
  pose proof (r2u_scriptR_hist 22) as H. rewrite firstn_all2 in H by (cbn; lia).
  destruct (reachable_unlocked_reset_succeeds_allR Rel2Check.r2_cfg r2u_scriptR r2q_cfg_ok H) as (A & _).
  - apply r2_N_small. vm_compute. reflexivity.
  - destruct A as (s' & E & HF & _); [vm_compute; reflexivity|]. exists s'. split; assumption.
Qed.

Local Close Scope Z_scope.

(** ** Assumption audit (stage 2) *)
Definition r2u_all_2 :=
  (r2u_batch_spec, r2u_trans_issued_from, r2u_current_ok, step_inv_allR_batch, step_inv_allR, r2u_run_inv_R, reachable_inv_allR,
   fresh_start_inv_allR, rel_r_hist_allR, rel_all_hist_allR, targets_always_zero_or_alive_allR, reachable_locked_structural_unchanged_allR,
   reachable_unlocked_reset_succeeds_allR, remove_target_detaches_allR, reachable_filters_ok_allR, rel_allR_hist_b_sound,
   r2u_scriptR_inv, r2u_scriptR_new, r2u_midR_inv, r2u_scriptR_effect, r2u_lockedR_blocked, r2u_endR_reset).
Print Assumptions r2u_all_2.
