(** * Rel2Batch: the batch operations in the relation tier (worlds WITH relation components).

    Proof package B. For every state satisfying [St2 s /\ r2d_KeysLive s /\ r2e_noobs s] that is unlocked:

    1. RemoveEntities ([w_remove_entities fi rels fn]), this file:
       - [r2B_remove_entities_spec]: for the tables [tabs] the filter selects the call succeeds, keeps
         [St2 /\ r2d_KeysLive /\ r2e_noobs], leaves the world unlocked; exactly the entities stored in the selected
         tables are dead afterwards (not stored, handle rejected); every other entity keeps [live] and [val], and its
         relation targets are what they were EXCEPT that a target that was a removed entity is the zero entity now
         ([r2B_detached], the batch analogue of [r2c_detached] / [r2e_remove_entity_spec]); the callback ran once per
         removed entity iff one was given; user-side fields and the pool size are unchanged;
       - [r2B_remove_entities_outcomes]: BOTH outcomes: the call fails only if no lock bit is available (fn = true) or
         the table selection fails (before anything is touched: the storage is literally unchanged, [storage_same]);
       - [r2B_remove_entities_never_fails] / [_cached]: for an existing unregistered (resp. registered) filter with
         well-formed batch relations the call never fails;
       - [r2B_remove_entities_inv]: invariant kept in both outcomes, as one statement.
       The proof is assembled from [r2r_rows_spec] (Rel2BatchRows: the row loop; the state between the two phases
       satisfies the window invariant for the SET of removed target ids) and [r2g_cleanup_list] (Rel2BatchClean:
       [cleanup_archetypes] for a set of dying entities).
    2. NewEntities / NewBatch: Proofs/Rel2BatchNew.v ([r2n_]).
    3. ExchangeBatch: Proofs/Rel2BatchExchange.v ([r2x_]).   4. SetRelationsBatch: Proofs/Rel2BatchSetRel.v ([r2s_]).
    5. The batch steps in the history class ([step_inv2B], [reachable_inv2B], the two lock-leak refutations):
       Proofs/Rel2BatchHist.v ([r2h_]).
    Helper prefix of this file: [r2B_]. *)
From Ark Require Import Model.Base Model.Mask Model.Pool Model.Util Model.World Model.Run.
From Ark Require Import Proofs.TableProofs Proofs.MaskProofs Proofs.Hoare Proofs.WF Proofs.StorageA Proofs.StorageBDefs
  Proofs.StorageB_sb1 Proofs.StorageB_sb2 Proofs.StorageB_sb3 Proofs.LockWorld Proofs.StorageC Proofs.ViewProofs Proofs.RelProofs
  Proofs.CacheProofs Proofs.BatchProofs Proofs.BatchOps
  Proofs.Rel2Defs Proofs.Rel2Struct Proofs.Rel2Remove Proofs.Rel2SetRel Proofs.Rel2Ops Proofs.Rel2Maint Proofs.Rel2Hist Proofs.Rel2Cache
  Proofs.Rel2BatchClean Proofs.Rel2BatchRows.
From Ark Require Properties.Common Proofs.Rel2Check.
From RecordUpdate Require Import RecordSet.
Import RecordSetNotations.
From Coq Require Import Lia.
Close Scope Z_scope.

(* ================================================================================================ *)
(** * Part 1: the table selection of a batch returns existing tables and does not touch the state *)

Lemma r2B_upure_valid : forall s f rels l acc r, WF s ->
  (forall a, In a l -> exists aid, nth_error (w_archs s) aid = Some a) ->
  k_upure (w_tables s) f rels l acc = inr r ->
  (forall x, In x acc -> exists t, nth_error (w_tables s) x = Some t) ->
  forall x, In x r -> exists t, nth_error (w_tables s) x = Some t.
Proof.
  intros s f rels l. induction l as [|a rest IH]; intros acc r HW Hl H Hacc x Hx.
  - cbn in H. inversion H; subst r. auto.
  - cbn [k_upure] in H.
    assert (Hl' : forall a0, In a0 rest -> exists aid, nth_error (w_archs s) aid = Some a0) by (intros; apply Hl; right; assumption).
    destruct (negb (filter_matches f (a_mask a))); [eapply IH; eauto|].
    destruct (negb (arch_has_rels a)).
    + destruct (a_tables a) as [|t0 tl] eqn:Eta; [discriminate|].
      eapply IH; [exact HW|exact Hl'|exact H| |exact Hx].
      intros y Hy. apply in_app_or in Hy. destruct Hy as [Hy|[<-|[]]]; [auto|].
      destruct (Hl a (or_introl eq_refl)) as (aid & Ha).
      destruct (wf_arch_tables _ HW aid a t0 Ha) as (t & Ht & _); [left; rewrite Eta; left; reflexivity|eauto].
    + destruct (arch_get_tables a rels) as [cand|]; [|discriminate].
      destruct (k_tm_pure (w_tables s) rels false cand []) as [er|ts] eqn:Etm; [discriminate|].
      eapply IH; [exact HW|exact Hl'|exact H| |exact Hx].
      intros y Hy. apply in_app_or in Hy. destruct Hy as [Hy|Hy]; [auto|].
      eapply bo_tm_pure_valid; [exact Etm|intros z []|exact Hy].
Qed.

(** [get_batch_tables] is read-only, and every selected table exists. *)
Lemma r2B_gbt_state : forall fi rels s, state_of (get_batch_tables fi rels s) = s.
Proof.
  intros fi rels s. rewrite bo_gbt_pure.
  destruct (bo_gbt (w_filters s) (w_cheap s) (w_centries s) (w_tables s) (w_archs s) fi rels); reflexivity.
Qed.

Lemma r2B_gbt_valid : forall s fi rels tabs s', WF s -> get_batch_tables fi rels s = Ok tabs s' ->
  s' = s /\ forall tid, In tid tabs -> exists t, nth_error (w_tables s) tid = Some t.
Proof.
  intros s fi rels tabs s' HW H. pose proof (r2B_gbt_state fi rels s) as Hst. rewrite H in Hst. cbn [state_of] in Hst. subst s'.
  split; [reflexivity|].
  rewrite bo_gbt_pure in H. unfold bo_gbt in H.
  destruct (nth_error (w_filters s) fi) as [f|]; [|discriminate].
  destruct (f_cache f) as [cid|].
  - destruct (find _ (w_centries s)) as [addr|]; [|discriminate].
    destruct (nth_error (w_cheap s) addr) as [e|]; [|discriminate].
    destruct (k_tm_pure (w_tables s) rels true (ce_tables e) []) as [er|r] eqn:E; cbn [k_inj] in H; [discriminate|].
    inversion H; subst r. eapply bo_tm_pure_valid; [exact E|intros x []].
  - destruct (k_upure (w_tables s) f rels (w_archs s) []) as [er|r] eqn:E; cbn [k_inj] in H; [discriminate|].
    inversion H; subst r. apply (r2B_upure_valid s f rels (w_archs s) [] tabs HW); [|exact E|intros x []].
    intros a Ha. apply In_nth_error in Ha. exact Ha.
Qed.

Lemma r2B_gbt_frame_err : forall fi rels s s' er, storage_same s s' ->
  get_batch_tables fi rels s = Err er s -> get_batch_tables fi rels s' = Err er s'.
Proof.
  intros fi rels s s' er SS H. rewrite bo_gbt_pure in *.
  destruct SS as (E1 & E2 & E3 & E4 & E5 & E6 & E7 & E8 & E9 & E10 & E11 & E12 & E13 & E14 & E15 & E16 & E17 & E18).
  rewrite E15, E12, E13, E7, E6.
  destruct (bo_gbt (w_filters s) (w_cheap s) (w_centries s) (w_tables s) (w_archs s) fi rels); cbn [k_inj] in *; [|discriminate].
  inversion H; reflexivity.
Qed.

(* ================================================================================================ *)
(** * Part 2: vocabulary of the statement *)

(** [x] is stored in one of the tables [tabs] (boolean form of [live s x = true /\ bo_in_tabs s tabs x]) *)
Definition r2B_doomed (s : W) (tabs : list nat) (x : ent) : bool :=
  (live s x && match loc s x with Some (tid, _) => memb tid tabs | None => false end)%bool.

Lemma r2B_doomed_iff : forall s tabs x, r2B_doomed s tabs x = true <-> (live s x = true /\ bo_in_tabs s tabs x).
Proof.
  intros s tabs x. unfold r2B_doomed, bo_in_tabs. rewrite andb_true_iff. split.
  - intros (Hl & Hm). split; [exact Hl|]. destruct (loc s x) as [[tid r]|]; [|discriminate].
    exists tid, r. split; [apply sa_memb_in; exact Hm|reflexivity].
  - intros (Hl & tid & r & Hin & Hloc). split; [exact Hl|]. rewrite Hloc. apply sa_memb_in. exact Hin.
Qed.

(** The target of a surviving entity after the batch removal: a target that was removed is the zero entity now. *)
Definition r2B_detached (s : W) (tabs : list nat) (o : option ent) : option ent :=
  match o with
  | Some x => Some (if r2B_doomed s tabs x then zero_ent else x)
  | None => None
  end.

Lemma r2B_storage_same_KeysLive : forall s s', storage_same s s' -> r2d_KeysLive s -> r2d_KeysLive s'.
Proof.
  intros s s' SS HK. pose proof (sb3_storage_same_content s s' SS) as CS.
  destruct SS as (_ & _ & _ & _ & _ & EA & _).
  apply (r2d_KeysLive_mono s s' HK EA). intros x Hx. rewrite (proj1 (CS x)). exact Hx.
Qed.

Lemma r2B_noobs_oagg : forall s s', w_oagg s' = w_oagg s -> r2e_noobs s -> r2e_noobs s'.
Proof. intros s s' E H ev. unfold has_obs, get_agg. rewrite E. apply H. Qed.

Lemma r2B_NS_St2 : forall s, St2 s -> r2g_NS s.
Proof. intros s (_ & (HR & _) & _) aid a Ha. apply (r2c_nostale r2_none s aid a HR Ha). right. intros k []. Qed.

(* ================================================================================================ *)
(** * Part 3: the two phases together (after the callbacks) *)

(** the pool after the row loop: the slots of the removed entities carry the next generation, all others are untouched *)
Definition r2B_pool_post (s : W) (tabs : list nat) (s' : W) : Prop :=
  (forall i, (forall e, r2B_doomed s tabs e = true -> fst e <> i) -> nth_error (pe (w_pool s')) i = nth_error (pe (w_pool s)) i) /\
  (forall e, r2B_doomed s tabs e = true -> exists l, nth_error (pe (w_pool s')) (fst e) = Some (l, N.modulo (snd e + 1) 4294967296)).

Lemma r2B_rows_pool : forall sB tabs cl s3, WF sB ->
  (forall tid, In tid tabs -> exists t, nth_error (w_tables sB) tid = Some t) ->
  bo_rm_tabs tabs [] sB = Ok cl s3 -> r2B_pool_post sB tabs s3.
Proof.
  intros sB tabs cl s3 HW Hval Hrun.
  destruct (r2r_rm_tabs_run tabs sB sB [] [] [] HW (r2r_mid_init sB HW) (r2r_rest_same_refl sB) Hval) as (s3' & Dn & Hrun' & HM & _).
  rewrite Hrun in Hrun'. assert (E3 : s3 = s3') by (injection Hrun' as _ E; exact E). subst s3'.
  cbn [app] in HM. rewrite app_nil_r in HM.
  destruct HM as [M1 M2 M3 M4 M5 M6 M7]. destruct M5 as (fl0 & P1 & P2 & P3 & P4 & P5 & P6 & P7).
  assert (HD : forall e, In e Dn <-> r2B_doomed sB tabs e = true).
  { intros e. rewrite (M7 e), r2B_doomed_iff. unfold bo_doomed, bo_in_tabs.
    split; intros (Hl & tid & r & Hin & Hloc); (split; [exact Hl|]); exists tid, r; (split; [|exact Hloc]).
    - apply in_rev. exact Hin.
    - apply in_rev in Hin. exact Hin. }
  split.
  - intros i Hi. apply P6. intros Hin. apply in_map_iff in Hin. destruct Hin as (e & Ee & He). apply (Hi e); [apply HD; exact He|exact Ee].
  - intros e He. apply P7. apply HD. exact He.
Qed.


(** Rows, then cleanup: from an [St2] state to an [St2] state. *)
Lemma r2B_remove_core : forall sB tabs, St2 sB -> r2d_KeysLive sB -> r2e_noobs sB ->
  (forall tid, In tid tabs -> exists t, nth_error (w_tables sB) tid = Some t) ->
  exists cl s3 s4, bo_rm_tabs tabs [] sB = Ok cl s3 /\ bo_rm_cleanup cl s3 = Ok tt s4 /\
    St2 s4 /\ r2d_KeysLive s4 /\ r2e_noobs s4 /\
    (forall e, r2B_doomed sB tabs e = true -> live s4 e = false /\ alive s4 e = false) /\
    (forall e, r2B_doomed sB tabs e = false ->
       live s4 e = live sB e /\ (forall c, val s4 e c = val sB e c) /\
       (forall c, tgt s4 e c = r2B_detached sB tabs (tgt sB e c))) /\
    side_same sB s4 /\ frame_user sB s4 /\ length (pe (w_pool s4)) = length (pe (w_pool sB)) /\ r2B_pool_post sB tabs s4.
Proof.
  intros sB tabs HS HK Hno Hval. pose proof HS as (HW & _).
  destruct (r2r_rows_spec sB tabs HS HK Hval)
    as (s3 & D & cl & Hrun & NDD & HD & Hcl & HG3 & Hrem & Hkeep & Honly & Hdead & Hkeys & HRS & Hpl).
  pose proof HRS as (R1 & R2 & R3 & R4 & R5 & R6 & R7 & R8 & R9 & R10 & R11 & R12 & R13 & R14 & R15 & R16 & R17 & R18 & R19 & R20 & R21 & R22 & R23).
  assert (Hclsub : forall e, In e cl -> In e D) by (intros e He; rewrite Hcl in He; apply filter_In in He; apply He).
  assert (NDcl : NoDup (map fst cl)).
  { rewrite Hcl. clear - NDD. induction D as [|d D IH]; [constructor|]. cbn [map] in NDD. inversion NDD as [|? ? Hn ND']; subst.
    cbn [filter]. destruct (nth (fst d) (w_istarget sB) false); [|apply IH; exact ND'].
    cbn [map]. constructor; [|apply IH; exact ND']. intros Hin. apply Hn. apply in_map_iff in Hin. destruct Hin as (x & Ex & Hx).
    apply filter_In in Hx. rewrite <- Ex. apply in_map. apply Hx. }
  assert (HDiff : forall k, r2g_D (fun x => In x cl) k <-> r2r_ids cl k) by (intros k; apply r2g_ids_D).
  assert (HI3 : r2g_I (fun x => In x cl) s3).
  { split.
    { destruct HG3 as (W3 & RI3 & T3 & C3). split; [exact W3|]. split; [|split; assumption].
      apply (r2_RelInvG_mono s3 (r2r_ids cl)); [|exact RI3]. intros k Hk. apply HDiff. exact Hk. }
    split; [intros x Hx; apply Hdead; apply HDiff; exact Hx|]. split.
    { intros tid t r Ht Hf Hin Hd. apply (Honly tid t r Ht Hf Hin). apply HDiff. exact Hd. }
    split.
    { intros x Hx. destruct (Hrem x (Hclsub x Hx)) as (_ & A & G). split; assumption. }
    split; [apply (r2B_noobs_oagg sB s3 R15 Hno)|].
    intros aid a k l Ha Hk. destruct (Hkeys aid a k l Ha Hk) as [H0|[H1|H2]]; [left; exact H0|right; left; apply HDiff; exact H1|right; right; exact H2]. }
  assert (HNS3 : r2g_NS s3).
  { intros aid a Ha. rewrite R4 in Ha. apply (r2B_NS_St2 sB HS aid a Ha). }
  destruct (r2g_cleanup_list cl s3 NDcl HI3 HNS3) as (s4 & Erun4 & HS4 & HK4 & Hno4 & Fr4 & Hnokey).
  exists cl, s3, s4. split; [exact Hrun|]. split; [exact Erun4|]. split; [exact HS4|]. split; [exact HK4|]. split; [exact Hno4|].
  destruct Fr4 as (L4 & V4 & T4 & AS4 & P4 & SD4 & FU4).
  split.
  { intros e He. apply r2B_doomed_iff in He. apply HD in He. destruct (Hrem e He) as (A & B & _).
    split; [rewrite L4; exact A|]. unfold alive. rewrite P4. exact B. }
  split.
  { intros e He.
    assert (HnD : ~ In e D). { intros Hc. apply HD in Hc. apply r2B_doomed_iff in Hc. congruence. }
    destruct (Hkeep e HnD) as (K1 & K2 & K3).
    split; [rewrite L4; exact K1|]. split; [intros c; rewrite V4; apply K2|].
    intros c. unfold r2B_detached.
    destruct (T4 e c) as [Eq|(x & Hx & Hfx & Hz)].
    - rewrite Eq, K3. destruct (tgt sB e c) as [x|] eqn:Ex; [|reflexivity].
      destruct (r2B_doomed sB tabs x) eqn:Edx; [|reflexivity]. exfalso.
      (* a removed entity cannot be a target in the final state *)
      apply r2B_doomed_iff in Edx. pose proof Edx as (Hlx & _). apply HD in Edx. destruct (Hrem x Edx) as (A & _ & G).
      assert (Hfin : tgt s4 e c = Some x) by (rewrite Eq, K3; exact Ex).
      destruct (r2_St2_targets s4 e c x HS4 Hfin) as [Hz|Hl4]; [subst x; cbn in G; lia|].
      rewrite L4, A in Hl4. discriminate.
    - rewrite K3 in Hx. rewrite Hz, Hx.
      destruct (r2B_doomed sB tabs x) eqn:Edx; [reflexivity|]. exfalso.
      (* [x] has the id of a removed entity and was a target in [sB]: it is that entity *)
      apply in_map_iff in Hfx. destruct Hfx as (d & Ed & Hd).
      pose proof (Hclsub d Hd) as HdD. pose proof (proj1 (HD d) HdD) as (Hld & Hind).
      destruct (r2_St2_targets sB e c x HS Hx) as [Hzx|Hlx].
      + subst x. destruct (Hrem d HdD) as (_ & _ & G). cbn in Ed. lia.
      + assert (Exd : x = d) by (apply (r2c_live_same_id sB x d Hlx Hld); symmetry; exact Ed). subst x.
        assert (Hc : r2B_doomed sB tabs d = true) by (apply r2B_doomed_iff; split; assumption). congruence. }
  split.
  { apply (sa_side_same_trans sB s3 s4); [|exact SD4]. unfold side_same. repeat split; assumption. }
  split.
  { apply (sa_frame_user_trans sB s3 s4); [|exact FU4]. unfold frame_user. repeat split; assumption. }
  split; [rewrite P4; exact Hpl|].
  pose proof (r2B_rows_pool sB tabs cl s3 HW Hval Hrun) as (Q1 & Q2). unfold r2B_pool_post. rewrite P4. split; assumption.
Qed.

(* ================================================================================================ *)
(** * Part 4: RemoveEntities *)

Definition r2B_rm_post (s : W) (tabs : list nat) (fn : bool) (s' : W) : Prop :=
  St2 s' /\ r2d_KeysLive s' /\ r2e_noobs s' /\ is_locked s' = false /\
  (forall e, r2B_doomed s tabs e = true -> live s' e = false /\ alive s' e = false /\ (forall c, val s' e c = None) /\ (forall c, tgt s' e c = None)) /\
  (forall e, r2B_doomed s tabs e = false ->
     live s' e = live s e /\ (forall c, val s' e c = val s e c) /\ (forall c, tgt s' e c = r2B_detached s tabs (tgt s e c))) /\
  (exists es, w_log s' = w_log s ++ (if fn then map (fun e => [101%Z; Zn (fst e); Z.of_N (snd e)]) es else []) /\
     (forall e, In e es <-> r2B_doomed s tabs e = true) /\ (NoDup tabs -> NoDup es)) /\
  frame_user s s' /\ length (pe (w_pool s')) = length (pe (w_pool s)) /\ r2B_pool_post s tabs s'.

Lemma r2B_doomed_ext : forall s s' tabs x, storage_same s s' -> r2B_doomed s' tabs x = r2B_doomed s tabs x.
Proof.
  intros s s' tabs x SS. unfold r2B_doomed. rewrite (proj1 (sb3_storage_same_content s s' SS x)).
  destruct SS as (_ & _ & _ & Ei & _). rewrite (sa_loc_ext s s' Ei). reflexivity.
Qed.

Lemma r2B_dead_obs : forall s e, live s e = false -> (forall c, val s e c = None) /\ (forall c, tgt s e c = None).
Proof. intros s e H. split; intros c; [unfold val|unfold tgt]; rewrite H; reflexivity. Qed.

(** the common tail: from the state [sB] (lock possibly taken, callbacks logged) to the final state *)
Lemma r2B_remove_tail : forall s sB tabs, St2 s -> r2d_KeysLive s -> r2e_noobs s -> storage_same s sB -> w_oagg sB = w_oagg s ->
  (forall tid, In tid tabs -> exists t, nth_error (w_tables s) tid = Some t) ->
  exists cl s3 s4, bo_rm_tabs tabs [] sB = Ok cl s3 /\ bo_rm_cleanup cl s3 = Ok tt s4 /\
    St2 s4 /\ r2d_KeysLive s4 /\ r2e_noobs s4 /\
    (forall e, r2B_doomed s tabs e = true -> live s4 e = false /\ alive s4 e = false /\ (forall c, val s4 e c = None) /\ (forall c, tgt s4 e c = None)) /\
    (forall e, r2B_doomed s tabs e = false ->
       live s4 e = live s e /\ (forall c, val s4 e c = val s e c) /\ (forall c, tgt s4 e c = r2B_detached s tabs (tgt s e c))) /\
    side_same sB s4 /\ frame_user s s4 /\ length (pe (w_pool s4)) = length (pe (w_pool s)) /\ r2B_pool_post s tabs s4.
Proof.
  intros s sB tabs HS HK Hno SS Eagg Hval.
  pose proof (r2c_storage_same_St2 s sB SS HS) as HSB. pose proof (r2B_storage_same_KeysLive s sB SS HK) as HKB.
  pose proof (r2B_noobs_oagg s sB Eagg Hno) as HnoB.
  pose proof (sb3_storage_same_content s sB SS) as CS. pose proof (r2c_storage_same_tgt s sB SS) as TS.
  assert (HvalB : forall tid, In tid tabs -> exists t, nth_error (w_tables sB) tid = Some t).
  { intros tid Hin. destruct SS as (_ & _ & _ & _ & _ & _ & Et & _). rewrite Et. apply Hval. exact Hin. }
  destruct (r2B_remove_core sB tabs HSB HKB HnoB HvalB) as (cl & s3 & s4 & E3 & E4 & HS4 & HK4 & Hno4 & Hrm & Hkp & SD & FU & PL & (PQ1 & PQ2)).
  exists cl, s3, s4. split; [exact E3|]. split; [exact E4|]. split; [exact HS4|]. split; [exact HK4|]. split; [exact Hno4|].
  split.
  { intros e He. rewrite <- (r2B_doomed_ext s sB tabs e SS) in He. destruct (Hrm e He) as (A & B).
    split; [exact A|]. split; [exact B|apply r2B_dead_obs; exact A]. }
  split.
  { intros e He. rewrite <- (r2B_doomed_ext s sB tabs e SS) in He. destruct (Hkp e He) as (A & B & C).
    split; [rewrite A; apply CS|]. split; [intros c; rewrite B; apply CS|].
    intros c. rewrite C, (TS e c). unfold r2B_detached. destruct (tgt s e c) as [x|]; [|reflexivity].
    rewrite (r2B_doomed_ext s sB tabs x SS). reflexivity. }
  split; [exact SD|]. split.
  { apply (sa_frame_user_trans s sB s4); [|exact FU].
    destruct SS as (E1 & E2 & E3' & E4' & E5 & E6 & E7 & E8 & E9 & E10 & E11 & E12 & E13 & E14 & E15 & E16 & E17 & E18).
    unfold frame_user. repeat split; assumption. }
  assert (Ep : w_pool sB = w_pool s) by (destruct SS as (_ & _ & Ep & _); exact Ep).
  split; [rewrite PL, Ep; reflexivity|]. split.
  - intros i Hi. rewrite <- Ep. apply PQ1. intros e He. apply Hi. rewrite <- (r2B_doomed_ext s sB tabs e SS). exact He.
  - intros e He. apply PQ2. rewrite (r2B_doomed_ext s sB tabs e SS). exact He.
Qed.

(** RemoveEntities over the tables [tabs] the filter selects, in a relation world without observers. *)
Theorem r2B_remove_entities_spec : forall s fi rels fn tabs,
  St2 s -> r2d_KeysLive s -> r2e_noobs s -> is_locked s = false -> (fn = true -> lock_lock (w_lock s) <> None) ->
  get_batch_tables fi rels s = Ok tabs s ->
  exists s', w_remove_entities fi rels fn s = Ok tt s' /\ r2B_rm_post s tabs fn s'.
Proof.
  intros s fi rels fn tabs HS HK Hno Hunl Hlock Hgbt. pose proof HS as (HW & _).
  destruct (r2B_gbt_valid s fi rels tabs s HW Hgbt) as (_ & Hval).
  set (es := flat_map (bo_rows_of s) tabs).
  destruct (bo_all_rows s tabs HW) as (Hes & Hesnd). fold es in Hes, Hesnd.
  assert (Hes' : forall e, In e es <-> r2B_doomed s tabs e = true) by (intros e; rewrite Hes; symmetry; apply r2B_doomed_iff).
  rewrite bo_remove_entities_eq.
  rewrite (sa_bind_ok (sb1_check_locked_ok s Hunl)).
  unfold bind at 1. unfold get at 1. cbv beta iota zeta. rewrite (Hno EvRemoveEntity), (Hno EvRemoveRelations). cbn [orb].
  destruct fn.
  - destruct (lock_lock (w_lock s)) as [[lb l']|] eqn:LL; [|exfalso; apply (Hlock eq_refl); reflexivity].
    pose proof (bo_lock_cycle s lb l' Hunl LL) as LU.
    set (l'' := {| lk_pool := ipool_recycle (lk_pool l') lb; lk_mask := 0%N |}) in *.
    set (s1 := s <| w_lock := l' |>).
    assert (SS1 : storage_same s s1) by (unfold storage_same; repeat split).
    rewrite (sa_bind_ok (v_lockM_ok s lb l' LL)). fold s1.
    rewrite (sa_bind_ok (bo_gbt_frame fi rels s s1 tabs SS1 Hgbt)).
    cbn [whenM].
    assert (Hcb : bo_rm_cb tabs s1 = Ok tt (b_logged s1 (map b_entry es))).
    { apply (bo_rm_cb_run tabs s1). intros tid Hin. destruct (Hval tid Hin) as (t & Ht). exists t.
      split; [exact Ht|exact (sb2_table_ok _ _ _ HW Ht)]. }
    rewrite (sa_bind_ok Hcb).
    set (sB := b_logged s1 (map b_entry es)).
    rewrite (sa_bind_ok (m := ret tt) (s := sB) eq_refl).
    rewrite (sa_bind_ok (m := ret tt) (s := sB) eq_refl).
    assert (SSB : storage_same s sB) by (unfold storage_same; repeat split).
    destruct (r2B_remove_tail s sB tabs HS HK Hno SSB eq_refl Hval) as (cl & s3 & s4 & E3 & E4 & HS4 & HK4 & Hno4 & Hrm & Hkp & SD & FU & PL & PP).
    rewrite (sa_bind_ok E3), (sa_bind_ok E4).
    pose proof SD as (SL & SLog & SO1 & SO2 & SO3 & SO4 & SO5 & SO6).
    assert (LU4 : lock_unlock (w_lock s4) lb = Some l'') by (rewrite SL; exact LU).
    rewrite (v_unlockM_ok s4 lb l'' LU4).
    set (s5 := s4 <| w_lock := l'' |>).
    assert (SS5 : storage_same s4 s5) by (unfold storage_same; repeat split).
    pose proof (sb3_storage_same_content s4 s5 SS5) as CS5. pose proof (r2c_storage_same_tgt s4 s5 SS5) as TS5.
    exists s5. split; [reflexivity|].
    split; [apply (r2c_storage_same_St2 s4 s5 SS5 HS4)|]. split; [apply (r2B_storage_same_KeysLive s4 s5 SS5 HK4)|].
    split; [apply (r2B_noobs_oagg s4 s5 eq_refl Hno4)|]. split; [reflexivity|].
    split.
    { intros e He. destruct (Hrm e He) as (A & B & C & T). split; [rewrite (proj1 (CS5 e)); exact A|]. split; [exact B|].
      apply r2B_dead_obs. rewrite (proj1 (CS5 e)). exact A. }
    split.
    { intros e He. destruct (Hkp e He) as (A & B & C). split; [rewrite (proj1 (CS5 e)); exact A|].
      split; [intros c; rewrite (proj2 (CS5 e)); apply B|intros c; rewrite (TS5 e c); apply C]. }
    split.
    { exists es. split; [|split; [exact Hes'|exact Hesnd]]. change (w_log s5) with (w_log s4). rewrite SLog. reflexivity. }
    split; [apply (sa_frame_user_trans s s4 s5 FU); unfold frame_user; repeat split|]. split; [exact PL|exact PP].
  - rewrite (sa_bind_ok (m := ret 0) (s := s) eq_refl).
    rewrite (sa_bind_ok Hgbt). cbn [whenM].
    rewrite (sa_bind_ok (m := ret tt) (s := s) eq_refl).
    rewrite (sa_bind_ok (m := ret tt) (s := s) eq_refl).
    rewrite (sa_bind_ok (m := ret tt) (s := s) eq_refl).
    destruct (r2B_remove_tail s s tabs HS HK Hno (sb3_storage_same_refl s) eq_refl Hval) as (cl & s3 & s4 & E3 & E4 & HS4 & HK4 & Hno4 & Hrm & Hkp & SD & FU & PL & PP).
    rewrite (sa_bind_ok E3), (sa_bind_ok E4).
    pose proof SD as (SL & SLog & _).
    exists s4. split; [reflexivity|]. split; [exact HS4|]. split; [exact HK4|]. split; [exact Hno4|].
    split; [unfold is_locked; rewrite SL; exact Hunl|]. split; [exact Hrm|]. split; [exact Hkp|]. split.
    { exists es. split; [rewrite SLog, app_nil_r; reflexivity|split; [exact Hes'|exact Hesnd]]. }
    split; [exact FU|]. split; [exact PL|exact PP].
Qed.

(** Both outcomes. The call fails only before anything is touched: no lock bit (with a callback), or the table
    selection fails; then the storage is literally the old one (only the lock bit may have been taken). *)
Theorem r2B_remove_entities_outcomes : forall s fi rels fn,
  St2 s -> r2d_KeysLive s -> r2e_noobs s -> is_locked s = false ->
  match w_remove_entities fi rels fn s with
  | Ok _ s' => exists tabs, get_batch_tables fi rels s = Ok tabs s /\ r2B_rm_post s tabs fn s'
  | Err er s' =>
      storage_same s s' /\ side_same s (s' <| w_lock := w_lock s |>) /\
      ((fn = true /\ lock_lock (w_lock s) = None /\ er = EBits /\ s' = s) \/
       (get_batch_tables fi rels s = Err er s /\ (fn = false -> s' = s)))
  end.
Proof.
  intros s fi rels fn HS HK Hno Hunl.
  destruct (get_batch_tables fi rels s) as [tabs sg|er sg] eqn:Hg.
  - pose proof (r2B_gbt_state fi rels s) as Hst. rewrite Hg in Hst. cbn [state_of] in Hst. subst sg.
    destruct fn.
    + destruct (lock_lock (w_lock s)) as [[lb l']|] eqn:LL.
      * destruct (r2B_remove_entities_spec s fi rels true tabs HS HK Hno Hunl) as (s' & E & P); [intros _; congruence|exact Hg|].
        rewrite E. exists tabs. split; [reflexivity|exact P].
      * rewrite bo_remove_entities_eq. rewrite (sa_bind_ok (sb1_check_locked_ok s Hunl)).
        unfold bind at 1. unfold get at 1. cbv beta iota zeta. rewrite (Hno EvRemoveEntity), (Hno EvRemoveRelations). cbn [orb].
        rewrite (sa_bind_err (v_lockM_err s LL)).
        split; [apply sb3_storage_same_refl|]. split; [unfold side_same; cbn; repeat split|]. left. repeat split.
    + destruct (r2B_remove_entities_spec s fi rels false tabs HS HK Hno Hunl) as (s' & E & P); [discriminate|exact Hg|].
      rewrite E. exists tabs. split; [reflexivity|exact P].
  - pose proof (r2B_gbt_state fi rels s) as Hst. rewrite Hg in Hst. cbn [state_of] in Hst. subst sg.
    rewrite bo_remove_entities_eq. rewrite (sa_bind_ok (sb1_check_locked_ok s Hunl)).
    unfold bind at 1. unfold get at 1. cbv beta iota zeta. rewrite (Hno EvRemoveEntity), (Hno EvRemoveRelations). cbn [orb].
    destruct fn.
    + destruct (lock_lock (w_lock s)) as [[lb l']|] eqn:LL.
      * set (s1 := s <| w_lock := l' |>).
        assert (SS1 : storage_same s s1) by (unfold storage_same; repeat split).
        rewrite (sa_bind_ok (v_lockM_ok s lb l' LL)). fold s1.
        rewrite (sa_bind_err (r2B_gbt_frame_err fi rels s s1 er SS1 Hg)).
        split; [exact SS1|]. split; [unfold side_same; cbn; repeat split|]. right. split; [reflexivity|discriminate].
      * rewrite (sa_bind_err (v_lockM_err s LL)).
        split; [apply sb3_storage_same_refl|]. split; [unfold side_same; cbn; repeat split|]. left. repeat split.
    + rewrite (sa_bind_ok (m := ret 0) (s := s) eq_refl). rewrite (sa_bind_err Hg).
      split; [apply sb3_storage_same_refl|]. split; [unfold side_same; cbn; repeat split|]. right. split; [reflexivity|reflexivity].
Qed.

(** The invariant is kept in both outcomes. *)
Corollary r2B_remove_entities_inv : forall s fi rels fn,
  St2 s -> r2d_KeysLive s -> r2e_noobs s -> is_locked s = false ->
  let s' := state_of (w_remove_entities fi rels fn s) in
  St2 s' /\ r2d_KeysLive s' /\ r2e_noobs s' /\ (is_err (w_remove_entities fi rels fn s) = false -> is_locked s' = false).
Proof.
  intros s fi rels fn HS HK Hno Hunl. cbv zeta.
  pose proof (r2B_remove_entities_outcomes s fi rels fn HS HK Hno Hunl) as H.
  destruct (w_remove_entities fi rels fn s) as [u s'|er s']; cbn [state_of is_err].
  - destruct H as (tabs & _ & (A & B & C & D & _)). split; [exact A|]. split; [exact B|]. split; [exact C|]. intros _. exact D.
  - destruct H as (SS & SD & _). split; [apply (r2c_storage_same_St2 s s' SS HS)|]. split; [apply (r2B_storage_same_KeysLive s s' SS HK)|].
    split; [|discriminate]. destruct SD as (_ & _ & _ & _ & Eo & _). apply (r2B_noobs_oagg s s'); [exact Eo|exact Hno].
Qed.

(** ** RemoveEntities never fails for an existing filter and well-formed batch relations *)

(** an unregistered filter: the selection walks all archetypes ([r2k_sel]: the non-free tables of matching
    archetypes whose targets match [rels]; [r2k_tabled]: every matching archetype without relation components
    has its table, which holds in all histories of the covered class, [archs_tabled_norel]) *)
Corollary r2B_remove_entities_never_fails : forall s fi f rels fn,
  St2 s -> r2d_KeysLive s -> r2e_noobs s -> is_locked s = false -> (fn = true -> lock_lock (w_lock s) <> None) ->
  nth_error (w_filters s) fi = Some f -> f_cache f = None ->
  r2k_rels_ok s (f_mask f) rels -> r2k_tabled s f ->
  exists tabs s', w_remove_entities fi rels fn s = Ok tt s' /\ r2B_rm_post s tabs fn s' /\
    NoDup tabs /\ (forall tid, In tid tabs <-> r2k_sel s f rels tid).
Proof.
  intros s fi f rels fn HS HK Hno Hunl Hlock Hf Hc Hok Htab.
  pose proof (r2k_uncached_spec s f rels HS Hok) as Hu.
  destruct (uncached_tables f rels s) as [tabs s1|er s1] eqn:Eu; [|destruct Hu as (_ & _ & Hn); contradiction].
  destruct Hu as (-> & Hnd & Hsel).
  assert (Hg : get_batch_tables fi rels s = Ok tabs s).
  { unfold get_batch_tables. rewrite (QueryProofs.q_bind_getF _ s fi f _ Hf), Hc. exact Eu. }
  destruct (r2B_remove_entities_spec s fi rels fn tabs HS HK Hno Hunl Hlock Hg) as (s' & E & P).
  exists tabs, s'. split; [exact E|]. split; [exact P|]. split; [exact Hnd|exact Hsel].
Qed.

(** a registered filter: the selection reads the cache entry and skips empty tables *)
Corollary r2B_remove_entities_never_fails_cached : forall s fi f cid addr e rels fn,
  St2 s -> r2d_KeysLive s -> r2e_noobs s -> is_locked s = false -> (fn = true -> lock_lock (w_lock s) <> None) ->
  nth_error (w_filters s) fi = Some f -> f_cache f = Some cid ->
  entry_addr s cid = Some addr -> nth_error (w_cheap s) addr = Some e -> ce_filter e = fi -> In addr (w_centries s) ->
  (forall r, In r rels -> mk_get (f_mask f) (fst r) = true) ->
  exists tabs s', w_remove_entities fi rels fn s = Ok tt s' /\ r2B_rm_post s tabs fn s' /\
    NoDup tabs /\ (forall tid, In tid tabs <-> (r2k_sel s f (ce_rels e ++ rels) tid /\ r2k_nonempty s tid)).
Proof.
  intros s fi f cid addr e rels fn HS HK Hno Hunl Hlock Hf Hc Hea He Hfi Hin Hr. subst fi.
  destruct (r2k_cached_spec s addr e f rels true HS Hin He Hf Hr) as (tabs & Htm & Hnd & _ & Hsel).
  assert (Hg : get_batch_tables (ce_filter e) rels s = Ok tabs s).
  { unfold get_batch_tables. rewrite (QueryProofs.q_bind_getF _ s (ce_filter e) f _ Hf), Hc, QueryProofs.q_bind_get.
    unfold entry_addr in Hea. rewrite Hea. unfold bind at 1. rewrite He. cbn [of_opt ret]. exact Htm. }
  destruct (r2B_remove_entities_spec s (ce_filter e) rels fn tabs HS HK Hno Hunl Hlock Hg) as (s' & E & P).
  exists tabs, s'. split; [exact E|]. split; [exact P|]. split; [exact Hnd|].
  intros tid. rewrite (Hsel tid). split; [intros (A & B); split; [exact A|apply B; reflexivity]|intros (A & B); split; [exact A|intros _; exact B]].
Qed.

(* ================================================================================================ *)
(** * Part 5: the theorems are not vacuous

    Two parents (2,0), (3,0) without components, three children with components {0,3} (3 = relation component)
    pointing to them; the filter "without component 0" selects table 0 (the parents). RemoveEntities through the
    theorem: both parents die, the children survive and their relation targets are the zero entity. *)
Open Scope Z_scope.
Definition r2B_ex_world : W :=
  Properties.Common.exec Rel2Check.r2_cfg [[0]; [0]; [2; 2;0;3; 1; 3;0]; [2; 2;0;3; 1; 3;1]; [2; 2;0;3; 1; 3;0]; [15; 0; 0; 1;0; 0; 0]].
Close Scope Z_scope.

Lemma r2B_ex_hyps :
  St2 r2B_ex_world /\ r2d_KeysLive r2B_ex_world /\ r2e_noobs r2B_ex_world /\ is_locked r2B_ex_world = false /\
  lock_lock (w_lock r2B_ex_world) <> None /\ get_batch_tables 0 [] r2B_ex_world = Ok [0] r2B_ex_world.
Proof.
  assert (HS : St2 r2B_ex_world) by (apply st2_b_sound; vm_compute; reflexivity).
  split; [exact HS|]. split; [apply (r2d_keys_live_b_sound _ (proj1 HS)); vm_compute; reflexivity|].
  split.
  { intros ev. unfold has_obs, get_agg. assert (E : w_oagg r2B_ex_world = []) by (vm_compute; reflexivity). rewrite E. reflexivity. }
  split; [vm_compute; reflexivity|]. split; [vm_compute; discriminate|vm_compute; reflexivity].
Qed.

Example r2B_ex_by_theorem : exists s', w_remove_entities 0 [] true r2B_ex_world = Ok tt s' /\
  r2B_rm_post r2B_ex_world [0] true s' /\
  live s' (2, 0%N) = false /\ live s' (3, 0%N) = false /\ live s' (4, 0%N) = true /\
  tgt r2B_ex_world (4, 0%N) 3 = Some (2, 0%N) /\ tgt s' (4, 0%N) 3 = Some zero_ent /\ tgt s' (5, 0%N) 3 = Some zero_ent.
Proof.
  destruct r2B_ex_hyps as (HS & HK & Hno & Hunl & Hlock & Hg).
  destruct (r2B_remove_entities_spec r2B_ex_world 0 [] true [0] HS HK Hno Hunl (fun _ => Hlock) Hg) as (s' & E & P).
  exists s'. split; [exact E|]. split; [exact P|].
  destruct P as (_ & _ & _ & _ & Hrm & Hkp & _).
  assert (D2 : r2B_doomed r2B_ex_world [0] (2, 0%N) = true) by (vm_compute; reflexivity).
  assert (D3 : r2B_doomed r2B_ex_world [0] (3, 0%N) = true) by (vm_compute; reflexivity).
  assert (D4 : r2B_doomed r2B_ex_world [0] (4, 0%N) = false) by (vm_compute; reflexivity).
  assert (D5 : r2B_doomed r2B_ex_world [0] (5, 0%N) = false) by (vm_compute; reflexivity).
  split; [exact (proj1 (Hrm _ D2))|]. split; [exact (proj1 (Hrm _ D3))|].
  destruct (Hkp _ D4) as (L4 & _ & T4). destruct (Hkp _ D5) as (_ & _ & T5).
  split; [rewrite L4; vm_compute; reflexivity|]. split; [vm_compute; reflexivity|].
  split; [rewrite T4; vm_compute; reflexivity|rewrite T5; vm_compute; reflexivity].
Qed.

Definition r2B_all :=
  (r2B_gbt_valid, r2B_remove_core, r2B_remove_entities_spec, r2B_remove_entities_outcomes, r2B_remove_entities_inv,
   r2B_remove_entities_never_fails, r2B_remove_entities_never_fails_cached, r2B_ex_hyps, r2B_ex_by_theorem).
Print Assumptions r2B_all.
