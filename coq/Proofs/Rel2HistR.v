(** * Rel2HistR: work package R of the relation tier: the relation invariant over histories that CONTAIN Reset
    (worlds WITH relation components, filters, registrations, queries, locked states). Helper prefix [r2r_].

    Rel2Hist / Rel2HistQ prove [Inv2] / [Inv2Q] over histories WITHOUT Reset and show that Reset cannot simply be
    added ([r2e_reset_refuted_handles]: [issued_ok] speaks about every handle ever issued, and handles issued
    before a Reset alias later entities). Here the handle clause is made relative to an EPOCH:

      [issued_ok_from k s n]   [issued_ok] for the handles [skipn k (w_issued s)] only (those issued since the last
                               successful Reset); the handles [firstn k (w_issued s)] are FOREIGN;
      [Inv2R s n k := St2 s /\ r2d_KeysLive s /\ r2e_noobs s /\ issued_ok_from k s n /\ archs_tabled_norel s /\
                      r2q_filters_ok s /\ r2r_ids2 s]          ([Inv2R s n 0 <-> Inv2Q s n]);
      class [rel_r_op o := rel_q_op o || (o = OReset)], arbitrary arguments, locked and unlocked worlds.

    What foreign handles may do (Parts 1 to 3). A foreign handle may be dead, may have an id beyond the current
    pool, or may pass the generation check. Nothing at all is needed of the ENTITY argument of Add / Remove /
    Exchange / SetRelations / Write / RemoveEntity / the read probes and of the targets named in filters and
    queries: these operations look the entity up in the entity index before they change anything, resp. only
    compare targets. Two positions are looked at through the generation check ALONE ([rel_r_handles]): relation
    TARGETS of creation / Add / Exchange / SetRelations (createTable's [check_rel]) and the SOURCE of a copy
    (CopyEntity pops the pool before the index lookup). There the weakest sufficient condition is
      [r2r_proper s x := alive s x = true -> live s x = true]
    ("does not pass the generation check unless it is stored"). It replaces BOTH hypotheses of [r2e_*_any]
    ([r2b_handle_ok], which it implies for handles, and the range hypothesis [fst x < length (w_istarget s)],
    which is dropped: [r2r_register_any], [r2r_add_any], [r2r_exchange_any], [r2r_new_entity_any] -- with a
    target beyond the pool in a list GetTable does not look at, the call panics in [register_targets] AFTER the row
    was placed; the invariant is kept in that state: [r2r_script_eindex]). Handles of the current epoch are
    proper ([r2r_current_proper]); so are foreign ones whose id lies beyond the pool, whose generation differs
    from the slot's, which denote a stored entity (the alias), and ALL of them while the free list is empty
    ([r2r_proper_beyond], [r2r_proper_gen], [r2r_proper_live], [r2r_proper_nofree]).
    For the source of a copy the condition is also NECESSARY ([r2r_copy_improper_breaks]: the result is not [WF]).
    (refuted without the condition) [r2r_foreign_target_refuted] ([St2] breaks: a table whose target is not
    stored), [r2r_foreign_copy_refuted] ([WF] breaks: a pool slot allocated without a row; found here). Both need
    a foreign handle whose slot was recycled in the new epoch up to exactly the handle's generation: the
    documented contract of World.Reset, not a defect.

    Main results.
    - [r2r_op_spec] (one core operation on an unlocked world from state-level facts only), [r2r_core_unlocked];
      [r2r_core_locked], [r2r_new_op_spec] (the lemmas of Rel2HistQ for [Inv2R]: no side condition on handles);
    - Reset: [r2r_rkp_reset] / [r2r_hkp_reset] / [r2r_reset_pool] (syntactic frames: no observers, issued handles,
      registry, filter objects up to cache ids; tables keep their archetype, archetypes their relation count; the pool
      is exactly [pool_reset]), [r2r_reset_unlocked] (succeeds, result [r2r_fresh]), [r2r_reset_step];
    - [step_inv2R_core] (class [rel_core_op] + Reset, unlocked), [step_inv2R] (full class, BOTH outcomes; the epoch
      moves to [length (w_issued s)] at a Reset on an unlocked world, [r2r_epoch]; a new handle differs from every
      handle of the current epoch), [r2r_run_inv] (from ANY state satisfying the invariant), [reachable_inv2R];
    - C16 on the model: [r2r_fresh] (invariant with a fresh epoch AND a fresh step counter, unlocked, nothing
      stored, pool = [pool_new], no cached filter, every table empty, relation tables free, lookups empty) holds
      for [init_world c] ([r2r_fresh_init]) and for the world after every successful Reset ([r2r_reset_unlocked],
      [reachable_reset_R]); [fresh_start_inv2R]: from a fresh world every covered history keeps the invariant;
    - corollaries: [creation_fresh_R] (C02), [targets_always_zero_or_alive_R], [remove_target_detaches_step_R] /
      [remove_target_detaches_R] (through ANY handle that denotes the entity), [target_is_last_assigned_setrel_R] /
      [_new_R] / [_add_R] (C04), [r2r_dead_rejected], [stale_handle_rejected_R] (C10, handles of the current epoch);
    - checker [rel_r_hist_b] (sound: [rel_r_hist_b_sound]) and non-vacuity: [r2r_script] (two Resets, foreign
      handles in every role, filters, queries, locked window), [r2r_script_inv], [r2r_mid_inv], [r2r_script_alias],
      [r2r_script_eindex]. *)
From Ark Require Import Model.Base Model.Mask Model.Pool Model.Util Model.World Model.Run.
From Ark Require Import Proofs.TableProofs Proofs.MaskProofs Proofs.Hoare Proofs.WF Proofs.StorageA Proofs.StorageBDefs
  Proofs.StorageB_sb1 Proofs.StorageB_sb2 Proofs.StorageB_sb3 Proofs.LockWorld Proofs.StorageC Proofs.RelProofs
  Proofs.CacheProofs Proofs.QueryProofs Proofs.ResetShrinkProofs Proofs.BatchProofs
  Proofs.Rel2Defs Proofs.Rel2Struct Proofs.Rel2Remove Proofs.Rel2SetRel Proofs.Rel2Ops Proofs.Rel2Maint Proofs.Rel2Hist
  Proofs.Rel2Cache Proofs.Rel2HistQ.
From Ark Require Properties.Common Proofs.Rel2Check Proofs.StorageD.
From RecordUpdate Require Import RecordSet.
Import RecordSetNotations.
From Coq Require Import Lia.
Close Scope Z_scope.

(* ================================================================================================ *)
(** * Part 1: the epoch-relative handle clause *)

(** [issued_ok] of StorageC, restricted to the handles issued since position [k] of [w_issued] (the
    handles of the current EPOCH: those issued since the last successful Reset). Nothing is said about
    the handles [firstn k (w_issued s)]: they are FOREIGN. *)
Definition issued_ok_from (k : nat) (s : W) (n : nat) : Prop :=
  (forall e, In e (skipn k (w_issued s)) ->
     2 <= fst e < length (pe (w_pool s)) /\
     (live s e = true \/ exists l g, nth_error (pe (w_pool s)) (fst e) = Some (l, g) /\ (snd e < g)%N)) /\
  (forall i l g, nth_error (pe (w_pool s)) i = Some (l, g) -> 2 <= i -> (g <= N.of_nat n)%N) /\
  length (pe (w_pool s)) <= 2 + n.

Lemma r2r_from_0 : forall s n, issued_ok s n <-> issued_ok_from 0 s n.
Proof. intros s n. unfold issued_ok, issued_ok_from. cbn [skipn]. tauto. Qed.

(** every handle ever issued has an id beyond the two reserved ones *)
Definition r2r_ids2 (s : W) : Prop := forall e, In e (w_issued s) -> 2 <= fst e.

(** The only thing the operations need of an entity value that is looked at through the generation
    check alone (a relation target, the source of a copy): it does not pass the check unless it is stored.
    A foreign handle may violate this: it may name a recycled slot whose generation has come round
    to the handle's again ([r2r_foreign_target_refuted], [r2r_foreign_copy_refuted]). *)
Definition r2r_proper (s : W) (x : ent) : Prop := alive s x = true -> live s x = true.
Definition r2r_hproper (s : W) (h : Z) : Prop := forall x, handle s h = Some x -> r2r_proper s x.

Lemma r2r_nth_skipn : forall A (l : list A) k i x, nth_error l i = Some x -> k <= i -> In x (skipn k l).
Proof.
  intros A l. induction l as [|a l IH]; intros k i x H Hk; [destruct i; discriminate|].
  destruct k as [|k]; [cbn [skipn]; eapply nth_error_In; exact H|].
  destruct i as [|i]; [lia|]. cbn [skipn]. cbn in H. apply (IH k i x H). lia.
Qed.

Lemma r2r_skipn_in : forall A (l : list A) k x, In x (skipn k l) -> In x l.
Proof.
  intros A l k x H. rewrite <- (firstn_skipn k l). apply in_or_app. right. exact H.
Qed.

(** a handle of the current epoch is proper *)
Lemma r2r_current_proper : forall s n k h, WF s -> issued_ok_from k s n ->
  (Z.ltb h 0 = true \/ k <= Z.to_nat h) -> r2r_hproper s h.
Proof.
  intros s n k h HW (I1 & _) Hh x Hx Ha. unfold handle in Hx. destruct (Z.ltb h 0) eqn:Eh.
  - injection Hx as <-. rewrite (sc_zero_dead s HW) in Ha. discriminate.
  - destruct Hh as [Hc|Hk]; [discriminate|].
    destruct (I1 x (r2r_nth_skipn _ _ k _ x Hx Hk)) as (_ & [L|(l & g & E & Hg)]); [exact L|].
    destruct (sc_alive_slot s x Ha) as (l' & E'). rewrite E in E'. inversion E'; subst. lia.
Qed.

(** Which foreign handles are proper anyway: an id beyond the pool; a generation other than the slot's; an
    entity that is stored (the alias); and ANY entity value with an id >= 2 as long as the free list is empty
    (nothing has been removed since the Reset): an improper value names a slot that is on the free list. *)
Lemma r2r_proper_beyond : forall s x, length (pe (w_pool s)) <= fst x -> r2r_proper s x.
Proof.
  intros s x H Ha. destruct (sc_alive_slot s x Ha) as (l & E). apply sa_nth_error_lt in E. sc_lia.
Qed.

Lemma r2r_proper_gen : forall s x l g, nth_error (pe (w_pool s)) (fst x) = Some (l, g) -> g <> snd x -> r2r_proper s x.
Proof.
  intros s x l g E Hg Ha. destruct (sc_alive_slot s x Ha) as (l' & E'). rewrite E in E'. inversion E'; subst. congruence.
Qed.

Lemma r2r_proper_live : forall s x, live s x = true -> r2r_proper s x.
Proof. intros s x H _. exact H. Qed.

Lemma r2r_proper_nofree : forall s x, WF s -> pavail (w_pool s) = 0 -> 2 <= fst x -> r2r_proper s x.
Proof.
  intros s x HW Hav Hge Ha. destruct (wf_pool _ HW) as (fl & (_ & Hlen & _) & _ & Hidx).
  rewrite Hav in Hlen. destruct fl as [|i fl]; [|discriminate].
  destruct (sc_alive_slot s x Ha) as (l & E). apply sa_nth_error_lt in E.
  destruct (Hidx (fst x)) as (tid & r & Ei); [sc_lia|intros []|].
  apply (sb2_alive_index_live s x tid r HW Ha Ei).
Qed.

Lemma r2r_handle_ok : forall s h x, WF s -> r2r_ids2 s -> handle s h = Some x -> r2r_proper s x -> r2b_handle_ok s x.
Proof.
  intros s h x HW Hids Hh Hp. unfold handle in Hh. destruct (Z.ltb h 0).
  - left. injection Hh as <-. reflexivity.
  - apply nth_error_In in Hh. pose proof (Hids x Hh) as H2. destruct (alive s x) eqn:Ha.
    + right. left. apply Hp. exact Ha.
    + right. right. split; [lia|exact Ha].
Qed.

Lemma r2r_resolved_ok : forall s hrels rels, WF s -> r2r_ids2 s -> r2e_resolved s hrels rels ->
  (forall hr, In hr hrels -> r2r_hproper s (snd hr)) ->
  forall r, In r rels -> r2b_handle_ok s (snd r).
Proof.
  intros s hrels rels HW Hids HR Hp r Hr.
  destruct (r2e_resolved_rev s hrels rels r HR Hr) as (hr & Hin & _ & Hh).
  apply (r2r_handle_ok s (snd hr) (snd r) HW Hids Hh). apply (Hp hr Hin (snd r) Hh).
Qed.

(** For the source of a copy the condition is NECESSARY as well: CopyEntity of a value that passes the
    generation check without being stored pops the pool, panics in the index lookup, and leaves a world that is
    not well-formed (one slot more is allocated than rows are indexed). *)
Lemma r2r_pool_get_breaks : forall s, WF s -> ~ WF (s <| w_pool := snd (pool_get (w_pool s)) |>).
Proof.
  intros s HW HW1. set (s1 := s <| w_pool := snd (pool_get (w_pool s)) |>) in *.
  destruct (wf_pool _ HW) as (fl & (_ & Hlen & ND & Hrange & Hch) & Hnone & _).
  destruct (wf_pool _ HW1) as (fl' & (_ & Hlen' & _ & _ & _) & _ & Hsome').
  destruct (wf_index_len _ HW) as (L & _). destruct (wf_index_len _ HW1) as (L' & _).
  change (w_index s1) with (w_index s) in *. change (w_pool s1) with (snd (pool_get (w_pool s))) in *.
  unfold pool_get in *. destruct (Nat.eqb_spec (pavail (w_pool s)) 0) as [E0|E0].
  - cbn [snd pe] in L'. rewrite app_length in L'. cbn [length] in L'. lia.
  - destruct fl as [|i rest]; [cbn in Hlen; lia|]. cbn [chain] in Hch. destruct Hch as (Ei & _).
    destruct (Hrange i (or_introl eq_refl)) as (_ & Hi). rewrite <- Ei in *.
    destruct (nth_error (pe (w_pool s)) i) as [[nid g]|] eqn:En; [|apply nth_error_None in En; lia].
    cbn [snd pe pavail] in *.
    assert (Hincl : incl (i :: rest) fl').
    { intros j Hj. destruct (in_dec Nat.eq_dec j fl') as [Hin|Hnin]; [exact Hin|exfalso].
      destruct (Hnone j Hj) as (r & Er). destruct (Hrange j Hj) as (R1 & R2).
      destruct (Hsome' j) as (tid & r' & Es); [rewrite upd_length; split; assumption|exact Hnin|]. congruence. }
    pose proof (NoDup_incl_length ND Hincl) as Hle. lia.
Qed.

Theorem r2r_copy_improper_breaks : forall debug s h x, WF s -> is_locked s = false ->
  handle s h = Some x -> alive s x = true -> live s x = false ->
  exists er s', step_op debug (OCopy h) s = Err er s' /\ ~ WF s'.
Proof.
  intros debug s h x HW Hl Hh Ha Hnl. cbn [step_op]. unfold bind at 1. rewrite sc_resolveH, Hh.
  set (s1 := s <| w_pool := snd (pool_get (w_pool s)) |>).
  assert (E : w_copy_entity x s = Err EIndex s1).
  { unfold w_copy_entity. rewrite (sa_bind_ok (sb1_check_locked_ok s Hl)), sb2_bind_get, Ha, sb2_bind_guard_true.
    assert (Eg : pool_getM s = Ok (fst (pool_get (w_pool s))) s1).
    { unfold pool_getM, bind, get, put, ret, s1. destruct (pool_get (w_pool s)) as [e p']. reflexivity. }
    rewrite (sa_bind_ok Eg). apply sa_bind_err. apply sb2_get_index_err. intros t r Hi.
    change (w_index s1) with (w_index s) in Hi. rewrite (sb2_alive_index_live s x t r HW Ha Hi) in Hnl. discriminate. }
  exists EIndex, s1. split; [apply sa_bind_err; exact E|apply r2r_pool_get_breaks; exact HW].
Qed.

(** the handles of a line that are looked at through the generation check alone *)
Definition rel_r_handles (o : op) : list Z :=
  match o with
  | OCopy h => [h]
  | OUNewRel _ hrels | OUAddRel _ _ hrels | OUExchange _ _ _ hrels | OUSetRel _ hrels => map snd hrels
  | _ => []
  end.

Definition r2r_handles_proper (s : W) (o : op) : Prop := forall h, In h (rel_r_handles o) -> r2r_hproper s h.

Lemma r2r_hp_rels : forall s (hrels : list hrel), (forall h, In h (map snd hrels) -> r2r_hproper s h) ->
  forall hr, In hr hrels -> r2r_hproper s (snd hr).
Proof. intros s hrels H hr Hin. apply H. apply in_map. exact Hin. Qed.

(* ================================================================================================ *)
(** * Part 2: creation / Add / Exchange with arbitrary relation lists whose targets may lie BEYOND the pool

    [r2e_new_entity_any], [r2e_add_any], [r2e_exchange_any] of Rel2Hist assume of every named target
    [r2b_handle_ok] AND [fst x < length (w_istarget s)]. A foreign handle may have an id beyond the current
    pool (Reset truncates pool, index and flags). Such a target fails the generation check, so a list that is
    looked at is rejected; but when GetTable does not look at the list (archetype without relation
    components) or skips the entry, the call proceeds to [register_targets], which panics (index out of
    range) AFTER the row was placed / moved. The invariant is kept in that state too. *)

Lemma r2r_register_any : forall s (rels : list rel), St2 s ->
  exists l', state_of (register_targets rels s) = s <| w_istarget := l' |> /\ St2 (s <| w_istarget := l' |>) /\
             length l' = length (w_istarget s).
Proof.
  intros s rels HS. apply St2_St2G in HS.
  pose proof (r2_register_targets_spec r2_none r2_none r2_none rels s HS) as H.
  destruct (r2_register_targets_gen rels s) as (l0 & S1 & L1 & _).
  exists l0. split; [exact S1|]. split; [|exact L1].
  destruct (register_targets rels s) as [[] s'|er s']; cbn [state_of] in S1; subst s'.
  - destruct H as (HS' & _). apply St2_St2G. destruct HS' as (A & B & C & E). split; [exact A|]. split; [exact B|]. split; [|exact E].
    apply (r2_TargetFlagsG_mono _ _ r2_none) in C; [exact C|]. intros k (Hk & _). exact Hk.
  - destruct H as (HS' & _). apply St2_St2G. exact HS'.
Qed.

(** the tail shared by Add and Exchange after the finder, without the range hypothesis *)
Lemma r2r_move_tail : forall s s1 e otid row ot oa ntid naid m (rels : list rel), St2 s -> St2 s1 -> r2a_keeps s s1 -> room s ->
  live s e = true -> loc s e = Some (otid, row) -> nth_error (w_tables s) otid = Some ot ->
  nth_error (w_archs s) (t_arch ot) = Some oa ->
  (exists t a, nth_error (w_tables s1) ntid = Some t /\ t_arch t = naid /\ t_free t = false /\
               nth_error (w_archs s1) naid = Some a /\ a_mask a = m) ->
  m <> a_mask oa ->
  forall (om : mask),
  r2e_same s (state_of ((nidx <- tbl_addM ntid e ;; copy_row otid ntid m row nidx ;;; remove_row otid row ;;;
                         set_index_direct e ntid nidx ;;; register_targets rels ;;; na <- getA naid ;; ret (om, a_mask na)) s1)).
Proof.
  intros s s1 e otid row ot oa ntid naid m rels HS HS1 K Hroom Hlive Hloc Hot Hoa (nt & na & Hnt & Hnaid & Hfn & Hna & Hma) Hmne om.
  pose proof HS as HS0. apply St2_St2G in HS0. destruct HS0 as (HW & HR & _ & _).
  destruct (r2a_after_finder s s1 e otid row ot oa HS HS1 K Hroom Hlive Hloc Hot Hoa)
    as (_ & Hlive1 & Hloc1 & Hot1 & (oa1 & Hoa1 & Hmask1) & Hroom1 & Hcs & _ & Hil).
  subst naid m.
  assert (Hmne' : a_mask oa1 <> a_mask na) by (rewrite Hmask1; intros Heq; apply Hmne; symmetry; exact Heq).
  pose proof HS1 as HS1g. apply St2_St2G in HS1g.
  destruct (r2a_move_spec r2_none r2_none r2_none s1 e otid row ntid ot nt oa1 na HS1g Hroom1 Hlive1 Hloc1 Hot1 Hnt Hoa1 Hna Hmne' Hfn)
    as (s2 & Hrun & HS2 & Hlive2 & _ & _ & Hoth2 & _ & Hist2 & Harchs2 & _ & _).
  rewrite Hrun. apply St2_St2G in HS2.
  destruct (r2r_register_any s2 rels HS2) as (l' & Sreg & HS3 & _).
  destruct (r2a_flags_obs s2 l') as (L3 & _ & _ & _ & A3 & _ & _).
  assert (Fin : r2e_same s (s2 <| w_istarget := l' |>)).
  { split; [exact HS3|]. intros x. rewrite L3. destruct (ent_eqb x e) eqn:Ex.
    - apply sa_ent_eqb_eq in Ex. subst x. rewrite Hlive2, Hlive. reflexivity.
    - assert (Hne : x <> e) by (intros ->; rewrite sa_ent_eqb_refl in Ex; discriminate).
      rewrite (proj1 (Hoth2 x Hne)). apply Hcs. }
  destruct (register_targets rels s2) as [[] s3|er s3] eqn:Ereg; cbn [state_of] in Sreg; subst s3.
  - rewrite (sa_bind_ok Ereg).
    rewrite (sa_bind_ok (sb2_getA _ _ _ ltac:(rewrite A3, Harchs2; exact Hna))). unfold ret. cbn [state_of]. exact Fin.
  - rewrite (sa_bind_err Ereg). cbn [state_of]. exact Fin.
Qed.

(** Add with an arbitrary relation list whose targets are zero, stored, or fail the generation check *)
Theorem r2r_add_any : forall s e add (rels : list rel), St2 s -> room s -> registered s add ->
  (forall r, In r rels -> r2b_handle_ok s (snd r)) ->
  r2e_same s (state_of (w_add e add rels s)).
Proof.
  intros s e add rels HS Hroom Hreg Hrels. pose proof HS as (HW & _). unfold w_add.
  apply (r2e_prefix (r2e_same s) _ (negb (is_nil add))
           (fun otid row om => r <- find_or_create_table_add otid add rels om ;;
              let '(ntid, naid, m) := r in
              nidx <- tbl_addM ntid e ;; copy_row otid ntid m row nidx ;;; remove_row otid row ;;;
              set_index_direct e ntid nidx ;;; register_targets rels ;;; na <- getA naid ;; ret (om, a_mask na)) s e HW (r2e_same_refl s HS)).
  intros otid row ot oa HG Hlk Hlive Hloc Hot Hoa.
  destruct (r2a_after_finder s s e otid row ot oa HS HS (r2a_keeps_refl s) Hroom Hlive Hloc Hot Hoa) as (Hfo & _).
  pose proof (r2e_find_add s otid ot oa add rels HS Hot Hfo Hoa Hreg Hrels) as Hf.
  destruct (find_or_create_table_add otid add rels (a_mask oa) s) as [[[ntid naid] m] s1|er s1] eqn:Ef.
  2:{ rewrite (sa_bind_err Ef). cbn [state_of]. destruct Hf as (F1 & F2). apply (r2e_same_keeps s s1 HS F1 F2). }
  rewrite (sa_bind_ok Ef). cbv beta iota.
  destruct Hf as ((HS1 & K & Hex) & Hmk & Hnd & Hdis).
  apply (r2r_move_tail s s1 e otid row ot oa ntid naid m rels HS HS1 K Hroom Hlive Hloc Hot Hoa Hex).
  intros Heq. assert (Hadd : add <> []) by (apply sb2_nil_not; exact HG). destruct add as [|c add']; [congruence|].
  specialize (Hmk c). rewrite Heq, (Hdis c (or_introl eq_refl)), sb2_memb_cons, Nat.eqb_refl in Hmk. discriminate.
Qed.

(** Exchange likewise (no observers) *)
Theorem r2r_exchange_any : forall s e add rem (rels : list rel), St2 s -> room s -> r2e_noobs s -> registered s add ->
  (forall r, In r rels -> r2b_handle_ok s (snd r)) ->
  r2e_same s (state_of (w_exchange e add rem rels s)).
Proof.
  intros s e add rem rels HS Hroom Hno Hreg Hrels. pose proof HS as (HW & _). unfold w_exchange.
  apply (r2e_prefix (r2e_same s) _ (negb (is_nil add && is_nil rem))
           (fun otid row om => r <- find_or_create_table otid add rem rels om ;;
              let '(ntid, naid, m, rel_removed) := r in
              whenM (negb (is_nil rem)) (fire_remove_events e om m rel_removed) ;;;
              nidx <- tbl_addM ntid e ;; copy_row otid ntid m row nidx ;;; remove_row otid row ;;;
              set_index_direct e ntid nidx ;;; register_targets rels ;;; na <- getA naid ;; ret (om, a_mask na)) s e HW (r2e_same_refl s HS)).
  intros otid row ot oa HG Hlk Hlive Hloc Hot Hoa.
  destruct (r2a_after_finder s s e otid row ot oa HS HS (r2a_keeps_refl s) Hroom Hlive Hloc Hot Hoa) as (Hfo & _).
  pose proof (r2e_find_exchange s otid ot oa add rem rels HS Hot Hfo Hoa Hreg Hrels) as Hf.
  destruct (find_or_create_table otid add rem rels (a_mask oa) s) as [[[[ntid naid] m] rr] s1|er s1] eqn:Ef.
  2:{ rewrite (sa_bind_err Ef). cbn [state_of]. destruct Hf as (F1 & F2). apply (r2e_same_keeps s s1 HS F1 F2). }
  rewrite (sa_bind_ok Ef). cbv beta iota.
  destruct Hf as ((HS1 & K & Hex) & Hmk & Hnda & Hndr & Hsub & Hdis).
  assert (Hno1 : r2e_noobs s1) by (destruct K as (_ & _ & _ & _ & K5 & _); apply (r2e_noobs_side s s1 K5 Hno)).
  assert (Efire : whenM (negb (is_nil rem)) (fire_remove_events e (a_mask oa) m rr) s1 = Ok tt s1).
  { destruct (negb (is_nil rem)); cbn [whenM]; [apply (r2e_fire_remove_noobs s1 e _ m rr Hno1)|reflexivity]. }
  rewrite (sa_bind_ok Efire).
  apply (r2r_move_tail s s1 e otid row ot oa ntid naid m rels HS HS1 K Hroom Hlive Hloc Hot Hoa Hex).
  intros Heq. destruct add as [|c add'].
  + destruct rem as [|c rem']; [discriminate HG|].
    specialize (Hmk c). rewrite Heq, (Hsub c (or_introl eq_refl)), sb2_memb_cons, Nat.eqb_refl in Hmk. discriminate.
  + specialize (Hmk c). rewrite Heq, (Hdis c (or_introl eq_refl)), sb2_memb_cons, Nat.eqb_refl in Hmk. discriminate.
Qed.

(** creation likewise: when the final [register_targets] panics the new entity IS stored (but no handle
    is issued for it); everybody else is untouched. *)
Theorem r2r_new_entity_any : forall s ids (rels : list rel), St2 s -> room s -> registered s ids ->
  (forall r, In r rels -> r2b_handle_ok s (snd r)) ->
  match new_entity ids rels s with
  | Ok (e, m) s' => St2 s' /\ live s e = false /\ live s' e = true /\ alive s' e = true /\
                    (forall x, x <> e -> live s' x = live s x)
  | Err _ s' => St2 s' /\ (forall x, live s x = true -> live s' x = true)
  end.
Proof.
  intros s ids rels HS Hroom Hreg Hrels. pose proof HS as HS0. apply St2_St2G in HS0. destruct HS0 as (HW & HR & _ & _).
  unfold new_entity.
  destruct (is_locked s) eqn:El.
  { rewrite (sa_bind_err (sb1_check_locked_err s El)). split; [exact HS|auto]. }
  rewrite (sa_bind_ok (sb1_check_locked_ok s El)).
  destruct (r2a_table0 s HS) as (a0 & t0 & Ha0 & Hm0 & Ht0 & Hta0 & Hft0).
  assert (Ha0' : nth_error (w_archs s) (t_arch t0) = Some a0) by (rewrite Hta0; exact Ha0).
  pose proof (r2e_find_add s 0 t0 a0 ids rels HS Ht0 Hft0 Ha0' Hreg Hrels) as Hf. rewrite Hm0 in Hf.
  destruct (find_or_create_table_add 0 ids rels 0%N s) as [[[tid aid] m] s1 | er s1] eqn:Ef.
  2:{ rewrite (sa_bind_err Ef). destruct Hf as (F1 & F2). destruct (r2e_same_keeps s s1 HS F1 F2) as (G1 & G2).
      split; [exact G1|]. intros x Hx. rewrite G2. exact Hx. }
  rewrite (sa_bind_ok Ef). cbv beta iota.
  destruct Hf as ((HS1 & K & nt & na & Hnt & Hnaid & Hfn & Hna & Hma) & _).
  pose proof HS1 as HS1g. apply St2_St2G in HS1g. destruct HS1g as (HW1 & HR1 & _ & _).
  destruct (r2a_keeps_obs r2_none s s1 HW HR K) as (Hcs & _).
  assert (Hroom1 : room s1) by (apply (r2a_keeps_room s s1 K Hroom)).
  destruct (pool_get (w_pool s1)) as [e p'] eqn:Hg.
  rewrite (sb1_place_run _ s1 tid nt e p'
             (fun e _ => register_targets rels ;;; a <- getA aid ;; ret (e, a_mask a)) Hnt Hg).
  pose proof (r2a_place_new s1 tid nt e p' HS1 Hnt Hfn Hroom1 Hg) as H. cbv zeta in H.
  set (s2 := sb1_st2 s1 p' (upd tid (snd (tbl_add nt e)) (w_tables s1)) (sb1_idx s1 e (Some tid, t_len nt)) (sb1_ist s1 e)) in *.
  destruct H as (HS2 & H2 & H3 & H4 & _ & _ & H6 & _ & _ & _ & H10 & H11).
  destruct (r2r_register_any s2 rels HS2) as (l' & Sreg & HS3 & _).
  destruct (r2a_flags_obs s2 l') as (L3 & _ & _ & _ & A3 & _ & _).
  assert (Hoth : forall x, x <> e -> live (s2 <| w_istarget := l' |>) x = live s x).
  { intros x Hx. rewrite L3, (proj1 (H6 x Hx)). apply Hcs. }
  assert (Hnl : live s e = false) by (rewrite <- (proj1 (Hcs e)); exact H2).
  destruct (register_targets rels s2) as [[] s3|er s3] eqn:Ereg; cbn [state_of] in Sreg; subst s3.
  - rewrite (sa_bind_ok Ereg).
    rewrite (sa_bind_ok (sb1_getA_eq _ _ _ ltac:(rewrite A3, H10; exact Hna))). unfold ret.
    split; [exact HS3|]. split; [exact Hnl|]. split; [rewrite L3; exact H3|]. split; [exact H4|exact Hoth].
  - rewrite (sa_bind_err Ereg). split; [exact HS3|]. intros x Hx. rewrite Hoth; [exact Hx|]. intros ->. congruence.
Qed.

(* ================================================================================================ *)
(** * Part 3: the operations of the core class in an unlocked world, handles foreign or not

    The wrappers of Rel2Hist (Parts 3, 4, 6) once more, from the state-level facts only: [St2], [r2d_KeysLive],
    [r2e_quiet], [room], ids of handles >= 2, and [r2r_hproper] for the handles of [rel_r_handles]. Nothing
    else is assumed of a handle: the entity argument of Add / Remove / Exchange / SetRelations / Write /
    RemoveEntity and of the read probes may be anything. *)

Section r2r_ops.
Variables (debug : bool) (s : W).
Hypothesis HS : St2 s.
Hypothesis HK : r2d_KeysLive s.
Hypothesis HQ : r2e_quiet s.
Hypothesis Hroom : room s.
Hypothesis Hids : r2r_ids2 s.
Let HW : WF s := proj1 HS.
Let Hno : r2e_noobs s := proj1 HQ.
Let Hlk : is_locked s = false := proj2 HQ.

Lemma r2r_trans_refl : r2e_trans s s.
Proof.
  repeat (split; [first [assumption|reflexivity]|]).
  left. split; [apply sc_pcreate_refl|auto].
Qed.

Lemma r2r_trans_fc : forall s', St2 s' -> r2e_fc s s' -> (forall x, live s x = true -> live s' x = true) -> r2e_trans s s'.
Proof.
  intros s' HS' HF HL. destruct (HF Hno) as (A & (B1 & _ & _ & _ & B5 & _) & C & D).
  split; [exact HS'|]. split; [apply (r2e_KeysLive_E s s' HS' HK C HL)|]. split; [apply (r2e_quiet_side s s' A HQ)|].
  split; [exact B1|]. split; [exact B5|]. left. split; assumption.
Qed.

Lemma r2r_trans_fk : forall s', St2 s' -> r2e_fk s s' -> (forall x, live s x = true -> live s' x = true) -> r2e_trans s s'.
Proof. intros s' HS' HF HL. apply (r2r_trans_fc s' HS'); [apply r2e_fc_of_fk; exact HF|exact HL]. Qed.

Lemma r2r_refl_post : forall b er, r2e_post b s (Err er s).
Proof. intros. apply r2e_post_err. apply r2r_trans_refl. Qed.

Lemma r2r_post_ro : forall (m : MW (list Z)), readonly m -> r2e_post false s (m s).
Proof. intros m Hm. apply r2e_post_false. rewrite (Hm s). apply r2r_trans_refl. Qed.

Lemma r2r_resolved_h : forall b h (k : ent -> MW (list Z)),
  (forall e, handle s h = Some e -> r2e_post b s (k e s)) -> r2e_post b s ((e <- resolveH h ;; k e) s).
Proof.
  intros b h k H. unfold bind at 1. rewrite sc_resolveH. destruct (handle s h) as [e|] eqn:Hh; [|apply r2r_refl_post].
  apply H. reflexivity.
Qed.

Lemma r2r_resolved_r : forall b hrels (k : list rel -> MW (list Z)),
  (forall rels, r2e_resolved s hrels rels -> r2e_post b s (k rels s)) -> r2e_post b s ((rels <- resolveR hrels ;; k rels) s).
Proof.
  intros b hrels k H. destruct (r2e_resolveR hrels s) as [(rels & E & HR)|(er & E)].
  - rewrite (sa_bind_ok E). apply H. exact HR.
  - rewrite (sa_bind_err E). apply r2r_refl_post.
Qed.

Lemma r2r_op_ONewEntity : r2e_post true s (step_op debug ONewEntity s).
Proof.
  cbn [step_op]. rewrite (sa_bind_ok (sb1_check_locked_ok s Hlk)).
  destruct (L_create_entity_spec2 s HS HK Hroom) as (e & s1 & E & C1 & C2 & C3 & C4 & C5 & _ & _ & C8 & C9 & C10).
  rewrite (sa_bind_ok E).
  pose proof (sc_pc_create_entity 0 s) as Hp. rewrite E in Hp. cbn [state_of] in Hp.
  assert (HT : r2e_trans s s1).
  { split; [exact C1|]. split; [exact C2|]. split; [apply (r2e_quiet_side s s1 C9 HQ)|].
    destruct C10 as (F1 & _ & _ & _ & F5 & _). split; [exact F1|]. split; [exact F5|]. left. split; [exact Hp|].
    intros x Hx. assert (Hne : x <> e) by (intros ->; congruence). rewrite (proj1 (C8 x Hne)). exact Hx. }
  destruct (sc_ro_cases _ (arch_mask_of_table 0) (sc_ro_arch_mask 0) s1) as [(m & Em)|(er & Em)].
  2:{ rewrite (sa_bind_err Em). apply r2e_post_err. exact HT. }
  rewrite (sa_bind_ok Em).
  rewrite (sa_bind_ok (sb1_fire_create_noobs s1 e m (proj1 (r2e_quiet_side s s1 C9 HQ) EvCreateEntity))).
  unfold ret. split; [exact HT|]. intros _ res s' H. inversion H; subst. exists e. split; [reflexivity|]. split; [assumption|]. split; assumption.
Qed.

Lemma r2r_op_OCopy : forall h, r2r_hproper s h -> r2e_post true s (step_op debug (OCopy h) s).
Proof.
  intros h Hp. cbn [step_op]. apply r2r_resolved_h. intros e Hh.
  pose proof (L_copy_entity_spec2_partial s e HS Hroom (Hp e Hh) (Hno EvCreateEntity) (Hno EvAddRelations)) as Hs.
  pose proof (r2e_fc_copy_entity e s) as Hf.
  unfold bind. destruct (w_copy_entity e s) as [ne s1|er s1]; cbn [state_of] in Hf.
  - destruct Hs as (C1 & _ & _ & _ & C5 & C6 & C7 & _ & _ & C10 & _).
    assert (HT : r2e_trans s s1).
    { apply (r2r_trans_fc s1 C1 Hf). intros x Hx. assert (Hne : x <> ne) by (intros ->; congruence).
      rewrite (proj1 (C10 x Hne)). exact Hx. }
    unfold ret. split; [exact HT|]. intros _ res s' H. inversion H; subst. exists ne. split; [reflexivity|]. split; [assumption|]. split; assumption.
  - apply r2e_post_err. destruct Hs as (C1 & C2 & _). apply (r2r_trans_fc s1 C1 Hf).
    intros x Hx. rewrite (proj1 (C2 x)). exact Hx.
Qed.

Lemma r2r_op_OWrite : forall h c v, r2e_post false s (step_op debug (OWrite h c v) s).
Proof.
  intros h c v. cbn [step_op]. apply r2r_resolved_h. intros e Hh.
  pose proof (L_write_spec2 s debug e c v HS) as Hs.
  unfold bind at 1 in Hs. unfold bind at 1.
  destruct (cell_of debug e c s) as [[[tid ci] row] s1|er s1].
  - cbv beta iota in Hs |- *. unfold bind. destruct (write_cell tid ci row v s1) as [u s2|er s2].
    + destruct Hs as (A1 & _ & _ & _ & _ & _ & _ & A8 & A9 & A10 & A11 & A12).
      apply r2e_post_false. cbn [state_of ret]. apply (r2r_trans_fk s2 A1).
      * apply r2e_fk_intro; assumption.
      * intros x Hx. rewrite A8. exact Hx.
    + subst s2. apply r2r_refl_post.
  - subst s1. apply r2r_refl_post.
Qed.

Lemma r2r_op_OShrink : forall b0, r2e_post false s (step_op debug (OShrink b0) s).
Proof.
  intros b0. cbn [step_op].
  destruct (D_shrink_spec_w s b0 HS Hlk) as (b & s1 & E & D1 & D2 & _ & D4 & _ & _ & D7 & D8 & _ & _ & _ & D13).
  rewrite (sa_bind_ok E). unfold ret. apply r2e_post_false. cbn [state_of].
  split; [exact D1|]. split; [apply D13; exact HK|]. split; [apply (r2e_quiet_side s s1 D7 HQ)|].
  destruct D8 as (F1 & _ & _ & _ & F5 & _). split; [exact F1|]. split; [exact F5|]. left. split; [rewrite D4; apply sc_pcreate_refl|].
  intros x Hx. rewrite (proj1 (D2 x)). exact Hx.
Qed.

Lemma r2r_op_reading : forall o, reading o = true -> r2e_post false s (step_op debug o s).
Proof.
  intros o Hr. apply r2e_post_false. rewrite (reads_do_not_change_state debug o s Hr). apply r2r_trans_refl.
Qed.

Lemma r2r_op_OUSetRel : forall h hrels, (forall hr, In hr hrels -> r2r_hproper s (snd hr)) ->
  r2e_post false s (step_op debug (OUSetRel h hrels) s).
Proof.
  intros h hrels Hp. cbn [step_op]. apply r2r_resolved_h. intros e Hh. apply r2r_resolved_r. intros rels HR.
  pose proof (r2b_set_relations_spec_noobs s e rels HS Hroom (Hno EvRemoveRelations) (Hno EvAddRelations)
                (r2r_resolved_ok s hrels rels HW Hids HR Hp)) as Hs.
  pose proof (r2e_fkp_w_set_relations e rels s) as Hf.
  unfold bind. destruct (w_set_relations e rels s) as [u s1|er s1]; cbn [state_of] in Hf.
  - destruct Hs as (B1 & _ & _ & _ & _ & _ & B7 & _ & _ & B10 & _).
    apply r2e_post_false. cbn [state_of ret]. apply (r2r_trans_fk s1 B1 Hf).
    intros x Hx. destruct (ent_eqb x e) eqn:Ex.
    + apply sa_ent_eqb_eq in Ex. subst x. exact B7.
    + assert (Hne : x <> e) by (intros ->; rewrite sa_ent_eqb_refl in Ex; discriminate).
      rewrite (proj1 (B10 x Hne)). exact Hx.
  - destruct Hs as (-> & _). apply r2r_refl_post.
Qed.

Lemma r2r_op_ORemoveEntity : forall h, r2e_post false s (step_op debug (ORemoveEntity h) s).
Proof.
  intros h. cbn [step_op]. apply r2r_resolved_h. intros e Hh.
  rewrite (sa_bind_ok (sb1_check_locked_ok s Hlk)).
  pose proof (r2e_remove_entity_spec s e HS HK Hno) as Hs.
  unfold bind. destruct (storage_remove_entity e s) as [u s1|er s1].
  - destruct Hs as (R1 & R2 & R3 & R4 & _ & R6 & (F1 & _ & _ & _ & F5 & _) & R8 & R9 & _).
    apply r2e_post_false. cbn [state_of ret].
    split; [exact R1|]. split; [exact R2|]. split; [apply (r2e_quiet_side s s1 R8 HQ)|]. split; [exact F1|]. split; [exact F5|].
    right. exists e. split; [exact R9|]. split; [exact R3|]. intros x Hne Hx. rewrite (proj1 (R6 x Hne)). exact Hx.
  - destruct Hs as (-> & _). apply r2r_refl_post.
Qed.

(** creation through [new_entity], followed by the (vacuous) dispatch of the creation events *)
Lemma r2r_new_post : forall ids (rels : list rel) (tail : ent -> mask -> MW (list Z)), registered s ids ->
  (forall r, In r rels -> r2b_handle_ok s (snd r)) ->
  (forall e m s1, r2e_noobs s1 -> tail e m s1 = Ok (Zent e) s1) ->
  r2e_post true s ((r <- new_entity ids rels ;; let '(e, m) := r in tail e m) s).
Proof.
  intros ids rels tail Hreg Hrels Htail.
  pose proof (r2r_new_entity_any s ids rels HS Hroom Hreg Hrels) as Hs.
  pose proof (r2e_fc_new_entity ids rels s) as Hf.
  unfold bind at 1. destruct (new_entity ids rels s) as [[e m] s1|er s1]; cbn [state_of] in Hf.
  - destruct Hs as (C1 & C2 & C3 & C4 & C5). cbv beta iota.
    assert (HT : r2e_trans s s1).
    { apply (r2r_trans_fc s1 C1 Hf). intros x Hx. assert (Hne : x <> e) by (intros ->; congruence).
      rewrite (C5 x Hne). exact Hx. }
    rewrite (Htail e m s1 (proj1 (proj1 (proj2 (proj2 HT))))).
    split; [exact HT|]. intros _ res s' H. inversion H; subst. exists e. split; [reflexivity|]. split; [assumption|]. split; assumption.
  - apply r2e_post_err. destruct Hs as (C1 & C2). apply (r2r_trans_fc s1 C1 Hf). exact C2.
Qed.

Lemma r2r_op_OUNew : forall ids, registered s ids -> r2e_post true s (step_op debug (OUNew ids) s).
Proof.
  intros ids Hreg. cbn [step_op].
  apply (r2r_new_post ids [] (fun e m => fire_create_entity_if_has e m ;;; ret (Zent e)) Hreg).
  - intros r [].
  - intros e m s1 Hn1. rewrite (sa_bind_ok (sb1_fire_create_noobs s1 e m (Hn1 EvCreateEntity))). reflexivity.
Qed.

Lemma r2r_op_OUNewRel : forall ids hrels, registered s ids -> (forall hr, In hr hrels -> r2r_hproper s (snd hr)) ->
  r2e_post true s (step_op debug (OUNewRel ids hrels) s).
Proof.
  intros ids hrels Hreg Hp. cbn [step_op]. apply r2r_resolved_r. intros rels HR.
  apply (r2r_new_post ids rels (fun e m => fire_create_entity_if_has e m ;;;
           whenM (negb (is_nil rels)) (fire_create_entity_rel_if_has e m) ;;; ret (Zent e)) Hreg).
  - apply (r2r_resolved_ok s hrels rels HW Hids HR Hp).
  - intros e m s1 Hn1. rewrite (sa_bind_ok (sb1_fire_create_noobs s1 e m (Hn1 EvCreateEntity))).
    destruct (negb (is_nil rels)); cbn [whenM]; [|reflexivity].
    rewrite (sa_bind_ok (r2d_fire_create_rel_noobs s1 e m (Hn1 EvAddRelations))). reflexivity.
Qed.

Lemma r2r_guarded : forall h (k : ent -> MW (list Z)),
  (forall e, handle s h = Some e -> alive s e = true -> r2e_post false s (k e s)) ->
  r2e_post false s ((e <- resolveH h ;; s0 <- get ;; guard (alive s0 e) EDead ;;; k e) s).
Proof.
  intros h k H. apply r2r_resolved_h. intros e Hh.
  rewrite sb2_bind_get. cbv beta. destruct (alive s e) eqn:Ha.
  - rewrite sb2_bind_guard_true. apply H; auto.
  - rewrite sb2_bind_guard_false. apply r2r_refl_post.
Qed.

Lemma r2r_same_post : forall A (m : MW A) (tail : A -> MW (list Z)), r2e_fkp m -> r2e_same s (state_of (m s)) ->
  (forall a s1, r2e_noobs s1 -> exists res, tail a s1 = Ok res s1) ->
  r2e_post false s ((a <- m ;; tail a) s).
Proof.
  intros A m tail Hfk (Hs1 & Hs2) Htail. specialize (Hfk s).
  assert (HT : r2e_trans s (state_of (m s))).
  { apply (r2r_trans_fk _ Hs1 Hfk). intros x Hx. rewrite Hs2. exact Hx. }
  apply r2e_post_false. unfold bind. destruct (m s) as [a s1|er s1]; cbn [state_of] in *; [|exact HT].
  destruct (Htail a s1 (proj1 (proj1 (proj2 (proj2 HT))))) as (res & ->). exact HT.
Qed.

Lemma r2r_op_OUAdd : forall h ids, registered s ids -> r2e_post false s (step_op debug (OUAdd h ids) s).
Proof.
  intros h ids Hreg. cbn [step_op].
  apply (r2r_guarded h (fun e => r <- w_add e ids [] ;; fire_add_if_has EvAddComponents e (fst r) (snd r) ;;; ret [])).
  intros e Hh Ha. apply r2r_same_post; [apply r2e_fkp_w_add| |].
  - apply (r2r_add_any s e ids [] HS Hroom Hreg). intros r [].
  - intros r s1 Hn1. rewrite (sa_bind_ok (r2e_fire_add_noobs s1 _ e _ _ Hn1)). eexists. reflexivity.
Qed.

Lemma r2r_op_OUAddRel : forall h ids hrels, registered s ids -> (forall hr, In hr hrels -> r2r_hproper s (snd hr)) ->
  r2e_post false s (step_op debug (OUAddRel h ids hrels) s).
Proof.
  intros h ids hrels Hreg Hp. cbn [step_op].
  apply (r2r_guarded h (fun e => rels <- resolveR hrels ;; r <- w_add e ids rels ;;
           fire_add_if_has EvAddComponents e (fst r) (snd r) ;;;
           whenM (negb (is_nil rels)) (fire_add_if_has EvAddRelations e (fst r) (snd r)) ;;; ret [])).
  intros e Hh Ha. apply r2r_resolved_r. intros rels HR.
  apply r2r_same_post; [apply r2e_fkp_w_add| |].
  - apply (r2r_add_any s e ids rels HS Hroom Hreg). apply (r2r_resolved_ok s hrels rels HW Hids HR Hp).
  - intros r s1 Hn1. rewrite (sa_bind_ok (r2e_fire_add_noobs s1 _ e _ _ Hn1)).
    destruct (negb (is_nil rels)); cbn [whenM].
    + rewrite (sa_bind_ok (r2e_fire_add_noobs s1 _ e _ _ Hn1)). eexists. reflexivity.
    + eexists. reflexivity.
Qed.

Lemma r2r_op_OURemove : forall h ids, r2e_post false s (step_op debug (OURemove h ids) s).
Proof.
  intros h ids. cbn [step_op].
  apply (r2r_guarded h (fun e => w_remove e ids ;;; ret [])).
  intros e Hh Ha. apply r2r_same_post; [apply r2e_fkp_w_remove| |].
  - pose proof (r2a_remove_spec s e ids HS Hroom) as Hs. destruct (w_remove e ids s) as [u s1|er s1]; cbn [state_of].
    + destruct Hs as (A1 & _ & A3 & _ & _ & _ & A7 & _ & _ & A10 & _). split; [exact A1|]. intros x.
      destruct (ent_eqb x e) eqn:Ex.
      * apply sa_ent_eqb_eq in Ex. subst x. rewrite A7, A3. reflexivity.
      * assert (Hne : x <> e) by (intros ->; rewrite sa_ent_eqb_refl in Ex; discriminate). apply (A10 x Hne).
    + destruct Hs as ((R1 & R2 & _) & _). split; [exact R1|]. intros x. apply R2.
  - intros u s1 _. eexists. reflexivity.
Qed.

Lemma r2r_op_OUExchange : forall h add rem hrels, registered s add -> (forall hr, In hr hrels -> r2r_hproper s (snd hr)) ->
  r2e_post false s (step_op debug (OUExchange h add rem hrels) s).
Proof.
  intros h add rem hrels Hreg Hp. cbn [step_op].
  apply (r2r_guarded h (fun e => rels <- resolveR hrels ;; r <- w_exchange e add rem rels ;;
      whenM (negb (is_nil add)) (
        fire_add_if_has EvAddComponents e (fst r) (snd r) ;;;
        whenM (negb (is_nil rels)) (fire_add_if_has EvAddRelations e (fst r) (snd r))) ;;;
      ret [])).
  intros e Hh Ha. apply r2r_resolved_r. intros rels HR.
  apply r2r_same_post; [apply r2e_fkp_w_exchange| |].
  - apply (r2r_exchange_any s e add rem rels HS Hroom Hno Hreg). apply (r2r_resolved_ok s hrels rels HW Hids HR Hp).
  - intros r s1 Hn1. destruct (negb (is_nil add)); cbn [whenM]; [|eexists; reflexivity].
    rewrite r2c_bind_assoc. rewrite (sa_bind_ok (r2e_fire_add_noobs s1 _ e _ _ Hn1)).
    destruct (negb (is_nil rels)); cbn [whenM].
    + rewrite (sa_bind_ok (r2e_fire_add_noobs s1 _ e _ _ Hn1)). eexists. reflexivity.
    + eexists. reflexivity.
Qed.

(** One operation of the core class on an unlocked world. *)
Theorem r2r_op_spec : forall o, rel_core_op o = true -> registered s (rel_op_ids o) -> r2r_handles_proper s o ->
  r2e_post (returns_entity o) s (step_op debug o s).
Proof.
  intros o Hc Hreg Hp. unfold r2r_handles_proper in Hp.
  destruct o; try discriminate Hc; cbn [returns_entity rel_op_ids rel_r_handles] in *.
  - apply r2r_op_ONewEntity.
  - apply r2r_op_OUNew; exact Hreg.
  - apply r2r_op_OUNewRel; [exact Hreg|apply r2r_hp_rels; exact Hp].
  - apply r2r_op_OCopy. apply Hp. left. reflexivity.
  - apply r2r_op_OUAdd; exact Hreg.
  - apply r2r_op_OUAddRel; [exact Hreg|apply r2r_hp_rels; exact Hp].
  - apply r2r_op_OURemove.
  - apply r2r_op_OUExchange; [exact Hreg|apply r2r_hp_rels; exact Hp].
  - apply r2r_op_OWrite.
  - apply r2r_op_OUSetRel. apply r2r_hp_rels; exact Hp.
  - apply r2r_op_ORemoveEntity.
  - apply r2r_op_OShrink.
  - apply r2r_op_reading; reflexivity.
  - apply r2r_op_reading; reflexivity.
  - apply r2r_post_ro. apply r2q_ro_OGetRel.
  - apply r2r_op_reading; reflexivity.
  - apply r2r_post_ro. apply r2q_ro_OGet.
  - apply r2r_op_reading; reflexivity.
Qed.
End r2r_ops.

(* ================================================================================================ *)
(** * Part 4: what Reset keeps (syntactic frames) *)

Lemma r2r_fsame_trans : forall F1 F2 F3, r2q_fsame F1 F2 -> r2q_fsame F2 F3 -> r2q_fsame F1 F3.
Proof.
  intros F1 F2 F3 (L1 & H1) (L2 & H2). split; [congruence|]. intros i f3 Hf3.
  destruct (H2 i f3 Hf3) as (f2 & Hf2 & A1 & A2 & A3 & A4). destruct (H1 i f2 Hf2) as (f1 & Hf1 & B1 & B2 & B3 & B4).
  exists f1. split; [exact Hf1|]. repeat split; congruence.
Qed.

(** In a world without observers Reset keeps: "no observers", the issued handles, the registry, and the
    filter objects up to their cache ids. *)
Definition r2r_rk (s s' : W) : Prop :=
  r2e_noobs s -> r2e_noobs s' /\ w_issued s' = w_issued s /\ w_reg s' = w_reg s /\ w_cfg s' = w_cfg s /\
                 r2q_fsame (w_filters s) (w_filters s').

Lemma r2r_rk_refl : forall s, r2r_rk s s.
Proof. intros s Hn. split; [exact Hn|]. repeat (split; [reflexivity|]). apply r2q_fsame_refl. Qed.

Lemma r2r_rk_trans : forall s1 s2 s3, r2r_rk s1 s2 -> r2r_rk s2 s3 -> r2r_rk s1 s3.
Proof.
  intros s1 s2 s3 H1 H2 Hn. destruct (H1 Hn) as (A1 & A2 & A3 & A4 & A5). destruct (H2 A1) as (B1 & B2 & B3 & B4 & B5).
  split; [exact B1|]. split; [congruence|]. split; [congruence|]. split; [congruence|]. apply (r2r_fsame_trans _ _ _ A5 B5).
Qed.

Definition r2r_rkp {A} (m : MW A) : Prop := r2e_pres r2r_rk m.

Lemma r2r_rkp_ro : forall A (m : MW A), readonly m -> r2r_rkp m.
Proof. intros A m H. apply (r2e_pres_ro r2r_rk r2r_rk_refl). exact H. Qed.
Lemma r2r_rkp_bind : forall A B (m : MW A) (k : A -> MW B), r2r_rkp m -> (forall a, r2r_rkp (k a)) -> r2r_rkp (bind m k).
Proof. intros A B m k. apply (r2e_pres_bind r2r_rk r2r_rk_trans). Qed.
Lemma r2r_rkp_forM : forall A (l : list A) (f : A -> MW unit), (forall a, r2r_rkp (f a)) -> r2r_rkp (forM_ l f).
Proof. intros A l f. apply (r2e_pres_forM r2r_rk r2r_rk_refl r2r_rk_trans). Qed.
Lemma r2r_rkp_getbind : forall A (k : W -> MW A), (forall s, r2r_rk s (state_of (k s s))) -> r2r_rkp (bind get k).
Proof. intros A k. apply (r2e_pres_getbind r2r_rk). Qed.

Lemma r2r_rk_fields : forall s s', w_oagg s' = w_oagg s -> w_issued s' = w_issued s -> w_reg s' = w_reg s -> w_cfg s' = w_cfg s ->
  r2q_fsame (w_filters s) (w_filters s') -> r2r_rk s s'.
Proof.
  intros s s' E1 E2 E3 E4 E5 Hn. split; [intros ev; rewrite (sb1_has_obs_eq s s' ev E1); apply Hn|]. repeat (split; [assumption|]). exact E5.
Qed.

Lemma r2r_rkp_modify : forall f : W -> W,
  (forall s, w_oagg (f s) = w_oagg s /\ w_issued (f s) = w_issued s /\ w_reg (f s) = w_reg s /\ w_cfg (f s) = w_cfg s /\
             w_filters (f s) = w_filters s) -> r2r_rkp (modify f).
Proof.
  intros f H s. unfold modify. cbn [state_of]. destruct (H s) as (E1 & E2 & E3 & E4 & E5).
  apply r2r_rk_fields; try assumption. rewrite E5. apply r2q_fsame_refl.
Qed.

Ltac r2r_rk_mod := apply r2r_rkp_modify; intros ?; repeat split; reflexivity.

Lemma r2r_rkp_cache_reset : r2r_rkp cache_reset.
Proof.
  unfold cache_reset. apply r2r_rkp_getbind. intros s. destruct (is_nil (w_centries s)); [apply r2r_rk_refl|].
  generalize (w_centries s) as l. intros l. revert s.
  apply (r2r_rkp_bind _ _ (forM_ l _) (fun _ => modify _)); [|intros _; r2r_rk_mod].
  apply r2r_rkp_forM. intros addr. apply r2r_rkp_getbind. intros s.
  destruct (nth_error (w_cheap s) addr) as [e|]; [|apply r2r_rk_refl].
  unfold modify. cbn [state_of]. apply r2r_rk_fields; try reflexivity. cbn. apply r2q_fsame_updf.
Qed.

Lemma r2r_rkp_reset_observers : r2r_rkp reset_observers.
Proof.
  unfold reset_observers. apply r2r_rkp_getbind. intros s. destruct (Nat.eqb (w_ototal s) 0).
  - unfold put. cbn [state_of]. apply r2r_rk_fields; try reflexivity. apply r2q_fsame_refl.
  - generalize (seq 0 (S (w_omax s))) as l. intros l. revert s.
    apply (r2r_rkp_bind _ _ (forM_ l _) (fun _ => modify _)); [|intros _; r2r_rk_mod].
    apply r2r_rkp_forM. intros evt. apply r2r_rkp_getbind. intros s Hn. rewrite (Hn evt). cbn [negb].
    apply r2r_rk_refl. exact Hn.
Qed.

Lemma r2r_rkp_modT : forall i f, r2r_rkp (modT i f).
Proof. intros. unfold modT. r2r_rk_mod. Qed.
Lemma r2r_rkp_modA : forall i f, r2r_rkp (modA i f).
Proof. intros. unfold modA. r2r_rk_mod. Qed.

Lemma r2r_rkp_arch_reset : forall aid, r2r_rkp (arch_reset aid).
Proof.
  intros aid. unfold arch_reset. apply r2r_rkp_bind; [apply r2r_rkp_ro, r2e_ro_getA|]. intros a.
  destruct (negb (arch_has_rels a)).
  - destruct (a_tables a); [apply r2r_rkp_ro, readonly_fail|apply r2r_rkp_modT].
  - apply r2r_rkp_bind; [apply r2r_rkp_forM; intros; apply r2r_rkp_modT|]. intros _.
    apply r2r_rkp_bind; [apply r2r_rkp_forM; intros; apply r2r_rkp_modT|]. intros _. apply r2r_rkp_modA.
Qed.

Theorem r2r_rkp_reset : r2r_rkp w_reset.
Proof.
  unfold w_reset.
  apply r2r_rkp_bind; [apply r2r_rkp_ro, sc_ro_check_locked|]. intros _.
  apply r2r_rkp_bind; [r2r_rk_mod|]. intros _.
  apply r2r_rkp_bind; [apply r2r_rkp_cache_reset|]. intros _.
  apply r2r_rkp_bind; [r2r_rk_mod|]. intros _.
  apply r2r_rkp_bind; [apply r2r_rkp_reset_observers|]. intros _.
  apply r2r_rkp_getbind. intros s. generalize (seq 0 (length (w_archs s))) as l. intros l. revert s.
  apply (r2r_rkp_bind _ _ (forM_ l arch_reset) (fun _ => modify _)); [|intros _; r2r_rk_mod].
  apply r2r_rkp_forM. exact r2r_rkp_arch_reset.
Qed.

(** Reset keeps the archetype number of every table and the number of relation components of every
    archetype ([r2e_hk] of Rel2Hist, Part 9), hence the clause [archs_tabled_norel]. *)
Lemma r2r_hkp_arch_reset : forall aid, r2e_hkp (arch_reset aid).
Proof.
  intros aid. unfold arch_reset. r2e_hk_tac.
  all: first [apply r2e_hkp_modT; intros; reflexivity|apply r2e_hkp_modA; intros; reflexivity].
Qed.

Lemma r2r_hkp_put_same : forall (f : W -> W), (forall s, w_archs (f s) = w_archs s /\ w_tables (f s) = w_tables s) ->
  forall s, r2e_hk s (state_of (put (f s) s)).
Proof. intros f H s. unfold put. cbn [state_of]. destruct (H s) as (E1 & E2). apply r2e_hk_same; assumption. Qed.

Lemma r2r_hkp_reset_observers : r2e_hkp reset_observers.
Proof.
  unfold reset_observers. apply r2e_hkp_getbind. intros s. destruct (Nat.eqb (w_ototal s) 0).
  - unfold put. cbn [state_of]. apply r2e_hk_same; reflexivity.
  - generalize (seq 0 (S (w_omax s))) as l. intros l. revert s. unfold mod_agg, modO.
    apply (r2e_hkp_bind _ _ (forM_ l _) (fun _ => modify _)); [|intros _; r2e_hk_same_mod].
    r2e_hk_tac. all: r2e_hk_same_mod.
Qed.

Theorem r2r_hkp_reset : r2e_hkp w_reset.
Proof.
  unfold w_reset, cache_reset. r2e_hk_tac.
  all: try r2e_hk_same_mod.
  all: first [apply r2r_hkp_arch_reset|apply r2r_hkp_reset_observers].
Qed.

(** After its first step ([w_index], [w_pool], [w_istarget] are truncated) Reset touches neither pool nor entity
    index nor target flags: the pool of the result is exactly [pool_reset] of the old one. *)
Definition r2r_pk (s s' : W) : Prop := w_pool s' = w_pool s /\ w_index s' = w_index s /\ w_istarget s' = w_istarget s.

Lemma r2r_pk_refl : forall s, r2r_pk s s.
Proof. intros s. repeat split. Qed.
Lemma r2r_pk_trans : forall s1 s2 s3, r2r_pk s1 s2 -> r2r_pk s2 s3 -> r2r_pk s1 s3.
Proof. intros s1 s2 s3 (A1 & A2 & A3) (B1 & B2 & B3). repeat split; congruence. Qed.

Definition r2r_pkp {A} (m : MW A) : Prop := r2e_pres r2r_pk m.

Lemma r2r_pkp_ro : forall A (m : MW A), readonly m -> r2r_pkp m.
Proof. intros A m H. apply (r2e_pres_ro r2r_pk r2r_pk_refl). exact H. Qed.
Lemma r2r_pkp_bind : forall A B (m : MW A) (k : A -> MW B), r2r_pkp m -> (forall a, r2r_pkp (k a)) -> r2r_pkp (bind m k).
Proof. intros A B m k. apply (r2e_pres_bind r2r_pk r2r_pk_trans). Qed.
Lemma r2r_pkp_forM : forall A (l : list A) (f : A -> MW unit), (forall a, r2r_pkp (f a)) -> r2r_pkp (forM_ l f).
Proof. intros A l f. apply (r2e_pres_forM r2r_pk r2r_pk_refl r2r_pk_trans). Qed.
Lemma r2r_pkp_getbind : forall A (k : W -> MW A), (forall s, r2r_pk s (state_of (k s s))) -> r2r_pkp (bind get k).
Proof. intros A k. apply (r2e_pres_getbind r2r_pk). Qed.
Lemma r2r_pkp_modify : forall f : W -> W,
  (forall s, w_pool (f s) = w_pool s /\ w_index (f s) = w_index s /\ w_istarget (f s) = w_istarget s) -> r2r_pkp (modify f).
Proof. intros f H s. unfold modify. cbn [state_of]. apply H. Qed.

Ltac r2r_pk_mod := apply r2r_pkp_modify; intros ?; repeat split; reflexivity.

Lemma r2r_pkp_cache_reset : r2r_pkp cache_reset.
Proof.
  unfold cache_reset. apply r2r_pkp_getbind. intros s. destruct (is_nil (w_centries s)); [apply r2r_pk_refl|].
  generalize (w_centries s) as l. intros l. revert s.
  apply (r2r_pkp_bind _ _ (forM_ l _) (fun _ => modify _)); [|intros _; r2r_pk_mod].
  apply r2r_pkp_forM. intros addr. apply r2r_pkp_getbind. intros s.
  destruct (nth_error (w_cheap s) addr) as [e|]; [|apply r2r_pk_refl]. unfold modify. cbn [state_of]. repeat split.
Qed.

Lemma r2r_pkp_reset_observers : r2r_pkp reset_observers.
Proof.
  unfold reset_observers. apply r2r_pkp_getbind. intros s. destruct (Nat.eqb (w_ototal s) 0).
  - unfold put. cbn [state_of]. repeat split.
  - generalize (seq 0 (S (w_omax s))) as l. intros l. revert s. unfold mod_agg, modO.
    apply (r2r_pkp_bind _ _ (forM_ l _) (fun _ => modify _)); [|intros _; r2r_pk_mod].
    apply r2r_pkp_forM. intros evt. apply r2r_pkp_getbind. intros s. destruct (negb (has_obs s evt)); [apply r2r_pk_refl|].
    generalize (olist s evt) as ol. intros ol. revert s.
    apply (r2r_pkp_bind _ _ (forM_ ol _) (fun _ => bind (modify _) (fun _ => modify _))); [apply r2r_pkp_forM; intros oi; r2r_pk_mod|]. intros _.
    apply r2r_pkp_bind; [r2r_pk_mod|]. intros _. r2r_pk_mod.
Qed.

Lemma r2r_pkp_arch_reset : forall aid, r2r_pkp (arch_reset aid).
Proof.
  intros aid. unfold arch_reset, modT, modA. apply r2r_pkp_bind; [apply r2r_pkp_ro, r2e_ro_getA|]. intros a.
  destruct (negb (arch_has_rels a)).
  - destruct (a_tables a); [apply r2r_pkp_ro, readonly_fail|r2r_pk_mod].
  - apply r2r_pkp_bind; [apply r2r_pkp_forM; intros; r2r_pk_mod|]. intros _.
    apply r2r_pkp_bind; [apply r2r_pkp_forM; intros; r2r_pk_mod|]. intros _. r2r_pk_mod.
Qed.

Theorem r2r_reset_pool : forall s s', w_reset s = Ok tt s' ->
  w_pool s' = pool_reset (w_pool s) /\ w_index s' = firstn 2 (w_index s) /\ w_istarget s' = firstn 2 (w_istarget s).
Proof.
  intros s s' H. unfold w_reset in H. destruct (is_locked s) eqn:Hl.
  { rewrite (sa_bind_err (sb1_check_locked_err s Hl)) in H. discriminate. }
  rewrite (sa_bind_ok (r_check_unlocked s Hl)), (sa_bind_ok (r_modify_eq _ _)) in H.
  match type of H with ?m ?s1 = _ => assert (P : r2r_pkp m) end.
  { apply r2r_pkp_bind; [apply r2r_pkp_cache_reset|]. intros _.
    apply r2r_pkp_bind; [r2r_pk_mod|]. intros _.
    apply r2r_pkp_bind; [apply r2r_pkp_reset_observers|]. intros _.
    apply r2r_pkp_getbind. intros s0. generalize (seq 0 (length (w_archs s0))) as l. intros l. revert s0.
    apply (r2r_pkp_bind _ _ (forM_ l arch_reset) (fun _ => modify _)); [|intros _; r2r_pk_mod].
    apply r2r_pkp_forM. exact r2r_pkp_arch_reset. }
  match type of H with ?m ?s1 = _ => specialize (P s1) end. rewrite H in P. cbn [state_of] in P. exact P.
Qed.

(* ================================================================================================ *)
(** * Part 5: the invariant with an epoch *)

(** [Inv2Q] of Rel2HistQ with [issued_ok] replaced by its epoch-relative form: [k] is the position in
    [w_issued] at which the current epoch begins (0 in a history without Reset; [length (w_issued _)] at the
    last successful Reset). The last clause is about ALL handles ever issued. *)
Definition Inv2R (s : W) (n k : nat) : Prop :=
  St2 s /\ r2d_KeysLive s /\ r2e_noobs s /\ issued_ok_from k s n /\ archs_tabled_norel s /\ r2q_filters_ok s /\ r2r_ids2 s.

Lemma r2r_Inv2R_of_Q : forall s n, Inv2Q s n -> Inv2R s n 0.
Proof.
  intros s n (H1 & H2 & H3 & H4 & H5 & H6). split; [exact H1|]. split; [exact H2|]. split; [exact H3|].
  split; [apply r2r_from_0; exact H4|].
  split; [exact H5|]. split; [exact H6|]. intros e He. destruct H4 as (I1 & _). apply (I1 e He).
Qed.

Lemma r2r_Inv2Q_of_R : forall s n, Inv2R s n 0 -> Inv2Q s n.
Proof.
  intros s n (H1 & H2 & H3 & H4 & H5 & H6 & _). split; [exact H1|]. split; [exact H2|]. split; [exact H3|].
  split; [apply r2r_from_0; exact H4|]. split; assumption.
Qed.

Lemma r2r_issued_mono : forall k s n m, n <= m -> issued_ok_from k s n -> issued_ok_from k s m.
Proof.
  intros k s n m Hnm (I1 & I2 & I3). split; [exact I1|]. split; [|lia].
  intros i l g E Hi. pose proof (I2 i l g E Hi). lia.
Qed.

Lemma r2r_Inv2R_mono : forall s n m k, n <= m -> Inv2R s n k -> Inv2R s m k.
Proof.
  intros s n m k Hnm (H1 & H2 & H3 & H4 & H5). split; [exact H1|]. split; [exact H2|]. split; [exact H3|].
  split; [apply (r2r_issued_mono k s n m Hnm H4)|exact H5].
Qed.

Lemma r2r_skipn_snoc : forall A (l : list A) k x y, In x (skipn k (l ++ [y])) -> In x (skipn k l) \/ x = y.
Proof.
  intros A l k x y H. rewrite skipn_app in H. apply in_app_or in H. destruct H as [H|H]; [left; exact H|].
  apply r2r_skipn_in in H. destruct H as [<-|[]]. right. reflexivity.
Qed.

Lemma r2r_issued_ext : forall k s s' n, w_pool s' = w_pool s -> (forall x, live s' x = live s x) ->
  (forall x, In x (skipn k (w_issued s')) -> In x (skipn k (w_issued s)) \/ (2 <= fst x < length (pe (w_pool s)) /\ live s x = true)) ->
  issued_ok_from k s n -> issued_ok_from k s' n.
Proof.
  intros k s s' n Ep HL Hin (I1 & I2 & I3). unfold issued_ok_from. rewrite Ep. split; [|split; assumption].
  intros x Hx. rewrite HL. destruct (Hin x Hx) as [H|(H1 & H2)]; [apply (I1 x H)|]. split; [exact H1|left; exact H2].
Qed.

(** the handles of the current epoch stay well-accounted-for (after [r2e_trans_issued]) *)
Lemma r2r_trans_issued : forall k s s' n, WF s -> issued_ok_from k s n -> n + 4 < Nat.pow 2 31 -> r2e_trans s s' ->
  issued_ok_from k s' (S n).
Proof.
  intros k s s' n HW (I1 & I2 & I3) Hn (T1 & _ & _ & T2 & T3 & T4).
  destruct T4 as [((G1 & G2 & G3) & L)|(e & P & Le & L)].
  - pose proof (sc_gens_kept_len _ _ G1) as Hlen.
    split; [|split].
    + intros x Hx. rewrite T3 in Hx. destruct (I1 x Hx) as (R & D). split; [sc_lia|].
      destruct D as [D|(l & g & E & Hg)]; [left; auto|]. right.
      destruct (G1 _ _ _ E) as (l' & E'). exists l', g. auto.
    + intros i l g E Hi. destruct (nth_error (pe (w_pool s)) i) as [[l0 g0]|] eqn:E0.
      * destruct (G1 _ _ _ E0) as (l' & E'). rewrite E in E'. inversion E'; subst.
        pose proof (I2 _ _ _ E0 Hi). lia.
      * apply nth_error_None in E0. rewrite (G2 _ _ _ E0 E). lia.
    + sc_lia.
  - destruct (live_alive s e HW Le) as (Ha & He2).
    apply live_present in Le. destruct Le as (tid & r & t & Lc & Tt & Rr & Er).
    destruct (wf_rows _ HW tid t r Tt Rr) as (_ & Pe). rewrite Er in Pe.
    destruct (sc_recycle_shape _ _ _ P) as (l0 & g0 & E0 & Epe). rewrite Pe in E0.
    assert (g0 = snd e /\ l0 = fst e) as (-> & ->) by (destruct e; inversion E0; auto).
    assert (Hge : (snd e <= N.of_nat n)%N) by (apply (I2 (fst e) (fst e) (snd e)); [destruct e; exact Pe|exact He2]).
    pose proof (sc_pow_bound n Hn) as Hb.
    assert (Hmod : ((snd e + 1) mod 4294967296 = snd e + 1)%N) by (apply N.mod_small; lia).
    rewrite Hmod in Epe.
    assert (Hlt : fst e < length (pe (w_pool s))) by (eapply sa_nth_error_lt; eauto).
    assert (Hnew : nth_error (pe (w_pool s')) (fst e) = Some (pnext (w_pool s), (snd e + 1)%N))
      by (rewrite Epe; apply sa_nth_error_upd_eq; exact Hlt).
    assert (Hoth : forall i, i <> fst e -> nth_error (pe (w_pool s')) i = nth_error (pe (w_pool s)) i)
      by (intros i Hi; rewrite Epe; apply sa_nth_error_upd_ne; congruence).
    assert (Hlen : length (pe (w_pool s')) = length (pe (w_pool s))) by (rewrite Epe; apply upd_length).
    split; [|split].
    + intros x Hx. rewrite T3 in Hx. destruct (I1 x Hx) as (R & D). split; [sc_lia|].
      destruct D as [D|(l & g & E & Hg)].
      * destruct (ent_eqb x e) eqn:Exe.
        -- apply sa_ent_eqb_eq in Exe. subst x. right. eexists _, _. split; [exact Hnew|lia].
        -- left. apply L; [|exact D]. intros ->. rewrite sa_ent_eqb_refl in Exe. discriminate.
      * right. destruct (Nat.eq_dec (fst x) (fst e)) as [Eq|Ne].
        -- rewrite Eq in E. rewrite Pe in E. destruct e as [ei eg]. inversion E; subst.
           rewrite Eq. eexists _, _. split; [exact Hnew|]. cbn [snd]. lia.
        -- exists l, g. rewrite Hoth by exact Ne. auto.
    + intros i l g E Hi. destruct (Nat.eq_dec i (fst e)) as [->|Ne].
      * rewrite Hnew in E. inversion E; subst. lia.
      * rewrite Hoth in E by exact Ne. pose proof (I2 _ _ _ E Hi). lia.
    + sc_lia.
Qed.

(** the fields the invariant does not read; one stored entity may join the issued handles *)
Lemma r2r_Inv2R_ext : forall s s' n k,
  w_cfg s' = w_cfg s -> w_reg s' = w_reg s -> w_pool s' = w_pool s -> w_index s' = w_index s ->
  w_istarget s' = w_istarget s -> w_archs s' = w_archs s -> w_tables s' = w_tables s -> w_relarchs s' = w_relarchs s ->
  w_compindex s' = w_compindex s -> w_archcount s' = w_archcount s ->
  w_cheap s' = w_cheap s -> w_centries s' = w_centries s -> w_filters s' = w_filters s -> w_oagg s' = w_oagg s ->
  (w_issued s' = w_issued s \/ exists e, w_issued s' = w_issued s ++ [e] /\ live s e = true /\ alive s e = true) ->
  Inv2R s n k -> Inv2R s' n k.
Proof.
  intros s s' n k E1 E2 E3 E4 E5 E6 E7 E8 E9 E10 E11 E12 E13 E15 Hiss (H1 & H2 & H3 & H4 & H5 & H6 & H7).
  assert (HL : forall x, live s' x = live s x) by (apply r2_live_ext; assumption).
  split; [apply (r2e_St2_ext s s'); assumption|].
  split; [apply (r2d_KeysLive_mono s s' H2 E6); intros x Hx; rewrite HL; exact Hx|].
  split; [intros ev; rewrite (sb1_has_obs_eq s s' ev E15); apply H3|].
  split.
  { apply (r2r_issued_ext k s s' n E3 HL); [|exact H4]. intros x Hx.
    destruct Hiss as [Ei|(e & Ei & Hl & Ha)]; rewrite Ei in Hx; [left; exact Hx|].
    apply r2r_skipn_snoc in Hx. destruct Hx as [Hx| ->]; [left; exact Hx|right].
    destruct (live_alive s e (proj1 H1) Hl) as (_ & Hge). destruct (sc_alive_slot s e Ha) as (l & E).
    apply sa_nth_error_lt in E. split; [split; assumption|exact Hl]. }
  split; [apply (r2q_tabled_ext s s' E6 H5)|]. split; [apply (r2q_filters_ok_ext s s' E2 E13 H6)|].
  intros x Hx. destruct Hiss as [Ei|(e & Ei & Hl & _)]; rewrite Ei in Hx; [apply (H7 x Hx)|].
  apply in_app_or in Hx. destruct Hx as [Hx|[<-|[]]]; [apply (H7 x Hx)|]. apply (live_alive s e (proj1 H1) Hl).
Qed.

Lemma r2r_Inv2R_log : forall s n k l, Inv2R s n k -> Inv2R (s <| w_log := l |>) n k.
Proof. intros s n k l H. apply (r2r_Inv2R_ext s _ n k); try reflexivity; [left; reflexivity|exact H]. Qed.

Lemma r2r_hproper_ext : forall s s' h, w_issued s' = w_issued s -> w_pool s' = w_pool s -> (forall x, live s' x = live s x) ->
  r2r_hproper s h -> r2r_hproper s' h.
Proof.
  intros s s' h Ei Ep HL H x Hx Ha. unfold handle in Hx. rewrite Ei in Hx. rewrite HL. apply (H x Hx).
  unfold alive in *. rewrite <- Ep. exact Ha.
Qed.

(** ** One operation of the core class on an UNLOCKED world *)

(** The side condition on a line: every FOREIGN handle (a non-negative index below the epoch) among the
    handles of [rel_r_handles] is proper. The handles of the current epoch are proper anyway ([r2r_current_proper]). *)
Definition r2r_foreign_ok (k : nat) (s : W) (o : op) : Prop :=
  forall h, In h (rel_r_handles o) -> Z.ltb h 0 = false -> Z.to_nat h < k -> r2r_hproper s h.

Lemma r2r_foreign_all : forall s n k o, WF s -> issued_ok_from k s n -> r2r_foreign_ok k s o -> r2r_handles_proper s o.
Proof.
  intros s n k o HW HI HF h Hin. destruct (Z.ltb h 0) eqn:Eh.
  - apply (r2r_current_proper s n k h HW HI). left. exact Eh.
  - destruct (Nat.lt_ge_cases (Z.to_nat h) k) as [Hlt|Hge]; [apply (HF h Hin Eh Hlt)|].
    apply (r2r_current_proper s n k h HW HI). right. exact Hge.
Qed.

Theorem r2r_core_unlocked : forall debug wd s n k line o,
  Inv2R s n k -> is_locked s = false -> n + 4 < Nat.pow 2 31 -> decode_op line = Some o -> rel_core_op o = true ->
  (forall c, In c (rel_op_ids o) -> c < length (w_reg s)) -> r2r_foreign_ok k s o ->
  let s' := fst (step debug wd s line) in
  Inv2R s' (S n) k /\ is_locked s' = false /\ w_reg s' = w_reg s /\
  (w_issued s' = w_issued s \/
   exists e, w_issued s' = w_issued s ++ [e] /\ live s' e = true /\ live s e = false /\ ~ In e (skipn k (w_issued s))).
Proof.
  intros debug wd s n k line o HI Hl Hn Hd Hc Hreg Hfor. cbv zeta.
  destruct (r2q_uq_step debug wd s line o Hd Hc) as (U1 & _).
  assert (Htab : archs_tabled_norel s -> St2 s -> St2 (fst (step debug wd s line)) -> archs_tabled_norel (fst (step debug wd s line))).
  { intros HT HS HS'. apply (r2e_tabled_iff _ HS'). apply (r2e_tabled_iff s HS) in HT. refine (r2e_hk_H s _ _ HT).
    rewrite (r2e_step_state debug wd s line o Hd Hc). set (s0 := s <| w_log := [] |>).
    assert (H0 : r2e_hk s s0) by (apply r2e_hk_same; reflexivity). apply (r2e_hk_trans s s0 _ H0).
    pose proof (r2e_hkp_step_op debug o Hc s0) as H1. apply (r2e_hk_ext s0 _ _ H1).
    - unfold sc_issue. destruct (step_op debug o s0) as [[|i [|g rest]] s1|er s1]; try reflexivity. destruct (returns_entity o); reflexivity.
    - unfold sc_issue. destruct (step_op debug o s0) as [[|i [|g rest]] s1|er s1]; try reflexivity. destruct (returns_entity o); reflexivity. }
  revert U1 Htab. rewrite (r2e_step_state debug wd s line o Hd Hc). intros U1 Htab.
  pose proof (r2r_Inv2R_log s n k [] HI) as HI0. pose proof HI as (_ & _ & _ & _ & HT & HF & _).
  set (s0 := s <| w_log := [] |>) in *.
  destruct HI0 as (HS0 & HK0 & Hno0 & Hiss0 & HT0 & HF0 & Hids0).
  assert (HQ0 : r2e_quiet s0) by (split; [exact Hno0|exact Hl]).
  assert (Hroom0 : room s0) by (destruct Hiss0 as (_ & _ & I3); unfold room; sc_lia).
  assert (Hp0 : r2r_handles_proper s0 o).
  { apply (r2r_foreign_all s0 n k o (proj1 HS0) Hiss0). intros h Hin Eh Hlt.
    apply (r2r_hproper_ext s s0 h eq_refl eq_refl (fun x => eq_refl)). apply (Hfor h Hin Eh Hlt). }
  pose proof (r2r_op_spec debug s0 HS0 HK0 HQ0 Hroom0 Hids0 o Hc Hreg Hp0) as HP.
  pose proof HP as (T & _).
  pose proof (r2r_trans_issued k s0 _ n (proj1 HS0) Hiss0 Hn T) as HIs.
  destruct T as (T1 & T2 & (T3a & T3b) & T4 & T5 & T6).
  assert (HI1 : forall s1, s1 = state_of (step_op debug o s0) -> archs_tabled_norel s1 -> w_filters s1 = w_filters s -> Inv2R s1 (S n) k).
  { intros s1 -> HT1 HF1. split; [exact T1|]. split; [exact T2|]. split; [exact T3a|]. split; [exact HIs|]. split; [exact HT1|].
    split; [apply (r2q_filters_ok_ext s _ T4 HF1 HF)|]. intros x Hx. rewrite T5 in Hx. apply (Hids0 x Hx). }
  destruct (r2e_issue_cases o s0 _ HP) as [E|(e & s1 & Er & E & Hl0 & Hl1 & Ha)]; rewrite E in *.
  - assert (HI' : Inv2R (state_of (step_op debug o s0)) (S n) k).
    { apply (HI1 _ eq_refl); [|exact U1].
      assert (HS' : St2 (state_of (step_op debug o s0) <| w_log := [] |>)) by (apply (r2e_St2_ext (state_of (step_op debug o s0))); try reflexivity; exact T1).
      specialize (Htab HT (proj1 HI) HS'). exact Htab. }
    split; [apply r2r_Inv2R_log; exact HI'|]. split; [exact T3b|]. split; [exact T4|]. left. exact T5.
  - rewrite Er in *. cbn [state_of] in *.
    assert (HI' : Inv2R s1 (S n) k).
    { apply (HI1 _ eq_refl); [|exact U1].
      assert (HS' : St2 (s1 <| w_issued ::= fun l => l ++ [e] |> <| w_log := [] |>)) by (apply (r2e_St2_ext s1); try reflexivity; exact T1).
      specialize (Htab HT (proj1 HI) HS'). exact Htab. }
    split.
    { apply (r2r_Inv2R_ext s1 _ (S n) k); try reflexivity; [|exact HI'].
      right. exists e. split; [reflexivity|split; assumption]. }
    split; [exact T3b|]. split; [exact T4|].
    right. exists e. split; [cbn; rewrite T5; reflexivity|]. split; [exact Hl1|]. split; [exact Hl0|].
    (* the new handle differs from every handle of the current epoch (after [creation_fresh2]) *)
    intros Hin. change (w_issued s) with (w_issued s0) in Hin. destruct Hiss0 as (I1 & I2 & _).
    destruct (I1 e Hin) as (R & [L|(l & g & Es & Hg)]); [congruence|].
    destruct (sc_alive_slot s1 e Ha) as (l2 & E2).
    destruct T6 as [((G1 & _) & _)|(e0 & P & Le0 & _)].
    + destruct (G1 _ _ _ Es) as (l' & E1). rewrite E1 in E2. inversion E2; subst. lia.
    + destruct (sc_recycle_shape _ _ _ P) as (l0 & g0 & E0 & Epe). rewrite Epe in E2.
      destruct (Nat.eq_dec (fst e0) (fst e)) as [Eq|Ne].
      * rewrite Eq in E0, E2. rewrite Es in E0. injection E0 as <- <-.
        rewrite (sa_nth_error_upd_eq _ (pe (w_pool s0)) (fst e) _ (sa_nth_error_lt _ _ _ _ Es)) in E2. injection E2 as _ E2.
        assert (Hge : (g <= N.of_nat n)%N) by (apply (I2 (fst e) l g Es); lia).
        pose proof (sc_pow_bound n Hn) as Hb. rewrite N.mod_small in E2 by lia. lia.
      * rewrite sa_nth_error_upd_ne in E2 by exact Ne. pose proof (eq_trans (eq_sym Es) E2) as Q. inversion Q; subst. lia.
Qed.

(* ================================================================================================ *)
(** * Part 6: Reset starts a new epoch *)

(** What a world looks like right after a successful Reset -- and right after its creation: the invariant
    holds with a FRESH epoch (no handle issued so far belongs to it) and a fresh step counter; the world is
    unlocked, nothing is stored, the pool is [pool_new], no filter is cached, every table
    is empty, every relation table is free and every lookup is empty. (Registry and configuration are those
    of the world before; archetypes, tables and filter objects are retained.) *)
Definition r2r_fresh (s : W) : Prop :=
  Inv2R s 0 (length (w_issued s)) /\ is_locked s = false /\ (forall e, live s e = false) /\
  w_pool s = pool_new /\ w_centries s = [] /\
  (forall tid t, nth_error (w_tables s) tid = Some t -> t_len t = 0 /\ (t_rels t <> [] -> t_free t = true)) /\
  (forall aid a, nth_error (w_archs s) aid = Some a ->
     a_tgttabs a = [] /\ Forall (fun m : list (nat * list nat) => m = []) (a_reltabs a) /\ (0 < a_numrel a -> a_tables a = [])).

(** a fresh world is an invariant-preserving start state *)
Lemma r2r_fresh_inv : forall s, r2r_fresh s -> Inv2R s 0 (length (w_issued s)).
Proof. intros s H. apply H. Qed.

Lemma r2r_issued_fresh : forall s, pe (w_pool s) = [(0, max_u32); (1, max_u32)] -> issued_ok_from (length (w_issued s)) s 0.
Proof.
  intros s Hp. unfold issued_ok_from. rewrite skipn_all, Hp. split; [intros e []|]. split; [|cbn; lia].
  intros [|[|i]] l g E Hi; try lia. destruct i; discriminate.
Qed.

Theorem r2r_fresh_init : forall c, cfg_ok2 c -> r2r_fresh (init_world c).
Proof.
  intros c Hc. pose proof (r2r_Inv2R_of_Q _ _ (r2q_init c Hc)) as HI.
  split; [exact HI|]. split; [reflexivity|]. split.
  { apply r_no_live. intros tid t Ht. unfold init_world in Ht. cbn [w_tables] in Ht. apply r2e_nth1 in Ht. destruct Ht as (_ & ->). reflexivity. }
  split; [reflexivity|]. split; [reflexivity|]. split.
  - intros tid t Ht. unfold init_world in Ht. cbn [w_tables] in Ht. apply r2e_nth1 in Ht. destruct Ht as (_ & ->).
    split; [reflexivity|]. intros Hne. exfalso. apply Hne. reflexivity.
  - intros aid a Ha. unfold init_world in Ha. cbn [w_archs] in Ha. apply r2e_nth1 in Ha. destruct Ha as (_ & ->). cbn.
    split; [reflexivity|]. split; [constructor|lia].
Qed.

Lemma r2r_fresh_log : forall s l, r2r_fresh s -> r2r_fresh (s <| w_log := l |>).
Proof.
  intros s l (H1 & H2 & H3 & H4 & H5 & H6 & H7).
  split; [apply (r2r_Inv2R_log s 0 _ l H1)|]. split; [exact H2|]. split; [exact H3|]. repeat (split; [assumption|]). exact H7.
Qed.

(** Reset on an UNLOCKED world satisfying the invariant (whatever the epoch) succeeds and yields a fresh world
    with the same registry, configuration and issued handles: all of them are foreign from now on. *)
Theorem r2r_reset_unlocked : forall debug s n k, Inv2R s n k -> is_locked s = false ->
  exists s', step_op debug OReset s = Ok [] s' /\ r2r_fresh s' /\
    w_reg s' = w_reg s /\ w_cfg s' = w_cfg s /\ w_issued s' = w_issued s /\
    length (w_archs s') = length (w_archs s) /\ length (w_tables s') = length (w_tables s).
Proof.
  intros debug s n k (HS & HK & Hno & Hiss & HT & HF & Hids) Hl.
  destruct (D_reset_spec s HS Hl HT) as (s' & E & P1 & P2 & P3 & P4 & P5 & P6 & P7 & _ & _ & P10 & P11 & P12 & P13 & _ & P15 & P16).
  pose proof (r2r_rkp_reset s) as RK. rewrite E in RK. cbn [state_of] in RK. destruct (RK Hno) as (K1 & K2 & K3 & K4 & K5).
  pose proof (r2r_hkp_reset s) as HKf. rewrite E in HKf. cbn [state_of] in HKf.
  assert (Epool : w_pool s' = pool_new).
  { destruct (r2r_reset_pool s s' E) as (Q1 & _). rewrite Q1 in P4. rewrite Q1. unfold pool_reset in *. cbn [pe] in P4.
    unfold pool_new. rewrite P4. reflexivity. }
  exists s'. cbn [step_op]. rewrite (sa_bind_ok E). unfold ret. split; [reflexivity|].
  split; [|repeat (split; [assumption|]); exact P13].
  split.
  { split; [exact P1|]. split; [exact P2|]. split; [exact K1|]. split; [apply (r2r_issued_fresh s' P4)|].
    split; [apply (r2e_tabled_iff s' P1); apply (r2e_hk_H s s' HKf); apply (r2e_tabled_iff s HS); exact HT|].
    split; [apply (r2q_filters_ok_fsame s s' K3 K5 HF)|]. intros x Hx. rewrite K2 in Hx. apply (Hids x Hx). }
  split; [exact P7|]. split; [exact P3|]. split; [exact Epool|]. split; [exact P6|]. split; [exact P15|exact P16].
Qed.

(** ... and on a LOCKED one it is rejected without effect (it is structural). *)
Lemma r2r_reset_locked : forall debug s, is_locked s = true -> exists er, step_op debug OReset s = Err er s.
Proof. intros debug s Hl. apply (structural_blocked debug OReset s eq_refl Hl). Qed.

Definition r2r_is_reset (o : op) : bool := match o with OReset => true | _ => false end.

(** the epoch after a step: a Reset on an unlocked world (which succeeds) starts a new one *)
Definition r2r_epoch (k : nat) (s : W) (o : op) : nat :=
  match o with
  | OReset => if is_locked s then k else length (w_issued s)
  | _ => k
  end.

Lemma r2r_step_state_reset : forall debug wd s line, decode_op line = Some OReset ->
  fst (step debug wd s line) = state_of (step_op debug OReset (s <| w_log := [] |>)) <| w_log := [] |>.
Proof. intros debug wd s line Hd. apply (StorageD.sd_step_state_plain debug wd s line OReset Hd); reflexivity. Qed.

(** One Reset line, both outcomes. After a successful Reset the step counter may restart at 0
    ([r2r_fresh]); the statement with [S n] is the uniform one. *)
Theorem r2r_reset_step : forall debug wd s n k line,
  Inv2R s n k -> decode_op line = Some OReset ->
  let s' := fst (step debug wd s line) in
  Inv2R s' (S n) (r2r_epoch k s OReset) /\ w_reg s' = w_reg s /\ w_issued s' = w_issued s /\
  (is_locked s = false -> r2r_fresh s') /\ (is_locked s = true -> s' = s <| w_log := [] |>).
Proof.
  intros debug wd s n k line HI Hd. cbv zeta. rewrite (r2r_step_state_reset debug wd s line Hd).
  pose proof (r2r_Inv2R_log s n k [] HI) as HI0. set (s0 := s <| w_log := [] |>) in *.
  cbn [r2r_epoch]. destruct (is_locked s) eqn:Hl.
  - destruct (r2r_reset_locked debug s0 Hl) as (er & E). rewrite E. cbn [state_of].
    split; [apply r2r_Inv2R_log; apply (r2r_Inv2R_mono s0 n (S n) k); [lia|exact HI0]|].
    split; [reflexivity|]. split; [reflexivity|]. split; [discriminate|]. intros _. reflexivity.
  - destruct (r2r_reset_unlocked debug s0 n k HI0 Hl) as (s1 & E & HFr & R1 & R2 & R3 & _). rewrite E. cbn [state_of].
    pose proof (r2r_fresh_log s1 [] HFr) as HFr'.
    split.
    { apply (r2r_Inv2R_mono _ 0 (S n)); [lia|]. pose proof (proj1 HFr') as HI'. cbn [w_issued] in HI'.
      change (w_issued (s1 <| w_log := [] |>)) with (w_issued s1) in HI'. rewrite R3 in HI'. exact HI'. }
    split; [exact R1|]. split; [exact R3|]. split; [intros _; exact HFr'|discriminate].
Qed.

(** ** Stage 1: the class [rel_core_op] + Reset on unlocked worlds (the lock is never taken) *)
Theorem step_inv2R_core : forall debug wd s n k line o,
  Inv2R s n k -> is_locked s = false -> n + 4 < Nat.pow 2 31 -> decode_op line = Some o ->
  (rel_core_op o || r2r_is_reset o)%bool = true ->
  (forall c, In c (rel_op_ids o) -> c < length (w_reg s)) -> r2r_foreign_ok k s o ->
  let s' := fst (step debug wd s line) in
  Inv2R s' (S n) (r2r_epoch k s o) /\ is_locked s' = false /\ w_reg s' = w_reg s /\
  (w_issued s' = w_issued s \/
   exists e, w_issued s' = w_issued s ++ [e] /\ live s' e = true /\ live s e = false /\ ~ In e (skipn k (w_issued s))).
Proof.
  intros debug wd s n k line o HI Hl Hn Hd Hop Hreg Hfor. cbv zeta. destruct (rel_core_op o) eqn:Hc.
  - assert (Ek : r2r_epoch k s o = k) by (destruct o; try discriminate Hc; reflexivity). rewrite Ek.
    apply (r2r_core_unlocked debug wd s n k line o HI Hl Hn Hd Hc Hreg Hfor).
  - destruct o; try discriminate Hop.
    destruct (r2r_reset_step debug wd s n k line HI Hd) as (A & B & C & D & _).
    split; [exact A|]. split; [apply (D Hl)|]. split; [exact B|left; exact C].
Qed.

(* ================================================================================================ *)
(** * Part 7: filters, registration, queries and LOCKED states (the lemmas of Rel2HistQ, Parts 3 to 5, for [Inv2R])

    None of these operations looks at a handle through the generation check: the relation targets of a
    filter or of a query are only compared with the targets stored in the tables. Their handles may be
    foreign without any side condition. *)

Lemma r2r_transfer : forall s s' n k, Inv2R s n k -> St2 s' -> r2q_filters_ok s' ->
  w_archs s' = w_archs s -> w_pool s' = w_pool s -> (forall x, live s' x = live s x) ->
  w_oagg s' = w_oagg s -> w_issued s' = w_issued s -> Inv2R s' n k.
Proof.
  intros s s' n k (H1 & H2 & H3 & H4 & H5 & H6 & H7) HS HF EA EP HL EO EI.
  split; [exact HS|]. split; [apply (r2d_KeysLive_mono s s' H2 EA); intros x Hx; rewrite HL; exact Hx|].
  split; [intros ev; rewrite (sb1_has_obs_eq s s' ev EO); apply H3|].
  split; [apply (r2r_issued_ext k s s' n EP HL); [intros x Hx; left; rewrite <- EI; exact Hx|exact H4]|].
  split; [apply (r2q_tabled_ext s s' EA H5)|]. split; [exact HF|]. intros x Hx. rewrite EI in Hx. apply (H7 x Hx).
Qed.

(** what a step outside the core class keeps *)
Definition r2r_kept (s s' : W) (n k : nat) : Prop :=
  Inv2R s' n k /\ w_reg s' = w_reg s /\ w_issued s' = w_issued s /\ (forall x, live s' x = live s x) /\
  w_pool s' = w_pool s.

Lemma r2r_kept_refl : forall s n k, Inv2R s n k -> r2r_kept s s n k.
Proof. intros s n k H. split; [exact H|]. repeat split; reflexivity. Qed.

Lemma r2r_kept_frame : forall s s' n k, Inv2R s n k -> query_frame s s' -> r2r_kept s s' n k.
Proof.
  intros s s' n k HI HF. pose proof HI as (H1 & _ & _ & _ & _ & H6 & _). pose proof (r2k_St2_frame s s' H1 HF) as HS.
  destruct HF as (E1 & E2 & E3 & E4 & E5 & E6 & E7 & E8 & E9 & E10 & E11 & E12 & E13 & E14 & E15 & E16 & E17 & E18 & E19 & E20 & E21).
  assert (HL : forall x, live s' x = live s x) by (apply r2_live_ext; assumption).
  split; [|split; [exact E2|split; [exact E17|split; [exact HL|exact E3]]]].
  apply (r2r_transfer s s' n k HI HS); try assumption.
  apply (r2q_filters_ok_ext s s' E2 E15 H6).
Qed.

Lemma r2r_filter_new_state : forall (s : W) f n k, Inv2R s n k -> r2k_rels_ok s (f_mask f) (f_rels f) ->
  r2r_kept s (s <| w_filters ::= fun l => l ++ [f] |>) n k.
Proof.
  intros s f n k HI Hok. pose proof HI as (H1 & _ & _ & _ & _ & H6 & _). pose proof H1 as (HW & _ & HC).
  set (s' := s <| w_filters ::= fun l => l ++ [f] |>).
  assert (HS : St2 s').
  { apply (r2q_St2_cache s s'); try reflexivity; [| |exact H1].
    - intros addr Hin. destruct (wf_cache _ HW addr Hin) as (e & He & Lt). exists e. split; [exact He|].
      unfold s'. cbn. rewrite app_length. cbn. lia.
    - split; [exact (ci_nodup _ _ HC)|]. intros addr e f' Hin He Hf'.
      destruct (wf_cache _ HW addr Hin) as (e0 & He0 & Lt). change (w_cheap s') with (w_cheap s) in He.
      rewrite He0 in He. injection He as <-.
      apply (r2q_ci_entry_old s s' HC eq_refl eq_refl) with (addr := addr); try assumption.
      intros i f0 Hf0 Hi. unfold s' in Hf0. cbn in Hf0. rewrite nth_error_app1 in Hf0 by exact Hi.
      exists f0. repeat split; auto. }
  split; [|repeat split; reflexivity].
  apply (r2r_transfer s s' n k HI HS); try reflexivity.
  intros fi f0 Hf0. unfold s' in Hf0. cbn in Hf0. apply sa_nth_error_snoc in Hf0. destruct Hf0 as [(_ & Hf0)|(_ & ->)].
  - apply (H6 fi f0 Hf0).
  - exact Hok.
Qed.

Lemma r2r_op_OFilterNew : forall debug s n k u ids wo ex hrels, Inv2R s n k ->
  rel_q_flt_ok (w_reg s) (OFilterNew u ids wo ex hrels) ->
  r2r_kept s (state_of (step_op debug (OFilterNew u ids wo ex hrels) s)) n k.
Proof.
  intros debug s n k u ids wo ex hrels HI Hflt. cbn [step_op].
  destruct (r2e_resolveR hrels s) as [(rels & E & HR)|(er & E)].
  2:{ rewrite (sa_bind_err E). apply (r2r_kept_refl s n k HI). }
  rewrite (sa_bind_ok E). rewrite sb2_bind_get.
  assert (Hw : (exists x, whenM (negb u) (to_relations (mk_of_list ids) rels) s = Ok x s /\
                  (u = false -> r2k_rels_ok s (mk_of_list ids) rels)) \/
               (exists er, whenM (negb u) (to_relations (mk_of_list ids) rels) s = Err er s)).
  { destruct u; cbn [negb whenM].
    - left. exists tt. split; [reflexivity|discriminate].
    - destruct (sc_ro_cases _ _ (readonly_to_relations (mk_of_list ids) rels) s) as [([] & Et)|(er & Et)].
      + left. exists tt. split; [exact Et|]. intros _. apply (r2k_to_relations_ok _ _ _ _ Et).
      + right. exists er. exact Et. }
  destruct Hw as [(x & Ew & Hok)|(er & Ew)].
  2:{ rewrite (sa_bind_err Ew). apply (r2r_kept_refl s n k HI). }
  rewrite (sa_bind_ok Ew).
  match goal with |- r2r_kept s (state_of ((modify ?g ;;; ?k0) s)) n k =>
    assert (Em : modify g s = Ok tt (g s)) by reflexivity; rewrite (sa_bind_ok Em) end.
  unfold ret. cbn [state_of]. apply r2r_filter_new_state; [exact HI|]. cbn [f_mask f_rels].
  destruct u; [|apply Hok; reflexivity].
  cbn [rel_q_flt_ok] in Hflt. intros r Hr.
  destruct (r2e_resolved_rev s hrels rels r HR Hr) as (hr & Hin & Hfst & _).
  destruct (Hflt hr Hin) as (Hk & Hi). rewrite <- Hfst.
  split; [unfold is_rel_comp; exact Hk|apply mk_get_of_list; exact Hi].
Qed.

Lemma r2r_kept_cache : forall s s' n k, Inv2R s n k -> r2q_core_same s s' ->
  r2q_fsame (w_filters s) (w_filters s') -> NoDup (w_centries s') ->
  (forall addr, In addr (w_centries s') ->
     (In addr (w_centries s) /\ nth_error (w_cheap s') addr = nth_error (w_cheap s) addr) \/
     (exists e, nth_error (w_cheap s') addr = Some e /\ ce_filter e < length (w_filters s) /\
        forall f', nth_error (w_filters s') (ce_filter e) = Some f' ->
          NoDup (ce_tables e) /\ (forall r, In r (ce_rels e) -> mk_get (f_mask f') (fst r) = true) /\
          (forall tid, In tid (ce_tables e) -> tid < length (w_tables s')) /\
          (forall tid, ~ r2_none tid -> (In tid (ce_tables e) <-> r2_cache_member s' f' (ce_rels e) tid)))) ->
  r2r_kept s s' n k.
Proof.
  intros s s' n k HI (E1 & E2 & E3 & E4 & E5 & E6 & E7 & E8 & E9 & E10 & E11 & E12) HF ND Hent.
  pose proof HI as (H1 & _ & _ & _ & _ & H6 & _). pose proof H1 as (HW & _ & HC). pose proof HF as (HFl & HFn).
  assert (HF' : forall i f', nth_error (w_filters s') i = Some f' -> i < length (w_filters s) ->
            exists f, nth_error (w_filters s) i = Some f /\ f_mask f' = f_mask f /\ f_without f' = f_without f /\
                      f_haswithout f' = f_haswithout f).
  { intros i f' Hf' _. destruct (HFn i f' Hf') as (f & A & B & C & D & _). exists f. repeat split; assumption. }
  assert (HS : St2 s').
  { apply (r2q_St2_cache s s'); try assumption.
    - intros addr Hin. destruct (Hent addr Hin) as [(Hold & Ec)|(e & He & Lt & _)].
      + destruct (wf_cache _ HW addr Hold) as (e & He & Lt). exists e. rewrite Ec, HFl. split; assumption.
      + exists e. rewrite HFl. split; assumption.
    - split; [exact ND|]. intros addr e f' Hin He Hf'.
      destruct (Hent addr Hin) as [(Hold & Ec)|(e0 & He0 & Lt & Hnew)].
      + rewrite Ec in He. destruct (wf_cache _ HW addr Hold) as (e0 & He0 & Lt). rewrite He0 in He. injection He as <-.
        apply (r2q_ci_entry_old s s' HC E7 E6 HF' addr e0 f' Hold He0 Lt Hf').
      + rewrite He0 in He. injection He as <-. apply (Hnew f' Hf'). }
  assert (HL : forall x, live s' x = live s x) by (apply r2_live_ext; assumption).
  split; [|split; [exact E2|split; [exact E12|split; [exact HL|exact E3]]]].
  apply (r2r_transfer s s' n k HI HS); try assumption.
  apply (r2q_filters_ok_fsame s s' E2 HF H6).
Qed.

Theorem r2r_register_kept : forall fi s n k, Inv2R s n k -> r2r_kept s (state_of (filter_register fi s)) n k.
Proof.
  intros fi s n k HI. pose proof HI as (H1 & _ & _ & _ & _ & H6 & _). pose proof H1 as (HW & _ & HC).
  destruct (StorageD.sd_register_shape fi s) as [E|(f & id & p' & Hf & [E|(tabs & EU & E)])]; rewrite E; clear E.
  - apply (r2r_kept_refl s n k HI).
  - apply (r2r_kept_cache s _ n k HI).
    + unfold r2q_core_same. cbn. repeat split.
    + cbn. apply r2q_fsame_updf.
    + cbn. exact (ci_nodup _ _ HC).
    + cbn. intros addr Hin. left. split; [exact Hin|reflexivity].
  - assert (Hfi : fi < length (w_filters s)) by (eapply sa_nth_error_lt; eauto).
    assert (Hfresh : ~ In (length (w_cheap s)) (w_centries s)).
    { intros Hin. destruct (wf_cache _ HW _ Hin) as (e & He & _). apply sa_nth_error_lt in He. lia. }
    pose proof (r2k_uncached_spec s f (f_rels f) H1 (H6 fi f Hf)) as Hu. rewrite EU in Hu. destruct Hu as (_ & NDt & Hsel).
    apply (r2r_kept_cache s _ n k HI).
    + unfold r2q_core_same. cbn. repeat split.
    + cbn. apply r2q_fsame_updf.
    + cbn. apply StorageD.sd_NoDup_snoc; [exact (ci_nodup _ _ HC)|exact Hfresh].
    + cbn. intros addr Hin. apply in_app_or in Hin. destruct Hin as [Hin|[<-|[]]].
      * left. split; [exact Hin|]. destruct (wf_cache _ HW addr Hin) as (e & He & _).
        apply nth_error_app1. eapply sa_nth_error_lt; eauto.
      * right. eexists. split; [apply sa_nth_error_snoc_new|]. cbn [ce_filter ce_rels ce_tables]. split; [exact Hfi|].
        intros f' Hf'. rewrite TableProofs.nth_error_updf, Nat.eqb_refl, Hf in Hf'. cbn in Hf'. injection Hf' as <-.
        split; [exact NDt|]. split; [intros r Hr; apply (H6 fi f Hf r Hr)|]. split.
        -- intros tid Ht. apply Hsel in Ht. destruct Ht as (t & a & Ht & _). eapply sa_nth_error_lt; eauto.
        -- intros tid _. rewrite Hsel, <- r2k_member_sel. symmetry.
           apply r2q_member_twin; reflexivity.
Qed.

Theorem r2r_unregister_kept : forall fi s n k, Inv2R s n k -> r2r_kept s (state_of (filter_unregister fi s)) n k.
Proof.
  intros fi s n k HI. pose proof HI as (H1 & _). pose proof H1 as (HW & _ & HC).
  destruct (StorageD.sd_unregister_shape fi s) as [E|(idx & Hidx & E)]; rewrite E; clear E.
  - apply (r2r_kept_refl s n k HI).
  - destruct (StorageD.sd_swap_removed_spec idx (w_centries s) (ci_nodup _ _ HC) Hidx) as (ND' & Sub).
    apply (r2r_kept_cache s _ n k HI).
    + unfold r2q_core_same. cbn. repeat split.
    + cbn. apply r2q_fsame_updf.
    + cbn. exact ND'.
    + cbn. intros addr Hin. left. split; [apply Sub; exact Hin|reflexivity].
Qed.

Theorem r2r_new_op_spec : forall debug s n k o, Inv2R s n k -> r2q_new_op o = true -> rel_q_flt_ok (w_reg s) o ->
  r2r_kept s (state_of (step_op debug o s)) n k.
Proof.
  intros debug s n k o HI Hn Hflt.
  destruct (r2q_query_op o) eqn:Hq.
  - apply (r2r_kept_frame s _ n k HI). apply (r2q_fr_step_op debug o Hq).
  - destruct o; try discriminate Hn; try discriminate Hq.
    + apply (r2r_op_OFilterNew debug s n k _ _ _ _ _ HI Hflt).
    + cbn [step_op]. rewrite r2q_state_bind_ret. apply (r2r_register_kept f s n k HI).
    + cbn [step_op]. rewrite r2q_state_bind_ret. apply (r2r_unregister_kept f s n k HI).
Qed.

Lemma r2r_locked_OWrite : forall debug s n k h c v, Inv2R s n k -> r2r_kept s (state_of (step_op debug (OWrite h c v) s)) n k.
Proof.
  intros debug s n k h c v HI. pose proof HI as (HS & _ & _ & _ & _ & H6 & _). cbn [step_op].
  unfold bind at 1. rewrite sc_resolveH. destruct (handle s h) as [e|]; [|apply (r2r_kept_refl s n k HI)].
  pose proof (L_write_spec2 s debug e c v HS) as Hs.
  unfold bind at 1 in Hs. unfold bind at 1.
  destruct (cell_of debug e c s) as [[[tid ci] row] s1|er s1].
  - cbv beta iota in Hs |- *. unfold bind. destruct (write_cell tid ci row v s1) as [u s2|er s2].
    + destruct Hs as (A1 & _ & _ & _ & _ & _ & _ & A8 & A9 & A10 & A11 & A12). cbn [state_of ret].
      destruct A11 as (_ & _ & _ & _ & Eo & _). destruct A12 as (F1 & _ & F3 & _ & F5 & _).
      split; [|split; [exact F1|split; [exact F5|split; [exact A8|exact A9]]]].
      apply (r2r_transfer s s2 n k HI A1); try assumption. apply (r2q_filters_ok_ext s s2 F1 F3 H6).
    + subst s2. apply (r2r_kept_refl s n k HI).
  - subst s1. apply (r2r_kept_refl s n k HI).
Qed.

Lemma r2r_reading_kept : forall debug s n k o, Inv2R s n k -> reading o = true -> r2r_kept s (state_of (step_op debug o s)) n k.
Proof. intros debug s n k o HI Hr. rewrite (reads_do_not_change_state debug o s Hr). apply (r2r_kept_refl s n k HI). Qed.

(** On a locked world an operation of the core class is rejected with the state unchanged, does not change the
    state, or writes one cell: no handle is looked at through the generation check, so no side condition. *)
Theorem r2r_core_locked : forall debug s n k o, Inv2R s n k -> is_locked s = true -> rel_core_op o = true ->
  r2r_kept s (state_of (step_op debug o s)) n k /\ sc_issue o (step_op debug o s) = state_of (step_op debug o s).
Proof.
  intros debug s n k o HI Hl Hc. destruct (structural o) eqn:Hs.
  - destruct (structural_blocked debug o s Hs Hl) as (er & E). rewrite E. split; [apply (r2r_kept_refl s n k HI)|reflexivity].
  - assert (Hre : returns_entity o = false) by (destruct o; try discriminate Hc; try discriminate Hs; reflexivity).
    split; [|apply r2q_issue_plain; exact Hre].
    destruct o; try discriminate Hc; try discriminate Hs.
    + apply (r2r_locked_OWrite debug s n k _ _ _ HI).
    + apply (r2r_reading_kept debug s n k _ HI); reflexivity.
    + apply (r2r_reading_kept debug s n k _ HI); reflexivity.
    + rewrite (r2q_ro_OGetRel debug h c s). apply (r2r_kept_refl s n k HI).
    + apply (r2r_reading_kept debug s n k _ HI); reflexivity.
    + rewrite (r2q_ro_OGet debug h c s). apply (r2r_kept_refl s n k HI).
    + apply (r2r_reading_kept debug s n k _ HI); reflexivity.
Qed.

(* ================================================================================================ *)
(** * Part 8: one step of the operation language over the class WITH Reset, all histories *)

Definition rel_r_op (o : op) : bool := (rel_q_op o || r2r_is_reset o)%bool.

Lemma r2r_kept_finish : forall s s1 n k, r2r_kept (s <| w_log := [] |>) s1 n k ->
  Inv2R (s1 <| w_log := [] |>) (S n) k /\ w_reg (s1 <| w_log := [] |>) = w_reg s /\
  w_issued (s1 <| w_log := [] |>) = w_issued s.
Proof.
  intros s s1 n k (K1 & K2 & K3 & _). split; [|split; [exact K2|exact K3]].
  apply (r2r_Inv2R_mono _ n (S n)); [lia|]. apply r2r_Inv2R_log. exact K1.
Qed.

(** One step of a decoded line keeps the invariant, in BOTH outcomes, in locked and unlocked worlds; a Reset
    on an unlocked world moves the epoch to the end of [w_issued]. Side conditions: as in [step_inv2Q] (added
    component ids are registered; [rel_q_flt_ok] for UnsafeFilter lines) and, for a structural line on an unlocked
    world, [r2r_foreign_ok]: the FOREIGN handles it uses as relation targets or as the source of a copy are
    proper. (Necessary: [r2r_foreign_target_refuted], [r2r_foreign_copy_refuted].) *)
Theorem step_inv2R : forall debug wd s n k line o,
  Inv2R s n k -> n + 4 < Nat.pow 2 31 -> decode_op line = Some o -> rel_r_op o = true ->
  (forall c, In c (rel_op_ids o) -> c < length (w_reg s)) -> rel_q_flt_ok (w_reg s) o ->
  (is_locked s = false -> r2r_foreign_ok k s o) ->
  let s' := fst (step debug wd s line) in
  Inv2R s' (S n) (r2r_epoch k s o) /\ w_reg s' = w_reg s /\
  (w_issued s' = w_issued s \/
   exists e, w_issued s' = w_issued s ++ [e] /\ live s' e = true /\ live s e = false /\ ~ In e (skipn k (w_issued s))).
Proof.
  intros debug wd s n k line o HI Hn Hd Hop Hreg Hflt Hfor. cbv zeta.
  pose proof (r2r_Inv2R_log s n k [] HI) as HI0.
  unfold rel_r_op, rel_q_op in Hop. destruct (rel_core_op o) eqn:Hc.
  - assert (Ek : r2r_epoch k s o = k) by (destruct o; try discriminate Hc; reflexivity). rewrite Ek.
    destruct (is_locked s) eqn:Hl.
    + rewrite (r2e_step_state debug wd s line o Hd Hc).
      destruct (r2r_core_locked debug (s <| w_log := [] |>) n k o HI0 Hl Hc) as (K & E). rewrite E.
      destruct (r2r_kept_finish s _ n k K) as (R1 & R2 & R3). split; [exact R1|]. split; [exact R2|left; exact R3].
    + destruct (r2r_core_unlocked debug wd s n k line o HI Hl Hn Hd Hc Hreg (Hfor eq_refl)) as (A & _ & B & C).
      split; [exact A|]. split; [exact B|exact C].
  - cbn [orb] in Hop. destruct (r2q_new_op o) eqn:Hnew.
    + assert (Ek : r2r_epoch k s o = k) by (destruct o; try discriminate Hnew; reflexivity). rewrite Ek.
      rewrite (r2q_step_state_new debug wd s line o Hd Hnew).
      assert (K : r2r_kept (s <| w_log := [] |>) (state_of (step_op debug o (s <| w_log := [] |>))) n k)
        by (apply (r2r_new_op_spec debug _ n k o HI0 Hnew); exact Hflt).
      destruct (r2r_kept_finish s _ n k K) as (R1 & R2 & R3). split; [exact R1|]. split; [exact R2|left; exact R3].
    + cbn [orb] in Hop. destruct o; try discriminate Hop.
      destruct (r2r_reset_step debug wd s n k line HI Hd) as (A & B & C & _).
      split; [exact A|]. split; [exact B|left; exact C].
Qed.

(** ** Histories: the state and the epoch after each line *)

Definition r2r_step (debug : bool) (sk : W * nat) (line : list Z) : W * nat :=
  (fst (step debug false (fst sk) line),
   match decode_op line with Some o => r2r_epoch (snd sk) (fst sk) o | None => snd sk end).

Definition r2r_run_from (debug : bool) (sk : W * nat) (lines : list (list Z)) : W * nat := fold_left (r2r_step debug) lines sk.

Definition r2r_run (c : script_cfg) (lines : list (list Z)) : W * nat := r2r_run_from (sc_debug c) (init_world c, 0) lines.

Lemma r2r_run_from_fst : forall debug lines sk,
  fst (r2r_run_from debug sk lines) = fold_left (fun s l => fst (step debug false s l)) lines (fst sk).
Proof.
  intros debug lines. induction lines as [|l lines IH]; intros sk; [reflexivity|].
  unfold r2r_run_from in *. cbn [fold_left]. rewrite IH. reflexivity.
Qed.

Lemma r2r_run_exec : forall c lines, fst (r2r_run c lines) = Properties.Common.exec c lines.
Proof. intros c lines. unfold r2r_run. rewrite r2r_run_from_fst. reflexivity. Qed.

(** the epoch of a history: the number of handles issued before its last successful Reset *)
Definition r2r_epoch_of (c : script_cfg) (lines : list (list Z)) : nat := snd (r2r_run c lines).

(** A covered line, in the state [fst sk] with epoch [snd sk]. *)
Definition rel_r_line (reg : list ckind) (sk : W * nat) (line : list Z) : Prop :=
  exists o, decode_op line = Some o /\ rel_r_op o = true /\ (forall c, In c (rel_op_ids o) -> c < length reg) /\
            rel_q_flt_ok reg o /\ (is_locked (fst sk) = false -> r2r_foreign_ok (snd sk) (fst sk) o).

Fixpoint rel_r_hist (debug : bool) (reg : list ckind) (sk : W * nat) (lines : list (list Z)) : Prop :=
  match lines with
  | [] => True
  | l :: rest => rel_r_line reg sk l /\ rel_r_hist debug reg (r2r_step debug sk l) rest
  end.

(** From ANY state satisfying the invariant (in particular from a fresh one: the world after a Reset) every
    covered history keeps it. *)
Theorem r2r_run_inv : forall debug reg lines s n k,
  Inv2R s n k -> w_reg s = reg -> rel_r_hist debug reg (s, k) lines -> n + length lines + 4 < Nat.pow 2 31 ->
  Inv2R (fst (r2r_run_from debug (s, k) lines)) (n + length lines) (snd (r2r_run_from debug (s, k) lines)) /\
  w_reg (fst (r2r_run_from debug (s, k) lines)) = reg.
Proof.
  intros debug reg lines. induction lines as [|l lines IH]; intros s n k HI Hr HH Hb.
  - cbn. rewrite Nat.add_0_r. split; assumption.
  - cbn [rel_r_hist] in HH. destruct HH as ((o & Hd & Hop & Hids & Hflt & Hfor) & HH). cbn [length] in Hb.
    unfold r2r_run_from in *. cbn [fold_left]. cbn [fst snd] in Hfor.
    destruct (step_inv2R debug false s n k l o HI) as (S1 & S2 & _); auto; try lia.
    { rewrite Hr. exact Hids. }
    { rewrite Hr. exact Hflt. }
    unfold r2r_step in *. cbn [fst snd] in *. rewrite Hd in *.
    destruct (IH _ (S n) _ S1) as (A & B); [congruence|exact HH|lia|].
    cbn [length]. rewrite <- Nat.add_succ_comm. split; assumption.
Qed.

Theorem reachable_inv2R : forall c lines,
  cfg_ok2 c -> rel_r_hist (sc_debug c) (sc_kinds c) (init_world c, 0) lines -> length lines + 4 < Nat.pow 2 31 ->
  Inv2R (Properties.Common.exec c lines) (length lines) (r2r_epoch_of c lines).
Proof.
  intros c lines Hc HH Hb. rewrite <- r2r_run_exec. unfold r2r_epoch_of, r2r_run.
  destruct (r2r_run_inv (sc_debug c) (sc_kinds c) lines (init_world c) 0 0) as (A & _); auto.
  apply r2r_Inv2R_of_Q. apply r2q_init. exact Hc.
Qed.

(** The C16 sentence, in the form that can be stated on the model alone: the world after a successful Reset is
    [r2r_fresh] -- as is the initial world of any configuration ([r2r_fresh_init]) -- and from a fresh world
    every covered history keeps the invariant, with the step counter restarting at 0 and every earlier handle foreign. *)
Theorem fresh_start_inv2R : forall debug lines s,
  r2r_fresh s -> rel_r_hist debug (w_reg s) (s, length (w_issued s)) lines -> length lines + 4 < Nat.pow 2 31 ->
  Inv2R (fst (r2r_run_from debug (s, length (w_issued s)) lines)) (length lines)
        (snd (r2r_run_from debug (s, length (w_issued s)) lines)).
Proof.
  intros debug lines s HF HH Hb.
  destruct (r2r_run_inv debug (w_reg s) lines s 0 (length (w_issued s)) (r2r_fresh_inv s HF) eq_refl HH) as (A & _); [lia|exact A].
Qed.

(* ================================================================================================ *)
(** * Part 9: corollaries over the class with Reset *)

(** C02 after Reset: a handle issued by a step differs from every handle of the CURRENT epoch and denotes a
    stored entity. (It may well be equal to a foreign handle: ids and generations start again.) *)
Theorem creation_fresh_R : forall debug wd s n k line o e,
  Inv2R s n k -> n + 4 < Nat.pow 2 31 -> decode_op line = Some o -> rel_r_op o = true ->
  (forall c, In c (rel_op_ids o) -> c < length (w_reg s)) -> rel_q_flt_ok (w_reg s) o ->
  (is_locked s = false -> r2r_foreign_ok k s o) ->
  w_issued (fst (step debug wd s line)) = w_issued s ++ [e] ->
  ~ In e (skipn k (w_issued s)) /\ live (fst (step debug wd s line)) e = true /\ live s e = false.
Proof.
  intros debug wd s n k line o e HI Hn Hd Hop Hreg Hflt Hfor Hiss.
  destruct (step_inv2R debug wd s n k line o HI Hn Hd Hop Hreg Hflt Hfor) as (_ & _ & [E|(e' & E & A & B & C)]).
  - exfalso. rewrite E in Hiss. apply (f_equal (@length ent)) in Hiss. rewrite app_length in Hiss. cbn in Hiss. lia.
  - rewrite E in Hiss. apply app_inj_tail in Hiss. destruct Hiss as (_ & <-). split; [exact C|]. split; assumption.
Qed.

(** C04, first sentence, in every state of a history with Reset. *)
Theorem targets_always_zero_or_alive_R : forall c lines e cmp x,
  cfg_ok2 c -> rel_r_hist (sc_debug c) (sc_kinds c) (init_world c, 0) lines -> length lines + 4 < Nat.pow 2 31 ->
  tgt (Properties.Common.exec c lines) e cmp = Some x ->
  x = zero_ent \/ live (Properties.Common.exec c lines) x = true.
Proof.
  intros c lines e cmp x Hc Hl Hb H. destruct (reachable_inv2R c lines Hc Hl Hb) as (HS & _).
  apply (r2_St2_targets _ e cmp x HS H).
Qed.

(** C04, second sentence: removing a stored entity through ANY handle that denotes it -- of the current epoch
    or foreign (a foreign handle that denotes a stored entity IS that entity: the alias of the Reset contract)
    -- never fails on an unlocked world, and detaches it from every entity that pointed to it. *)
Theorem remove_target_detaches_step_R : forall debug s n k h x,
  Inv2R s n k -> is_locked s = false -> handle s h = Some x -> live s x = true ->
  exists s', step_op debug (ORemoveEntity h) s = Ok [] s' /\ St2 s' /\ r2d_KeysLive s' /\
    live s' x = false /\ alive s' x = false /\
    forall e, e <> x -> live s' e = live s e /\ (forall c, val s' e c = val s e c) /\
      (forall c, tgt s' e c = r2c_detached x (tgt s e c)).
Proof.
  intros debug s n k h x (HS & HK & Hno & _) Hlk Hh Hl. cbn [step_op].
  unfold bind at 1. rewrite sc_resolveH, Hh. rewrite (sa_bind_ok (sb1_check_locked_ok s Hlk)).
  pose proof (r2e_remove_entity_spec s x HS HK Hno) as Hs.
  unfold bind. destruct (storage_remove_entity x s) as [u s1|er s1].
  - destruct Hs as (R1 & R2 & _ & R4 & R5 & R6 & _). exists s1. unfold ret. repeat (split; [first [reflexivity|assumption]|]). exact R6.
  - destruct Hs as (_ & Hc). congruence.
Qed.

Theorem remove_target_detaches_R : forall c lines h x,
  cfg_ok2 c -> rel_r_hist (sc_debug c) (sc_kinds c) (init_world c, 0) lines -> length lines + 4 < Nat.pow 2 31 ->
  let s := Properties.Common.exec c lines in
  is_locked s = false -> handle s h = Some x -> live s x = true ->
  exists s', step_op (sc_debug c) (ORemoveEntity h) s = Ok [] s' /\ St2 s' /\ live s' x = false /\
    forall e, e <> x -> live s' e = live s e /\ (forall cmp, val s' e cmp = val s e cmp) /\
      (forall cmp, tgt s' e cmp = r2c_detached x (tgt s e cmp)).
Proof.
  intros c lines h x Hc Hl Hb s Hlk Hh Hlx.
  destruct (remove_target_detaches_step_R (sc_debug c) s _ _ h x (reachable_inv2R c lines Hc Hl Hb) Hlk Hh Hlx)
    as (s' & E & P1 & _ & P3 & _ & P5).
  exists s'. repeat (split; [assumption|]). exact P5.
Qed.

(** C04, third sentence ("... it is the target last assigned"), after [target_is_last_assigned_setrel] / [_new] / [_add]
    of Rel2Hist: handles of any epoch. For SetRelations the named targets must be proper (those of the current epoch
    are: [r2r_current_proper]); a valid list ([r2e_hrels_ok]: targets zero or stored) is proper by itself. *)
Lemma r2r_room : forall k s n, issued_ok_from k s n -> n + 4 < Nat.pow 2 31 -> room s.
Proof. intros k s n (_ & _ & I3) Hn. unfold room. sc_lia. Qed.

Theorem target_is_last_assigned_setrel_R : forall debug s n k h hrels res s' e,
  Inv2R s n k -> n + 4 < Nat.pow 2 31 -> handle s h = Some e ->
  (forall hr, In hr hrels -> r2r_hproper s (snd hr)) ->
  step_op debug (OUSetRel h hrels) s = Ok res s' ->
  forall c hx x, In (c, hx) hrels -> handle s hx = Some x ->
    tgt s' e c = Some x /\ (x = zero_ent \/ live s x = true).
Proof.
  intros debug s n k h hrels res s' e HI Hn Hh Hp Hrun c hx x Hin Hhx.
  pose proof HI as (HS & HK & Hno & Hiss & _ & _ & Hids). pose proof HS as (HW & _).
  cbn [step_op] in Hrun. unfold bind at 1 in Hrun. rewrite sc_resolveH, Hh in Hrun.
  destruct (r2e_resolveR hrels s) as [(rels & E & HR)|(er & E)]; [|rewrite (sa_bind_err E) in Hrun; discriminate].
  rewrite (sa_bind_ok E) in Hrun.
  pose proof (r2b_set_relations_spec_noobs s e rels HS (r2r_room k s n Hiss Hn) (Hno EvRemoveRelations) (Hno EvAddRelations)
                (r2r_resolved_ok s hrels rels HW Hids HR Hp)) as Hs.
  unfold bind in Hrun. destruct (w_set_relations e rels s) as [u s1|er s1]; [|discriminate].
  unfold ret in Hrun. injection Hrun as _ <-.
  destruct Hs as (_ & _ & _ & _ & Hnd & Hall & _ & _ & Htgt & _).
  destruct (r2e_resolved_in s hrels rels c hx HR Hin) as (x' & Hx' & Hhx'). rewrite Hhx in Hhx'. injection Hhx' as <-.
  split; [rewrite Htgt, (r2b_assigned_in rels c x Hnd Hx'); reflexivity|].
  apply (Hall (c, x) Hx').
Qed.

Theorem target_is_last_assigned_new_R : forall debug s n k ids hrels res s',
  Inv2R s n k -> n + 4 < Nat.pow 2 31 -> registered s ids -> r2e_hrels_ok s ids hrels ->
  step_op debug (OUNewRel ids hrels) s = Ok res s' ->
  exists e, res = Zent e /\ live s' e = true /\
    forall c hx x, In (c, hx) hrels -> handle s hx = Some x -> tgt s' e c = Some x.
Proof.
  intros debug s n k ids hrels res s' HI Hn Hreg Hok Hrun.
  pose proof HI as (HS & HK & Hno & Hiss & _). pose proof HS as (HW & _).
  cbn [step_op] in Hrun.
  destruct (r2e_resolveR hrels s) as [(rels & E & HR)|(er & E)]; [|rewrite (sa_bind_err E) in Hrun; discriminate].
  rewrite (sa_bind_ok E) in Hrun.
  pose proof (r2e_rels_ok_of s ids hrels rels Hok HR) as Hrok.
  pose proof (r2a_new_entity_spec s ids rels HS (r2r_room k s n Hiss Hn) Hreg Hrok) as Hs.
  unfold bind at 1 in Hrun. destruct (new_entity ids rels s) as [[e m] s1|er s1]; [|discriminate].
  destruct Hs as (_ & _ & _ & _ & _ & _ & L1 & _ & _ & T1 & _ & SD & _).
  pose proof (r2e_noobs_side s s1 SD Hno) as Hno1.
  rewrite (sa_bind_ok (sb1_fire_create_noobs s1 e m (Hno1 EvCreateEntity))) in Hrun.
  assert (Ew : whenM (negb (is_nil rels)) (fire_create_entity_rel_if_has e m) s1 = Ok tt s1).
  { destruct (negb (is_nil rels)); cbn [whenM]; [apply (r2d_fire_create_rel_noobs s1 e m (Hno1 EvAddRelations))|reflexivity]. }
  rewrite (sa_bind_ok Ew) in Hrun. unfold ret in Hrun. injection Hrun as <- <-.
  exists e. split; [reflexivity|]. split; [exact L1|].
  intros c hx x Hin Hhx. destruct (r2e_resolved_in s hrels rels c hx HR Hin) as (x' & Hx' & Hhx'). rewrite Hhx in Hhx'. injection Hhx' as <-.
  rewrite T1. destruct Hrok as (R1 & R2 & _). destruct (R2 (c, x) Hx') as (Hcin & _). cbn [fst] in Hcin.
  apply sa_memb_in in Hcin. rewrite Hcin. unfold r2a_new_target. rewrite (r2a_assigned_in rels c x R1 Hx'). reflexivity.
Qed.

Theorem target_is_last_assigned_add_R : forall debug s n k h ids hrels res s' e,
  Inv2R s n k -> n + 4 < Nat.pow 2 31 -> registered s ids -> r2e_hrels_ok s ids hrels -> handle s h = Some e ->
  step_op debug (OUAddRel h ids hrels) s = Ok res s' ->
  live s' e = true /\ forall c hx x, In (c, hx) hrels -> handle s hx = Some x -> tgt s' e c = Some x.
Proof.
  intros debug s n k h ids hrels res s' e HI Hn Hreg Hok Hh Hrun.
  pose proof HI as (HS & HK & Hno & Hiss & _). pose proof HS as (HW & _).
  cbn [step_op] in Hrun. unfold bind at 1 in Hrun. rewrite sc_resolveH, Hh in Hrun.
  rewrite sb2_bind_get in Hrun. destruct (alive s e); [|rewrite sb2_bind_guard_false in Hrun; discriminate].
  rewrite sb2_bind_guard_true in Hrun.
  destruct (r2e_resolveR hrels s) as [(rels & E & HR)|(er & E)]; [|rewrite (sa_bind_err E) in Hrun; discriminate].
  rewrite (sa_bind_ok E) in Hrun.
  pose proof (r2e_rels_ok_of s ids hrels rels Hok HR) as Hrok.
  pose proof (r2a_add_spec s e ids rels HS (r2r_room k s n Hiss Hn) Hreg Hrok) as Hs.
  unfold bind at 1 in Hrun. destruct (w_add e ids rels s) as [[om nm] s1|er s1]; [|discriminate].
  destruct Hs as (_ & _ & _ & _ & _ & _ & _ & L1 & _ & T1 & _ & _ & _ & _ & SD & _).
  pose proof (r2e_noobs_side s s1 SD Hno) as Hno1. cbn [fst snd] in Hrun.
  rewrite (sa_bind_ok (r2e_fire_add_noobs s1 _ e _ _ Hno1)) in Hrun.
  assert (Ew : whenM (negb (is_nil rels)) (fire_add_if_has EvAddRelations e om nm) s1 = Ok tt s1).
  { destruct (negb (is_nil rels)); cbn [whenM]; [apply (r2e_fire_add_noobs s1 _ e _ _ Hno1)|reflexivity]. }
  rewrite (sa_bind_ok Ew) in Hrun. unfold ret in Hrun. injection Hrun as _ <-.
  split; [exact L1|].
  intros c hx x Hin Hhx. destruct (r2e_resolved_in s hrels rels c hx HR Hin) as (x' & Hx' & Hhx'). rewrite Hhx in Hhx'. injection Hhx' as <-.
  rewrite T1. destruct Hrok as (R1 & R2 & _). destruct (R2 (c, x) Hx') as (Hcin & _). cbn [fst] in Hcin.
  apply sa_memb_in in Hcin. rewrite Hcin. unfold r2a_new_target. rewrite (r2a_assigned_in rels c x R1 Hx'). reflexivity.
Qed.

(** Any handle that fails the generation check is rejected by the checked single-entity operations, and the
    entire state is unchanged (after [stale_handle_rejected2]; no invariant is needed for this half). *)
Lemma r2r_dead_rejected : forall debug s o h e,
  uses_handle o h -> handle s h = Some e -> alive s e = false -> exists er, step_op debug o s = Err er s.
Proof.
  intros debug s o h e Hu Hh Ha.
  destruct (dead_rejected s e Ha) as (D1 & D2 & D3 & D4 & D5 & D6 & D7).
  assert (G : forall (k : unit -> MW (list Z)), exists er,
            (s0 <- get ;; guard (alive s0 e) EDead ;;; k tt) s = Err er s).
  { intros k. exists EDead. apply (sb1_guard_alive_err _ s e k Ha). }
  assert (R : forall (k : ent -> MW (list Z)), bind (resolveH h) k s = k e s).
  { intros k. unfold bind. rewrite sc_resolveH, Hh. reflexivity. }
  destruct o; cbn [uses_handle] in Hu; try contradiction; subst; cbn [step_op]; rewrite R.
  - destruct D5 as (er & E). exists er. apply sa_bind_err. exact E.
  - apply (G (fun _ => _)).
  - apply (G (fun _ => _)).
  - apply (G (fun _ => _)).
  - apply (G (fun _ => _)).
  - destruct (D7 debug c) as (er & E). exists er. apply sa_bind_err. exact E.
  - destruct (sc_ro_cases _ (resolveR rels) (readonly_resolveR rels) s) as [(rl & E)|(er & E)].
    + erewrite sa_bind_ok by exact E. destruct (D6 rl) as (er & E'). exists er. apply sa_bind_err. exact E'.
    + exists er. apply sa_bind_err. exact E.
  - destruct (is_locked s) eqn:El.
    + exists ELocked. apply sa_bind_err. apply sb1_check_locked_err. exact El.
    + erewrite sa_bind_ok by (apply sb1_check_locked_ok; exact El). destruct D4 as (er & E). exists er.
      apply sa_bind_err. exact E.
  - destruct (D7 debug c) as (er & E). exists er. apply sa_bind_err. exact E.
  - apply (G (fun _ => _)).
  - destruct (D7 debug c) as (er & E). exists er. apply sa_bind_err. exact E.
  - apply (G (fun _ => _)).
  - destruct (D7 debug c) as (er & E). exists er. apply sa_bind_err. exact E.
Qed.

(** C10 after Reset: a handle of the CURRENT epoch (or -1) whose entity has been removed is rejected and the
    state is unchanged. For a FOREIGN handle this is false in general: it may denote a stored entity of the
    current epoch ([r2r_script_alias]). *)
Theorem stale_handle_rejected_R : forall debug s n k o h e,
  Inv2R s n k -> uses_handle o h -> (Z.ltb h 0 = true \/ k <= Z.to_nat h) -> handle s h = Some e -> live s e = false ->
  exists er, step_op debug o s = Err er s.
Proof.
  intros debug s n k o h e (HS & _ & _ & Hiss & _) Hu Hcur Hh Hl.
  apply (r2r_dead_rejected debug s o h e Hu Hh).
  destruct (alive s e) eqn:Ha; [|reflexivity].
  rewrite (r2r_current_proper s n k h (proj1 HS) Hiss Hcur e Hh Ha) in Hl. discriminate.
Qed.

(** Reset succeeds in every unlocked state of a history with Resets, and is rejected in every locked one. *)
Theorem reachable_reset_R : forall c lines,
  cfg_ok2 c -> rel_r_hist (sc_debug c) (sc_kinds c) (init_world c, 0) lines -> length lines + 4 < Nat.pow 2 31 ->
  let s := Properties.Common.exec c lines in
  (is_locked s = false -> exists s', step_op (sc_debug c) OReset s = Ok [] s' /\ r2r_fresh s' /\
                                     w_reg s' = w_reg s /\ w_cfg s' = w_cfg s /\ w_issued s' = w_issued s) /\
  (is_locked s = true -> exists er, step_op (sc_debug c) OReset s = Err er s).
Proof.
  intros c lines Hc Hl Hb s. split; intros Hlk.
  - destruct (r2r_reset_unlocked (sc_debug c) s _ _ (reachable_inv2R c lines Hc Hl Hb) Hlk) as (s' & E & A1 & A2 & A3 & A4 & _).
    exists s'. repeat (split; [assumption|]). exact A4.
  - apply (r2r_reset_locked (sc_debug c) s Hlk).
Qed.

(* ================================================================================================ *)
(** * Part 10: a checker for histories, non-vacuity, and why the side condition is needed *)

Definition r2r_properb (s : W) (x : ent) : bool := (negb (alive s x) || live s x)%bool.

(** (stronger than [r2r_foreign_ok]: ALL handles of [rel_r_handles], foreign or not) *)
Definition r2r_foreign_okb (s : W) (o : op) : bool :=
  forallb (fun h => match handle s h with Some x => r2r_properb s x | None => true end) (rel_r_handles o).

Lemma r2r_foreign_okb_sound : forall k s o, r2r_foreign_okb s o = true -> r2r_foreign_ok k s o.
Proof.
  intros k s o H h Hin _ _ x Hx Ha. unfold r2r_foreign_okb in H. rewrite forallb_forall in H. specialize (H h Hin).
  rewrite Hx in H. unfold r2r_properb in H. rewrite Ha in H. exact H.
Qed.

Definition rel_r_line_b (reg : list ckind) (sk : W * nat) (line : list Z) : bool :=
  match decode_op line with
  | Some o => (rel_r_op o && forallb (fun c => Nat.ltb c (length reg)) (rel_op_ids o) && rel_q_flt_okb reg o &&
               r2r_foreign_okb (fst sk) o)%bool
  | None => false
  end.

Fixpoint rel_r_hist_b (debug : bool) (reg : list ckind) (sk : W * nat) (lines : list (list Z)) : bool :=
  match lines with
  | [] => true
  | l :: rest => (rel_r_line_b reg sk l && rel_r_hist_b debug reg (r2r_step debug sk l) rest)%bool
  end.

Lemma rel_r_line_b_sound : forall reg sk line, rel_r_line_b reg sk line = true -> rel_r_line reg sk line.
Proof.
  intros reg sk line H. unfold rel_r_line_b in H. destruct (decode_op line) as [o|] eqn:E; [|discriminate].
  apply andb_true_iff in H. destruct H as (H123 & H4). apply andb_true_iff in H123. destruct H123 as (H12 & H3).
  apply andb_true_iff in H12. destruct H12 as (H1 & H2).
  exists o. split; [exact E|]. split; [exact H1|]. split; [|split; [apply rel_q_flt_okb_sound; exact H3|]].
  - intros c Hc. rewrite forallb_forall in H2. apply Nat.ltb_lt. apply H2. exact Hc.
  - intros _. apply r2r_foreign_okb_sound. exact H4.
Qed.

Lemma rel_r_hist_b_sound : forall debug reg lines sk, rel_r_hist_b debug reg sk lines = true -> rel_r_hist debug reg sk lines.
Proof.
  intros debug reg lines. induction lines as [|l lines IH]; intros sk H; [exact I|].
  cbn [rel_r_hist_b] in H. apply andb_true_iff in H. destruct H as (H1 & H2).
  split; [apply rel_r_line_b_sound; exact H1|apply IH; exact H2].
Qed.

Local Open Scope Z_scope.

(** ** The theorems are not vacuous: a history with two epochs, foreign handles in every role, filters, a
    registered filter that survives Reset unregistered, queries, locked states, a Reset rejected in the locked
    window. Components of [r2_cfg]: 0,1,2 plain; 3,4 relation components. *)
Definition r2r_script : list (list Z) :=
  [[0]; [0];                        (* handles 0 = (2,0), 1 = (3,0) *)
   [2; 2;0;3; 1; 3;0];              (* handle 2 = (4,0): components 0 and 3, relation 3 -> handle 0 *)
   [15; 0; 2;0;3; 0; 0; 1; 3;0];    (* filter 0: typed, fixed relation 3 -> handle 0 *)
   [16; 0];                         (* register it *)
   [11; 1]; [0];                    (* handle 3 = (3,1): a second generation *)
   [18; 0; 0];                      (* a complete iteration (query object 0) *)
   [13];                            (* RESET: the epoch moves to 4, handles 0..3 are foreign from here on *)
   [13];                            (* Reset of the fresh world *)
   [0];                             (* handle 4 = (2,0): the foreign handle 0 now denotes THIS entity *)
   [33; 0];                         (* Alive(handle 0) = true *)
   [5; 0; 1;0];                     (* Add component 0 through the foreign handle: accepted (the alias) *)
   [2; 1;0; 1; 0;2];                (* malformed list naming the plain component 0 with the foreign target (4,0) whose id lies
                                       BEYOND the pool: GetTable ignores the list, the row is placed, then register_targets
                                       panics (index out of range): the entity is stored, no handle is issued *)
   [2; 2;0;3; 1; 3;3];              (* relation target = foreign handle 3 = (3,1): fails the generation check: rejected *)
   [2; 2;0;3; 1; 3;0];              (* relation target = foreign handle 0, which denotes the stored (2,0): accepted; handle 5 *)
   [19; 0; 0];                      (* query object 1 on filter 0 (unregistered by the Reset; its fixed target is foreign): LOCKED *)
   [13];                            (* Reset: rejected *)
   [0];                             (* NewEntity: rejected *)
   [20; 1]; [21; 1];                (* Next, Close: unlocked again *)
   [35; 5; 3];                      (* the target of handle 5 is (2,0) *)
   [11; 0];                         (* RemoveEntity through the foreign handle: removes (2,0), handle 5 is detached *)
   [35; 5; 3];                      (* ... its target is the zero entity now *)
   [11; 4];                         (* the handle of the current epoch for the same entity: stale, rejected *)
   [4; 0];                          (* Copy through the foreign handle: (2,0) fails the generation check now: rejected *)
   [13];                            (* RESET: the epoch moves to 6 *)
   [0]; [38]].

Example r2r_script_covered : rel_r_hist_b false (sc_kinds Rel2Check.r2_cfg) (init_world Rel2Check.r2_cfg, 0%nat) r2r_script = true.
Proof. vm_compute. reflexivity. Qed.

(** 0 = the step returned normally, 1 = it panicked *)
Example r2r_script_runs :
  Rel2Check.r2_flags Rel2Check.r2_cfg (init_world Rel2Check.r2_cfg) r2r_script =
  [0;0; 0; 0; 0; 0;0; 0; 0; 0; 0; 0; 0; 1; 1; 0; 0; 1; 1; 0;0; 0; 0; 0; 1; 1; 0; 0;0].
Proof. vm_compute. reflexivity. Qed.

(** epoch and lock after 0, 1, ... steps *)
Example r2r_script_epochs :
  map (fun k => (r2r_epoch_of Rel2Check.r2_cfg (firstn k r2r_script), is_locked (Properties.Common.exec Rel2Check.r2_cfg (firstn k r2r_script))))
      (seq 0 30) =
  repeat (0%nat, false) 9 ++ repeat (4%nat, false) 8 ++ repeat (4%nat, true) 4 ++ repeat (4%nat, false) 6 ++ repeat (6%nat, false) 3.
Proof. vm_compute. reflexivity. Qed.

Lemma r2r_script_hist : forall k, rel_r_hist false (sc_kinds Rel2Check.r2_cfg) (init_world Rel2Check.r2_cfg, 0%nat) (firstn k r2r_script).
Proof.
  intros k. apply rel_r_hist_b_sound.
  assert (H : forall n, (n <= 30)%nat -> rel_r_hist_b false (sc_kinds Rel2Check.r2_cfg) (init_world Rel2Check.r2_cfg, 0%nat) (firstn n r2r_script) = true).
  { intros n Hn. do 31 (destruct n as [|n]; [vm_compute; reflexivity|]). lia. }
  destruct (Nat.le_gt_cases k 30) as [Hk|Hk]; [apply (H k Hk)|].
  rewrite firstn_all2; [exact r2r_script_covered|]. cbn. lia.
Qed.

Example r2r_script_inv :
  Inv2R (Properties.Common.exec Rel2Check.r2_cfg r2r_script) (length r2r_script) (r2r_epoch_of Rel2Check.r2_cfg r2r_script) /\
  r2r_epoch_of Rel2Check.r2_cfg r2r_script = 6%nat.
Proof.
  split; [|vm_compute; reflexivity].
  apply reachable_inv2R; [exact r2q_cfg_ok|apply rel_r_hist_b_sound; exact r2r_script_covered|].
  apply r2_N_small. vm_compute. reflexivity.
Qed.

(** A LOCKED state of the second epoch satisfies the invariant; Reset is rejected there. *)
Example r2r_mid_inv :
  Inv2R (Properties.Common.exec Rel2Check.r2_cfg (firstn 18 r2r_script)) 18 4 /\
  is_locked (Properties.Common.exec Rel2Check.r2_cfg (firstn 18 r2r_script)) = true.
Proof.
  split; [|vm_compute; reflexivity].
  pose proof (reachable_inv2R Rel2Check.r2_cfg (firstn 18 r2r_script) r2q_cfg_ok (r2r_script_hist 18)) as H.
  replace (r2r_epoch_of Rel2Check.r2_cfg (firstn 18 r2r_script)) with 4%nat in H by (vm_compute; reflexivity).
  apply H. apply r2_N_small. vm_compute. reflexivity.
Qed.

(** The alias of the Reset contract, and C04 through it: in the state after 22 steps (epoch 4) the FOREIGN handle 0
    denotes the stored entity (2,0), which is the relation target of (4,0); removing it through the foreign
    handle succeeds and detaches (4,0). *)
Example r2r_script_alias :
  let s := Properties.Common.exec Rel2Check.r2_cfg (firstn 22 r2r_script) in
  r2r_epoch_of Rel2Check.r2_cfg (firstn 22 r2r_script) = 4%nat /\ handle s 0 = Some (2%nat, 0%N) /\ live s (2%nat, 0%N) = true /\
  tgt s (4%nat, 0%N) 3 = Some (2%nat, 0%N) /\
  exists s', step_op false (ORemoveEntity 0) s = Ok [] s' /\ St2 s' /\ tgt s' (4%nat, 0%N) 3 = Some zero_ent.
Proof.
  cbv zeta. split; [vm_compute; reflexivity|]. split; [vm_compute; reflexivity|]. split; [vm_compute; reflexivity|].
  split; [vm_compute; reflexivity|].
  destruct (remove_target_detaches_R Rel2Check.r2_cfg (firstn 22 r2r_script) 0 (2%nat, 0%N) r2q_cfg_ok (r2r_script_hist 22))
    as (s' & E & HS' & _ & Hoth).
  - apply r2_N_small. vm_compute. reflexivity.
  - vm_compute. reflexivity.
  - vm_compute. reflexivity.
  - vm_compute. reflexivity.
  - exists s'. split; [exact E|]. split; [exact HS'|].
    destruct (Hoth (4%nat, 0%N)) as (_ & _ & T); [discriminate|]. rewrite T. vm_compute. reflexivity.
Qed.

(** The panic AFTER the row was placed (a foreign target beyond the pool in a list GetTable does not look at):
    step 14 fails, the entity (3,0) is stored, no handle was issued for it, and the invariant holds. *)
Example r2r_script_eindex :
  let s := Properties.Common.exec Rel2Check.r2_cfg (firstn 13 r2r_script) in
  let s' := Properties.Common.exec Rel2Check.r2_cfg (firstn 14 r2r_script) in
  hd 9 (snd (step false false s [2; 1;0; 1; 0;2])) = 1 /\ handle s 2 = Some (4%nat, 0%N) /\ length (w_istarget s) = 3%nat /\
  live s (3%nat, 0%N) = false /\ live s' (3%nat, 0%N) = true /\ w_issued s' = w_issued s /\ Inv2R s' 14 4.
Proof.
  cbv zeta. do 6 (split; [vm_compute; reflexivity|]).
  pose proof (reachable_inv2R Rel2Check.r2_cfg (firstn 14 r2r_script) r2q_cfg_ok (r2r_script_hist 14)) as H.
  replace (r2r_epoch_of Rel2Check.r2_cfg (firstn 14 r2r_script)) with 4%nat in H by (vm_compute; reflexivity).
  apply H. apply r2_N_small. vm_compute. reflexivity.
Qed.

(** ** (refuted) [step_inv2R] / [reachable_inv2R] WITHOUT the side condition [r2r_foreign_ok]

    A foreign handle may name a slot that was recycled in the current epoch and whose generation has come
    round to the handle's again: it passes the generation check without denoting a stored entity.
    - as a RELATION TARGET ([r2r_foreign_target_refuted], the script of [r2e_reset_refuted_handles]): createTable
      checks targets with the generation check only, so a table is created whose target is not stored
      ([ri_targets_ok] fails, hence [St2]);
    - as the SOURCE OF A COPY ([r2r_foreign_copy_refuted]): CopyEntity pops the pool BEFORE it looks the source
      up in the entity index; the lookup panics, and a slot is left allocated without a row ([wf_pool] fails).
    Every line of both scripts is in [rel_r_op] with registered component ids; only [r2r_foreign_ok] fails, and
    only for the last line. This is the documented contract of World.Reset ("all entity handles become
    invalid"), not a defect; for the other single-entity operations the alias is harmless (the index lookup
    precedes every change). *)
Definition r2r_line_nofor_b (reg : list ckind) (line : list Z) : bool :=
  match decode_op line with
  | Some o => (rel_r_op o && forallb (fun c => Nat.ltb c (length reg)) (rel_op_ids o) && rel_q_flt_okb reg o)%bool
  | None => false
  end.

Definition r2r_bad_target : list (list Z) := [[0]; [0]; [11;0]; [0]; [13]; [0]; [0]; [11;3]; [11;4]; [2; 1;3; 1; 3;2]].
Definition r2r_bad_copy : list (list Z) := [[0]; [11;0]; [0]; [13]; [0]; [11;2]; [4;1]].

Example r2r_foreign_target_refuted :
  forallb (r2r_line_nofor_b (sc_kinds Rel2Check.r2_cfg)) r2r_bad_target = true /\
  rel_r_hist_b false (sc_kinds Rel2Check.r2_cfg) (init_world Rel2Check.r2_cfg, 0%nat) (firstn 9 r2r_bad_target) = true /\
  rel_r_hist_b false (sc_kinds Rel2Check.r2_cfg) (init_world Rel2Check.r2_cfg, 0%nat) r2r_bad_target = false /\
  Rel2Check.r2_flags Rel2Check.r2_cfg (init_world Rel2Check.r2_cfg) r2r_bad_target = [0;0;0;0;0;0;0;0;0;0] /\
  Inv2R (Properties.Common.exec Rel2Check.r2_cfg (firstn 9 r2r_bad_target)) 9 3 /\
  handle (Properties.Common.exec Rel2Check.r2_cfg (firstn 9 r2r_bad_target)) 2 = Some (2%nat, 1%N) /\
  ~ r2r_proper (Properties.Common.exec Rel2Check.r2_cfg (firstn 9 r2r_bad_target)) (2%nat, 1%N) /\
  ~ St2 (Properties.Common.exec Rel2Check.r2_cfg r2r_bad_target).
Proof.
  split; [vm_compute; reflexivity|]. split; [vm_compute; reflexivity|]. split; [vm_compute; reflexivity|].
  split; [vm_compute; reflexivity|]. split.
  { pose proof (reachable_inv2R Rel2Check.r2_cfg (firstn 9 r2r_bad_target) r2q_cfg_ok) as H.
    replace (r2r_epoch_of Rel2Check.r2_cfg (firstn 9 r2r_bad_target)) with 3%nat in H by (vm_compute; reflexivity).
    apply H; [apply rel_r_hist_b_sound; vm_compute; reflexivity|apply r2_N_small; vm_compute; reflexivity]. }
  split; [vm_compute; reflexivity|]. split.
  { intros H. assert (X : live (Properties.Common.exec Rel2Check.r2_cfg (firstn 9 r2r_bad_target)) (2%nat, 1%N) = false) by (vm_compute; reflexivity).
    rewrite H in X; [discriminate|]. vm_compute. reflexivity. }
  intros (_ & (HR & _) & _). set (s := Properties.Common.exec Rel2Check.r2_cfg r2r_bad_target) in *.
  assert (X : exists t r, nth_error (w_tables s) 1 = Some t /\ t_free t = false /\ In r (t_rels t) /\
                snd r = (2%nat, 1%N) /\ live s (2%nat, 1%N) = false).
  { vm_compute. do 2 eexists. split; [reflexivity|]. split; [reflexivity|]. split; [left; reflexivity|]. split; reflexivity. }
  destruct X as (t & r & Ht & Hf & Hr & Er & Hl).
  destruct (ri_targets_ok _ _ HR 1%nat t r Ht Hf Hr) as [Hz|[Hlv|[]]].
  - rewrite Er in Hz. discriminate.
  - rewrite Er, Hl in Hlv. discriminate.
Qed.

Example r2r_foreign_copy_refuted :
  forallb (r2r_line_nofor_b (sc_kinds Rel2Check.r2_cfg)) r2r_bad_copy = true /\
  rel_r_hist_b false (sc_kinds Rel2Check.r2_cfg) (init_world Rel2Check.r2_cfg, 0%nat) (firstn 6 r2r_bad_copy) = true /\
  rel_r_hist_b false (sc_kinds Rel2Check.r2_cfg) (init_world Rel2Check.r2_cfg, 0%nat) r2r_bad_copy = false /\
  Rel2Check.r2_flags Rel2Check.r2_cfg (init_world Rel2Check.r2_cfg) r2r_bad_copy = [0;0;0;0;0;0;1] /\
  Inv2R (Properties.Common.exec Rel2Check.r2_cfg (firstn 6 r2r_bad_copy)) 6 2 /\
  handle (Properties.Common.exec Rel2Check.r2_cfg (firstn 6 r2r_bad_copy)) 1 = Some (2%nat, 1%N) /\
  ~ r2r_proper (Properties.Common.exec Rel2Check.r2_cfg (firstn 6 r2r_bad_copy)) (2%nat, 1%N) /\
  ~ WF (Properties.Common.exec Rel2Check.r2_cfg r2r_bad_copy).
Proof.
  split; [vm_compute; reflexivity|]. split; [vm_compute; reflexivity|]. split; [vm_compute; reflexivity|].
  split; [vm_compute; reflexivity|]. split.
  { pose proof (reachable_inv2R Rel2Check.r2_cfg (firstn 6 r2r_bad_copy) r2q_cfg_ok) as H.
    replace (r2r_epoch_of Rel2Check.r2_cfg (firstn 6 r2r_bad_copy)) with 2%nat in H by (vm_compute; reflexivity).
    apply H; [apply rel_r_hist_b_sound; vm_compute; reflexivity|apply r2_N_small; vm_compute; reflexivity]. }
  split; [vm_compute; reflexivity|]. split.
  { intros H. assert (X : live (Properties.Common.exec Rel2Check.r2_cfg (firstn 6 r2r_bad_copy)) (2%nat, 1%N) = false) by (vm_compute; reflexivity).
    rewrite H in X; [discriminate|]. vm_compute. reflexivity. }
  intros HW. set (s := Properties.Common.exec Rel2Check.r2_cfg r2r_bad_copy) in *.
  destruct (wf_pool _ HW) as (fl & (_ & Hlen & _) & _ & Hidx).
  assert (Ea : pavail (w_pool s) = 0%nat) by (vm_compute; reflexivity).
  assert (El : length (pe (w_pool s)) = 3%nat) by (vm_compute; reflexivity).
  assert (Ei : nth_error (w_index s) 2 = Some (None, 0%nat)) by (vm_compute; reflexivity).
  clearbody s. rewrite Ea in Hlen. destruct fl as [|x fl]; [|discriminate].
  destruct (Hidx 2%nat) as (tid & r & E); [rewrite El; lia|intros []|]. rewrite Ei in E. discriminate.
Qed.

Local Close Scope Z_scope.

(** ** Assumption audit *)
Definition r2r_all :=
  (r2r_current_proper, r2r_proper_beyond, r2r_proper_gen, r2r_proper_nofree, r2r_copy_improper_breaks, r2r_handle_ok, r2r_register_any, r2r_add_any, r2r_exchange_any, r2r_new_entity_any, r2r_op_spec,
   r2r_rkp_reset, r2r_hkp_reset, r2r_trans_issued, r2r_core_unlocked, r2r_fresh_init, r2r_reset_unlocked, r2r_reset_step,
   step_inv2R_core, r2r_register_kept, r2r_unregister_kept, r2r_new_op_spec, r2r_core_locked, step_inv2R, r2r_run_inv,
   reachable_inv2R, fresh_start_inv2R, creation_fresh_R, targets_always_zero_or_alive_R, remove_target_detaches_step_R,
   remove_target_detaches_R, target_is_last_assigned_setrel_R, target_is_last_assigned_new_R,
   target_is_last_assigned_add_R, r2r_reset_pool, r2r_dead_rejected, stale_handle_rejected_R, reachable_reset_R, rel_r_hist_b_sound,
   r2r_script_covered, r2r_script_runs, r2r_script_epochs, r2r_script_inv, r2r_mid_inv, r2r_script_alias, r2r_script_eindex,
   r2r_foreign_target_refuted, r2r_foreign_copy_refuted).
Print Assumptions r2r_all.
