(** * StorageC: the storage invariant holds in every state reachable by any history of the core
    operations (relation-free worlds), and stale handles are rejected at the level of the operation
    language. Layer C of the storage proofs. Helper lemmas carry the prefix [sc_]. *)
From Ark Require Import Model.Base Model.Mask Model.Pool Model.Util Model.World Model.Run.
From Ark Require Import Proofs.TableProofs Proofs.MaskProofs Proofs.Hoare Proofs.WF Proofs.StorageA Proofs.StorageBDefs.
From Ark Require Import Proofs.StorageB_sb1 Proofs.StorageB_sb2 Proofs.StorageB_sb3.
From RecordUpdate Require Import RecordSet.
Import RecordSetNotations.
From Ark Require Import Proofs.LockWorld.
From Coq Require Import Lia.

(** The operations covered: creation, copy, add / remove / exchange without relation targets,
    writes, entity removal, all read probes, and observer management (callbacks run inside the
    structural operations and may unregister observers). *)
Definition core_op (o : op) : bool :=
  match o with
  | ONewEntity | OUNew _ | OCopy _ | OUAdd _ _ | OURemove _ _ | OWrite _ _ _ | ORemoveEntity _
  | OAlive _ | OHas _ _ | OGetRel _ _ | OIDs _ | OGet _ _ | OStats
  | OObsNew _ _ _ _ _ _ | OObsRegister _ | OObsUnregister _ => true
  | OUExchange _ _ _ rels => match rels with [] => true | _ => false end
  | _ => false
  end.

(** Component IDs mentioned by an operation are registered (the Go API only hands out registered IDs). *)
Definition op_ids (o : op) : list nat :=
  match o with
  | OUNew ids | OUAdd _ ids | OURemove _ ids => ids
  | OUExchange _ add rem _ => add ++ rem
  | OWrite _ c _ | OHas _ c | OGetRel _ c | OGet _ c => [c]
  | OObsNew _ f w wo _ _ => f ++ w ++ wo
  | _ => []
  end.

(** Handles issued so far that are alive are the current incarnation of a stored entity; dead ones
    carry a generation strictly below their slot's (so they can never become alive again); slot
    generations are bounded by the number of steps (no uint32 wrap-around in the covered histories). *)
Definition issued_ok (s : W) (n : nat) : Prop :=
  (forall e, In e (w_issued s) ->
     2 <= fst e < length (pe (w_pool s)) /\
     (live s e = true \/ exists l g, nth_error (pe (w_pool s)) (fst e) = Some (l, g) /\ (snd e < g)%N)) /\
  (forall i l g, nth_error (pe (w_pool s)) i = Some (l, g) -> 2 <= i -> (g <= N.of_nat n)%N) /\
  length (pe (w_pool s)) <= 2 + n.

Definition Inv (s : W) (n : nat) : Prop := St s /\ issued_ok s n.


(** ** sc: helpers *)

(** *** Arithmetic: generations stay below the uint32 range *)
Lemma sc_pow_bound : forall n, n + 4 < Nat.pow 2 31 -> (N.of_nat n + 1 < 4294967296)%N.
Proof.
  intros n H.
  assert (E : N.of_nat (Nat.pow 2 31) = 2147483648%N) by (rewrite Nat2N.inj_pow; reflexivity).
  set (P := Nat.pow 2 31) in *. lia.
Qed.

(** *** The state fields the invariant does not mention *)
Lemma sc_St_log : forall s l, St s -> St (s <| w_log := l |>).
Proof. intros s l H. eapply storage_same_St; [|exact H]. repeat split. Qed.

Lemma sc_St_issued : forall s f, St s -> St (s <| w_issued ::= f |>).
Proof.
  intros s f [HW HN]. split.
  - apply (sa_WF_ext s); auto.
  - apply (sa_NoRel_ext s); auto.
Qed.

Lemma sc_Inv_log : forall s n l, Inv s n -> Inv (s <| w_log := l |>) n.
Proof. intros s n l [HS HI]. split; [apply sc_St_log; exact HS|exact HI]. Qed.

Ltac sc_lia := unfold ent in *; lia.

(** *** Pools: what creation does to the slots *)
Definition sc_gens_kept (p p' : pool) : Prop :=
  forall i l g, nth_error (pe p) i = Some (l, g) -> exists l', nth_error (pe p') i = Some (l', g).
Definition sc_new_zero (p p' : pool) : Prop :=
  forall i l g, length (pe p) <= i -> nth_error (pe p') i = Some (l, g) -> g = 0%N.
Definition sc_pcreate (p p' : pool) : Prop :=
  sc_gens_kept p p' /\ sc_new_zero p p' /\ length (pe p') <= S (length (pe p)).

Lemma sc_pcreate_refl : forall p, sc_pcreate p p.
Proof.
  intros p. split; [|split].
  - intros i l g H. eauto.
  - intros i l g H1 H2. apply sa_nth_error_lt in H2. sc_lia.
  - sc_lia.
Qed.

Lemma sc_pcreate_get : forall p, sc_pcreate p (snd (pool_get p)).
Proof.
  intros p. unfold pool_get. destruct (Nat.eqb (pavail p) 0).
  - unfold sc_pcreate, sc_gens_kept, sc_new_zero. simpl. split; [|split].
    + intros i l g H. exists l. apply sa_nth_error_snoc_old. exact H.
    + intros i l g H1 H2. apply sa_nth_error_snoc in H2. destruct H2 as [[H2 _]|[_ H2]]; [sc_lia|].
      inversion H2. reflexivity.
    + rewrite app_length. simpl. sc_lia.
  - destruct (nth_error (pe p) (pnext p)) as [[nid g0]|] eqn:E; simpl; [|apply sc_pcreate_refl].
    assert (Hlt : pnext p < length (pe p)) by (eapply sa_nth_error_lt; eauto).
    unfold sc_pcreate, sc_gens_kept, sc_new_zero. simpl. split; [|split].
    + intros i l g H. destruct (Nat.eq_dec (pnext p) i) as [<-|Hne].
      * rewrite E in H. inversion H; subst. exists (pnext p). apply sa_nth_error_upd_eq. exact Hlt.
      * exists l. rewrite sa_nth_error_upd_ne by exact Hne. exact H.
    + intros i l g H1 H2. apply sa_nth_error_lt in H2. rewrite upd_length in H2. sc_lia.
    + rewrite upd_length. sc_lia.
Qed.

Lemma sc_gens_kept_len : forall p p', sc_gens_kept p p' -> length (pe p) <= length (pe p').
Proof.
  intros p p' H. destruct (Nat.le_gt_cases (length (pe p)) (length (pe p'))) as [L|L]; [exact L|].
  destruct (nth_error (pe p) (length (pe p'))) as [[l g]|] eqn:E.
  - destruct (H _ _ _ E) as (l' & E'). apply sa_nth_error_lt in E'. sc_lia.
  - apply nth_error_None in E. sc_lia.
Qed.

(** What recycling does to the slots. *)
Lemma sc_recycle_shape : forall p e p', pool_recycle p e = Some p' ->
  exists l g, nth_error (pe p) (fst e) = Some (l, g) /\
              pe p' = upd (fst e) (pnext p, ((g + 1) mod 4294967296)%N) (pe p).
Proof.
  intros p e p' H. unfold pool_recycle in H. destruct (Nat.ltb (fst e) reserved); [discriminate|].
  destruct (nth_error (pe p) (fst e)) as [[l g]|]; [|discriminate].
  inversion H; subst. simpl. eauto.
Qed.


(** *** Handles *)
Lemma sc_resolveH : forall h s,
  resolveH h s = match handle s h with Some e => Ok e s | None => Err EMisuse s end.
Proof. intros h s. unfold resolveH, bind, get. destruct (handle s h); reflexivity. Qed.

Lemma sc_alive_slot : forall s e, alive s e = true -> exists l, nth_error (pe (w_pool s)) (fst e) = Some (l, snd e).
Proof.
  intros s e H. unfold alive, pool_alive in H.
  destruct (nth_error (pe (w_pool s)) (fst e)) as [[l g]|]; [|discriminate].
  apply N.eqb_eq in H. subst. eauto.
Qed.

Lemma sc_zero_dead : forall s, WF s -> alive s zero_ent = false.
Proof.
  intros s HW. destruct (wf_reserved _ HW) as (_ & _ & P0 & _).
  unfold alive, pool_alive, zero_ent. cbn [fst snd]. rewrite P0. reflexivity.
Qed.

(** An issued handle (or the zero entity) that passes the generation check is live. *)
Lemma sc_handle_alive_live : forall s n h e, Inv s n -> handle s h = Some e -> alive s e = true -> live s e = true.
Proof.
  intros s n h e [[HW _] (I1 & _)] Hh Ha. unfold handle in Hh. destruct (Z.ltb h 0).
  - inversion Hh; subst. rewrite (sc_zero_dead s HW) in Ha. discriminate.
  - apply nth_error_In in Hh. destruct (I1 e Hh) as (_ & [L|(l & g & E & Hg)]); [exact L|].
    destruct (sc_alive_slot s e Ha) as (l' & E'). rewrite E in E'. inversion E'; subst. lia.
Qed.

Lemma sc_handle_dead : forall s n h e, Inv s n -> handle s h = Some e -> live s e = false -> alive s e = false.
Proof.
  intros s n h e HI Hh Hl. destruct (alive s e) eqn:Ha; [|reflexivity].
  rewrite (sc_handle_alive_live s n h e HI Hh Ha) in Hl. discriminate.
Qed.

(** *** What one operation may do to the world, as far as the invariant is concerned *)
Definition sc_trans (s s' : W) : Prop :=
  St s' /\ w_reg s' = w_reg s /\ w_issued s' = w_issued s /\
  ((sc_pcreate (w_pool s) (w_pool s') /\ forall x, live s x = true -> live s' x = true) \/
   (exists e, pool_recycle (w_pool s) e = Some (w_pool s') /\ live s e = true /\
              forall x, x <> e -> live s x = true -> live s' x = true)).

Lemma sc_trans_keep : forall s s', St s' -> w_reg s' = w_reg s -> w_issued s' = w_issued s ->
  w_pool s' = w_pool s -> (forall x, live s x = true -> live s' x = true) -> sc_trans s s'.
Proof.
  intros s s' H1 H2 H3 H4 H5. split; [exact H1|]. split; [exact H2|]. split; [exact H3|].
  left. split; [rewrite H4; apply sc_pcreate_refl|exact H5].
Qed.

Lemma sc_trans_rejected : forall s s', rejected s s' -> sc_trans s s'.
Proof.
  intros s s' (R1 & R2 & R3 & (F1 & _ & _ & _ & F5 & _)). apply sc_trans_keep; auto.
  intros x Hx. rewrite (proj1 (R2 x)). exact Hx.
Qed.

Lemma sc_trans_refl : forall s, St s -> sc_trans s s.
Proof. intros s H. apply sc_trans_rejected. apply sb2_rejected_refl. exact H. Qed.

Lemma sc_trans_storage : forall s s1 s2, sc_trans s s1 -> storage_same s1 s2 -> sc_trans s s2.
Proof.
  intros s s1 s2 (T1 & T2 & T3 & T4) SS.
  pose proof (sb3_storage_same_content _ _ SS) as CS.
  pose proof (storage_same_St _ _ SS T1) as HSt2.
  destruct SS as (_ & S2 & S3 & _ & _ & _ & _ & _ & _ & _ & _ & _ & _ & _ & _ & _ & _ & S18).
  split; [exact HSt2|]. split; [congruence|]. split; [congruence|]. rewrite S3.
  destruct T4 as [(P & L)|(e & P & Le & L)].
  - left. split; [exact P|]. intros x Hx. rewrite (proj1 (CS x)). auto.
  - right. exists e. split; [exact P|]. split; [exact Le|]. intros x Hne Hx. rewrite (proj1 (CS x)). auto.
Qed.

(** An operation on one entity that keeps the pool. *)
Lemma sc_trans_modified : forall s s' e, St s' -> others_same s s' e -> live s' e = true ->
  w_pool s' = w_pool s -> frame_user s s' -> sc_trans s s'.
Proof.
  intros s s' e H1 H2 H3 H4 (F1 & _ & _ & _ & F5 & _). apply sc_trans_keep; auto.
  intros x Hx. destruct (sa_ent_eqb_eq x e) as [_ Hq].
  destruct (ent_eqb x e) eqn:E.
  - apply sa_ent_eqb_eq in E. subst. exact H3.
  - assert (x <> e) by (intros ->; rewrite sa_ent_eqb_refl in E; discriminate).
    rewrite (proj1 (H2 x H)). exact Hx.
Qed.

(** The invariant across one transition. *)
Lemma sc_trans_issued : forall s s' n, Inv s n -> n + 4 < Nat.pow 2 31 -> sc_trans s s' -> issued_ok s' (S n).
Proof.
  intros s s' n [[HW HN] (I1 & I2 & I3)] Hn (T1 & T2 & T3 & T4).
  destruct T4 as [((G1 & G2 & G3) & L)|(e & P & Le & L)].
  - pose proof (sc_gens_kept_len _ _ G1) as Hlen.
    split; [|split].
    + intros x Hx. rewrite T3 in Hx. destruct (I1 x Hx) as (R & D). split; [sc_lia|].
      destruct D as [D|(l & g & E & Hg)]; [left; auto|]. right.
      destruct (G1 _ _ _ E) as (l' & E'). exists l', g. auto.
    + intros i l g E Hi. destruct (nth_error (pe (w_pool s)) i) as [[l0 g0]|] eqn:E0.
      * destruct (G1 _ _ _ E0) as (l' & E'). rewrite E in E'. inversion E'; subst.
        pose proof (I2 _ _ _ E0 Hi). lia.
      * apply nth_error_None in E0. rewrite (G2 _ _ _ E0 E). lia.
    + sc_lia.
  - destruct (live_alive s e HW Le) as (Ha & He2).
    apply live_present in Le. destruct Le as (tid & r & t & Lc & Tt & Rr & Er).
    destruct (wf_rows _ HW tid t r Tt Rr) as (_ & Pe). rewrite Er in Pe.
    destruct (sc_recycle_shape _ _ _ P) as (l0 & g0 & E0 & Epe). rewrite Pe in E0.
    assert (g0 = snd e /\ l0 = fst e) as (-> & ->) by (destruct e; inversion E0; auto).
    assert (Hge : (snd e <= N.of_nat n)%N) by (apply (I2 (fst e) (fst e) (snd e)); [destruct e; exact Pe|exact He2]).
    pose proof (sc_pow_bound n Hn) as Hb.
    assert (Hmod : ((snd e + 1) mod 4294967296 = snd e + 1)%N) by (apply N.mod_small; lia).
    rewrite Hmod in Epe.
    assert (Hlt : fst e < length (pe (w_pool s))) by (eapply sa_nth_error_lt; eauto).
    assert (Hnew : nth_error (pe (w_pool s')) (fst e) = Some (pnext (w_pool s), (snd e + 1)%N))
      by (rewrite Epe; apply sa_nth_error_upd_eq; exact Hlt).
    assert (Hoth : forall i, i <> fst e -> nth_error (pe (w_pool s')) i = nth_error (pe (w_pool s)) i)
      by (intros i Hi; rewrite Epe; apply sa_nth_error_upd_ne; congruence).
    assert (Hlen : length (pe (w_pool s')) = length (pe (w_pool s))) by (rewrite Epe; apply upd_length).
    split; [|split].
    + intros x Hx. rewrite T3 in Hx. destruct (I1 x Hx) as (R & D). split; [sc_lia|].
      destruct D as [D|(l & g & E & Hg)].
      * destruct (ent_eqb x e) eqn:Exe.
        -- apply sa_ent_eqb_eq in Exe. subst x. right. eexists _, _. split; [exact Hnew|lia].
        -- left. apply L; [|exact D]. intros ->. rewrite sa_ent_eqb_refl in Exe. discriminate.
      * right. destruct (Nat.eq_dec (fst x) (fst e)) as [Eq|Ne].
        -- rewrite Eq in E. rewrite Pe in E. destruct e as [ei eg]. inversion E; subst.
           rewrite Eq. eexists _, _. split; [exact Hnew|]. cbn [snd]. lia.
        -- exists l, g. rewrite Hoth by exact Ne. auto.
    + intros i l g E Hi. destruct (Nat.eq_dec i (fst e)) as [->|Ne].
      * rewrite Hnew in E. inversion E; subst. lia.
      * rewrite Hoth in E by exact Ne. pose proof (I2 _ _ _ E Hi). lia.
    + sc_lia.
Qed.


(** *** Computations that keep the pool / that take at most one slot from it *)
Definition sc_pk {A} (m : MW A) : Prop := forall s, w_pool (state_of (m s)) = w_pool s.
Definition sc_pc {A} (m : MW A) : Prop := forall s, sc_pcreate (w_pool s) (w_pool (state_of (m s))).

Lemma sc_pk_sp : forall A (m : MW A), sa_sp m -> sc_pk m.
Proof. intros A m H s. apply (H s). Qed.
Lemma sc_pk_ro : forall A (m : MW A), readonly m -> sc_pk m.
Proof. intros A m H s. rewrite (H s). reflexivity. Qed.
Lemma sc_pk_bind : forall A B (m : MW A) (k : A -> MW B), sc_pk m -> (forall a, sc_pk (k a)) -> sc_pk (bind m k).
Proof.
  intros A B m k Hm Hk s. unfold bind. specialize (Hm s). destruct (m s) as [a s1|er s1]; simpl in Hm.
  - rewrite (Hk a s1). exact Hm.
  - exact Hm.
Qed.
Lemma sc_pk_modify : forall f : W -> W, (forall s, w_pool (f s) = w_pool s) -> sc_pk (modify f).
Proof. intros f H s. apply H. Qed.
Lemma sc_pk_forM : forall A (l : list A) (f : A -> MW unit), (forall a, sc_pk (f a)) -> sc_pk (forM_ l f).
Proof.
  intros A l f H. induction l as [|x l IH]; cbn [forM_].
  - apply sc_pk_ro, readonly_ret.
  - apply sc_pk_bind; [apply H|intros _; exact IH].
Qed.

Lemma sc_pk_getT : forall i, sc_pk (getT i).
Proof. intros. apply sc_pk_ro, readonly_getT. Qed.
Lemma sc_pk_getA : forall i, sc_pk (getA i).
Proof. intros. apply sc_pk_ro. unfold getA. ro. Qed.
Lemma sc_pk_modT : forall i f, sc_pk (modT i f).
Proof. intros. apply sc_pk_modify. reflexivity. Qed.
Lemma sc_pk_tbl_addM : forall tid e, sc_pk (tbl_addM tid e).
Proof.
  intros. unfold tbl_addM. apply sc_pk_bind; [apply sc_pk_getT|]. intros t.
  destruct (tbl_add t e) as [idx t']. apply sc_pk_bind; [apply sc_pk_modT|]. intros _. apply sc_pk_ro, readonly_ret.
Qed.
Lemma sc_pk_set_index : forall id v, sc_pk (set_index id v).
Proof. intros. apply sc_pk_modify. intros s. destruct (Nat.eqb id (length (w_index s))); reflexivity. Qed.
Lemma sc_pk_copy_all : forall src dst row nidx, sc_pk (copy_all src dst row nidx).
Proof.
  intros. unfold copy_all. apply sc_pk_bind; [apply sc_pk_getT|]. intros st.
  apply sc_pk_forM. intros i. apply sc_pk_bind; [apply sc_pk_getT|]. intros st'.
  apply sc_pk_bind; [apply sc_pk_getT|]. intros dt.
  destruct (nth_error (t_cols st') i); [destruct (nth_error (t_kinds dt) i)|];
    try apply sc_pk_modT; apply sc_pk_ro, readonly_fail.
Qed.
Lemma sc_pk_fire_create : forall e m, sc_pk (fire_create_entity_if_has e m).
Proof. intros. apply sc_pk_sp. exact (fire_create_entity_if_has_storage e m). Qed.
Lemma sc_sp_fire_create_rel : forall e m, sa_sp (fire_create_entity_rel_if_has e m).
Proof. intros. unfold fire_create_entity_rel_if_has, fire_create_entity_rel. sa_sp_tac; apply sa_sp_fire. Qed.

Lemma sc_pc_pk : forall A (m : MW A), sc_pk m -> sc_pc m.
Proof. intros A m H s. rewrite (H s). apply sc_pcreate_refl. Qed.
Lemma sc_pc_bind_ro : forall A B (m : MW A) (k : A -> MW B), readonly m -> (forall a, sc_pc (k a)) -> sc_pc (bind m k).
Proof.
  intros A B m k Hm Hk s. unfold bind. specialize (Hm s). destruct (m s) as [a s1|er s1]; simpl in Hm; subst s1.
  - apply Hk.
  - apply sc_pcreate_refl.
Qed.
Lemma sc_pc_getM : forall A (k : ent -> MW A), (forall e, sc_pk (k e)) -> sc_pc (bind pool_getM k).
Proof.
  intros A k Hk s. unfold pool_getM, bind, get, put, ret.
  pose proof (sc_pcreate_get (w_pool s)) as H.
  destruct (pool_get (w_pool s)) as [e p']. simpl in H.
  rewrite (Hk e). exact H.
Qed.

Lemma sc_pc_create_entity : forall tid, sc_pc (create_entity tid).
Proof.
  intros tid. unfold create_entity. apply sc_pc_getM. intros e.
  apply sc_pk_bind; [apply sc_pk_tbl_addM|]. intros idx.
  apply sc_pk_bind; [apply sc_pk_set_index|]. intros _.
  apply sc_pk_bind; [apply sc_pk_modify; reflexivity|]. intros _. apply sc_pk_ro, readonly_ret.
Qed.

Lemma sc_ro_check_locked : readonly check_locked.
Proof. unfold check_locked. ro. Qed.

Lemma sc_pc_copy_entity : forall e, sc_pc (w_copy_entity e).
Proof.
  intros e. unfold w_copy_entity.
  apply sc_pc_bind_ro; [apply sc_ro_check_locked|]. intros _.
  apply sc_pc_bind_ro; [apply readonly_get|]. intros s0.
  apply sc_pc_bind_ro; [apply readonly_guard|]. intros _.
  apply sc_pc_getM. intros ne.
  apply sc_pk_bind; [apply sc_pk_ro, readonly_get_index|]. intros [tid row].
  apply sc_pk_bind; [apply sc_pk_tbl_addM|]. intros idx.
  apply sc_pk_bind; [apply sc_pk_set_index|]. intros _.
  apply sc_pk_bind; [apply sc_pk_copy_all|]. intros _.
  apply sc_pk_bind; [apply sc_pk_getT|]. intros t.
  apply sc_pk_bind; [apply sc_pk_getA|]. intros a.
  apply sc_pk_bind; [apply sc_pk_fire_create|]. intros _.
  apply sc_pk_bind; [|intros _; apply sc_pk_ro, readonly_ret].
  apply sc_pk_sp. apply sa_sp_whenM. apply sc_sp_fire_create_rel.
Qed.

Lemma sc_pc_new_entity : forall s ids, St s -> registered s ids ->
  sc_pcreate (w_pool s) (w_pool (state_of (new_entity ids [] s))).
Proof.
  intros s ids HSt Hreg. pose proof (proj1 HSt) as Hwf. unfold new_entity.
  destruct (is_locked s) eqn:El.
  { erewrite sa_bind_err by (apply sb1_check_locked_err; exact El). apply sc_pcreate_refl. }
  erewrite sa_bind_ok by (apply sb1_check_locked_ok; exact El). cbv beta.
  destruct (wf_arch0 _ Hwf) as (a0 & Ha0 & Hm0 & t0 & Ht0 & Hta0).
  assert (Hz : forall j, mk_get 0%N j = true -> j < length (w_reg s)).
  { intros j Hj. rewrite sa_mk_get_0 in Hj. discriminate. }
  pose proof (find_or_create_table_add_spec s 0 t0 ids 0%N HSt Ht0 Hz Hreg) as Hf.
  unfold bind at 1.
  destruct (find_or_create_table_add 0 ids [] 0%N s) as [[[tid aid] m] s1 | er s1].
  2:{ destruct Hf as ((_ & Hsr & _) & _). simpl. replace (w_pool s1) with (w_pool s) by (symmetry; apply Hsr).
      apply sc_pcreate_refl. }
  destruct Hf as ((_ & Hsr & _) & _).
  replace (w_pool s) with (w_pool s1) by apply Hsr.
  apply (sc_pc_getM _ (fun e => idx <- tbl_addM tid e ;; set_index (fst e) (Some tid, idx) ;;;
                                 register_targets [] ;;; a <- getA aid ;; ret (e, a_mask a))).
  intros e. apply sc_pk_bind; [apply sc_pk_tbl_addM|]. intros idx.
  apply sc_pk_bind; [apply sc_pk_set_index|]. intros _.
  apply sc_pk_bind; [apply sc_pk_ro, readonly_ret|]. intros _.
  apply sc_pk_bind; [apply sc_pk_getA|]. intros a. apply sc_pk_ro, readonly_ret.
Qed.

(** The state after a creation (possibly followed by callbacks). *)
Definition sc_created (s : W) (e : ent) (s' : W) : Prop :=
  St s' /\ w_reg s' = w_reg s /\ w_issued s' = w_issued s /\ sc_pcreate (w_pool s) (w_pool s') /\
  (forall x, live s x = true -> live s' x = true) /\
  live s e = false /\ live s' e = true /\ alive s' e = true.

Lemma sc_created_intro : forall s e s', St s' -> frame_user s s' -> sc_pcreate (w_pool s) (w_pool s') ->
  others_same s s' e -> live s e = false -> live s' e = true -> alive s' e = true -> sc_created s e s'.
Proof.
  intros s e s' H1 (F1 & _ & _ & _ & F5 & _) H3 H4 H5 H6 H7.
  split; [exact H1|]. split; [exact F1|]. split; [exact F5|]. split; [exact H3|].
  split; [|auto]. intros x Hx. assert (x <> e) by (intros ->; congruence).
  rewrite (proj1 (H4 x H)). exact Hx.
Qed.

Lemma sc_created_storage : forall s e s1 s2, sc_created s e s1 -> storage_same s1 s2 -> sc_created s e s2.
Proof.
  intros s e s1 s2 (C1 & C2 & C3 & C4 & C5 & C6 & C7 & C8) SS.
  pose proof (sb3_storage_same_content _ _ SS) as CS.
  pose proof (storage_same_St _ _ SS C1) as HSt2.
  destruct SS as (_ & S2 & S3 & _ & _ & _ & _ & _ & _ & _ & _ & _ & _ & _ & _ & _ & _ & S18).
  split; [exact HSt2|]. split; [congruence|]. split; [congruence|]. split; [rewrite S3; exact C4|].
  split; [intros x Hx; rewrite (proj1 (CS x)); auto|]. split; [exact C6|].
  split; [rewrite (proj1 (CS e)); exact C7|]. unfold alive in *. rewrite S3. exact C8.
Qed.

Lemma sc_created_trans : forall s e s', sc_created s e s' -> sc_trans s s'.
Proof.
  intros s e s' (C1 & C2 & C3 & C4 & C5 & _). split; [exact C1|]. split; [exact C2|]. split; [exact C3|].
  left. auto.
Qed.

Lemma sc_room : forall s n, Inv s n -> n + 4 < Nat.pow 2 31 -> room s.
Proof. intros s n (_ & _ & _ & I3) H. unfold room. sc_lia. Qed.


(** *** RemoveEntity recycles exactly the slot of the entity *)
Lemma sc_rm_core_pool : forall s e tid row s', w_relarchs s = [] ->
  sb3_rm_core e tid row s = Ok tt s' -> pool_recycle (w_pool s) e = Some (w_pool s').
Proof.
  intros s e tid row s' Hr. unfold sb3_rm_core.
  cbv [bind get put modify setT modT getT pool_recycleM whenM ret of_opt fail].
  destruct (nth_error (w_tables s) tid) as [t|]; [|discriminate].
  destruct (tbl_remove t row) as [sw t1]. cbn.
  destruct (pool_recycle (w_pool s) e) as [p'|]; [|discriminate]. cbn.
  destruct sw.
  - destruct (nth_error (t_ents t1) row) as [se|]; [|discriminate]. cbn.
    destruct (nth (fst e) (w_istarget s) false); cbn; rewrite ?Hr; cbn; intros H; inversion H; reflexivity.
  - cbn. destruct (nth (fst e) (w_istarget s) false); cbn; rewrite ?Hr; cbn; intros H; inversion H; reflexivity.
Qed.

Lemma sc_rm_pool : forall s e u s', St s -> storage_remove_entity e s = Ok u s' ->
  pool_recycle (w_pool s) e = Some (w_pool s').
Proof.
  intros s e u s' HSt. rewrite sb3_rm_unfold.
  destruct (alive s e); [|discriminate].
  destruct (nth_error (w_index s) (fst e)) as [[[tid|] row]|]; try discriminate.
  destruct (nth_error (w_tables s) tid) as [t|]; [|discriminate].
  destruct (nth_error (w_archs s) (t_arch t)) as [a|]; [|discriminate].
  match goal with |- bind ?m ?k s = _ -> _ =>
    destruct (sb3_bind_pres_case _ _ m k s (sb3_pres_events _ _ _ _)) as [(x & s1 & SS & E)|(er & s1 & SS & E)];
      rewrite E; clear E
  end; [|discriminate].
  intros H. destruct u.
  assert (Hr : w_relarchs s1 = []).
  { destruct HSt as (_ & _ & _ & _ & N4). destruct SS as (_ & _ & _ & _ & _ & _ & _ & S8 & _). congruence. }
  rewrite <- (proj1 (proj2 (proj2 SS))). eapply sc_rm_core_pool; eauto.
Qed.


(** *** Per-operation descriptions *)
Definition sc_post (ret_e : bool) (s : W) (r : res W (list Z)) : Prop :=
  sc_trans s (state_of r) /\
  (ret_e = true -> forall res s', r = Ok res s' -> exists e, res = Zent e /\ sc_created s e s').

Lemma sc_post_err : forall b s er s', sc_trans s s' -> sc_post b s (Err er s').
Proof. intros b s er s' H. split; [exact H|]. intros _ res s0 E. discriminate. Qed.
Lemma sc_post_false : forall s r, sc_trans s (state_of r) -> sc_post false s r.
Proof. intros s r H. split; [exact H|]. intros E. discriminate. Qed.
Lemma sc_post_tail_sp : forall s s1 (m : MW (list Z)), sc_trans s s1 -> sa_sp m -> sc_post false s (m s1).
Proof. intros s s1 m H Hm. apply sc_post_false. eapply sc_trans_storage; [exact H|apply Hm]. Qed.
Lemma sc_post_created_tail : forall s e s1 (m : MW unit), sc_created s e s1 -> sa_sp m ->
  sc_post true s ((m ;;; ret (Zent e)) s1).
Proof.
  intros s e s1 m Hc Hm. specialize (Hm s1). unfold bind. destruct (m s1) as [u s2|er s2]; simpl in Hm.
  - pose proof (sc_created_storage _ _ _ _ Hc Hm) as Hc2. split; [eapply sc_created_trans; eauto|].
    intros _ res s' H. inversion H; subst. exists e. split; [reflexivity|exact Hc2].
  - apply sc_post_err. eapply sc_created_trans, sc_created_storage; eauto.
Qed.
Lemma sc_post_ro : forall s (m : MW (list Z)), St s -> readonly m -> sc_post false s (m s).
Proof. intros s m H Hm. apply sc_post_false. rewrite (Hm s). apply sc_trans_refl. exact H. Qed.

Lemma sc_ro_cases : forall A (m : MW A), readonly m -> forall s, (exists a, m s = Ok a s) \/ (exists er, m s = Err er s).
Proof. intros A m H s. specialize (H s). destruct (m s) as [a s1|er s1]; simpl in H; subst; eauto. Qed.

Lemma sc_ro_getA : forall i, readonly (getA i).
Proof. intros. unfold getA. ro. Qed.
Lemma sc_ro_arch_mask : forall tid, readonly (arch_mask_of_table tid).
Proof.
  intros. unfold arch_mask_of_table. apply readonly_bind; [apply readonly_getT|]. intros t.
  apply readonly_bind; [apply sc_ro_getA|]. intros a. apply readonly_ret.
Qed.
Lemma sc_ro_cell_of : forall debug e c, readonly (cell_of debug e c).
Proof.
  intros. unfold cell_of. apply readonly_bind; [apply readonly_get|]. intros s0.
  apply readonly_bind; [apply readonly_guard|]. intros _.
  apply readonly_bind; [apply readonly_get_index|]. intros [tid row].
  apply readonly_bind; [apply readonly_getT|]. intros t.
  destruct (tbl_colidx t c); [apply readonly_ret|apply readonly_fail].
Qed.

Lemma sc_sp_forM : forall A (l : list A) (f : A -> MW unit), (forall a, sa_sp (f a)) -> sa_sp (forM_ l f).
Proof.
  intros A l f H. induction l as [|x l IH]; cbn [forM_]; [apply sa_sp_ret|].
  apply sa_sp_bind; [apply H|intros _; exact IH].
Qed.
Ltac sc_sp_tac := repeat (sa_sp_step || (apply sc_sp_forM; intros ?)).

Lemma sc_sp_add_observer : forall oi, sa_sp (add_observer oi).
Proof.
  intros oi. unfold add_observer. apply sa_sp_bind; [apply sa_sp_getO|]. intros o.
  apply sa_sp_bind; [apply sa_sp_guard|]. intros _.
  intros s. rewrite sb2_bind_get.
  destruct (ipool_get None (w_opool s)) as [[id p']|]; [|apply sa_storage_same_refl].
  unfold bind at 1. unfold put at 1. cbv beta iota.
  match goal with |- storage_same _ (state_of (?m ?s1)) =>
    apply (sa_storage_same_trans s s1); [unfold storage_same; repeat split|];
    assert (Hk : sa_sp m); [|apply Hk]
  end.
  sc_sp_tac.
Qed.

Section sc_ops.
Variables (debug : bool) (s : W) (n : nat).
Hypothesis HI : Inv s n.
Hypothesis Hn : n + 4 < Nat.pow 2 31.
Let HSt : St s := proj1 HI.
Let Hroom : room s := sc_room s n HI Hn.

Lemma sc_op_ONewEntity : sc_post true s (step_op debug ONewEntity s).
Proof.
  cbn [step_op]. destruct (is_locked s) eqn:El.
  { erewrite sa_bind_err by (apply sb1_check_locked_err; exact El). apply sc_post_err, sc_trans_refl, HSt. }
  erewrite sa_bind_ok by (apply sb1_check_locked_ok; exact El).
  destruct (create_entity_spec s HSt Hroom) as (e & s1 & E & C1 & C2 & C3 & C4 & C5 & C6 & C7 & C8 & C9).
  pose proof (sc_pc_create_entity 0 s) as Hp. rewrite E in Hp. simpl in Hp.
  assert (Hc : sc_created s e s1) by (apply sc_created_intro; auto).
  erewrite sa_bind_ok by exact E.
  destruct (sc_ro_cases _ (arch_mask_of_table 0) (sc_ro_arch_mask 0) s1) as [(m & Em)|(er & Em)].
  2:{ erewrite sa_bind_err by exact Em. apply sc_post_err. eapply sc_created_trans; exact Hc. }
  erewrite sa_bind_ok by exact Em.
  apply sc_post_created_tail; [exact Hc|exact (fire_create_entity_if_has_storage e m)].
Qed.

Lemma sc_op_OUNew : forall ids, registered s ids -> sc_post true s (step_op debug (OUNew ids) s).
Proof.
  intros ids Hreg. cbn [step_op].
  pose proof (new_entity_spec s ids HSt Hroom Hreg) as Hs. pose proof (sc_pc_new_entity s ids HSt Hreg) as Hp.
  unfold bind at 1. destruct (new_entity ids [] s) as [[e m] s1|er s1]; simpl in Hp.
  - destruct Hs as (C1 & C2 & C3 & C4 & C5 & C6 & C7 & C8 & C9 & C10 & C11 & C12). cbv beta iota.
    apply sc_post_created_tail; [apply sc_created_intro; auto|exact (fire_create_entity_if_has_storage e m)].
  - apply sc_post_err, sc_trans_rejected, Hs.
Qed.

Lemma sc_op_OCopy : forall h, sc_post true s (step_op debug (OCopy h) s).
Proof.
  intros h. cbn [step_op]. unfold bind at 1. rewrite sc_resolveH.
  destruct (handle s h) as [e|] eqn:Hh; [|apply sc_post_err, sc_trans_refl, HSt].
  pose proof (copy_entity_spec_partial_obs s e HSt Hroom (sc_handle_alive_live s n h e HI Hh)) as Hs.
  pose proof (sc_pc_copy_entity e s) as Hp.
  unfold bind. destruct (w_copy_entity e s) as [ne s1|er s1]; simpl in Hp.
  - destruct Hs as (C1 & C2 & C3 & C4 & C5 & C6 & C7 & C8 & C9 & C10 & C11).
    assert (Hc : sc_created s ne s1) by (apply sc_created_intro; auto).
    split; [exact (sc_created_trans _ _ _ Hc)|].
    intros _ res s' H. inversion H; subst. exists ne. split; [reflexivity|exact Hc].
  - apply sc_post_err. destruct Hs as [R|(_ & ne & (C1 & C2 & C3 & C4 & C5 & C6 & C7 & C8 & C9 & C10 & C11))].
    + apply sc_trans_rejected; exact R.
    + apply (sc_created_trans s ne). apply sc_created_intro; auto.
Qed.

(** The common prefix [resolveH h ;; get ;; guard alive]. *)
Lemma sc_guarded : forall h (k : ent -> MW (list Z)),
  (forall e, handle s h = Some e -> alive s e = true -> sc_post false s (k e s)) ->
  sc_post false s ((e <- resolveH h ;; s0 <- get ;; guard (alive s0 e) EDead ;;; k e) s).
Proof.
  intros h k H. unfold bind at 1. rewrite sc_resolveH.
  destruct (handle s h) as [e|] eqn:Hh; [|apply sc_post_err, sc_trans_refl, HSt].
  rewrite sb2_bind_get. cbv beta. destruct (alive s e) eqn:Ha.
  - rewrite sb2_bind_guard_true. apply H; auto.
  - rewrite sb2_bind_guard_false. apply sc_post_err, sc_trans_refl, HSt.
Qed.

Lemma sc_op_OUAdd : forall h ids, registered s ids -> sc_post false s (step_op debug (OUAdd h ids) s).
Proof.
  intros h ids Hreg. cbn [step_op].
  apply (sc_guarded h (fun e => r <- w_add e ids [] ;; fire_add_if_has EvAddComponents e (fst r) (snd r) ;;; ret [])).
  intros e Hh Ha. pose proof (w_add_spec s e ids HSt Hroom Hreg) as Hs.
  unfold bind at 1. destruct (w_add e ids [] s) as [[om nm] s1|er s1].
  - destruct Hs as (A1 & _ & _ & _ & _ & _ & A7 & _ & _ & _ & A11 & A12 & _ & A14).
    apply sc_post_tail_sp; [eapply sc_trans_modified; eauto|].
    apply sa_sp_bind; [exact (fire_add_if_has_storage _ _ _ _)|intros; apply sa_sp_ret].
  - apply sc_post_err, sc_trans_rejected, Hs.
Qed.

Lemma sc_op_OURemove : forall h ids, registered s ids -> sc_post false s (step_op debug (OURemove h ids) s).
Proof.
  intros h ids Hreg. cbn [step_op].
  apply (sc_guarded h (fun e => w_remove e ids ;;; ret [])).
  intros e Hh Ha. pose proof (w_remove_spec s e ids HSt Hroom Hreg) as Hs.
  unfold bind at 1. destruct (w_remove e ids s) as [u s1|er s1].
  - destruct Hs as (A1 & _ & _ & _ & _ & _ & A7 & _ & A9 & A10 & A11).
    apply sc_post_tail_sp; [eapply sc_trans_modified; eauto|apply sa_sp_ret].
  - apply sc_post_err, sc_trans_rejected, Hs.
Qed.

Lemma sc_op_OUExchange : forall h add rem, registered s add -> registered s rem ->
  sc_post false s (step_op debug (OUExchange h add rem []) s).
Proof.
  intros h add rem Hra Hrr. cbn [step_op].
  apply (sc_guarded h (fun e => rels <- resolveR [] ;; r <- w_exchange e add rem rels ;;
      whenM (negb (is_nil add)) (
        fire_add_if_has EvAddComponents e (fst r) (snd r) ;;;
        whenM (negb (is_nil rels)) (fire_add_if_has EvAddRelations e (fst r) (snd r))) ;;;
      ret [])).
  intros e Hh Ha. unfold resolveR. cbn [mapM]. rewrite sb2_bind_ret. cbv beta.
  pose proof (w_exchange_spec s e add rem HSt Hroom Hra Hrr) as Hs.
  unfold bind at 1.
  match goal with |- sc_post _ _ (match ?x with Ok _ _ => _ | Err _ _ => _ end) =>
    change x with (w_exchange e add rem [] s) end.
  destruct (w_exchange e add rem [] s) as [[om nm] s1|er s1].
  - destruct Hs as (A1 & _ & _ & _ & _ & _ & _ & A8 & _ & A10 & A11 & A12).
    apply sc_post_tail_sp; [eapply sc_trans_modified; eauto|].
    apply sa_sp_bind; [|intros; apply sa_sp_ret]. apply sa_sp_whenM.
    apply sa_sp_bind; [exact (fire_add_if_has_storage _ _ _ _)|intros].
    apply sa_sp_whenM. exact (fire_add_if_has_storage _ _ _ _).
  - apply sc_post_err, sc_trans_rejected, Hs.
Qed.

Lemma sc_op_OWrite : forall h c v, sc_post false s (step_op debug (OWrite h c v) s).
Proof.
  intros h c v. cbn [step_op]. unfold bind at 1. rewrite sc_resolveH.
  destruct (handle s h) as [e|] eqn:Hh; [|apply sc_post_err, sc_trans_refl, HSt].
  pose proof (write_spec s debug e c v HSt) as Hs.
  unfold bind at 1 in Hs. unfold bind at 1.
  destruct (cell_of debug e c s) as [[[tid ci] row] s1|er s1].
  - cbv beta iota in Hs |- *. unfold bind. destruct (write_cell tid ci row v s1) as [u s2|er s2].
    + destruct Hs as (A1 & _ & _ & A4 & _ & A6 & A7 & _ & A9).
      apply sc_post_false. simpl. eapply sc_trans_modified; eauto.
    + subst s2. apply sc_post_err, sc_trans_refl, HSt.
  - subst s1. apply sc_post_err, sc_trans_refl, HSt.
Qed.

Lemma sc_op_ORemoveEntity : forall h, sc_post false s (step_op debug (ORemoveEntity h) s).
Proof.
  intros h. cbn [step_op]. unfold bind at 1. rewrite sc_resolveH.
  destruct (handle s h) as [e|] eqn:Hh; [|apply sc_post_err, sc_trans_refl, HSt].
  destruct (is_locked s) eqn:El.
  { erewrite sa_bind_err by (apply sb1_check_locked_err; exact El). apply sc_post_err, sc_trans_refl, HSt. }
  erewrite sa_bind_ok by (apply sb1_check_locked_ok; exact El).
  pose proof (remove_entity_spec s e HSt) as Hs.
  unfold bind at 1. destruct (storage_remove_entity e s) as [u s1|er s1] eqn:E.
  - destruct Hs as (R1 & R2 & R3 & R4 & R5 & R6 & (F1 & _ & _ & _ & F5 & _) & R8).
    apply sc_post_false. simpl.
    split; [exact R1|]. split; [exact F1|]. split; [exact F5|]. right. exists e.
    split; [eapply sc_rm_pool; eauto|]. split; [exact R2|].
    intros x Hne Hx. rewrite (proj1 (R6 x Hne)). exact Hx.
  - apply sc_post_err, sc_trans_rejected, Hs.
Qed.

Lemma sc_op_OGetRel : forall h c, sc_post false s (step_op debug (OGetRel h c) s).
Proof.
  intros. apply sc_post_ro; [exact HSt|]. cbn [step_op].
  apply readonly_bind; [apply readonly_resolveH|]. intros e.
  apply readonly_bind; [apply sc_ro_cell_of|]. intros [[tid ci] row].
  apply readonly_bind; [apply readonly_getT|]. intros t. ro.
Qed.

Lemma sc_op_OGet : forall h c, sc_post false s (step_op debug (OGet h c) s).
Proof.
  intros. apply sc_post_ro; [exact HSt|]. cbn [step_op].
  apply readonly_bind; [apply readonly_resolveH|]. intros e.
  apply readonly_bind; [apply sc_ro_cell_of|]. intros [[tid ci] row].
  apply readonly_bind; [apply readonly_getT|]. intros t. ro.
Qed.

Lemma sc_op_reading : forall o, reading o = true -> sc_post false s (step_op debug o s).
Proof.
  intros o Hr. apply sc_post_false. rewrite (reads_do_not_change_state debug o s Hr). apply sc_trans_refl, HSt.
Qed.

Lemma sc_op_OObsNew : forall evt f w wo ex cb, sc_post false s (step_op debug (OObsNew evt f w wo ex cb) s).
Proof.
  intros. cbn [step_op]. rewrite sb2_bind_get. cbv beta.
  apply sc_post_false. unfold bind, modify, ret. simpl.
  eapply sc_trans_storage; [apply sc_trans_refl, HSt|]. unfold storage_same. repeat split.
Qed.

Lemma sc_op_OObsRegister : forall oi, sc_post false s (step_op debug (OObsRegister oi) s).
Proof.
  intros. cbn [step_op]. apply sc_post_tail_sp; [apply sc_trans_refl, HSt|].
  apply sa_sp_bind; [apply sc_sp_add_observer|intros; apply sa_sp_ret].
Qed.

Lemma sc_op_OObsUnregister : forall oi, sc_post false s (step_op debug (OObsUnregister oi) s).
Proof.
  intros. cbn [step_op]. apply sc_post_tail_sp; [apply sc_trans_refl, HSt|].
  apply sa_sp_bind; [apply sa_sp_remove_observer|intros; apply sa_sp_ret].
Qed.

Lemma sc_op_spec : forall o, core_op o = true -> registered s (op_ids o) ->
  sc_post (returns_entity o) s (step_op debug o s).
Proof.
  intros o Hc Hreg. destruct o; try discriminate Hc; cbn [returns_entity op_ids] in *.
  - apply sc_op_ONewEntity.
  - apply sc_op_OUNew; exact Hreg.
  - apply sc_op_OCopy.
  - apply sc_op_OUAdd; exact Hreg.
  - apply sc_op_OURemove; exact Hreg.
  - destruct rels; [|discriminate Hc]. apply sc_op_OUExchange; intros c Hin; apply Hreg, in_or_app; auto.
  - apply sc_op_OWrite.
  - apply sc_op_ORemoveEntity.
  - apply sc_op_OObsNew.
  - apply sc_op_OObsRegister.
  - apply sc_op_OObsUnregister.
  - apply sc_op_reading; reflexivity.
  - apply sc_op_reading; reflexivity.
  - apply sc_op_OGetRel.
  - apply sc_op_reading; reflexivity.
  - apply sc_op_OGet.
  - apply sc_op_reading; reflexivity.
Qed.
End sc_ops.


(** *** The post-processing of [step] *)
Definition sc_issue (o : op) (r : res W (list Z)) : W :=
  match r with
  | Ok (i :: g :: _) _ =>
      if returns_entity o then state_of r <| w_issued ::= fun l => l ++ [(Z.to_nat i, Z.to_N g)] |> else state_of r
  | _ => state_of r
  end.

Lemma sc_step_state : forall debug wd s line o, decode_op line = Some o -> core_op o = true ->
  fst (step debug wd s line) = sc_issue o (step_op debug o (s <| w_log := [] |>)) <| w_log := [] |>.
Proof.
  intros debug wd s line o Hd Hc. unfold step. rewrite Hd. cbv zeta.
  assert (Hi : issues_from_log o = false) by (destruct o; try discriminate Hc; reflexivity).
  rewrite Hi. cbn [andb fst]. reflexivity.
Qed.

Lemma sc_issue_cases : forall o s r, sc_post (returns_entity o) s r ->
  (sc_issue o r = state_of r) \/
  (exists e s1, r = Ok (Zent e) s1 /\ sc_issue o r = s1 <| w_issued ::= fun l => l ++ [e] |> /\ sc_created s e s1).
Proof.
  intros o s r (T & C). destruct (returns_entity o) eqn:R.
  - destruct r as [res s1|er s1]; [|left; reflexivity].
    destruct (C eq_refl _ _ eq_refl) as (e & -> & Hc). right. exists e, s1.
    split; [reflexivity|]. split; [|exact Hc].
    unfold sc_issue, Zent, Zn. rewrite R. cbn [state_of]. rewrite Nat2Z.id, N2Z.id. destruct e; reflexivity.
  - left. unfold sc_issue. rewrite R. destruct r as [[|i [|g rest]]|]; reflexivity.
Qed.

Lemma sc_finish_plain : forall s1 m, St s1 -> issued_ok s1 m -> Inv (s1 <| w_log := [] |>) m.
Proof. intros s1 m H1 H2. apply sc_Inv_log. split; assumption. Qed.

Lemma sc_finish_issue : forall s1 m e, St s1 -> issued_ok s1 m -> live s1 e = true -> alive s1 e = true ->
  Inv (s1 <| w_issued ::= fun l => l ++ [e] |> <| w_log := [] |>) m.
Proof.
  intros s1 m e H1 (I1 & I2 & I3) Hl Ha. apply sc_Inv_log. split; [apply sc_St_issued; exact H1|].
  split; [|split; [exact I2|exact I3]].
  intros x Hx. change (In x (w_issued s1 ++ [e])) in Hx. apply in_app_or in Hx. destruct Hx as [Hx|[<-|[]]].
  - exact (I1 x Hx).
  - destruct (live_alive s1 e (proj1 H1) Hl) as (_ & H2). destruct (sc_alive_slot s1 e Ha) as (l & E).
    apply sa_nth_error_lt in E. split; [split; [exact H2|exact E]|]. left. exact Hl.
Qed.

(** One step of the operation language preserves the invariant. *)
Theorem step_inv : forall debug wd s n line o,
  Inv s n -> n + 4 < Nat.pow 2 31 -> decode_op line = Some o -> core_op o = true ->
  (forall c, In c (op_ids o) -> c < length (w_reg s)) ->
  Inv (fst (step debug wd s line)) (S n) /\ w_reg (fst (step debug wd s line)) = w_reg s.
Proof.
  intros debug wd s n line o HI Hn Hd Hc Hreg.
  rewrite (sc_step_state debug wd s line o Hd Hc).
  pose proof (sc_Inv_log s n [] HI) as HI0.
  set (s0 := s <| w_log := [] |>) in *.
  pose proof (sc_op_spec debug s0 n HI0 Hn o Hc Hreg) as HP.
  pose proof HP as (T & _).
  pose proof (sc_trans_issued s0 _ n HI0 Hn T) as HIs.
  destruct (sc_issue_cases o s0 _ HP) as [E|(e & s1 & Er & E & Hcr)]; rewrite E.
  - split; [apply sc_finish_plain; [apply T|exact HIs]|]. exact (proj1 (proj2 T)).
  - rewrite Er in *. cbn [state_of] in *. destruct Hcr as (C1 & C2 & C3 & C4 & C5 & C6 & C7 & C8).
    split; [apply sc_finish_issue; assumption|]. exact C2.
Qed.

(** Every reachable state of every core history satisfies the invariant. *)
Definition core_line (nreg : nat) (line : list Z) : Prop :=
  exists o, decode_op line = Some o /\ core_op o = true /\ forall c, In c (op_ids o) -> c < nreg.

Definition cfg_ok (c : script_cfg) : Prop :=
  1 <= sc_cap c /\ 1 <= sc_caprel c /\ length (sc_kinds c) <= sc_bits c /\
  Forall (fun k => ck_rel k = false) (sc_kinds c).

Definition run_core (c : script_cfg) (lines : list (list Z)) : W :=
  fold_left (fun s l => fst (step (sc_debug c) false s l)) lines (init_world c).


Lemma sc_init_inv : forall c, cfg_ok c -> Inv (init_world c) 0.
Proof.
  intros c (C1 & C2 & C3 & C4). split; [apply St_init; assumption|].
  unfold issued_ok, init_world. cbn [w_issued w_pool pool_new pe]. split; [|split].
  - intros e [].
  - intros [|[|i]] l g E Hi; try lia. destruct i; discriminate.
  - simpl. lia.
Qed.

Lemma sc_run_inv : forall c, cfg_ok c -> forall lines,
  Forall (core_line (length (sc_kinds c))) lines -> length lines + 4 < Nat.pow 2 31 ->
  Inv (run_core c lines) (length lines) /\ w_reg (run_core c lines) = sc_kinds c.
Proof.
  intros c Hc lines. induction lines as [|l lines IH] using rev_ind; intros HF Hb.
  - split; [apply sc_init_inv; exact Hc|reflexivity].
  - apply Forall_app in HF. destruct HF as (HF & Hl). inversion Hl as [|? ? (o & Hd & Hco & Hids) _]; subst.
    rewrite app_length in *. cbn [length] in *. rewrite Nat.add_1_r in *.
    destruct IH as (IH1 & IH2); [exact HF|lia|].
    unfold run_core in *. rewrite fold_left_app. cbn [fold_left].
    destruct (step_inv (sc_debug c) false _ (length lines) l o IH1) as (S1 & S2); auto; try lia.
    { rewrite IH2. exact Hids. }
    split; [exact S1|congruence].
Qed.

Theorem reachable_inv : forall c lines,
  cfg_ok c -> Forall (core_line (length (sc_kinds c))) lines -> length lines + 4 < Nat.pow 2 31 ->
  Inv (run_core c lines) (length lines).
Proof.
  intros c lines Hc Hl Hb. apply (sc_run_inv c Hc lines Hl Hb).
Qed.

(** C10 at the level of the operation language: in a reachable state, using a handle that was issued
    and has been removed since (whether or not its ID was recycled), or the zero entity, in any
    checked single-entity operation fails and leaves the entire state unchanged. *)
Definition uses_handle (o : op) (h : Z) : Prop :=
  match o with
  | OCopy h' | OUAdd h' _ | OURemove h' _ | OUExchange h' _ _ _ | OWrite h' _ _ | ORemoveEntity h'
  | OHas h' _ | OGetRel h' _ | OIDs h' | OGet h' _ | OUSetRel h' _ | OUAddRel h' _ _ | OMapSet h' _ _ => h' = h
  | _ => False
  end.

Theorem stale_handle_rejected : forall debug s n o h e,
  Inv s n -> uses_handle o h -> handle s h = Some e -> live s e = false ->
  exists er, step_op debug o s = Err er s.
Proof.
  intros debug s n o h e HI Hu Hh Hl.
  pose proof (sc_handle_dead s n h e HI Hh Hl) as Ha.
  destruct (dead_rejected s e Ha) as (D1 & D2 & D3 & D4 & D5 & D6 & D7).
  assert (G : forall (k : unit -> MW (list Z)), exists er,
            (s0 <- get ;; guard (alive s0 e) EDead ;;; k tt) s = Err er s).
  { intros k. exists EDead. apply (sb1_guard_alive_err _ s e k Ha). }
  assert (R : forall (k : ent -> MW (list Z)), bind (resolveH h) k s = k e s).
  { intros k. unfold bind. rewrite sc_resolveH, Hh. reflexivity. }
  destruct o; cbn [uses_handle] in Hu; try contradiction; subst; cbn [step_op]; rewrite R.
  - (* OCopy *) destruct D5 as (er & E). exists er. apply sa_bind_err. exact E.
  - (* OUAdd *) apply (G (fun _ => _)).
  - (* OUAddRel *) apply (G (fun _ => _)).
  - (* OURemove *) apply (G (fun _ => _)).
  - (* OUExchange *) apply (G (fun _ => _)).
  - (* OWrite *) destruct (D7 debug c) as (er & E). exists er. apply sa_bind_err. exact E.
  - (* OUSetRel *)
    destruct (sc_ro_cases _ (resolveR rels) (readonly_resolveR rels) s) as [(rl & E)|(er & E)].
    + erewrite sa_bind_ok by exact E. destruct (D6 rl) as (er & E'). exists er. apply sa_bind_err. exact E'.
    + exists er. apply sa_bind_err. exact E.
  - (* ORemoveEntity *)
    destruct (is_locked s) eqn:El.
    + exists ELocked. apply sa_bind_err. apply sb1_check_locked_err. exact El.
    + erewrite sa_bind_ok by (apply sb1_check_locked_ok; exact El). destruct D4 as (er & E). exists er.
      apply sa_bind_err. exact E.
  - (* OMapSet *) destruct (D7 debug c) as (er & E). exists er. apply sa_bind_err. exact E.
  - (* OHas *) apply (G (fun _ => _)).
  - (* OGetRel *) destruct (D7 debug c) as (er & E). exists er. apply sa_bind_err. exact E.
  - (* OIDs *) apply (G (fun _ => _)).
  - (* OGet *) destruct (D7 debug c) as (er & E). exists er. apply sa_bind_err. exact E.
Qed.

(** C02 at world level: a handle issued by a step is alive afterwards and differs from every handle
    issued before (whether still alive or removed, whether or not its ID is being reused). *)
Theorem creation_fresh : forall debug wd s n line o e,
  Inv s n -> n + 4 < Nat.pow 2 31 -> decode_op line = Some o -> core_op o = true ->
  (forall c, In c (op_ids o) -> c < length (w_reg s)) ->
  w_issued (fst (step debug wd s line)) = w_issued s ++ [e] ->
  ~ In e (w_issued s) /\ live (fst (step debug wd s line)) e = true /\ alive (fst (step debug wd s line)) e = true.
Proof.
  intros debug wd s n line o e HI Hn Hd Hc Hreg.
  rewrite (sc_step_state debug wd s line o Hd Hc).
  pose proof (sc_Inv_log s n [] HI) as HI0.
  set (s0 := s <| w_log := [] |>) in *.
  pose proof (sc_op_spec debug s0 n HI0 Hn o Hc Hreg) as HP.
  pose proof HP as (T & _).
  destruct (sc_issue_cases o s0 _ HP) as [E|(e' & s1 & Er & E & Hcr)]; rewrite E.
  - intros Hiss. exfalso. change (w_issued (state_of (step_op debug o s0)) = w_issued s ++ [e]) in Hiss.
    rewrite (proj1 (proj2 (proj2 T))) in Hiss. change (w_issued s0) with (w_issued s) in Hiss.
    apply (f_equal (@length ent)) in Hiss. rewrite app_length in Hiss. simpl in Hiss. lia.
  - intros Hiss. change (w_issued s1 ++ [e'] = w_issued s ++ [e]) in Hiss.
    destruct Hcr as (C1 & C2 & C3 & (G1 & _) & C5 & C6 & C7 & C8).
    rewrite C3 in Hiss. change (w_issued s0) with (w_issued s) in Hiss.
    apply app_inj_tail in Hiss. destruct Hiss as (_ & <-).
    split; [|split; [exact C7|exact C8]].
    intros Hin. destruct HI as (_ & (I1 & _)). destruct (I1 e' Hin) as (_ & [L|(l & g & Es & Hg)]).
    + change (live s0 e') with (live s e') in C6. congruence.
    + change (w_pool s0) with (w_pool s) in G1. destruct (G1 _ _ _ Es) as (l' & E1).
      destruct (sc_alive_slot s1 e' C8) as (l2 & E2). rewrite E1 in E2. inversion E2; subst. lia.
Qed.

(** ** Assumption audit *)
