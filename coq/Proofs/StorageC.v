(** * StorageC: the storage invariant holds in every state reachable by any history of the core
    operations (relation-free worlds), and stale handles are rejected at the level of the operation
    language. Layer C of the storage proofs. To be filled. *)
From Ark Require Import Model.Base Model.Mask Model.Pool Model.Util Model.World Model.Run.
From Ark Require Import Proofs.TableProofs Proofs.MaskProofs Proofs.Hoare Proofs.WF Proofs.StorageA Proofs.StorageBDefs.
From Ark Require Import Proofs.StorageB_sb1 Proofs.StorageB_sb2 Proofs.StorageB_sb3.
From RecordUpdate Require Import RecordSet.
Import RecordSetNotations.
From Coq Require Import Lia.

(** The operations covered: creation, copy, add / remove / exchange without relation targets,
    writes, entity removal, all read probes, and observer management (callbacks run inside the
    structural operations and may unregister observers). *)
Definition core_op (o : op) : bool :=
  match o with
  | ONewEntity | OUNew _ | OCopy _ | OUAdd _ _ | OURemove _ _ | OWrite _ _ _ | ORemoveEntity _
  | OAlive _ | OHas _ _ | OGetRel _ _ | OIDs _ | OGet _ _ | OStats
  | OObsNew _ _ _ _ _ _ | OObsRegister _ | OObsUnregister _ => true
  | OUExchange _ _ _ rels => match rels with [] => true | _ => false end
  | _ => false
  end.

(** Component IDs mentioned by an operation are registered (the Go API only hands out registered IDs). *)
Definition op_ids (o : op) : list nat :=
  match o with
  | OUNew ids | OUAdd _ ids | OURemove _ ids => ids
  | OUExchange _ add rem _ => add ++ rem
  | OWrite _ c _ | OHas _ c | OGetRel _ c | OGet _ c => [c]
  | OObsNew _ f w wo _ _ => f ++ w ++ wo
  | _ => []
  end.

(** Handles issued so far that are alive are the current incarnation of a stored entity; dead ones
    carry a generation strictly below their slot's (so they can never become alive again); slot
    generations are bounded by the number of steps (no uint32 wrap-around in the covered histories). *)
Definition issued_ok (s : W) (n : nat) : Prop :=
  (forall e, In e (w_issued s) ->
     2 <= fst e < length (pe (w_pool s)) /\
     (live s e = true \/ exists l g, nth_error (pe (w_pool s)) (fst e) = Some (l, g) /\ (snd e < g)%N)) /\
  (forall i l g, nth_error (pe (w_pool s)) i = Some (l, g) -> 2 <= i -> (g <= N.of_nat n)%N) /\
  length (pe (w_pool s)) <= 2 + n.

Definition Inv (s : W) (n : nat) : Prop := St s /\ issued_ok s n.

(** One step of the operation language preserves the invariant. *)
Theorem step_inv : forall debug wd s n line o,
  Inv s n -> n + 4 < Nat.pow 2 31 -> decode_op line = Some o -> core_op o = true ->
  (forall c, In c (op_ids o) -> c < length (w_reg s)) ->
  Inv (fst (step debug wd s line)) (S n) /\ w_reg (fst (step debug wd s line)) = w_reg s.
Admitted.

(** Every reachable state of every core history satisfies the invariant. *)
Definition core_line (nreg : nat) (line : list Z) : Prop :=
  exists o, decode_op line = Some o /\ core_op o = true /\ forall c, In c (op_ids o) -> c < nreg.

Definition cfg_ok (c : script_cfg) : Prop :=
  1 <= sc_cap c /\ 1 <= sc_caprel c /\ length (sc_kinds c) <= sc_bits c /\
  Forall (fun k => ck_rel k = false) (sc_kinds c).

Definition run_core (c : script_cfg) (lines : list (list Z)) : W :=
  fold_left (fun s l => fst (step (sc_debug c) false s l)) lines (init_world c).

Theorem reachable_inv : forall c lines,
  cfg_ok c -> Forall (core_line (length (sc_kinds c))) lines -> length lines + 4 < Nat.pow 2 31 ->
  Inv (run_core c lines) (length lines).
Admitted.

(** C10 at the level of the operation language: in a reachable state, using a handle that was issued
    and has been removed since (whether or not its ID was recycled), or the zero entity, in any
    checked single-entity operation fails and leaves the entire state unchanged. *)
Definition uses_handle (o : op) (h : Z) : Prop :=
  match o with
  | OCopy h' | OUAdd h' _ | OURemove h' _ | OUExchange h' _ _ _ | OWrite h' _ _ | ORemoveEntity h'
  | OHas h' _ | OGetRel h' _ | OIDs h' | OGet h' _ | OUSetRel h' _ | OUAddRel h' _ _ | OMapSet h' _ _ => h' = h
  | _ => False
  end.

Theorem stale_handle_rejected : forall debug s n o h e,
  Inv s n -> uses_handle o h -> handle s h = Some e -> live s e = false ->
  exists er, step_op debug o s = Err er s.
Admitted.

(** C02 at world level: a handle issued by a step is alive afterwards and differs from every handle
    issued before (whether still alive or removed, whether or not its ID is being reused). *)
Theorem creation_fresh : forall debug wd s n line o e,
  Inv s n -> n + 4 < Nat.pow 2 31 -> decode_op line = Some o -> core_op o = true ->
  (forall c, In c (op_ids o) -> c < length (w_reg s)) ->
  w_issued (fst (step debug wd s line)) = w_issued s ++ [e] ->
  ~ In e (w_issued s) /\ live (fst (step debug wd s line)) e = true /\ alive (fst (step debug wd s line)) e = true.
Admitted.
