(** * Rel2HistAllL: package U, stage 1 completed by the lock bookkeeping clause [LQ] of Rel2HistQL.

    [LQ s]: the lock pool is well-formed for a set of held bits, and a bit is held iff it is the lock bit of an OPEN query.
    Rel2HistQL proves it over the histories of Rel2HistQ. Here: over the merged class of Rel2HistAll (stage 1), for batch
    lines that satisfy [r2h_safe] of Rel2BatchHist (no callback for RemoveEntities; no callback, no entity, or values within
    [ids] for NewBatch). The side condition is NEEDED for [LQ]: [r2u_leak_inv] of Rel2HistAll.
    Proof: on a locked world a batch step changes nothing. On an unlocked world no query is open; the query objects are
    untouched ([r2u_frp_step_op]); the world is unlocked afterwards ([step_inv_all_unlocked]); and the lock pool stays
    well-formed for SOME set of held bits through the code of the five operations in a world without observers
    ([r2u_lpp_step_op]: a third syntactic pass; [lockM] / [unlockM] / the deferred unlock by their specifications, everything
    else leaves lock and observer aggregates alone, the event passes are guarded by [has_obs]). Unlocked + well-formed gives
    the empty set of held bits. Helper prefix [r2u_]. *)
From Ark Require Import Model.Base Model.Mask Model.Pool Model.Util Model.World Model.Run.
From Ark Require Import Proofs.TableProofs Proofs.MaskProofs Proofs.Hoare Proofs.WF Proofs.StorageA Proofs.StorageBDefs
  Proofs.StorageB_sb1 Proofs.StorageB_sb2 Proofs.StorageB_sb3 Proofs.LockWorld Proofs.StorageC Proofs.RelProofs
  Proofs.CacheProofs Proofs.QueryProofs Proofs.ResetShrinkProofs Proofs.BatchProofs Proofs.BatchOps
  Proofs.Rel2Defs Proofs.Rel2Struct Proofs.Rel2Remove Proofs.Rel2SetRel Proofs.Rel2Ops Proofs.Rel2Maint Proofs.Rel2Hist
  Proofs.Rel2Cache Proofs.Rel2Batch Proofs.Rel2BatchExchange Proofs.Rel2BatchNew Proofs.Rel2BatchSetRel
  Proofs.Rel2BatchHist Proofs.Rel2HistQ Proofs.Rel2HistQL Proofs.Rel2HistAll.
From Ark Require Properties.Common Proofs.Rel2Check Proofs.StorageD Proofs.LockProofs Proofs.LockSpec.
From RecordUpdate Require Import RecordSet.
Import RecordSetNotations.
From Coq Require Import Lia.
Close Scope Z_scope.

(* ================================================================================================ *)
(** * Part 1: storage code touches neither the lock nor the observer aggregates (after Part 1 of Rel2HistQ) *)

Definition r2u_ls (s s' : W) : Prop := w_lock s' = w_lock s /\ w_oagg s' = w_oagg s.

Lemma r2u_ls_refl : forall s, r2u_ls s s.
Proof. intros s. split; reflexivity. Qed.
Lemma r2u_ls_trans : forall s1 s2 s3, r2u_ls s1 s2 -> r2u_ls s2 s3 -> r2u_ls s1 s3.
Proof. intros s1 s2 s3 (A1 & A2) (B1 & B2). split; congruence. Qed.

Definition r2u_sl {A} (m : MW A) : Prop := r2e_pres r2u_ls m.

Lemma r2u_sl_ro : forall A (m : MW A), readonly m -> r2u_sl m.
Proof. intros A m H. apply (r2e_pres_ro r2u_ls r2u_ls_refl). exact H. Qed.
Lemma r2u_sl_bind : forall A B (m : MW A) (k : A -> MW B), r2u_sl m -> (forall a, r2u_sl (k a)) -> r2u_sl (bind m k).
Proof. intros A B m k. apply (r2e_pres_bind r2u_ls r2u_ls_trans). Qed.
Lemma r2u_sl_forM : forall A (l : list A) (f : A -> MW unit), (forall a, r2u_sl (f a)) -> r2u_sl (forM_ l f).
Proof. intros A l f. apply (r2e_pres_forM r2u_ls r2u_ls_refl r2u_ls_trans). Qed.
Lemma r2u_sl_whenM : forall b m, r2u_sl m -> r2u_sl (whenM b m).
Proof. intros b m. apply (r2e_pres_whenM r2u_ls r2u_ls_refl). Qed.
Lemma r2u_sl_getbind : forall A (k : W -> MW A), (forall s, r2u_ls s (state_of (k s s))) -> r2u_sl (bind get k).
Proof. intros A k. apply (r2e_pres_getbind r2u_ls). Qed.


Lemma r2u_sl_modify_same : forall f : W -> W, (forall s, w_lock (f s) = w_lock s /\ w_oagg (f s) = w_oagg s) ->
  r2u_sl (modify f).
Proof. intros f H s. unfold modify. cbn [state_of]. apply H. Qed.

Ltac r2u_ls_same_mod := apply r2u_sl_modify_same; intros ?; split; reflexivity.

Lemma r2u_sl_modT : forall i f, r2u_sl (modT i f).
Proof. intros. unfold modT. r2u_ls_same_mod. Qed.
Lemma r2u_sl_setT : forall i t, r2u_sl (setT i t).
Proof. intros. apply r2u_sl_modT. Qed.
Lemma r2u_sl_modA : forall i f, r2u_sl (modA i f).
Proof. intros. unfold modA. r2u_ls_same_mod. Qed.

Ltac r2u_sl_step :=
  match goal with
  | |- r2u_sl (ret _) => apply r2u_sl_ro, readonly_ret
  | |- r2u_sl (fail _) => apply r2u_sl_ro, readonly_fail
  | |- r2u_sl get => apply r2u_sl_ro, readonly_get
  | |- r2u_sl (guard _ _) => apply r2u_sl_ro, readonly_guard
  | |- r2u_sl (of_opt _ _) => apply r2u_sl_ro, readonly_of_opt
  | |- r2u_sl (getT _) => apply r2u_sl_ro, readonly_getT
  | |- r2u_sl (getA _) => apply r2u_sl_ro, r2e_ro_getA
  | |- r2u_sl (modT _ _) => apply r2u_sl_modT
  | |- r2u_sl (setT _ _) => apply r2u_sl_setT
  | |- r2u_sl (modA _ _) => apply r2u_sl_modA
  | |- r2u_sl (get_index _) => apply r2u_sl_ro, readonly_get_index
  | |- r2u_sl check_locked => apply r2u_sl_ro, sc_ro_check_locked
  | |- r2u_sl (arch_mask_of_table _) => apply r2u_sl_ro, sc_ro_arch_mask
  | |- r2u_sl (whenM _ _) => apply r2u_sl_whenM
  | |- r2u_sl (forM_ _ _) => apply r2u_sl_forM; intros ?
  | |- r2u_sl (bind _ _) => apply r2u_sl_bind; [|intros ?]
  | |- r2u_sl (let '(_, _) := ?x in _) => destruct x
  | |- r2u_sl (match ?x with _ => _ end) => destruct x
  | |- r2u_sl (if ?x then _ else _) => destruct x
  end.
Ltac r2u_sl_tac := repeat r2u_sl_step.

Lemma r2u_sl_tbl_addM : forall tid e, r2u_sl (tbl_addM tid e).
Proof. intros. unfold tbl_addM. r2u_sl_tac. Qed.
Lemma r2u_sl_set_index : forall id v, r2u_sl (set_index id v).
Proof.
  intros id v. unfold set_index. apply r2u_sl_modify_same. intros s. destruct (Nat.eqb id (length (w_index s))); split; reflexivity.
Qed.
Lemma r2u_sl_set_index_direct : forall e tid row, r2u_sl (set_index_direct e tid row).
Proof. intros. unfold set_index_direct. r2u_ls_same_mod. Qed.
Lemma r2u_sl_copy_row : forall old new m row nidx, r2u_sl (copy_row old new m row nidx).
Proof. intros. unfold copy_row. r2u_sl_tac. Qed.
Lemma r2u_sl_copy_all : forall src dst row nidx, r2u_sl (copy_all src dst row nidx).
Proof. intros. unfold copy_all. r2u_sl_tac. Qed.
Lemma r2u_sl_remove_row : forall tid row, r2u_sl (remove_row tid row).
Proof. intros. unfold remove_row. r2u_sl_tac. all: try r2u_ls_same_mod. Qed.
Lemma r2u_sl_register_targets : forall rels, r2u_sl (register_targets rels).
Proof. intros. unfold register_targets. r2u_sl_tac. r2u_ls_same_mod. Qed.
Lemma r2u_sl_cache_add_table : forall tid t am, r2u_sl (cache_add_table tid t am).
Proof. intros. unfold cache_add_table. r2u_sl_tac. r2u_ls_same_mod. Qed.
Lemma r2u_sl_cache_remove_table : forall tid, r2u_sl (cache_remove_table tid).
Proof. intros. unfold cache_remove_table. r2u_sl_tac. r2u_ls_same_mod. Qed.
Lemma r2u_sl_move_entities : forall src dst n, r2u_sl (move_entities src dst n).
Proof. intros. unfold move_entities. r2u_sl_tac. r2u_ls_same_mod. Qed.
Lemma r2u_sl_pool_getM : r2u_sl pool_getM.
Proof.
  intros s. unfold pool_getM, bind, get, put, ret. destruct (pool_get (w_pool s)) as [e p']. cbn [state_of]. split; reflexivity.
Qed.
Lemma r2u_sl_pool_recycleM : forall e, r2u_sl (pool_recycleM e).
Proof.
  intros e s. unfold pool_recycleM, bind, get, put, fail. destruct (pool_recycle (w_pool s) e); cbn [state_of]; split; reflexivity.
Qed.

Lemma r2u_sl_create_archetype_bare : forall m, r2u_sl (create_archetype_bare m).
Proof.
  intros m. unfold create_archetype_bare. apply r2u_sl_getbind. intros s.
  unfold bind, put, ret. cbn [state_of]. split; reflexivity.
Qed.

Lemma r2u_sl_create_table : forall aid rels, r2u_sl (create_table aid rels).
Proof.
  intros aid rels. unfold create_table. r2u_sl_tac.
  all: try apply r2u_sl_register_targets; try apply r2u_sl_cache_add_table.
  all: try solve [apply r2u_sl_ro; unfold check_rel; ro].
  all: try r2u_ls_same_mod.
Qed.

Lemma r2u_sl_create_archetype : forall m, r2u_sl (create_archetype m).
Proof.
  intros m. unfold create_archetype. r2u_sl_tac.
  all: first [apply r2u_sl_create_archetype_bare|apply r2u_sl_create_table].
Qed.

Lemma r2u_sl_find_or_create_arch : forall m, r2u_sl (find_or_create_arch m).
Proof.
  intros m. unfold find_or_create_arch. apply r2u_sl_getbind. intros s.
  destruct (find_arch s m); [apply r2u_ls_refl|apply r2u_sl_create_archetype].
Qed.

Lemma r2u_sl_goc : forall aid rels, r2u_sl (get_or_create_table aid rels).
Proof.
  intros. unfold get_or_create_table. r2u_sl_tac; [apply r2u_sl_ro, r2e_ro_arch_get_table|apply r2u_sl_create_table].
Qed.

Lemma r2u_sl_find_add : forall old add rels m0, r2u_sl (find_or_create_table_add old add rels m0).
Proof.
  intros. unfold find_or_create_table_add. r2u_sl_tac; try apply r2u_sl_goc; try apply r2u_sl_find_or_create_arch.
  all: apply r2u_sl_ro, r2e_ro_gf_add.
Qed.
Lemma r2u_sl_find_remove : forall old rem m0, r2u_sl (find_or_create_table_remove old rem m0).
Proof.
  intros. unfold find_or_create_table_remove. r2u_sl_tac; try apply r2u_sl_goc; try apply r2u_sl_find_or_create_arch.
  all: apply r2u_sl_ro, r2e_ro_gf_remove.
Qed.
Lemma r2u_sl_find_exchange : forall old add rem rels m0, r2u_sl (find_or_create_table old add rem rels m0).
Proof.
  intros. unfold find_or_create_table. r2u_sl_tac; try apply r2u_sl_goc; try apply r2u_sl_find_or_create_arch.
  all: first [apply r2u_sl_ro, r2e_ro_gf_add|apply r2u_sl_ro, r2e_ro_gf_remove].
Qed.
Lemma r2u_sl_free_table : forall aid tid, r2u_sl (free_table aid tid).
Proof. intros. unfold free_table. r2u_sl_tac. Qed.

Lemma r2u_sl_cleanup : forall e, r2u_sl (cleanup_archetypes e).
Proof.
  intros e. unfold cleanup_archetypes. r2u_sl_tac.
  all: first [apply r2u_sl_ro, r2e_ro_etu|apply r2u_sl_goc|apply r2u_sl_move_entities|apply r2u_sl_free_table
             |apply r2u_sl_cache_remove_table].
Qed.

(* ================================================================================================ *)
(** * Part 2: the lock pool stays well-formed through the batch operations (worlds without observers) *)

Definition r2u_LKP (s : W) : Prop := exists held, r2l_lock_inv (w_lock s) held.

Definition r2u_lp (s s' : W) : Prop := r2e_noobs s -> w_oagg s' = w_oagg s /\ (r2u_LKP s -> r2u_LKP s').

Lemma r2u_lp_refl : forall s, r2u_lp s s.
Proof. intros s _. split; [reflexivity|auto]. Qed.
Lemma r2u_lp_trans : forall s1 s2 s3, r2u_lp s1 s2 -> r2u_lp s2 s3 -> r2u_lp s1 s3.
Proof.
  intros s1 s2 s3 H1 H2 Hn. destruct (H1 Hn) as (A1 & A2). destruct (H2 (r2B_noobs_oagg s1 s2 A1 Hn)) as (B1 & B2).
  split; [congruence|auto].
Qed.

Definition r2u_lpp {A} (m : MW A) : Prop := r2e_pres r2u_lp m.

Lemma r2u_lpp_ro : forall A (m : MW A), readonly m -> r2u_lpp m.
Proof. intros A m H. apply (r2e_pres_ro r2u_lp r2u_lp_refl). exact H. Qed.
Lemma r2u_lpp_bind : forall A B (m : MW A) (k : A -> MW B), r2u_lpp m -> (forall a, r2u_lpp (k a)) -> r2u_lpp (bind m k).
Proof. intros A B m k. apply (r2e_pres_bind r2u_lp r2u_lp_trans). Qed.
Lemma r2u_lpp_forM : forall A (l : list A) (f : A -> MW unit), (forall a, r2u_lpp (f a)) -> r2u_lpp (forM_ l f).
Proof. intros A l f. apply (r2e_pres_forM r2u_lp r2u_lp_refl r2u_lp_trans). Qed.
Lemma r2u_lpp_whenM : forall b m, r2u_lpp m -> r2u_lpp (whenM b m).
Proof. intros b m. apply (r2e_pres_whenM r2u_lp r2u_lp_refl). Qed.
Lemma r2u_lpp_getbind : forall A (k : W -> MW A), (forall s, r2u_lp s (state_of (k s s))) -> r2u_lpp (bind get k).
Proof. intros A k. apply (r2e_pres_getbind r2u_lp). Qed.
Lemma r2u_lpp_mapM : forall A B (l : list A) (f : A -> MW B), (forall a, r2u_lpp (f a)) -> r2u_lpp (mapM l f).
Proof.
  intros A B l f H. induction l as [|x l IH]; cbn [mapM]; [apply r2u_lpp_ro, readonly_ret|].
  apply r2u_lpp_bind; [apply H|]. intros y. apply r2u_lpp_bind; [exact IH|]. intros ys. apply r2u_lpp_ro, readonly_ret.
Qed.

Lemma r2u_lpp_sl : forall A (m : MW A), r2u_sl m -> r2u_lpp m.
Proof. intros A m H s _. destruct (H s) as (El & Eo). split; [exact Eo|]. unfold r2u_LKP. rewrite El. auto. Qed.

Lemma r2u_lpp_lockM : r2u_lpp lockM.
Proof.
  intros s _. unfold lockM, bind, get. destruct (lock_lock (w_lock s)) as [[b l']|] eqn:E; cbn [state_of put ret fail].
  - split; [reflexivity|]. intros (held & H). pose proof (r2l_lock_spec _ held H) as S. rewrite E in S. destruct S as (_ & S).
    exists (b :: held). exact S.
  - split; [reflexivity|auto].
Qed.

Lemma r2u_LKP_unlock : forall (s : W) b l', r2u_LKP s -> lock_unlock (w_lock s) b = Some l' -> r2u_LKP (s <| w_lock := l' |>).
Proof.
  intros s b l' (held & H) E. pose proof (r2l_unlock_spec _ held b H) as S. rewrite E in S. destruct S as (_ & S).
  exists (LockSpec.remove_nat b held). exact S.
Qed.

Lemma r2u_lpp_unlockM : forall b, r2u_lpp (unlockM b).
Proof.
  intros b s _. unfold unlockM, bind, get. destruct (lock_unlock (w_lock s) b) as [l'|] eqn:E; cbn [state_of put fail].
  - split; [reflexivity|]. intros H. apply (r2u_LKP_unlock s b l' H E).
  - split; [reflexivity|auto].
Qed.

Lemma r2u_lpp_deferred : forall A b (m : MW A), r2u_lpp m -> r2u_lpp (with_deferred_unlock b m).
Proof.
  intros A b m H s. unfold with_deferred_unlock, on_err. specialize (H s). destruct (m s) as [a s1|er s1]; cbn [state_of] in *; [exact H|].
  apply (r2u_lp_trans s s1 _ H). intros _. unfold release_bit. destruct (lock_unlock (w_lock s1) b) as [l'|] eqn:E.
  - split; [reflexivity|]. intros HL. apply (r2u_LKP_unlock s1 b l' HL E).
  - split; [reflexivity|auto].
Qed.

(** a guard computed from [has_obs] of the current state is false in a world without observers *)
Lemma r2u_lpp_get_guard : forall (g : W -> bool) (m : W -> MW unit), (forall s, r2e_noobs s -> g s = false) ->
  r2u_lpp (s <- get ;; whenM (g s) (m s)).
Proof. intros g m Hg. apply r2u_lpp_getbind. intros s Hn. rewrite (Hg s Hn). cbn. split; [reflexivity|auto]. Qed.

Ltac r2u_lp_step :=
  match goal with
  | |- r2u_lpp (ret _) => apply r2u_lpp_ro, readonly_ret
  | |- r2u_lpp (fail _) => apply r2u_lpp_ro, readonly_fail
  | |- r2u_lpp (guard _ _) => apply r2u_lpp_ro, readonly_guard
  | |- r2u_lpp (of_opt _ _) => apply r2u_lpp_ro, readonly_of_opt
  | |- r2u_lpp (getT _) => apply r2u_lpp_ro, readonly_getT
  | |- r2u_lpp (getA _) => apply r2u_lpp_ro, r2e_ro_getA
  | |- r2u_lpp check_locked => apply r2u_lpp_ro, sc_ro_check_locked
  | |- r2u_lpp (arch_mask_of_table _) => apply r2u_lpp_ro, sc_ro_arch_mask
  | |- r2u_lpp (rows_of _ _ _) => apply r2u_lpp_ro, r2h_ro_rows_of
  | |- r2u_lpp (get_batch_tables _ _) => apply r2u_lpp_ro, r2u_ro_get_batch_tables
  | |- r2u_lpp (to_relations _ _) => apply r2u_lpp_ro, readonly_to_relations
  | |- r2u_lpp (resolveR _) => apply r2u_lpp_ro, readonly_resolveR
  | |- r2u_lpp (batch_rels _ _) => apply r2u_lpp_ro, readonly_batch_rels
  | |- r2u_lpp (exchange_targets _ _) => apply r2u_lpp_ro, r2e_ro_exchange_targets
  | |- r2u_lpp lockM => apply r2u_lpp_lockM
  | |- r2u_lpp (unlockM _) => apply r2u_lpp_unlockM
  | |- r2u_lpp (with_deferred_unlock _ _) => apply r2u_lpp_deferred
  | |- r2u_lpp (whenM _ _) => apply r2u_lpp_whenM
  | |- r2u_lpp (forM_ _ _) => apply r2u_lpp_forM; intros ?
  | |- r2u_lpp (mapM _ _) => apply r2u_lpp_mapM; intros ?
  | |- r2u_lpp (bind _ _) => apply r2u_lpp_bind; [|intros ?]
  | |- r2u_lpp (let '(_, _) := ?x in _) => destruct x
  | |- r2u_lpp (match ?x with _ => _ end) => destruct x
  | |- r2u_lpp (if ?x then _ else _) => destruct x
  end.
Ltac r2u_lp_tac := repeat r2u_lp_step.

Lemma r2u_sl_log : forall l, r2u_sl (log l).
Proof. intros l. unfold log. r2u_ls_same_mod. Qed.

Lemma r2u_sl_batch_callback : forall tid vals row, r2u_sl (batch_callback tid vals row).
Proof. intros. unfold batch_callback. r2u_sl_tac. apply r2u_sl_log. Qed.

Lemma r2u_sl_create_entities : forall tid count, r2u_sl (create_entities tid count).
Proof.
  intros. unfold create_entities. r2u_sl_tac.
  all: first [apply r2u_sl_pool_getM|apply r2u_sl_set_index|r2u_ls_same_mod].
Qed.

Lemma r2u_sl_new_entities : forall count ids rels, r2u_sl (new_entities count ids rels).
Proof.
  intros. unfold new_entities. r2u_sl_tac.
  all: first [apply r2u_sl_find_add|apply r2u_sl_create_entities|apply r2u_sl_register_targets].
Qed.

Lemma r2u_sl_rm_rows : forall es acc, r2u_sl (bo_rm_rows es acc).
Proof.
  intros es. induction es as [|e more IH]; intros acc; cbn [bo_rm_rows]; [apply r2u_sl_ro, readonly_ret|].
  apply r2u_sl_getbind. intros s.
  assert (X : r2u_sl (modify (fun s0 : W => s0 <| w_index ::= updf (fst e) (fun ix => (None, snd ix)) |>) ;;;
                      pool_recycleM e ;;;
                      bo_rm_rows more (if nth (fst e) (w_istarget s) false then acc ++ [e] else acc))).
  { apply r2u_sl_bind; [r2u_ls_same_mod|]. intros _. apply r2u_sl_bind; [apply r2u_sl_pool_recycleM|]. intros _. apply IH. }
  apply X.
Qed.

Lemma r2u_sl_rm_tabs : forall tabs acc, r2u_sl (bo_rm_tabs tabs acc).
Proof.
  intros tabs. induction tabs as [|tid rest IH]; intros acc; cbn [bo_rm_tabs]; [apply r2u_sl_ro, readonly_ret|].
  apply r2u_sl_bind; [apply r2u_sl_ro, readonly_getT|]. intros t.
  apply r2u_sl_bind; [apply r2u_sl_rm_rows|]. intros acc'.
  apply r2u_sl_bind; [apply r2u_sl_modT|]. intros _. apply IH.
Qed.

Lemma r2u_sl_exchange_table : forall otid ntid rels, r2u_sl (exchange_table otid ntid rels).
Proof.
  intros. unfold exchange_table. r2u_sl_tac.
  all: first [apply r2u_sl_register_targets|r2u_ls_same_mod|apply r2u_sl_ro, sc_ro_arch_mask|idtac].
Qed.

Lemma r2u_sl_collect : forall add rem rels tabs acc rr, r2u_sl (bo_collect add rem rels tabs acc rr).
Proof.
  intros add rem rels tabs. induction tabs as [|tid rest IH]; intros acc rr; cbn [bo_collect]; [apply r2u_sl_ro, readonly_ret|].
  apply r2u_sl_bind; [apply r2u_sl_ro, readonly_getT|]. intros t.
  destruct (Nat.eqb (t_len t) 0); [apply IH|].
  apply r2u_sl_bind; [apply r2u_sl_ro, sc_ro_arch_mask|]. intros om.
  apply r2u_sl_bind; [apply r2u_sl_find_exchange|]. intros [[[ntid x1] x2] removed]. apply IH.
Qed.

Lemma r2u_lp_under : forall s s', (r2e_noobs s -> r2u_lp s s') -> r2u_lp s s'.
Proof. intros s s' H Hn. exact (H Hn Hn). Qed.

Lemma r2u_lpp_at : forall A (m : MW A) s, r2u_lpp m -> r2u_lp s (state_of (m s)).
Proof. intros A m s H. apply H. Qed.

Ltac r2u_lp_leaf :=
  first [apply r2u_lpp_sl, r2u_sl_new_entities|apply r2u_lpp_sl, r2u_sl_batch_callback|apply r2u_lpp_sl, r2u_sl_rm_tabs
        |apply r2u_lpp_sl, r2u_sl_cleanup|apply r2u_lpp_sl, r2u_sl_collect|apply r2u_lpp_sl, r2u_sl_exchange_table
        |apply r2u_lpp_sl, r2u_sl_goc|apply r2u_lpp_sl, r2u_sl_move_entities|apply r2u_lpp_sl, r2u_sl_register_targets
        |apply r2u_lpp_sl; r2u_ls_same_mod].

Lemma r2u_lpp_w_new_entities : forall count fn, r2u_lpp (w_new_entities count fn).
Proof.
  intros count fn. unfold w_new_entities.
  apply r2u_lpp_bind; [apply r2u_lpp_ro, sc_ro_check_locked|]. intros _.
  apply r2u_lpp_bind; [apply r2u_lpp_sl, r2u_sl_new_entities|]. intros [tid start].
  apply r2u_lpp_getbind. intros s0. apply r2u_lp_under. intros Hn. cbv zeta. rewrite (Hn EvCreateEntity). cbn [orb whenM].
  apply r2u_lpp_at. r2u_lp_tac. all: r2u_lp_leaf.
Qed.

Lemma r2u_lpp_w_new_batch : forall count ids rels vals fn, r2u_lpp (w_new_batch count ids rels vals fn).
Proof.
  intros count ids rels vals fn. unfold w_new_batch.
  apply r2u_lpp_bind; [apply r2u_lpp_ro, sc_ro_check_locked|]. intros _.
  apply r2u_lpp_bind; [apply r2u_lpp_ro, readonly_to_relations|]. intros _.
  apply r2u_lpp_bind; [apply r2u_lpp_sl, r2u_sl_new_entities|]. intros [tid start].
  apply r2u_lpp_getbind. intros s0. apply r2u_lp_under. intros Hn. cbv zeta.
  rewrite (Hn EvCreateEntity), (Hn EvAddRelations), Bool.andb_false_r. cbn [orb whenM].
  apply r2u_lpp_at. r2u_lp_tac. all: r2u_lp_leaf.
Qed.

Lemma r2u_lpp_w_remove_entities : forall fi rels fn, r2u_lpp (w_remove_entities fi rels fn).
Proof.
  intros fi rels fn. rewrite bo_remove_entities_eq.
  apply r2u_lpp_bind; [apply r2u_lpp_ro, sc_ro_check_locked|]. intros _.
  apply r2u_lpp_getbind. intros s0. apply r2u_lp_under. intros Hn. cbv zeta.
  rewrite (Hn EvRemoveEntity), (Hn EvRemoveRelations). cbn [orb whenM].
  apply r2u_lpp_at. unfold bo_rm_cb, bo_rm_cleanup. r2u_lp_tac. all: r2u_lp_leaf.
Qed.

Lemma r2u_lpp_pre_events : forall rem bs rr, r2u_lpp (bo_pre_events rem bs rr).
Proof. intros rem bs rr s Hn. rewrite (r2x_pre_events_skip rem bs rr s Hn). cbn [state_of]. split; [reflexivity|auto]. Qed.

Lemma r2u_lpp_post_events : forall add rels mv, r2u_lpp (bo_post_events add rels mv).
Proof. intros add rels mv s Hn. rewrite (r2x_post_events_skip add rels mv s Hn). cbn [state_of]. split; [reflexivity|auto]. Qed.

Lemma r2u_lpp_w_exchange_batch : forall fi brels add rem rels vals, r2u_lpp (w_exchange_batch fi brels add rem rels vals).
Proof.
  intros. rewrite r2x_exchange_batch_eq. unfold r2x_xbody, r2x_mbody. r2u_lp_tac.
  all: first [apply r2u_lpp_pre_events|apply r2u_lpp_post_events|r2u_lp_leaf].
Qed.

Lemma r2u_lpp_w_set_relations_batch : forall fi brels rels, r2u_lpp (w_set_relations_batch fi brels rels).
Proof.
  intros fi brels rels. unfold w_set_relations_batch.
  apply r2u_lpp_bind; [apply r2u_lpp_ro, sc_ro_check_locked|]. intros _.
  apply r2u_lpp_bind; [apply r2u_lpp_ro, readonly_guard|]. intros _.
  apply r2u_lpp_bind; [apply r2u_lpp_lockM|]. intros l.
  apply r2u_lpp_bind; [|intros _; apply r2u_lpp_unlockM].
  apply r2u_lpp_deferred. apply r2u_lpp_getbind. intros s0. apply r2u_lp_under. intros Hn. cbv zeta.
  rewrite (Hn EvRemoveRelations), (Hn EvAddRelations). cbn [whenM].
  apply r2u_lpp_at. unfold set_relations_plan, set_relations_move. r2u_lp_tac. all: r2u_lp_leaf.
Qed.

(** One batch operation keeps "no observer" and the well-formedness of the lock pool, whatever its arguments and its outcome. *)
Theorem r2u_lpp_step_op : forall debug o, r2h_batch_op o = true -> r2u_lpp (step_op debug o).
Proof.
  intros debug o Hb. destruct o; try discriminate Hb; cbn [step_op]; r2u_lp_tac.
  all: first [apply r2u_lpp_w_new_entities|apply r2u_lpp_w_new_batch|apply r2u_lpp_w_remove_entities
             |apply r2u_lpp_w_exchange_batch|apply r2u_lpp_w_set_relations_batch].
Qed.

(* ================================================================================================ *)
(** * Part 3: [LQ] across one step of the merged class, all histories *)

Lemma r2u_unlocked_held : forall l held, r2l_lock_inv l held -> lock_is_locked l = false -> held = [].
Proof.
  intros l held H Hl. destruct held as [|b t]; [reflexivity|]. exfalso.
  assert (X : lock_is_locked l = true) by (apply (r2l_locked_iff l (b :: t) H); discriminate). congruence.
Qed.

Lemma r2u_LQ_unlocked_intro : forall s, r2u_LKP s -> is_locked s = false -> (forall qi b, ~ r2l_open s qi b) -> LQ s.
Proof.
  intros s (held & H) Hl Hno. pose proof (r2u_unlocked_held _ held H Hl) as ->. exists []. split; [exact H|]. split.
  - intros b. split; [intros []|]. intros (qi & Ho). exfalso. apply (Hno qi b Ho).
  - intros qi qj b Ho. exfalso. apply (Hno qi b Ho).
Qed.

Lemma r2u_LQ_unlocked_none : forall s, LQ s -> is_locked s = false -> forall qi b, ~ r2l_open s qi b.
Proof.
  intros s (held & H1 & H2 & _) Hl qi b Ho. pose proof (r2u_unlocked_held _ held H1 Hl) as ->.
  assert (Hin : In b []) by (apply H2; exists qi; exact Ho). destruct Hin.
Qed.

(** One batch step keeps [LQ] if the line is [r2h_safe]. *)
Theorem step_LQ_batch : forall debug wd s n line o,
  InvAll s n -> LQ s -> n + r2h_created o + 4 < Nat.pow 2 31 -> decode_op line = Some o -> r2h_batch_op o = true ->
  (forall c, In c (r2h_op_ids o) -> c < length (w_reg s)) -> r2h_safe o ->
  LQ (fst (step debug wd s line)).
Proof.
  intros debug wd s n line o HI HL Hn Hd Hb Hreg Hsafe.
  destruct (is_locked s) eqn:Hl.
  - rewrite (r2u_batch_locked debug wd s line o Hd Hb Hl). apply r2l_LQ_log. exact HL.
  - pose proof (step_inv_all_unlocked debug wd s n line o HI Hn Hd Hb Hreg Hsafe) as Hunl. rewrite Hl in Hunl.
    destruct (r2u_fr_step debug wd s line o Hd Hb) as (_ & (_ & Eq)).
    assert (HK : r2u_LKP (fst (step debug wd s line))).
    { rewrite (r2h_step_state debug wd s line o Hd Hb). cbv zeta. set (s0 := s <| w_log := [] |>).
      assert (Hn0 : r2e_noobs s0) by (apply (r2B_noobs_oagg s s0 eq_refl); apply HI).
      assert (HK0 : r2u_LKP s0) by (destruct HL as (held & H1 & _); exists held; exact H1).
      destruct (r2u_lpp_step_op debug o Hb s0 Hn0) as (_ & HK1). specialize (HK1 HK0).
      destruct (issues_from_log o && negb (is_err (step_op debug o s0)))%bool; exact HK1. }
    apply (r2u_LQ_unlocked_intro _ HK Hunl). intros qi b (q & Hq & Ho). rewrite Eq in Hq.
    apply (r2u_LQ_unlocked_none s HL Hl qi b). exists q. split; [exact Hq|exact Ho].
Qed.

Theorem step_inv_all_LQ : forall debug wd s n line o,
  InvAll s n -> LQ s -> n + r2h_created o + 4 < Nat.pow 2 31 -> decode_op line = Some o -> rel_all_op o = true ->
  (forall c, In c (rel_all_ids o) -> c < length (w_reg s)) -> (r2h_batch_op o = true -> r2h_safe o) ->
  LQ (fst (step debug wd s line)).
Proof.
  intros debug wd s n line o HI HL Hn Hd Hop Hreg Hsafe.
  destruct (r2u_op_cases o Hop) as [(Hq & _)|(_ & Hb & _)].
  - apply (step_LQ debug wd s n line o HI HL Hd Hq).
  - apply (step_LQ_batch debug wd s n line o HI HL Hn Hd Hb); [|apply (Hsafe Hb)].
    intros c Hin. apply Hreg. unfold rel_all_ids. apply in_or_app. right. exact Hin.
Qed.

(** a line of the merged class whose batch operation (if any) cannot leak the lock *)
Definition rel_all_line_safe (reg : list ckind) (line : list Z) : Prop :=
  rel_all_line reg line /\ forall o, decode_op line = Some o -> r2h_batch_op o = true -> r2h_safe o.

Lemma r2u_safe_lines : forall reg lines, Forall (rel_all_line_safe reg) lines -> Forall (rel_all_line reg) lines.
Proof. intros reg lines H. eapply Forall_impl; [|exact H]. intros l (A & _). exact A. Qed.

Theorem reachable_inv_all_LQ : forall c lines,
  cfg_ok2 c -> Forall (rel_all_line_safe (sc_kinds c)) lines -> r2h_total lines + 4 < Nat.pow 2 31 ->
  InvAll (Properties.Common.exec c lines) (r2h_total lines) /\ LQ (Properties.Common.exec c lines).
Proof.
  intros c lines Hc. induction lines as [|l lines IH] using rev_ind; intros HF Hb.
  - split; [apply r2q_init; exact Hc|apply r2l_LQ_init].
  - split; [apply (reachable_inv_all c _ Hc (r2u_safe_lines _ _ HF) Hb)|].
    apply Forall_app in HF. destruct HF as (HF & Hl). inversion Hl as [|? ? ((o & Hd & Hco & Hids & Hflt) & Hsafe) _]; subst.
    assert (Et : r2h_total (lines ++ [l]) = r2h_total lines + r2h_cost l)
      by (rewrite r2h_total_app; unfold r2h_total at 2; cbn [map list_sum fold_right]; lia).
    assert (Hcost : r2h_cost l = S (r2h_created o)) by (unfold r2h_cost; rewrite Hd; reflexivity).
    rewrite Et, Hcost in Hb.
    destruct IH as (IH1 & IH2); [exact HF|lia|].
    destruct (r2u_run_inv c Hc lines (r2u_safe_lines _ _ HF)) as (_ & Er); [lia|].
    unfold Properties.Common.exec in *. rewrite fold_left_app. cbn [fold_left].
    apply (step_inv_all_LQ (sc_debug c) false _ (r2h_total lines) l o IH1 IH2); auto; try lia.
    rewrite Er. exact Hids.
Qed.

(** In every reachable state of the merged class (safe batch lines): the world is locked iff some query object is open. *)
Theorem reachable_locked_iff_open_all : forall c lines,
  cfg_ok2 c -> Forall (rel_all_line_safe (sc_kinds c)) lines -> r2h_total lines + 4 < Nat.pow 2 31 ->
  let s := Properties.Common.exec c lines in
  is_locked s = true <-> exists qi q, nth_error (w_queries s) qi = Some q /\ 1 <= q_tab q.
Proof. intros c lines Hc Hl Hb. apply r2l_LQ_locked_iff. apply (reachable_inv_all_LQ c lines Hc Hl Hb). Qed.

(** ** Non-vacuity *)
Definition rel_all_line_safe_b (reg : list ckind) (line : list Z) : bool :=
  (rel_all_line_b reg line && match decode_op line with Some o => (negb (r2h_batch_op o) || r2h_safe_b o)%bool | None => false end)%bool.

Lemma rel_all_line_safe_b_sound : forall reg lines, forallb (rel_all_line_safe_b reg) lines = true -> Forall (rel_all_line_safe reg) lines.
Proof.
  intros reg lines H. apply Forall_forall. intros l Hl. rewrite forallb_forall in H. specialize (H l Hl).
  unfold rel_all_line_safe_b in H. apply andb_true_iff in H. destruct H as (H1 & H2). split.
  - assert (HF : Forall (rel_all_line reg) [l]) by (apply rel_all_line_b_sound; cbn [forallb]; rewrite H1; reflexivity).
    inversion HF; assumption.
  - intros o Hd Hb. rewrite Hd, Hb in H2. cbn in H2. apply r2h_safe_b_sound. exact H2.
Qed.

(** the first 19 lines of [r2u_script] (the RemoveEntities WITH callback in line 20 is not [r2h_safe]) *)
Example r2u_script_safe : forallb (rel_all_line_safe_b (sc_kinds Rel2Check.r2_cfg)) (firstn 19 r2u_script) = true /\
                          forallb (rel_all_line_safe_b (sc_kinds Rel2Check.r2_cfg)) r2u_script = false.
Proof. vm_compute. split; reflexivity. Qed.

Example r2u_script_LQ : forall k, k <= 19 -> LQ (Properties.Common.exec Rel2Check.r2_cfg (firstn k r2u_script)).
Proof.
  intros k Hk. apply (reachable_inv_all_LQ Rel2Check.r2_cfg (firstn k r2u_script) r2q_cfg_ok).
  - apply Forall_forall. intros l Hl. pose proof (rel_all_line_safe_b_sound _ _ (proj1 r2u_script_safe)) as H.
    rewrite Forall_forall in H. apply H. rewrite <- (firstn_skipn k (firstn 19 r2u_script)). apply in_or_app. left.
    rewrite firstn_firstn. replace (Nat.min k 19) with k by lia. exact Hl.
  - apply r2_N_small. do 20 (destruct k as [|k]; [vm_compute; reflexivity|]). lia.
Qed.

(** the LOCKED state [r2u_mid] (after 10 steps, two batch calls rejected) satisfies the clause: exactly one bit is held, by the open query *)
Example r2u_mid_LQ : LQ r2u_mid /\ is_locked r2u_mid = true.
Proof. split; [apply (r2u_script_LQ 10); lia|vm_compute; reflexivity]. Qed.

Definition r2u_all_5 :=
  (r2u_lpp_step_op, step_LQ_batch, step_inv_all_LQ, reachable_inv_all_LQ, reachable_locked_iff_open_all, r2u_script_safe, r2u_script_LQ, r2u_mid_LQ).
Print Assumptions r2u_all_5.
