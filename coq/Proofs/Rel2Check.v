(** * Rel2Check: validation of the relation invariant [St2] by execution.

    Every [Example] runs a script on the model and checks, by [vm_compute], that the boolean checker
    [st2_b] (= [wf_b] && [rel_inv_b] && [cache_inv_b], see Rel2Defs) holds in the initial state and
    after EVERY step of the script, and records which steps failed (1) or succeeded (0), so that the
    scripts demonstrably exercise the intended paths. By [rel_inv_b_sound] / [cache_inv_b_sound] each
    of these states satisfies [RelInv] and [CacheInv].

    Component ids of [r2_cfg]: 0,1,2 plain; 3,4 relation components; 5 pointer-bearing; 6 zero-size;
    7 zero-size relation. Handles are indices into the list of issued handles; -1 is the zero entity.

    The NEGATIVE examples at the end are the scripts with which this validation found defects (a
    clause of the invariant false in a reachable state). N1, N1', N2, N2' were repaired in the Go code
    and in the model, so they now document that the invariant holds throughout; N3 is a precondition
    violation that only exists in the model. *)
From Ark Require Import Model.Base Model.Mask Model.Pool Model.Util Model.World Model.Run.
From Ark Require Import Proofs.WF Proofs.StorageA Proofs.Rel2Defs Properties.Common.
Open Scope Z_scope.

Definition r2_cfg : script_cfg :=
  {| sc_cap := 2; sc_caprel := 1; sc_bits := 256; sc_debug := false;
     sc_kinds := map kind_of_code [0; 1; 2; 7; 8; 4; 6; 9] |}.

(** The checker holds in [s] and after every step of [lines]. *)
Fixpoint r2_all_ok (c : script_cfg) (s : W) (lines : list (list Z)) : bool :=
  (st2_b s &&
   match lines with
   | [] => true
   | l :: rest => r2_all_ok c (fst (step (sc_debug c) false s l)) rest
   end)%bool.

(** 0 = the step returned normally, 1 = it panicked. *)
Fixpoint r2_flags (c : script_cfg) (s : W) (lines : list (list Z)) : list Z :=
  match lines with
  | [] => []
  | l :: rest => let '(s', out) := step (sc_debug c) false s l in hd 9 out :: r2_flags c s' rest
  end.

Definition r2_run (lines : list (list Z)) : bool * list Z :=
  (r2_all_ok r2_cfg (init_world r2_cfg) lines, r2_flags r2_cfg (init_world r2_cfg) lines).

(** indices of the failing checks (wf 0-14, rel 15-29, cache 30) after each step: for the negative examples *)
Fixpoint r2_failing (i : nat) (l : list bool) : list nat :=
  match l with [] => [] | b :: t => if b then r2_failing (S i) t else i :: r2_failing (S i) t end.
Fixpoint r2_trace (c : script_cfg) (s : W) (lines : list (list Z)) : list (Z * list nat) :=
  match lines with
  | [] => []
  | l :: rest => let '(s', out) := step (sc_debug c) false s l in
                 (hd 9 out, r2_failing 0 (wf_checks s' ++ rel_inv_checks s' ++ [cache_inv_b s'])) :: r2_trace c s' rest
  end.

Definition r2_shape (s : W) : list (nat * nat * bool * list rel) :=
  map (fun t => (t_arch t, t_len t, t_free t, t_rels t)) (w_tables s).

(** ** 1. One relation component: children of two parents; a target dies with entities pointing at
    it (rows moved to the zero-target table, table freed); the freed table is recycled for another
    target; Shrink; removal of the last entity of a relation table; Reset; a stale handle as target. *)
Definition r2_s1 : list (list Z) :=
  [[0]; [0]; [0];
   [2; 2;0;3; 1; 3;0]; [2; 2;0;3; 1; 3;1]; [2; 2;0;3; 1; 3;0];
   [9; 3; 0; 7]; [11; 0]; [2; 2;0;3; 1; 3;2]; [35; 3; 3]; [35; 5; 3]; [11; 4]; [14; 0];
   [2; 2;0;3; 1; 3;2]; [11; 1]; [14; 0]; [13]; [0]; [2; 2;0;3; 1; 3;9]].
Example r2_check_1 : r2_run r2_s1 = (true, [0;0;0; 0;0;0; 0;0;0;0;0;0;0; 0;0;0;0;0;1]).
Proof. vm_compute. reflexivity. Qed.

(** the recycle path of create_table is really taken: after the target (2,0) died its table 1 is
    free; the next child of another parent gets table 1 again *)
Example r2_check_1_recycles :
  r2_shape (exec r2_cfg (firstn 8 r2_s1)) =
    [(0%nat, 2%nat, false, []); (1%nat, 0%nat, true, [(3%nat, (2%nat, 0%N))]);
     (1%nat, 1%nat, false, [(3%nat, (3%nat, 0%N))]); (1%nat, 2%nat, false, [(3%nat, zero_ent)])] /\
  r2_shape (exec r2_cfg (firstn 9 r2_s1)) =
    [(0%nat, 2%nat, false, []); (1%nat, 1%nat, false, [(3%nat, (4%nat, 0%N))]);
     (1%nat, 1%nat, false, [(3%nat, (3%nat, 0%N))]); (1%nat, 2%nat, false, [(3%nat, zero_ent)])].
Proof. vm_compute. split; reflexivity. Qed.

(** ** 2. Several relation components per archetype; the same target in two relation components;
    SetRelations moving entities between tables (one, both, to zero); targets dying one by one;
    Shrink freeing empty relation tables; recycling with numrel = 2. *)
Definition r2_s2 : list (list Z) :=
  [[0]; [0]; [0]; [0];
   [2; 2;3;4; 2; 3;0; 4;1]; [2; 2;3;4; 2; 3;0; 4;0]; [2; 3;1;3;4; 2; 4;2; 3;0]; [2; 2;3;4; 2; 3;0; 4;1];
   [10; 4; 1; 4;2]; [10; 7; 2; 3;1; 4;1]; [10; 5; 1; 3;-1];
   [11; 0]; [14; 0]; [2; 2;3;4; 2; 3;3; 4;3]; [11; 1]; [11; 2]; [11; 3]; [14; 0]; [2; 2;3;4; 2; 3;4; 4;5]].
Example r2_check_2 : r2_run r2_s2 = (true, [0;0;0;0; 0;0;0;0; 0;0;0; 0;0;0;0;0;0;0;0]).
Proof. vm_compute. reflexivity. Qed.

(** ** 3. Batch operations with relations (ops 30, 32, 31, 12) through registered (cached) filters, one
    of them with a relation fixed in the filter; Shrink and Reset with cached filters. *)
Definition r2_s3 : list (list Z) :=
  [[0]; [0]; [0];
   [15; 0; 1;3; 0; 0; 0]; [16; 0];
   [30; 3; 2;0;3; 1; 3;0; 1; 0;5];
   [30; 2; 2;0;3; 1; 3;1; 0; 1];
   [32; 0; 0; 1;3; 1; 3;1];
   [31; 0; 0; 1;4; 0; 1; 4;2; 0];
   [15; 0; 1;3; 0; 0; 1; 3;1]; [16; 1];
   [32; 1; 0; 1;3; 1; 3;0];
   [14; 0];
   [31; 0; 1; 4;2; 0; 1;4; 0; 0];
   [12; 0; 1; 3;0]; [14; 0]; [30; 2; 2;0;3; 1; 3;2; 0]; [12; 0; 0]; [14; 0]; [13]; [0]; [2; 2;0;3; 1; 3;8]].
Example r2_check_3 : r2_run r2_s3 = (true, [0;0;0; 0;0; 0;0;0;0; 0;0; 0;0; 1; 0;0;0;0;0;0;0;0]).
Proof. vm_compute. reflexivity. Qed.

(** ** 4. Operations that FAIL mid-history, followed by more operations: dead target, unspecified
    target, non-relation component as relation, relation component outside the archetype, component
    missing, dead entity, component already present; self-target; Shrink with a zero time budget. *)
Definition r2_s4 : list (list Z) :=
  [[0]; [0]; [11; 1];
   [2; 2;0;3; 1; 3;1]; [2; 2;3;4; 1; 3;0]; [2; 2;0;3; 1; 0;0]; [2; 2;0;3; 1; 4;0];
   [2; 2;0;3; 1; 3;0];
   [10; 2; 1; 4;0]; [10; 1; 1; 3;0]; [10; 2; 1; 3;1]; [6; 2; 1;4; 1; 4;1];
   [6; 2; 1;4; 1; 4;0]; [6; 2; 1;4; 1; 4;0];
   [8; 2; 1;1; 1;4; 0]; [8; 2; 1;4; 1;3; 1; 4;2];
   [11; 2]; [14; 0];
   [2; 2;3;4; 2; 3;0; 4;0]; [11; 0]; [11; 0]; [14; 1]; [14; 1]; [14; 1]].
Example r2_check_4 : r2_run r2_s4 = (true, [0;0;0; 1;1;1;1; 0; 1;1;1;1; 0;1; 0;0; 0;0; 0;0;1;0;0;0]).
Proof. vm_compute. reflexivity. Qed.

(** ** 5. Chains (a -> b -> c), an entity that is both target and child, SetRelations with no
    relations (rejected), an entity targeting itself and then dying, the zero target set explicitly. *)
Definition r2_s5 : list (list Z) :=
  [[0]; [2; 1;3; 1; 3;0]; [2; 1;3; 1; 3;1]; [2; 1;3; 1; 3;2];
   [10; 0; 0]; [11; 1]; [35; 2; 3]; [11; 3]; [14; 0];
   [2; 1;3; 1; 3;-1]; [10; 4; 1; 3;4]; [35; 4; 3]; [11; 4]; [14; 0];
   [2; 1;3; 1; 3;0]; [11; 5]; [11; 0]; [11; 2]; [14; 0]].
Example r2_check_5 : r2_run r2_s5 = (true, [0;0;0;0; 1;0;0;0;0; 0;0;0;0;0; 0;0;0;0;0]).
Proof. vm_compute. reflexivity. Qed.

(** ** 6. A zero-size relation component next to an ordinary one; observers on the relation events
    (one of them unregistering itself in its callback) and on entity removal. *)
Definition r2_s6 : list (list Z) :=
  [[0]; [0]; [25; 254; 0; 0; 0; 0; 0]; [26; 0]; [25; 255; 1;3; 0; 0; 0; 1]; [26; 1];
   [25; 250; 0; 0; 0; 0; 0]; [26; 2];
   [2; 2;3;7; 2; 3;0; 7;1]; [2; 2;3;7; 2; 7;0; 3;1]; [10; 2; 1; 7;0]; [11; 0];
   [10; 3; 2; 3;1; 7;1]; [11; 1]; [14; 0]].
Example r2_check_6 : r2_run r2_s6 = (true, [0;0;0;0;0;0;0;0; 0;0;0;0;0;0;0]).
Proof. vm_compute. reflexivity. Qed.

(** ** 7. Id reuse: a recycled id (generation 1) as target; the stale handle of generation 0 is
    rejected as a target and does not select the table of the new incarnation. *)
Definition r2_s7 : list (list Z) :=
  [[0]; [2; 1;3; 1; 3;0]; [11; 0]; [0]; [2; 1;3; 1; 3;0]; [2; 1;3; 1; 3;2]; [35; 3; 3]; [11; 2]; [0];
   [10; 1; 1; 3;4]; [10; 3; 1; 3;2]; [11; 4]; [14; 0]].
Example r2_check_7 : r2_run r2_s7 = (true, [0;0;0;0; 1; 0;0;0;0;0; 1; 0;0]).
Proof. vm_compute. reflexivity. Qed.

(** ** 8. Two targets of one table dying in ONE batch (RemoveEntities over a filter that selects both
    parents), children in a two-relation archetype pointing at (p, q), (p, p), (q, r). *)
Definition r2_s8 : list (list Z) :=
  [[1; 1;0]; [1; 1;0]; [1; 1;1];
   [2; 2;3;4; 2; 3;0; 4;1]; [2; 2;3;4; 2; 3;0; 4;0]; [2; 2;3;4; 2; 3;1; 4;2]; [2; 3;2;3;4; 2; 3;0; 4;1];
   [15; 0; 1;0; 0; 0; 0]; [12; 0; 0];
   [35; 3; 3]; [35; 3; 4]; [35; 5; 4]; [14; 0]; [2; 2;3;4; 2; 3;2; 4;2]; [11; 2]; [14; 0]].
Example r2_check_8 : r2_run r2_s8 = (true, [0;0;0; 0;0;0;0; 0;0; 0;0;0;0;0;0;0]).
Proof. vm_compute. reflexivity. Qed.

(** after the batch removal both targets are detached in one go *)
Example r2_check_8_detached :
  let s := exec r2_cfg (firstn 9 r2_s8) in
  (tgt s (5%nat, 0%N) 3, tgt s (5%nat, 0%N) 4, tgt s (7%nat, 0%N) 3, tgt s (7%nat, 0%N) 4, val s (8%nat, 0%N) 2) =
  (Some zero_ent, Some zero_ent, Some zero_ent, Some (4%nat, 0%N), Some 0%Z).
Proof. vm_compute. reflexivity. Qed.

(** ** 9. Add / Remove / Exchange with relations on existing entities: adding a second relation
    component, removing a relation component (its target survives), exchanging one relation
    component for another, copying an entity of a relation table. *)
Definition r2_s9 : list (list Z) :=
  [[0]; [0]; [2; 2;0;3; 1; 3;0]; [6; 2; 1;4; 1; 4;1]; [4; 2]; [7; 2; 1; 3]; [8; 3; 1;1; 1;4; 0];
   [8; 2; 1;3; 1;4; 1; 3;1]; [5; 3; 1; 2]; [11; 1]; [11; 0]; [14; 0]; [6; 3; 1;4; 1; 4;2]; [7; 3; 2; 3;4]; [14; 0]].
Example r2_check_9 : r2_run r2_s9 = (true, [0;0;0;0;0;0;0; 0;0;0;0;0;0;0;0]).
Proof. vm_compute. reflexivity. Qed.

(** ** 10. Reset in the middle of a relation-heavy history (all relation tables are freed and all
    lookups dropped), then everything is rebuilt by recycling. *)
Definition r2_s10 : list (list Z) :=
  [[0]; [0]; [2; 2;3;4; 2; 3;0; 4;1]; [2; 2;3;4; 2; 3;1; 4;0]; [2; 1;3; 1; 3;0]; [13];
   [0]; [0]; [2; 2;3;4; 2; 3;5; 4;6]; [2; 2;3;4; 2; 3;6; 4;6]; [2; 2;3;4; 2; 3;-1; 4;6]; [2; 1;3; 1; 3;5];
   [11; 6]; [13]; [14; 0]; [0]; [2; 1;3; 1; 3;11]].
Example r2_check_10 : r2_run r2_s10 = (true, [0;0;0;0;0;0; 0;0;0;0;0;0; 0;0;0;0;0]).
Proof. vm_compute. reflexivity. Qed.

(** ** 11. Queries over relation tables while the world changes around them: an open query locks the
    world (mutations are rejected), closing it unlocks; cached and uncached filters with relation
    arguments; unregistering a filter. *)
Definition r2_s11 : list (list Z) :=
  [[0]; [0]; [2; 1;3; 1; 3;0]; [2; 1;3; 1; 3;1]; [15; 0; 1;3; 0; 0; 0]; [16; 0];
   [18; 0; 1; 3;0]; [19; 0; 0]; [11; 0]; [20; 1]; [21; 1]; [11; 0]; [18; 0; 1; 3;0]; [18; 0; 0];
   [17; 0]; [18; 0; 1; 3;1]; [14; 0]; [16; 0]; [2; 1;3; 1; 3;1]; [18; 0; 1; 3;1]].
Example r2_check_11 : r2_run r2_s11 = (true, [0;0;0;0;0;0; 0;0;1;0;0;0; 1;0; 0;0;0;0;0;0]).
Proof. vm_compute. reflexivity. Qed.

(** ** 12. Pseudo-random histories (linear congruential generator; handles drawn from the twelve most
    recent ones or the zero entity): all operations of the relation API including the batch
    operations over cached filters; the checker is evaluated after every step. About a quarter
    of the calls panic (dead handles, missing components), so failing operations followed by more
    operations are covered at scale. *)
Definition r2_lcg (x : N) : N := ((x * 6364136223846793005 + 1442695040888963407) mod 18446744073709551616)%N.
Definition r2_pick (x : N) (n : N) : Z := Z.of_N ((x / 8589934592) mod n)%N.

Definition r2_gen_line (x : N) (nh : N) : list Z :=
  let x1 := r2_lcg x in let x2 := r2_lcg x1 in let x3 := r2_lcg x2 in
  let w := N.min nh 12 in
  let h := Z.of_N nh - 1 - r2_pick x1 (w + 1) in
  let h1 := Z.of_N nh - 1 - r2_pick x2 (w + 1) in
  let h2 := Z.of_N nh - 1 - r2_pick x3 (w + 1) in
  match r2_pick x 20 with
  | 0 => [0]
  | 1 => [2; 2;0;3; 1; 3;h]
  | 2 => [2; 2;3;4; 2; 3;h1; 4;h2]
  | 3 => [2; 3;1;3;4; 2; 4;h1; 3;h2]
  | 4 => [10; h; 1; 3;h1]
  | 5 => [10; h; 1; 4;h1]
  | 6 => [10; h; 2; 3;h1; 4;h2]
  | 7 => [11; h]
  | 8 => [14; r2_pick x1 2]
  | 9 => [6; h; 1;4; 1; 4;h1]
  | 10 => [7; h; 1; 3 + r2_pick x1 2]
  | 11 => [8; h; 1;4; 1;3; 1; 4;h1]
  | 12 => if Z.eqb (r2_pick x1 6) 0 then [12; 0; 0] else [12; 0; 1; 3;h1]
  | 13 => [32; 0; 0; 1;3; 1; 3;h1]
  | 14 => if Z.eqb (r2_pick x1 2) 0 then [31; 3; 0; 1;4; 0; 1; 4;h1; 0] else [31; 2; 0; 0; 1;4; 0; 0]
  | 15 => [30; 2; 2;0;3; 1; 3;h1; 0]
  | 16 => [0]
  | 17 => [2; 2;3;4; 2; 3;h1; 4;h2]
  | 18 => if Z.eqb (r2_pick x1 30) 0 then [13] else [10; h; 1; 3;h]
  | _ => [2; 2;0;3; 1; 3;h]
  end.

(** returns (all states ok, number of panicking steps, number of tables at the end) *)
Fixpoint r2_fuzz (n : nat) (x : N) (s : W) : bool * nat * nat :=
  match n with
  | O => (st2_b s, 0%nat, length (w_tables s))
  | S n' =>
      let l := r2_gen_line x (N.of_nat (length (w_issued s))) in
      let '(s', out) := step false false s l in
      let '(ok, errs, nt) := r2_fuzz n' (r2_lcg (r2_lcg (r2_lcg (r2_lcg x)))) s' in
      ((st2_b s && ok)%bool, Nat.add (if Z.eqb (hd 9 out) 0 then 0%nat else 1%nat) errs, nt)
  end.

(** filters: 0 = {3} registered; 1 = {3} with relation 3 -> handle 0 fixed, registered;
    2 = {3,4}; 3 = {3} without 4, registered *)
Definition r2_fuzz_pre : list (list Z) :=
  [[0]; [0]; [0]; [15; 0; 1;3; 0; 0; 0]; [16; 0]; [15; 0; 1;3; 0; 0; 1; 3;0]; [16; 1];
   [15; 0; 2;3;4; 0; 0; 0]; [15; 0; 1;3; 1;4; 0; 0]; [16; 3]].

Example r2_check_12a : r2_fuzz 500 12345 (exec r2_cfg r2_fuzz_pre) = (true, 154%nat, 168%nat).
Proof. vm_compute. reflexivity. Qed.
Example r2_check_12b : r2_fuzz 500 31337 (exec r2_cfg r2_fuzz_pre) = (true, 209%nat, 98%nat).
Proof. vm_compute. reflexivity. Qed.
Example r2_check_12c : r2_fuzz 500 4242 (exec r2_cfg r2_fuzz_pre) = (true, 183%nat, 80%nat).
Proof. vm_compute. reflexivity. Qed.

(** ** From the checker to the invariant: the final states of the scripts satisfy [St2] (Prop). *)
Theorem r2_St2_s1 : St2 (exec r2_cfg r2_s1).
Proof. apply st2_b_sound. vm_compute. reflexivity. Qed.
Theorem r2_St2_s2 : St2 (exec r2_cfg r2_s2).
Proof. apply st2_b_sound. vm_compute. reflexivity. Qed.
Theorem r2_St2_s3 : St2 (exec r2_cfg r2_s3).
Proof. apply st2_b_sound. vm_compute. reflexivity. Qed.
Theorem r2_St2_s8 : St2 (exec r2_cfg (firstn 9 r2_s8)).
Proof. apply st2_b_sound. vm_compute. reflexivity. Qed.

(** ** NEGATIVE examples: scripts that exhibited defects (N1, N1', N2, N2': repaired since) *)

(** N1. (REPAIRED.) A batch operation that panics half-way. Before the repairs this script exhibited
    two defects, both found by this validation: (a) the panicking batch kept the world locked for
    ever (the lock bit was never returned), and (b) it left tables whose targets were never
    registered, so that [TargetFlagsG] (check 28) was false from then on. Both were repaired in
    the Go code and mirrored in the model: the batch bodies run under [with_deferred_unlock] (the
    lock bit is released while the panic unwinds), and [create_table] registers the targets together
    with their table. ExchangeBatch: the first source table is fine, the second already has the
    component, so the call still panics (flag 1); but now the invariant holds in the state it
    leaves, the world is unlocked and the later calls succeed. *)
Definition r2_n1 : list (list Z) :=
  [[0]; [0]; [15; 0; 1;3; 0; 0; 0]; [2; 1;3; 1; 3;0]; [2; 2;3;4; 2; 3;0; 4;0];
   [31; 0; 0; 1;4; 0; 1; 4;1; 0]; [0]; [11; 1]; [14; 0]; [13]].
Example r2_neg_1 : r2_trace r2_cfg (init_world r2_cfg) r2_n1 =
  [(0, []); (0, []); (0, []); (0, []); (0, []);
   (1, []); (0, []); (0, []); (0, []); (0, [])].
Proof. vm_compute. reflexivity. Qed.

(** N1'. (REPAIRED.) SetRelationsBatch used to register the new targets only after ALL tables were
    processed; if a later table lacked the component, the entities of the earlier tables already sat
    in a table with an unregistered target, and the world stayed locked for ever. After the same two
    repairs the call still panics (flag 1), the invariant holds afterwards and the world is usable. *)
Definition r2_n1' : list (list Z) :=
  [[0]; [0]; [15; 0; 1;3; 0; 0; 0]; [2; 2;3;4; 2; 3;0; 4;0]; [2; 1;3; 1; 3;0];
   [32; 0; 0; 1;4; 1; 4;1]; [0]; [14; 0]].
Example r2_neg_1' : r2_trace r2_cfg (init_world r2_cfg) r2_n1' =
  [(0, []); (0, []); (0, []); (0, []); (0, []); (1, []); (0, []); (0, [])].
Proof. vm_compute. reflexivity. Qed.

(** N2. The same relation component twice in one call. Before the repair (/repo fix a3c3b99,
    [rels_distinct] in the model) createTable did not check this: the table's relation list kept
    the shadowed target ([ri_shape], check 20, false), nobody detached it when it died
    ([ri_targets_ok], check 29, false) and every later Add/Remove/Exchange of the entity panicked
    with "dead target" although the call was valid. The invariant validation found that defect;
    now the call is rejected and the invariant holds throughout. *)
Definition r2_n2 : list (list Z) := [[0]; [0]; [2; 2;3;4; 2; 3;0; 3;1]; [11; 0]; [14; 0]].
Example r2_neg_2 : r2_trace r2_cfg (init_world r2_cfg) r2_n2 =
  [(0, []); (0, []); (1, []); (0, []); (0, [])].
Proof. vm_compute. reflexivity. Qed.

(** N2'. The same through AddRel naming a relation component the entity already has: rejected. *)
Definition r2_n2' : list (list Z) := [[0]; [0]; [2; 1;3; 1; 3;0]; [6; 2; 1;4; 2; 3;1; 4;1]; [11; 0]; [5; 2; 1; 0]].
Example r2_neg_2' : r2_trace r2_cfg (init_world r2_cfg) r2_n2' =
  [(0, []); (0, []); (0, []); (1, []); (0, []); (0, [])].
Proof. vm_compute. reflexivity. Qed.

(** N3. (Model only: the Go UnsafeFilter has no Register.) A registered unsafe filter whose fixed
    relation names a component outside its mask violates the cache clause [ci_entry] (check 30) from
    the moment it is registered. It used to make createTable panic INSIDE cache_add_table (Matches on
    a component the new table lacks was a nil dereference); since the repair of table.Matches such a
    relation is simply "no match", so nothing panics any more; the precondition violation itself
    (check 30) persists because it is a property of the registered filter, not of the tables. *)
Definition r2_n3 : list (list Z) :=
  [[0]; [15; 1; 1;0; 0; 0; 1; 4;0]; [16; 0]; [2; 2;0;3; 1; 3;0]; [0]; [11; 0]; [2; 2;0;3; 1; 3;1]].
Example r2_neg_3 : r2_trace r2_cfg (init_world r2_cfg) r2_n3 =
  [(0, []); (0, []); (0, [30%nat]); (0, [30%nat]); (0, [30%nat]);
   (0, [30%nat]); (0, [30%nat])].
Proof. vm_compute. reflexivity. Qed.

Definition r2_check_all :=
  (r2_check_1, r2_check_1_recycles, r2_check_2, r2_check_3, r2_check_4, r2_check_5, r2_check_6, r2_check_7,
   r2_check_8, r2_check_8_detached, r2_check_9, r2_check_10, r2_check_11, r2_check_12a, r2_check_12b, r2_check_12c,
   r2_St2_s1, r2_St2_s2, r2_St2_s3, r2_St2_s8, r2_neg_1, r2_neg_1', r2_neg_2, r2_neg_2', r2_neg_3).
Print Assumptions r2_check_all.
