(** * Rel2BatchRows: phase (1) of RemoveEntities (the row loop [bo_rm_tabs]) in the relation tier.

    [w_remove_entities] first empties the selected tables row by row (remembering the rows flagged as
    relation targets, clearing the index entries, recycling the ids, resetting the table), and only
    afterwards cleans the relation bookkeeping for the remembered targets. This file proves what holds
    BETWEEN the two phases for every [St2] state: [r2r_rows_spec]. The state after the row loop
    satisfies the window invariant [St2G (r2r_ids cl) r2_none r2_none] where [cl] is the cleanup list
    (the removed entities flagged as targets, in table/row order).

    Helper lemmas carry the prefix [r2r_]. [r2r_mid_init] / [r2r_rm_tabs_run] / [r2r_mid_final] are the
    [WF]-only versions of [bo_mid_init] / [bo_rm_tabs_run] / [bo_mid_final] of BatchOps.v (which are
    stated for the relation-free tier [St]); [r2r_rm_tabs_run] additionally tracks the accumulator. *)
From Ark Require Import Model.Base Model.Mask Model.Pool Model.Util Model.World Model.Run.
From Ark Require Import Proofs.TableProofs Proofs.MaskProofs Proofs.Hoare Proofs.WF Proofs.StorageA Proofs.StorageBDefs
  Proofs.StorageB_sb1 Proofs.StorageB_sb2 Proofs.StorageB_sb3 Proofs.StorageC Proofs.RelProofs Proofs.BatchProofs Proofs.BatchOps
  Proofs.Rel2Defs Proofs.Rel2Struct Proofs.Rel2Remove Proofs.Rel2Maint Proofs.Rel2Hist.
From Ark Require Properties.Common Proofs.Rel2Check.
From RecordUpdate Require Import RecordSet.
Import RecordSetNotations.
From Coq Require Import Lia.

(** The ids of the entities of the cleanup list: the "dying" target ids of the window. *)
Definition r2r_ids (cl : list ent) : nat -> Prop := fun k => In k (map fst cl).

(** The flag test of the row loop. *)
Definition r2r_flagged (s : W) : ent -> bool := fun e => nth (fst e) (w_istarget s) false.

(* ================================================================================================ *)
(** * 1. The loop invariant for [WF] alone *)

Lemma r2r_mid_init : forall s0, WF s0 -> bo_mid s0 s0 [] [].
Proof.
  intros s0 HW. constructor.
  - reflexivity.
  - intros tid t0 Ht. exists t0. split; [exact Ht|]. split; [eapply sb2_table_ok; eauto|]. split; [apply sb2_meta_refl|reflexivity].
  - reflexivity.
  - intros id. reflexivity.
  - destruct (wf_pool _ HW) as (fl & P1 & P2 & P3). exists fl. split; [exact P1|]. split; [exact P2|]. split; [exact P3|].
    split; [exact P1|]. split; [reflexivity|]. split; [auto|intros e []].
  - constructor.
  - intros e. split; [intros []|intros (_ & tid & r & [] & _)].
Qed.

(** The row loop over [tabs], started in a state [s] of the loop: it succeeds, extends the list of
    removed entities by [Dn] and the accumulator by the flagged ones among [Dn]. *)
Lemma r2r_rm_tabs_run : forall tabs s0 s D R acc, WF s0 -> bo_mid s0 s D R -> bo_rest_same s0 s ->
  (forall tid, In tid tabs -> exists t, nth_error (w_tables s0) tid = Some t) ->
  exists s' Dn, bo_rm_tabs tabs acc s = Ok (acc ++ filter (r2r_flagged s0) Dn) s' /\
    bo_mid s0 s' (D ++ Dn) (rev tabs ++ R) /\ bo_rest_same s0 s'.
Proof.
  induction tabs as [|tid rest IH]; intros s0 s D R acc HW HM HR Hval.
  - exists s, []. cbn [filter]. rewrite !app_nil_r. split; [reflexivity|]. split; [exact HM|exact HR].
  - destruct (Hval tid (or_introl eq_refl)) as (t0 & Ht0).
    assert (Hval' : forall x, In x rest -> exists t, nth_error (w_tables s0) x = Some t) by (intros; apply Hval; right; assumption).
    destruct (bm_tabs _ _ _ _ HM tid t0 Ht0) as (t' & Ht' & Hok' & Hmeta' & Hcase).
    cbn [bo_rm_tabs]. rewrite (bo_bind_ok (sb2_getT _ _ _ Ht')).
    cbn [rev]. rewrite <- app_assoc. cbn [app].
    destruct (memb tid R) eqn:EmR.
    + (* already reset: nothing to remove *)
      rewrite Hcase. cbn [firstn bo_rm_rows]. rewrite (bo_bind_ok (m := ret acc) (s := s) eq_refl).
      rewrite (bo_bind_ok (sb2_modT s tid tbl_reset t' Ht')).
      set (s2 := sb2_setT s (upd tid (tbl_reset t') (w_tables s))).
      assert (HM2 : bo_mid s0 s2 D (tid :: R)).
      { destruct HM as [M1 M2 M3 M4 M5 M6 M7]. constructor.
        - unfold s2. cbn. rewrite upd_length. exact M1.
        - intros x tx0 Hx. destruct (M2 x tx0 Hx) as (tx & Hx' & Hokx & Hmx & Hcx).
          change (w_tables s2) with (upd tid (tbl_reset t') (w_tables s)). rewrite nth_error_upd.
          rewrite sb2_memb_cons. destruct (Nat.eqb_spec tid x) as [<-|Hnx].
          + rewrite Ht'. exists (tbl_reset t'). split; [reflexivity|]. split; [apply tbl_reset_ok; exact Hok'|].
            rewrite Ht0 in Hx. inversion Hx; subst tx0.
            split; [eapply sb2_meta_trans; [exact Hmeta'|repeat split]|reflexivity].
          + exists tx. cbn [orb]. auto.
        - exact M3.
        - exact M4.
        - exact M5.
        - exact M6.
        - intros e. rewrite M7. unfold bo_doomed, bo_in_tabs. split; intros (Hl & x & r & Hin & Hloc); (split; [exact Hl|]); exists x, r.
          + split; [right; exact Hin|exact Hloc].
          + split; [|exact Hloc]. destruct Hin as [<-|Hin]; [apply sb2_memb_In; exact EmR|exact Hin]. }
      assert (HR2 : bo_rest_same s0 s2) by exact HR.
      destruct (IH s0 s2 D (tid :: R) acc HW HM2 HR2 Hval') as (s' & Dn & Hrun & HM' & HR').
      exists s', Dn. auto.
    + subst t'. set (es := firstn (t_len t0) (t_ents t0)).
      destruct (bo_table_rows s0 tid t0 HW Ht0) as (NDes & Ines). fold es in NDes, Ines.
      pose proof HM as [M1 M2 M3 M4 M5 M6 M7].
      destruct M5 as (fl0 & P1 & P2 & P3 & P4 & P5 & P6 & P7).
      assert (Hfresh : forall e, In e es -> ~ In (fst e) (map fst D)).
      { intros e He Hin. apply Ines in He. destruct He as (Hl & r & Hloc).
        pose proof (bo_live_id_in s0 D R e HW M7 Hl Hin) as HeD. apply M7 in HeD.
        destruct HeD as (_ & x & r' & Hx & Hloc'). rewrite Hloc in Hloc'. inversion Hloc'; subst x r'.
        apply sb2_memb_In in Hx. congruence. }
      destruct (bo_recycle_all_spec es (w_pool s) (rev (map fst D) ++ fl0) P4 NDes) as (p' & Erc & Q1 & Q2 & Q3 & Q4).
      { intros e He. pose proof (Hfresh e He) as Hf. apply Ines in He. destruct He as (Hl & r & Hloc).
        destruct (live_alive s0 e HW Hl) as (_ & H2).
        destruct (sb2_live_elim _ _ Hl) as (tid1 & r1 & t1 & L1 & T1 & R1 & E1).
        destruct (wf_rows _ HW _ _ _ T1 R1) as (_ & Hp). rewrite E1 in Hp.
        split; [exact H2|]. split; [rewrite P6 by exact Hf; exact Hp|].
        intros Hin. apply in_app_or in Hin. destruct Hin as [Hin|Hin].
        - apply Hf. apply in_rev. exact Hin.
        - destruct (P2 _ Hin) as (r2 & Hi2). apply sb2_loc_iff in Hloc. congruence. }
      rewrite (bo_bind_ok (bo_rm_rows_run es s acc p' Erc)).
      assert (Eflag : filter (fun e => nth (fst e) (w_istarget s) false) es = filter (r2r_flagged s0) es).
      { destruct HR as (_ & _ & EI & _). rewrite EI. reflexivity. }
      rewrite Eflag.
      set (acc1 := acc ++ filter (r2r_flagged s0) es).
      set (s1 := s <| w_index := bo_unindex (w_index s) es |> <| w_pool := p' |>).
      assert (Ht1 : nth_error (w_tables s1) tid = Some t0) by exact Ht'.
      rewrite (bo_bind_ok (sb2_modT s1 tid tbl_reset t0 Ht1)).
      set (s2 := sb2_setT s1 (upd tid (tbl_reset t0) (w_tables s1))).
      assert (HM2 : bo_mid s0 s2 (D ++ es) (tid :: R)).
      { constructor.
        - unfold s2. cbn. rewrite upd_length. exact M1.
        - intros x tx0 Hx. destruct (M2 x tx0 Hx) as (tx & Hx' & Hokx & Hmx & Hcx).
          change (w_tables s2) with (upd tid (tbl_reset t0) (w_tables s)). rewrite nth_error_upd.
          rewrite sb2_memb_cons. destruct (Nat.eqb_spec tid x) as [<-|Hnx].
          + rewrite Ht'. exists (tbl_reset t0). split; [reflexivity|]. split; [apply tbl_reset_ok; exact Hok'|].
            rewrite Ht0 in Hx. inversion Hx; subst tx0. split; [repeat split|reflexivity].
          + exists tx. cbn [orb]. auto.
        - change (w_index s2) with (bo_unindex (w_index s) es). rewrite bo_unindex_length. exact M3.
        - intros id. change (w_index s2) with (bo_unindex (w_index s) es). rewrite bo_unindex_nth, M4.
          rewrite map_app, bo_memb_app. apply bo_index_combine.
        - exists fl0. split; [exact P1|]. split; [exact P2|]. split; [exact P3|].
          change (w_pool s2) with p'.
          split; [rewrite map_app, rev_app_distr, <- app_assoc; exact Q1|]. split; [congruence|].
          split.
          { intros i Hi. rewrite map_app in Hi. rewrite Q3 by (intros X; apply Hi; apply in_or_app; right; exact X).
            apply P6. intros X; apply Hi; apply in_or_app; left; exact X. }
          intros e He. apply in_app_or in He. destruct He as [He|He].
          + destruct (P7 e He) as (l & Hl). exists l. rewrite Q3; [exact Hl|].
            intros Hin. apply in_map_iff in Hin. destruct Hin as (e2 & E2 & He2).
            apply (Hfresh e2 He2). rewrite E2. apply in_map. exact He.
          + apply Q4. exact He.
        - rewrite map_app. apply bo_NoDup_app; [exact M6|exact NDes|].
          intros i Hi Hi2. apply in_map_iff in Hi2. destruct Hi2 as (e2 & E2 & He2). apply (Hfresh e2 He2). rewrite E2. exact Hi.
        - intros e. rewrite in_app_iff, M7, Ines. unfold bo_doomed, bo_in_tabs. split.
          + intros [(Hl & x & r & Hin & Hloc)|(Hl & r & Hloc)]; (split; [exact Hl|]).
            * exists x, r. split; [right; exact Hin|exact Hloc].
            * exists tid, r. split; [left; reflexivity|exact Hloc].
          + intros (Hl & x & r & [<-|Hin] & Hloc).
            * right. split; [exact Hl|eauto].
            * left. split; [exact Hl|]. exists x, r. auto. }
      assert (HR2 : bo_rest_same s0 s2) by exact HR.
      destruct (IH s0 s2 (D ++ es) (tid :: R) acc1 HW HM2 HR2 Hval') as (s' & Dn & Hrun & HM' & HR').
      exists s', (es ++ Dn). split; [|split; [rewrite app_assoc; exact HM'|exact HR']].
      rewrite Hrun. unfold acc1. rewrite filter_app, app_assoc. reflexivity.
Qed.

(* ================================================================================================ *)
(** * 2. From the loop invariant to [WF] and the per-entity facts *)

Lemma r2r_rest_struct : forall s0 s, bo_rest_same s0 s -> sb3_struct_same s0 s.
Proof.
  intros s0 s (E1 & E2 & E3 & E4 & E5 & E6 & E7 & E8 & E9 & E10 & E11 & E12 & E13 & E14 & E15 & E16 & E17 & E18 & E19 & E20 & E21 & E22 & E23).
  unfold sb3_struct_same. repeat split; assumption.
Qed.

Lemma r2r_mid_final : forall s0 s D R, WF s0 -> bo_mid s0 s D R -> bo_rest_same s0 s ->
  WF s /\
  (forall e, In e D -> live s e = false /\ alive s e = false /\ 2 <= fst e /\ live s0 e = true) /\
  (forall e, ~ In e D -> live s e = live s0 e /\ (forall c, val s e c = val s0 e c) /\ (forall c, tgt s e c = tgt s0 e c)).
Proof.
  intros s0 s D R HW HM HRS.
  pose proof (r2r_rest_struct s0 s HRS) as HSS.
  assert (HIT : length (w_istarget s) = length (w_istarget s0)).
  { destruct HRS as (_ & _ & EI & _). rewrite EI. reflexivity. }
  destruct HM as [M1 M2 M3 M4 M5 M6 M7].
  destruct M5 as (fl0 & P1 & P2 & P3 & P4 & P5 & P6 & P7).
  destruct (wf_index_len _ HW) as (IL1 & IL2).
  (* facts about doomed ids *)
  assert (HDlive : forall d, In d D -> live s0 d = true /\ 2 <= fst d /\
             exists tid r, In tid R /\ nth_error (w_index s0) (fst d) = Some (Some tid, r)).
  { intros d Hd. apply M7 in Hd. destruct Hd as (Hl & tid & r & Hin & Hloc).
    split; [exact Hl|]. split; [apply (live_alive s0 d HW Hl)|]. exists tid, r. split; [exact Hin|apply sb2_loc_iff; exact Hloc]. }
  assert (Hidx_in : forall id, In id (map fst D) -> exists r, nth_error (w_index s) id = Some (None, r)).
  { intros id Hin. rewrite M4, (proj2 (sb2_memb_In _ _) Hin).
    apply in_map_iff in Hin. destruct Hin as (d & <- & Hd). destruct (HDlive d Hd) as (_ & _ & tid & r & _ & Hi).
    rewrite Hi. exists r. reflexivity. }
  assert (Hidx_out : forall id, ~ In id (map fst D) -> nth_error (w_index s) id = nth_error (w_index s0) id).
  { intros id Hn. rewrite M4, (proj2 (sb2_memb_false _ _) Hn). reflexivity. }
  (* a row of a table that was not reset is not doomed *)
  assert (Hrow_keep : forall tid t0 r, nth_error (w_tables s0) tid = Some t0 -> r < t_len t0 -> memb tid R = false ->
             ~ In (fst (row_ent t0 r)) (map fst D)).
  { intros tid t0 r Ht Hr Hm Hin.
    destruct (wf_rows _ HW _ _ _ Ht Hr) as (A & _).
    assert (Hl : live s0 (row_ent t0 r) = true) by (eapply sb2_live_intro; eauto).
    pose proof (bo_live_id_in s0 D R _ HW M7 Hl Hin) as HeD. apply M7 in HeD.
    destruct HeD as (_ & x & r' & Hx & Hloc'). rewrite A in Hloc'. inversion Hloc'; subst x r'.
    apply sb2_memb_In in Hx. congruence. }
  assert (Hrow_doomed : forall tid t0 r, nth_error (w_tables s0) tid = Some t0 -> r < t_len t0 -> memb tid R = true ->
             In (fst (row_ent t0 r)) (map fst D)).
  { intros tid t0 r Ht Hr Hm. destruct (wf_rows _ HW _ _ _ Ht Hr) as (A & _).
    assert (Hl : live s0 (row_ent t0 r) = true) by (eapply sb2_live_intro; eauto).
    apply in_map. apply M7. split; [exact Hl|]. exists tid, r. split; [apply sb2_memb_In; exact Hm|exact A]. }
  assert (Htab_inv : forall tid t', nth_error (w_tables s) tid = Some t' ->
             exists t0, nth_error (w_tables s0) tid = Some t0 /\ tbl_ok t' /\ sb2_meta t0 t' /\
                        (if memb tid R then t_len t' = 0 else t' = t0)).
  { intros tid t' Ht'. destruct (nth_error (w_tables s0) tid) as [t0|] eqn:E0.
    - destruct (M2 tid t0 E0) as (t1 & E1 & Q). rewrite Ht' in E1. inversion E1; subst t1. exists t0. auto.
    - apply nth_error_None in E0. apply sa_nth_error_lt in Ht'. lia. }
  assert (HW' : WF s).
  { apply (r2c_WF_intro s0 s HW HSS).
    - split; [exact M1|]. intros tid t0 Ht0. destruct (M2 tid t0 Ht0) as (t' & E' & Hok & (A1 & A2 & A3 & A4 & A5 & A6) & _).
      exists t'. split; [exact E'|]. split; [exact Hok|]. repeat split; assumption.
    - split; [rewrite M3, P5; exact IL1|rewrite M3, HIT; exact IL2].
    - intros tid t r Ht Hr. destruct (Htab_inv tid t Ht) as (t0 & Ht0 & _ & _ & Hcase).
      destruct (memb tid R) eqn:Em; [lia|]. subst t.
      pose proof (Hrow_keep tid t0 r Ht0 Hr Em) as Hk.
      destruct (wf_rows _ HW _ _ _ Ht0 Hr) as (A & B). split.
      + apply sb2_loc_iff. rewrite Hidx_out by exact Hk. apply sb2_loc_iff. exact A.
      + rewrite P6 by exact Hk. exact B.
    - intros id tid r Hi.
      assert (Hn : ~ In id (map fst D)).
      { intros Hin. destruct (Hidx_in id Hin) as (r' & E). congruence. }
      rewrite Hidx_out in Hi by exact Hn.
      destruct (wf_index _ HW _ _ _ Hi) as (t0 & Ht0 & Hr & Hf).
      destruct (M2 tid t0 Ht0) as (t' & E' & _ & _ & Hcase).
      destruct (memb tid R) eqn:Em.
      + exfalso. apply Hn. rewrite <- Hf. exact (Hrow_doomed tid t0 r Ht0 Hr Em).
      + subst t'. exists t0. auto.
    - exists (rev (map fst D) ++ fl0). split; [exact P4|]. split.
      + intros i Hi. destruct (in_dec Nat.eq_dec i (map fst D)) as [Hd|Hd]; [apply Hidx_in; exact Hd|].
        rewrite Hidx_out by exact Hd. apply P2. apply in_app_or in Hi. destruct Hi as [Hi|Hi]; [|exact Hi].
        exfalso. apply Hd. apply in_rev. exact Hi.
      + intros i Hi Hn. rewrite P5 in Hi.
        assert (Hd : ~ In i (map fst D)) by (intros X; apply Hn; apply in_or_app; left; apply in_rev in X; exact X).
        rewrite Hidx_out by exact Hd. apply P3; [exact Hi|]. intros X. apply Hn. apply in_or_app. right. exact X.
    - destruct (wf_reserved _ HW) as ((r0 & I0) & (r1 & I1) & E0 & E1).
      assert (H0 : ~ In 0 (map fst D)).
      { intros Hin. apply in_map_iff in Hin. destruct Hin as (d & Ed & Hd). destruct (HDlive d Hd) as (_ & H2 & _). lia. }
      assert (H1 : ~ In 1 (map fst D)).
      { intros Hin. apply in_map_iff in Hin. destruct Hin as (d & Ed & Hd). destruct (HDlive d Hd) as (_ & H2 & _). lia. }
      split; [exists r0; rewrite Hidx_out by exact H0; exact I0|].
      split; [exists r1; rewrite Hidx_out by exact H1; exact I1|].
      split; [rewrite P6 by exact H0; exact E0|rewrite P6 by exact H1; exact E1].
    - rewrite P5. apply (wf_small _ HW). }
  split; [exact HW'|]. split.
  - intros e He. destruct (HDlive e He) as (Hl0 & H2 & _). split; [|split; [|split; [exact H2|exact Hl0]]].
    + destruct (Hidx_in (fst e) (in_map fst _ _ He)) as (r & E).
      assert (Hl : loc s e = None) by (unfold loc; rewrite E; reflexivity).
      apply (sb2_live_none s e Hl).
    + destruct (P7 e He) as (l & E). unfold alive, pool_alive. rewrite E.
      apply N.eqb_neq. apply sb3_gen_bump.
  - intros e Hn.
    assert (Hkeep : live s0 e = true -> exists tid r t0, loc s0 e = Some (tid, r) /\ nth_error (w_tables s0) tid = Some t0 /\
               r < t_len t0 /\ row_ent t0 r = e /\ nth_error (w_tables s) tid = Some t0 /\ loc s e = Some (tid, r)).
    { intros Hl0. destruct (sb2_live_elim _ _ Hl0) as (tid & r & t0 & L0 & T0 & R0 & E0).
      assert (Hk : ~ In (fst e) (map fst D)).
      { intros Hin. apply Hn. exact (bo_live_id_in s0 D R e HW M7 Hl0 Hin). }
      assert (Em : memb tid R = false).
      { destruct (memb tid R) eqn:Em; [|reflexivity]. exfalso. apply Hn. apply M7. split; [exact Hl0|].
        exists tid, r. split; [apply sb2_memb_In; exact Em|exact L0]. }
      destruct (M2 tid t0 T0) as (t' & E' & _ & _ & Hcase). rewrite Em in Hcase. subst t'.
      exists tid, r, t0. repeat split; try assumption.
      apply sb2_loc_iff. rewrite Hidx_out by exact Hk. apply sb2_loc_iff. exact L0. }
    assert (Hlive : live s e = live s0 e).
    { destruct (live s0 e) eqn:Hl0.
      - destruct (Hkeep eq_refl) as (tid & r & t0 & L0 & T0 & R0 & E0 & T' & L').
        exact (sb2_live_intro s e tid r t0 L' T' R0 E0).
      - destruct (live s e) eqn:Hl'; [|reflexivity]. exfalso.
        destruct (sb2_live_elim _ _ Hl') as (tid & r & t' & L' & T' & R' & E').
        destruct (Htab_inv tid t' T') as (t0 & Ht0 & _ & _ & Hcase).
        destruct (memb tid R) eqn:Em; [lia|]. subst t'.
        assert (Hk : ~ In (fst e) (map fst D)).
        { intros Hin. destruct (Hidx_in _ Hin) as (r' & E). apply sb2_loc_iff in L'. congruence. }
        apply sb2_loc_iff in L'. rewrite Hidx_out in L' by exact Hk. apply sb2_loc_iff in L'.
        rewrite (sb2_live_intro s0 e tid r t0 L' Ht0 R' E') in Hl0. discriminate. }
    split; [exact Hlive|]. split.
    + intros c. unfold val. rewrite Hlive.
      destruct (live s0 e) eqn:Hl0; [|reflexivity].
      destruct (Hkeep eq_refl) as (tid & r & t0 & L0 & T0 & R0 & E0 & T' & L').
      destruct (sb2_live_at _ _ _ _ _ L' T') as (_ & V'). destruct (sb2_live_at _ _ _ _ _ L0 T0) as (_ & V0).
      rewrite V', V0. reflexivity.
    + intros c. unfold tgt. rewrite Hlive.
      destruct (live s0 e) eqn:Hl0; [|reflexivity].
      destruct (Hkeep eq_refl) as (tid & r & t0 & L0 & T0 & R0 & E0 & T' & L').
      unfold target_of. rewrite L', L0, T', T0. reflexivity.
Qed.

(* ================================================================================================ *)
(** * 3. The window invariant after the row loop *)

Lemma r2r_ent_eq_dec : forall x y : ent, {x = y} + {x <> y}.
Proof. intros [a b] [c d]. destruct (Nat.eq_dec a c) as [->|Hn]; [|right; congruence]. destruct (N.eq_dec b d) as [->|Hn]; [left; reflexivity|right; congruence]. Qed.

Lemma r2r_rest_same_refl : forall s, bo_rest_same s s.
Proof. intros s. unfold bo_rest_same. repeat split. Qed.

(** In a [RelInvG] state (any window) a free table is empty. *)
Lemma r2r_free_empty : forall D s tid t, RelInvG D s -> nth_error (w_tables s) tid = Some t -> t_free t = true -> t_len t = 0.
Proof.
  intros D s tid t HR Ht Hf. destruct (ri_listed D s HR tid t Ht) as (a & Ha & Hl). rewrite Hf in Hl.
  apply (ri_freed D s HR (t_arch t) a tid t Ha Hl Ht).
Qed.

Lemma r2r_filter_in : forall s (D : list ent) e, In e (filter (r2r_flagged s) D) <-> In e D /\ nth (fst e) (w_istarget s) false = true.
Proof. intros s D e. rewrite filter_In. unfold r2r_flagged. tauto. Qed.

(** The invariant part, for any state of the loop that started in an [St2] state. *)
Lemma r2r_mid_St2G : forall s s3 D R, St2 s -> bo_mid s s3 D R -> bo_rest_same s s3 ->
  St2G (r2r_ids (filter (r2r_flagged s) D)) r2_none r2_none s3.
Proof.
  intros s s3 D R HS HM HRS. pose proof HS as (HW & (HR & HT) & HC).
  destruct (r2r_mid_final s s3 D R HW HM HRS) as (HW3 & Hrem & Hkeep).
  pose proof HRS as (E1 & E2 & E3 & E4 & E5 & E6 & E7 & E8 & E9 & E10 & E11 & E12 & E13 & E14 & E15 & E16 & E17 & E18 & E19 & E20 & E21 & E22 & E23).
  assert (HG : St2G (r2r_ids D) r2_none r2_none s3).
  { apply (L_St2G_rows (r2r_ids D) r2_none r2_none s s3).
    - split; [exact HW|]. split; [apply (r2_RelInvG_mono s r2_none); [intros k []|exact HR]|]. split; [exact HT|exact HC].
    - exact HW3.
    - exact E4.
    - exact E5.
    - exact E10.
    - exact E9.
    - exact E19.
    - intros tid t Ht. destruct (bm_tabs _ _ _ _ HM tid t Ht) as (t' & Ht' & _ & Hmeta & Hcase).
      exists t'. split; [exact Ht'|]. split; [exact Hmeta|]. intros Hf.
      destruct (memb tid R); [exact Hcase|]. subst t'. apply (r2r_free_empty r2_none s tid t HR Ht Hf).
    - apply (bm_tlen _ _ _ _ HM).
    - intros x Hx. destruct (in_dec r2r_ent_eq_dec x D) as [Hin|Hnin].
      + right. unfold r2r_ids. apply in_map. exact Hin.
      + left. destruct (Hkeep x Hnin) as (Hl & _). rewrite Hl. exact Hx.
    - intros aid a k l _ _ Hf. rewrite E3. exact Hf. }
  destruct HG as (_ & HR3 & HT3 & HC3). split; [exact HW3|]. split; [|split; [exact HT3|exact HC3]].
  apply (r2_RelInvG_drop s3 (r2r_ids D) _ HR3).
  intros k Hk. unfold r2r_ids in Hk. apply in_map_iff in Hk. destruct Hk as (e & <- & He).
  destruct (nth (fst e) (w_istarget s) false) eqn:Ef.
  - left. unfold r2r_ids. apply in_map. apply r2r_filter_in. split; assumption.
  - right. intros aid a Ha. destruct (afind (fst e) (a_tgttabs a)) as [l|] eqn:El; [|reflexivity]. exfalso.
    rewrite E4 in Ha. destruct (HT aid a (fst e) l Ha El) as [H0|[H1|[]]].
    + destruct (Hrem e He) as (_ & _ & H2 & _). lia.
    + congruence.
Qed.

(* ================================================================================================ *)
(** * 4. The theorem *)

Theorem r2r_rows_spec : forall s tabs, St2 s -> r2d_KeysLive s ->
  (forall tid, In tid tabs -> exists t, nth_error (w_tables s) tid = Some t) ->
  exists s3 D cl,
    bo_rm_tabs tabs [] s = Ok cl s3 /\
    NoDup (map fst D) /\
    (forall e, In e D <-> (live s e = true /\ bo_in_tabs s tabs e)) /\
    cl = filter (fun e => nth (fst e) (w_istarget s) false) D /\
    St2G (r2r_ids cl) r2_none r2_none s3 /\
    (forall e, In e D -> live s3 e = false /\ alive s3 e = false /\ 2 <= fst e) /\
    (forall e, ~ In e D -> live s3 e = live s e /\ (forall c, val s3 e c = val s e c) /\ (forall c, tgt s3 e c = tgt s e c)) /\
    (* the only target with the id of a dying entity that an ACTIVE table names is that entity itself *)
    (forall tid t r, nth_error (w_tables s3) tid = Some t -> t_free t = false -> In r (t_rels t) ->
        r2r_ids cl (fst (snd r)) -> In (snd r) cl) /\
    (* no stored entity has the id of a dying one *)
    (forall x, r2r_ids cl (fst x) -> live s3 x = false) /\
    (* every lookup key is 0, dying, or the id of a stored entity *)
    (forall aid a k l, nth_error (w_archs s3) aid = Some a -> afind k (a_tgttabs a) = Some l ->
        k = 0 \/ r2r_ids cl k \/ exists g, live s3 (k, g) = true) /\
    bo_rest_same s s3 /\ length (pe (w_pool s3)) = length (pe (w_pool s)).
Proof.
  intros s tabs HS HK Hval. pose proof HS as (HW & (HR & HT) & HC).
  destruct (r2r_rm_tabs_run tabs s s [] [] [] HW (r2r_mid_init s HW) (r2r_rest_same_refl s) Hval) as (s3 & D & Hrun & HM & HRS).
  cbn [app] in Hrun, HM. rewrite app_nil_r in HM.
  destruct (r2r_mid_final s s3 D (rev tabs) HW HM HRS) as (HW3 & Hrem & Hkeep).
  pose proof (r2r_mid_St2G s s3 D (rev tabs) HS HM HRS) as HG.
  set (cl := filter (r2r_flagged s) D) in *.
  assert (Hcl : forall e, In e cl -> In e D /\ live s e = true /\ 2 <= fst e /\ nth (fst e) (w_istarget s) false = true).
  { intros e He. apply r2r_filter_in in He. destruct He as (He & Hf). destruct (Hrem e He) as (_ & _ & H2 & Hl). auto. }
  assert (Hid : forall k, r2r_ids cl k -> exists e, In e cl /\ fst e = k).
  { intros k Hk. unfold r2r_ids in Hk. apply in_map_iff in Hk. destruct Hk as (e & E & He). exists e. auto. }
  exists s3, D, cl. split; [exact Hrun|]. split; [exact (bm_nodup _ _ _ _ HM)|]. split.
  { intros e. rewrite (bm_D _ _ _ _ HM e). unfold bo_doomed, bo_in_tabs. split; intros (Hl & tid & r & Hin & Hloc); (split; [exact Hl|]); exists tid, r; (split; [|exact Hloc]).
    - apply in_rev. exact Hin.
    - apply in_rev in Hin. exact Hin. }
  split; [reflexivity|]. split; [exact HG|]. split.
  { intros e He. destruct (Hrem e He) as (A & B & C & _). auto. }
  split; [exact Hkeep|]. split.
  { (* only *)
    intros tid t r Ht Hf Hin Hk. destruct (Hid _ Hk) as (e & He & Ee). destruct (Hcl e He) as (HeD & Hle & H2 & _).
    assert (Hlt : tid < length (w_tables s)).
    { rewrite <- (bm_tlen _ _ _ _ HM). apply (sa_nth_error_lt _ _ _ _ Ht). }
    destruct (nth_error (w_tables s) tid) as [t0|] eqn:Et0; [|apply nth_error_None in Et0; lia].
    destruct (bm_tabs _ _ _ _ HM tid t0 Et0) as (t' & Ht' & _ & (M1 & M2 & M3 & M4 & M5 & M6) & _).
    rewrite Ht in Ht'. injection Ht' as <-. rewrite M6 in Hf. rewrite M5 in Hin.
    destruct (ri_targets_ok _ _ HR tid t0 r Et0 Hf Hin) as [Hz|[Hl|[]]].
    - rewrite Hz in Ee. cbn in Ee. lia.
    - rewrite (r2c_live_same_id s (snd r) e Hl Hle (eq_sym Ee)). exact He. }
  split.
  { (* dead *)
    intros x Hk. destruct (Hid _ Hk) as (e & He & Ee). destruct (Hcl e He) as (HeD & Hle & _).
    destruct (in_dec r2r_ent_eq_dec x D) as [Hin|Hnin]; [apply (Hrem x Hin)|].
    destruct (Hkeep x Hnin) as (Hl & _). destruct (live s3 x) eqn:Hl3; [|reflexivity]. exfalso.
    apply Hnin. rewrite (r2c_live_same_id s x e (eq_sym Hl) Hle (eq_sym Ee)). exact HeD. }
  split.
  { (* keys *)
    intros aid a k l Ha Hl. pose proof HRS as (_ & _ & _ & E4 & _). rewrite E4 in Ha.
    destruct (HK aid a k l Ha Hl) as [H0|(g & Hg)]; [left; exact H0|].
    destruct (in_dec r2r_ent_eq_dec (k, g) D) as [Hin|Hnin].
    - destruct (HT aid a k l Ha Hl) as [H0|[H1|[]]]; [left; exact H0|]. right. left.
      unfold r2r_ids. apply (in_map fst cl (k, g)). apply r2r_filter_in. split; [exact Hin|exact H1].
    - right. right. exists g. destruct (Hkeep (k, g) Hnin) as (E & _). rewrite E. exact Hg. }
  split; [exact HRS|].
  destruct (bm_pool _ _ _ _ HM) as (fl0 & _ & _ & _ & _ & P5 & _). exact P5.
Qed.

(* ================================================================================================ *)
(** * 5. Non-vacuity

    The world after the first seven lines of script 8 of Rel2Check: table 1 holds the parents (2,0) and
    (3,0) (both flagged as targets), table 2 the parent (4,0), tables 3-6 one child each; the child (5,0)
    of table 3 points at (2,0) and (3,0) and is itself nobody's target. The row loop over tables 1 and 3
    removes three entities, two of which go to the cleanup list. *)

Definition r2r_ex_world : W := Properties.Common.exec Rel2Check.r2_cfg (firstn 7 Rel2Check.r2_s8).
Definition r2r_ex_after : W :=
  match bo_rm_tabs [1; 3] [] r2r_ex_world with Ok _ s3 => s3 | Err _ s3 => s3 end.

Example r2r_rows_spec_nonvacuous :
  St2 r2r_ex_world /\ r2d_KeysLive r2r_ex_world /\
  (forall tid, In tid [1; 3] -> exists t, nth_error (w_tables r2r_ex_world) tid = Some t).
Proof.
  assert (HS : St2 r2r_ex_world) by (apply st2_b_sound; vm_compute; reflexivity).
  split; [exact HS|]. split; [apply (r2d_keys_live_b_sound _ (proj1 HS)); vm_compute; reflexivity|].
  intros tid Hin.
  assert (Hlt : tid < length (w_tables r2r_ex_world)) by (destruct Hin as [<-|[<-|[]]]; vm_compute; lia).
  destruct (nth_error (w_tables r2r_ex_world) tid) as [t|] eqn:E; [exists t; reflexivity|].
  apply nth_error_None in E. lia.
Qed.

(** What the loop computes there, and what the theorem says about it: the cleanup list is not empty
    and differs from the list of removed entities; the state between the two phases satisfies the
    window invariant but NOT the strict one ([st2_b] fails: the tables of the children still name the
    removed parents); the child (6,0) of table 4 still points at the dead (2,0). *)
Example r2r_ex_by_theorem :
  bo_rm_tabs [1; 3] [] r2r_ex_world = Ok [(2, 0%N); (3, 0%N)] r2r_ex_after /\
  St2G (r2r_ids [(2, 0%N); (3, 0%N)]) r2_none r2_none r2r_ex_after /\
  st2_b r2r_ex_after = false /\
  map (live r2r_ex_after) [(2, 0%N); (3, 0%N); (4, 0%N); (5, 0%N); (6, 0%N)] = [false; false; true; false; true] /\
  tgt r2r_ex_after (6, 0%N) 3 = Some (2, 0%N) /\
  (forall x, fst x = 2 \/ fst x = 3 -> live r2r_ex_after x = false).
Proof.
  destruct r2r_rows_spec_nonvacuous as (HS & HK & Hv).
  destruct (r2r_rows_spec r2r_ex_world [1; 3] HS HK Hv) as (s3 & D & cl & Hrun & _ & _ & _ & HG & _ & _ & _ & Hdead & _).
  assert (E : bo_rm_tabs [1; 3] [] r2r_ex_world = Ok [(2, 0%N); (3, 0%N)] r2r_ex_after) by (vm_compute; reflexivity).
  rewrite E in Hrun.
  (* ([injection] would try to evaluate the closed world; project by hand) *)
  pose proof (f_equal (fun r : res W (list ent) => match r with Ok a _ => a | Err _ _ => [] end) Hrun) as Ecl.
  pose proof (f_equal (fun r : res W (list ent) => match r with Ok _ x => x | Err _ x => x end) Hrun) as Es.
  cbv beta iota in Ecl, Es. subst cl s3.
  split; [exact E|]. split; [exact HG|]. split; [vm_compute; reflexivity|]. split; [vm_compute; reflexivity|].
  split; [vm_compute; reflexivity|].
  intros x Hx. apply Hdead. unfold r2r_ids. cbn [map fst]. destruct Hx as [->| ->]; [left|right; left]; reflexivity.
Qed.

Definition r2r_all := (r2r_mid_init, r2r_rm_tabs_run, r2r_mid_final, r2r_mid_St2G, r2r_rows_spec,
  r2r_rows_spec_nonvacuous, r2r_ex_by_theorem).
Print Assumptions r2r_all.
Print Assumptions r2r_rows_spec.
