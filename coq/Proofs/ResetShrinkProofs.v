(** * ResetShrinkProofs: Reset and Shrink in relation-free worlds. Properties C15 (Shrink is
    invisible; capacity bounds; the result says whether work remains), C16 (Reset empties the world
    and keeps it well formed). Helper lemmas carry the prefix [r_]. *)
From Ark Require Import Model.Base Model.Mask Model.Pool Model.Util Model.World Model.Run.
From Ark Require Import Proofs.TableProofs Proofs.UtilProofs Proofs.MaskProofs Proofs.WF Proofs.StorageA Proofs.StorageBDefs.
From Ark Require Import Proofs.StorageB_sb3.
From Ark Require Proofs.ObsProofs Proofs.StorageC.
From RecordUpdate Require Import RecordSet.
Import RecordSetNotations.
From Coq Require Import Lia.

(** ** Small list and record helpers *)

Lemma r_set_tables_id : forall s : W, s <| w_tables := w_tables s |> = s.
Proof. intros s. destruct s. reflexivity. Qed.

Lemma r_upd_same : forall A (l : list A) i x, nth_error l i = Some x -> upd i x l = l.
Proof.
  induction l as [|a l IH]; intros [|i] x H; simpl in *; try discriminate.
  - inversion H; reflexivity.
  - rewrite IH by assumption. reflexivity.
Qed.

Lemma r_nth_error_firstn : forall A (l : list A) n i, i < n -> nth_error (firstn n l) i = nth_error l i.
Proof.
  induction l as [|a l IH]; intros [|n] [|i] H; simpl; try reflexivity; try lia.
  apply IH. lia.
Qed.

Lemma r_in_skipn : forall A (l : list A) k x, In x (skipn k l) <-> exists j, k <= j /\ nth_error l j = Some x.
Proof.
  induction l as [|a l IH]; intros k x.
  - rewrite skipn_nil. split; [intros []|]. intros ([|j] & _ & E); discriminate.
  - destruct k as [|k].
    + simpl skipn. split.
      * intros H. apply In_nth_error in H. destruct H as (j & E). exists j. split; [lia|exact E].
      * intros (j & _ & E). eapply nth_error_In; eauto.
    + simpl skipn. rewrite IH. split.
      * intros (j & Hj & E). exists (S j). split; [lia|exact E].
      * intros ([|j] & Hj & E); [lia|]. exists j. split; [lia|exact E].
Qed.

Lemma r_filter_pos : forall A (f : A -> bool) l, 0 < length (filter f l) <-> exists x, In x l /\ f x = true.
Proof.
  intros A f l. split.
  - intros H. destruct (filter f l) as [|x r] eqn:E; [simpl in H; lia|].
    assert (Hin : In x (filter f l)) by (rewrite E; left; reflexivity).
    apply filter_In in Hin. exists x. exact Hin.
  - intros (x & Hin & Hf). assert (Hx : In x (filter f l)) by (apply filter_In; auto).
    destruct (filter f l); [destruct Hx|simpl; lia].
Qed.

(** Counting: if every selected entry of [l'] is matched by a selected entry of [l] at the same
    position, [l'] has at most as many; strictly fewer if some position lost its selection. *)
Lemma r_count_le : forall A (f : A -> bool) (l l' : list A), length l' = length l ->
  (forall j x', nth_error l' j = Some x' -> f x' = true -> exists x, nth_error l j = Some x /\ f x = true) ->
  length (filter f l') <= length (filter f l).
Proof.
  induction l as [|a l IH]; intros [|a' l'] HL H; simpl in *; try lia.
  assert (IHl : length (filter f l') <= length (filter f l)).
  { apply IH; [lia|]. intros j x' E Hf. exact (H (S j) x' E Hf). }
  destruct (f a') eqn:Fa'.
  - destruct (H 0 a' eq_refl Fa') as (x & E & Fx). simpl in E. inversion E; subst x. rewrite Fx. simpl. lia.
  - destruct (f a); simpl; lia.
Qed.

Lemma r_count_lt : forall A (f : A -> bool) (l l' : list A), length l' = length l ->
  (forall j x', nth_error l' j = Some x' -> f x' = true -> exists x, nth_error l j = Some x /\ f x = true) ->
  (exists j x x', nth_error l j = Some x /\ f x = true /\ nth_error l' j = Some x' /\ f x' = false) ->
  length (filter f l') < length (filter f l).
Proof.
  induction l as [|a l IH]; intros [|a' l'] HL H (j & x & x' & E & Fx & E' & Fx'); simpl in *; try lia.
  - destruct j; discriminate.
  - assert (Hle : length (filter f l') <= length (filter f l)).
    { apply r_count_le; [lia|]. intros k y' Ek Hf. exact (H (S k) y' Ek Hf). }
    destruct j as [|j].
    + simpl in E, E'. inversion E; inversion E'; subst. rewrite Fx, Fx'. simpl. lia.
    + simpl in E, E'.
      assert (Hlt : length (filter f l') < length (filter f l)).
      { apply IH; [lia| |].
        - intros k y' Ek Hf. exact (H (S k) y' Ek Hf).
        - exists j, x, x'. auto. }
      destruct (f a') eqn:Fa'.
      * destruct (H 0 a' eq_refl Fa') as (y & Ey & Fy). simpl in Ey. inversion Ey; subst y. rewrite Fy. simpl. lia.
      * destruct (f a); simpl; lia.
Qed.

(** ** Shrink *)

(** The work done for one table, and the loop of [w_shrink_core] as a top-level fixpoint. *)
Definition r_any1 (idx : nat) (any : bool) (t : table) (s : W) : MW bool :=
  if negb (tbl_has_rels t) then
    if tbl_can_shrink t (cf_cap (w_cfg s))
    then modT idx (fun t => tbl_adjust t (tbl_shrink_target t (cf_cap (w_cfg s)))) ;;; ret true
    else ret any
  else
    a1 <- (if tbl_can_shrink t (cf_caprel (w_cfg s))
           then modT idx (fun t => tbl_adjust t (tbl_shrink_target t (cf_caprel (w_cfg s)))) ;;; ret true
           else ret any) ;;
    t <- getT idx ;;
    if (negb (t_free t) && Nat.eqb (t_len t) 0)%bool then
      free_table (t_arch t) idx ;;;
      modA (t_arch t) (fun a => remove_from_targets_cols idx 0 (t_kinds t) (t_targets t) a) ;;;
      cache_remove_table idx ;;;
      ret true
    else ret a1.

(** The loop under an arbitrary clock: [clock idx] = "the time budget has expired when table [idx] has
    just been processed". [r_go stop0] is the instance at the constant clock. *)
Section RGo.
Variable clock : nat -> bool.
Fixpoint r_go_clock (fuel : nat) (idx : nat) (any : bool) : MW (nat * bool) :=
  match fuel with
  | O => ret (idx, any)
  | S f =>
      t <- getT idx ;;
      s <- get ;;
      any1 <- r_any1 idx any t s ;;
      if (any1 && clock idx)%bool then ret (idx, any1)
      else match f with O => ret (idx, any1) | _ => r_go_clock f (S idx) any1 end
  end.
End RGo.

Definition r_go (stop0 : bool) : nat -> nat -> bool -> MW (nat * bool) := r_go_clock (fun _ => stop0).

Definition r_work (s : W) (t : table) : bool :=
  if negb (tbl_has_rels t) then tbl_can_shrink t (cf_cap (w_cfg s))
  else (tbl_can_shrink t (cf_caprel (w_cfg s)) || (negb (t_free t) && Nat.eqb (t_len t) 0))%bool.

Lemma r_shrink_unfold_clock : forall clock,
  w_shrink_clock clock =
  (s <- get ;;
   r <- r_go_clock clock (length (w_tables s)) 0 false ;;
   let '(last, _) := r in
   s <- get ;;
   ret (existsb (r_work s) (skipn (S last) (w_tables s)))).
Proof. intros. lazy delta [w_shrink_clock r_go_clock r_any1 r_work] beta. reflexivity. Qed.

Lemma r_shrink_unfold : forall stop0,
  w_shrink_core stop0 =
  (s <- get ;;
   r <- r_go stop0 (length (w_tables s)) 0 false ;;
   let '(last, _) := r in
   s <- get ;;
   ret (existsb (r_work s) (skipn (S last) (w_tables s)))).
Proof. intros. unfold w_shrink_core, r_go. apply r_shrink_unfold_clock. Qed.

Lemma r_shrink_eq_clock : forall clock s,
  w_shrink_clock clock s =
  match r_go_clock clock (length (w_tables s)) 0 false s with
  | Ok r s' => Ok (existsb (r_work s') (skipn (S (fst r)) (w_tables s'))) s'
  | Err e s' => Err e s'
  end.
Proof.
  intros. rewrite r_shrink_unfold_clock. unfold bind, get, ret.
  destruct (r_go_clock clock (length (w_tables s)) 0 false s) as [[last any'] s'|e s']; reflexivity.
Qed.

Lemma r_shrink_eq : forall stop0 s,
  w_shrink_core stop0 s =
  match r_go stop0 (length (w_tables s)) 0 false s with
  | Ok r s' => Ok (existsb (r_work s') (skipn (S (fst r)) (w_tables s'))) s'
  | Err e s' => Err e s'
  end.
Proof. intros. unfold w_shrink_core, r_go. apply r_shrink_eq_clock. Qed.

(** What Shrink does to one relation-free table. *)
Definition r_step (c : nat) (t : table) : table :=
  if tbl_can_shrink t c then tbl_adjust t (tbl_shrink_target t c) else t.

Lemma r_step_noshrink : forall c t, tbl_can_shrink (r_step c t) c = false.
Proof.
  intros c t. unfold r_step. destruct (tbl_can_shrink t c) eqn:E; [|exact E].
  unfold tbl_can_shrink, tbl_shrink_target.
  destruct (tbl_adjust_len t (Nat.max (cap_pow2 (t_len t)) c)) as [L C]. rewrite L, C. apply Nat.ltb_irrefl.
Qed.

Lemma r_step_has_rels : forall c t, tbl_has_rels (r_step c t) = tbl_has_rels t.
Proof. intros. unfold r_step. destruct (tbl_can_shrink t c); reflexivity. Qed.

Lemma r_modT_state : forall (s : W) idx f t, nth_error (w_tables s) idx = Some t ->
  s <| w_tables ::= updf idx f |> = s <| w_tables := upd idx (f t) (w_tables s) |>.
Proof.
  intros s idx f t H.
  change (s <| w_tables ::= updf idx f |>) with (s <| w_tables := updf idx f (w_tables s) |>).
  unfold updf. rewrite H. reflexivity.
Qed.

Lemma r_any1_eq : forall idx any t s,
  nth_error (w_tables s) idx = Some t -> tbl_has_rels t = false ->
  r_any1 idx any t s s =
  Ok (tbl_can_shrink t (cf_cap (w_cfg s)) || any)%bool
     (s <| w_tables := upd idx (r_step (cf_cap (w_cfg s)) t) (w_tables s) |>).
Proof.
  intros idx any t s Ht Hr. unfold r_any1, r_step. rewrite Hr. cbn [negb].
  destruct (tbl_can_shrink t (cf_cap (w_cfg s))) eqn:E.
  - unfold bind, modT, modify, ret. cbn [orb]. f_equal.
    exact (r_modT_state s idx (fun t => tbl_adjust t (tbl_shrink_target t (cf_cap (w_cfg s)))) t Ht).
  - cbn [orb]. unfold ret. rewrite (r_upd_same _ _ _ _ Ht), r_set_tables_id. reflexivity.
Qed.

Definition r_in (idx last j : nat) : bool := (Nat.leb idx j && Nat.leb j last)%bool.

(** Some table among [lo..hi] of [s] can shrink. *)
Definition r_found (s : W) (c lo hi : nat) : Prop :=
  exists k t, lo <= k <= hi /\ nth_error (w_tables s) k = Some t /\ tbl_can_shrink t c = true.

Lemma r_found_one : forall s c idx t, nth_error (w_tables s) idx = Some t ->
  (r_found s c idx idx <-> tbl_can_shrink t c = true).
Proof.
  intros s c idx t Ht. split.
  - intros (k & tk & Hk & Ek & Ck). assert (k = idx) by lia. subst k. rewrite Ht in Ek. inversion Ek; subst tk. exact Ck.
  - intros C. exists idx, t. split; [lia|]. split; [exact Ht|exact C].
Qed.

Lemma r_found_split : forall s c idx hi t, nth_error (w_tables s) idx = Some t -> idx <= hi ->
  (r_found s c idx hi <-> tbl_can_shrink t c = true \/ r_found s c (S idx) hi).
Proof.
  intros s c idx hi t Ht Hle. split.
  - intros (k & tk & Hk & Ek & Ck). destruct (Nat.eq_dec k idx) as [->|Hne].
    + rewrite Ht in Ek. inversion Ek; subst tk. left. exact Ck.
    + right. exists k, tk. split; [lia|]. split; [exact Ek|exact Ck].
  - intros [C|(k & tk & Hk & Ek & Ck)].
    + exists idx, t. split; [lia|]. split; [exact Ht|exact C].
    + exists k, tk. split; [lia|]. split; [exact Ek|exact Ck].
Qed.

Lemma r_found_ext : forall s s1 c lo hi,
  (forall k, lo <= k -> nth_error (w_tables s1) k = nth_error (w_tables s) k) ->
  (r_found s1 c lo hi <-> r_found s c lo hi).
Proof.
  intros s s1 c lo hi Hext. split; intros (k & tk & Hk & Ek & Ck); exists k, tk; (split; [exact Hk|]); (split; [|exact Ck]).
  - rewrite <- Hext by lia. exact Ek.
  - rewrite Hext by lia. exact Ek.
Qed.

(** The loop under an arbitrary clock, in a relation-free world: it processes the tables [idx..last] (each
    one is brought to its target capacity), and [last] is exactly the first table after which the clock has
    expired while some table had work (or the final table). *)
Lemma r_go_spec_clock : forall clock c f idx any s,
  cf_cap (w_cfg s) = c ->
  (forall j t, nth_error (w_tables s) j = Some t -> tbl_has_rels t = false) ->
  idx + S f = length (w_tables s) ->
  exists last any' T',
    r_go_clock clock (S f) idx any s = Ok (last, any') (s <| w_tables := T' |>) /\
    length T' = length (w_tables s) /\ idx <= last < length (w_tables s) /\
    (forall j, nth_error T' j = if r_in idx last j then option_map (r_step c) (nth_error (w_tables s) j)
                                else nth_error (w_tables s) j) /\
    (S last = length (w_tables s) \/ (any' = true /\ clock last = true)) /\
    (any' = true <-> any = true \/ r_found s c idx last) /\
    (forall j, idx <= j < last -> clock j = true -> any = false /\ ~ r_found s c idx j).
Proof.
  intros clock c f. induction f as [|f IH]; intros idx any s Hc Hnr Hlen.
  - (* last table *)
    destruct (nth_error (w_tables s) idx) as [t|] eqn:Ht; [|apply nth_error_None in Ht; lia].
    cbn [r_go_clock]. rewrite (sa_bind_ok (sa_getT_eq _ _ _ Ht)).
    unfold bind at 1, get at 1. cbv beta iota.
    rewrite (sa_bind_ok (r_any1_eq idx any t s Ht (Hnr _ _ Ht))). rewrite Hc.
    set (any1 := (tbl_can_shrink t c || any)%bool).
    exists idx, any1, (upd idx (r_step c t) (w_tables s)).
    split; [destruct (any1 && clock idx)%bool; reflexivity|].
    split; [apply upd_length|]. split; [lia|].
    split; [|split; [left; lia|split]].
    + intros j. rewrite nth_error_upd. unfold r_in.
      destruct (Nat.eqb_spec idx j) as [<-|Hne].
      * rewrite Ht, !Nat.leb_refl. reflexivity.
      * destruct (Nat.leb_spec idx j), (Nat.leb_spec j idx); simpl; try reflexivity; lia.
    + rewrite (r_found_one s c idx t Ht). unfold any1. rewrite orb_true_iff. tauto.
    + intros j Hj. lia.
  - destruct (nth_error (w_tables s) idx) as [t|] eqn:Ht; [|apply nth_error_None in Ht; lia].
    change (r_go_clock clock (S (S f)) idx any) with
      (t <- getT idx ;; s <- get ;; any1 <- r_any1 idx any t s ;;
       if (any1 && clock idx)%bool then ret (idx, any1) else r_go_clock clock (S f) (S idx) any1).
    rewrite (sa_bind_ok (sa_getT_eq _ _ _ Ht)).
    unfold bind at 1, get at 1. cbv beta iota.
    rewrite (sa_bind_ok (r_any1_eq idx any t s Ht (Hnr _ _ Ht))). rewrite Hc.
    set (any1 := (tbl_can_shrink t c || any)%bool).
    assert (Hany1 : any1 = true <-> any = true \/ tbl_can_shrink t c = true).
    { unfold any1. rewrite orb_true_iff. tauto. }
    set (T1 := upd idx (r_step c t) (w_tables s)).
    assert (HT1 : forall j, nth_error T1 j = if Nat.eqb idx j then Some (r_step c t) else nth_error (w_tables s) j).
    { intros j. unfold T1. rewrite nth_error_upd. destruct (Nat.eqb_spec idx j) as [<-|]; [rewrite Ht|]; reflexivity. }
    destruct (any1 && clock idx)%bool eqn:Hstop.
    + (* the clock has expired and some table had work *)
      exists idx, any1, T1. split; [reflexivity|]. split; [apply upd_length|]. split; [lia|].
      apply andb_true_iff in Hstop. destruct Hstop as [Ha Hs].
      split; [|split; [right; split; assumption|split]].
      * intros j. rewrite HT1. unfold r_in.
        destruct (Nat.eqb_spec idx j) as [<-|Hne].
        -- rewrite Ht, !Nat.leb_refl. reflexivity.
        -- destruct (Nat.leb_spec idx j), (Nat.leb_spec j idx); simpl; try reflexivity; lia.
      * rewrite (r_found_one s c idx t Ht). exact Hany1.
      * intros j Hj. lia.
    + set (s1 := s <| w_tables := T1 |>).
      destruct (IH (S idx) any1 s1) as (last & any' & T' & E & L & B & P & S0 & S1 & S2).
      { exact Hc. }
      { intros j t0 E0. change (w_tables s1) with T1 in E0. rewrite HT1 in E0.
        destruct (Nat.eqb idx j).
        - inversion E0; subst t0. rewrite r_step_has_rels. exact (Hnr _ _ Ht).
        - exact (Hnr _ _ E0). }
      { change (w_tables s1) with T1. unfold T1. rewrite upd_length. lia. }
      assert (Hext : forall k, S idx <= k -> nth_error (w_tables s1) k = nth_error (w_tables s) k).
      { intros k Hk. change (w_tables s1) with T1. rewrite HT1. destruct (Nat.eqb_spec idx k); [lia|reflexivity]. }
      change (w_tables s1) with T1 in E, L, B, P, S0.
      assert (LT1 : length T1 = length (w_tables s)) by apply upd_length.
      exists last, any', T'. split; [exact E|]. split; [congruence|]. split; [lia|].
      split; [|split; [|split]].
      * intros j. rewrite P, HT1. unfold r_in.
        destruct (Nat.eqb_spec idx j) as [<-|Hne].
        -- rewrite Ht. destruct (Nat.leb_spec (S idx) idx); [lia|]. simpl.
           rewrite Nat.leb_refl. destruct (Nat.leb_spec idx last); [reflexivity|lia].
        -- destruct (Nat.leb_spec (S idx) j), (Nat.leb_spec idx j), (Nat.leb_spec j last); simpl; try reflexivity; lia.
      * destruct S0 as [Hend|Hc']; [left; congruence|right; exact Hc'].
      * rewrite S1, (r_found_ext s s1 c (S idx) last Hext), Hany1, (r_found_split s c idx last t Ht) by lia. tauto.
      * intros j Hj Hcj. destruct (Nat.eq_dec j idx) as [->|Hne].
        -- rewrite Hcj, andb_true_r in Hstop.
           assert (Hn : ~ (any = true \/ tbl_can_shrink t c = true)) by (rewrite <- Hany1, Hstop; discriminate).
           split; [destruct any; [exfalso; apply Hn; left; reflexivity|reflexivity]|].
           rewrite (r_found_one s c idx t Ht). intros C. apply Hn. right. exact C.
        -- destruct (S2 j) as (Ha1 & Hnf); [lia|exact Hcj|].
           assert (Hn : ~ (any = true \/ tbl_can_shrink t c = true)) by (rewrite <- Hany1, Ha1; discriminate).
           split; [destruct any; [exfalso; apply Hn; left; reflexivity|reflexivity]|].
           rewrite (r_found_split s c idx j t Ht) by lia. intros [C|F]; [apply Hn; right; exact C|].
           apply Hnf. apply (r_found_ext s s1 c (S idx) j Hext). exact F.
Qed.

(** The two extreme budgets (the statement used before the loop was generalised), as an instance. *)
Lemma r_go_spec : forall stop0 c f idx any s,
  cf_cap (w_cfg s) = c ->
  (forall j t, nth_error (w_tables s) j = Some t -> tbl_has_rels t = false) ->
  idx + S f = length (w_tables s) ->
  exists last any' T',
    r_go stop0 (S f) idx any s = Ok (last, any') (s <| w_tables := T' |>) /\
    length T' = length (w_tables s) /\ idx <= last < length (w_tables s) /\
    (forall j, nth_error T' j = if r_in idx last j then option_map (r_step c) (nth_error (w_tables s) j)
                                else nth_error (w_tables s) j) /\
    (stop0 = false -> S last = length (w_tables s)) /\
    (stop0 = true -> any = false ->
       S last = length (w_tables s) \/
       exists t, nth_error (w_tables s) last = Some t /\ tbl_can_shrink t c = true).
Proof.
  intros stop0 c f idx any s Hc Hnr Hlen.
  destruct (r_go_spec_clock (fun _ => stop0) c f idx any s Hc Hnr Hlen) as (last & any' & T' & E & L & B & P & S0 & S1 & S2).
  exists last, any', T'. split; [exact E|]. split; [exact L|]. split; [exact B|]. split; [exact P|]. split.
  - intros Hs. destruct S0 as [Hend|(_ & Hcl)]; [exact Hend|congruence].
  - intros Hs Hany. destruct S0 as [Hend|(Ha & _)]; [left; exact Hend|right].
    apply S1 in Ha. destruct Ha as [Ha|(k & t & Hk & Ek & Ck)]; [congruence|].
    destruct (Nat.eq_dec k last) as [->|Hne]; [exists t; split; assumption|].
    exfalso. destruct (S2 k) as (_ & Hnf); [lia|exact Hs|]. apply Hnf. exists k, t. split; [lia|]. split; assumption.
Qed.

(** Tables that look the same to every entity. *)
Definition r_tsim (t t' : table) : Prop :=
  tbl_ok t' /\ t_len t' = t_len t /\ t_arch t' = t_arch t /\ t_ids t' = t_ids t /\ t_kinds t' = t_kinds t /\
  t_targets t' = t_targets t /\ t_rels t' = t_rels t /\ t_free t' = t_free t /\
  (forall r, r < t_len t -> row_ent t' r = row_ent t r) /\
  (forall ci r, r < t_len t -> cell t' ci r = cell t ci r).

Lemma r_tsim_refl : forall t, tbl_ok t -> r_tsim t t.
Proof. intros t H. unfold r_tsim. split; [exact H|]. repeat split; reflexivity. Qed.

Lemma r_shrink_target_ge : forall t c, t_len t <= Nat.pow 2 31 -> t_len t <= tbl_shrink_target t c.
Proof.
  intros t c H. unfold tbl_shrink_target. pose proof (UtilProofs.cap_pow2_ge _ H). lia.
Qed.

Lemma r_tsim_step : forall c t, tbl_ok t -> t_len t <= Nat.pow 2 31 -> r_tsim t (r_step c t).
Proof.
  intros c t H Hs. unfold r_step. destruct (tbl_can_shrink t c); [|apply r_tsim_refl; exact H].
  pose proof (r_shrink_target_ge t c Hs) as Hge.
  unfold r_tsim. split; [apply tbl_adjust_ok; assumption|].
  repeat (split; [reflexivity|]). split.
  - intros r Hr. apply (tbl_adjust_rows t _ 0 r H Hge Hr).
  - intros ci r Hr. apply (tbl_adjust_rows t _ ci r H Hge Hr).
Qed.

Lemma r_sim_St : forall s T', St s -> length T' = length (w_tables s) ->
  (forall j t, nth_error (w_tables s) j = Some t -> exists t', nth_error T' j = Some t' /\ r_tsim t t') ->
  St (s <| w_tables := T' |>) /\ content_same s (s <| w_tables := T' |>).
Proof.
  intros s T' HSt HL Hf. pose proof HSt as (H & NR).
  set (s' := s <| w_tables := T' |>).
  assert (Hb : forall j t', nth_error T' j = Some t' -> exists t, nth_error (w_tables s) j = Some t /\ r_tsim t t').
  { intros j t' E'. destruct (nth_error (w_tables s) j) as [t|] eqn:E.
    - destruct (Hf _ _ E) as (t'' & E'' & R). rewrite E' in E''. inversion E''; subst t''. exists t. auto.
    - apply nth_error_None in E. assert (j < length T') by (apply nth_error_Some; congruence). lia. }
  split.
  - apply (sb3_St_intro s s' HSt).
    + unfold sb3_struct_same. repeat split; reflexivity.
    + split; [exact HL|]. intros tid t E. destruct (Hf _ _ E) as (t' & E' & O & L & F1 & F2 & F3 & F4 & F5 & F6 & _).
      exists t'. split; [exact E'|]. split; [exact O|]. repeat split; assumption.
    + exact (wf_index_len _ H).
    + intros tid t' r E' Hr. destruct (Hb _ _ E') as (t & E & O & L & F1 & F2 & F3 & F4 & F5 & F6 & Re & Rc).
      rewrite L in Hr. rewrite (Re _ Hr). exact (wf_rows _ H tid t r E Hr).
    + intros id tid r E. destruct (wf_index _ H id tid r E) as (t & Et & Hr & Hfst).
      destruct (Hf _ _ Et) as (t' & E' & O & L & F1 & F2 & F3 & F4 & F5 & F6 & Re & Rc).
      exists t'. split; [exact E'|]. split; [lia|]. rewrite (Re _ Hr). exact Hfst.
    + exact (wf_pool _ H).
    + exact (wf_reserved _ H).
    + exact (wf_small _ H).
  - intros e. destruct (sb3_row_of s e) as [[t r]|] eqn:E0.
    + destruct (sb3_row_of_wf _ _ _ _ H E0) as (tid & Ei & Et & Hr & Hfst).
      destruct (Hf _ _ Et) as (t' & E' & O & L & F1 & F2 & F3 & F4 & F5 & F6 & Re & Rc).
      assert (E0' : sb3_row_of s' e = Some (t', r)).
      { unfold sb3_row_of. change (w_index s') with (w_index s). change (w_tables s') with T'.
        rewrite Ei, E'. reflexivity. }
      apply (sb3_same_some s s' e t r t' r E0 E0'); auto; lia.
    + apply sb3_same_none; auto. unfold sb3_row_of in *.
      change (w_index s') with (w_index s). change (w_tables s') with T'.
      destruct (nth_error (w_index s) (fst e)) as [[[j|] r0]|]; auto.
      destruct (nth_error (w_tables s) j) eqn:Ej; [discriminate|].
      assert (En : nth_error T' j = None) by (apply nth_error_None; rewrite HL; apply nth_error_None; exact Ej).
      rewrite En. reflexivity.
Qed.

(** The shape of a Shrink run in a relation-free world, under an arbitrary clock: the tables [0..last] are
    brought to their target capacity, the others are untouched; [last] is the final table, or the first table
    after which the clock has expired while one of the tables processed so far had work. *)
Lemma r_shrink_run_clock : forall s clock, St s ->
  exists last T',
    w_shrink_clock clock s = Ok (existsb (fun t => tbl_can_shrink t (cf_cap (w_cfg s))) (skipn (S last) T'))
                          (s <| w_tables := T' |>) /\
    length T' = length (w_tables s) /\ last < length (w_tables s) /\
    (forall j, nth_error T' j = if Nat.leb j last then option_map (r_step (cf_cap (w_cfg s))) (nth_error (w_tables s) j)
                                else nth_error (w_tables s) j) /\
    (S last = length (w_tables s) \/ (clock last = true /\ r_found s (cf_cap (w_cfg s)) 0 last)) /\
    (forall j, j < last -> clock j = true -> ~ r_found s (cf_cap (w_cfg s)) 0 j).
Proof.
  intros s clock (H & NR).
  assert (Hnr : forall j t, nth_error (w_tables s) j = Some t -> tbl_has_rels t = false).
  { intros j t E. destruct NR as (_ & N2 & _). destruct (N2 _ _ E) as (Hr & _). unfold tbl_has_rels. rewrite Hr. reflexivity. }
  destruct (wf_arch0 _ H) as (_ & _ & _ & t0 & Et0 & _).
  assert (HL : exists f, length (w_tables s) = S f).
  { destruct (w_tables s) as [|x l]; [discriminate Et0|]. exists (length l). reflexivity. }
  destruct HL as (f & HL).
  destruct (r_go_spec_clock clock (cf_cap (w_cfg s)) f 0 false s eq_refl Hnr) as (last & any' & T' & E & L & B & P & S0 & S1 & S2).
  { rewrite HL. reflexivity. }
  rewrite <- HL in E.
  exists last, T'. rewrite r_shrink_eq_clock, E. cbn [fst].
  split.
  - f_equal. change (w_tables (s <| w_tables := T' |>)) with T'.
    assert (Hex : forall l : list table, (forall t, In t l -> tbl_has_rels t = false) ->
              existsb (r_work (s <| w_tables := T' |>)) l = existsb (fun t => tbl_can_shrink t (cf_cap (w_cfg s))) l).
    { induction l as [|a l IHl]; intros Hl; simpl; [reflexivity|].
      rewrite IHl by (intros; apply Hl; right; assumption).
      unfold r_work at 1. rewrite (Hl a) by (left; reflexivity). reflexivity. }
    apply Hex. intros t Hin. apply r_in_skipn in Hin. destruct Hin as (j & _ & Ej).
    rewrite P in Ej. destruct (r_in 0 last j).
    + destruct (nth_error (w_tables s) j) as [tj|] eqn:Etj; [|discriminate]. simpl in Ej. inversion Ej; subst t.
      rewrite r_step_has_rels. exact (Hnr _ _ Etj).
    + exact (Hnr _ _ Ej).
  - split; [lia|]. split; [lia|]. split; [|split].
    + intros j. rewrite P. unfold r_in. reflexivity.
    + destruct S0 as [Hend|(Ha & Hcl)]; [left; exact Hend|right]. split; [exact Hcl|].
      apply S1 in Ha. destruct Ha as [Ha|Hf]; [discriminate Ha|exact Hf].
    + intros j Hj Hcj. destruct (S2 j) as (_ & Hnf); [lia|exact Hcj|exact Hnf].
Qed.

(** The two extreme budgets, as an instance. *)
Lemma r_shrink_run : forall s stop0, St s ->
  exists last T',
    w_shrink_core stop0 s = Ok (existsb (fun t => tbl_can_shrink t (cf_cap (w_cfg s))) (skipn (S last) T'))
                          (s <| w_tables := T' |>) /\
    length T' = length (w_tables s) /\ last < length (w_tables s) /\
    (forall j, nth_error T' j = if Nat.leb j last then option_map (r_step (cf_cap (w_cfg s))) (nth_error (w_tables s) j)
                                else nth_error (w_tables s) j) /\
    (stop0 = false -> S last = length (w_tables s)) /\
    (stop0 = true -> S last = length (w_tables s) \/
       exists t, nth_error (w_tables s) last = Some t /\ tbl_can_shrink t (cf_cap (w_cfg s)) = true).
Proof.
  intros s stop0 HSt.
  destruct (r_shrink_run_clock s (fun _ => stop0) HSt) as (last & T' & E & L & B & P & S0 & S1).
  exists last, T'. split; [exact E|]. split; [exact L|]. split; [exact B|]. split; [exact P|]. split.
  - intros Hs. destruct S0 as [Hend|(Hcl & _)]; [exact Hend|congruence].
  - intros Hs. destruct S0 as [Hend|(_ & k & t & Hk & Ek & Ck)]; [left; exact Hend|right].
    destruct (Nat.eq_dec k last) as [->|Hne]; [exists t; split; assumption|].
    exfalso. apply (S1 k); [lia|exact Hs|]. exists k, t. split; [lia|]. split; assumption.
Qed.

Lemma r_len_small : forall s j t, WF s -> nth_error (w_tables s) j = Some t -> t_len t <= Nat.pow 2 31.
Proof.
  intros s j t H E. pose proof (rows_le_pool s j t H E). pose proof (wf_small _ H). lia.
Qed.

(** Shrink under EVERY clock (hence every time budget) never changes entities, components, values; the
    world stays well formed; it never fails; the lock, observers, filters and queries are untouched. *)
Theorem shrink_invisible_clock : forall s clock, St s ->
  exists b s', w_shrink_clock clock s = Ok b s' /\ St s' /\ content_same s s' /\ w_pool s' = w_pool s /\
               w_index s' = w_index s /\ side_same s s' /\ frame_user s s' /\ w_archs s' = w_archs s /\
               length (w_tables s') = length (w_tables s).
Proof.
  intros s clock HSt. pose proof HSt as (H & NR).
  destruct (r_shrink_run_clock s clock HSt) as (last & T' & E & L & B & P & _).
  eexists _, _. split; [exact E|].
  destruct (r_sim_St s T' HSt L) as (HSt' & HC).
  { intros j t Ej. pose proof (P j) as Pj. rewrite Ej in Pj.
    assert (Ok_t : tbl_ok t) by (apply (proj1 (Forall_nth_error _ _ _) (wf_tables _ H) _ _ Ej)).
    destruct (Nat.leb j last); simpl in Pj.
    - eexists. split; [exact Pj|]. apply r_tsim_step; [exact Ok_t|]. eapply r_len_small; eauto.
    - exists t. split; [exact Pj|]. apply r_tsim_refl. exact Ok_t. }
  split; [exact HSt'|]. split; [exact HC|].
  split; [reflexivity|]. split; [reflexivity|].
  split; [unfold side_same; repeat split; reflexivity|].
  split; [unfold frame_user; repeat split; reflexivity|].
  split; [reflexivity|exact L].
Qed.

(** Shrink (unbounded budget or zero budget): the instance at the constant clocks. *)
Theorem shrink_invisible : forall s stop0, St s ->
  exists b s', w_shrink_core stop0 s = Ok b s' /\ St s' /\ content_same s s' /\ w_pool s' = w_pool s /\
               w_index s' = w_index s /\ side_same s s' /\ frame_user s s' /\ w_archs s' = w_archs s /\
               length (w_tables s') = length (w_tables s).
Proof. intros s stop0 HSt. exact (shrink_invisible_clock s (fun _ => stop0) HSt). Qed.

(** Capacity bounds under every clock. The walk processes the tables [0..last], where [last] is the final
    table or a table after which the clock had expired; every processed table ends with
    len <= cap <= max(initial capacity, next power of two of len); a walk that reached the final table
    reports no remaining work; and whenever Shrink reports no remaining work, EVERY table is within these
    bounds (whatever the clock did). *)
Theorem shrink_capacity_bounds_clock : forall s clock, St s ->
  exists last b s', w_shrink_clock clock s = Ok b s' /\ last < length (w_tables s) /\
    (S last = length (w_tables s) \/ clock last = true) /\
    (S last = length (w_tables s) -> b = false) /\
    (forall tid t, tid <= last -> nth_error (w_tables s') tid = Some t ->
       t_len t <= t_cap t /\ t_cap t <= Nat.max (cf_cap (w_cfg s)) (cap_pow2 (t_len t))) /\
    (b = false -> forall tid t, nth_error (w_tables s') tid = Some t ->
       t_len t <= t_cap t /\ t_cap t <= Nat.max (cf_cap (w_cfg s)) (cap_pow2 (t_len t))).
Proof.
  intros s clock HSt. pose proof HSt as (H & NR).
  destruct (r_shrink_run_clock s clock HSt) as (last & T' & E & L & B & P & S0 & _).
  set (c := cf_cap (w_cfg s)) in *.
  assert (Hdone : forall tid t', tid <= last -> nth_error T' tid = Some t' ->
            t_len t' <= t_cap t' /\ t_cap t' <= Nat.max c (cap_pow2 (t_len t'))).
  { intros tid t' Hle E'. rewrite P in E'. destruct (Nat.leb_spec tid last); [|lia].
    destruct (nth_error (w_tables s) tid) as [t|] eqn:Et; [|discriminate]. simpl in E'. inversion E'; subst t'.
    assert (Ok_t : tbl_ok t) by (apply (proj1 (Forall_nth_error _ _ _) (wf_tables _ H) _ _ Et)).
    pose proof (r_len_small s tid t H Et) as Hs.
    destruct (r_tsim_step c t Ok_t Hs) as (O' & L' & _).
    split; [apply tbl_ok_elim in O'; apply O'|].
    rewrite L'. unfold r_step. destruct (tbl_can_shrink t c) eqn:C.
    + destruct (tbl_adjust_len t (tbl_shrink_target t c)) as [_ Cc]. rewrite Cc.
      unfold tbl_shrink_target. rewrite Nat.max_comm. apply Nat.le_refl.
    + unfold tbl_can_shrink in C. apply Nat.ltb_ge in C. unfold tbl_shrink_target in C.
      rewrite Nat.max_comm. exact C. }
  exists last, (existsb (fun t => tbl_can_shrink t c) (skipn (S last) T')), (s <| w_tables := T' |>).
  split; [exact E|]. split; [exact B|].
  split; [destruct S0 as [Hend|(Hcl & _)]; [left; exact Hend|right; exact Hcl]|].
  split; [intros Hend; rewrite Hend, <- L, skipn_all; reflexivity|].
  change (w_tables (s <| w_tables := T' |>)) with T'.
  split; [exact Hdone|].
  intros Hb tid t' E'. destruct (Nat.le_gt_cases tid last) as [Hle|Hgt]; [exact (Hdone tid t' Hle E')|].
  assert (Hin : In t' (skipn (S last) T')) by (apply r_in_skipn; exists tid; split; [lia|exact E']).
  rewrite P in E'. destruct (Nat.leb_spec tid last); [lia|].
  assert (Ok_t : tbl_ok t') by (apply (proj1 (Forall_nth_error _ _ _) (wf_tables _ H) _ _ E')).
  split; [apply tbl_ok_elim in Ok_t; apply Ok_t|].
  destruct (tbl_can_shrink t' c) eqn:C.
  - exfalso. assert (Hex : existsb (fun t => tbl_can_shrink t c) (skipn (S last) T') = true).
    { apply existsb_exists. exists t'. split; [exact Hin|exact C]. }
    rewrite Hb in Hex. discriminate Hex.
  - unfold tbl_can_shrink in C. apply Nat.ltb_ge in C. unfold tbl_shrink_target in C.
    rewrite Nat.max_comm. exact C.
Qed.

(** After an unbounded Shrink every table's capacity is at least its size and at most the larger of
    the initial capacity and the next power of two of its size; and Shrink reports no remaining work. *)
Theorem shrink_capacity_bounds : forall s, St s ->
  exists s', w_shrink_core false s = Ok false s' /\
  forall tid t, nth_error (w_tables s') tid = Some t ->
    t_len t <= t_cap t /\ t_cap t <= Nat.max (cf_cap (w_cfg s)) (cap_pow2 (t_len t)).
Proof.
  intros s HSt.
  destruct (shrink_capacity_bounds_clock s (fun _ => false) HSt) as (last & b & s' & E & _ & S0 & Hb & _ & Hall).
  assert (Eb : b = false) by (apply Hb; destruct S0 as [Hend|Hcl]; [exact Hend|discriminate Hcl]).
  subst b. exists s'. split; [exact E|exact (Hall eq_refl)].
Qed.

(** Under every clock Shrink returns [true] only if some table can still shrink afterwards, and [false]
    only if none can; repeated calls terminate: each call that finds work reduces the number of
    tables that can shrink, whatever its time budget and whatever the clock does. *)
Definition shrinkable (s : W) : nat :=
  length (filter (fun t => tbl_can_shrink t (cf_cap (w_cfg s))) (w_tables s)).

Theorem shrink_result_exact_clock : forall s clock, St s ->
  exists b s', w_shrink_clock clock s = Ok b s' /\ (b = true <-> 0 < shrinkable s') .
Proof.
  intros s clock HSt.
  destruct (r_shrink_run_clock s clock HSt) as (last & T' & E & L & B & P & _).
  eexists _, _. split; [exact E|].
  unfold shrinkable. change (w_tables (s <| w_tables := T' |>)) with T'.
  change (w_cfg (s <| w_tables := T' |>)) with (w_cfg s).
  rewrite r_filter_pos, existsb_exists. split.
  - intros (x & Hin & Hx). exists x. split; [|exact Hx].
    apply r_in_skipn in Hin. destruct Hin as (j & _ & Ej). eapply nth_error_In; eauto.
  - intros (x & Hin & Hx). exists x. split; [|exact Hx].
    apply In_nth_error in Hin. destruct Hin as (j & Ej). apply r_in_skipn. exists j. split; [|exact Ej].
    rewrite P in Ej. destruct (Nat.leb_spec j last); [|lia]. exfalso.
    destruct (nth_error (w_tables s) j) as [t|]; [|discriminate]. simpl in Ej. inversion Ej; subst x.
    rewrite r_step_noshrink in Hx. discriminate.
Qed.

Theorem shrink_result_exact : forall s stop0, St s ->
  exists b s', w_shrink_core stop0 s = Ok b s' /\ (b = true <-> 0 < shrinkable s') .
Proof. intros s stop0 HSt. exact (shrink_result_exact_clock s (fun _ => stop0) HSt). Qed.

(** Progress under every clock: no call ever makes a table shrinkable, and a call on a world with
    shrinkable tables does the work of at least one of them - the stop test is only evaluated after a
    table had work ([any1 && clock idx]), so not even a clock that has "always expired" can starve it. *)
Theorem shrink_progress_clock : forall s clock, St s ->
  exists b s', w_shrink_clock clock s = Ok b s' /\ shrinkable s' <= shrinkable s /\
               (0 < shrinkable s -> shrinkable s' < shrinkable s).
Proof.
  intros s clock HSt.
  destruct (r_shrink_run_clock s clock HSt) as (last & T' & E & L & B & P & S0 & _).
  eexists _, _. split; [exact E|].
  unfold shrinkable in *. change (w_tables (s <| w_tables := T' |>)) with T'.
  change (w_cfg (s <| w_tables := T' |>)) with (w_cfg s).
  set (c := cf_cap (w_cfg s)) in *.
  assert (Hkeep : forall j x', nth_error T' j = Some x' -> tbl_can_shrink x' c = true ->
            exists x, nth_error (w_tables s) j = Some x /\ tbl_can_shrink x c = true).
  { intros j x' Ej Hx. rewrite P in Ej. destruct (Nat.leb_spec j last).
    + exfalso. destruct (nth_error (w_tables s) j) as [t|]; [|discriminate]. simpl in Ej. inversion Ej; subst x'.
      rewrite r_step_noshrink in Hx. discriminate.
    + exists x'. auto. }
  split; [apply r_count_le; [exact L|exact Hkeep]|].
  intros Hpos. apply r_count_lt; [exact L|exact Hkeep|].
  assert (W : exists j t, j <= last /\ nth_error (w_tables s) j = Some t /\ tbl_can_shrink t c = true).
  { destruct S0 as [Hend|(_ & k & t & Hk & Et & Ct)].
    - apply r_filter_pos in Hpos. destruct Hpos as (t & Hin & Ct).
      apply In_nth_error in Hin. destruct Hin as (j & Ej). exists j, t.
      assert (j < length (w_tables s)) by (apply nth_error_Some; congruence).
      split; [lia|auto].
    - exists k, t. split; [lia|auto]. }
  destruct W as (j & t & Hj & Et & Ct).
  exists j, t, (r_step c t). split; [exact Et|]. split; [exact Ct|]. split; [|apply r_step_noshrink].
  rewrite P, Et. destruct (Nat.leb_spec j last); [reflexivity|lia].
Qed.

Theorem shrink_converges_clock : forall s clock, St s -> 0 < shrinkable s ->
  exists b s', w_shrink_clock clock s = Ok b s' /\ shrinkable s' < shrinkable s.
Proof.
  intros s clock HSt Hpos. destruct (shrink_progress_clock s clock HSt) as (b & s' & E & _ & Hlt).
  exists b, s'. split; [exact E|exact (Hlt Hpos)].
Qed.

Theorem shrink_converges : forall s, St s -> 0 < shrinkable s ->
  exists b s', w_shrink_core true s = Ok b s' /\ shrinkable s' < shrinkable s.
Proof. intros s HSt Hpos. exact (shrink_converges_clock s (fun _ => true) HSt Hpos). Qed.

(** ** Reset *)

Theorem reset_locked_rejected : forall s, is_locked s = true -> w_reset s = Err ELocked s.
Proof.
  intros s H. unfold w_reset. apply sa_bind_err.
  unfold check_locked, bind, get, guard. rewrite H. reflexivity.
Qed.

Lemma r_check_unlocked : forall s, is_locked s = false -> check_locked s = Ok tt s.
Proof. intros s H. unfold check_locked, bind, get, guard. rewrite H. reflexivity. Qed.

Lemma r_modify_eq : forall (f : W -> W) s, modify f s = Ok tt (f s).
Proof. reflexivity. Qed.

(** *** World.Shrink = lock check + storage.Shrink. On a locked world (an open query, a running
    callback) it is rejected without effect - the repair of the defect that an open query walked a
    table list out of which Shrink had swapped a freed table; on an unlocked world it is the loop
    [w_shrink_core] the theorems above are about. *)
Theorem shrink_locked_rejected : forall s stop0, is_locked s = true -> w_shrink stop0 s = Err ELocked s.
Proof.
  intros s stop0 H. unfold w_shrink. apply sa_bind_err.
  unfold check_locked, bind, get, guard. rewrite H. reflexivity.
Qed.

Theorem shrink_unlocked_eq : forall s stop0, is_locked s = false -> w_shrink stop0 s = w_shrink_core stop0 s.
Proof. intros s stop0 H. unfold w_shrink. rewrite (sa_bind_ok (r_check_unlocked s H)). reflexivity. Qed.

Theorem shrink_invisible_w : forall s stop0, St s -> is_locked s = false ->
  exists b s', w_shrink stop0 s = Ok b s' /\ St s' /\ content_same s s' /\ w_pool s' = w_pool s /\
               w_index s' = w_index s /\ side_same s s' /\ frame_user s s' /\ w_archs s' = w_archs s /\
               length (w_tables s') = length (w_tables s).
Proof. intros s stop0 HSt Hl. rewrite (shrink_unlocked_eq s stop0 Hl). apply shrink_invisible. exact HSt. Qed.

Theorem shrink_capacity_bounds_w : forall s, St s -> is_locked s = false ->
  exists s', w_shrink false s = Ok false s' /\
  forall tid t, nth_error (w_tables s') tid = Some t ->
    t_len t <= t_cap t /\ t_cap t <= Nat.max (cf_cap (w_cfg s)) (cap_pow2 (t_len t)).
Proof. intros s HSt Hl. rewrite (shrink_unlocked_eq s false Hl). apply shrink_capacity_bounds. exact HSt. Qed.

Theorem shrink_result_exact_w : forall s stop0, St s -> is_locked s = false ->
  exists b s', w_shrink stop0 s = Ok b s' /\ (b = true <-> 0 < shrinkable s').
Proof. intros s stop0 HSt Hl. rewrite (shrink_unlocked_eq s stop0 Hl). apply shrink_result_exact. exact HSt. Qed.

Theorem shrink_converges_w : forall s, St s -> is_locked s = false -> 0 < shrinkable s ->
  exists b s', w_shrink true s = Ok b s' /\ shrinkable s' < shrinkable s.
Proof. intros s HSt Hl Hp. rewrite (shrink_unlocked_eq s true Hl). apply shrink_converges; assumption. Qed.

(** The lock is untouched by a Shrink that runs, so a sequence of time-boxed calls stays admissible. *)
Theorem shrink_keeps_unlocked : forall s stop0 b s', St s -> is_locked s = false ->
  w_shrink stop0 s = Ok b s' -> is_locked s' = false.
Proof.
  intros s stop0 b s' HSt Hl E. destruct (shrink_invisible_w s stop0 HSt Hl) as (b1 & s1 & E1 & _ & _ & _ & _ & SS & _).
  rewrite E in E1. inversion E1; subst b1 s1. unfold side_same in SS. unfold is_locked in *.
  replace (w_lock s') with (w_lock s); [exact Hl|]. symmetry. apply SS.
Qed.

(** *** World.Shrink with an arbitrary time budget read off an arbitrary clock: [w_shrink_timed clock] =
    lock check + [w_shrink_clock clock]. [w_shrink stop0] is [w_shrink_timed (fun _ => stop0)]. *)
Theorem shrink_timed_const : forall stop0, w_shrink stop0 = w_shrink_timed (fun _ => stop0).
Proof. reflexivity. Qed.

Theorem shrink_locked_rejected_clock : forall s clock, is_locked s = true -> w_shrink_timed clock s = Err ELocked s.
Proof.
  intros s clock H. unfold w_shrink_timed. apply sa_bind_err.
  unfold check_locked, bind, get, guard. rewrite H. reflexivity.
Qed.

Theorem shrink_unlocked_eq_clock : forall s clock, is_locked s = false -> w_shrink_timed clock s = w_shrink_clock clock s.
Proof. intros s clock H. unfold w_shrink_timed. rewrite (sa_bind_ok (r_check_unlocked s H)). reflexivity. Qed.

Theorem shrink_invisible_clock_w : forall s clock, St s -> is_locked s = false ->
  exists b s', w_shrink_timed clock s = Ok b s' /\ St s' /\ content_same s s' /\ w_pool s' = w_pool s /\
               w_index s' = w_index s /\ side_same s s' /\ frame_user s s' /\ w_archs s' = w_archs s /\
               length (w_tables s') = length (w_tables s).
Proof. intros s clock HSt Hl. rewrite (shrink_unlocked_eq_clock s clock Hl). apply shrink_invisible_clock. exact HSt. Qed.

Theorem shrink_capacity_bounds_clock_w : forall s clock, St s -> is_locked s = false ->
  exists last b s', w_shrink_timed clock s = Ok b s' /\ last < length (w_tables s) /\
    (S last = length (w_tables s) \/ clock last = true) /\
    (S last = length (w_tables s) -> b = false) /\
    (forall tid t, tid <= last -> nth_error (w_tables s') tid = Some t ->
       t_len t <= t_cap t /\ t_cap t <= Nat.max (cf_cap (w_cfg s)) (cap_pow2 (t_len t))) /\
    (b = false -> forall tid t, nth_error (w_tables s') tid = Some t ->
       t_len t <= t_cap t /\ t_cap t <= Nat.max (cf_cap (w_cfg s)) (cap_pow2 (t_len t))).
Proof. intros s clock HSt Hl. rewrite (shrink_unlocked_eq_clock s clock Hl). apply shrink_capacity_bounds_clock. exact HSt. Qed.

Theorem shrink_result_exact_clock_w : forall s clock, St s -> is_locked s = false ->
  exists b s', w_shrink_timed clock s = Ok b s' /\ (b = true <-> 0 < shrinkable s').
Proof. intros s clock HSt Hl. rewrite (shrink_unlocked_eq_clock s clock Hl). apply shrink_result_exact_clock. exact HSt. Qed.

Theorem shrink_progress_clock_w : forall s clock, St s -> is_locked s = false ->
  exists b s', w_shrink_timed clock s = Ok b s' /\ shrinkable s' <= shrinkable s /\
               (0 < shrinkable s -> shrinkable s' < shrinkable s).
Proof. intros s clock HSt Hl. rewrite (shrink_unlocked_eq_clock s clock Hl). apply shrink_progress_clock. exact HSt. Qed.

Theorem shrink_converges_clock_w : forall s clock, St s -> is_locked s = false -> 0 < shrinkable s ->
  exists b s', w_shrink_timed clock s = Ok b s' /\ shrinkable s' < shrinkable s.
Proof. intros s clock HSt Hl Hp. rewrite (shrink_unlocked_eq_clock s clock Hl). apply shrink_converges_clock; assumption. Qed.

Theorem shrink_keeps_unlocked_clock : forall s clock b s', St s -> is_locked s = false ->
  w_shrink_timed clock s = Ok b s' -> is_locked s' = false.
Proof.
  intros s clock b s' HSt Hl E. destruct (shrink_invisible_clock_w s clock HSt Hl) as (b1 & s1 & E1 & _ & _ & _ & _ & SS & _).
  rewrite E in E1. inversion E1; subst b1 s1. unfold side_same in SS. unfold is_locked in *.
  replace (w_lock s') with (w_lock s); [exact Hl|]. symmetry. apply SS.
Qed.

(** Everything one call guarantees, in one statement (the step of the induction below). *)
Lemma r_shrink_timed_step : forall s clock, St s -> is_locked s = false ->
  exists b s', w_shrink_timed clock s = Ok b s' /\ St s' /\ is_locked s' = false /\ content_same s s' /\
    w_pool s' = w_pool s /\ w_index s' = w_index s /\ side_same s s' /\ frame_user s s' /\ w_archs s' = w_archs s /\
    length (w_tables s') = length (w_tables s) /\
    (b = true <-> 0 < shrinkable s') /\ shrinkable s' <= shrinkable s /\ (0 < shrinkable s -> shrinkable s' < shrinkable s).
Proof.
  intros s clock HSt Hl.
  destruct (shrink_invisible_clock_w s clock HSt Hl) as (b & s' & E & I1 & I2 & I3 & I4 & I5 & I6 & I7 & I8).
  destruct (shrink_result_exact_clock_w s clock HSt Hl) as (b2 & s2 & E2 & X).
  destruct (shrink_progress_clock_w s clock HSt Hl) as (b3 & s3 & E3 & P1 & P2).
  rewrite E in E2, E3. inversion E2; subst b2 s2. inversion E3; subst b3 s3.
  exists b, s'. split; [exact E|]. split; [exact I1|].
  split; [exact (shrink_keeps_unlocked_clock s clock b s' HSt Hl E)|].
  repeat (split; [assumption|]). exact P2.
Qed.

(** A caller's loop of time-boxed calls, one clock per call: call Shrink while it reports remaining work
    (Go: [for w.Shrink(budget) {}]), at most once per element of [clocks]; the result is the number of
    calls that reported remaining work. *)
Fixpoint shrink_calls (clocks : list (nat -> bool)) : MW nat :=
  match clocks with
  | [] => ret 0
  | clock :: rest => b <- w_shrink_timed clock ;; if b then n <- shrink_calls rest ;; ret (S n) else ret 0
  end.

Lemma r_content_trans : forall a b c, content_same a b -> content_same b c -> content_same a c.
Proof.
  intros a b c H1 H2 x. destruct (H1 x) as (A1 & B1). destruct (H2 x) as (A2 & B2).
  split; [congruence|]. intros k. rewrite B2, B1. reflexivity.
Qed.

(** Convergence for every sequence of budgets and clocks: the loop never fails, is invisible as a whole,
    every call that reports remaining work has made at least one more table unshrinkable
    ([n + shrinkable s' <= shrinkable s], so at most [shrinkable s] calls report remaining work), and if it
    ended before the clocks ran out, nothing is left to shrink. *)
Theorem shrink_converges_clocks : forall clocks s, St s -> is_locked s = false ->
  exists n s', shrink_calls clocks s = Ok n s' /\ n <= length clocks /\ n + shrinkable s' <= shrinkable s /\
    (n < length clocks -> shrinkable s' = 0) /\
    St s' /\ is_locked s' = false /\ content_same s s' /\ w_pool s' = w_pool s /\ w_index s' = w_index s /\
    side_same s s' /\ frame_user s s' /\ w_archs s' = w_archs s /\ length (w_tables s') = length (w_tables s).
Proof.
  induction clocks as [|clock rest IH]; intros s HSt Hl.
  - exists 0, s. split; [reflexivity|]. cbn [length]. split; [lia|]. split; [lia|]. split; [lia|].
    split; [exact HSt|]. split; [exact Hl|]. split; [intros x; split; [reflexivity|intros; reflexivity]|].
    split; [reflexivity|]. split; [reflexivity|]. split; [apply sa_side_same_refl|]. split; [apply sa_frame_user_refl|].
    split; reflexivity.
  - destruct (r_shrink_timed_step s clock HSt Hl) as (b & s1 & E & I1 & I2 & I3 & I4 & I5 & I6 & I7 & I8 & I9 & X & P1 & P2).
    cbn [shrink_calls length]. rewrite (sa_bind_ok E). destruct b.
    + destruct (IH s1 I1 I2) as (n & s' & E' & N1 & N2 & N3 & J1 & J2 & J3 & J4 & J5 & J6 & J7 & J8 & J9).
      assert (Hpos1 : 0 < shrinkable s1) by (apply X; reflexivity).
      assert (Hlt : shrinkable s1 < shrinkable s) by (apply P2; lia).
      exists (S n), s'. split; [rewrite (sa_bind_ok E'); reflexivity|].
      split; [lia|]. split; [lia|]. split; [intros Hn; apply N3; lia|].
      split; [exact J1|]. split; [exact J2|]. split; [exact (r_content_trans _ _ _ I3 J3)|].
      split; [congruence|]. split; [congruence|]. split; [exact (sa_side_same_trans _ _ _ I6 J6)|].
      split; [exact (sa_frame_user_trans _ _ _ I7 J7)|]. split; congruence.
    + assert (Hz : shrinkable s1 = 0).
      { destruct (shrinkable s1) as [|k] eqn:Ek; [reflexivity|]. exfalso.
        assert (Hb : false = true) by (apply X; lia). discriminate Hb. }
      exists 0, s1. split; [reflexivity|]. split; [lia|]. split; [lia|]. split; [intros _; exact Hz|].
      repeat (split; [assumption|]). exact I9.
Qed.

(** Hence: with at least [shrinkable s] calls available - whatever their budgets, whatever the clocks - the
    loop ends with nothing left to shrink, after at most [shrinkable s] calls that reported remaining work. *)
Corollary shrink_converges_clocks_done : forall clocks s, St s -> is_locked s = false ->
  shrinkable s <= length clocks ->
  exists n s', shrink_calls clocks s = Ok n s' /\ n <= shrinkable s /\ shrinkable s' = 0 /\ St s' /\
               is_locked s' = false /\ content_same s s'.
Proof.
  intros clocks s HSt Hl Hlen.
  destruct (shrink_converges_clocks clocks s HSt Hl) as (n & s' & E & N1 & N2 & N3 & J1 & J2 & J3 & _).
  exists n, s'. split; [exact E|]. split; [lia|]. split; [|split; [exact J1|split; [exact J2|exact J3]]].
  destruct (Nat.lt_ge_cases n (length clocks)) as [Hn|Hn]; [exact (N3 Hn)|lia].
Qed.

(** Non-vacuity. A reachable relation-free world with four tables, three of which can shrink (three entities
    created and two removed in each of three archetypes), and clocks that are neither of the two extremes:
    one expires exactly after table 1, one has expired at every table but table 2 (not monotone). *)
Definition r_ex_cfg : script_cfg :=
  {| sc_cap := 1; sc_caprel := 1; sc_bits := 256; sc_debug := false; sc_kinds := map kind_of_code [0; 1]%Z |}.
Definition r_ex_lines : list (list Z) :=
  [[1; 1; 0]; [1; 1; 0]; [1; 1; 0]; [1; 1; 1]; [1; 1; 1]; [1; 1; 1]; [1; 2; 0; 1]; [1; 2; 0; 1]; [1; 2; 0; 1];
   [11; 0]; [11; 1]; [11; 3]; [11; 4]; [11; 6]; [11; 7]]%Z.
Definition r_ex_world : W := StorageC.run_core r_ex_cfg r_ex_lines.
Definition r_ex_clock1 : nat -> bool := fun j => Nat.eqb j 1.
Definition r_ex_clock2 : nat -> bool := fun j => negb (Nat.eqb j 2).
Definition r_ex_caps (s : W) : list (nat * nat) := map (fun t => (t_len t, t_cap t)) (w_tables s).

Lemma r_ex_pow31 : 64 < Nat.pow 2 31.
Proof.
  change 31 with (7 + 24). rewrite Nat.pow_add_r.
  assert (H : 0 < Nat.pow 2 24) by (apply Nat.neq_0_lt_0, Nat.pow_nonzero; discriminate).
  change (Nat.pow 2 7) with 128. set (P := Nat.pow 2 24) in *. clearbody P. lia.
Qed.

Example r_ex_world_ok : St r_ex_world /\ is_locked r_ex_world = false /\ shrinkable r_ex_world = 3 /\
  r_ex_caps r_ex_world = [(0, 1); (1, 4); (1, 4); (1, 4)].
Proof.
  split; [|split; [|split]]; [|vm_compute; reflexivity..].
  apply (StorageC.reachable_inv r_ex_cfg r_ex_lines).
  - split; [cbn; lia|]. split; [cbn; lia|]. split; [cbn; lia|]. repeat constructor.
  - repeat constructor; eexists; (split; [vm_compute; reflexivity|]); (split; [reflexivity|]);
      intros c Hc; cbn in Hc; cbn; lia.
  - pose proof r_ex_pow31. cbn [length r_ex_lines]. lia.
Qed.

(** One call under the clock that expires after table 1: tables 0 and 1 are processed, the call reports
    remaining work, two tables can still shrink. Under the non-monotone clock the walk does not stop at
    table 1 either way round: it stops after the first table with work at which the clock reads "expired". *)
Example r_ex_one_call :
  match w_shrink_timed r_ex_clock1 r_ex_world with
  | Ok b s' => Some (b, shrinkable s', r_ex_caps s')
  | Err _ _ => None
  end = Some (true, 2, [(0, 1); (1, 1); (1, 4); (1, 4)]) /\
  match w_shrink_timed r_ex_clock2 r_ex_world with
  | Ok b s' => Some (b, shrinkable s', r_ex_caps s')
  | Err _ _ => None
  end = Some (true, 2, [(0, 1); (1, 1); (1, 4); (1, 4)]) /\
  match w_shrink_timed (fun j => Nat.leb 2 j) r_ex_world with
  | Ok b s' => Some (b, shrinkable s', r_ex_caps s')
  | Err _ _ => None
  end = Some (true, 1, [(0, 1); (1, 1); (1, 1); (1, 4)]).
Proof. vm_compute. repeat split. Qed.

(** The loop of time-boxed calls, computed and by the theorem. *)
Example r_ex_calls :
  match shrink_calls [r_ex_clock1; fun _ => true; r_ex_clock2; fun _ => false] r_ex_world with
  | Ok n s' => Some (n, shrinkable s', r_ex_caps s')
  | Err _ _ => None
  end = Some (2, 0, [(0, 1); (1, 1); (1, 1); (1, 1)]).
Proof. vm_compute. reflexivity. Qed.

Example r_ex_calls_by_theorem : forall c1 c2 c3 : nat -> bool,
  exists n s', shrink_calls [c1; c2; c3] r_ex_world = Ok n s' /\ n <= 3 /\ shrinkable s' = 0 /\ St s' /\
               is_locked s' = false /\ content_same r_ex_world s'.
Proof.
  intros c1 c2 c3. destruct r_ex_world_ok as (HSt & Hl & Hn & _).
  destruct (shrink_converges_clocks_done [c1; c2; c3] r_ex_world HSt Hl) as (n & s' & E & N & R); [rewrite Hn; cbn; lia|].
  exists n, s'. split; [exact E|]. split; [lia|exact R].
Qed.

(** *** The filter cache *)

Definition r_cache_body (addr : nat) : MW unit :=
  s <- get ;;
  match nth_error (w_cheap s) addr with
  | Some e => modify (fun s => s <| w_filters ::= updf (ce_filter e) (fun f => f <| f_cache := None |>) |>)
  | None => fail EIndex
  end.

Lemma r_set_filters_id : forall s : W, s <| w_filters := w_filters s |> = s.
Proof. intros s. destruct s. reflexivity. Qed.

Lemma r_cache_loop : forall L s,
  (forall addr, In addr L -> exists e, nth_error (w_cheap s) addr = Some e) ->
  exists F', forM_ L r_cache_body s = Ok tt (s <| w_filters := F' |>) /\
    forall i f', nth_error F' i = Some f' ->
      f_cache f' = None \/
      (nth_error (w_filters s) i = Some f' /\
       forall addr e, In addr L -> nth_error (w_cheap s) addr = Some e -> ce_filter e <> i).
Proof.
  induction L as [|a L IH]; intros s Hc.
  - exists (w_filters s). split; [simpl; rewrite r_set_filters_id; reflexivity|].
    intros i f' E. right. split; [exact E|]. intros addr e [].
  - destruct (Hc a (or_introl eq_refl)) as (e & Ee).
    set (s1 := s <| w_filters ::= updf (ce_filter e) (fun f => f <| f_cache := None |>) |>).
    assert (E1 : r_cache_body a s = Ok tt s1).
    { unfold r_cache_body, bind, get. rewrite Ee. reflexivity. }
    destruct (IH s1) as (F' & E2 & P2).
    { intros addr Hin. exact (Hc addr (or_intror Hin)). }
    exists F'. split.
    + simpl forM_. rewrite (sa_bind_ok E1). exact E2.
    + intros i f' Ei. destruct (P2 i f' Ei) as [Hn|(E3 & U3)]; [left; exact Hn|].
      change (w_filters s1) with (updf (ce_filter e) (fun f => f <| f_cache := None |>) (w_filters s)) in E3.
      rewrite nth_error_updf in E3. destruct (Nat.eqb_spec (ce_filter e) i) as [Heq|Hne].
      * left. destruct (nth_error (w_filters s) i) as [f|]; [|discriminate]. simpl in E3. inversion E3. reflexivity.
      * right. split; [exact E3|]. intros addr e0 [<-|Hin] E0.
        -- rewrite Ee in E0. inversion E0; subst e0. exact Hne.
        -- exact (U3 addr e0 Hin E0).
Qed.

Lemma r_cache_reset : forall s,
  (forall addr, In addr (w_centries s) -> exists e, nth_error (w_cheap s) addr = Some e) ->
  exists F' CP', cache_reset s = Ok tt (s <| w_filters := F' |> <| w_centries := [] |> <| w_cpool := CP' |>) /\
    forall i f', nth_error F' i = Some f' ->
      f_cache f' = None \/
      (nth_error (w_filters s) i = Some f' /\
       forall addr e, In addr (w_centries s) -> nth_error (w_cheap s) addr = Some e -> ce_filter e <> i).
Proof.
  intros s Hc. unfold cache_reset. unfold bind at 1, get at 1. cbv beta iota.
  destruct (w_centries s) as [|a l] eqn:EC.
  - exists (w_filters s), (w_cpool s). split.
    + cbn [is_nil]. unfold ret. f_equal. destruct s. cbn in EC. subst. reflexivity.
    + intros i f' E. right. split; [exact E|]. intros addr e [].
  - cbn [is_nil].
    change (forM_ (a :: l) _) with (forM_ (a :: l) r_cache_body).
    destruct (r_cache_loop (a :: l) s) as (F' & E1 & P1).
    { intros addr Hin. apply Hc. exact Hin. }
    exists F', ipool_new. split; [|exact P1].
    rewrite (sa_bind_ok E1). reflexivity.
Qed.

(** *** The observer manager *)

Definition r_olist (L : list (nat * list nat)) (evt : nat) : list nat :=
  match afind evt L with Some l => l | None => [] end.
Definition r_has (G : list (nat * agg)) (evt : nat) : bool :=
  g_has (match afind evt G with Some g => g | None => agg0 end).

Lemma r_set_obs3_id : forall s : W, s <| w_obs := w_obs s |> <| w_olists := w_olists s |> <| w_oagg := w_oagg s |> = s.
Proof. intros s. destruct s. reflexivity. Qed.

Lemma r_set_obs_id : forall s : W, s <| w_obs := w_obs s |> = s.
Proof. intros s. destruct s. reflexivity. Qed.

Lemma r_modO_loop : forall f l s, exists O', forM_ l (fun oi => modO oi f) s = Ok tt (s <| w_obs := O' |>).
Proof.
  intros f l. induction l as [|a l IH]; intros s.
  - exists (w_obs s). simpl. rewrite r_set_obs_id. reflexivity.
  - destruct (IH (s <| w_obs ::= updf a f |>)) as (O' & E). exists O'.
    simpl forM_. unfold bind, modO, modify. exact E.
Qed.

Lemma r_clear_step : forall evt s,
  exists O' L' G',
    ObsProofs.clear_evt evt s = Ok tt (s <| w_obs := O' |> <| w_olists := L' |> <| w_oagg := G' |>) /\
    r_has G' evt = false /\
    forall e, e <> evt -> r_olist L' e = r_olist (w_olists s) e /\ r_has G' e = r_has (w_oagg s) e.
Proof.
  intros evt s. unfold ObsProofs.clear_evt. unfold bind at 1, get at 1. cbv beta iota.
  destruct (has_obs s evt) eqn:Eh; cbn [negb].
  - destruct (r_modO_loop (fun o => o <| o_id := None |>) (olist s evt) s) as (O' & E1).
    rewrite (sa_bind_ok E1). rewrite (sa_bind_ok (r_modify_eq _ _)). rewrite ObsProofs.mod_agg_eq.
    exists O', (aset evt [] (w_olists s)), (aset evt agg0 (w_oagg s)).
    split; [reflexivity|]. split.
    + unfold r_has. rewrite ObsProofs.afind_aset, Nat.eqb_refl. reflexivity.
    + intros e Hne. unfold r_olist, r_has. rewrite !ObsProofs.afind_aset.
      destruct (Nat.eqb_spec evt e); [congruence|]. split; reflexivity.
  - exists (w_obs s), (w_olists s), (w_oagg s). split; [rewrite r_set_obs3_id; reflexivity|].
    split; [exact Eh|]. intros; split; reflexivity.
Qed.

Lemma r_clear_loop : forall Lst s,
  exists O' L' G',
    forM_ Lst ObsProofs.clear_evt s = Ok tt (s <| w_obs := O' |> <| w_olists := L' |> <| w_oagg := G' |>) /\
    (forall e, r_has (w_oagg s) e = false -> r_has G' e = false) /\
    (forall e, In e Lst -> r_has G' e = false) /\
    (forall e, r_olist (w_olists s) e = [] \/ r_has (w_oagg s) e = false -> r_olist L' e = [] \/ r_has G' e = false).
Proof.
  induction Lst as [|a Lst IH]; intros s.
  - exists (w_obs s), (w_olists s), (w_oagg s). split; [simpl; rewrite r_set_obs3_id; reflexivity|].
    split; [auto|]. split; [intros e []|auto].
  - destruct (r_clear_step a s) as (O1 & L1 & G1 & E1 & Ha & Hoth).
    set (s1 := s <| w_obs := O1 |> <| w_olists := L1 |> <| w_oagg := G1 |>) in *.
    destruct (IH s1) as (O' & L' & G' & E2 & A2 & B2 & C2).
    change (w_oagg s1) with G1 in *. change (w_olists s1) with L1 in *.
    exists O', L', G'. split; [simpl forM_; rewrite (sa_bind_ok E1); exact E2|].
    assert (Hfalse : forall e, r_has (w_oagg s) e = false -> r_has G1 e = false).
    { intros e He. destruct (Nat.eq_dec e a) as [->|Hne]; [exact Ha|]. rewrite (proj2 (Hoth e Hne)). exact He. }
    split; [|split].
    + intros e He. apply A2. apply Hfalse. exact He.
    + intros e [<-|Hin]; [apply A2; exact Ha|apply B2; exact Hin].
    + intros e He. apply C2. destruct (Nat.eq_dec e a) as [->|Hne]; [right; exact Ha|].
      destruct (Hoth e Hne) as (Eo & Eh). rewrite Eo, Eh. exact He.
Qed.

Lemma r_reset_observers : forall s,
  exists O' L' G' OP',
    reset_observers s = Ok tt (s <| w_obs := O' |> <| w_olists := L' |> <| w_oagg := G' |>
                                 <| w_opool := OP' |> <| w_ototal := 0 |> <| w_omax := 0 |>) /\
    forall evt, ((w_ototal s = 0 \/ w_omax s < evt) -> olist s evt = [] \/ has_obs s evt = false) ->
                r_olist L' evt = [] \/ r_has G' evt = false.
Proof.
  intros s. unfold reset_observers. unfold bind at 1, get at 1. cbv beta iota.
  destruct (Nat.eqb_spec (w_ototal s) 0) as [E0|E0].
  - exists (w_obs s), (w_olists s), (w_oagg s), (w_opool s). split.
    + unfold put. f_equal. destruct s. cbn in E0. subst. reflexivity.
    + intros evt HD. exact (HD (or_introl E0)).
  - change (forM_ (seq 0 (S (w_omax s))) _) with (forM_ (seq 0 (S (w_omax s))) ObsProofs.clear_evt).
    destruct (r_clear_loop (seq 0 (S (w_omax s))) s) as (O' & L' & G' & E1 & A1 & B1 & C1).
    exists O', L', G', ipool_new. split; [rewrite (sa_bind_ok E1); reflexivity|].
    intros evt HD. destruct (le_lt_dec evt (w_omax s)) as [Hle|Hlt].
    + right. apply B1. apply in_seq. lia.
    + apply C1. exact (HD (or_intror Hlt)).
Qed.

Lemma r_MInv_consistent : forall s, ObsProofs.MInv s ->
  forall evt, (w_ototal s = 0 \/ w_omax s < evt) -> olist s evt = [] \/ has_obs s evt = false.
Proof.
  intros s [HI HT] evt [E0|Hlt]; left.
  - pose proof (ObsProofs.lsum_ge evt (w_olists s)) as Hg. rewrite ObsProofs.olist_aget.
    destruct (ObsProofs.aget evt (w_olists s)); [reflexivity|simpl in Hg; lia].
  - destruct (olist s evt) eqn:El; [reflexivity|]. exfalso.
    assert (evt <= w_omax s) by (apply (ObsProofs.mi_max _ HI); congruence). lia.
Qed.

(** *** The archetype loop *)

Definition r_rst (t t' : table) : Prop :=
  t_len t' = 0 /\ (tbl_ok t -> tbl_ok t') /\ t_arch t' = t_arch t /\ t_ids t' = t_ids t /\ t_kinds t' = t_kinds t /\
  t_targets t' = t_targets t /\ t_rels t' = t_rels t /\ t_free t' = t_free t.

Lemma r_rst_reset : forall t, r_rst t (tbl_reset t).
Proof.
  intros t. unfold r_rst. split; [reflexivity|]. split; [apply tbl_reset_ok|]. repeat split; reflexivity.
Qed.

Lemma r_rst_pre : forall t t', r_rst (tbl_reset t) t' -> r_rst t t'.
Proof.
  intros t t' (A & B & C1 & C2 & C3 & C4 & C5 & C6). unfold r_rst.
  split; [exact A|]. split; [intros O; apply B, tbl_reset_ok; exact O|].
  split; [exact C1|]. split; [exact C2|]. split; [exact C3|]. split; [exact C4|]. split; [exact C5|exact C6].
Qed.

Lemma r_arch_reset_eq : forall s aid a t0 rest,
  nth_error (w_archs s) aid = Some a -> a_numrel a = 0 -> a_tables a = t0 :: rest ->
  arch_reset aid s = Ok tt (s <| w_tables ::= updf t0 tbl_reset |>).
Proof.
  intros s aid a t0 rest Ea Hn Ht. unfold arch_reset. rewrite (sa_bind_ok (sa_getA_eq _ _ _ Ea)).
  unfold arch_has_rels. rewrite Hn. cbn [Nat.eqb negb]. rewrite Ht. reflexivity.
Qed.

Lemma r_arch_loop : forall L s,
  (forall aid, In aid L -> exists a t0 rest,
     nth_error (w_archs s) aid = Some a /\ a_numrel a = 0 /\ a_tables a = t0 :: rest) ->
  exists T', forM_ L arch_reset s = Ok tt (s <| w_tables := T' |>) /\ length T' = length (w_tables s) /\
    forall tid t', nth_error T' tid = Some t' -> exists t, nth_error (w_tables s) tid = Some t /\
      (r_rst t t' \/
       (t' = t /\ forall aid a rest, In aid L -> nth_error (w_archs s) aid = Some a -> a_tables a <> tid :: rest)).
Proof.
  induction L as [|aid L IH]; intros s HL.
  - exists (w_tables s). split; [simpl; rewrite r_set_tables_id; reflexivity|]. split; [reflexivity|].
    intros tid t' E. exists t'. split; [exact E|]. right. split; [reflexivity|]. intros ? ? ? [].
  - destruct (HL aid (or_introl eq_refl)) as (a & t0 & rest & Ea & Hn & Ht).
    pose proof (r_arch_reset_eq s aid a t0 rest Ea Hn Ht) as E1.
    set (s1 := s <| w_tables ::= updf t0 tbl_reset |>) in *.
    destruct (IH s1) as (T' & E2 & L2 & P2).
    { intros aid' Hin. exact (HL aid' (or_intror Hin)). }
    change (w_tables s1) with (updf t0 tbl_reset (w_tables s)) in *. change (w_archs s1) with (w_archs s) in *.
    exists T'. split; [simpl forM_; rewrite (sa_bind_ok E1); exact E2|].
    split; [rewrite L2; apply updf_length|].
    intros tid t' E'. destruct (P2 tid t' E') as (t1 & Et1 & D).
    rewrite nth_error_updf in Et1. destruct (Nat.eqb_spec t0 tid) as [Heq|Hne].
    + destruct (nth_error (w_tables s) tid) as [t|] eqn:Et; [|discriminate]. simpl in Et1. inversion Et1; subst t1.
      exists t. split; [reflexivity|]. left. destruct D as [R|(-> & _)]; [apply r_rst_pre; exact R|apply r_rst_reset].
    + exists t1. split; [exact Et1|]. destruct D as [R|(-> & U)]; [left; exact R|].
      right. split; [reflexivity|]. intros aid' a' rest' [<-|Hin] Ea'.
      * rewrite Ea in Ea'. inversion Ea'; subst a'. rewrite Ht. intros Hc. inversion Hc. contradiction.
      * exact (U aid' a' rest' Hin Ea').
Qed.

(** *** Re-establishing the invariant *)

Definition r_rst0 (t t' : table) : Prop :=
  t_len t' = 0 /\ tbl_ok t' /\ t_arch t' = t_arch t /\ t_ids t' = t_ids t /\ t_kinds t' = t_kinds t /\
  t_targets t' = t_targets t /\ t_rels t' = t_rels t /\ t_free t' = t_free t.

Lemma r_reset_St : forall s s', St s ->
  w_cfg s' = w_cfg s -> w_reg s' = w_reg s -> w_archs s' = w_archs s -> w_relarchs s' = w_relarchs s ->
  w_compindex s' = w_compindex s -> w_archcount s' = w_archcount s ->
  w_index s' = firstn 2 (w_index s) -> w_pool s' = pool_reset (w_pool s) ->
  w_istarget s' = firstn 2 (w_istarget s) -> w_centries s' = [] ->
  length (w_tables s') = length (w_tables s) ->
  (forall tid t', nth_error (w_tables s') tid = Some t' ->
     exists t, nth_error (w_tables s) tid = Some t /\ r_rst0 t t') ->
  St s'.
Proof.
  intros s s' (H & NR) Ecfg Ereg Earch Erela Eci Eac Eidx Epool Eist Ece HLen Hb.
  assert (Hk : forall c, kind_of s' c = kind_of s c) by (apply sa_kind_of_ext; exact Ereg).
  assert (Hfw : forall tid t, nth_error (w_tables s) tid = Some t ->
            exists t', nth_error (w_tables s') tid = Some t' /\ r_rst0 t t').
  { intros tid t E. destruct (nth_error (w_tables s') tid) as [t'|] eqn:E'.
    - destruct (Hb _ _ E') as (t0 & E0 & R). rewrite E in E0. inversion E0; subst t0. exists t'. auto.
    - apply nth_error_None in E'. assert (tid < length (w_tables s)) by (apply nth_error_Some; congruence). lia. }
  destruct (wf_index_len _ H) as [IL1 IL2].
  destruct (wf_pool _ H) as (fl & (PL & _) & _).
  destruct (wf_reserved _ H) as ((r0 & I0) & (r1 & I1) & P0 & P1).
  split.
  - constructor.
    + apply Forall_nth_error. intros i x E. destruct (Hb _ _ E) as (t & _ & _ & O & _). exact O.
    + intros tid t' E. destruct (Hb _ _ E) as (t & Et & _ & _ & Fa & Fi & Fk & Ft & _).
      destruct (wf_layout _ H _ _ Et) as (a & Ea & L1 & L2 & L3). exists a.
      rewrite Earch, Fa, Fi, Fk, Ft. repeat split; auto.
      rewrite L2. apply map_ext. intros; symmetry; apply Hk.
    + intros aid a Ea. rewrite Earch in Ea. destruct (wf_arch_comps _ H _ _ Ea) as (A1 & A2 & A3 & A4 & A5).
      rewrite Ereg. repeat split; auto. rewrite A3. apply map_ext. intros; rewrite Hk; reflexivity.
    + rewrite Earch. apply (wf_arch_unique _ H).
    + intros aid a tid Ea Hin. rewrite Earch in Ea.
      destruct (wf_arch_tables _ H _ _ _ Ea Hin) as (t & Et & Fa).
      destruct (Hfw _ _ Et) as (t' & Et' & _ & _ & Fa' & _). exists t'. split; auto. congruence.
    + rewrite Earch. apply (wf_arch_norel_table _ H).
    + destruct (wf_arch0 _ H) as (a0 & Ea0 & M0 & t0 & Et0 & Fa0). exists a0. rewrite Earch.
      repeat split; auto. destruct (Hfw _ _ Et0) as (t' & Et' & _ & _ & Fa' & _). exists t'. split; auto. congruence.
    + rewrite Eci, Eac, Ereg, Ecfg. apply (wf_index_lists _ H).
    + rewrite Eidx, Epool, Eist. unfold pool_reset, reserved. cbn [pe]. rewrite !firstn_length. lia.
    + intros tid t r E Hr. destruct (Hb _ _ E) as (t0 & _ & L0 & _). lia.
    + intros id tid r E. rewrite Eidx in E.
      assert (Hid : id < 2).
      { assert (Hlt : id < length (firstn 2 (w_index s))) by (apply nth_error_Some; congruence).
        rewrite firstn_length in Hlt. lia. }
      rewrite r_nth_error_firstn in E by exact Hid.
      destruct id as [|[|id]]; [rewrite I0 in E; discriminate|rewrite I1 in E; discriminate|lia].
    + exists []. rewrite Epool. unfold pool_ok, pool_reset, reserved. cbn [pe pnext pavail].
      split; [|split; [intros i []|]].
      * split; [rewrite firstn_length; lia|]. split; [reflexivity|]. split; [constructor|].
        split; [intros i []|exact I].
      * intros i Hi. rewrite firstn_length in Hi. lia.
    + rewrite Eidx, Epool. unfold pool_reset, reserved. cbn [pe].
      rewrite !r_nth_error_firstn by lia. repeat split; eauto.
    + rewrite Epool. unfold pool_reset, reserved. cbn [pe]. rewrite firstn_length.
      pose proof sa_small_2. lia.
    + rewrite Ece. intros addr [].
  - destruct NR as (N1 & N2 & N3 & N4). split; [|split; [|split]].
    + intros c. rewrite Hk. apply N1.
    + intros tid t' E. destruct (Hb _ _ E) as (t & Et & _ & _ & _ & _ & _ & _ & Fr & Ff).
      rewrite Fr, Ff. apply (N2 _ _ Et).
    + rewrite Earch. exact N3.
    + rewrite Erela. exact N4.
Qed.

Lemma r_no_live : forall s, (forall tid t, nth_error (w_tables s) tid = Some t -> t_len t = 0) ->
  forall e, live s e = false.
Proof.
  intros s H e. unfold live. destruct (loc s e) as [[tid r]|]; [|reflexivity].
  destruct (nth_error (w_tables s) tid) as [t|] eqn:E; [|reflexivity].
  rewrite (H _ _ E). reflexivity.
Qed.

(** Reset on an unlocked world: no entity is live, the pool is back to its two reserved slots, the
    filter cache is empty and every filter unregistered, no observer is registered, the world is
    unlocked, resources are gone, and the world is well formed again (so every later history behaves
    as the storage theorems say). On a locked world it fails without effect.

    The statement below, as first written, is NOT provable from [St s] alone (and is false for
    some states satisfying [St]); it is commented out and replaced by [reset_empty_partial].
    Four hypotheses are missing, each of them necessary:

    (A) every archetype has a table. [WF] allows an archetype with [a_tables a = []] (see
        [wf_arch_norel_table]). Before the repair of createArchetype such an archetype was left behind by
        a creation that was rejected between createArchetype and createTable (a genuine defect of the Go
        code, found by a proof attempt and repaired in /repo: createArchetype now creates the table of an
        archetype without relation components itself); since the repair (A) holds in every reachable
        state ([archs_tabled_norel] of WF.v: [archs_tabled_init], [find_or_create_table*_tabled] of
        StorageA, [Inv4] / [inv4_reset_empty] of StorageD), but it is still not part of [St].
        [arch_reset] runs [match a_tables a with [] => fail EIndex], i.e. [w_reset s] is
        [Err EIndex _] (Go: [a.tables[0]] panics with index out of range). Counterexample: any
        [St] world whose archetype list contains an archetype with [a_tables = []]; this is
        proved below as [reset_fails_without_table].
    (B) every non-empty table is listed in [a_tables] of some archetype. [WF] only has the
        direction archetype -> table ([wf_arch_tables]); nothing says that a table is listed in its
        archetype. A table with rows that no archetype lists is not touched by the archetype loop, so
        after Reset it still has [t_len > 0] while the entity index is truncated: the last conjunct
        fails and [WF s'] fails ([wf_rows]). Suggested invariant clause:
        [forall tid t, nth_error (w_tables s) tid = Some t ->
           exists a, nth_error (w_archs s) (t_arch t) = Some a /\ (In tid (a_tables a) \/ In tid (a_free a))].
    (C) every filter object that claims to be registered ([f_cache f <> None]) is the filter of some
        cache entry in [w_centries]. [cache_reset] only clears the filters reachable from the
        entries; [WF] ([wf_cache]) only has the direction entry -> filter. Counterexample: a world with
        [w_centries = []] and a filter with [f_cache = Some 0]: Reset leaves that filter alone, so
        [forall f, In f (w_filters s') -> f_cache f = None] fails.
    (D) the observer manager is consistent: if [w_ototal s = 0] no event has both a non-empty list
        and the [g_has] flag, and the same for events above [w_omax s]. [reset_observers] does
        nothing but [w_omax := 0] when [w_ototal = 0], and only visits events [0..w_omax]; the
        manager fields are not constrained by [St]. ([ObsProofs.MInv s], the invariant of all
        manager histories, implies (D): [r_MInv_consistent].)
    The hypothesis on [w_cheap] in the original statement is redundant ([wf_cache]).

Theorem reset_empty : forall s, St s -> is_locked s = false ->
  (forall addr e, In addr (w_centries s) -> nth_error (w_cheap s) addr = Some e -> ce_filter e < length (w_filters s)) ->
  exists s', w_reset s = Ok tt s' /\ St s' /\ (forall e, live s' e = false) /\
             pe (w_pool s') = [(0, max_u32); (1, max_u32)] /\ pavail (w_pool s') = 0 /\
             w_centries s' = [] /\ (forall f, In f (w_filters s') -> f_cache f = None) /\
             w_ototal s' = 0 /\ (forall evt, olist s' evt = [] \/ has_obs s' evt = false) /\
             is_locked s' = false /\ Forall (fun b => b = false) (w_res s') /\
             w_reg s' = w_reg s /\ w_cfg s' = w_cfg s /\ length (w_archs s') = length (w_archs s) /\
             (forall tid t, nth_error (w_tables s') tid = Some t -> t_len t = 0).
(refuted)
*)
Theorem reset_empty_partial : forall s, St s -> is_locked s = false ->
  (* (A) *) (forall aid a, nth_error (w_archs s) aid = Some a -> a_tables a <> []) ->
  (* (B) *) (forall tid t, nth_error (w_tables s) tid = Some t -> 0 < t_len t ->
               exists aid a, nth_error (w_archs s) aid = Some a /\ In tid (a_tables a)) ->
  (* (C) *) (forall fi f, nth_error (w_filters s) fi = Some f -> f_cache f <> None ->
               exists addr e, In addr (w_centries s) /\ nth_error (w_cheap s) addr = Some e /\ ce_filter e = fi) ->
  (* (D) *) (forall evt, (w_ototal s = 0 \/ w_omax s < evt) -> olist s evt = [] \/ has_obs s evt = false) ->
  exists s', w_reset s = Ok tt s' /\ St s' /\ (forall e, live s' e = false) /\
             pe (w_pool s') = [(0, max_u32); (1, max_u32)] /\ pavail (w_pool s') = 0 /\
             w_centries s' = [] /\ (forall f, In f (w_filters s') -> f_cache f = None) /\
             w_ototal s' = 0 /\ (forall evt, olist s' evt = [] \/ has_obs s' evt = false) /\
             is_locked s' = false /\ Forall (fun b => b = false) (w_res s') /\
             w_reg s' = w_reg s /\ w_cfg s' = w_cfg s /\ length (w_archs s') = length (w_archs s) /\
             (forall tid t, nth_error (w_tables s') tid = Some t -> t_len t = 0).
Proof.
  intros s HSt Hl HA HB HC HD. pose proof HSt as (H & NR).
  unfold w_reset.
  rewrite (sa_bind_ok (r_check_unlocked s Hl)).
  rewrite (sa_bind_ok (r_modify_eq _ _)).
  set (s1 := s <| w_index ::= firstn 2 |> <| w_pool ::= pool_reset |> <| w_istarget ::= firstn 2 |>).
  (* cache *)
  destruct (r_cache_reset s1) as (F' & CP' & E2 & PF).
  { intros addr Hin. destruct (wf_cache _ H addr Hin) as (e & Ee & _). exists e. exact Ee. }
  rewrite (sa_bind_ok E2).
  set (s2 := s1 <| w_filters := F' |> <| w_centries := [] |> <| w_cpool := CP' |>).
  rewrite (sa_bind_ok (r_modify_eq _ _)).
  set (s3 := s2 <| w_lock := lock_new |>).
  (* observers *)
  destruct (r_reset_observers s3) as (O' & L' & G' & OP' & E4 & PO).
  rewrite (sa_bind_ok E4).
  set (s4 := s3 <| w_obs := O' |> <| w_olists := L' |> <| w_oagg := G' |>
                <| w_opool := OP' |> <| w_ototal := 0 |> <| w_omax := 0 |>).
  unfold bind at 1, get at 1. cbv beta iota.
  (* archetypes *)
  destruct (r_arch_loop (seq 0 (length (w_archs s4))) s4) as (T' & E5 & L5 & P5).
  { intros aid Hin. apply in_seq in Hin. change (w_archs s4) with (w_archs s) in *.
    destruct (nth_error (w_archs s) aid) as [a|] eqn:Ea; [|apply nth_error_None in Ea; lia].
    destruct NR as (_ & _ & N3 & _). destruct (N3 _ _ Ea) as (_ & Hn & _).
    pose proof (HA _ _ Ea) as Hne. destruct (a_tables a) as [|t0 rest] eqn:Et; [congruence|].
    exists a, t0, rest. auto. }
  rewrite (sa_bind_ok E5). rewrite r_modify_eq.
  set (s' := s4 <| w_tables := T' |> <| w_res ::= map (fun _ : bool => false) |>).
  change (w_tables s4) with (w_tables s) in *. change (w_archs s4) with (w_archs s) in *.
  (* every table is reset *)
  assert (HT : forall tid t', nth_error T' tid = Some t' -> exists t, nth_error (w_tables s) tid = Some t /\ r_rst0 t t').
  { intros tid t' E'. destruct (P5 tid t' E') as (t & Et & D). exists t. split; [exact Et|].
    assert (Ok_t : tbl_ok t) by (apply (proj1 (Forall_nth_error _ _ _) (wf_tables _ H) _ _ Et)).
    destruct D as [(A & B & C)|(-> & U)].
    - split; [exact A|]. split; [exact (B Ok_t)|exact C].
    - split; [|split; [exact Ok_t|repeat split; reflexivity]].
      destruct (t_len t) as [|n] eqn:Eln; [reflexivity|]. exfalso.
      destruct (HB tid t Et) as (aid & a & Ea & Hin); [lia|].
      assert (Haid : In aid (seq 0 (length (w_archs s)))).
      { apply in_seq. assert (aid < length (w_archs s)) by (apply nth_error_Some; congruence). lia. }
      destruct NR as (_ & _ & N3 & _). destruct (N3 _ _ Ea) as (_ & Hn & _).
      pose proof (wf_arch_norel_table _ H _ _ Ea Hn) as Hle.
      destruct (a_tables a) as [|x [|y l]] eqn:Eat; simpl in Hin, Hle; [contradiction| |lia].
      destruct Hin as [->|[]]. apply (U aid a [] Haid Ea). exact Eat. }
  assert (HZ : forall tid t, nth_error T' tid = Some t -> t_len t = 0).
  { intros tid t E. destruct (HT _ _ E) as (t0 & _ & L0 & _). exact L0. }
  exists s'. split; [reflexivity|].
  split.
  { apply (r_reset_St s s' HSt); try reflexivity.
    - exact L5.
    - exact HT. }
  split; [apply r_no_live; exact HZ|].
  split.
  { change (pe (w_pool s')) with (firstn 2 (pe (w_pool s))).
    destruct (wf_reserved _ H) as (_ & _ & P0 & P1).
    revert P0 P1. destruct (pe (w_pool s)) as [|a [|b l]]; cbn [nth_error firstn]; intros P0 P1; try discriminate. inversion P0; inversion P1; reflexivity. }
  split; [reflexivity|]. split; [reflexivity|].
  split.
  { intros f Hin. change (w_filters s') with F' in Hin. apply In_nth_error in Hin. destruct Hin as (i & Ei).
    destruct (PF i f Ei) as [Hn|(E0 & U)]; [exact Hn|].
    change (w_filters s1) with (w_filters s) in E0. change (w_centries s1) with (w_centries s) in U.
    change (w_cheap s1) with (w_cheap s) in U.
    destruct (f_cache f) as [cid|] eqn:Ef; [|reflexivity]. exfalso.
    destruct (HC i f E0) as (addr & e & Hin & Ee & Efi); [congruence|].
    exact (U addr e Hin Ee Efi). }
  split; [reflexivity|].
  split; [intros evt; exact (PO evt (HD evt))|].
  split; [reflexivity|].
  split.
  { change (w_res s') with (map (fun _ : bool => false) (w_res s)).
    apply Forall_forall. intros b Hin. apply in_map_iff in Hin. destruct Hin as (x & <- & _). reflexivity. }
  split; [reflexivity|]. split; [reflexivity|]. split; [reflexivity|].
  exact HZ.
Qed.

(** With the manager invariant of ObsProofs instead of (D). *)
Corollary reset_empty_partial_MInv : forall s, St s -> is_locked s = false ->
  (forall aid a, nth_error (w_archs s) aid = Some a -> a_tables a <> []) ->
  (forall tid t, nth_error (w_tables s) tid = Some t -> 0 < t_len t ->
     exists aid a, nth_error (w_archs s) aid = Some a /\ In tid (a_tables a)) ->
  (forall fi f, nth_error (w_filters s) fi = Some f -> f_cache f <> None ->
     exists addr e, In addr (w_centries s) /\ nth_error (w_cheap s) addr = Some e /\ ce_filter e = fi) ->
  ObsProofs.MInv s ->
  exists s', w_reset s = Ok tt s' /\ St s' /\ (forall e, live s' e = false) /\
             pe (w_pool s') = [(0, max_u32); (1, max_u32)] /\ pavail (w_pool s') = 0 /\
             w_centries s' = [] /\ (forall f, In f (w_filters s') -> f_cache f = None) /\
             w_ototal s' = 0 /\ (forall evt, olist s' evt = [] \/ has_obs s' evt = false) /\
             is_locked s' = false /\ Forall (fun b => b = false) (w_res s') /\
             w_reg s' = w_reg s /\ w_cfg s' = w_cfg s /\ length (w_archs s') = length (w_archs s) /\
             (forall tid t, nth_error (w_tables s') tid = Some t -> t_len t = 0).
Proof.
  intros s HSt Hl HA HB HC HM. apply reset_empty_partial; auto. apply r_MInv_consistent. exact HM.
Qed.

(** (A) is necessary: in a relation-free world an archetype without a table makes Reset fail
    (Go: index out of range in [archetype.Reset]). *)
Lemma r_arch_loop_fail : forall L s,
  (forall aid, In aid L -> exists a, nth_error (w_archs s) aid = Some a /\ a_numrel a = 0) ->
  (exists aid a, In aid L /\ nth_error (w_archs s) aid = Some a /\ a_tables a = []) ->
  exists s', forM_ L arch_reset s = Err EIndex s'.
Proof.
  induction L as [|x L IH]; intros s HL (aid & a & Hin & Ea & Et).
  - destruct Hin.
  - destruct (HL x (or_introl eq_refl)) as (ax & Eax & Hn).
    destruct (a_tables ax) as [|t0 rest] eqn:Etx.
    + exists s. simpl forM_. apply sa_bind_err. unfold arch_reset.
      rewrite (sa_bind_ok (sa_getA_eq _ _ _ Eax)). unfold arch_has_rels. rewrite Hn. cbn [Nat.eqb negb].
      rewrite Etx. reflexivity.
    + pose proof (r_arch_reset_eq s x ax t0 rest Eax Hn Etx) as E1.
      destruct (IH (s <| w_tables ::= updf t0 tbl_reset |>)) as (s' & E2).
      { intros aid' Hin'. exact (HL aid' (or_intror Hin')). }
      { exists aid, a. split; [|split; [exact Ea|exact Et]].
        destruct Hin as [<-|Hin]; [|exact Hin]. rewrite Eax in Ea. inversion Ea; subst a. congruence. }
      exists s'. simpl forM_. rewrite (sa_bind_ok E1). exact E2.
Qed.

Theorem reset_fails_without_table : forall s aid a, St s -> is_locked s = false ->
  nth_error (w_archs s) aid = Some a -> a_tables a = [] ->
  exists s', w_reset s = Err EIndex s'.
Proof.
  intros s aid a (H & NR) Hl Ea Et.
  unfold w_reset.
  rewrite (sa_bind_ok (r_check_unlocked s Hl)).
  rewrite (sa_bind_ok (r_modify_eq _ _)).
  set (s1 := s <| w_index ::= firstn 2 |> <| w_pool ::= pool_reset |> <| w_istarget ::= firstn 2 |>).
  destruct (r_cache_reset s1) as (F' & CP' & E2 & _).
  { intros addr Hin. destruct (wf_cache _ H addr Hin) as (e & Ee & _). exists e. exact Ee. }
  rewrite (sa_bind_ok E2).
  rewrite (sa_bind_ok (r_modify_eq _ _)).
  match goal with |- context [bind reset_observers _ ?st] => set (s3 := st) end.
  destruct (r_reset_observers s3) as (O' & L' & G' & OP' & E4 & _).
  rewrite (sa_bind_ok E4).
  match goal with |- context [bind get _ ?st] => set (s4 := st) end.
  unfold bind at 1, get at 1. cbv beta iota.
  destruct (r_arch_loop_fail (seq 0 (length (w_archs s4))) s4) as (s' & E5).
  { intros aid' Hin. apply in_seq in Hin. change (w_archs s4) with (w_archs s) in *.
    destruct (nth_error (w_archs s) aid') as [a'|] eqn:Ea'; [|apply nth_error_None in Ea'; lia].
    destruct NR as (_ & _ & N3 & _). destruct (N3 _ _ Ea') as (_ & Hn & _). exists a'. auto. }
  { exists aid, a. change (w_archs s4) with (w_archs s). split; [|auto].
    apply in_seq. assert (aid < length (w_archs s)) by (apply nth_error_Some; congruence). lia. }
  exists s'. apply sa_bind_err. exact E5.
Qed.

(** ** Assumption audit *)
