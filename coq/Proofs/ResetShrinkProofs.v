(** * ResetShrinkProofs: Reset and Shrink in relation-free worlds. Properties C15 (Shrink is
    invisible; capacity bounds; the result says whether work remains), C16 (Reset empties the world
    and keeps it well formed). To be filled. *)
From Ark Require Import Model.Base Model.Mask Model.Pool Model.Util Model.World Model.Run.
From Ark Require Import Proofs.TableProofs Proofs.UtilProofs Proofs.MaskProofs Proofs.WF Proofs.StorageA Proofs.StorageBDefs.
From RecordUpdate Require Import RecordSet.
Import RecordSetNotations.
From Coq Require Import Lia.

(** Shrink (unbounded budget or zero budget) never changes entities, components, values; the world
    stays well formed; it never fails; the lock, observers, filters and queries are untouched. *)
Theorem shrink_invisible : forall s stop0, St s ->
  exists b s', w_shrink stop0 s = Ok b s' /\ St s' /\ content_same s s' /\ w_pool s' = w_pool s /\
               w_index s' = w_index s /\ side_same s s' /\ frame_user s s' /\ w_archs s' = w_archs s /\
               length (w_tables s') = length (w_tables s).
Admitted.

(** After an unbounded Shrink every table's capacity is at least its size and at most the larger of
    the initial capacity and the next power of two of its size; and Shrink reports no remaining work. *)
Theorem shrink_capacity_bounds : forall s, St s ->
  exists s', w_shrink false s = Ok false s' /\
  forall tid t, nth_error (w_tables s') tid = Some t ->
    t_len t <= t_cap t /\ t_cap t <= Nat.max (cf_cap (w_cfg s)) (cap_pow2 (t_len t)).
Admitted.

(** A zero-budget Shrink returns [true] only if some table can still shrink afterwards, and [false]
    only if none can; repeated calls terminate: each call that does work reduces the number of
    tables that can shrink. *)
Definition shrinkable (s : W) : nat :=
  length (filter (fun t => tbl_can_shrink t (cf_cap (w_cfg s))) (w_tables s)).

Theorem shrink_result_exact : forall s stop0, St s ->
  exists b s', w_shrink stop0 s = Ok b s' /\ (b = true <-> 0 < shrinkable s') .
Admitted.

Theorem shrink_converges : forall s, St s -> 0 < shrinkable s ->
  exists b s', w_shrink true s = Ok b s' /\ shrinkable s' < shrinkable s.
Admitted.

(** Reset on an unlocked world: no entity is live, the pool is back to its two reserved slots, the
    filter cache is empty and every filter unregistered, no observer is registered, the world is
    unlocked, resources are gone, and the world is well formed again (so every later history behaves
    as the storage theorems say). On a locked world it fails without effect. *)
Theorem reset_empty : forall s, St s -> is_locked s = false ->
  (forall addr e, In addr (w_centries s) -> nth_error (w_cheap s) addr = Some e -> ce_filter e < length (w_filters s)) ->
  exists s', w_reset s = Ok tt s' /\ St s' /\ (forall e, live s' e = false) /\
             pe (w_pool s') = [(0, max_u32); (1, max_u32)] /\ pavail (w_pool s') = 0 /\
             w_centries s' = [] /\ (forall f, In f (w_filters s') -> f_cache f = None) /\
             w_ototal s' = 0 /\ (forall evt, olist s' evt = [] \/ has_obs s' evt = false) /\
             is_locked s' = false /\ Forall (fun b => b = false) (w_res s') /\
             w_reg s' = w_reg s /\ w_cfg s' = w_cfg s /\ length (w_archs s') = length (w_archs s) /\
             (forall tid t, nth_error (w_tables s') tid = Some t -> t_len t = 0).
Admitted.

Theorem reset_locked_rejected : forall s, is_locked s = true -> w_reset s = Err ELocked s.
Admitted.
