(** * PoolProofs: proofs of the C02 statements. *)
From Ark Require Import Model.Base Model.Mask Model.Pool Proofs.PoolSpec.
From Coq Require Import Lia ZifyN ZifyNat ZifyBool.

(** ** Helper lemmas on [upd] / [nth_error] *)

Section UpdLemmas.
Context {A : Type}.

Lemma upd_length : forall i (x : A) l, length (upd i x l) = length l.
Proof.
  intros i x l; revert i; induction l as [|h t IH]; intros [|i]; cbn; auto.
Qed.

Lemma nth_error_upd_eq : forall i (x : A) l,
  i < length l -> nth_error (upd i x l) i = Some x.
Proof.
  intros i x l; revert i; induction l as [|h t IH]; intros [|i] H; cbn in *; try lia; auto.
  apply IH; lia.
Qed.

Lemma nth_error_upd_neq : forall i j (x : A) l,
  i <> j -> nth_error (upd i x l) j = nth_error l j.
Proof.
  intros i j x l; revert i j; induction l as [|h t IH]; intros [|i] [|j] H; cbn; auto;
    try congruence; try (apply IH; lia).
Qed.

Lemma NoDup_snoc : forall (l : list A) x, NoDup l -> ~ In x l -> NoDup (l ++ [x]).
Proof.
  intros l x; induction l as [|h t IH]; intros Hnd Hni; cbn.
  - constructor; [intros [] | constructor].
  - inversion Hnd as [|h' t' Hh Ht]; subst. constructor.
    + rewrite in_app_iff; cbn. intros [H|[H|[]]]; [auto|].
      subst. apply Hni; left; auto.
    + apply IH; auto. intros H; apply Hni; right; auto.
Qed.

Lemma nth_error_Some_lt : forall (l : list A) i x, nth_error l i = Some x -> i < length l.
Proof. intros l i x H. apply nth_error_Some. rewrite H. discriminate. Qed.

End UpdLemmas.

(** ** The generation stored in a slot *)

Definition slot_gen (l : list ent) (i : nat) : option N :=
  match nth_error l i with Some (_, g) => Some g | None => None end.

Lemma slot_gen_lt : forall l i g, slot_gen l i = Some g -> i < length l.
Proof.
  unfold slot_gen; intros l i g H. apply nth_error_Some. intros E; rewrite E in H; discriminate.
Qed.

Lemma slot_gen_upd_eq : forall l i x g, i < length l -> slot_gen (upd i (x, g) l) i = Some g.
Proof. unfold slot_gen; intros l i x g H. rewrite nth_error_upd_eq by exact H. reflexivity. Qed.

Lemma slot_gen_upd_neq : forall l i j v, i <> j -> slot_gen (upd i v l) j = slot_gen l j.
Proof. unfold slot_gen; intros l i j v H. rewrite nth_error_upd_neq by exact H. reflexivity. Qed.

Lemma slot_gen_upd_same : forall (l : list ent) i x y g,
  nth_error l i = Some (y, g) -> forall j, slot_gen (upd i (x, g) l) j = slot_gen l j.
Proof.
  intros l i x y g Hn j. destruct (Nat.eq_dec i j) as [Heq|Hne].
  - subst j. rewrite slot_gen_upd_eq.
    + unfold slot_gen; rewrite Hn; reflexivity.
    + eapply nth_error_Some_lt; eassumption.
  - apply slot_gen_upd_neq; exact Hne.
Qed.

Lemma slot_gen_app_lt : forall l t i, i < length l -> slot_gen (l ++ t) i = slot_gen l i.
Proof. unfold slot_gen; intros l t i H. rewrite nth_error_app1 by exact H. reflexivity. Qed.

Lemma slot_gen_app_eq : forall l x g, slot_gen (l ++ [(x, g)]) (length l) = Some g.
Proof.
  unfold slot_gen; intros l x g. rewrite nth_error_app2 by lia. rewrite Nat.sub_diag. reflexivity.
Qed.

Lemma slot_gen_app_gt : forall l v i, length l < i -> slot_gen (l ++ [v]) i = None.
Proof.
  unfold slot_gen; intros l v i H.
  assert (E : nth_error (l ++ [v]) i = None).
  { apply nth_error_None. rewrite app_length; cbn; lia. }
  rewrite E; reflexivity.
Qed.

(** ** [ent_in] is list membership *)

Lemma ent_eqb_eq : forall a b, ent_eqb a b = true <-> a = b.
Proof.
  intros [a1 a2] [b1 b2]; unfold ent_eqb; cbn [fst snd].
  rewrite andb_true_iff, Nat.eqb_eq, N.eqb_eq.
  split; [intros [-> ->]; reflexivity | intros H; inversion H; auto].
Qed.

Lemma ent_in_In : forall e l, ent_in e l = true <-> In e l.
Proof.
  intros e l; unfold ent_in; rewrite existsb_exists. split.
  - intros (x & Hx & He). apply ent_eqb_eq in He; subst; exact Hx.
  - intros H; exists e; split; [exact H | apply ent_eqb_eq; reflexivity].
Qed.

(** ** The weak invariant (holds for every history, wrapped or not) *)

(** [walk l c n]: following the free-list links from [c] for [n] steps only visits
    non-reserved, in-range slots. *)
Fixpoint walk (l : list ent) (c n : nat) : Prop :=
  match n with
  | 0 => True
  | S n' => 2 <= c /\ exists nid g, nth_error l c = Some (nid, g) /\ walk l nid n'
  end.

Lemma walk_mono : forall l n c, walk l c (S n) -> walk l c n.
Proof.
  intros l n; induction n as [|n IH]; intros c H; [exact I|].
  destruct H as (H2 & nid & g & Hn & Hw). split; [exact H2|].
  exists nid, g. split; [exact Hn|]. apply IH; exact Hw.
Qed.

Lemma walk_upd : forall l e v g' n x,
  walk l x n -> walk l v n -> e < length l -> walk (upd e (v, g') l) x n.
Proof.
  intros l e v g' n; induction n as [|n IH]; intros x Hx Hv He; [exact I|].
  pose proof (walk_mono _ _ _ Hv) as Hv'.
  destruct Hx as (H2 & nid & g & Hn & Hw).
  split; [exact H2|].
  destruct (Nat.eq_dec e x) as [->|Hne].
  - exists v, g'. split; [apply nth_error_upd_eq; exact He | apply IH; auto].
  - exists nid, g. split; [rewrite nth_error_upd_neq by exact Hne; exact Hn | apply IH; auto].
Qed.

Record W (g : ghost) : Prop := {
  W_len : 2 <= length (pe (g_pool g));
  W_r0 : exists x, nth_error (pe (g_pool g)) 0 = Some (x, max_u32);
  W_walk : walk (pe (g_pool g)) (pnext (g_pool g)) (pavail (g_pool g));
  W_iss : forall e, In e (g_issued g) -> 2 <= fst e
}.

Arguments W_r0 {g}.
Arguments W_iss {g}.

Lemma W_ghost0 : W ghost0.
Proof.
  constructor; cbn.
  - lia.
  - exists 0; reflexivity.
  - exact I.
  - intros e [].
Qed.

Lemma W_step : forall g o, W g -> W (gstep g o).
Proof.
  intros [[l nx av] iss rem] o [Hlen Hr0 Hwalk Hiss];
    cbn [g_pool g_issued g_removed pe pnext pavail] in *.
  destruct o as [|k|]; unfold gstep; cbn [g_pool g_issued g_removed].
  - (* PGet *)
    unfold pool_get; cbn [pe pnext pavail].
    destruct (Nat.eqb av 0) eqn:E.
    + apply Nat.eqb_eq in E; subst av.
      constructor; cbn [g_pool g_issued g_removed pe pnext pavail].
      * rewrite app_length; cbn; lia.
      * destruct Hr0 as [x Hx]; exists x. rewrite nth_error_app1 by lia. exact Hx.
      * exact I.
      * intros e He. apply in_app_or in He. destruct He as [He|[He|[]]].
        -- apply Hiss; exact He.
        -- subst e; cbn; exact Hlen.
    + destruct av as [|n]; [discriminate|].
      destruct Hwalk as (H2 & nid & g & Hn & Hw). rewrite Hn.
      assert (Hc : nx < length l) by (eapply nth_error_Some_lt; eassumption).
      constructor; cbn [g_pool g_issued g_removed pe pnext pavail].
      * rewrite upd_length; exact Hlen.
      * destruct Hr0 as [x Hx]; exists x. rewrite nth_error_upd_neq by lia. exact Hx.
      * replace (S n - 1) with n by lia.
        apply walk_upd; auto.
        apply walk_mono. split; [exact H2|]. exists nid, g; split; auto.
      * intros e He. apply in_app_or in He. destruct He as [He|[He|[]]].
        -- apply Hiss; exact He.
        -- subst e; cbn; exact H2.
  - (* PRecycle *)
    destruct (nth_error iss k) as [e|] eqn:Hk; [|constructor; assumption].
    destruct (pool_alive _ e) eqn:Ha; [|constructor; assumption].
    destruct (pool_recycle _ e) as [p'|] eqn:Hr; [|constructor; assumption].
    apply nth_error_In in Hk. pose proof (Hiss _ Hk) as He2.
    unfold pool_alive in Ha; cbn [pe] in Ha.
    unfold pool_recycle in Hr; cbn [pe pnext pavail] in Hr.
    destruct (Nat.ltb (fst e) reserved); [discriminate|].
    destruct (nth_error l (fst e)) as [[x g]|] eqn:Hn; [|discriminate].
    assert (Hc : fst e < length l) by (eapply nth_error_Some_lt; eassumption).
    inversion Hr; subst p'; clear Hr.
    constructor; cbn [g_pool g_issued g_removed pe pnext pavail].
    + rewrite upd_length; exact Hlen.
    + destruct Hr0 as [y Hy]; exists y. rewrite nth_error_upd_neq by lia. exact Hy.
    + split; [exact He2|]. eexists _, _. split; [apply nth_error_upd_eq; exact Hc|].
      apply walk_upd; auto.
    + exact Hiss.
  - (* PReset *)
    constructor; cbn [g_pool g_issued g_removed pe pnext pavail pool_reset].
    + unfold reserved; rewrite firstn_length; lia.
    + destruct Hr0 as [x Hx]. exists x.
      destruct l as [|a t]; [discriminate|]. cbn in Hx |- *. exact Hx.
    + exact I.
    + intros e [].
Qed.

Lemma W_fold : forall ops g, W g -> W (fold_left gstep ops g).
Proof.
  induction ops as [|o ops IH]; intros g H; cbn; [exact H|].
  apply IH, W_step, H.
Qed.

Lemma W_run : forall ops, W (grun ops).
Proof. intros ops; apply W_fold, W_ghost0. Qed.

(** ** The strong invariant (needs [no_wrap] to be preserved by recycle) *)

(** [chain l h fl]: [fl] is the free list starting at [h]; each element's slot stores
    the next element in its id field (the last one stores anything). *)
Fixpoint chain (l : list ent) (h : nat) (fl : list nat) : Prop :=
  match fl with
  | [] => True
  | x :: r => x = h /\ exists nid g, nth_error l x = Some (nid, g) /\ chain l nid r
  end.

Lemma chain_upd : forall l c v fl h, ~ In c fl -> chain l h fl -> chain (upd c v l) h fl.
Proof.
  intros l c v fl; induction fl as [|x r IH]; intros h Hni Hc; [exact I|].
  destruct Hc as (Hx & nid & g & Hn & Hr). split; [exact Hx|]. exists nid, g. split.
  - rewrite nth_error_upd_neq; [exact Hn|]. intros ->; apply Hni; left; reflexivity.
  - apply IH; [|exact Hr]. intros H; apply Hni; right; exact H.
Qed.

Record InvR (l : list ent) (nx av : nat) (iss rem : list ent) (fl : list nat) : Prop := {
  I_len2 : 2 <= length l;
  I_len : length fl = av;
  I_nodup : NoDup fl;
  I_range : forall x, In x fl -> 2 <= x < length l;
  I_chain : chain l nx fl;
  I_iss : forall i gen, In (i, gen) iss <->
            2 <= i /\ exists sg, slot_gen l i = Some sg /\
                                 (gen < sg \/ gen = sg /\ ~ In i fl)%N;
  I_rem : forall i gen, In (i, gen) rem <->
            2 <= i /\ exists sg, slot_gen l i = Some sg /\ (gen < sg)%N;
  I_nd_iss : NoDup iss;
  I_nd_rem : NoDup rem;
  I_cnt : length iss + av + 2 = length l + length rem;
  I_le : length rem <= length iss
}.

Arguments I_len2 {l nx av iss rem fl}.
Arguments I_iss {l nx av iss rem fl}.
Arguments I_rem {l nx av iss rem fl}.
Arguments I_nd_iss {l nx av iss rem fl}.
Arguments I_cnt {l nx av iss rem fl}.
Arguments I_le {l nx av iss rem fl}.

Definition Inv (g : ghost) : Prop :=
  exists fl, InvR (pe (g_pool g)) (pnext (g_pool g)) (pavail (g_pool g))
                  (g_issued g) (g_removed g) fl.

Lemma inv_empty : forall l nx, length l = 2 -> InvR l nx 0 [] [] [].
Proof.
  intros l nx Hl. constructor.
  - lia.
  - reflexivity.
  - constructor.
  - intros x [].
  - exact I.
  - intros i gen; split;
      [intros [] | intros (H2 & sg & Hs & _); apply slot_gen_lt in Hs; lia].
  - intros i gen; split;
      [intros [] | intros (H2 & sg & Hs & _); apply slot_gen_lt in Hs; lia].
  - constructor.
  - constructor.
  - cbn; lia.
  - cbn; lia.
Qed.

Lemma Inv_ghost0 : Inv ghost0.
Proof. exists []. apply inv_empty. reflexivity. Qed.

Lemma inv_get : forall l nx av iss rem fl e p',
  InvR l nx av iss rem fl ->
  pool_get {| pe := l; pnext := nx; pavail := av |} = (e, p') ->
  exists fl', InvR (pe p') (pnext p') (pavail p') (iss ++ [e]) rem fl'.
Proof.
  intros l nx av iss rem fl e p'
    [Hlen2 Hlen Hnd Hrange Hchain Hiss Hrem Hndi Hndr Hcnt Hle] Hget.
  unfold pool_get in Hget; cbn [pe pnext pavail] in Hget.
  destruct (Nat.eqb av 0) eqn:E.
  - (* fresh slot *)
    destruct av as [|av']; [clear E|discriminate].
    destruct fl as [|? ?]; [|discriminate]. clear Hlen Hnd Hrange Hchain.
    inversion Hget; subst e p'; clear Hget. cbn [pe pnext pavail].
    exists []. constructor.
    + rewrite app_length; cbn; lia.
    + reflexivity.
    + constructor.
    + intros x [].
    + exact I.
    + intros i gen. rewrite in_app_iff. cbn [In]. split.
      * intros [H|[H|[]]].
        -- apply Hiss in H. destruct H as (H2 & sg & Hs & Hc). split; [exact H2|].
           exists sg. split; [|exact Hc].
           rewrite slot_gen_app_lt; [exact Hs | eapply slot_gen_lt; exact Hs].
        -- inversion H; subst i gen. split; [exact Hlen2|]. exists 0%N.
           split; [apply slot_gen_app_eq|]. right; split; [reflexivity | intros []].
      * intros (H2 & sg & Hs & Hc).
        destruct (lt_eq_lt_dec i (length l)) as [[Hlt|Heq]|Hgt].
        -- left. apply Hiss. rewrite slot_gen_app_lt in Hs by exact Hlt.
           split; [exact H2|]. exists sg; split; [exact Hs | exact Hc].
        -- subst i. rewrite slot_gen_app_eq in Hs. inversion Hs; subst sg.
           right; left. destruct Hc as [Hc|[Hc _]]; [lia|]. subst gen; reflexivity.
        -- rewrite slot_gen_app_gt in Hs by exact Hgt. discriminate.
    + intros i gen. split.
      * intros H. apply Hrem in H. destruct H as (H2 & sg & Hs & Hc). split; [exact H2|].
        exists sg. split; [|exact Hc].
        rewrite slot_gen_app_lt; [exact Hs | eapply slot_gen_lt; exact Hs].
      * intros (H2 & sg & Hs & Hc).
        destruct (lt_eq_lt_dec i (length l)) as [[Hlt|Heq]|Hgt].
        -- apply Hrem. rewrite slot_gen_app_lt in Hs by exact Hlt.
           split; [exact H2|]. exists sg; split; [exact Hs | exact Hc].
        -- subst i. rewrite slot_gen_app_eq in Hs. inversion Hs; subst sg. lia.
        -- rewrite slot_gen_app_gt in Hs by exact Hgt. discriminate.
    + apply NoDup_snoc; [exact Hndi|]. intros H. apply Hiss in H.
      destruct H as (_ & sg & Hs & _). apply slot_gen_lt in Hs. lia.
    + exact Hndr.
    + rewrite !app_length; cbn; lia.
    + rewrite app_length; cbn; lia.
  - (* pop the free list *)
    destruct av as [|n]; [discriminate|].
    destruct fl as [|c rest]; [discriminate|].
    destruct Hchain as (Hc & nid & g & Hn & Hch). subst c.
    rewrite Hn in Hget. inversion Hget; subst e p'; clear Hget. cbn [pe pnext pavail].
    inversion Hnd as [|c' r' Hnin Hnd']; subst.
    assert (Hsame : forall j, slot_gen (upd nx (nx, g) l) j = slot_gen l j)
      by (apply slot_gen_upd_same with (y := nid); exact Hn).
    assert (Hsg : slot_gen l nx = Some g) by (unfold slot_gen; rewrite Hn; reflexivity).
    assert (Hnx2 : 2 <= nx) by (apply Hrange; left; reflexivity).
    exists rest. constructor.
    + rewrite upd_length; exact Hlen2.
    + cbn in Hlen; lia.
    + exact Hnd'.
    + intros x Hx. rewrite upd_length. apply Hrange; right; exact Hx.
    + apply chain_upd; [exact Hnin | exact Hch].
    + intros i gen. rewrite in_app_iff. cbn [In]. rewrite Hsame. split.
      * intros [H|[H|[]]].
        -- apply Hiss in H. destruct H as (H2 & sg & Hs & Hc). split; [exact H2|].
           exists sg. split; [exact Hs|]. destruct Hc as [Hc|[Hc Hni]]; [left; exact Hc|].
           right; split; [exact Hc|]. intros Hin; apply Hni; right; exact Hin.
        -- inversion H; subst i gen. split; [exact Hnx2|]. exists g.
           split; [exact Hsg|]. right; split; [reflexivity | exact Hnin].
      * intros (H2 & sg & Hs & Hc).
        destruct Hc as [Hc|[Hc Hni]].
        -- left. apply Hiss. split; [exact H2|]. exists sg; split; [exact Hs|left; exact Hc].
        -- destruct (Nat.eq_dec nx i) as [Heq|Hne].
           ++ subst i. rewrite Hsg in Hs. inversion Hs; subst sg gen. right; left; reflexivity.
           ++ left. apply Hiss. split; [exact H2|]. exists sg; split; [exact Hs|].
              right; split; [exact Hc|]. intros [Hin|Hin]; [apply Hne; exact Hin | apply Hni; exact Hin].
    + intros i gen. rewrite Hsame. apply Hrem.
    + apply NoDup_snoc; [exact Hndi|]. intros H. apply Hiss in H.
      destruct H as (_ & sg & Hs & Hc). rewrite Hsg in Hs; inversion Hs; subst sg.
      destruct Hc as [Hc|[_ Hc]]; [lia|]. apply Hc; left; reflexivity.
    + exact Hndr.
    + rewrite upd_length, app_length; cbn; lia.
    + rewrite app_length; cbn; lia.
Qed.

Lemma inv_recycle : forall l nx av iss rem fl e p',
  InvR l nx av iss rem fl ->
  no_wrap {| pe := l; pnext := nx; pavail := av |} ->
  In e iss ->
  pool_alive {| pe := l; pnext := nx; pavail := av |} e = true ->
  pool_recycle {| pe := l; pnext := nx; pavail := av |} e = Some p' ->
  exists fl', InvR (pe p') (pnext p') (pavail p') iss (rem ++ [e]) fl'.
Proof.
  intros l nx av iss rem fl [i0 g0] p'
    [Hlen2 Hlen Hnd Hrange Hchain Hiss Hrem Hndi Hndr Hcnt Hle] Hnw Hin Ha Hr.
  unfold pool_alive in Ha; cbn [pe fst snd] in Ha.
  unfold pool_recycle in Hr; cbn [pe pnext pavail fst snd] in Hr.
  destruct (Nat.ltb i0 reserved); [discriminate|].
  destruct (nth_error l i0) as [[x g]|] eqn:Hn; [|discriminate].
  apply N.eqb_eq in Ha; subst g0.
  inversion Hr; subst p'; clear Hr. cbn [pe pnext pavail].
  assert (Hsg : slot_gen l i0 = Some g) by (unfold slot_gen; rewrite Hn; reflexivity).
  assert (Hi0 : i0 < length l) by (eapply nth_error_Some_lt; eassumption).
  pose proof Hin as Hin'.
  apply Hiss in Hin'. destruct Hin' as (H2 & sg & Hs & Hc).
  rewrite Hsg in Hs; inversion Hs; subst sg; clear Hs.
  destruct Hc as [Hc|[_ Hnin]]; [lia|].
  assert (Hg : (g < max_u32)%N) by (apply (Hnw i0 x g); [exact H2 | exact Hn]).
  assert (Hmod : ((g + 1) mod 4294967296 = g + 1)%N)
    by (apply N.mod_small; unfold max_u32 in Hg; lia).
  rewrite Hmod.
  assert (Hsub : incl rem iss).
  { intros [i gen] H. apply Hrem in H. destruct H as (Hi2 & sg & Hs & Hlt).
    apply Hiss. split; [exact Hi2|]. exists sg; split; [exact Hs | left; exact Hlt]. }
  assert (Hnr : ~ In (i0, g) rem).
  { intros H. apply Hrem in H. destruct H as (_ & sg & Hs & Hlt).
    rewrite Hsg in Hs; inversion Hs; subst sg. lia. }
  exists (i0 :: fl). constructor.
  - rewrite upd_length; exact Hlen2.
  - cbn; lia.
  - constructor; [exact Hnin | exact Hnd].
  - intros y Hy. rewrite upd_length. destruct Hy as [Hy|Hy]; [subst y; lia | apply Hrange; exact Hy].
  - split; [reflexivity|]. eexists _, _. split; [apply nth_error_upd_eq; exact Hi0|].
    apply chain_upd; [exact Hnin | exact Hchain].
  - intros i gen. rewrite Hiss. destruct (Nat.eq_dec i0 i) as [Heq|Hne].
    + subst i. rewrite slot_gen_upd_eq by exact Hi0. rewrite Hsg. split.
      * intros (Hi2 & sg & Hs & Hc). inversion Hs; subst sg. split; [exact Hi2|].
        exists (g + 1)%N. split; [reflexivity|]. left. destruct Hc as [Hc|[Hc _]]; lia.
      * intros (Hi2 & sg & Hs & Hc). inversion Hs; subst sg. split; [exact Hi2|].
        exists g. split; [reflexivity|]. destruct Hc as [Hc|[_ Hc]].
        -- assert (Hd : (gen < g \/ gen = g)%N) by lia.
           destruct Hd as [Hd|Hd]; [left; exact Hd | right; split; [exact Hd | exact Hnin]].
        -- exfalso; apply Hc; left; reflexivity.
    + rewrite slot_gen_upd_neq by exact Hne. split.
      * intros (Hi2 & sg & Hs & Hc). split; [exact Hi2|]. exists sg; split; [exact Hs|].
        destruct Hc as [Hc|[Hc Hni]]; [left; exact Hc|]. right; split; [exact Hc|].
        intros [Hx|Hx]; [apply Hne; exact Hx | apply Hni; exact Hx].
      * intros (Hi2 & sg & Hs & Hc). split; [exact Hi2|]. exists sg; split; [exact Hs|].
        destruct Hc as [Hc|[Hc Hni]]; [left; exact Hc|]. right; split; [exact Hc|].
        intros Hx; apply Hni; right; exact Hx.
  - intros i gen. rewrite in_app_iff. cbn [In]. rewrite Hrem.
    destruct (Nat.eq_dec i0 i) as [Heq|Hne].
    + subst i. rewrite slot_gen_upd_eq by exact Hi0. rewrite Hsg. split.
      * intros [(Hi2 & sg & Hs & Hc)|[H|[]]].
        -- inversion Hs; subst sg. split; [exact Hi2|]. exists (g + 1)%N.
           split; [reflexivity | lia].
        -- inversion H; subst gen. split; [exact H2|]. exists (g + 1)%N.
           split; [reflexivity | lia].
      * intros (Hi2 & sg & Hs & Hc). inversion Hs; subst sg.
        assert (Hd : (gen < g \/ gen = g)%N) by lia.
        destruct Hd as [Hd|Hd].
        -- left. split; [exact Hi2|]. exists g; split; [reflexivity | exact Hd].
        -- right; left. subst gen; reflexivity.
    + rewrite slot_gen_upd_neq by exact Hne. split.
      * intros [H|[H|[]]]; [exact H|]. inversion H; subst i. exfalso; apply Hne; reflexivity.
      * intros H; left; exact H.
  - exact Hndi.
  - apply NoDup_snoc; [exact Hndr | exact Hnr].
  - rewrite upd_length, app_length; cbn; lia.
  - rewrite app_length; cbn.
    assert (Hl : length ((i0, g) :: rem) <= length iss).
    { apply NoDup_incl_length.
      - constructor; [exact Hnr | exact Hndr].
      - intros y [Hy|Hy]; [subst y; exact Hin | apply Hsub; exact Hy]. }
    cbn in Hl; unfold ent in *; lia.
Qed.

Lemma inv_reset : forall l nx av iss rem fl,
  InvR l nx av iss rem fl -> InvR (firstn reserved l) 0 0 [] [] [].
Proof.
  intros l nx av iss rem fl H. pose proof (I_len2 H) as Hlen2.
  apply inv_empty. unfold reserved; rewrite firstn_length; lia.
Qed.

Lemma Inv_step : forall g o, Inv g -> no_wrap (g_pool g) -> Inv (gstep g o).
Proof.
  intros [[l nx av] iss rem] o [fl H] Hnw; unfold Inv in *;
    cbn [g_pool g_issued g_removed pe pnext pavail] in *.
  destruct o as [|k|]; unfold gstep; cbn [g_pool g_issued g_removed].
  - destruct (pool_get _) as [e p'] eqn:Hg. cbn [g_pool g_issued g_removed].
    eapply inv_get; [exact H | exact Hg].
  - destruct (nth_error iss k) as [e|] eqn:Hk; [|exists fl; exact H].
    destruct (pool_alive _ e) eqn:Ha; [|exists fl; exact H].
    destruct (pool_recycle _ e) as [p'|] eqn:Hr; [|exists fl; exact H].
    cbn [g_pool g_issued g_removed].
    eapply inv_recycle; [exact H | exact Hnw | eapply nth_error_In; exact Hk | exact Ha | exact Hr].
  - exists []. cbn [g_pool g_issued g_removed pool_reset pe pnext pavail].
    eapply inv_reset; exact H.
Qed.

Lemma Inv_fold : forall ops g,
  Inv g -> (forall n, no_wrap (g_pool (fold_left gstep (firstn n ops) g))) ->
  Inv (fold_left gstep ops g).
Proof.
  induction ops as [|o ops IH]; intros g HI Hnw; cbn [fold_left]; [exact HI|].
  apply IH.
  - apply Inv_step; [exact HI | exact (Hnw 0)].
  - intros n. exact (Hnw (S n)).
Qed.

Lemma Inv_run : forall ops, never_wrapped ops -> Inv (grun ops).
Proof. intros ops H. apply Inv_fold; [exact Inv_ghost0 | exact H]. Qed.
Arguments Inv_run {ops}.

(** ** The theorems *)

(** Every handle returned by Get differs from every handle issued since creation / the last reset:
    the handles issued since the last reset are pairwise distinct. *)
Theorem pool_get_fresh :
  forall ops, never_wrapped ops -> NoDup (g_issued (grun ops)).
Proof.
  intros ops H. destruct (Inv_run H) as [fl HI]. exact (I_nd_iss HI).
Qed.

(** Alive is exact: a handle issued since the last reset is alive iff it has not been recycled. *)
Theorem pool_alive_exact :
  forall ops e, never_wrapped ops -> In e (g_issued (grun ops)) ->
  pool_alive (g_pool (grun ops)) e = negb (ent_in e (g_removed (grun ops))).
Proof.
  intros ops [i gen] Hnw Hin. destruct (Inv_run Hnw) as [fl HI].
  apply (I_iss HI) in Hin. destruct Hin as (H2 & sg & Hs & Hc).
  unfold pool_alive; cbn [fst snd]. unfold slot_gen in Hs.
  destruct (nth_error (pe (g_pool (grun ops))) i) as [[x g']|] eqn:Hn; [|discriminate].
  inversion Hs; subst g'; clear Hs.
  assert (Hsg : slot_gen (pe (g_pool (grun ops))) i = Some sg)
    by (unfold slot_gen; rewrite Hn; reflexivity).
  destruct Hc as [Hlt|[Heq Hnin]].
  - assert (Hr : ent_in (i, gen) (g_removed (grun ops)) = true).
    { apply ent_in_In. apply (I_rem HI). split; [exact H2|]. exists sg; split; [exact Hsg | exact Hlt]. }
    rewrite Hr. cbn [negb]. apply N.eqb_neq. lia.
  - subst gen. rewrite N.eqb_refl.
    destruct (ent_in (i, sg) (g_removed (grun ops))) eqn:E; [|reflexivity].
    apply ent_in_In in E. apply (I_rem HI) in E. destruct E as (_ & sg' & Hs' & Hlt).
    rewrite Hsg in Hs'; inversion Hs'; subst sg'. lia.
Qed.

(** The zero entity is never alive; issued handles never use the reserved IDs. *)
Theorem pool_reserved_dead :
  forall ops,
  pool_alive (g_pool (grun ops)) zero_ent = false /\
  (forall e, In e (g_issued (grun ops)) -> 2 <= fst e).
Proof.
  intros ops. pose proof (W_run ops) as HW. split.
  - unfold pool_alive, zero_ent; cbn [fst snd].
    destruct (W_r0 HW) as [x Hx]. rewrite Hx. reflexivity.
  - exact (W_iss HW).
Qed.

(** The reported number of used entities is creations minus removals.

    ORIGINAL STATEMENT (FALSE as stated, see [pool_len_count_false] /
    [pool_len_count_unprovable] at the end of this file: it lacks the [never_wrapped]
    hypothesis, and after a generation wrap-around a stale handle is recycled twice, so
    removals exceed creations):

    Theorem pool_len_count :
      forall ops,
      pool_len (g_pool (grun ops)) = length (g_issued (grun ops)) - length (g_removed (grun ops)) /\
      length (g_removed (grun ops)) <= length (g_issued (grun ops)).

    The variant below adds the hypothesis [never_wrapped ops] (the same one the other
    theorems carry) and is otherwise identical. *)
Theorem pool_len_count_partial :
  forall ops, never_wrapped ops ->
  pool_len (g_pool (grun ops)) = length (g_issued (grun ops)) - length (g_removed (grun ops)) /\
  length (g_removed (grun ops)) <= length (g_issued (grun ops)).
Proof.
  intros ops Hnw. destruct (Inv_run Hnw) as [fl HI].
  pose proof (I_cnt HI) as Hc. pose proof (I_le HI) as Hle.
  unfold pool_len, reserved. split; lia.
Qed.

(** A removed handle stays dead for the rest of the epoch, whatever happens to its ID. *)
Theorem pool_removed_stays_dead :
  forall ops e, never_wrapped ops -> In e (g_removed (grun ops)) ->
  pool_alive (g_pool (grun ops)) e = false.
Proof.
  intros ops e Hnw Hin.
  assert (Hiss : In e (g_issued (grun ops))).
  { destruct (Inv_run Hnw) as [fl HI]. destruct e as [i gen].
    apply (I_rem HI) in Hin. destruct Hin as (H2 & sg & Hs & Hlt).
    apply (I_iss HI). split; [exact H2|]. exists sg; split; [exact Hs | left; exact Hlt]. }
  rewrite (pool_alive_exact _ _ Hnw Hiss).
  apply ent_in_In in Hin. rewrite Hin. reflexivity.
Qed.

(** Without the hypothesis the claim is false: after 2^32 recycles of one slot a handle repeats.
    (Model-level statement of the boundary: a slot at generation 2^32-1 wraps to 0.) *)
Lemma gen_wraps :
  forall p e id, nth_error (pe p) (fst e) = Some (id, max_u32) -> 2 <= fst e ->
  exists p', pool_recycle p e = Some p' /\ nth_error (pe p') (fst e) = Some (pnext p, 0%N).
Proof.
  intros p e id Hn H2. unfold pool_recycle.
  destruct (Nat.ltb (fst e) reserved) eqn:E.
  - apply Nat.ltb_lt in E. unfold reserved in E. lia.
  - rewrite Hn. eexists. split; [reflexivity|]. cbn [pe].
    rewrite nth_error_upd_eq by (eapply nth_error_Some_lt; eassumption).
    reflexivity.
Qed.

(** ** [pool_len_count] without [never_wrapped] is false

    The statement as originally given,
<<
    Theorem pool_len_count :
      forall ops,
      pool_len (g_pool (grun ops)) = length (g_issued (grun ops)) - length (g_removed (grun ops)) /\
      length (g_removed (grun ops)) <= length (g_issued (grun ops)).
>>
    has no [never_wrapped] hypothesis and does not hold: take 2^32 rounds of [PGet; PRecycle j]
    (they all reuse slot 2, whose generation goes 0, 1, ..., 2^32-1 and wraps back to 0 while the
    slot is on the free list), then [PRecycle 0]. The very first handle [(2, 0)] looks alive again
    (generation compare only), is recycled a second time (double free), and the removal count
    exceeds the issue count. The history has 2^33 + 1 operations, so it cannot be evaluated with
    [vm_compute]; instead it is proved below, symbolically in the number of rounds
    ([pool_len_count_false]). The true variant is [pool_len_count_partial] above. *)

Definition cyc (j : nat) : list pop := [PGet; PRecycle j].

Definition cyc_state (G : N) (iss rem : list ent) : ghost :=
  {| g_pool := {| pe := [(0, max_u32); (1, max_u32); (0, G)]; pnext := 2; pavail := 1 |};
     g_issued := iss; g_removed := rem |}.

Lemma cyc_step : forall G iss rem k, length iss = k ->
  gstep (gstep (cyc_state G iss rem) PGet) (PRecycle k) =
  cyc_state ((G + 1) mod 4294967296)%N (iss ++ [(2, G)]) (rem ++ [(2, G)]).
Proof.
  intros G iss rem k Hk.
  assert (E1 : gstep (cyc_state G iss rem) PGet =
    {| g_pool := {| pe := [(0, max_u32); (1, max_u32); (2, G)]; pnext := 0; pavail := 0 |};
       g_issued := iss ++ [(2, G)]; g_removed := rem |}) by reflexivity.
  rewrite E1. unfold gstep. cbn [g_issued g_pool g_removed].
  assert (E2 : nth_error (iss ++ [(2, G)]) k = Some (2, G)).
  { rewrite nth_error_app2 by lia. subst k. rewrite Nat.sub_diag. reflexivity. }
  rewrite E2.
  unfold pool_alive; cbn [pe fst snd nth_error]. rewrite N.eqb_refl.
  reflexivity.
Qed.

(** The ghost state after [k >= 1] rounds. *)
Definition cyc_inv (k : nat) (g : ghost) : Prop :=
  exists iss rem, g = cyc_state (N.of_nat k mod 4294967296)%N iss rem /\
    length iss = k /\ length rem = k /\ nth_error iss 0 = Some (2, 0%N).

Lemma cyc_fold : forall n k g, 1 <= k -> cyc_inv k g ->
  cyc_inv (k + n) (fold_left gstep (flat_map cyc (seq k n)) g).
Proof.
  induction n as [|n IH]; intros k g Hk Hg.
  - rewrite Nat.add_0_r. exact Hg.
  - cbn [seq flat_map cyc app fold_left].
    replace (k + S n) with (S k + n) by lia. apply IH; [lia|].
    destruct Hg as (iss & rem & -> & Hli & Hlr & H0).
    rewrite (cyc_step _ _ rem _ Hli).
    exists (iss ++ [(2, (N.of_nat k mod 4294967296)%N)]),
           (rem ++ [(2, (N.of_nat k mod 4294967296)%N)]).
    split; [|split; [|split]].
    + f_equal. rewrite Nat2N.inj_succ, <- N.add_1_r.
      rewrite N.add_mod_idemp_l by discriminate. reflexivity.
    + rewrite app_length; cbn; lia.
    + rewrite app_length; cbn; lia.
    + rewrite nth_error_app1 by lia. exact H0.
Qed.

Lemma cyc_run : forall n, cyc_inv (S n) (grun (flat_map cyc (seq 0 (S n)))).
Proof.
  intros n. unfold grun. cbn [seq flat_map cyc app fold_left].
  apply (cyc_fold n 1); [lia|].
  exists [(2, 0%N)], [(2, 0%N)]. repeat split.
Qed.

(** Illustration of the last step only (the state below is the one reached after 2^32 rounds,
    up to the tails of the two ghost lists): recycling the stale handle [(2,0)] succeeds. *)
Eval vm_compute in
  (let g := gstep (cyc_state 0%N [(2, 0%N)] [(2, 0%N)]) (PRecycle 0) in
   (pool_alive (g_pool (cyc_state 0%N [(2, 0%N)] [(2, 0%N)])) (2, 0%N),
    length (g_issued g), length (g_removed g), g_pool g)).

Theorem pool_len_count_false :
  exists ops, ~ (length (g_removed (grun ops)) <= length (g_issued (grun ops))).
Proof.
  assert (Hex : exists n, N.of_nat n = 4294967296%N)
    by (exists (N.to_nat 4294967296%N); apply N2Nat.id).
  destruct Hex as [n Hn].
  destruct n as [|n]; [discriminate|].
  exists (flat_map cyc (seq 0 (S n)) ++ [PRecycle 0]).
  unfold grun. rewrite fold_left_app. fold (grun (flat_map cyc (seq 0 (S n)))).
  destruct (cyc_run n) as (iss & rem & -> & Hli & Hlr & H0).
  rewrite Hn. change (4294967296 mod 4294967296)%N with 0%N.
  cbn [fold_left]. unfold gstep, cyc_state. cbn [g_issued g_pool g_removed].
  rewrite H0.
  change (pool_alive _ (2, 0%N)) with true. cbv iota.
  change (pool_recycle _ (2, 0%N)) with
    (Some {| pe := [(0, max_u32); (1, max_u32); (2, 1%N)]; pnext := 2; pavail := 2 |}).
  cbn [g_issued g_removed]. rewrite app_length; cbn [length]. lia.
Qed.

Corollary pool_len_count_unprovable :
  ~ (forall ops,
      pool_len (g_pool (grun ops)) = length (g_issued (grun ops)) - length (g_removed (grun ops)) /\
      length (g_removed (grun ops)) <= length (g_issued (grun ops))).
Proof.
  intros H. destruct pool_len_count_false as [ops Hops]. apply Hops, H.
Qed.

