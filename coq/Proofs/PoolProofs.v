(** * PoolProofs: proofs of the C02 statements (to be filled). *)
From Ark Require Import Model.Base Model.Mask Model.Pool Proofs.PoolSpec.

(** Every handle returned by Get differs from every handle issued since creation / the last reset:
    the handles issued since the last reset are pairwise distinct. *)
Theorem pool_get_fresh :
  forall ops, never_wrapped ops -> NoDup (g_issued (grun ops)).
Admitted.

(** Alive is exact: a handle issued since the last reset is alive iff it has not been recycled. *)
Theorem pool_alive_exact :
  forall ops e, never_wrapped ops -> In e (g_issued (grun ops)) ->
  pool_alive (g_pool (grun ops)) e = negb (ent_in e (g_removed (grun ops))).
Admitted.

(** The zero entity is never alive; issued handles never use the reserved IDs. *)
Theorem pool_reserved_dead :
  forall ops,
  pool_alive (g_pool (grun ops)) zero_ent = false /\
  (forall e, In e (g_issued (grun ops)) -> 2 <= fst e).
Admitted.

(** The reported number of used entities is creations minus removals. *)
Theorem pool_len_count :
  forall ops,
  pool_len (g_pool (grun ops)) = length (g_issued (grun ops)) - length (g_removed (grun ops)) /\
  length (g_removed (grun ops)) <= length (g_issued (grun ops)).
Admitted.

(** A removed handle stays dead for the rest of the epoch, whatever happens to its ID. *)
Theorem pool_removed_stays_dead :
  forall ops e, never_wrapped ops -> In e (g_removed (grun ops)) ->
  pool_alive (g_pool (grun ops)) e = false.
Admitted.

(** Without the hypothesis the claim is false: after 2^32 recycles of one slot a handle repeats.
    (Model-level statement of the boundary: a slot at generation 2^32-1 wraps to 0.) *)
Lemma gen_wraps :
  forall p e id, nth_error (pe p) (fst e) = Some (id, max_u32) -> 2 <= fst e ->
  exists p', pool_recycle p e = Some p' /\ nth_error (pe p') (fst e) = Some (pnext p, 0%N).
Admitted.
