(** * WF: the well-formedness invariant of the storage core and the abstraction to "what a user
    can observe of an entity" (components, values, relation targets).

    [WF s] is the invariant that makes random access, swap-remove, growth and table creation
    sound: the entity index and the table rows are a bijection, every table has the column layout
    of its archetype, all cells beyond [len] are zero, archetype masks are distinct and consistent
    with their component lists, the pool's free list threads exactly the slots whose index entry is
    invalid. Relation lookups and the filter cache only need to be *plausible* here (they mention
    existing tables of the right archetype); their exactness is a separate invariant. *)
From Ark Require Import Model.Base Model.Mask Model.Pool Model.Util Model.World Proofs.TableProofs.

(** ** Observables of one entity *)

Definition loc (s : W) (e : ent) : option (nat * nat) :=
  match nth_error (w_index s) (fst e) with
  | Some (Some tid, r) => Some (tid, r)
  | _ => None
  end.

(** [present s e]: [e] is the current incarnation of an entity stored in some row. *)
Definition present (s : W) (e : ent) : Prop :=
  exists tid r t, loc s e = Some (tid, r) /\ nth_error (w_tables s) tid = Some t /\
                  r < t_len t /\ row_ent t r = e.

Definition comps_of (s : W) (e : ent) : option (list nat) :=
  match loc s e with
  | Some (tid, _) => option_map t_ids (nth_error (w_tables s) tid)
  | None => None
  end.

Definition value_of (s : W) (e : ent) (c : nat) : option Z :=
  match loc s e with
  | Some (tid, r) =>
      match nth_error (w_tables s) tid with
      | Some t => match tbl_colidx t c with Some ci => Some (cell t ci r) | None => None end
      | None => None
      end
  | None => None
  end.

Definition target_of (s : W) (e : ent) (c : nat) : option ent :=
  match loc s e with
  | Some (tid, _) =>
      match nth_error (w_tables s) tid with
      | Some t => tbl_target t c
      | None => None
      end
  | None => None
  end.

(** ** The pool's free list *)

(** [chain l nx fl]: following the links stored in the id field of the slots, starting at [nx],
    visits exactly [fl] (the last slot's link is irrelevant). *)
Fixpoint chain (l : list ent) (nx : nat) (fl : list nat) : Prop :=
  match fl with
  | [] => True
  | i :: rest =>
      i = nx /\ match rest with
                | [] => True
                | j :: _ => exists g, nth_error l i = Some (j, g)
                end /\ chain l (match rest with j :: _ => j | [] => nx end) rest
  end.

Definition pool_ok (p : pool) (fl : list nat) : Prop :=
  2 <= length (pe p) /\ length fl = pavail p /\ NoDup fl /\
  (forall i, In i fl -> 2 <= i < length (pe p)) /\ chain (pe p) (pnext p) fl.

(** ** The invariant *)

Record WF (s : W) : Prop := {
  (* tables *)
  wf_tables : Forall tbl_ok (w_tables s);
  wf_layout : forall tid t, nth_error (w_tables s) tid = Some t ->
      exists a, nth_error (w_archs s) (t_arch t) = Some a /\ t_ids t = a_comps a /\
                t_kinds t = map (kind_of s) (t_ids t) /\ length (t_targets t) = length (t_ids t);
  (* archetypes *)
  wf_arch_comps : forall aid a, nth_error (w_archs s) aid = Some a ->
      a_comps a = mk_to_list (a_mask a) (length (w_reg s)) /\
      (forall j, mk_get (a_mask a) j = true -> j < length (w_reg s)) /\
      a_isrel a = map (fun c => ck_rel (kind_of s c)) (a_comps a) /\
      a_numrel a = length (filter (fun b : bool => b) (a_isrel a)) /\
      length (a_reltabs a) = length (a_comps a);
  wf_arch_unique : forall i j a b, nth_error (w_archs s) i = Some a -> nth_error (w_archs s) j = Some b ->
      a_mask a = a_mask b -> i = j;
  wf_arch_tables : forall aid a tid, nth_error (w_archs s) aid = Some a ->
      (In tid (a_tables a) \/ In tid (a_free a) \/
       (exists i m k l, nth_error (a_reltabs a) i = Some m /\ afind k m = Some l /\ In tid l) \/
       (exists k l, afind k (a_tgttabs a) = Some l /\ In tid l)) ->
      exists t, nth_error (w_tables s) tid = Some t /\ t_arch t = aid;
  (* an archetype without relation components has at most one table (that it has exactly one is the
     separate clause [archs_tabled_norel] below) *)
  wf_arch_norel_table : forall aid a, nth_error (w_archs s) aid = Some a -> a_numrel a = 0 ->
      length (a_tables a) <= 1;
  wf_arch0 : exists a0, nth_error (w_archs s) 0 = Some a0 /\ a_mask a0 = 0%N /\
             exists t0, nth_error (w_tables s) 0 = Some t0 /\ t_arch t0 = 0;
  wf_index_lists : length (w_compindex s) = length (w_reg s) /\ length (w_archcount s) = length (w_reg s) /\
                   length (w_reg s) <= cf_bits (w_cfg s) /\ 1 <= cf_cap (w_cfg s) /\ 1 <= cf_caprel (w_cfg s);
  (* entity index <-> rows *)
  wf_index_len : length (w_index s) = length (pe (w_pool s)) /\ length (w_istarget s) = length (w_index s);
  wf_rows : forall tid t r, nth_error (w_tables s) tid = Some t -> r < t_len t ->
      loc s (row_ent t r) = Some (tid, r) /\
      nth_error (pe (w_pool s)) (fst (row_ent t r)) = Some (row_ent t r);
  wf_index : forall id tid r, nth_error (w_index s) id = Some (Some tid, r) ->
      exists t, nth_error (w_tables s) tid = Some t /\ r < t_len t /\ fst (row_ent t r) = id;
  (* pool *)
  wf_pool : exists fl, pool_ok (w_pool s) fl /\
      (forall i, In i fl -> exists r, nth_error (w_index s) i = Some (None, r)) /\
      (forall i, 2 <= i < length (pe (w_pool s)) -> ~ In i fl -> exists tid r, nth_error (w_index s) i = Some (Some tid, r));
  wf_reserved : (exists r0, nth_error (w_index s) 0 = Some (None, r0)) /\
                (exists r1, nth_error (w_index s) 1 = Some (None, r1)) /\
                nth_error (pe (w_pool s)) 0 = Some (0, max_u32) /\ nth_error (pe (w_pool s)) 1 = Some (1, max_u32);
  (* sizes stay far below the uint32 range of table lengths *)
  wf_small : length (pe (w_pool s)) < Nat.pow 2 31;
  (* filter cache: entries refer to existing objects *)
  wf_cache : forall addr, In addr (w_centries s) ->
      exists e, nth_error (w_cheap s) addr = Some e /\ ce_filter e < length (w_filters s);
}.

(** An additional invariant clause (kept beside the record [WF]): every archetype without relation
    components has its table. Since the repair of [createArchetype] (which creates the single table of
    such an archetype together with the archetype) this holds in every reachable state: no operation
    that is rejected after the archetype was created leaves an archetype without table behind. *)
Definition archs_tabled_norel (s : W) : Prop :=
  forall aid a, nth_error (w_archs s) aid = Some a -> a_numrel a = 0 -> a_tables a <> [].

(** ** Frames: what structure creation may and may not touch *)

(** [same_rows s s']: every entity is where it was, with the same data; tables are only appended
    or relabelled (a recycled free table gets new relation targets), archetypes only appended. *)
Definition table_same_data (t t' : table) : Prop :=
  t_len t' = t_len t /\ t_cap t' = t_cap t /\ t_ents t' = t_ents t /\ t_cols t' = t_cols t /\
  t_ids t' = t_ids t /\ t_kinds t' = t_kinds t /\ t_arch t' = t_arch t.

Definition same_rows (s s' : W) : Prop :=
  w_index s' = w_index s /\ w_pool s' = w_pool s /\ w_istarget s' = w_istarget s /\
  w_reg s' = w_reg s /\ w_cfg s' = w_cfg s /\ w_issued s' = w_issued s /\
  (forall tid t, nth_error (w_tables s) tid = Some t ->
     exists t', nth_error (w_tables s') tid = Some t' /\ table_same_data t t' /\
                (0 < t_len t -> t_targets t' = t_targets t /\ t_rels t' = t_rels t /\ t_free t' = t_free t)) /\
  (forall aid a, nth_error (w_archs s) aid = Some a ->
     exists a', nth_error (w_archs s') aid = Some a' /\ a_mask a' = a_mask a).

(** Observables are preserved by [same_rows]. *)
Definition obs_eq (s s' : W) : Prop :=
  forall e, (present s e -> present s' e) /\ (present s e -> comps_of s' e = comps_of s e /\
            (forall c, value_of s' e c = value_of s e c) /\ (forall c, target_of s' e c = target_of s e c)).

(** ** The relation-free tier

    [NoRel s]: no relation component is registered. Then no table is ever freed or recycled, every
    archetype has at most one table, and the relation lookups stay empty. The storage theorems of
    StorageA/B/C are proved for all histories of such worlds; worlds with relation components are
    covered by the correspondence streams (and need the exactness of the relation lookups as an
    additional invariant). *)
Definition NoRel (s : W) : Prop :=
  (forall c, ck_rel (kind_of s c) = false) /\
  (forall tid t, nth_error (w_tables s) tid = Some t -> t_rels t = [] /\ t_free t = false) /\
  (forall aid a, nth_error (w_archs s) aid = Some a ->
     a_free a = [] /\ a_numrel a = 0 /\ a_tgttabs a = [] /\
     Forall (fun m : list (nat * list nat)%type => m = []) (a_reltabs a)) /\
  w_relarchs s = [].

Definition St (s : W) : Prop := WF s /\ NoRel s.

(** ** Abstraction: what the world contains

    [abs s e]: the components of [e] with their values, in ascending component order, if [e] is the
    current incarnation of an entity; [None] otherwise. This is the Spec-level state: a finite map
    from handles to component/value lists. *)
Definition abs (s : W) (e : ent) : option (list (nat * Z)) :=
  match loc s e with
  | Some (tid, r) =>
      match nth_error (w_tables s) tid with
      | Some t =>
          if (Nat.ltb r (t_len t) && ent_eqb (row_ent t r) e)%bool
          then Some (map (fun ci => (nth ci (t_ids t) 0, cell t ci r)) (seq 0 (length (t_ids t))))
          else None
      | None => None
      end
  | None => None
  end.

(** What the user-side and bookkeeping parts of the state an entity operation must not touch. *)
Definition frame_user (s s' : W) : Prop :=
  w_reg s' = w_reg s /\ w_cfg s' = w_cfg s /\ w_filters s' = w_filters s /\ w_queries s' = w_queries s /\ w_issued s' = w_issued s /\ w_res s' = w_res s.

(** Spec-level component lists. *)
Definition zero_comps (ids : list nat) : list (nat * Z) := map (fun c => (c, 0%Z)) ids.
Definition set_comp (c : nat) (v : Z) (l : list (nat * Z)) : list (nat * Z) :=
  map (fun cv => if Nat.eqb (fst cv) c then (c, v) else cv) l.
Definition drop_comps (rem : list nat) (l : list (nat * Z)) : list (nat * Z) :=
  filter (fun cv => negb (memb (fst cv) rem)) l.
(** insert [c] with value 0 keeping ascending order *)
Fixpoint insert_comp (c : nat) (l : list (nat * Z)) : list (nat * Z) :=
  match l with
  | [] => [(c, 0%Z)]
  | cv :: t => if Nat.ltb c (fst cv) then (c, 0%Z) :: cv :: t else cv :: insert_comp c t
  end.
Definition add_comps (add : list nat) (l : list (nat * Z)) : list (nat * Z) := fold_left (fun l c => insert_comp c l) add l.
