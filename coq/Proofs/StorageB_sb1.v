(** * StorageB (part sb1): see StorageBDefs.v for the statements' vocabulary. *)
From Ark Require Import Model.Base Model.Mask Model.Pool Model.Util Model.World Model.Run.
From Ark Require Import Proofs.TableProofs Proofs.MaskProofs Proofs.Hoare Proofs.WF Proofs.StorageA Proofs.StorageBDefs.
From RecordUpdate Require Import RecordSet.
Import RecordSetNotations.
From Coq Require Import Lia.


(** ** Helper lemmas (prefix [sb1_]) for create_entity / new_entity / copy_entity / dead_rejected *)

(* ---------- sb1 helpers ---------- *)

Lemma sb1_bind_ok : forall A B (m : MW A) (k : A -> MW B) s a s', m s = Ok a s' -> bind m k s = k a s'.
Proof. intros. unfold bind. rewrite H. reflexivity. Qed.

Lemma sb1_bind_err : forall A B (m : MW A) (k : A -> MW B) s e s', m s = Err e s' -> bind m k s = Err e s'.
Proof. intros. unfold bind. rewrite H. reflexivity. Qed.

Lemma sb1_check_locked_ok : forall s, is_locked s = false -> check_locked s = Ok tt s.
Proof. intros s H. unfold check_locked, bind, get. rewrite H. reflexivity. Qed.

Lemma sb1_check_locked_err : forall s, is_locked s = true -> check_locked s = Err ELocked s.
Proof. intros s H. unfold check_locked, bind, get. rewrite H. reflexivity. Qed.

Lemma sb1_guard_alive_err : forall A s e (k : unit -> MW A), alive s e = false ->
  (s0 <- get ;; guard (alive s0 e) EDead ;;; k tt) s = Err EDead s.
Proof. intros. unfold bind at 1. unfold get. unfold bind. rewrite H. reflexivity. Qed.

Lemma sb1_dead_rejected : forall s e, alive s e = false ->
  (forall add, exists er, w_add e add [] s = Err er s) /\
  (forall rem, exists er, w_remove e rem s = Err er s) /\
  (forall add rem, exists er, w_exchange e add rem [] s = Err er s) /\
  (exists er, storage_remove_entity e s = Err er s) /\
  (exists er, w_copy_entity e s = Err er s) /\
  (forall rels, exists er, w_set_relations e rels s = Err er s) /\
  (forall debug c, exists er, cell_of debug e c s = Err er s).
Proof.
  intros s e H.
  assert (L : forall A (k : unit -> MW A), exists er, (check_locked ;;; s0 <- get ;; guard (alive s0 e) EDead ;;; k tt) s = Err er s).
  { intros A k. destruct (is_locked s) eqn:El.
    - exists ELocked. apply sb1_bind_err. apply sb1_check_locked_err; assumption.
    - exists EDead. erewrite sb1_bind_ok by (apply sb1_check_locked_ok; exact El).
      apply sb1_guard_alive_err. assumption. }
  repeat split.
  - intros add. apply (L _ (fun _ => _)).
  - intros rem. apply (L _ (fun _ => _)).
  - intros add rem. apply (L _ (fun _ => _)).
  - exists EDead. unfold storage_remove_entity. apply (sb1_guard_alive_err _ _ _ (fun _ => _) H).
  - apply (L _ (fun _ => _)).
  - intros rels. apply (L _ (fun _ => _)).
  - intros debug c. exists EDead. unfold cell_of. apply (sb1_guard_alive_err _ _ _ (fun _ => _) H).
Qed.

(* ---------- placing a new row ---------- *)

Definition sb1_slot (s : W) (e : ent) (p' : pool) (idx' : list (option nat * nat)) (v : option nat * nat) : Prop :=
  2 <= fst e /\
  nth_error idx' (fst e) = Some v /\
  (forall j, j <> fst e -> nth_error idx' j = nth_error (w_index s) j) /\
  length idx' = length (pe p') /\
  nth_error (pe p') (fst e) = Some e /\
  (forall j, j <> fst e -> nth_error (pe p') j = nth_error (pe (w_pool s)) j) /\
  (forall tid r, nth_error (w_index s) (fst e) <> Some (Some tid, r)) /\
  (exists fl', pool_ok p' fl' /\
     (forall i, In i fl' -> i <> fst e /\ exists r, nth_error (w_index s) i = Some (None, r)) /\
     (forall i, 2 <= i < length (pe p') -> i <> fst e -> ~ In i fl' ->
                exists tid r, nth_error (w_index s) i = Some (Some tid, r))) /\
  length (pe p') <= S (length (pe (w_pool s))).

Definition sb1_grown (t t2 : table) (e : ent) : Prop :=
  tbl_ok t2 /\ t_len t2 = S (t_len t) /\ row_ent t2 (t_len t) = e /\
  (forall ci r, r < t_len t -> cell t2 ci r = cell t ci r) /\
  (forall r, r < t_len t -> row_ent t2 r = row_ent t r) /\
  t_ids t2 = t_ids t /\ t_kinds t2 = t_kinds t /\ t_arch t2 = t_arch t /\ t_rels t2 = t_rels t /\
  t_targets t2 = t_targets t /\ t_free t2 = t_free t.

Definition sb1_idx (s : W) (e : ent) (v : option nat * nat) : list (option nat * nat) :=
  if Nat.eqb (fst e) (length (w_index s)) then w_index s ++ [v] else upd (fst e) v (w_index s).
Definition sb1_ist (s : W) (e : ent) : list bool :=
  if Nat.eqb (fst e) (length (w_index s)) then w_istarget s ++ [false] else w_istarget s.

Lemma sb1_nth_error_snoc : forall A (l : list A) x j,
  nth_error (l ++ [x]) j = if Nat.eqb j (length l) then Some x else nth_error l j.
Proof.
  intros. destruct (Nat.eqb_spec j (length l)).
  - subst. rewrite nth_error_app2 by lia. rewrite Nat.sub_diag. reflexivity.
  - destruct (Nat.lt_ge_cases j (length l)).
    + apply nth_error_app1. assumption.
    + assert (nth_error l j = None) by (apply nth_error_None; lia). rewrite H0.
      apply nth_error_None. rewrite app_length. simpl. lia.
Qed.

Lemma sb1_slot_of_get : forall s e p' v, WF s -> pool_get (w_pool s) = (e, p') ->
  sb1_slot s e p' (sb1_idx s e v) v /\ length (sb1_ist s e) = length (sb1_idx s e v).
Proof.
  intros s e p' v Hwf Hget.
  destruct (wf_pool _ Hwf) as (fl & Hok & Hfl1 & Hfl2).
  destruct (wf_index_len _ Hwf) as (Hil & Htl).
  pose proof (pool_get_spec _ _ Hok) as Hs. rewrite Hget in Hs. destruct Hs as (H2 & [A | B]).
  - destruct A as (Hav & Hfl & He & Hpe & Hok'). unfold sb1_idx, sb1_ist.
    assert (Hid : fst e = length (w_index s)) by (rewrite He; simpl; lia).
    rewrite Hid, Nat.eqb_refl. split; [|rewrite !app_length; simpl; lia].
    unfold sb1_slot. rewrite Hid.
    split; [lia|]. split; [rewrite sb1_nth_error_snoc, Nat.eqb_refl; reflexivity|].
    split; [intros j Hj; rewrite sb1_nth_error_snoc; destruct (Nat.eqb_spec j (length (w_index s))); [lia|reflexivity]|].
    split; [rewrite Hpe, !app_length; simpl; lia|].
    split; [rewrite Hpe, sb1_nth_error_snoc, Hil, Nat.eqb_refl; reflexivity|].
    split; [intros j Hj; rewrite Hpe, sb1_nth_error_snoc; destruct (Nat.eqb_spec j (length (pe (w_pool s)))); [lia|reflexivity]|].
    split; [intros tid r Hc; assert (nth_error (w_index s) (length (w_index s)) = None) by (apply nth_error_None; lia); congruence|].
    split; [|rewrite Hpe, app_length; simpl; lia].
    exists []. split; [assumption|]. split; [intros i []|].
    intros i Hi Hne _. apply Hfl2; [|rewrite Hfl; intros []].
    rewrite Hpe, app_length in Hi. simpl in Hi. lia.
  - destruct B as (rest & Hfl & Hlt & Hlen & Hok' & Hnth & Hoth). unfold sb1_idx, sb1_ist.
    destruct (Nat.eqb_spec (fst e) (length (w_index s))) as [Heq|Hne]; [lia|].
    split; [|rewrite upd_length; lia].
    destruct (Hfl1 (fst e)) as (r0 & Hr0); [rewrite Hfl; left; reflexivity|].
    assert (Hnd : NoDup fl) by (destruct Hok as (_ & _ & Hnd & _); exact Hnd).
    rewrite Hfl in Hnd. inversion Hnd as [|x l Hnin Hnd']; subst x l.
    unfold sb1_slot.
    split; [lia|]. split; [rewrite nth_error_upd, Nat.eqb_refl, Hr0; reflexivity|].
    split; [intros j Hj; rewrite nth_error_upd; destruct (Nat.eqb_spec (fst e) j); [lia|reflexivity]|].
    split; [rewrite upd_length; lia|].
    split; [assumption|]. split; [intros j Hj; apply Hoth; assumption|].
    split; [intros tid r Hc; congruence|].
    split; [|lia].
    exists rest. split; [assumption|]. split.
    + intros i Hi. split; [intros ->; contradiction|]. apply Hfl1. rewrite Hfl. right. assumption.
    + intros i Hi Hne' Hnin'. apply Hfl2; [lia|]. rewrite Hfl. intros [Hc|Hc]; [lia|contradiction].
Qed.

Lemma sb1_grown_add : forall t e, tbl_ok t -> t_len t < Nat.pow 2 31 ->
  sb1_grown t (snd (tbl_add t e)) e /\ forall ci, cell (snd (tbl_add t e)) ci (t_len t) = 0%Z.
Proof.
  intros t e Hok Hlt. pose proof (tbl_add_ok t e Hok Hlt) as Hok2.
  pose proof (tbl_add_spec t e Hok Hlt) as Hs.
  destruct (tbl_add t e) as [idx t2]. simpl snd in *.
  destruct Hs as (-> & Hl & Hr & Hz & Hc & Hre & F1 & F2 & F3 & F4 & F5 & F6).
  split; [|exact Hz]. unfold sb1_grown. tauto.
Qed.

Definition sb1_st2 (s : W) (p' : pool) (tabs : list table) (idx' : list (option nat * nat)) (ist' : list bool) : W :=
  s <| w_pool := p' |> <| w_tables := tabs |> <| w_index := idx' |> <| w_istarget := ist' |>.

Lemma sb1_kind_of_eq : forall s s', w_reg s' = w_reg s -> kind_of s' = kind_of s.
Proof. intros s s' H. unfold kind_of. rewrite H. reflexivity. Qed.

Lemma sb1_loc_fst : forall s e e', fst e = fst e' -> loc s e = loc s e'.
Proof. intros. unfold loc. rewrite H. reflexivity. Qed.

Section sb1_place.
Variables (s : W) (tid : nat) (t t2 : table) (e : ent) (p' : pool)
          (idx' : list (option nat * nat)) (ist' : list bool).
Hypothesis HSt : St s.
Hypothesis Ht : nth_error (w_tables s) tid = Some t.
Hypothesis Hroom : room s.
Hypothesis Hslot : sb1_slot s e p' idx' (Some tid, t_len t).
Hypothesis Hist : length ist' = length idx'.
Hypothesis Hgr : sb1_grown t t2 e.

Let s2 := sb1_st2 s p' (upd tid t2 (w_tables s)) idx' ist'.

Lemma sb1_p_tab : forall j, nth_error (w_tables s2) j = if Nat.eqb tid j then Some t2 else nth_error (w_tables s) j.
Proof.
  intros j. subst s2. unfold sb1_st2. cbn. rewrite nth_error_upd.
  destruct (Nat.eqb_spec tid j); subst; [rewrite Ht|]; reflexivity.
Qed.

Lemma sb1_p_loc_new : forall x, fst x = fst e -> loc s2 x = Some (tid, t_len t).
Proof.
  intros x Hx. destruct Hslot as (_ & Hi1 & _). unfold loc. subst s2. unfold sb1_st2. cbn.
  rewrite Hx, Hi1. reflexivity.
Qed.

Lemma sb1_p_loc_old_none : forall x, fst x = fst e -> loc s x = None.
Proof.
  intros x Hx. destruct Hslot as (_ & _ & _ & _ & _ & _ & Hold & _). unfold loc. rewrite Hx.
  destruct (nth_error (w_index s) (fst e)) as [[[tid'|] r]|] eqn:E; try reflexivity.
  exfalso. eapply Hold. reflexivity.
Qed.

Lemma sb1_p_loc_other : forall x, fst x <> fst e -> loc s2 x = loc s x.
Proof.
  intros x Hx. destruct Hslot as (_ & _ & Hi2 & _). unfold loc. subst s2. unfold sb1_st2. cbn.
  rewrite Hi2 by assumption. reflexivity.
Qed.

Lemma sb1_p_loc_some_ne : forall x l, loc s x = Some l -> fst x <> fst e.
Proof. intros x l H Hc. rewrite (sb1_p_loc_old_none x Hc) in H. discriminate. Qed.

Lemma sb1_p_WF : WF s2.
Proof.
  destruct HSt as [Hwf Hnr].
  pose proof sb1_p_tab as Htab. pose proof sb1_p_loc_new as Hln. pose proof sb1_p_loc_other as Hlo.
  pose proof sb1_p_loc_some_ne as Hne.
  destruct Hslot as (He2 & Hi1 & Hi2 & Hil & Hp1 & Hp2 & Hold & (fl' & Hok' & Hfl1 & Hfl2) & Hlen).
  destruct Hgr as (Gok & Glen & Gent & Gcell & Grow & Gids & Gkinds & Garch & Grels & Gtg & Gfree).
  assert (Hkind : kind_of s2 = kind_of s) by (apply sb1_kind_of_eq; reflexivity).
  constructor.
  - (* wf_tables *)
    apply Forall_nth_error. intros i x Hx. rewrite Htab in Hx.
    destruct (Nat.eqb_spec tid i).
    + inversion Hx; subst; assumption.
    + eapply (proj1 (Forall_nth_error _ _ _) (wf_tables _ Hwf)); eassumption.
  - (* wf_layout *)
    intros tid' t' Hx. rewrite Htab in Hx. rewrite Hkind.
    change (w_archs s2) with (w_archs s).
    destruct (Nat.eqb_spec tid tid').
    + inversion Hx; subst t'. rewrite Garch, Gids, Gkinds, Gtg. eapply wf_layout; eassumption.
    + eapply wf_layout; eassumption.
  - (* wf_arch_comps *)
    rewrite Hkind. exact (wf_arch_comps _ Hwf).
  - exact (wf_arch_unique _ Hwf).
  - (* wf_arch_tables *)
    intros aid a tid' Ha Hin. destruct (wf_arch_tables _ Hwf aid a tid' Ha Hin) as (t0 & Ht0 & Hta).
    rewrite Htab. destruct (Nat.eqb_spec tid tid').
    + subst tid'. exists t2. split; [reflexivity|]. rewrite Ht in Ht0. inversion Ht0; subst t0. congruence.
    + exists t0. split; assumption.
  - exact (wf_arch_norel_table _ Hwf).
  - (* wf_arch0 *)
    destruct (wf_arch0 _ Hwf) as (a0 & Ha0 & Hm0 & t0 & Ht0 & Hta0).
    exists a0. split; [exact Ha0|]. split; [exact Hm0|]. rewrite Htab.
    destruct (Nat.eqb_spec tid 0).
    + subst tid. exists t2. split; [reflexivity|]. rewrite Ht in Ht0. inversion Ht0; subst t0. congruence.
    + exists t0. split; assumption.
  - exact (wf_index_lists _ Hwf).
  - (* wf_index_len *)
    split; [exact Hil | exact Hist].
  - (* wf_rows *)
    intros tid' t' r Hx Hr. rewrite Htab in Hx.
    change (pe (w_pool s2)) with (pe p').
    assert (Hold_row : forall t0 r0, nth_error (w_tables s) tid' = Some t0 -> r0 < t_len t0 ->
              loc s2 (row_ent t0 r0) = Some (tid', r0) /\
              nth_error (pe p') (fst (row_ent t0 r0)) = Some (row_ent t0 r0)).
    { intros t0 r0 Ht0 Hr0. destruct (wf_rows _ Hwf tid' t0 r0 Ht0 Hr0) as (Hl & Hp).
      pose proof (Hne _ _ Hl) as Hn. rewrite Hlo, Hp2 by assumption. split; assumption. }
    destruct (Nat.eqb_spec tid tid').
    + inversion Hx; subst t' tid'. rewrite Glen in Hr.
      destruct (Nat.eq_dec r (t_len t)).
      * subst r. rewrite Gent. split; [apply Hln; reflexivity | exact Hp1].
      * rewrite Grow by lia. apply Hold_row; [assumption|lia].
    + apply Hold_row; assumption.
  - (* wf_index *)
    intros id tid' r Hx. change (w_index s2) with idx' in Hx.
    destruct (Nat.eq_dec id (fst e)).
    + subst id. rewrite Hi1 in Hx. inversion Hx; subst tid' r.
      exists t2. rewrite Htab, Nat.eqb_refl. split; [reflexivity|]. split; [lia|]. rewrite Gent. reflexivity.
    + rewrite Hi2 in Hx by assumption.
      destruct (wf_index _ Hwf id tid' r Hx) as (t0 & Ht0 & Hr0 & Hf0).
      rewrite Htab. destruct (Nat.eqb_spec tid tid').
      * subst tid'. rewrite Ht in Ht0. inversion Ht0; subst t0.
        exists t2. split; [reflexivity|]. split; [lia|]. rewrite Grow by assumption. assumption.
      * exists t0. auto.
  - (* wf_pool *)
    exists fl'. change (w_pool s2) with p'. change (w_index s2) with idx'.
    split; [assumption|]. split.
    + intros i Hi. destruct (Hfl1 i Hi) as (Hn & r & Hr). exists r. rewrite Hi2; assumption.
    + intros i Hi Hnin. destruct (Nat.eq_dec i (fst e)).
      * subst i. eauto.
      * rewrite Hi2 by assumption. apply Hfl2; assumption.
  - (* wf_reserved *)
    change (w_pool s2) with p'. change (w_index s2) with idx'.
    destruct (wf_reserved _ Hwf) as (R0 & R1 & P0 & P1).
    rewrite !Hi2, !Hp2 by lia. auto.
  - (* wf_small *)
    change (w_pool s2) with p'. unfold room in Hroom. lia.
  - exact (wf_cache _ Hwf).
Qed.

Lemma sb1_p_NoRel : NoRel s2.
Proof.
  destruct HSt as [Hwf (N1 & N2 & N3 & N4)]. pose proof sb1_p_tab as Htab.
  destruct Hgr as (Gok & Glen & Gent & Gcell & Grow & Gids & Gkinds & Garch & Grels & Gtg & Gfree).
  assert (Hkind : kind_of s2 = kind_of s) by (apply sb1_kind_of_eq; reflexivity).
  split; [rewrite Hkind; exact N1|]. split; [|split; [exact N3 | exact N4]].
  intros tid' t' Hx. rewrite Htab in Hx. destruct (Nat.eqb_spec tid tid').
  - inversion Hx; subst t' tid'. rewrite Grels, Gfree. eapply N2; eassumption.
  - eapply N2; eassumption.
Qed.

Lemma sb1_p_St : St s2.
Proof. split; [apply sb1_p_WF | apply sb1_p_NoRel]. Qed.

Lemma sb1_ent_eqb_refl : forall x, ent_eqb x x = true.
Proof. intros [i g]. unfold ent_eqb. simpl. rewrite Nat.eqb_refl, N.eqb_refl. reflexivity. Qed.

Lemma sb1_ent_eqb_eq : forall x y, ent_eqb x y = true -> x = y.
Proof.
  intros [i g] [j h]. unfold ent_eqb. simpl. intros H. apply andb_true_iff in H. destruct H as [H1 H2].
  apply Nat.eqb_eq in H1. apply N.eqb_eq in H2. congruence.
Qed.

Lemma sb1_p_live_old : live s e = false.
Proof. unfold live. rewrite (sb1_p_loc_old_none e eq_refl). reflexivity. Qed.

Lemma sb1_p_live_new : live s2 e = true.
Proof.
  destruct Hgr as (Gok & Glen & Gent & _).
  unfold live. rewrite (sb1_p_loc_new e eq_refl), sb1_p_tab, Nat.eqb_refl, Glen, Gent, sb1_ent_eqb_refl.
  destruct (Nat.ltb_spec (t_len t) (S (t_len t))); [reflexivity|lia].
Qed.

Lemma sb1_p_alive_new : alive s2 e = true.
Proof.
  destruct Hslot as (_ & _ & _ & _ & Hp1 & _).
  unfold alive, pool_alive. change (w_pool s2) with p'. rewrite Hp1. destruct e. simpl. apply N.eqb_refl.
Qed.

Lemma sb1_p_val_new : forall c,
  val s2 e c = match tbl_colidx t c with Some ci => Some (cell t2 ci (t_len t)) | None => None end.
Proof.
  intros c. destruct Hgr as (Gok & Glen & Gent & Gcell & Grow & Gids & _).
  unfold val. rewrite sb1_p_live_new. unfold value_of.
  rewrite (sb1_p_loc_new e eq_refl), sb1_p_tab, Nat.eqb_refl. unfold tbl_colidx. rewrite Gids. reflexivity.
Qed.

Lemma sb1_p_others : others_same s s2 e.
Proof.
  destruct HSt as [Hwf _].
  destruct Hgr as (Gok & Glen & Gent & Gcell & Grow & Gids & _).
  intros e' Hne'. destruct (Nat.eq_dec (fst e') (fst e)) as [Hf|Hf].
  - assert (L1 : live s e' = false) by (unfold live; rewrite (sb1_p_loc_old_none e' Hf); reflexivity).
    assert (L2 : live s2 e' = false).
    { unfold live. rewrite (sb1_p_loc_new e' Hf), sb1_p_tab, Nat.eqb_refl, Gent.
      destruct (ent_eqb e e') eqn:E; [apply sb1_ent_eqb_eq in E; congruence|]. apply andb_false_r. }
    unfold val. rewrite L1, L2. split; reflexivity.
  - assert (L : live s2 e' = live s e' /\ (live s e' = true -> forall c, value_of s2 e' c = value_of s e' c)).
    { unfold live, value_of. rewrite (sb1_p_loc_other e' Hf).
      destruct (loc s e') as [[tid' r]|] eqn:El; [|split; reflexivity].
      rewrite sb1_p_tab. destruct (Nat.eqb_spec tid tid').
      - subst tid'. rewrite Ht. rewrite Glen. unfold tbl_colidx. rewrite Gids.
        destruct (Nat.ltb_spec r (t_len t)).
        + rewrite Grow by assumption. destruct (Nat.ltb_spec r (S (t_len t))); [|lia].
          split; [reflexivity|]. intros _ c. destruct (index_of c (t_ids t)); [|reflexivity].
          rewrite Gcell by assumption. reflexivity.
        + split; [|simpl; discriminate]. simpl.
          destruct (Nat.ltb_spec r (S (t_len t))); [|reflexivity]. simpl.
          assert (r = t_len t) by lia. subst r. rewrite Gent.
          destruct (ent_eqb e e') eqn:E; [apply sb1_ent_eqb_eq in E; congruence|reflexivity].
      - split; reflexivity. }
    destruct L as [L1 L2]. split; [exact L1|]. intros c. unfold val. rewrite L1.
    destruct (live s e') eqn:E; [apply L2; reflexivity | reflexivity].
Qed.

Lemma sb1_p_side : side_same s s2.
Proof. unfold side_same. repeat split. Qed.
Lemma sb1_p_frame : frame_user s s2.
Proof. unfold frame_user. repeat split. Qed.
Lemma sb1_p_poollen : length (pe (w_pool s2)) <= S (length (pe (w_pool s))).
Proof. destruct Hslot as (_ & _ & _ & _ & _ & _ & _ & _ & Hlen). exact Hlen. Qed.
End sb1_place.

Lemma sb1_pool_getM_eq : forall s e p', pool_get (w_pool s) = (e, p') -> pool_getM s = Ok e (s <| w_pool := p' |>).
Proof. intros s e p' H. unfold pool_getM, bind, get. rewrite H. reflexivity. Qed.

Lemma sb1_getT_eq : forall s i t, nth_error (w_tables s) i = Some t -> getT i s = Ok t s.
Proof. intros s i t H. unfold getT, bind, get. rewrite H. reflexivity. Qed.

Lemma sb1_getA_eq : forall s i a, nth_error (w_archs s) i = Some a -> getA i s = Ok a s.
Proof. intros s i a H. unfold getA, bind, get. rewrite H. reflexivity. Qed.

Lemma sb1_updf_const : forall A (l : list A) i x y, nth_error l i = Some x -> updf i (fun _ => y) l = upd i y l.
Proof. intros. unfold updf. rewrite H. reflexivity. Qed.

Lemma sb1_tbl_addM_eq : forall s tid t e, nth_error (w_tables s) tid = Some t ->
  tbl_addM tid e s = Ok (t_len t) (s <| w_tables := upd tid (snd (tbl_add t e)) (w_tables s) |>).
Proof.
  intros s tid t e H. unfold tbl_addM. erewrite sb1_bind_ok by (apply sb1_getT_eq; exact H).
  unfold tbl_add, setT, modT, modify, bind, ret. cbn.
  rewrite <- (sb1_updf_const _ (w_tables s) tid t _ H). reflexivity.
Qed.

Lemma sb1_place_run : forall A s tid t e p' (k : ent -> nat -> MW A),
  nth_error (w_tables s) tid = Some t -> pool_get (w_pool s) = (e, p') ->
  (e <- pool_getM ;; idx <- tbl_addM tid e ;; set_index (fst e) (Some tid, idx) ;;; k e idx) s =
  k e (t_len t) (sb1_st2 s p' (upd tid (snd (tbl_add t e)) (w_tables s)) (sb1_idx s e (Some tid, t_len t)) (sb1_ist s e)).
Proof.
  intros A s tid t e p' k Ht Hg.
  erewrite sb1_bind_ok by (apply sb1_pool_getM_eq; exact Hg). cbv beta.
  erewrite sb1_bind_ok by (apply sb1_tbl_addM_eq; cbn; exact Ht). cbv beta.
  unfold set_index, modify, bind, sb1_st2, sb1_idx, sb1_ist. cbn.
  destruct (Nat.eqb (fst e) (length (w_index s))); reflexivity.
Qed.

Lemma sb1_place_new : forall s tid t e p',
  St s -> nth_error (w_tables s) tid = Some t -> room s -> pool_get (w_pool s) = (e, p') ->
  forall ist', length ist' = length (sb1_idx s e (Some tid, t_len t)) ->
  let s2 := sb1_st2 s p' (upd tid (snd (tbl_add t e)) (w_tables s)) (sb1_idx s e (Some tid, t_len t)) ist' in
  St s2 /\ live s e = false /\ live s2 e = true /\ alive s2 e = true /\
  (forall c, val s2 e c = match tbl_colidx t c with Some _ => Some 0%Z | None => None end) /\
  others_same s s2 e /\ side_same s s2 /\ frame_user s s2 /\
  length (pe (w_pool s2)) <= S (length (pe (w_pool s))).
Proof.
  intros s tid t e p' HSt Ht Hroom Hg ist' Hist s2.
  destruct (sb1_slot_of_get s e p' (Some tid, t_len t) (proj1 HSt) Hg) as (Hslot & _).
  assert (Htl : t_len t < Nat.pow 2 31).
  { pose proof (rows_le_pool s tid t (proj1 HSt) Ht). unfold room in Hroom. lia. }
  assert (Htok : tbl_ok t).
  { eapply (proj1 (Forall_nth_error _ _ _) (wf_tables _ (proj1 HSt))); eassumption. }
  destruct (sb1_grown_add t e Htok Htl) as (Hgr & Hz).
  split; [eapply sb1_p_St; eassumption|].
  split; [eapply sb1_p_live_old; eassumption|].
  split; [eapply sb1_p_live_new; eassumption|].
  split; [eapply sb1_p_alive_new; eassumption|].
  split.
  { intros c. subst s2. erewrite sb1_p_val_new by eassumption.
    destruct (tbl_colidx t c); [rewrite Hz|]; reflexivity. }
  split; [eapply sb1_p_others; eassumption|].
  split; [apply sb1_p_side|]. split; [apply sb1_p_frame|].
  eapply sb1_p_poollen; eassumption.
Qed.

Lemma sb1_mk_get_0 : forall j, mk_get 0%N j = false.
Proof. intros. unfold mk_get. apply N.bits_0. Qed.

Lemma sb1_mk_to_list_0 : forall n, mk_to_list 0%N n = [].
Proof.
  intros n. destruct (mk_to_list 0%N n) as [|x l] eqn:E; [reflexivity|].
  assert (H : In x (mk_to_list 0%N n)) by (rewrite E; left; reflexivity).
  apply mk_to_list_spec in H. destruct H as [_ H]. rewrite sb1_mk_get_0 in H. discriminate.
Qed.

Lemma sb1_create_entity_spec : forall s, St s -> room s ->
  exists e s', create_entity 0 s = Ok e s' /\ St s' /\
    live s e = false /\ live s' e = true /\ alive s' e = true /\ (forall c, val s' e c = None) /\
    others_same s s' e /\ side_same s s' /\ frame_user s s' /\
    length (pe (w_pool s')) <= S (length (pe (w_pool s))).
Proof.
  intros s HSt Hroom. pose proof (proj1 HSt) as Hwf.
  destruct (wf_arch0 _ Hwf) as (a0 & Ha0 & Hm0 & t0 & Ht0 & Hta0).
  destruct (pool_get (w_pool s)) as [e p'] eqn:Hg.
  exists e.
  exists (sb1_st2 s p' (upd 0 (snd (tbl_add t0 e)) (w_tables s)) (sb1_idx s e (Some 0, t_len t0))
                  (upd (fst e) false (sb1_ist s e))).
  split.
  { unfold create_entity.
    rewrite (sb1_place_run _ s 0 t0 e p'
               (fun e _ => modify (fun s => s <| w_istarget ::= upd (fst e) false |>) ;;; ret e) Ht0 Hg).
    reflexivity. }
  assert (Hist : length (upd (fst e) false (sb1_ist s e)) = length (sb1_idx s e (Some 0, t_len t0))).
  { rewrite upd_length. apply (sb1_slot_of_get s e p' (Some 0, t_len t0) Hwf Hg). }
  pose proof (sb1_place_new s 0 t0 e p' HSt Ht0 Hroom Hg _ Hist) as H. cbv zeta in H.
  destruct H as (H1 & H2 & H3 & H4 & H5 & H6 & H7 & H8 & H9).
  repeat (split; [assumption|]). split; [|repeat (split; [assumption|]); assumption].
  intros c. rewrite H5.
  destruct (wf_layout _ Hwf 0 t0 Ht0) as (a & Ha & Hids & _). rewrite Hta0, Ha0 in Ha. inversion Ha; subst a.
  destruct (wf_arch_comps _ Hwf 0 a0 Ha0) as (Hc & _).
  unfold tbl_colidx. rewrite Hids, Hc, Hm0, sb1_mk_to_list_0. reflexivity.
Qed.

Lemma sb1_index_of_some : forall x l i, index_of x l = Some i -> nth_error l i = Some x.
Proof.
  intros x l. induction l as [|h tl IH]; intros i H; simpl in H; [discriminate|].
  destruct (Nat.eqb_spec h x).
  - inversion H; subst. reflexivity.
  - destruct (index_of x tl) eqn:E; [|discriminate]. inversion H; subst. simpl. apply IH. reflexivity.
Qed.

Lemma sb1_index_of_in : forall x l, In x l -> exists i, index_of x l = Some i.
Proof.
  intros x l. induction l as [|h tl IH]; intros H; [destruct H|]. simpl.
  destruct (Nat.eqb_spec h x); [eexists; reflexivity|].
  destruct H as [H|H]; [congruence|]. destruct (IH H) as (i & Hi). rewrite Hi. eexists; reflexivity.
Qed.

Lemma sb1_memb_In : forall x l, memb x l = true <-> In x l.
Proof.
  intros x l. unfold memb. split.
  - destruct (index_of x l) eqn:E; [|discriminate]. intros _. eapply nth_error_In. eapply sb1_index_of_some. eassumption.
  - intros H. destruct (sb1_index_of_in x l H) as (i & Hi). rewrite Hi. reflexivity.
Qed.

Lemma sb1_content_same_refl : forall s, content_same s s.
Proof. intros s e. split; reflexivity. Qed.
Lemma sb1_frame_user_refl : forall s, frame_user s s.
Proof. intros s. unfold frame_user. repeat split. Qed.
Lemma sb1_side_same_refl : forall s, side_same s s.
Proof. intros s. unfold side_same. repeat split. Qed.
Lemma sb1_rejected_refl : forall s, St s -> rejected s s.
Proof. intros s H. split; [assumption|]. split; [apply sb1_content_same_refl|]. split; [reflexivity|apply sb1_frame_user_refl]. Qed.
Lemma sb1_side_same_trans : forall a b c, side_same a b -> side_same b c -> side_same a c.
Proof. unfold side_same. intros a b c H1 H2. intuition congruence. Qed.
Lemma sb1_frame_user_trans : forall a b c, frame_user a b -> frame_user b c -> frame_user a c.
Proof. unfold frame_user. intros a b c H1 H2. intuition congruence. Qed.

Lemma sb1_new_entity_spec : forall s ids, St s -> room s -> registered s ids ->
  match new_entity ids [] s with
  | Ok (e, m) s' =>
      St s' /\ is_locked s = false /\ NoDup ids /\ m = mk_of_list ids /\
      live s e = false /\ live s' e = true /\ alive s' e = true /\
      (forall c, val s' e c = if memb c ids then Some 0%Z else None) /\
      others_same s s' e /\ side_same s s' /\ frame_user s s' /\
      length (pe (w_pool s')) <= S (length (pe (w_pool s)))
  | Err _ s' => rejected s s' /\ side_same s s' /\ (is_locked s = true \/ ~ NoDup ids)
  end.
Proof.
  intros s ids HSt Hroom Hreg. pose proof (proj1 HSt) as Hwf. unfold new_entity.
  destruct (is_locked s) eqn:El.
  { erewrite sb1_bind_err by (apply sb1_check_locked_err; exact El).
    split; [apply sb1_rejected_refl; assumption|]. split; [apply sb1_side_same_refl|]. left; reflexivity. }
  erewrite sb1_bind_ok by (apply sb1_check_locked_ok; exact El). cbv beta.
  destruct (wf_arch0 _ Hwf) as (a0 & Ha0 & Hm0 & t0 & Ht0 & Hta0).
  assert (Hz : forall j, mk_get 0%N j = true -> j < length (w_reg s)).
  { intros j Hj. rewrite sb1_mk_get_0 in Hj. discriminate. }
  pose proof (find_or_create_table_add_spec s 0 t0 ids 0%N HSt Ht0 Hz Hreg) as Hf.
  unfold bind at 1.
  destruct (find_or_create_table_add 0 ids [] 0%N s) as [[[tid aid] m] s1 | er s1].
  2:{ destruct Hf as ((HSt1 & Hsr & Hside & Hfr) & Hn).
      split; [|split; [assumption|]].
      - split; [assumption|]. split; [apply same_rows_content; assumption|].
        split; [|assumption]. apply Hsr.
      - right. intros Hnd. apply Hn. split; [assumption|]. intros; apply sb1_mk_get_0. }
  destruct Hf as ((HSt1 & Hsr & Hside & Hfr & (t & a & Ht & Hta & Ha & Hma)) & Hm & Hnd & _).
  pose proof (same_rows_content s s1 Hwf Hsr) as Hcs.
  assert (Hpool : w_pool s1 = w_pool s) by apply Hsr.
  assert (Hregs : w_reg s1 = w_reg s) by apply Hsr.
  assert (Hroom1 : room s1) by (unfold room in *; rewrite Hpool; assumption).
  destruct (pool_get (w_pool s1)) as [e p'] eqn:Hg.
  rewrite (sb1_place_run _ s1 tid t e p'
             (fun e _ => register_targets [] ;;; a <- getA aid ;; ret (e, a_mask a)) Ht Hg).
  erewrite sb1_bind_ok by reflexivity.
  erewrite sb1_bind_ok by (apply sb1_getA_eq; exact Ha). unfold ret.
  assert (Hist : length (sb1_ist s1 e) = length (sb1_idx s1 e (Some tid, t_len t))).
  { apply (sb1_slot_of_get s1 e p' (Some tid, t_len t) (proj1 HSt1) Hg). }
  pose proof (sb1_place_new s1 tid t e p' HSt1 Ht Hroom1 Hg _ Hist) as H. cbv zeta in H.
  destruct H as (H1 & H2 & H3 & H4 & H5 & H6 & H7 & H8 & H9).
  assert (Hmj : forall j, mk_get m j = memb j ids).
  { intros j. rewrite Hm, sb1_mk_get_0. reflexivity. }
  split; [assumption|]. split; [reflexivity|]. split; [assumption|].
  split.
  { rewrite Hma. apply mk_eq_ext. intros j. rewrite Hmj. apply eq_true_iff_eq.
    rewrite sb1_memb_In, mk_get_of_list. reflexivity. }
  split; [rewrite <- (proj1 (Hcs e)); assumption|].
  split; [assumption|]. split; [assumption|].
  split.
  { intros c. rewrite H5.
    destruct (wf_layout _ (proj1 HSt1) tid t Ht) as (a' & Ha' & Hids & _).
    rewrite Hta, Ha in Ha'. inversion Ha'; subst a'.
    destruct (wf_arch_comps _ (proj1 HSt1) aid a Ha) as (Hc & _).
    assert (E : memb c (t_ids t) = memb c ids).
    { apply eq_true_iff_eq. rewrite !sb1_memb_In, Hids, Hc, mk_to_list_spec, Hma, Hmj, sb1_memb_In.
      split; [tauto|]. intros Hin. split; [|assumption]. rewrite Hregs. apply Hreg. assumption. }
    rewrite <- E. unfold memb, tbl_colidx. destruct (index_of c (t_ids t)); reflexivity. }
  split.
  { intros e' Hne. destruct (H6 e' Hne) as (L & V). destruct (Hcs e') as (L' & V').
    split; [congruence|]. intros c. rewrite V, V'. reflexivity. }
  split; [eapply sb1_side_same_trans; eassumption|].
  split; [eapply sb1_frame_user_trans; eassumption|].
  rewrite <- Hpool. assumption.
Qed.

(* ---------- copy_all on one table ---------- *)

Lemma sb1_upd_upd : forall A (l : list A) i x y, upd i y (upd i x l) = upd i y l.
Proof. induction l; intros [|i] x y; simpl; auto. rewrite IHl. reflexivity. Qed.

Lemma sb1_nth_error_upd_eq : forall A (l : list A) i x, i < length l -> nth_error (upd i x l) i = Some x.
Proof.
  intros. rewrite nth_error_upd, Nat.eqb_refl. destruct (nth_error l i) eqn:E; [reflexivity|].
  apply nth_error_None in E. lia.
Qed.

Lemma sb1_updf_upd : forall A (l : list A) i x f, i < length l -> updf i f (upd i x l) = upd i (f x) l.
Proof. intros. unfold updf. rewrite sb1_nth_error_upd_eq by assumption. apply sb1_upd_upd. Qed.

Lemma sb1_modT_eq : forall (s0 : W) T tid tc f, tid < length T ->
  modT tid f (s0 <| w_tables := upd tid tc T |>) = Ok tt (s0 <| w_tables := upd tid (f tc) T |>).
Proof.
  intros. unfold modT, modify. rewrite <- (sb1_updf_upd _ T tid tc f H). reflexivity.
Qed.

Lemma sb1_cell_ext : forall a b ci r, nth_error (t_cols a) ci = nth_error (t_cols b) ci -> cell a ci r = cell b ci r.
Proof.
  intros a b ci r H. destruct (nth_error (t_cols b) ci) as [c|] eqn:E.
  - rewrite (cell_some _ _ _ _ H), (cell_some _ _ _ _ E). reflexivity.
  - rewrite (cell_none _ _ _ H), (cell_none _ _ _ E). reflexivity.
Qed.

Section sb1_copy.
Variables (t2 : table) (row idx : nat).
Hypothesis Hri : row < idx.
Hypothesis Hil : idx < t_len t2.

Definition sb1_cstep (i : nat) (tc : table) : table :=
  match nth_error (t_cols tc) i, nth_error (t_kinds tc) i with
  | Some sc, Some k => tc <| t_cols ::= updf i (fun dc => col_set k dc idx sc row) |>
  | _, _ => tc
  end.

Definition sb1_cinv (n : nat) (tc : table) : Prop :=
  tbl_ok tc /\ t_len tc = t_len t2 /\ t_ents tc = t_ents t2 /\ t_ids tc = t_ids t2 /\
  t_kinds tc = t_kinds t2 /\ t_arch tc = t_arch t2 /\ t_rels tc = t_rels t2 /\
  t_targets tc = t_targets t2 /\ t_free tc = t_free t2 /\
  (forall ci r, r <> idx -> cell tc ci r = cell t2 ci r) /\
  (forall ci, ci < n -> cell tc ci idx = cell t2 ci row).

Lemma sb1_cstep_inv : forall n tc, sb1_cinv n tc -> n < length (t_cols tc) ->
  exists sc k, nth_error (t_cols tc) n = Some sc /\ nth_error (t_kinds tc) n = Some k /\
               sb1_cinv (S n) (sb1_cstep n tc).
Proof.
  intros n tc (Hok & Il & Ie & Ii & Ik & Ia & Ir & It & If & Ic1 & Ic2) Hn.
  pose proof (tbl_ok_elim _ Hok) as (O1 & O2 & O3 & O4 & O5).
  destruct (nth_error (t_cols tc) n) as [sc|] eqn:Ec; [|apply nth_error_None in Ec; lia].
  destruct (nth_error (t_kinds tc) n) as [k|] eqn:Ek; [|apply nth_error_None in Ek; lia].
  exists sc, k. split; [reflexivity|]. split; [reflexivity|].
  destruct (O5 _ _ Ec) as (Lc & Cc & Zc).
  unfold sb1_cstep. rewrite Ec, Ek.
  set (tc' := tc <| t_cols ::= updf n (fun dc => col_set k dc idx sc row) |>).
  assert (Hcols : forall ci, nth_error (t_cols tc') ci =
             if Nat.eqb n ci then option_map (fun dc => col_set k dc idx sc row) (nth_error (t_cols tc) ci)
             else nth_error (t_cols tc) ci).
  { intros ci. subst tc'. cbn. apply nth_error_updf. }
  assert (Hoth : forall ci r, ci <> n -> cell tc' ci r = cell tc ci r).
  { intros ci r Hne. apply sb1_cell_ext. rewrite Hcols. destruct (Nat.eqb_spec n ci); [congruence|reflexivity]. }
  assert (Hn' : nth_error (t_cols tc') n = Some (col_set k sc idx sc row)).
  { rewrite Hcols, Nat.eqb_refl, Ec. reflexivity. }
  assert (Hcell : forall r, cell tc' n r =
            if ck_zs k then nth r sc 0%Z else if Nat.eqb idx r then nth row sc 0%Z else nth r sc 0%Z).
  { intros r. rewrite (cell_some _ _ _ _ Hn'). unfold col_set. destruct (ck_zs k); [reflexivity|].
    rewrite (nth_error_nth' sc 0%Z) by lia. rewrite nth_upd.
    destruct (Nat.eqb_spec idx r); simpl; [|reflexivity].
    destruct (Nat.ltb_spec idx (length sc)); [reflexivity|lia]. }
  unfold sb1_cinv.
  split. { subst tc'. apply col_set_ok; [assumption|lia|assumption|]. intros Hz. apply (Zc k Ek Hz). }
  split; [exact Il|]. split; [exact Ie|]. split; [exact Ii|]. split; [exact Ik|]. split; [exact Ia|].
  split; [exact Ir|]. split; [exact It|]. split; [exact If|].
  split.
  - intros ci r Hr. destruct (Nat.eq_dec ci n) as [->|Hne]; [|rewrite Hoth by assumption; apply Ic1; assumption].
    rewrite Hcell, <- Ic1 by assumption. rewrite (cell_some _ _ _ _ Ec).
    destruct (ck_zs k); [reflexivity|]. destruct (Nat.eqb_spec idx r); [congruence|reflexivity].
  - intros ci Hci. destruct (Nat.eq_dec ci n) as [->|Hne]; [|rewrite Hoth by assumption; apply Ic2; lia].
    rewrite Hcell, <- Ic1 by lia. rewrite (cell_some _ _ _ _ Ec).
    destruct (ck_zs k) eqn:Hz; [rewrite !(Zc k Ek Hz); reflexivity|]. rewrite Nat.eqb_refl. reflexivity.
Qed.

Lemma sb1_copy_loop : forall (s0 : W) T tid, tid < length T ->
  forall k n tc, sb1_cinv n tc -> n + k = length (t_ids t2) ->
  exists tc',
    forM_ (seq n k) (fun i =>
      st <- getT tid ;; dt <- getT tid ;;
      match nth_error (t_cols st) i, nth_error (t_kinds dt) i with
      | Some sc, Some k => modT tid (fun t => t <| t_cols ::= updf i (fun dc => col_set k dc idx sc row) |>)
      | _, _ => fail EIndex
      end) (s0 <| w_tables := upd tid tc T |>) = Ok tt (s0 <| w_tables := upd tid tc' T |>) /\
    sb1_cinv (n + k) tc'.
Proof.
  intros s0 T tid Htid k. induction k as [|k IH]; intros n tc Hinv Hnk.
  - exists tc. split; [reflexivity|]. rewrite Nat.add_0_r. assumption.
  - assert (Hlen : length (t_cols tc) = length (t_ids t2)).
    { destruct Hinv as (Hok & _ & _ & Ii & _). pose proof (tbl_ok_elim _ Hok) as (_ & _ & O3 & _).
      rewrite O3, Ii. reflexivity. }
    destruct (sb1_cstep_inv n tc Hinv) as (sc & kd & Ec & Ek & Hinv'); [lia|].
    destruct (IH (S n) (sb1_cstep n tc) Hinv') as (tc' & Hrun & Hfin); [lia|].
    exists tc'. split; [|replace (n + S k) with (S n + k) by lia; assumption].
    cbn [seq forM_].
    assert (Hget : getT tid (s0 <| w_tables := upd tid tc T |>) = Ok tc (s0 <| w_tables := upd tid tc T |>)).
    { apply sb1_getT_eq. cbn. apply sb1_nth_error_upd_eq. assumption. }
    erewrite sb1_bind_ok; [exact Hrun|].
    erewrite sb1_bind_ok by exact Hget. erewrite sb1_bind_ok by exact Hget.
    rewrite Ec, Ek. rewrite sb1_modT_eq by assumption.
    unfold sb1_cstep. rewrite Ec, Ek. reflexivity.
Qed.

Lemma sb1_cinv_init : tbl_ok t2 -> sb1_cinv 0 t2.
Proof. intros H. unfold sb1_cinv. split; [assumption|]. do 8 (split; [reflexivity|]). split; [reflexivity|]. intros ci Hci. lia. Qed.

Lemma sb1_copy_all_run : forall (s0 : W) T tid, tid < length T -> tbl_ok t2 ->
  exists tc', copy_all tid tid row idx (s0 <| w_tables := upd tid t2 T |>) =
              Ok tt (s0 <| w_tables := upd tid tc' T |>) /\ sb1_cinv (length (t_ids t2)) tc'.
Proof.
  intros s0 T tid Htid Hok2.
  destruct (sb1_copy_loop s0 T tid Htid (length (t_ids t2)) 0 t2 (sb1_cinv_init Hok2) eq_refl) as (tc' & Hrun & Hinv).
  exists tc'. split; [|exact Hinv].
  unfold copy_all.
  erewrite sb1_bind_ok by (apply sb1_getT_eq; cbn; apply sb1_nth_error_upd_eq; assumption).
  pose proof (tbl_ok_elim _ Hok2) as (_ & _ & O3 & _). rewrite O3. exact Hrun.
Qed.
End sb1_copy.

(* ---------- copy_entity ---------- *)

Definition sb1_copy_post (s : W) (e ne : ent) (s' : W) : Prop :=
  St s' /\ is_locked s = false /\ live s e = true /\ ne <> e /\
  live s ne = false /\ live s' ne = true /\ alive s' ne = true /\
  (forall c, val s' ne c = val s e c) /\
  others_same s s' ne /\ frame_user s s' /\
  length (pe (w_pool s')) <= S (length (pe (w_pool s))).

Lemma sb1_copy_post_storage : forall s e ne s3 s4,
  sb1_copy_post s e ne s3 -> storage_same s3 s4 -> sb1_copy_post s e ne s4.
Proof.
  intros s e ne s3 s4 (P1 & P2 & P3 & P4 & P5 & P6 & P7 & P8 & P9 & P10 & P11) Hss.
  pose proof (same_rows_content s3 s4 (proj1 P1) (storage_same_rows _ _ Hss)) as Hcs.
  pose proof Hss as (S1 & S2 & S3 & S4 & S5 & S6 & S7 & S8 & S9 & S10 & S11 & S12 & S13 & S14 & S15 & S16 & S17 & S18).
  unfold sb1_copy_post.
  split; [eapply storage_same_St; eassumption|]. split; [assumption|]. split; [assumption|].
  split; [assumption|]. split; [assumption|].
  split; [rewrite (proj1 (Hcs ne)); assumption|].
  split; [unfold alive in *; rewrite S3; assumption|].
  split; [intros c; rewrite (proj2 (Hcs ne)); apply P8|].
  split.
  { intros e' Hne. destruct (P9 e' Hne) as (L & V). destruct (Hcs e') as (L' & V').
    split; [congruence|]. intros c. rewrite V', V. reflexivity. }
  split.
  { unfold frame_user in *. intuition congruence. }
  rewrite S3. assumption.
Qed.

Lemma sb1_live_inv : forall s e, live s e = true ->
  exists tid row t, nth_error (w_index s) (fst e) = Some (Some tid, row) /\
    nth_error (w_tables s) tid = Some t /\ row < t_len t /\ row_ent t row = e.
Proof.
  intros s e H. unfold live, loc in H.
  destruct (nth_error (w_index s) (fst e)) as [[[tid|] row]|] eqn:Ei; try discriminate.
  destruct (nth_error (w_tables s) tid) as [t|] eqn:Et; try discriminate.
  apply andb_true_iff in H. destruct H as [H1 H2]. apply Nat.ltb_lt in H1. apply sb1_ent_eqb_eq in H2.
  exists tid, row, t. auto.
Qed.

Lemma sb1_get_index_eq : forall s e tid row, nth_error (w_index s) (fst e) = Some (Some tid, row) ->
  get_index e s = Ok (tid, row) s.
Proof. intros s e tid row H. unfold get_index, bind, get. rewrite H. reflexivity. Qed.

Lemma sb1_guard_alive_ok : forall A s e (k : MW A), alive s e = true ->
  (s0 <- get ;; guard (alive s0 e) EDead ;;; k) s = k s.
Proof. intros. unfold bind, get. rewrite H. reflexivity. Qed.

Lemma sb1_place_run2 : forall A s tid t e p' (k : nat -> MW A),
  nth_error (w_tables s) tid = Some t ->
  (idx <- tbl_addM tid e ;; set_index (fst e) (Some tid, idx) ;;; k idx) (s <| w_pool := p' |>) =
  k (t_len t) (sb1_st2 s p' (upd tid (snd (tbl_add t e)) (w_tables s)) (sb1_idx s e (Some tid, t_len t)) (sb1_ist s e)).
Proof.
  intros A s tid t e p' k Ht.
  erewrite sb1_bind_ok by (apply sb1_tbl_addM_eq; cbn; exact Ht). cbv beta.
  unfold set_index, modify, bind, sb1_st2, sb1_idx, sb1_ist. cbn.
  destruct (Nat.eqb (fst e) (length (w_index s))); reflexivity.
Qed.

Lemma sb1_copy_all_run2 : forall t2 row idx, row < idx -> idx < t_len t2 -> tbl_ok t2 ->
  forall s p' tid idx' ist', tid < length (w_tables s) ->
  exists tc', copy_all tid tid row idx (sb1_st2 s p' (upd tid t2 (w_tables s)) idx' ist') =
              Ok tt (sb1_st2 s p' (upd tid tc' (w_tables s)) idx' ist') /\
              sb1_cinv t2 row idx (length (t_ids t2)) tc'.
Proof.
  intros t2 row idx H1 H2 Hok s p' tid idx' ist' Htid.
  exact (sb1_copy_all_run t2 row idx H1 H2 (sb1_st2 s p' (w_tables s) idx' ist') (w_tables s) tid Htid Hok).
Qed.

Lemma sb1_copy_core : forall s e, St s -> room s -> is_locked s = false -> live s e = true ->
  exists ne s3 m, sb1_copy_post s e ne s3 /\ side_same s s3 /\
    w_copy_entity e s = match fire_create_entity_if_has ne m s3 with
                        | Ok _ s4 => Ok ne s4 | Err er s4 => Err er s4 end.
Proof.
  intros s e HSt Hroom Hul Hlive. pose proof (proj1 HSt) as Hwf.
  destruct (live_alive s e Hwf Hlive) as (Hal & _).
  destruct (sb1_live_inv s e Hlive) as (tid & row & t & Hidx & Ht & Hrow & Hrent).
  destruct (pool_get (w_pool s)) as [ne p'] eqn:Hg.
  assert (Htl : t_len t < Nat.pow 2 31).
  { pose proof (rows_le_pool s tid t Hwf Ht). unfold room in Hroom. lia. }
  assert (Htok : tbl_ok t).
  { eapply (proj1 (Forall_nth_error _ _ _) (wf_tables _ Hwf)); eassumption. }
  destruct (sb1_grown_add t ne Htok Htl) as (Hgr & Hz).
  set (t2 := snd (tbl_add t ne)) in *.
  assert (Htid : tid < length (w_tables s)) by (apply nth_error_Some; congruence).
  destruct (sb1_copy_all_run2 t2 row (t_len t)) with (s := s) (p' := p') (tid := tid)
     (idx' := sb1_idx s ne (Some tid, t_len t)) (ist' := sb1_ist s ne) as (tc & Hcopy & Hinv);
    [assumption | destruct Hgr as (_ & Gl & _); lia | apply Hgr | assumption |].
  destruct (wf_layout _ Hwf tid t Ht) as (a & Ha & _).
  set (s3 := sb1_st2 s p' (upd tid tc (w_tables s)) (sb1_idx s ne (Some tid, t_len t)) (sb1_ist s ne)) in *.
  exists ne, s3, (a_mask a).
  destruct Hgr as (Gok & Glen & Gent & Gcell & Grow & Gids & Gkinds & Garch & Grels & Gtg & Gfree).
  destruct Hinv as (Iok & Il & Ie & Ii & Ik & Ia & Ir & It & If & Ic1 & Ic2).
  assert (Hgr' : sb1_grown t tc ne).
  { unfold sb1_grown. split; [assumption|]. split; [congruence|].
    split; [unfold row_ent in *; rewrite Ie; assumption|].
    split; [intros ci r Hr; rewrite Ic1 by lia; apply Gcell; assumption|].
    split; [intros r Hr; unfold row_ent in *; rewrite Ie; apply Grow; assumption|].
    repeat split; congruence. }
  destruct (sb1_slot_of_get s ne p' (Some tid, t_len t) Hwf Hg) as (Hslot & Hist).
  assert (Hlold : live s ne = false) by (eapply sb1_p_live_old; eassumption).
  split; [|split; [apply sb1_p_side|]].
  - unfold sb1_copy_post.
    split; [eapply sb1_p_St; eassumption|]. split; [assumption|]. split; [assumption|].
    split; [intros ->; congruence|]. split; [assumption|].
    split; [eapply sb1_p_live_new; eassumption|].
    split; [eapply sb1_p_alive_new; eassumption|].
    split.
    { intros c. subst s3. erewrite sb1_p_val_new by eassumption.
      unfold val. rewrite Hlive. unfold value_of, loc. rewrite Hidx, Ht.
      destruct (tbl_colidx t c) as [ci|] eqn:Eci; [|reflexivity].
      unfold tbl_colidx in Eci. apply sb1_index_of_some in Eci.
      assert (ci < length (t_ids t)) by (apply nth_error_Some; congruence).
      rewrite Ic2 by (rewrite Gids; assumption). rewrite Gcell by assumption. reflexivity. }
    split; [eapply sb1_p_others; eassumption|].
    split; [apply sb1_p_frame|].
    eapply sb1_p_poollen; eassumption.
  - unfold w_copy_entity.
    erewrite sb1_bind_ok by (apply sb1_check_locked_ok; exact Hul).
    rewrite sb1_guard_alive_ok by exact Hal.
    erewrite sb1_bind_ok by (apply sb1_pool_getM_eq; exact Hg).
    erewrite sb1_bind_ok by (apply sb1_get_index_eq; cbn; exact Hidx).
    cbv beta iota.
    rewrite (sb1_place_run2 _ s tid t ne p'
               (fun idx => copy_all tid tid row idx ;;; t <- getT tid ;; a <- getA (t_arch t) ;;
                  fire_create_entity_if_has ne (a_mask a) ;;;
                  whenM (arch_has_rels a) (fire_create_entity_rel_if_has ne (a_mask a)) ;;; ret ne) Ht).
    fold t2. erewrite sb1_bind_ok by exact Hcopy.
    erewrite sb1_bind_ok by (apply sb1_getT_eq; subst s3; unfold sb1_st2; cbn; apply sb1_nth_error_upd_eq; assumption).
    erewrite sb1_bind_ok by (apply sb1_getA_eq; rewrite Ia, Garch; exact Ha).
    assert (Hnr : arch_has_rels a = false).
    { destruct HSt as (_ & _ & _ & N3 & _). destruct (N3 _ _ Ha) as (_ & Hn & _).
      unfold arch_has_rels. rewrite Hn. reflexivity. }
    rewrite Hnr. unfold bind, whenM, ret.
    destruct (fire_create_entity_if_has ne (a_mask a) s3); reflexivity.
Qed.

Lemma sb1_has_obs_eq : forall s s' evt, w_oagg s' = w_oagg s -> has_obs s' evt = has_obs s evt.
Proof. intros s s' evt H. unfold has_obs, get_agg. rewrite H. reflexivity. Qed.

Lemma sb1_fire_create_noobs : forall s ne m, has_obs s EvCreateEntity = false ->
  fire_create_entity_if_has ne m s = Ok tt s.
Proof. intros s ne m H. unfold fire_create_entity_if_has, bind, get. rewrite H. reflexivity. Qed.

(** General form: the only way [w_copy_entity] fails after the alive check is a panic inside an
    OnCreateEntity callback, after the copy has been made. *)
Lemma copy_entity_spec_partial_obs : forall s e, St s -> room s ->
  (alive s e = true -> live s e = true) ->
  match w_copy_entity e s with
  | Ok ne s' =>
      St s' /\ is_locked s = false /\ live s e = true /\ ne <> e /\
      live s ne = false /\ live s' ne = true /\ alive s' ne = true /\
      (forall c, val s' ne c = val s e c) /\
      others_same s s' ne /\ frame_user s s' /\
      length (pe (w_pool s')) <= S (length (pe (w_pool s)))
  | Err _ s' => rejected s s' \/
      (has_obs s EvCreateEntity = true /\ exists ne, sb1_copy_post s e ne s')
  end.
Proof.
  intros s e HSt Hroom Hal.
  assert (Hc : is_locked s = true \/ is_locked s = false) by (destruct (is_locked s); auto).
  destruct Hc as [El|El].
  { unfold w_copy_entity. erewrite sb1_bind_err by (apply sb1_check_locked_err; exact El).
    left. apply sb1_rejected_refl. assumption. }
  destruct (alive s e) eqn:Ea.
  2:{ unfold w_copy_entity. erewrite sb1_bind_ok by (apply sb1_check_locked_ok; exact El).
      rewrite (sb1_guard_alive_err _ s e (fun _ => _) Ea). left. apply sb1_rejected_refl. assumption. }
  specialize (Hal eq_refl).
  destruct (sb1_copy_core s e HSt Hroom El Hal) as (ne & s3 & m & Hpost & Hside & Hrun).
  assert (Hoagg : w_oagg s3 = w_oagg s) by apply Hside.
  rewrite Hrun.
  pose proof (fire_create_entity_if_has_storage ne m s3) as Hss.
  destruct (has_obs s EvCreateEntity) eqn:Ho.
  - destruct (fire_create_entity_if_has ne m s3) as [u s4|er s4]; simpl in Hss.
    + exact (sb1_copy_post_storage _ _ _ _ _ Hpost Hss).
    + right. split; [reflexivity|]. exists ne. exact (sb1_copy_post_storage _ _ _ _ _ Hpost Hss).
  - rewrite sb1_fire_create_noobs by (rewrite (sb1_has_obs_eq s s3 _ Hoagg); exact Ho).
    exact Hpost.
Qed.

Lemma copy_entity_spec_partial : forall s e, St s -> room s ->
  (alive s e = true -> live s e = true) -> has_obs s EvCreateEntity = false ->
  match w_copy_entity e s with
  | Ok ne s' =>
      St s' /\ is_locked s = false /\ live s e = true /\ ne <> e /\
      live s ne = false /\ live s' ne = true /\ alive s' ne = true /\
      (forall c, val s' ne c = val s e c) /\
      others_same s s' ne /\ frame_user s s' /\
      length (pe (w_pool s')) <= S (length (pe (w_pool s)))
  | Err _ s' => rejected s s'
  end.
Proof.
  intros s e HSt Hroom Hal Ho. pose proof (copy_entity_spec_partial_obs s e HSt Hroom Hal) as H.
  destruct (w_copy_entity e s) as [ne s'|er s']; [exact H|].
  destruct H as [H|[H _]]; [exact H|congruence].
Qed.

(** Machine-checked counterexample to the unrestricted statement: the reserved handle
    [(0, max_u32)] passes the alive check in every well-formed world, the pool is popped/extended,
    and only then the index lookup panics: the pool has changed, so the state is not [rejected]. *)
Lemma sb1_pool_get_changes : forall p fl, pool_ok p fl -> snd (pool_get p) <> p.
Proof.
  intros p fl Hok. pose proof (pool_get_spec p fl Hok) as H.
  destruct (pool_get p) as [e p'] eqn:E. simpl. destruct H as (_ & [A|B]).
  - destruct A as (_ & _ & _ & Hpe & _). intros ->.
    apply (f_equal (@length ent)) in Hpe. rewrite app_length in Hpe. simpl in Hpe. lia.
  - destruct B as (rest & Hfl & _ & _ & Hok' & _). intros ->.
    destruct Hok as (_ & L1 & _). destruct Hok' as (_ & L2 & _). rewrite Hfl in L1. simpl in L1. lia.
Qed.

Lemma sb1_get_index_none : forall s e r, nth_error (w_index s) (fst e) = Some (None, r) ->
  get_index e s = Err EIndex s.
Proof. intros s e r H. unfold get_index, bind, get. rewrite H. reflexivity. Qed.

Lemma sb1_copy_entity_spec_counterexample : forall s, St s -> is_locked s = false ->
  match w_copy_entity (0, max_u32) s with
  | Ok _ _ => False
  | Err _ s' => ~ rejected s s'
  end.
Proof.
  intros s HSt El. pose proof (proj1 HSt) as Hwf.
  destruct (wf_reserved _ Hwf) as ((r0 & R0) & _ & P0 & _).
  destruct (wf_pool _ Hwf) as (fl & Hok & _).
  assert (Hal : alive s (0, max_u32) = true).
  { unfold alive, pool_alive. cbn [fst snd]. rewrite P0. reflexivity. }
  unfold w_copy_entity.
  erewrite sb1_bind_ok by (apply sb1_check_locked_ok; exact El).
  rewrite sb1_guard_alive_ok by exact Hal.
  destruct (pool_get (w_pool s)) as [ne p'] eqn:Hg.
  erewrite sb1_bind_ok by (apply sb1_pool_getM_eq; exact Hg).
  erewrite sb1_bind_err by (apply (sb1_get_index_none _ _ r0); exact R0).
  intros (_ & _ & Hp & _). cbn in Hp.
  apply (sb1_pool_get_changes _ _ Hok). rewrite Hg. exact Hp.
Qed.

(** Second obstacle (needs an invariant of the observer manager / lock that [St] does not contain):
    an OnCreateEntity callback can panic after the copy has been made. Machine-checked instance:
    a dangling observer index in the event's list. The failing state contains the new entity. *)
Lemma sb1_copy_post_not_rejected : forall s e ne s', sb1_copy_post s e ne s' -> ~ rejected s s'.
Proof.
  intros s e ne s' (_ & _ & _ & _ & L0 & L1 & _) (_ & Hcs & _).
  rewrite (proj1 (Hcs ne)) in L1. congruence.
Qed.

Lemma sb1_copy_entity_obs_counterexample : forall s e oi l,
  St s -> room s -> is_locked s = false -> live s e = true ->
  has_obs s EvCreateEntity = true -> g_anynowith (get_agg s EvCreateEntity) = true ->
  olist s EvCreateEntity = oi :: l -> nth_error (w_obs s) oi = None ->
  match w_copy_entity e s with
  | Ok _ _ => False
  | Err _ s' => ~ rejected s s'
  end.
Proof.
  intros s e oi l HSt Hroom El Hlive Ho Hany Hol Hoi.
  destruct (sb1_copy_core s e HSt Hroom El Hlive) as (ne & s3 & m & Hpost & Hside & Hrun).
  destruct Hside as (_ & _ & Hobs & Holists & Hoagg & _).
  rewrite Hrun.
  assert (Hf : fire_create_entity_if_has ne m s3 = Err EIndex s3).
  { unfold fire_create_entity_if_has. unfold bind at 1. unfold get at 1.
    rewrite (sb1_has_obs_eq s s3 _ Hoagg), Ho.
    apply sb1_bind_err.
    unfold fire_create_entity, fire, fire_with. unfold bind at 1. unfold get at 1.
    assert (Hg : get_agg s3 EvCreateEntity = get_agg s EvCreateEntity) by (unfold get_agg; rewrite Hoagg; reflexivity).
    assert (Hl : olist s3 EvCreateEntity = oi :: l) by (unfold olist; rewrite Holists; exact Hol).
    rewrite Hg, Hl. unfold early_with. rewrite Hany. cbn [negb andb fire_loop].
    apply sb1_bind_err. unfold getO, bind, get. rewrite Hobs, Hoi. reflexivity. }
  rewrite Hf. eapply sb1_copy_post_not_rejected. eassumption.
Qed.


(** World.NewEntity (storage part): a fresh handle with no components. *)
Lemma create_entity_spec : forall s, St s -> room s ->
  exists e s', create_entity 0 s = Ok e s' /\ St s' /\
    live s e = false /\ live s' e = true /\ alive s' e = true /\ (forall c, val s' e c = None) /\
    others_same s s' e /\ side_same s s' /\ frame_user s s' /\
    length (pe (w_pool s')) <= S (length (pe (w_pool s))).
Proof. exact sb1_create_entity_spec. Qed.

(** Unsafe.NewEntity(ids...) (storage part, no relation targets). *)
Lemma new_entity_spec : forall s ids, St s -> room s -> registered s ids ->
  match new_entity ids [] s with
  | Ok (e, m) s' =>
      St s' /\ is_locked s = false /\ NoDup ids /\ m = mk_of_list ids /\
      live s e = false /\ live s' e = true /\ alive s' e = true /\
      (forall c, val s' e c = if memb c ids then Some 0%Z else None) /\
      others_same s s' e /\ side_same s s' /\ frame_user s s' /\
      length (pe (w_pool s')) <= S (length (pe (w_pool s)))
  | Err _ s' => rejected s s' /\ side_same s s' /\ (is_locked s = true \/ ~ NoDup ids)
  end.
Proof. exact sb1_new_entity_spec. Qed.


(** remove: the entity loses exactly the components, keeps the values of the rest. Removal
    callbacks run before the change (they see the old content) and cannot touch the storage. *)


(** Writing through the pointer returned by Get (OWrite) *)

(** RemoveEntity: the handle is dead afterwards (and stays distinguishable: its slot's generation
    is bumped), nobody else changes. *)

(** CopyEntity: a fresh handle with the same components and values; the source is unchanged.

    The statement below is FALSE as it stands (its [Err] clause), for two independent reasons; it
    is kept here commented out, and the strongest true variants are proved above:
    [copy_entity_spec_partial] (two extra hypotheses, same conclusion) and
    [copy_entity_spec_partial_obs] (one extra hypothesis, weaker [Err] clause).

    (1) In the model (as in the Go code) [pool_getM] runs BEFORE [get_index e]. A handle that passes
        the generation check [alive] but has no index entry makes the call panic AFTER the pool was
        popped/extended, so [w_pool s' <> w_pool s] and [rejected s s'] fails. Such handles exist in
        every well-formed world: the reserved handle [(0, max_u32)] (slot 0 stores generation
        [max_u32] by [wf_reserved], its index entry is [(None,_)]); likewise [(1, max_u32)] and
        [(i, g)] for a free slot [i] whose stored (next) generation is [g] (never issued).
        Machine-checked: [sb1_copy_entity_spec_counterexample]
        (forall s, St s -> is_locked s = false -> w_copy_entity (0, max_u32) s is an [Err] whose
        state is not [rejected]). Extra hypothesis used: [alive s e = true -> live s e = true]
        (true for every handle ever issued by the pool; alternatively the model/Go code could do
        the index lookup before [pool.Get]).
    (2) The OnCreateEntity dispatch runs after the copy has been made and can panic ([lockM] with
        the lock bits exhausted, [getO] on a dangling observer index, ...). [St] constrains neither
        [w_lock] nor the observer manager, so such panics cannot be excluded; the failing state
        then contains the new entity ([live s' ne = true], [live s ne = false]), contradicting
        [content_same] in [rejected]. Machine-checked instance (dangling observer index):
        [sb1_copy_entity_obs_counterexample]. Extra hypothesis used:
        [has_obs s EvCreateEntity = false]; without it the [Err] clause must allow
        "callback panicked after the copy" ([copy_entity_spec_partial_obs]). A missing invariant
        clause that would repair this: the observer-manager/lock invariant (every index in
        [w_olists] is a valid observer, lock pool consistent with the mask), under which the
        dispatch cannot fail in an unlocked world.

Lemma copy_entity_spec : forall s e, St s -> room s ->
  match w_copy_entity e s with
  | Ok ne s' =>
      St s' /\ is_locked s = false /\ live s e = true /\ ne <> e /\
      live s ne = false /\ live s' ne = true /\ alive s' ne = true /\
      (forall c, val s' ne c = val s e c) /\
      others_same s s' ne /\ frame_user s s' /\
      length (pe (w_pool s')) <= S (length (pe (w_pool s)))
  | Err _ s' => rejected s s'
  end.
   (refuted as stated, see above)
*)

(** Stale handles are rejected before anything happens (C10): a handle that is not alive makes
    every checked single-entity operation fail with the state exactly unchanged. *)
Lemma dead_rejected : forall s e, alive s e = false ->
  (forall add, exists er, w_add e add [] s = Err er s) /\
  (forall rem, exists er, w_remove e rem s = Err er s) /\
  (forall add rem, exists er, w_exchange e add rem [] s = Err er s) /\
  (exists er, storage_remove_entity e s = Err er s) /\
  (exists er, w_copy_entity e s = Err er s) /\
  (forall rels, exists er, w_set_relations e rels s = Err er s) /\
  (forall debug c, exists er, cell_of debug e c s = Err er s).
Proof. exact sb1_dead_rejected. Qed.

(** ** Assumption audit (sb1): only not-yet-proved StorageA lemmas may appear *)
