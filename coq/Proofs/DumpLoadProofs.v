(** * Proofs about the pool level of DumpEntities / LoadEntities (Model/DumpLoad.v). *)
From Ark Require Import Model.Base Model.Mask Model.Pool Model.DumpLoad Proofs.LockProofs.
From Coq Require Import Lia.

(** Every pool the world can hold keeps its two reserved slots. *)
Definition has_reserved (p : pool) : Prop := reserved <= length (pe p).

Lemma has_reserved_new : has_reserved pool_new.
Proof. unfold has_reserved, pool_new, reserved; cbn; lia. Qed.

Lemma has_reserved_get p : has_reserved p -> has_reserved (snd (pool_get p)).
Proof.
  unfold has_reserved, pool_get; intros H.
  destruct (Nat.eqb (pavail p) 0); cbn [snd pe].
  - rewrite app_length; cbn; lia.
  - destruct (nth_error (pe p) (pnext p)) as [[nid g]|]; cbn [snd pe]; [rewrite length_upd|]; exact H.
Qed.

Lemma has_reserved_recycle p e p' : has_reserved p -> pool_recycle p e = Some p' -> has_reserved p'.
Proof.
  unfold has_reserved, pool_recycle; intros H.
  destruct (Nat.ltb (fst e) reserved); [discriminate|].
  destruct (nth_error (pe p) (fst e)) as [[x g]|]; [|discriminate].
  intros Heq; injection Heq as <-; cbn [pe]; rewrite length_upd; exact H.
Qed.

Lemma has_reserved_reset p : has_reserved p -> has_reserved (pool_reset p).
Proof.
  unfold has_reserved, pool_reset; cbn [pe]; intros H; rewrite firstn_length; lia.
Qed.

Lemma pstep_reserved st o : has_reserved (fst st) -> has_reserved (fst (pstep st o)).
Proof.
  destruct st as [p iss]; cbn [fst]; intros H; unfold pstep.
  destruct (fst o) as [|q|q].
  - pose proof (has_reserved_get p H) as Hg; destruct (pool_get p) as [e p']; exact Hg.
  - destruct q; try (cbn [fst]; apply has_reserved_reset; exact H).
    destruct (nth_error iss (Z.to_nat (snd o))) as [e|]; [|exact H].
    destruct (pool_alive p e); [|exact H].
    destruct (pool_recycle p e) as [p'|] eqn:Hr; [|exact H].
    cbn [fst]; eapply has_reserved_recycle; eassumption.
  - cbn [fst]; apply has_reserved_reset; exact H.
Qed.

Lemma prun_reserved ops : has_reserved (fst (prun ops)).
Proof.
  unfold prun.
  assert (G : forall st, has_reserved (fst st) -> has_reserved (fst (fold_left pstep ops st))).
  { induction ops as [|o ops IH]; cbn [fold_left]; intros st H; [exact H|].
    apply IH, pstep_reserved, H. }
  apply G, has_reserved_new.
Qed.

(** The receiving pool is fresh or reset: the dump of a real pool is accepted and installed. *)
Lemma load_ok t p :
  length (pe t) <= reserved -> pavail t = 0 -> has_reserved p -> pool_load t (pool_dump p) = Some p.
Proof.
  unfold has_reserved, reserved; intros Hl Ha H; unfold pool_load.
  replace (Nat.ltb reserved (length (pe t))) with false
    by (symmetry; apply Nat.ltb_ge; unfold reserved; lia).
  rewrite Ha; replace (Nat.ltb 0 0) with false by reflexivity; cbn [orb].
  replace (Nat.ltb 0 (length (d_ents (pool_dump p)))) with true
    by (symmetry; apply Nat.ltb_lt; unfold pool_dump; cbn [d_ents]; lia).
  destruct p; reflexivity.
Qed.

(** A fresh world accepts every dump of a real pool and then holds exactly that pool. *)
Lemma load_fresh p : has_reserved p -> pool_load pool_new (pool_dump p) = Some p.
Proof. intros H; apply load_ok; [unfold pool_new, reserved; cbn; lia | reflexivity | exact H]. Qed.

(** So does a world after Reset, whatever its history was. *)
Lemma load_reset t p : has_reserved p -> pool_load (pool_reset t) (pool_dump p) = Some p.
Proof.
  intros H; apply load_ok; [|reflexivity|exact H].
  unfold pool_reset; cbn [pe]; rewrite firstn_length; lia.
Qed.

(** A world that holds or has held entities since its last reset rejects every dump, and
    [pool_load] has no other failure. *)
Lemma load_rejected_iff t d :
  pool_load t d = None <-> (reserved < length (pe t) \/ 0 < pavail t).
Proof.
  unfold pool_load.
  destruct (Nat.ltb_spec reserved (length (pe t))) as [H1|H1];
  destruct (Nat.ltb_spec 0 (pavail t)) as [H2|H2]; cbn [orb];
  try (split; [intros _; lia | reflexivity]).
  destruct (Nat.ltb 0 (length (d_ents d))); split; try discriminate; lia.
Qed.

Lemma pgets_eq n p q : p = q -> pgets n p = pgets n q.
Proof. intros ->; reflexivity. Qed.
