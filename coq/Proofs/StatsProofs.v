(** * StatsProofs: the statistics vector agrees with the world - relation worlds, every component of
    the vector, histories, Shrink. Property C19. Helper prefix [sp_].

    ViewProofs / C19 prove the entity figures and the per-archetype sizes for the relation-FREE tier
    [St], the size sum under the extra hypothesis [v_tables_listed]. Here:

    Part 1 (structure of [St2] worlds). The relation invariant carries the clause ViewProofs lacked
      ([ri_listed], with [ri_active] / [ri_freed] / [ri_nodup] and [wf_arch_tables]): every table of the world
      is in exactly one of the two lists ([a_tables] / [a_free]) of exactly its archetype [t_arch], active
      tables are not free, free tables are empty ([sp_table_place], [sp_lists_partition]). Consequences:
      [used_equals_rows2] (used entities = rows of all tables = rows of the non-free tables),
      [live_counted_once2] / [dead_counted_zero2] / [counted_at_most_once2] ([count_in_world]),
      [sp_live_rows_*] (the rows list exactly the live entities, each once; their number is the used figure).
    Part 2 (the vector). [stats_vec_shape]: header of 7 figures, then one block per archetype
      ([sp_arch_vec]); [sp_header_meaning] and [sp_arch_block_meaning] say what EVERY component is in terms of
      the abstract world; [stats_block_size_live] (the size of a block is the number of live entities whose
      component list is the archetype's); [stats_sizes_sum2] (block sizes sum to the used figure),
      [stats_caps_sum2] (block capacities sum to the capacity of all tables), [stats_size_le_cap2].
    Part 3 (observers). Under the manager invariant [MInv] of ObsProofs the observer figure [w_ototal] is
      the number of observer objects carrying an id ([stats_observers_registered]); over the manager
      histories [stats_observers_after_every_obs_history]. For raw model histories with arbitrary observer
      objects the statement is REFUTED ([stats_observers_registered_refuted]): a registration rejected after the
      id was assigned leaves an object with an id that is in no list.
    Part 4 (OStats and Shrink). [stats_total_readonly] / [stats_step]: OStats never fails and changes nothing,
      on every state (locked or not). [stats_shrink_clock]: under every clock Shrink keeps the header, the number
      of archetypes and, per archetype, components / relation count / size / the SET of its tables; tables only
      move from the active to the free list (exactly the tables whose free flag changed, which are empty relation
      tables), capacities never grow and are either unchanged or the shrink target;
      [stats_shrink_tables_exact]: per table exactly - the walk processes the tables [0..last], a processed table gets
      the capacity [min cap target] and is free afterwards iff it was free or is an empty relation table, the tables
      after [last] are untouched.
    Part 5 (histories). Relation tier: [C19r_*_after_every_history] from [reachable_inv2Q] / [reachable_LQ],
      including "no observer, figure 0" ([sp_quiet_obs], a new invariant of those histories) and
      "locked iff a query is open". Tier 1: [C19t_*_after_every_history] from [reachable_inv4_ext].
    Part 6 (non-vacuity). [sp_script]: two archetypes, a freed relation table, a registered filter, an open
      query; the computed vector and the instances of the theorems. *)
From Ark Require Import Model.Base Model.Mask Model.Pool Model.Util Model.World Model.Run.
From Ark Require Import Proofs.TableProofs Proofs.MaskProofs Proofs.Hoare Proofs.WF Proofs.StorageA Proofs.StorageBDefs
  Proofs.StorageB_sb1 Proofs.StorageB_sb2 Proofs.StorageB_sb3 Proofs.LockWorld Proofs.StorageC Proofs.ViewProofs
  Proofs.QueryProofs Proofs.ResetShrinkProofs
  Proofs.Rel2Defs Proofs.Rel2Struct Proofs.Rel2Maint Proofs.ShrinkClockRel Proofs.Rel2Hist Proofs.Rel2HistQ Proofs.Rel2HistQL.
From Ark Require Properties.Common Proofs.Rel2Check Proofs.StorageD Proofs.ObsProofs Proofs.ObsSpec.
From RecordUpdate Require Import RecordSet.
Import RecordSetNotations.
From Coq Require Import Lia Permutation.
Close Scope Z_scope.

(* ================================================================================================ *)
(** * Part 1: the table lists of a relation world *)

(** The free lists of all archetypes ([v_listed] of ViewProofs is the same for the active lists). *)
Definition sp_freed (s : W) : list nat := flat_map a_free (w_archs s).

Lemma sp_freed_in : forall s tid, In tid (sp_freed s) <->
  exists aid a, nth_error (w_archs s) aid = Some a /\ In tid (a_free a).
Proof.
  intros s tid. unfold sp_freed. rewrite in_flat_map. split.
  - intros (a & Ha & Ht). destruct (In_nth_error _ _ Ha) as (aid & Hn). exists aid, a. split; assumption.
  - intros (aid & a & Hn & Ht). exists a. split; [eapply nth_error_In; exact Hn|exact Ht].
Qed.

Lemma sp_freed_seq : forall s, sp_freed s =
  flat_map (fun i => match nth_error (w_archs s) i with Some a => a_free a | None => [] end)
           (seq 0 (length (w_archs s))).
Proof. intros s. unfold sp_freed. symmetry. apply v_flat_map_nth_seq. Qed.

Section sp_structure.
Variables (D : nat -> Prop) (s : W).
Hypothesis HW : WF s.
Hypothesis HR : RelInvG D s.

(** Every table is in exactly one of the two lists of exactly its archetype. *)
Theorem sp_table_place_G : forall tid t, nth_error (w_tables s) tid = Some t ->
  exists a, nth_error (w_archs s) (t_arch t) = Some a /\
    (if t_free t then In tid (a_free a) /\ ~ In tid (a_tables a) /\ t_len t = 0
     else In tid (a_tables a) /\ ~ In tid (a_free a)) /\
    (forall aid' a', nth_error (w_archs s) aid' = Some a' -> In tid (a_tables a') \/ In tid (a_free a') -> aid' = t_arch t).
Proof.
  intros tid t Ht. destruct (ri_listed _ _ HR tid t Ht) as (a & Ha & Hin). exists a. split; [exact Ha|]. split.
  - destruct (t_free t) eqn:Hf.
    + split; [exact Hin|]. split.
      * intros Hact. pose proof (ri_active _ _ HR _ a tid t Ha Hact Ht) as Hc. congruence.
      * exact (proj2 (ri_freed _ _ HR _ a tid t Ha Hin Ht)).
    + split; [exact Hin|]. intros Hfr. destruct (ri_freed _ _ HR _ a tid t Ha Hfr Ht) as (Hc & _). congruence.
  - intros aid' a' Ha' Hor.
    assert (Hex : exists t', nth_error (w_tables s) tid = Some t' /\ t_arch t' = aid').
    { apply (wf_arch_tables _ HW aid' a' tid Ha'). destruct Hor as [Hor|Hor]; [left; exact Hor|right; left; exact Hor]. }
    destruct Hex as (t' & Ht' & Ea). rewrite Ht in Ht'. injection Ht' as <-. symmetry. exact Ea.
Qed.

(** A listed table exists, belongs to the listing archetype, and its free flag says which list. *)
Lemma sp_active_table : forall aid a tid, nth_error (w_archs s) aid = Some a -> In tid (a_tables a) ->
  exists t, nth_error (w_tables s) tid = Some t /\ t_arch t = aid /\ t_free t = false.
Proof.
  intros aid a tid Ha Hin. destruct (wf_arch_tables _ HW aid a tid Ha (or_introl Hin)) as (t & Ht & Ea).
  exists t. split; [exact Ht|]. split; [exact Ea|]. exact (ri_active _ _ HR aid a tid t Ha Hin Ht).
Qed.

Lemma sp_free_table : forall aid a tid, nth_error (w_archs s) aid = Some a -> In tid (a_free a) ->
  exists t, nth_error (w_tables s) tid = Some t /\ t_arch t = aid /\ t_free t = true /\ t_len t = 0.
Proof.
  intros aid a tid Ha Hin. destruct (wf_arch_tables _ HW aid a tid Ha (or_intror (or_introl Hin))) as (t & Ht & Ea).
  exists t. split; [exact Ht|]. split; [exact Ea|]. exact (ri_freed _ _ HR aid a tid t Ha Hin Ht).
Qed.

Lemma sp_listed_NoDup : NoDup (v_listed s).
Proof.
  rewrite v_listed_seq. apply v_NoDup_flat_map.
  - apply seq_NoDup.
  - intros i _. destruct (nth_error (w_archs s) i) as [a|] eqn:Ha; [|constructor]. exact (proj1 (ri_nodup _ _ HR i a Ha)).
  - intros i j z _ _ Hi Hj.
    destruct (nth_error (w_archs s) i) as [a|] eqn:Ha; [|contradiction].
    destruct (nth_error (w_archs s) j) as [b|] eqn:Hb; [|contradiction].
    destruct (sp_active_table i a z Ha Hi) as (t & Ht & Ea & _).
    destruct (sp_active_table j b z Hb Hj) as (t' & Ht' & Eb & _).
    rewrite Ht in Ht'. injection Ht' as <-. congruence.
Qed.

Lemma sp_freed_NoDup : NoDup (sp_freed s).
Proof.
  rewrite sp_freed_seq. apply v_NoDup_flat_map.
  - apply seq_NoDup.
  - intros i _. destruct (nth_error (w_archs s) i) as [a|] eqn:Ha; [|constructor]. exact (proj2 (ri_nodup _ _ HR i a Ha)).
  - intros i j z _ _ Hi Hj.
    destruct (nth_error (w_archs s) i) as [a|] eqn:Ha; [|contradiction].
    destruct (nth_error (w_archs s) j) as [b|] eqn:Hb; [|contradiction].
    destruct (sp_free_table i a z Ha Hi) as (t & Ht & Ea & _).
    destruct (sp_free_table j b z Hb Hj) as (t' & Ht' & Eb & _).
    rewrite Ht in Ht'. injection Ht' as <-. congruence.
Qed.

Lemma sp_listed_freed_disjoint : forall tid, In tid (v_listed s) -> ~ In tid (sp_freed s).
Proof.
  intros tid H1 H2. apply v_listed_in in H1. apply sp_freed_in in H2.
  destruct H1 as (i & a & Ha & Hi). destruct H2 as (j & b & Hb & Hj).
  destruct (sp_active_table i a tid Ha Hi) as (t & Ht & _ & Hf).
  destruct (sp_free_table j b tid Hb Hj) as (t' & Ht' & _ & Hf' & _).
  rewrite Ht in Ht'. injection Ht' as <-. congruence.
Qed.

(** The two families of lists together are the tables of the world, each exactly once. *)
Theorem sp_lists_partition_G : Permutation (v_listed s ++ sp_freed s) (seq 0 (length (w_tables s))).
Proof.
  apply NoDup_Permutation.
  - apply v_NoDup_app; [apply sp_listed_NoDup|apply sp_freed_NoDup|apply sp_listed_freed_disjoint].
  - apply seq_NoDup.
  - intros tid. rewrite in_seq, in_app_iff. split.
    + intros [H|H].
      * apply v_listed_in in H. destruct H as (i & a & Ha & Hi).
        destruct (sp_active_table i a tid Ha Hi) as (t & Ht & _). apply sa_nth_error_lt in Ht. lia.
      * apply sp_freed_in in H. destruct H as (i & a & Ha & Hi).
        destruct (sp_free_table i a tid Ha Hi) as (t & Ht & _). apply sa_nth_error_lt in Ht. lia.
    + intros [_ H]. cbn [Nat.add] in H. destruct (nth_error (w_tables s) tid) as [t|] eqn:Ht.
      * destruct (sp_table_place_G tid t Ht) as (a & Ha & Hp & _). destruct (t_free t).
        -- right. apply sp_freed_in. exists (t_arch t), a. split; [exact Ha|apply Hp].
        -- left. apply v_listed_in. exists (t_arch t), a. split; [exact Ha|apply Hp].
      * apply nth_error_None in Ht. lia.
Qed.

(** Sums over the table lists: every table is counted exactly once. *)
Lemma sp_sum_split : forall f : table -> nat,
  list_sum (map (v_at s f) (v_listed s)) + list_sum (map (v_at s f) (sp_freed s)) = list_sum (map f (w_tables s)).
Proof.
  intros f. rewrite <- list_sum_app, <- map_app.
  rewrite (v_list_sum_perm _ _ (Permutation_map (v_at s f) sp_lists_partition_G)). apply v_sum_tables.
Qed.

Lemma sp_freed_len0 : list_sum (map (v_at s t_len) (sp_freed s)) = 0.
Proof.
  apply v_list_sum_zero. intros tid H. apply sp_freed_in in H. destruct H as (i & a & Ha & Hi).
  destruct (sp_free_table i a tid Ha Hi) as (t & Ht & _ & _ & Hl). unfold v_at. rewrite Ht. exact Hl.
Qed.

Lemma sp_listed_rows : list_sum (map (v_at s t_len) (v_listed s)) = total_rows s.
Proof. pose proof (sp_sum_split t_len) as H. rewrite sp_freed_len0, Nat.add_0_r in H. rewrite v_total_rows_sum. exact H. Qed.

(** [count_in_world]: what a full query (a callback's Filter0 query) counts. *)
Lemma sp_count_live : forall e, live s e = true -> count_in_world s e = 1.
Proof.
  intros e Hl. pose proof Hl as P. apply live_present in P. destruct P as (tid & r & t & L & T & R & E).
  assert (Z : forall y, y <> tid -> v_at s (count_rows e) y = 0).
  { intros y Ne. unfold v_at. destruct (nth_error (w_tables s) y) as [t'|] eqn:T'; [|reflexivity].
    destruct (Nat.eq_dec (count_rows e t') 0) as [Z|NZ]; [exact Z|].
    destruct (v_count_pos_live s e y t' HW T' NZ) as (_ & r' & L'). rewrite L in L'. injection L' as E1 _. congruence. }
  assert (Hin : In tid (v_listed s)).
  { destruct (sp_table_place_G tid t T) as (a & Ha & Hp & _). destruct (t_free t).
    - destruct Hp as (_ & _ & Hz). lia.
    - apply v_listed_in. exists (t_arch t), a. split; [exact Ha|apply Hp]. }
  rewrite v_count_in_world_sum. rewrite (v_list_sum_single (v_at s (count_rows e)) (v_listed s) tid).
  - unfold v_at. rewrite T. rewrite <- E. exact (v_count_one s tid t r HW T R).
  - apply sp_listed_NoDup.
  - exact Hin.
  - intros y _ Ne. apply Z. exact Ne.
Qed.

Lemma sp_count_dead : forall e, live s e = false -> count_in_world s e = 0.
Proof.
  intros e Hl. rewrite v_count_in_world_sum. apply v_list_sum_zero.
  intros tid Hin. unfold v_at. destruct (nth_error (w_tables s) tid) as [t|] eqn:T; [|reflexivity].
  destruct (Nat.eq_dec (count_rows e t) 0) as [Z|NZ]; [exact Z|].
  destruct (v_count_pos_live s e tid t HW T NZ) as (Lv & _). congruence.
Qed.
End sp_structure.

(** ** The statements for [St2] *)

Lemma sp_St2_parts : forall s, St2 s -> WF s /\ RelInvG r2_none s.
Proof. intros s (HW & (HR & _) & _). split; assumption. Qed.

Theorem sp_table_place : forall s tid t, St2 s -> nth_error (w_tables s) tid = Some t ->
  exists a, nth_error (w_archs s) (t_arch t) = Some a /\
    (if t_free t then In tid (a_free a) /\ ~ In tid (a_tables a) /\ t_len t = 0
     else In tid (a_tables a) /\ ~ In tid (a_free a)) /\
    (forall aid' a', nth_error (w_archs s) aid' = Some a' -> In tid (a_tables a') \/ In tid (a_free a') -> aid' = t_arch t).
Proof. intros s tid t HS. destruct (sp_St2_parts s HS) as (HW & HR). exact (sp_table_place_G r2_none s HW HR tid t). Qed.

Theorem sp_lists_partition : forall s, St2 s ->
  NoDup (v_listed s) /\ NoDup (sp_freed s) /\ Permutation (v_listed s ++ sp_freed s) (seq 0 (length (w_tables s))).
Proof.
  intros s HS. destruct (sp_St2_parts s HS) as (HW & HR).
  split; [exact (sp_listed_NoDup r2_none s HW HR)|]. split; [exact (sp_freed_NoDup r2_none s HW HR)|].
  exact (sp_lists_partition_G r2_none s HW HR).
Qed.

(** Every non-free table is listed by its archetype; every free table is empty (the two clauses the
    package asks to check: they ARE clauses of [St2], [ri_listed] and [ri_freed]). *)
Theorem sp_nonfree_listed : forall s tid t, St2 s -> nth_error (w_tables s) tid = Some t -> t_free t = false ->
  exists a, nth_error (w_archs s) (t_arch t) = Some a /\ In tid (a_tables a).
Proof.
  intros s tid t HS Ht Hf. destruct (sp_table_place s tid t HS Ht) as (a & Ha & Hp & _). rewrite Hf in Hp.
  exists a. split; [exact Ha|apply Hp].
Qed.

Theorem sp_free_empty : forall s tid t, St2 s -> nth_error (w_tables s) tid = Some t -> t_free t = true -> t_len t = 0.
Proof. intros s tid t HS Ht Hf. destruct (sp_table_place s tid t HS Ht) as (a & _ & Hp & _). rewrite Hf in Hp. apply Hp. Qed.

(** Rows of the non-free tables. *)
Definition active_rows (s : W) : nat :=
  list_sum (map t_len (filter (fun t => negb (t_free t)) (w_tables s))).

Lemma sp_active_rows_total : forall s, St2 s -> active_rows s = total_rows s.
Proof.
  intros s HS. rewrite v_total_rows_sum. unfold active_rows.
  assert (G : forall l, (forall t, In t l -> t_free t = true -> t_len t = 0) ->
              list_sum (map t_len (filter (fun t => negb (t_free t)) l)) = list_sum (map t_len l)).
  { induction l as [|t l IH]; intros H; [reflexivity|]. cbn [filter map list_sum fold_right].
    assert (IH' := IH (fun t' Hin => H t' (or_intror Hin))).
    destruct (t_free t) eqn:Hf; cbn [negb map list_sum fold_right].
    - rewrite (H t (or_introl eq_refl) Hf). cbn [Nat.add]. exact IH'.
    - unfold list_sum in IH'. rewrite IH'. reflexivity. }
  apply G. intros t Hin Hf. destruct (In_nth_error _ _ Hin) as (tid & Ht). exact (sp_free_empty s tid t HS Ht Hf).
Qed.

(** C19 for relation worlds: used entities = rows of all tables = rows of the non-free tables;
    total = used + recycled. ([v_pool_split] needs [WF] only.) *)
Theorem used_equals_rows_WF : forall s, WF s -> pool_len (w_pool s) = total_rows s.
Proof. intros s HW. pose proof (v_pool_split s HW) as H. unfold pool_len, reserved. lia. Qed.

Theorem used_equals_rows2 : forall s, St2 s ->
  pool_len (w_pool s) = total_rows s /\ pool_len (w_pool s) = active_rows s.
Proof.
  intros s HS. split; [apply used_equals_rows_WF; apply HS|].
  rewrite (sp_active_rows_total s HS). apply used_equals_rows_WF. apply HS.
Qed.

Theorem total_is_used_plus_recycled_WF : forall s, WF s ->
  pool_cap (w_pool s) = pool_len (w_pool s) + pavail (w_pool s).
Proof. intros s HW. pose proof (v_pool_split s HW) as H. unfold pool_cap, pool_len, reserved. lia. Qed.

Theorem live_counted_once2 : forall s e, St2 s -> live s e = true -> count_in_world s e = 1.
Proof. intros s e HS. destruct (sp_St2_parts s HS) as (HW & HR). exact (sp_count_live r2_none s HW HR e). Qed.

Theorem dead_counted_zero2 : forall s e, St2 s -> live s e = false -> count_in_world s e = 0.
Proof. intros s e HS. exact (sp_count_dead s (proj1 HS) e). Qed.

Theorem counted_at_most_once2 : forall s e, St2 s -> count_in_world s e <= 1.
Proof.
  intros s e HS. destruct (live s e) eqn:Hl; [rewrite (live_counted_once2 s e HS Hl)|rewrite (dead_counted_zero2 s e HS Hl)]; lia.
Qed.

(** ** The live entities as a list: the rows of all tables

    [sp_live_rows s] lists exactly the live entities, each once; its length is the "used" figure. *)
Definition sp_rows_of (s : W) (tid : nat) : list ent :=
  match nth_error (w_tables s) tid with Some t => map (row_ent t) (seq 0 (t_len t)) | None => [] end.
Definition sp_live_rows (s : W) : list ent := flat_map (sp_rows_of s) (seq 0 (length (w_tables s))).

Lemma sp_map_flat_map : forall A B C (f : B -> C) (g : A -> list B) l,
  map f (flat_map g l) = flat_map (fun x => map f (g x)) l.
Proof. induction l as [|a l IH]; [reflexivity|]. cbn [flat_map]. rewrite map_app, IH. reflexivity. Qed.

Lemma sp_live_rows_ids : forall s, map fst (sp_live_rows s) = v_all_ids s.
Proof.
  intros s. unfold sp_live_rows, v_all_ids. rewrite sp_map_flat_map. apply flat_map_ext. intros tid.
  unfold sp_rows_of, v_ids_of. destruct (nth_error (w_tables s) tid) as [t|]; [|reflexivity]. apply map_map.
Qed.

Theorem sp_live_rows_NoDup : forall s, WF s -> NoDup (sp_live_rows s).
Proof. intros s HW. apply (NoDup_map_inv fst). rewrite sp_live_rows_ids. apply v_all_ids_NoDup. exact HW. Qed.

Theorem sp_live_rows_length : forall s, WF s -> length (sp_live_rows s) = pool_len (w_pool s).
Proof.
  intros s HW. pose proof (f_equal (@length nat) (sp_live_rows_ids s)) as E. rewrite map_length, v_all_ids_length in E.
  rewrite <- (used_equals_rows_WF s HW) in E. exact E.
Qed.

Theorem sp_live_rows_in : forall s e, WF s -> (In e (sp_live_rows s) <-> live s e = true).
Proof.
  intros s e HW. unfold sp_live_rows. rewrite in_flat_map. split.
  - intros (tid & _ & Hin). unfold sp_rows_of in Hin. destruct (nth_error (w_tables s) tid) as [t|] eqn:Ht; [|destruct Hin].
    apply in_map_iff in Hin. destruct Hin as (r & Er & Hr). apply in_seq in Hr.
    apply live_present. exists tid, r, t. destruct (wf_rows _ HW tid t r Ht) as (L & _); [lia|].
    rewrite Er in L. split; [exact L|]. split; [exact Ht|]. split; [lia|exact Er].
  - intros Hl. apply live_present in Hl. destruct Hl as (tid & r & t & _ & Ht & Hr & Er).
    exists tid. split; [apply in_seq; apply sa_nth_error_lt in Ht; lia|].
    unfold sp_rows_of. rewrite Ht. apply in_map_iff. exists r. split; [exact Er|apply in_seq; lia].
Qed.

(* ================================================================================================ *)
(** * Part 2: the statistics vector, component by component *)

(** The tables an id list refers to (as [stats_vec] looks them up). *)
Definition sp_tabs (s : W) (l : list nat) : list table :=
  flat_map (fun tid => match nth_error (w_tables s) tid with Some t => [t] | None => [] end) l.

Definition sp_header (s : W) : list Z :=
  [Zn (pool_len (w_pool s)); Zn (pool_cap (w_pool s)); Zn (pavail (w_pool s));
   Zb (is_locked s); Zn (length (w_centries s)); Zn (w_ototal s); Zn (length (w_archs s))].

(** Size, capacity and the per-table pairs of one archetype block. *)
Definition sp_arch_size (s : W) (a : arch) : nat := fold_left (fun acc t => acc + t_len t) (sp_tabs s (a_tables a)) 0.
Definition sp_arch_cap (s : W) (a : arch) : nat :=
  fold_left (fun acc t => acc + t_cap t) (sp_tabs s (a_tables a) ++ sp_tabs s (a_free a)) 0.
Definition sp_arch_pairs (s : W) (a : arch) : list Z :=
  flat_map (fun t => [Zn (t_len t); Zn (t_cap t)]) (sp_tabs s (a_tables a)).

Definition sp_arch_vec (s : W) (a : arch) : list Z :=
  [Zn (length (a_comps a)); Zn (a_numrel a); Zn (length (a_free a));
   Zn (sp_arch_size s a); Zn (sp_arch_cap s a); Zn (length (sp_tabs s (a_tables a)))] ++ sp_arch_pairs s a.

(** The vector is the header followed by one block per archetype, in archetype order. *)
Theorem stats_vec_shape : forall s, stats_vec s = sp_header s ++ flat_map (sp_arch_vec s) (w_archs s).
Proof. intros s. reflexivity. Qed.

Lemma sp_header_length : forall s, length (sp_header s) = 7.
Proof. intros s. reflexivity. Qed.

Lemma sp_arch_vec_length : forall s a, length (sp_arch_vec s a) = 6 + 2 * length (sp_tabs s (a_tables a)).
Proof.
  intros s a. unfold sp_arch_vec. rewrite app_length. cbn [length]. f_equal. unfold sp_arch_pairs.
  induction (sp_tabs s (a_tables a)) as [|t l IH]; [reflexivity|]. cbn [flat_map app length]. rewrite IH. lia.
Qed.

(** *** The looked-up tables of a list of existing table ids *)

Lemma sp_tabs_cons : forall s tid l, sp_tabs s (tid :: l) =
  (match nth_error (w_tables s) tid with Some t => [t] | None => [] end) ++ sp_tabs s l.
Proof. reflexivity. Qed.

Lemma sp_fold_tabs : forall s (f : table -> nat) l acc,
  fold_left (fun acc t => acc + f t) (sp_tabs s l) acc = acc + list_sum (map (v_at s f) l).
Proof.
  intros s f l. induction l as [|tid l IH]; intros acc; [cbn; lia|].
  rewrite sp_tabs_cons, fold_left_app, IH. cbn [map list_sum fold_right]. unfold v_at at 2.
  destruct (nth_error (w_tables s) tid) as [t|]; cbn [fold_left]; unfold list_sum; lia.
Qed.

Lemma sp_tabs_exist : forall s l, (forall tid, In tid l -> exists t, nth_error (w_tables s) tid = Some t) ->
  map Some (sp_tabs s l) = map (nth_error (w_tables s)) l.
Proof.
  intros s l. induction l as [|tid l IH]; intros H; [reflexivity|].
  rewrite sp_tabs_cons. destruct (H tid (or_introl eq_refl)) as (t & Ht). rewrite Ht. cbn [app map]. rewrite Ht.
  f_equal. apply IH. intros x Hx. apply H. right. exact Hx.
Qed.

Lemma sp_tabs_length : forall s l, (forall tid, In tid l -> exists t, nth_error (w_tables s) tid = Some t) ->
  length (sp_tabs s l) = length l.
Proof. intros s l H. rewrite <- (map_length Some), (sp_tabs_exist s l H), map_length. reflexivity. Qed.

Lemma sp_arch_size_sum : forall s a, sp_arch_size s a = list_sum (map (v_at s t_len) (a_tables a)).
Proof. intros s a. unfold sp_arch_size. rewrite sp_fold_tabs. reflexivity. Qed.

Lemma sp_arch_cap_sum : forall s a,
  sp_arch_cap s a = list_sum (map (v_at s t_cap) (a_tables a)) + list_sum (map (v_at s t_cap) (a_free a)).
Proof. intros s a. unfold sp_arch_cap. rewrite fold_left_app, !sp_fold_tabs. reflexivity. Qed.

(** The form of the block size used by [C19_archetype_sizes_sum_partial] is the same number. *)
Lemma sp_arch_size_C19 : forall s a,
  fold_left (fun acc tid => acc + match nth_error (w_tables s) tid with Some t => t_len t | None => 0 end) (a_tables a) 0
  = sp_arch_size s a.
Proof. intros s a. rewrite sp_arch_size_sum, v_fold_sum. reflexivity. Qed.

(** *** Archetype blocks of a well-formed world *)

Section sp_blocks.
Variables (s : W).
Hypothesis HW : WF s.

Lemma sp_tables_exist : forall aid a, nth_error (w_archs s) aid = Some a ->
  (forall tid, In tid (a_tables a) -> exists t, nth_error (w_tables s) tid = Some t) /\
  (forall tid, In tid (a_free a) -> exists t, nth_error (w_tables s) tid = Some t).
Proof.
  intros aid a Ha. split; intros tid Hin.
  - destruct (wf_arch_tables _ HW aid a tid Ha (or_introl Hin)) as (t & Ht & _). exists t. exact Ht.
  - destruct (wf_arch_tables _ HW aid a tid Ha (or_intror (or_introl Hin))) as (t & Ht & _). exists t. exact Ht.
Qed.

(** The number of active tables reported is the length of [a_tables]; the number of free tables
    reported is, by definition, the length of [a_free]; the reported tables are the listed ones. *)
Theorem stats_table_counts : forall aid a, nth_error (w_archs s) aid = Some a ->
  length (sp_tabs s (a_tables a)) = length (a_tables a) /\
  length (sp_tabs s (a_free a)) = length (a_free a) /\
  map Some (sp_tabs s (a_tables a)) = map (nth_error (w_tables s)) (a_tables a) /\
  map Some (sp_tabs s (a_free a)) = map (nth_error (w_tables s)) (a_free a).
Proof.
  intros aid a Ha. destruct (sp_tables_exist aid a Ha) as (H1 & H2).
  split; [apply sp_tabs_length; exact H1|]. split; [apply sp_tabs_length; exact H2|].
  split; [apply sp_tabs_exist; exact H1|apply sp_tabs_exist; exact H2].
Qed.

(** Sizes never exceed capacities: per reported table, and per block. *)
Lemma sp_tabs_ok : forall l t, In t (sp_tabs s l) -> t_len t <= t_cap t.
Proof.
  intros l t Hin. unfold sp_tabs in Hin. apply in_flat_map in Hin. destruct Hin as (tid & _ & Hin).
  destruct (nth_error (w_tables s) tid) as [t'|] eqn:Ht; [|destruct Hin]. destruct Hin as [<-|[]].
  destruct (v_tbl_ok s tid t' HW Ht) as ((Hle & _) & _). exact Hle.
Qed.

Theorem stats_size_le_cap2 : forall a, sp_arch_size s a <= sp_arch_cap s a.
Proof.
  intros a. unfold sp_arch_size, sp_arch_cap. rewrite fold_left_app, !v_fold_sum.
  assert (G : forall l, (forall t, In t l -> t_len t <= t_cap t) -> list_sum (map t_len l) <= list_sum (map t_cap l)).
  { induction l as [|t l IH]; intros H; [cbn; lia|]. cbn [map list_sum fold_right].
    pose proof (H t (or_introl eq_refl)). pose proof (IH (fun t' Hin => H t' (or_intror Hin))) as IH'. unfold list_sum in IH'. lia. }
  pose proof (G (sp_tabs s (a_tables a)) (sp_tabs_ok (a_tables a))). lia.
Qed.

Theorem stats_pairs_le : forall a t, In t (sp_tabs s (a_tables a)) -> t_len t <= t_cap t.
Proof. intros a. apply sp_tabs_ok. Qed.
End sp_blocks.

(** *** Sums over all blocks *)

Lemma sp_sum_flat : forall s (f : table -> nat) (g : arch -> list nat) l,
  list_sum (map (fun a => list_sum (map (v_at s f) (g a))) l) = list_sum (map (v_at s f) (flat_map g l)).
Proof. intros s f g l. apply v_list_sum_flat. Qed.

(** The block sizes sum to the used figure; the block capacities to the capacity of ALL tables. *)
Theorem stats_sizes_sum2 : forall s, St2 s ->
  list_sum (map (sp_arch_size s) (w_archs s)) = pool_len (w_pool s).
Proof.
  intros s HS. destruct (sp_St2_parts s HS) as (HW & HR).
  rewrite (map_ext _ (fun a => list_sum (map (v_at s t_len) (a_tables a)))) by (intros a; apply sp_arch_size_sum).
  rewrite sp_sum_flat. fold (v_listed s). rewrite (sp_listed_rows r2_none s HW HR). symmetry. apply used_equals_rows_WF. exact HW.
Qed.

Theorem stats_caps_sum2 : forall s, St2 s ->
  list_sum (map (sp_arch_cap s) (w_archs s)) = list_sum (map t_cap (w_tables s)).
Proof.
  intros s HS. destruct (sp_St2_parts s HS) as (HW & HR).
  rewrite (map_ext _ (fun a => list_sum (map (v_at s t_cap) (a_tables a)) + list_sum (map (v_at s t_cap) (a_free a))))
    by (intros a; apply sp_arch_cap_sum).
  assert (G : forall (f g : arch -> nat) l, list_sum (map (fun a => f a + g a) l) = list_sum (map f l) + list_sum (map g l)).
  { intros f g l. induction l as [|a l IH]; [reflexivity|]. cbn [map list_sum fold_right]. unfold list_sum in IH. lia. }
  rewrite G, !sp_sum_flat. fold (v_listed s). fold (sp_freed s). apply (sp_sum_split r2_none s HW HR).
Qed.

(** The statement of [C19_archetype_sizes_sum_partial], without its hypothesis, for relation worlds. *)
Theorem stats_sizes_sum2_C19 : forall s, St2 s ->
  fold_left (fun acc a => acc + fold_left (fun acc tid => acc + match nth_error (w_tables s) tid with Some t => t_len t | None => 0 end) (a_tables a) 0) (w_archs s) 0
  = total_rows s.
Proof.
  intros s HS. rewrite v_fold_sum. cbn [Nat.add].
  rewrite (map_ext _ (sp_arch_size s)) by (intros a; apply sp_arch_size_C19).
  rewrite (stats_sizes_sum2 s HS). apply used_equals_rows_WF. apply HS.
Qed.

(** *** The tables of one archetype *)

Definition sp_tab_arch (s : W) (aid tid : nat) : bool :=
  match nth_error (w_tables s) tid with Some t => Nat.eqb (t_arch t) aid | None => false end.
Definition sp_arch_tids (s : W) (aid : nat) : list nat :=
  filter (sp_tab_arch s aid) (seq 0 (length (w_tables s))).

Lemma sp_arch_tids_in : forall s aid tid, In tid (sp_arch_tids s aid) <->
  exists t, nth_error (w_tables s) tid = Some t /\ t_arch t = aid.
Proof.
  intros s aid tid. unfold sp_arch_tids, sp_tab_arch. rewrite filter_In, in_seq. split.
  - intros (_ & H). destruct (nth_error (w_tables s) tid) as [t|]; [|discriminate]. exists t. split; [reflexivity|].
    apply Nat.eqb_eq. exact H.
  - intros (t & Ht & Ea). split; [apply sa_nth_error_lt in Ht; lia|]. rewrite Ht. apply Nat.eqb_eq. exact Ea.
Qed.

(** The two lists of archetype [aid] together are exactly the tables carrying the number [aid]. *)
Theorem sp_arch_lists_perm : forall s aid a, St2 s -> nth_error (w_archs s) aid = Some a ->
  NoDup (a_tables a) /\ NoDup (a_free a) /\
  (forall tid, In tid (a_tables a) <-> exists t, nth_error (w_tables s) tid = Some t /\ t_arch t = aid /\ t_free t = false) /\
  (forall tid, In tid (a_free a) <-> exists t, nth_error (w_tables s) tid = Some t /\ t_arch t = aid /\ t_free t = true) /\
  Permutation (a_tables a ++ a_free a) (sp_arch_tids s aid).
Proof.
  intros s aid a HS Ha. destruct (sp_St2_parts s HS) as (HW & HR). destruct (ri_nodup _ _ HR aid a Ha) as (N1 & N2).
  assert (I1 : forall tid, In tid (a_tables a) <-> exists t, nth_error (w_tables s) tid = Some t /\ t_arch t = aid /\ t_free t = false).
  { intros tid. split; [apply (sp_active_table r2_none s HW HR aid a tid Ha)|].
    intros (t & Ht & Ea & Hf). destruct (sp_table_place s tid t HS Ht) as (a' & Ha' & Hp & _).
    rewrite Ea, Ha in Ha'. injection Ha' as <-. rewrite Hf in Hp. apply Hp. }
  assert (I2 : forall tid, In tid (a_free a) <-> exists t, nth_error (w_tables s) tid = Some t /\ t_arch t = aid /\ t_free t = true).
  { intros tid. split.
    - intros Hin. destruct (sp_free_table r2_none s HW HR aid a tid Ha Hin) as (t & Ht & Ea & Hf & _). exists t. auto.
    - intros (t & Ht & Ea & Hf). destruct (sp_table_place s tid t HS Ht) as (a' & Ha' & Hp & _).
      rewrite Ea, Ha in Ha'. injection Ha' as <-. rewrite Hf in Hp. apply Hp. }
  split; [exact N1|]. split; [exact N2|]. split; [exact I1|]. split; [exact I2|].
  apply NoDup_Permutation.
  - apply v_NoDup_app; [exact N1|exact N2|]. intros tid H1 H2. apply I1 in H1. apply I2 in H2.
    destruct H1 as (t & Ht & _ & Hf). destruct H2 as (t' & Ht' & _ & Hf'). rewrite Ht in Ht'. injection Ht' as <-. congruence.
  - apply NoDup_filter, seq_NoDup.
  - intros tid. rewrite in_app_iff, sp_arch_tids_in, I1, I2. split.
    + intros [(t & Ht & Ea & _)|(t & Ht & Ea & _)]; exists t; auto.
    + intros (t & Ht & Ea). destruct (t_free t) eqn:Hf; [right|left]; exists t; auto.
Qed.

(** Size and capacity of a block are those of ALL tables of the archetype (free tables are empty). *)
Theorem stats_block_size_cap : forall s aid a, St2 s -> nth_error (w_archs s) aid = Some a ->
  sp_arch_size s a = list_sum (map (v_at s t_len) (sp_arch_tids s aid)) /\
  sp_arch_cap s a = list_sum (map (v_at s t_cap) (sp_arch_tids s aid)).
Proof.
  intros s aid a HS Ha. destruct (sp_arch_lists_perm s aid a HS Ha) as (_ & _ & _ & I2 & P).
  rewrite sp_arch_size_sum, sp_arch_cap_sum. split.
  - rewrite <- (v_list_sum_perm _ _ (Permutation_map (v_at s t_len) P)), map_app, list_sum_app.
    rewrite (v_list_sum_zero _ (v_at s t_len) (a_free a)); [lia|].
    intros tid Hin. apply I2 in Hin. destruct Hin as (t & Ht & _ & Hf). unfold v_at. rewrite Ht.
    exact (sp_free_empty s tid t HS Ht Hf).
  - rewrite <- (v_list_sum_perm _ _ (Permutation_map (v_at s t_cap) P)), map_app, list_sum_app. reflexivity.
Qed.

(** no two archetypes have the same component list ([C19_archetypes_distinct]) *)
Lemma stats_archetypes_distinct_pre : forall s i j a b, WF s ->
  nth_error (w_archs s) i = Some a -> nth_error (w_archs s) j = Some b -> a_comps a = a_comps b -> i = j.
Proof.
  intros s i j a b HW Ha Hb Hc. apply (wf_arch_unique _ HW i j a b Ha Hb).
  destruct (wf_arch_comps _ HW i a Ha) as (Ca & Ba & _). destruct (wf_arch_comps _ HW j b Hb) as (Cb & Bb & _).
  apply mk_eq_ext. intros k.
  destruct (mk_get (a_mask a) k) eqn:Ea, (mk_get (a_mask b) k) eqn:Eb; try reflexivity; exfalso.
  - assert (Hin : In k (a_comps a)) by (rewrite Ca; apply mk_to_list_spec; split; [apply Ba; exact Ea | exact Ea]).
    rewrite Hc, Cb in Hin. apply mk_to_list_spec in Hin. destruct Hin as [_ Hin]. congruence.
  - assert (Hin : In k (a_comps b)) by (rewrite Cb; apply mk_to_list_spec; split; [apply Bb; exact Eb | exact Eb]).
    rewrite <- Hc, Ca in Hin. apply mk_to_list_spec in Hin. destruct Hin as [_ Hin]. congruence.
Qed.

(** The size of a block is the number of live entities of the archetype: those whose component list is
    the archetype's component list (no reference to tables). *)
Definition sp_in_arch (s : W) (aid : nat) (e : ent) : bool :=
  match loc s e with Some (tid, _) => sp_tab_arch s aid tid | None => false end.

Lemma sp_filter_flat_map : forall A B (p : B -> bool) (g : A -> list B) l,
  filter p (flat_map g l) = flat_map (fun x => filter p (g x)) l.
Proof.
  intros A B p g l. induction l as [|a l IH]; [reflexivity|]. cbn [flat_map]. rewrite filter_app, IH. reflexivity.
Qed.

Lemma sp_sum_filter : forall (p : nat -> bool) (f : nat -> nat) l,
  list_sum (map (fun x => if p x then f x else 0) l) = list_sum (map f (filter p l)).
Proof.
  intros p f l. induction l as [|x l IH]; [reflexivity|]. cbn [map filter list_sum fold_right].
  unfold list_sum in IH. destruct (p x); cbn [map list_sum fold_right]; rewrite IH; reflexivity.
Qed.

Lemma sp_filter_const : forall A (p : A -> bool) (b : bool) l, (forall x, In x l -> p x = b) ->
  length (filter p l) = if b then length l else 0.
Proof.
  intros A p b l. induction l as [|x l IH]; intros H; [destruct b; reflexivity|]. cbn [filter].
  rewrite (H x (or_introl eq_refl)). pose proof (IH (fun y Hy => H y (or_intror Hy))) as IH'.
  destruct b; cbn [length]; rewrite IH'; reflexivity.
Qed.

Theorem stats_block_size_live : forall s aid a, St2 s -> nth_error (w_archs s) aid = Some a ->
  sp_arch_size s a = length (filter (sp_in_arch s aid) (sp_live_rows s)) /\
  forall e, live s e = true -> (sp_in_arch s aid e = true <-> comps_of s e = Some (a_comps a)).
Proof.
  intros s aid a HS Ha. pose proof (proj1 HS) as HW. split.
  - rewrite (proj1 (stats_block_size_cap s aid a HS Ha)). unfold sp_live_rows, sp_arch_tids.
    rewrite sp_filter_flat_map, v_length_flat_map, <- sp_sum_filter. f_equal. apply map_ext. intros tid.
    unfold sp_rows_of, v_at. destruct (nth_error (w_tables s) tid) as [t|] eqn:Ht.
    2:{ unfold sp_tab_arch. rewrite Ht. reflexivity. }
    rewrite (sp_filter_const _ (sp_in_arch s aid) (sp_tab_arch s aid tid)).
    + rewrite map_length, seq_length. reflexivity.
    + intros e Hin. apply in_map_iff in Hin. destruct Hin as (r & Er & Hr). apply in_seq in Hr.
      destruct (wf_rows _ HW tid t r Ht) as (L & _); [lia|]. unfold sp_in_arch. rewrite <- Er, L. reflexivity.
  - intros e Hl. apply live_present in Hl. destruct Hl as (tid & r & t & L & Ht & _).
    unfold sp_in_arch, comps_of, sp_tab_arch. rewrite L, Ht. cbn [option_map].
    destruct (wf_layout _ HW tid t Ht) as (b & Hb & Eids & _). rewrite Eids. split.
    + intros E. apply Nat.eqb_eq in E. rewrite E, Ha in Hb. injection Hb as <-. reflexivity.
    + intros E. injection E as E. apply Nat.eqb_eq. symmetry. exact (stats_archetypes_distinct_pre s aid (t_arch t) a b HW Ha Hb (eq_sym E)).
Qed.

(** *** What the seven figures of the header are *)

(** used = the number of live entities ([sp_live_rows_*]); total = used + recycled; recycled = the
    number of ids from 2 on that carry no live entity (the pool's free list). *)
Theorem stats_recycled_meaning : forall s, WF s ->
  exists fl, length fl = pavail (w_pool s) /\ NoDup fl /\
    forall i, In i fl <-> (2 <= i < length (pe (w_pool s)) /\ forall g, live s (i, g) = false).
Proof.
  intros s HW. destruct (wf_pool _ HW) as (fl & (P1 & P2 & P3 & P4 & _) & F1 & F2).
  exists fl. split; [exact P2|]. split; [exact P3|]. intros i. split.
  - intros Hin. split; [apply P4; exact Hin|]. intros g. destruct (F1 i Hin) as (r & Hi).
    unfold live, loc. cbn [fst]. rewrite Hi. reflexivity.
  - intros (Hr & Hdead). destruct (in_dec Nat.eq_dec i fl) as [Hin|Hout]; [exact Hin|exfalso].
    destruct (F2 i Hr Hout) as (tid & r & Hi). destruct (wf_index _ HW i tid r Hi) as (t & Ht & Hlt & Ef).
    assert (Hl : live s (row_ent t r) = true).
    { apply live_present. exists tid, r, t. destruct (wf_rows _ HW tid t r Ht Hlt) as (L & _). auto. }
    destruct (row_ent t r) as [i' g] eqn:Er. cbn [fst] in Ef. subst i'. rewrite (Hdead g) in Hl. discriminate.
Qed.

(** registered filters = the cache entries: distinct heap addresses, each holding an entry whose filter
    object exists. *)
Theorem stats_filters_meaning : forall s, St2 s ->
  NoDup (w_centries s) /\
  forall addr, In addr (w_centries s) ->
    exists e f, nth_error (w_cheap s) addr = Some e /\ nth_error (w_filters s) (ce_filter e) = Some f.
Proof.
  intros s (HW & _ & HC). split; [exact (ci_nodup _ _ HC)|].
  intros addr Hin. destruct (wf_cache _ HW addr Hin) as (e & He & Hlt).
  destruct (nth_error (w_filters s) (ce_filter e)) as [f|] eqn:Hf; [exists e, f; auto|].
  apply nth_error_None in Hf. lia.
Qed.

(** number of archetypes: no two archetypes have the same mask or the same component list. *)
Theorem stats_archetypes_distinct : forall s i j a b, WF s ->
  nth_error (w_archs s) i = Some a -> nth_error (w_archs s) j = Some b -> a_comps a = a_comps b -> i = j.
Proof. exact stats_archetypes_distinct_pre. Qed.

(** All seven together (the observer figure is treated in Part 3, the lock figure over histories in Part 5). *)
Theorem sp_header_meaning : forall s, St2 s ->
  sp_header s = [Zn (length (sp_live_rows s)); Zn (length (sp_live_rows s) + pavail (w_pool s)); Zn (pavail (w_pool s));
                 Zb (is_locked s); Zn (length (w_centries s)); Zn (w_ototal s); Zn (length (w_archs s))] /\
  NoDup (sp_live_rows s) /\ (forall e, In e (sp_live_rows s) <-> live s e = true) /\
  (exists fl, length fl = pavail (w_pool s) /\ NoDup fl /\
     forall i, In i fl <-> (2 <= i < length (pe (w_pool s)) /\ forall g, live s (i, g) = false)) /\
  NoDup (w_centries s) /\
  (forall addr, In addr (w_centries s) ->
     exists e f, nth_error (w_cheap s) addr = Some e /\ nth_error (w_filters s) (ce_filter e) = Some f) /\
  (forall i j a b, nth_error (w_archs s) i = Some a -> nth_error (w_archs s) j = Some b -> a_comps a = a_comps b -> i = j).
Proof.
  intros s HS. pose proof (proj1 HS) as HW.
  split.
  { unfold sp_header. rewrite (total_is_used_plus_recycled_WF s HW), (sp_live_rows_length s HW). reflexivity. }
  split; [apply sp_live_rows_NoDup; exact HW|]. split; [intros e; apply sp_live_rows_in; exact HW|].
  split; [apply stats_recycled_meaning; exact HW|].
  destruct (stats_filters_meaning s HS) as (F1 & F2). split; [exact F1|]. split; [exact F2|].
  intros i j a b. apply stats_archetypes_distinct. exact HW.
Qed.

(** One archetype block: components, relation components, free tables, size, capacity, active tables,
    then (size, capacity) per active table, in the order of [a_tables]. *)
Theorem sp_arch_block_meaning : forall s aid a, St2 s -> nth_error (w_archs s) aid = Some a ->
  sp_arch_vec s a =
    [Zn (length (a_comps a)); Zn (a_numrel a); Zn (length (a_free a));
     Zn (list_sum (map (v_at s t_len) (sp_arch_tids s aid))); Zn (list_sum (map (v_at s t_cap) (sp_arch_tids s aid)));
     Zn (length (a_tables a))] ++
    flat_map (fun tid => [Zn (v_at s t_len tid); Zn (v_at s t_cap tid)]) (a_tables a) /\
  a_comps a = mk_to_list (a_mask a) (length (w_reg s)) /\
  a_numrel a = length (filter (fun c => ck_rel (kind_of s c)) (a_comps a)) /\
  Permutation (a_tables a ++ a_free a) (sp_arch_tids s aid) /\
  (forall tid, In tid (a_tables a) -> v_at s t_len tid <= v_at s t_cap tid) /\
  list_sum (map (v_at s t_len) (sp_arch_tids s aid)) <= list_sum (map (v_at s t_cap) (sp_arch_tids s aid)).
Proof.
  intros s aid a HS Ha. pose proof (proj1 HS) as HW.
  destruct (stats_block_size_cap s aid a HS Ha) as (E1 & E2).
  destruct (stats_table_counts s HW aid a Ha) as (L1 & _ & M1 & _).
  destruct (sp_arch_lists_perm s aid a HS Ha) as (_ & _ & _ & _ & P).
  destruct (wf_arch_comps _ HW aid a Ha) as (C1 & _ & C3 & C4 & _).
  split.
  { unfold sp_arch_vec. rewrite E1, E2, L1. f_equal. unfold sp_arch_pairs.
    destruct (sp_tables_exist s HW aid a Ha) as (Hex & _). clear -Hex.
    induction (a_tables a) as [|tid l IH]; [reflexivity|].
    rewrite sp_tabs_cons. destruct (Hex tid (or_introl eq_refl)) as (t & Ht). rewrite Ht. cbn [app flat_map].
    unfold v_at at 1 2. rewrite Ht. f_equal. f_equal. apply IH. intros x Hx. apply Hex. right. exact Hx. }
  split; [exact C1|]. split.
  { rewrite C4, C3. clear. induction (a_comps a) as [|c l IH]; [reflexivity|]. cbn [map filter].
    destruct (ck_rel (kind_of s c)); cbn [length]; rewrite IH; reflexivity. }
  split; [exact P|]. split.
  - intros tid Hin. destruct (sp_tables_exist s HW aid a Ha) as (Hex & _). destruct (Hex tid Hin) as (t & Ht).
    unfold v_at. rewrite Ht. destruct (v_tbl_ok s tid t HW Ht) as ((Hle & _) & _). exact Hle.
  - rewrite <- E1, <- E2. apply stats_size_le_cap2. exact HW.
Qed.

(* ================================================================================================ *)
(** * Part 3: the observer figure *)

(** The observer objects that carry an id (set by a registration, cleared by Unregister / Reset). *)
Definition sp_has_id (s : W) (oi : nat) : bool :=
  match nth_error (w_obs s) oi with
  | Some o => match o_id o with Some _ => true | None => false end
  | None => false
  end.
Definition sp_registered (s : W) : list nat := filter (sp_has_id s) (seq 0 (length (w_obs s))).

Lemma sp_registered_in : forall s oi, In oi (sp_registered s) <->
  exists o, nth_error (w_obs s) oi = Some o /\ o_id o <> None.
Proof.
  intros s oi. unfold sp_registered, sp_has_id. rewrite filter_In, in_seq. split.
  - intros (_ & H). destruct (nth_error (w_obs s) oi) as [o|]; [|discriminate]. exists o. split; [reflexivity|].
    destruct (o_id o); [discriminate|discriminate H].
  - intros (o & Ho & Hid). split; [apply sa_nth_error_lt in Ho; lia|]. rewrite Ho. destruct (o_id o); [reflexivity|congruence].
Qed.

Lemma sp_lsum_flat : forall m, ObsProofs.lsum m = length (flat_map snd m).
Proof.
  induction m as [|[k l] m IH]; [reflexivity|]. cbn [ObsProofs.lsum fold_right flat_map snd]. rewrite app_length.
  unfold ObsProofs.lsum in IH. rewrite IH. reflexivity.
Qed.

Lemma sp_olist_entry : forall s k l, ObsProofs.MInv0 s -> In (k, l) (w_olists s) -> olist s k = l.
Proof.
  intros s k l HM Hin. unfold olist. rewrite (ObsProofs.afind_in (w_olists s) k l (ObsProofs.mi_keys _ HM) Hin). reflexivity.
Qed.

(** Under the manager invariant of ObsProofs the event lists together hold exactly the observer objects
    carrying an id, each once; so the figure [w_ototal] is their number. *)
Theorem stats_observers_lists : forall s, ObsProofs.MInv0 s ->
  Permutation (flat_map snd (w_olists s)) (sp_registered s).
Proof.
  intros s HM. apply NoDup_Permutation.
  - apply v_NoDup_flat_map.
    + apply (NoDup_map_inv fst). exact (ObsProofs.mi_keys _ HM).
    + intros [k l] Hin. cbn [snd]. rewrite <- (sp_olist_entry s k l HM Hin). apply (ObsProofs.mi_nd _ HM).
    + intros [k1 l1] [k2 l2] oi H1 H2 I1 I2. cbn [snd] in I1, I2.
      rewrite <- (sp_olist_entry s k1 l1 HM H1) in I1. rewrite <- (sp_olist_entry s k2 l2 HM H2) in I2.
      destruct (ObsProofs.mi_lst _ HM k1 oi I1) as (o1 & O1 & E1 & _).
      destruct (ObsProofs.mi_lst _ HM k2 oi I2) as (o2 & O2 & E2 & _).
      rewrite O1 in O2. injection O2 as <-. assert (Ek : k2 = k1) by congruence. clear E2. revert H2 I2. rewrite Ek. intros H2 I2.
      rewrite <- (sp_olist_entry s k1 l1 HM H1), <- (sp_olist_entry s k1 l2 HM H2). reflexivity.
  - apply NoDup_filter, seq_NoDup.
  - intros oi. rewrite in_flat_map, sp_registered_in. split.
    + intros ([k l] & Hin & Hoi). cbn [snd] in Hoi. rewrite <- (sp_olist_entry s k l HM Hin) in Hoi.
      destruct (ObsProofs.mi_lst _ HM k oi Hoi) as (o & Ho & _ & Hid & _). exists o. split; [exact Ho|exact Hid].
    + intros (o & Ho & Hid). pose proof (ObsProofs.mi_idl _ HM oi o Ho Hid) as Hin. unfold olist in Hin.
      destruct (afind (o_event o) (w_olists s)) as [l|] eqn:Ef; [|destruct Hin].
      exists (o_event o, l). split; [apply r2_afind_in; exact Ef|exact Hin].
Qed.

Theorem stats_observers_registered : forall s, ObsProofs.MInv s -> w_ototal s = length (sp_registered s).
Proof.
  intros s (HM & HT). rewrite HT, sp_lsum_flat. apply Permutation_length. apply stats_observers_lists. exact HM.
Qed.

(** ... hence after every history of the observer manager (register / unregister / reset, any order,
    any arguments) that starts without registered observers. *)
Theorem stats_observers_after_every_obs_history : forall s0 ops, ObsSpec.obs_init s0 ->
  let s := fold_left ObsSpec.ostep ops s0 in
  w_ototal s = length (sp_registered s) /\ Permutation (flat_map snd (w_olists s)) (sp_registered s).
Proof.
  intros s0 ops Hi s. assert (HM : ObsProofs.MInv s) by (apply ObsProofs.reach_inv, ObsProofs.init_inv; exact Hi).
  split; [apply stats_observers_registered; exact HM|apply stats_observers_lists; apply HM].
Qed.

(** Non-vacuity: an observer object for OnAddComponents of component 0 (created by the script line
    OObsNew), registered by the manager: the hypothesis [obs_init] holds, the figure is 1. *)
Example stats_observers_example :
  let s0 := Properties.Common.exec Properties.Common.small_cfg [[25; 251; 1;0; 0; 0; 0; 0]]%Z in
  ObsSpec.obs_init s0 /\
  let s := fold_left ObsSpec.ostep [ObsSpec.ORegister 0] s0 in
  w_ototal s = 1 /\ sp_registered s = [0] /\ w_ototal s = length (sp_registered s).
Proof.
  cbv zeta. split.
  - unfold ObsSpec.obs_init. split; [vm_compute; reflexivity|]. split; [vm_compute; reflexivity|].
    split; [vm_compute; reflexivity|]. split; [vm_compute; reflexivity|]. split; [vm_compute; reflexivity|].
    intros o Hin.
    assert (E : w_obs (Properties.Common.exec Properties.Common.small_cfg [[25; 251; 1;0; 0; 0; 0; 0]]%Z) =
                [{| o_event := 251; o_for := [0]; o_withl := []; o_withoutl := []; o_excl := false;
                    o_comps := 0%N; o_with := 0%N; o_without := 0%N; o_hascomps := false; o_haswith := false;
                    o_haswithout := false; o_id := None; o_cb := 0 |}]) by (vm_compute; reflexivity).
    rewrite E in Hin. destruct Hin as [<-|[]]. cbn [o_id o_comps o_with o_without o_event o_for o_withl o_withoutl app].
    split; [reflexivity|]. split; [reflexivity|]. split; [reflexivity|]. split; [reflexivity|]. split; [lia|]. split.
    + intros c0 [<-|[]]. vm_compute. lia.
    + intros Hr. vm_compute in Hr. discriminate Hr.
  - split; [vm_compute; reflexivity|]. split; [vm_compute; reflexivity|].
    apply (stats_observers_after_every_obs_history _ [ObsSpec.ORegister 0]).
    (* the same initial state satisfies [obs_init] (first part) *)
    unfold ObsSpec.obs_init. split; [vm_compute; reflexivity|]. split; [vm_compute; reflexivity|].
    split; [vm_compute; reflexivity|]. split; [vm_compute; reflexivity|]. split; [vm_compute; reflexivity|].
    intros o Hin.
    assert (E : w_obs (Properties.Common.exec Properties.Common.small_cfg [[25; 251; 1;0; 0; 0; 0; 0]]%Z) =
                [{| o_event := 251; o_for := [0]; o_withl := []; o_withoutl := []; o_excl := false;
                    o_comps := 0%N; o_with := 0%N; o_without := 0%N; o_hascomps := false; o_haswith := false;
                    o_haswithout := false; o_id := None; o_cb := 0 |}]) by (vm_compute; reflexivity).
    rewrite E in Hin. destruct Hin as [<-|[]]. cbn [o_id o_comps o_with o_without o_event o_for o_withl o_withoutl app].
    split; [reflexivity|]. split; [reflexivity|]. split; [reflexivity|]. split; [reflexivity|]. split; [lia|]. split.
    + intros c0 [<-|[]]. vm_compute. lia.
    + intros Hr. vm_compute in Hr. discriminate Hr.
Qed.

(** REFUTED for raw model histories with arbitrary observer objects ([obs_init] demands that the For-list of
    an observer of a relation event names relation components, clause [mi_rel] of [MInv0]; the model's OObsNew
    accepts any object): Register assigns the id BEFORE it checks the For-list, so a registration rejected with
    ENotRelation leaves an object that carries an id but is in no list and is not counted. The missing
    hypothesis is exactly [mi_rel]; the figure still equals the total length of the event lists (0 here). *)
Example stats_observers_registered_refuted :
  let s := Properties.Common.exec Properties.Common.small_cfg [[25; 254; 1;0; 0; 0; 0; 0]; [26; 0]]%Z in
  w_ototal s = 0 /\ sp_registered s = [0] /\ w_olists s = [] /\
  hd 9%Z (snd (step false false (Properties.Common.exec Properties.Common.small_cfg [[25; 254; 1;0; 0; 0; 0; 0]]%Z) [26; 0]%Z)) = 1%Z.
Proof. vm_compute. repeat split; reflexivity. Qed.

Theorem stats_observers_registered_needs_MInv :
  ~ (forall c lines, w_ototal (Properties.Common.exec c lines) = length (sp_registered (Properties.Common.exec c lines))).
Proof.
  intros H. specialize (H Properties.Common.small_cfg [[25; 254; 1;0; 0; 0; 0; 0]; [26; 0]]%Z).
  destruct stats_observers_registered_refuted as (E1 & E2 & _). cbv zeta in E1, E2. rewrite E1, E2 in H. discriminate H.
Qed.

(* ================================================================================================ *)
(** * Part 4: OStats and Shrink *)

(** ** OStats is total and read-only, on EVERY state (locked or not, well-formed or not) *)

Theorem stats_total_readonly : forall debug s, step_op debug OStats s = Ok (stats_vec s) s.
Proof. intros debug s. reflexivity. Qed.

Lemma sp_decode_stats : decode_op [38%Z] = Some OStats.
Proof. reflexivity. Qed.

(** At the level of [step]: the line [38] succeeds, returns the vector of the state it is given, issues no
    handle and leaves the state as it is (the callback log, which is empty between steps, is cleared). *)
Theorem stats_step : forall debug wd s,
  fst (step debug wd s [38%Z]) = s <| w_log := [] |> /\
  stats_vec (fst (step debug wd s [38%Z])) = stats_vec s /\
  exists rest, snd (step debug wd s [38%Z]) = 0%Z :: Zn (length (stats_vec s)) :: stats_vec s ++ rest.
Proof.
  intros debug wd s. split; [reflexivity|]. split; [reflexivity|].
  eexists. unfold step. rewrite sp_decode_stats. cbn [step_op snd]. unfold bind, get, ret. cbv iota beta.
  cbn [app]. reflexivity.
Qed.

(** ** The frame of Shrink: archetype signatures, cache entry list, configuration, table capacities *)

Definition sp_sig (a : arch) : mask * list nat * list bool * nat := (a_mask a, a_comps a, a_isrel a, a_numrel a).

Definition sp_fa (s s' : W) : Prop :=
  w_centries s' = w_centries s /\ w_cfg s' = w_cfg s /\ map sp_sig (w_archs s') = map sp_sig (w_archs s).

Lemma sp_fa_refl : forall s, sp_fa s s.
Proof. intros s. repeat split. Qed.
Lemma sp_fa_trans : forall s1 s2 s3, sp_fa s1 s2 -> sp_fa s2 s3 -> sp_fa s1 s3.
Proof. intros s1 s2 s3 (A1 & A2 & A3) (B1 & B2 & B3). repeat split; congruence. Qed.

Definition sp_fap {A} (m : MW A) : Prop := r2e_pres sp_fa m.

Lemma sp_fap_bind : forall A B (m : MW A) (k : A -> MW B), sp_fap m -> (forall a, sp_fap (k a)) -> sp_fap (bind m k).
Proof. intros A B m k. apply (r2e_pres_bind sp_fa sp_fa_trans). Qed.
Lemma sp_fap_forM : forall A (l : list A) (f : A -> MW unit), (forall a, sp_fap (f a)) -> sp_fap (forM_ l f).
Proof. intros A l f. apply (r2e_pres_forM sp_fa sp_fa_refl sp_fa_trans). Qed.
Lemma sp_fap_ro : forall A (m : MW A), readonly m -> sp_fap m.
Proof. intros A m H. apply (r2e_pres_ro sp_fa sp_fa_refl). exact H. Qed.

Lemma sp_fap_modT : forall i f, sp_fap (modT i f).
Proof. intros i f s. unfold modT, modify. cbn [state_of]. repeat split. Qed.

Lemma sp_fap_modA : forall i f, (forall a, sp_sig (f a) = sp_sig a) -> sp_fap (modA i f).
Proof.
  intros i f Hf s. unfold modA, modify. cbn [state_of]. split; [reflexivity|]. split; [reflexivity|].
  change (w_archs (s <| w_archs ::= updf i f |>)) with (updf i f (w_archs s)). apply StorageD.sd_map_updf. exact Hf.
Qed.

Lemma sp_fap_cache_remove_table : forall tid, sp_fap (cache_remove_table tid).
Proof.
  intros tid. unfold cache_remove_table. apply (r2e_pres_getbind sp_fa). intros s.
  assert (X : sp_fap (forM_ (w_centries s) (fun addr =>
    modify (fun s0 => s0 <| w_cheap ::= updf addr (fun e => e <| ce_tables ::= tids_remove tid |>) |>)))).
  { apply sp_fap_forM. intros addr s0. unfold modify. cbn [state_of]. repeat split. }
  apply X.
Qed.

Lemma sp_sig_free_table : forall a tid, sp_sig (arch_free_table a tid) = sp_sig a.
Proof. intros a tid. unfold arch_free_table. destruct (Nat.leb (a_numrel a) 1); reflexivity. Qed.

Lemma sp_sig_rftc : forall tid kinds targets i a, sp_sig (remove_from_targets_cols tid i kinds targets a) = sp_sig a.
Proof.
  intros tid kinds targets i a. destruct (r2d_rftc_fields tid kinds targets i a) as (E1 & E2 & E3 & _ & _ & E6 & _).
  unfold sp_sig. rewrite E1, E2, E3, E6. reflexivity.
Qed.

Lemma sp_fap_free_step : forall aid idx kinds targets,
  sp_fap (free_table aid idx ;;; modA aid (fun a => remove_from_targets_cols idx 0 kinds targets a) ;;; cache_remove_table idx ;;; ret tt).
Proof.
  intros aid idx kinds targets. unfold free_table.
  apply sp_fap_bind; [|intros _].
  { apply sp_fap_bind; [apply sp_fap_modA; intros a; apply sp_sig_free_table|intros _; apply sp_fap_modT]. }
  apply sp_fap_bind; [apply sp_fap_modA; intros a; apply sp_sig_rftc|intros _].
  apply sp_fap_bind; [apply sp_fap_cache_remove_table|intros _]. apply sp_fap_ro, readonly_ret.
Qed.

(** What one table may change under Shrink: length and relation label stay; the capacity stays, or drops
    to the shrink target (the power of two above the length, at least the configured initial capacity
    of its kind of table). *)
Definition sp_mincap (c : config) (t : table) : nat := if tbl_has_rels t then cf_caprel c else cf_cap c.

Definition sp_tcap (c : config) (t t' : table) : Prop :=
  t_len t' = t_len t /\ tbl_has_rels t' = tbl_has_rels t /\
  (t_cap t' = t_cap t \/ (t_cap t' = tbl_shrink_target t (sp_mincap c t) /\ t_cap t' < t_cap t)).

Lemma sp_tcap_refl : forall c t, sp_tcap c t t.
Proof. intros c t. split; [reflexivity|]. split; [reflexivity|]. left. reflexivity. Qed.

Lemma sp_target_same : forall c t t', t_len t' = t_len t -> tbl_has_rels t' = tbl_has_rels t ->
  tbl_shrink_target t' (sp_mincap c t') = tbl_shrink_target t (sp_mincap c t).
Proof. intros c t t' E1 E2. unfold tbl_shrink_target, sp_mincap. rewrite E1, E2. reflexivity. Qed.

Lemma sp_tcap_trans : forall c t1 t2 t3, sp_tcap c t1 t2 -> sp_tcap c t2 t3 -> sp_tcap c t1 t3.
Proof.
  intros c t1 t2 t3 (A1 & A2 & A3) (B1 & B2 & B3). split; [congruence|]. split; [congruence|].
  rewrite (sp_target_same c t1 t2 A1 A2) in B3.
  destruct A3 as [A3|(A3 & A4)], B3 as [B3|(B3 & B4)]; [left; congruence|right; split; [exact B3|lia]|right; split; [congruence|lia]|lia].
Qed.

Definition sp_shk (s s' : W) : Prop :=
  sp_fa s s' /\ length (w_tables s') = length (w_tables s) /\
  forall j t, nth_error (w_tables s) j = Some t -> exists t', nth_error (w_tables s') j = Some t' /\ sp_tcap (w_cfg s) t t'.

Lemma sp_shk_refl : forall s, sp_shk s s.
Proof. intros s. split; [apply sp_fa_refl|]. split; [reflexivity|]. intros j t Ht. exists t. split; [exact Ht|apply sp_tcap_refl]. Qed.

Lemma sp_shk_trans : forall s1 s2 s3, sp_shk s1 s2 -> sp_shk s2 s3 -> sp_shk s1 s3.
Proof.
  intros s1 s2 s3 (A1 & A2 & A3) (B1 & B2 & B3). split; [apply (sp_fa_trans _ _ _ A1 B1)|]. split; [congruence|].
  intros j t Ht. destruct (A3 j t Ht) as (t2 & Ht2 & C2). destruct (B3 j t2 Ht2) as (t3 & Ht3 & C3).
  exists t3. split; [exact Ht3|]. destruct A1 as (_ & Ec & _). rewrite Ec in C3. apply (sp_tcap_trans _ _ _ _ C2 C3).
Qed.

Lemma sp_tcap_step : forall cfg c t, sp_mincap cfg t = c -> sp_tcap cfg t (r_step c t).
Proof.
  intros cfg c t Ec. unfold r_step. destruct (tbl_can_shrink t c) eqn:E; [|apply sp_tcap_refl].
  destruct (tbl_adjust_len t (tbl_shrink_target t c)) as (L & C). split; [exact L|]. split; [reflexivity|].
  right. rewrite Ec, C. split; [reflexivity|]. unfold tbl_can_shrink in E. apply Nat.ltb_lt in E. exact E.
Qed.

(** replacing one table *)
Lemma sp_shk_upd : forall (s : W) idx t t1, nth_error (w_tables s) idx = Some t -> sp_tcap (w_cfg s) t t1 ->
  sp_shk s (s <| w_tables := upd idx t1 (w_tables s) |>).
Proof.
  intros s idx t t1 Ht Hc. split; [repeat split|]. split; [cbn; apply upd_length|].
  intros j tj Hj. change (w_tables (s <| w_tables := upd idx t1 (w_tables s) |>)) with (upd idx t1 (w_tables s)).
  destruct (Nat.eq_dec j idx) as [->|Hne].
  - rewrite (r2_upd_same _ _ _ _ _ Ht). rewrite Ht in Hj. injection Hj as <-. exists t1. split; [reflexivity|exact Hc].
  - rewrite (r2_upd_other _ _ _ _ _ Hne). exists tj. split; [exact Hj|apply sp_tcap_refl].
Qed.

(** The work on one table (after [r2d_any1_spec], with the frame). *)
Lemma sp_any1_shk : forall idx any t s, St2 s -> nth_error (w_tables s) idx = Some t ->
  exists b s', r_any1 idx any t s s = Ok b s' /\ St2 s' /\ sp_shk s s'.
Proof.
  intros idx any t s HS Ht. destruct (tbl_has_rels t) eqn:Hr.
  2:{ rewrite (r_any1_eq idx any t s Ht Hr).
      destruct (r2d_adjust_step s idx t (cf_cap (w_cfg s)) HS Ht) as (P1 & _).
      eexists _, _. split; [reflexivity|]. split; [exact P1|].
      apply (sp_shk_upd s idx t _ Ht). apply sp_tcap_step. unfold sp_mincap. rewrite Hr. reflexivity. }
  unfold r_any1. rewrite Hr. cbn [negb].
  set (c := cf_caprel (w_cfg s)).
  rewrite (sa_bind_ok (r2d_a1_eq s idx t c any Ht)).
  destruct (r2d_adjust_step s idx t c HS Ht) as (P1 & _ & _ & P4).
  assert (K1 : sp_shk s (s <| w_tables := upd idx (r_step c t) (w_tables s) |>)).
  { apply (sp_shk_upd s idx t _ Ht). apply sp_tcap_step. unfold sp_mincap. rewrite Hr. reflexivity. }
  set (s1 := s <| w_tables := upd idx (r_step c t) (w_tables s) |>) in *. set (t1 := r_step c t) in *.
  rewrite (sa_bind_ok (sa_getT_eq _ _ _ P4)).
  destruct (negb (t_free t1) && Nat.eqb (t_len t1) 0)%bool eqn:Ew.
  - apply andb_true_iff in Ew. destruct Ew as (Ef & El). apply negb_true_iff in Ef. apply Nat.eqb_eq in El.
    assert (Hrels : t_rels t1 <> []).
    { assert (E : t_rels t1 = t_rels t) by (unfold t1, r_step; destruct (tbl_can_shrink t c); reflexivity).
      rewrite E. unfold tbl_has_rels in Hr. destruct (t_rels t); [discriminate|discriminate]. }
    destruct (r2d_free_step s1 idx t1 P1 P4 Ef El Hrels) as (s4 & E4 & Q1 & _ & Q3).
    exists true, s4. split; [rewrite (E4 _ (ret true)); reflexivity|]. split; [exact Q1|].
    apply (sp_shk_trans _ _ _ K1). split.
    + pose proof (sp_fap_free_step (t_arch t1) idx (t_kinds t1) (t_targets t1) s1) as F.
      rewrite (E4 _ (ret tt)) in F. exact F.
    + rewrite Q3. split; [apply upd_length|]. intros j tj Hj. destruct (Nat.eq_dec j idx) as [->|Hne].
      * rewrite (r2_upd_same _ _ _ _ _ P4). rewrite P4 in Hj. injection Hj as <-. eexists. split; [reflexivity|].
        split; [reflexivity|]. split; [reflexivity|]. left. reflexivity.
      * rewrite (r2_upd_other _ _ _ _ _ Hne). exists tj. split; [exact Hj|apply sp_tcap_refl].
  - eexists _, s1. split; [reflexivity|]. split; [exact P1|exact K1].
Qed.

(** The loop, under an arbitrary clock. *)
Lemma sp_go_shk : forall clock f idx any s, St2 s -> idx + S f = length (w_tables s) ->
  exists r s', r_go_clock clock (S f) idx any s = Ok r s' /\ St2 s' /\ sp_shk s s'.
Proof.
  intros clock f. induction f as [|f IH]; intros idx any s HS Hlen.
  - destruct (nth_error (w_tables s) idx) as [t|] eqn:Ht; [|apply nth_error_None in Ht; lia].
    cbn [r_go_clock]. rewrite (sa_bind_ok (sa_getT_eq _ _ _ Ht)).
    unfold bind at 1, get at 1. cbv beta iota.
    destruct (sp_any1_shk idx any t s HS Ht) as (b & s1 & E1 & P1 & P2).
    rewrite (sa_bind_ok E1). exists (idx, b), s1. split; [destruct (b && clock idx)%bool; reflexivity|]. split; assumption.
  - destruct (nth_error (w_tables s) idx) as [t|] eqn:Ht; [|apply nth_error_None in Ht; lia].
    change (r_go_clock clock (S (S f)) idx any) with
      (t <- getT idx ;; s <- get ;; any1 <- r_any1 idx any t s ;;
       if (any1 && clock idx)%bool then ret (idx, any1) else r_go_clock clock (S f) (S idx) any1).
    rewrite (sa_bind_ok (sa_getT_eq _ _ _ Ht)).
    unfold bind at 1, get at 1. cbv beta iota.
    destruct (sp_any1_shk idx any t s HS Ht) as (b & s1 & E1 & P1 & P2).
    rewrite (sa_bind_ok E1).
    assert (L1 : length (w_tables s1) = length (w_tables s)) by apply P2.
    destruct (b && clock idx)%bool eqn:Hstop.
    + exists (idx, b), s1. split; [reflexivity|]. split; assumption.
    + destruct (IH (S idx) b s1 P1) as (r & s' & E & Q1 & Q2); [lia|].
      exists r, s'. split; [exact E|]. split; [exact Q1|apply (sp_shk_trans _ _ _ P2 Q2)].
Qed.

Lemma sp_shrink_shk : forall s clock, St2 s -> exists b s', w_shrink_clock clock s = Ok b s' /\ St2 s' /\ sp_shk s s'.
Proof.
  intros s clock HS. pose proof HS as (H & _).
  destruct (wf_arch0 _ H) as (_ & _ & _ & t0 & Et0 & _).
  assert (HL : exists f, length (w_tables s) = S f).
  { destruct (w_tables s) as [|x l]; [discriminate Et0|]. exists (length l). reflexivity. }
  destruct HL as (f & HL).
  destruct (sp_go_shk clock f 0 false s HS) as (r & s' & E & Q1 & Q2); [rewrite HL; reflexivity|].
  rewrite <- HL in E. eexists _, s'. split; [rewrite r_shrink_eq_clock, E; reflexivity|]. split; assumption.
Qed.

(** ** Shrink and the statistics *)

(** The part of the vector that Shrink cannot change: the header, and per archetype the numbers of
    components and relation components, the size, and the number of tables (active + free). What is
    left out are exactly the capacity figures and the split of the tables into active and free. *)
Definition sp_arch_stable (s : W) (a : arch) : list Z :=
  [Zn (length (a_comps a)); Zn (a_numrel a); Zn (sp_arch_size s a); Zn (length (a_tables a) + length (a_free a))].
Definition sp_stable_vec (s : W) : list Z := sp_header s ++ flat_map (sp_arch_stable s) (w_archs s).

Lemma sp_flat_map_ext2 : forall A B (f f' : A -> list B) l l', length l' = length l ->
  (forall i a a', nth_error l i = Some a -> nth_error l' i = Some a' -> f' a' = f a) -> flat_map f' l' = flat_map f l.
Proof.
  intros A B f f' l. induction l as [|a l IH]; intros l' Hlen H.
  - destruct l'; [reflexivity|discriminate Hlen].
  - destruct l' as [|a' l']; [discriminate Hlen|]. cbn [flat_map]. rewrite (H 0 a a' eq_refl eq_refl). f_equal.
    apply IH; [cbn in Hlen; lia|]. intros i x x' Hx Hx'. apply (H (S i) x x' Hx Hx').
Qed.

Lemma sp_sum_le : forall (f g : nat -> nat) l, (forall x, In x l -> f x <= g x) -> list_sum (map f l) <= list_sum (map g l).
Proof.
  intros f g l. induction l as [|x l IH]; intros H; [cbn; lia|]. cbn [map list_sum fold_right].
  pose proof (H x (or_introl eq_refl)). pose proof (IH (fun y Hy => H y (or_intror Hy))) as IH'. unfold list_sum in IH'. lia.
Qed.

Section sp_shrink.
Variables (s s' : W).
Hypothesis HS : St2 s.
Hypothesis HS' : St2 s'.
Hypothesis Hlen : length (w_tables s') = length (w_tables s).
Hypothesis Htf : forall j t, nth_error (w_tables s) j = Some t -> exists t', nth_error (w_tables s') j = Some t' /\ r2d_tfree t t'.
Hypothesis HK : sp_shk s s'.

Lemma sp_shr_tab : forall tid,
  match nth_error (w_tables s) tid, nth_error (w_tables s') tid with
  | Some t, Some t' => r2d_tfree t t' /\ sp_tcap (w_cfg s) t t'
  | None, None => True
  | _, _ => False
  end.
Proof.
  intros tid. destruct (nth_error (w_tables s) tid) as [t|] eqn:Ht.
  - destruct (Htf tid t Ht) as (t' & Ht' & F). rewrite Ht'. split; [exact F|].
    destruct HK as (_ & _ & Hc). destruct (Hc tid t Ht) as (t2 & Ht2 & C). rewrite Ht' in Ht2. injection Ht2 as <-. exact C.
  - apply nth_error_None in Ht. rewrite <- Hlen in Ht. apply nth_error_None in Ht. rewrite Ht. exact I.
Qed.

Lemma sp_shr_tids : forall aid, sp_arch_tids s' aid = sp_arch_tids s aid.
Proof.
  intros aid. unfold sp_arch_tids. rewrite Hlen. apply StorageD.sd_filter_ext_in. intros tid _.
  unfold sp_tab_arch. pose proof (sp_shr_tab tid) as H.
  destruct (nth_error (w_tables s) tid) as [t|], (nth_error (w_tables s') tid) as [t'|]; try contradiction; [|reflexivity].
  destruct H as ((Ea & _) & _). rewrite Ea. reflexivity.
Qed.

Lemma sp_shr_len : forall tid, v_at s' t_len tid = v_at s t_len tid.
Proof.
  intros tid. unfold v_at. pose proof (sp_shr_tab tid) as H.
  destruct (nth_error (w_tables s) tid) as [t|], (nth_error (w_tables s') tid) as [t'|]; try contradiction; [|reflexivity].
  destruct H as (_ & (El & _)). exact El.
Qed.

Lemma sp_shr_cap : forall tid, v_at s' t_cap tid <= v_at s t_cap tid.
Proof.
  intros tid. unfold v_at. pose proof (sp_shr_tab tid) as H.
  destruct (nth_error (w_tables s) tid) as [t|], (nth_error (w_tables s') tid) as [t'|]; try contradiction; [|lia].
  destruct H as (_ & (_ & _ & [Ec|(_ & Ec)])); lia.
Qed.

Lemma sp_shr_arch : forall aid a, nth_error (w_archs s) aid = Some a ->
  exists a', nth_error (w_archs s') aid = Some a' /\ sp_sig a' = sp_sig a.
Proof.
  intros aid a Ha. destruct HK as ((_ & _ & Esig) & _).
  pose proof (f_equal (fun l => nth_error l aid) Esig) as E. cbv beta in E. rewrite !nth_error_map, Ha in E.
  destruct (nth_error (w_archs s') aid) as [a'|]; [|discriminate E]. cbn [option_map] in E.
  exists a'. split; [reflexivity|]. congruence.
Qed.

Lemma sp_shr_block : forall aid a a', nth_error (w_archs s) aid = Some a -> nth_error (w_archs s') aid = Some a' ->
  sp_arch_size s' a' = sp_arch_size s a /\ sp_arch_cap s' a' <= sp_arch_cap s a /\
  Permutation (a_tables a' ++ a_free a') (a_tables a ++ a_free a) /\
  (forall tid, In tid (a_tables a') -> In tid (a_tables a)) /\
  (forall tid, In tid (a_free a) -> In tid (a_free a')) /\
  (forall tid, In tid (a_tables a) -> In tid (a_free a') ->
     exists t, nth_error (w_tables s) tid = Some t /\ t_len t = 0 /\ t_rels t <> []).
Proof.
  intros aid a a' Ha Ha'.
  destruct (stats_block_size_cap s aid a HS Ha) as (Z1 & C1). destruct (stats_block_size_cap s' aid a' HS' Ha') as (Z2 & C2).
  destruct (sp_arch_lists_perm s aid a HS Ha) as (_ & _ & I1 & I2 & P1).
  destruct (sp_arch_lists_perm s' aid a' HS' Ha') as (_ & _ & J1 & J2 & P2).
  rewrite sp_shr_tids in Z2, C2, P2.
  split. { rewrite Z1, Z2. f_equal. apply map_ext. intros tid. apply sp_shr_len. }
  split. { rewrite C1, C2. apply sp_sum_le. intros tid _. apply sp_shr_cap. }
  split. { apply (Permutation_trans P2). apply Permutation_sym. exact P1. }
  split; [|split].
  - intros tid Hin. apply J1 in Hin. destruct Hin as (t' & Ht' & Ea' & Hf'). apply I1.
    pose proof (sp_shr_tab tid) as H. rewrite Ht' in H. destruct (nth_error (w_tables s) tid) as [t|]; [|contradiction].
    destruct H as ((Ea & _ & _ & _ & _ & _ & Hfr) & _). exists t. split; [reflexivity|]. split; [congruence|].
    destruct Hfr as [Hfr|(_ & Hfr & _)]; congruence.
  - intros tid Hin. apply I2 in Hin. destruct Hin as (t & Ht & Ea & Hf). apply J2.
    pose proof (sp_shr_tab tid) as H. rewrite Ht in H. destruct (nth_error (w_tables s') tid) as [t'|]; [|contradiction].
    destruct H as ((Ea' & _ & _ & _ & _ & _ & Hfr) & _). exists t'. split; [reflexivity|]. split; [congruence|].
    destruct Hfr as [Hfr|(Hfr & _)]; congruence.
  - intros tid H1 H2. apply I1 in H1. apply J2 in H2. destruct H1 as (t & Ht & _ & Hf). destruct H2 as (t' & Ht' & _ & Hf').
    pose proof (sp_shr_tab tid) as H. rewrite Ht, Ht' in H. destruct H as ((_ & _ & _ & _ & _ & _ & Hfr) & _).
    exists t. split; [exact Ht|]. destruct Hfr as [Hfr|(_ & _ & Hl & Hr)]; [congruence|]. split; assumption.
Qed.
End sp_shrink.

(** Shrink under EVERY clock, on every [St2] state: never fails, keeps [St2]; the header of the vector, the
    number of archetypes and, per archetype, the component figures, the size and the SET of its tables are
    unchanged; the capacity never grows; tables only move from the active list to the free list, and exactly
    empty relation tables do; per table the capacity is unchanged or is the shrink target. In particular the
    stable part of the vector ([sp_stable_vec]) is the same before and after. *)
Theorem stats_shrink_clock : forall s clock, St2 s ->
  exists b s', w_shrink_clock clock s = Ok b s' /\ St2 s' /\
    sp_header s' = sp_header s /\ length (w_archs s') = length (w_archs s) /\
    (forall aid a, nth_error (w_archs s) aid = Some a ->
       exists a', nth_error (w_archs s') aid = Some a' /\
         a_mask a' = a_mask a /\ a_comps a' = a_comps a /\ a_numrel a' = a_numrel a /\
         sp_arch_size s' a' = sp_arch_size s a /\ sp_arch_cap s' a' <= sp_arch_cap s a /\
         Permutation (a_tables a' ++ a_free a') (a_tables a ++ a_free a) /\
         (forall tid, In tid (a_tables a') -> In tid (a_tables a)) /\
         (forall tid, In tid (a_free a) -> In tid (a_free a')) /\
         (forall tid, In tid (a_tables a) -> In tid (a_free a') ->
            exists t, nth_error (w_tables s) tid = Some t /\ t_len t = 0 /\ t_rels t <> [])) /\
    (forall j t, nth_error (w_tables s) j = Some t ->
       exists t', nth_error (w_tables s') j = Some t' /\ r2d_tfree t t' /\ sp_tcap (w_cfg s) t t') /\
    sp_stable_vec s' = sp_stable_vec s.
Proof.
  intros s clock HS.
  destruct (D_shrink_spec_clock s clock HS) as (b & s' & last & E & HS' & _ & _ & Epool & _ & _ & Side & _ & Elen & Htf & _).
  destruct (sp_shrink_shk s clock HS) as (b2 & s2 & E2 & _ & K). rewrite E in E2. injection E2 as <- <-.
  exists b, s'. split; [exact E|]. split; [exact HS'|].
  pose proof K as ((Ecen & Ecfg & Esig) & _ & _).
  assert (Harchs : length (w_archs s') = length (w_archs s)).
  { pose proof (f_equal (@length _) Esig) as EL. rewrite !map_length in EL. exact EL. }
  assert (Hhead : sp_header s' = sp_header s).
  { destruct Side as (El & _ & _ & _ & _ & _ & Et & _). unfold sp_header, is_locked. rewrite Epool, El, Ecen, Et, Harchs. reflexivity. }
  assert (Hblocks : forall aid a, nth_error (w_archs s) aid = Some a ->
       exists a', nth_error (w_archs s') aid = Some a' /\
         a_mask a' = a_mask a /\ a_comps a' = a_comps a /\ a_numrel a' = a_numrel a /\
         sp_arch_size s' a' = sp_arch_size s a /\ sp_arch_cap s' a' <= sp_arch_cap s a /\
         Permutation (a_tables a' ++ a_free a') (a_tables a ++ a_free a) /\
         (forall tid, In tid (a_tables a') -> In tid (a_tables a)) /\
         (forall tid, In tid (a_free a) -> In tid (a_free a')) /\
         (forall tid, In tid (a_tables a) -> In tid (a_free a') ->
            exists t, nth_error (w_tables s) tid = Some t /\ t_len t = 0 /\ t_rels t <> [])).
  { intros aid a Ha. destruct (sp_shr_arch s s' K aid a Ha) as (a' & Ha' & Es). exists a'. split; [exact Ha'|].
    unfold sp_sig in Es. injection Es as E1 E2 _ E4. split; [exact E1|]. split; [exact E2|]. split; [exact E4|].
    exact (sp_shr_block s s' HS HS' Elen Htf K aid a a' Ha Ha'). }
  split; [exact Hhead|]. split; [exact Harchs|]. split; [exact Hblocks|]. split.
  - intros j t Ht. pose proof (sp_shr_tab s s' Elen Htf K j) as H. rewrite Ht in H.
    destruct (nth_error (w_tables s') j) as [t'|]; [|contradiction]. exists t'. split; [reflexivity|exact H].
  - unfold sp_stable_vec. rewrite Hhead. f_equal. apply sp_flat_map_ext2; [exact Harchs|].
    intros i a a' Ha Ha'. destruct (Hblocks i a Ha) as (a2 & Ha2 & _ & B2 & B3 & B4 & _ & B6 & _).
    rewrite Ha' in Ha2. injection Ha2 as <-. unfold sp_arch_stable. rewrite B2, B3, B4.
    pose proof (Permutation_length B6) as PL. rewrite !app_length in PL. rewrite PL. reflexivity.
Qed.

(** Exactly what Shrink does to each table, under every clock: the walk processes the tables [0..last]
    ([last] = the final table, or a table after which the clock had expired); a processed table gets the
    capacity [min cap target] and is free afterwards iff it was free or is an empty relation table; the
    tables after [last] are untouched. (With [D_shrink_run_clock] of ShrinkClockRel for "no work left".) *)
Theorem stats_shrink_tables_exact : forall s clock, St2 s ->
  exists b s' last, w_shrink_clock clock s = Ok b s' /\ St2 s' /\
    last < length (w_tables s) /\ (S last = length (w_tables s) \/ clock last = true) /\
    length (w_tables s') = length (w_tables s) /\
    (forall j, last < j -> nth_error (w_tables s') j = nth_error (w_tables s) j) /\
    (forall j t, j <= last -> nth_error (w_tables s) j = Some t ->
       exists t', nth_error (w_tables s') j = Some t' /\ r2d_tfree t t' /\
         t_cap t' = Nat.min (t_cap t) (tbl_shrink_target t (sp_mincap (w_cfg s) t)) /\
         t_free t' = (t_free t || (tbl_has_rels t && Nat.eqb (t_len t) 0))%bool).
Proof.
  intros s clock HS.
  destruct (D_shrink_run_clock s clock HS) as (b & s' & last & E & HS' & Shr & R1 & R2 & _ & R4 & R5 & _).
  destruct (stats_shrink_clock s clock HS) as (b2 & s2 & E2 & _ & _ & _ & _ & Htab & _). rewrite E in E2. injection E2 as <- <-.
  pose proof Shr as (_ & _ & _ & _ & _ & Ecfg & _ & _ & Elen & _).
  exists b, s', last. split; [exact E|]. split; [exact HS'|]. split; [exact R1|].
  split; [destruct R2 as [R2|(R2 & _)]; [left; exact R2|right; exact R2]|]. split; [exact Elen|]. split; [exact R4|].
  intros j t Hj Ht. destruct (Htab j t Ht) as (t' & Ht' & F & (Cl & Ch & Cc)). exists t'. split; [exact Ht'|]. split; [exact F|].
  destruct (R5 j t' Hj Ht') as (Hw & _). unfold r_work in Hw. rewrite Ecfg, Ch in Hw.
  assert (Hns : tbl_can_shrink t' (sp_mincap (w_cfg s) t) = false).
  { unfold sp_mincap. destruct (tbl_has_rels t); cbn [negb] in Hw; [apply orb_false_iff in Hw; apply Hw|exact Hw]. }
  unfold tbl_can_shrink in Hns. apply Nat.ltb_ge in Hns.
  assert (Et : tbl_shrink_target t' (sp_mincap (w_cfg s) t) = tbl_shrink_target t (sp_mincap (w_cfg s) t))
    by (unfold tbl_shrink_target; rewrite Cl; reflexivity).
  rewrite Et in Hns. split; [destruct Cc as [Cc|(Cc & Cd)]; lia|].
  destruct F as (_ & _ & _ & _ & Er & _ & Hfr).
  assert (Hrl : tbl_has_rels t = true <-> t_rels t <> []).
  { unfold tbl_has_rels. destruct (t_rels t); split; intros H; try discriminate; try reflexivity; congruence. }
  destruct (tbl_has_rels t) eqn:Hr; cbn [andb negb] in *.
  - apply orb_false_iff in Hw. destruct Hw as (_ & Hw). rewrite Cl in Hw.
    destruct (Nat.eqb (t_len t) 0) eqn:El.
    + rewrite andb_true_r in Hw. apply negb_false_iff in Hw. rewrite Hw, orb_true_r. reflexivity.
    + rewrite orb_false_r. destruct Hfr as [Hfr|(_ & _ & Hz & _)]; [exact Hfr|]. apply Nat.eqb_neq in El. lia.
  - rewrite orb_false_r. destruct Hfr as [Hfr|(_ & _ & _ & Hne)]; [exact Hfr|]. apply Hrl in Hne. discriminate Hne.
Qed.

(** The operation of the script language, on a locked or an unlocked world: the stable part of the vector
    is unchanged in every case (a locked world rejects Shrink and stays as it is). *)
Theorem stats_shrink_op : forall debug s stop0, St2 s ->
  St2 (state_of (step_op debug (OShrink stop0) s)) /\
  sp_stable_vec (state_of (step_op debug (OShrink stop0) s)) = sp_stable_vec s.
Proof.
  intros debug s stop0 HS. destruct (is_locked s) eqn:Hl.
  - destruct (structural_blocked debug (OShrink stop0) s eq_refl Hl) as (er & E). rewrite E. cbn [state_of]. split; [exact HS|reflexivity].
  - cbn [step_op]. destruct (stats_shrink_clock s (fun _ => stop0) HS) as (b & s' & E & HS' & _ & _ & _ & _ & Hv).
    assert (E' : w_shrink stop0 s = Ok b s') by (rewrite (shrink_unlocked_eq s stop0 Hl); exact E).
    rewrite (sa_bind_ok E'). cbn [state_of ret]. split; [exact HS'|exact Hv].
Qed.

(* ================================================================================================ *)
(** * Part 5: histories *)

(** ** 5.1 A new invariant of the relation-tier histories: the observer manager stays untouched

    [Inv2Q] says "no observer is registered" ([r2e_noobs]: the aggregates say so). That the FIGURE
    [w_ototal] is 0 in every reachable state needs that no operation of the class writes the manager's
    fields: the core class by [r2l_core_side]; the filter operations by their shapes; the query operations
    by the frame below ([query_frame] of QueryProofs does not mention [w_ototal], [w_opool], [w_omax]). *)
Definition sp_os (s s' : W) : Prop :=
  w_obs s' = w_obs s /\ w_olists s' = w_olists s /\ w_oagg s' = w_oagg s /\ w_opool s' = w_opool s /\
  w_ototal s' = w_ototal s /\ w_omax s' = w_omax s.

Lemma sp_os_refl : forall s, sp_os s s.
Proof. intros s. repeat split. Qed.
Lemma sp_os_trans : forall s1 s2 s3, sp_os s1 s2 -> sp_os s2 s3 -> sp_os s1 s3.
Proof. intros s1 s2 s3 (A1 & A2 & A3 & A4 & A5 & A6) (B1 & B2 & B3 & B4 & B5 & B6). repeat split; congruence. Qed.

Lemma sp_os_side : forall s s', side_same s s' -> sp_os s s'.
Proof. intros s s' (_ & _ & A3 & A4 & A5 & A6 & A7 & A8). repeat split; assumption. Qed.

Definition sp_osp {A} (m : MW A) : Prop := r2e_pres sp_os m.

Lemma sp_osp_ro : forall A (m : MW A), readonly m -> sp_osp m.
Proof. intros A m H. apply (r2e_pres_ro sp_os sp_os_refl). exact H. Qed.
Lemma sp_osp_bind : forall A B (m : MW A) (k : A -> MW B), sp_osp m -> (forall a, sp_osp (k a)) -> sp_osp (bind m k).
Proof. intros A B m k. apply (r2e_pres_bind sp_os sp_os_trans). Qed.
Lemma sp_osp_whenM : forall b m, sp_osp m -> sp_osp (whenM b m).
Proof. intros b m. apply (r2e_pres_whenM sp_os sp_os_refl). Qed.
Lemma sp_osp_modQ : forall qi f, sp_osp (modQ qi f).
Proof. intros qi f s. unfold modQ, modify. cbn [state_of]. repeat split. Qed.
Lemma sp_osp_lockM : sp_osp lockM.
Proof. intros s. unfold lockM, bind, get. destruct (lock_lock (w_lock s)) as [[b l']|]; cbn; repeat split. Qed.
Lemma sp_osp_unlockM : forall b, sp_osp (unlockM b).
Proof. intros b s. unfold unlockM, bind, get. destruct (lock_unlock (w_lock s) b) as [l'|]; cbn; repeat split. Qed.
Lemma sp_osp_getQ : forall qi, sp_osp (getQ qi).
Proof. intros qi. apply sp_osp_ro. unfold getQ; ro. Qed.
Lemma sp_osp_getA : forall i, sp_osp (getA i).
Proof. intros i. apply sp_osp_ro, r2e_ro_getA. Qed.

Ltac sp_os_step :=
  lazymatch goal with
  | |- sp_osp (ret _) => apply sp_osp_ro, readonly_ret
  | |- sp_osp (fail _) => apply sp_osp_ro, readonly_fail
  | |- sp_osp get => apply sp_osp_ro, readonly_get
  | |- sp_osp (guard _ _) => apply sp_osp_ro, readonly_guard
  | |- sp_osp (of_opt _ _) => apply sp_osp_ro, readonly_of_opt
  | |- sp_osp (modQ _ _) => apply sp_osp_modQ
  | |- sp_osp (getQ _) => apply sp_osp_getQ
  | |- sp_osp (getT _) => apply sp_osp_ro, readonly_getT
  | |- sp_osp (getA _) => apply sp_osp_getA
  | |- sp_osp (getF _) => apply sp_osp_ro, readonly_getF
  | |- sp_osp lockM => apply sp_osp_lockM
  | |- sp_osp (unlockM _) => apply sp_osp_unlockM
  | |- sp_osp (whenM _ _) => apply sp_osp_whenM
  | |- sp_osp (bind _ _) => apply sp_osp_bind; [| intros ?]
  end.
Ltac sp_os_tac := repeat sp_os_step.

Lemma sp_osp_close : forall qi, sp_osp (query_close qi).
Proof. intros qi. unfold query_close. sp_os_tac. destruct (Nat.ltb _ _); sp_os_tac. Qed.

Lemma sp_osp_set_table : forall qi pos tid, sp_osp (query_set_table qi pos tid).
Proof. intros. unfold query_set_table. sp_os_tac. Qed.

Lemma sp_osp_nt_go : forall q tables fuel pos, sp_osp (q_nt_go q tables fuel pos).
Proof.
  intros q tables fuel. induction fuel as [|fu IH]; intros pos; [rewrite q_nt_go_0; sp_os_tac | rewrite q_nt_go_S].
  destruct (nth_error tables pos) as [tid|]; [|sp_os_tac].
  sp_os_tac. destruct (Nat.eqb _ _); [apply IH|]. sp_os_tac.
  match goal with |- sp_osp (if ?b then _ else _) => destruct b end; [sp_os_tac | apply IH].
Qed.

Lemma sp_osp_on_err : forall A (m : MW A) h, sp_osp m -> (forall s, sp_os s (h s)) -> sp_osp (on_err m h).
Proof.
  intros A m h Hm Hh s. unfold on_err. specialize (Hm s). destruct (m s) as [a s'|e s']; cbn [state_of] in *; [exact Hm|].
  eapply sp_os_trans; [exact Hm | apply Hh].
Qed.

Lemma sp_osp_next_table : forall qi tables cached, sp_osp (query_next_table qi tables cached).
Proof.
  intros. rewrite q_next_table_eq. sp_os_tac;
    [apply sp_osp_on_err; [apply sp_osp_nt_go | intros s0; unfold sp_os; cbn; repeat split]|].
  match goal with |- sp_osp (match ?r with _ => _ end) => destruct r as [[pos tid]|] end; sp_os_tac.
  - apply sp_osp_set_table.
  - apply sp_osp_close.
Qed.

Lemma sp_osp_na_go : forall qi archs f fuel pos, sp_osp (q_na_go qi archs f fuel pos).
Proof.
  intros qi archs f fuel. induction fuel as [|fu IH]; intros pos; [rewrite q_na_go_0; sp_os_tac | rewrite q_na_go_S].
  destruct (nth_error archs pos) as [aid|]; [|sp_os_tac].
  sp_os_tac. destruct (negb (filter_matches f _)); [apply IH|].
  destruct (negb (arch_has_rels _)).
  - destruct (a_tables _) as [|t0 ?]; sp_os_tac. destruct (Nat.ltb _ _); [|apply IH]. sp_os_tac. apply sp_osp_set_table.
  - sp_os_tac; [apply sp_osp_next_table|].
    match goal with |- sp_osp (if ?b then _ else _) => destruct b end; [sp_os_tac | apply IH].
Qed.

Lemma sp_osp_next_archetype : forall qi, sp_osp (query_next_archetype qi).
Proof.
  intros. rewrite q_next_archetype_eq. sp_os_tac; [apply sp_osp_na_go|].
  match goal with |- sp_osp (if ?b then _ else _) => destruct b end; sp_os_tac. apply sp_osp_close.
Qed.

Lemma sp_osp_next_toa : forall qi, sp_osp (query_next_table_or_archetype qi).
Proof.
  intros. unfold query_next_table_or_archetype. sp_os_tac.
  match goal with |- sp_osp (match q_cache ?q with _ => _ end) => destruct (q_cache q) end.
  - sp_os_tac. apply sp_osp_next_table.
  - destruct (Nat.leb _ _); [|apply sp_osp_next_archetype].
    sp_os_tac; [apply sp_osp_next_table|].
    match goal with |- sp_osp (if ?b then _ else _) => destruct b end; [sp_os_tac | apply sp_osp_next_archetype].
Qed.

Lemma sp_osp_open : forall fi rels, sp_osp (query_open fi rels).
Proof.
  intros fi rels. unfold query_open.
  apply sp_osp_bind; [apply sp_osp_ro, readonly_getF | intros f].
  apply sp_osp_bind; [apply sp_osp_whenM, sp_osp_ro, readonly_to_relations | intros _].
  apply sp_osp_bind; [apply sp_osp_ro, readonly_get | intros s0].
  apply sp_osp_bind; [destruct (f_cache f); sp_os_tac | intros cache].
  apply sp_osp_bind; [apply sp_osp_lockM | intros b].
  intros s. unfold bind, get, put, ret. cbn. repeat split.
Qed.

Lemma sp_osp_next : forall d qi, sp_osp (query_next d qi).
Proof.
  intros d qi. unfold query_next. sp_os_tac.
  match goal with |- sp_osp (match q_max ?q with _ => _ end) => destruct (q_max q) end; [|apply sp_osp_next_toa].
  destruct (Nat.ltb _ _); [sp_os_tac | apply sp_osp_next_toa].
Qed.

Lemma sp_osp_drain_go : forall d qi fuel acc, sp_osp (StorageD.sd_drain_go d qi fuel acc).
Proof.
  intros d qi fuel. induction fuel as [|fu IH]; intros acc; [apply sp_osp_ro, readonly_ret|].
  cbn [StorageD.sd_drain_go]. apply sp_osp_bind; [apply sp_osp_next|]. intros more.
  destruct more; [|apply sp_osp_ro, readonly_ret].
  apply sp_osp_bind; [apply sp_osp_ro, StorageD.sd_ro_query_entity|]. intros e. apply IH.
Qed.

(** Every query operation leaves the observer manager alone. *)
Theorem sp_osp_query_op : forall debug o, r2q_query_op o = true -> sp_osp (step_op debug o).
Proof.
  intros debug o Hq. destruct o; try discriminate Hq; [rewrite StorageD.sd_step_op_QueryAll | cbn [step_op] ..].
  - apply sp_osp_bind; [apply sp_osp_ro, readonly_resolveR|]. intros rl.
    apply sp_osp_bind; [apply sp_osp_ro, readonly_resolve_relidx|]. intros ?rl.
    apply sp_osp_bind; [apply sp_osp_ro, readonly_check_unsafe_rels|]. intros _.
    apply sp_osp_bind; [apply sp_osp_open|]. intros qi.
    apply sp_osp_bind; [apply sp_osp_ro, StorageD.sd_ro_query_count|]. intros cnt.
    apply sp_osp_bind; [apply sp_osp_drain_go|]. intros es.
    apply sp_osp_bind; [apply sp_osp_close|]. intros _. apply sp_osp_ro, readonly_ret.
  - apply sp_osp_bind; [apply sp_osp_ro, readonly_resolveR|]. intros rl.
    apply sp_osp_bind; [apply sp_osp_ro, readonly_resolve_relidx|]. intros ?rl.
    apply sp_osp_bind; [apply sp_osp_ro, readonly_check_unsafe_rels|]. intros _.
    apply sp_osp_bind; [apply sp_osp_open|]. intros qi. apply sp_osp_ro, readonly_ret.
  - apply sp_osp_bind; [apply sp_osp_next|]. intros b. apply sp_osp_ro, readonly_ret.
  - apply sp_osp_bind; [apply sp_osp_close|]. intros b. apply sp_osp_ro, readonly_ret.
  - apply sp_osp_bind; [apply sp_osp_ro, StorageD.sd_ro_query_count|]. intros b. apply sp_osp_ro, readonly_ret.
  - apply sp_osp_bind; [apply sp_osp_ro, StorageD.sd_ro_query_entity_at|]. intros b. apply sp_osp_ro, readonly_ret.
  - apply sp_osp_bind; [apply sp_osp_ro, StorageD.sd_ro_query_entity|]. intros b. apply sp_osp_ro, readonly_ret.
Qed.

(** The filter operations. *)
Lemma sp_os_filter_op : forall debug o s,
  match o with OFilterNew _ _ _ _ _ | OFilterRegister _ | OFilterUnregister _ => True | _ => False end ->
  sp_os s (state_of (step_op debug o s)).
Proof.
  intros debug o s Ho. destruct o; try contradiction; cbn [step_op].
  - revert s. change (r2e_pres sp_os (rels <- resolveR rels;;
        s <- get;; whenM (negb unsafe) (to_relations (mk_of_list ids) rels);;;
        modify (fun s0 : wstate => s0 <| w_filters ::= fun l => l ++
           [{| f_ids := ids; f_mask := mk_of_list ids;
               f_without := if excl then mk_not (cf_bits (w_cfg s)) (mk_of_list ids) else mk_of_list without;
               f_haswithout := (excl || negb (is_nil without))%bool; f_cache := None; f_rels := rels; f_unsafe := unsafe |}] |>);;;
        ret [Zn (length (w_filters s))])).
    apply sp_osp_bind; [apply sp_osp_ro, readonly_resolveR|]. intros rl.
    apply (r2e_pres_getbind sp_os). intros s.
    assert (X : sp_osp (whenM (negb unsafe) (to_relations (mk_of_list ids) rl);;;
        modify (fun s0 : wstate => s0 <| w_filters ::= fun l => l ++
           [{| f_ids := ids; f_mask := mk_of_list ids;
               f_without := if excl then mk_not (cf_bits (w_cfg s)) (mk_of_list ids) else mk_of_list without;
               f_haswithout := (excl || negb (is_nil without))%bool; f_cache := None; f_rels := rl; f_unsafe := unsafe |}] |>);;;
        ret [Zn (length (w_filters s))])).
    { apply sp_osp_bind.
      { apply sp_osp_ro. destruct (negb unsafe); [apply readonly_to_relations|apply readonly_ret]. }
      intros _. apply sp_osp_bind; [|intros _; apply sp_osp_ro, readonly_ret].
      apply (r2e_pres_modify sp_os). intros s1. repeat split. }
    apply X.
  - rewrite r2q_state_bind_ret.
    destruct (StorageD.sd_register_shape f s) as [E|(f0 & id & p' & Hf & [E|(tabs & EU & E)])]; rewrite E; repeat split.
  - rewrite r2q_state_bind_ret.
    destruct (StorageD.sd_unregister_shape f s) as [E|(idx & Hidx & E)]; rewrite E; repeat split.
Qed.

(** One step of a line of the class keeps the manager's fields, in both outcomes. *)
Theorem sp_step_os : forall debug wd s n line o,
  Inv2Q s n -> decode_op line = Some o -> rel_q_op o = true -> sp_os s (fst (step debug wd s line)).
Proof.
  intros debug wd s n line o HI Hd Hop.
  pose proof (r2q_Inv2Q_log s n [] HI) as HI0.
  assert (H0 : sp_os s (s <| w_log := [] |>)) by (repeat split).
  unfold rel_q_op in Hop. destruct (rel_core_op o) eqn:Hc.
  - rewrite (r2e_step_state debug wd s line o Hd Hc). set (s0 := s <| w_log := [] |>) in *.
    pose proof (sp_os_side _ _ (r2l_core_side debug s0 n o HI0 Hc)) as H1.
    apply (sp_os_trans _ _ _ H0). apply (sp_os_trans _ _ _ H1).
    unfold sc_issue. destruct (step_op debug o s0) as [[|i [|g rest]] s1|er s1]; try destruct (returns_entity o); repeat split.
  - cbn [orb] in Hop. rewrite (r2q_step_state_new debug wd s line o Hd Hop). set (s0 := s <| w_log := [] |>) in *.
    apply (sp_os_trans _ _ _ H0).
    assert (H1 : sp_os s0 (state_of (step_op debug o s0))).
    { destruct (r2q_query_op o) eqn:Hq; [apply (sp_osp_query_op debug o Hq s0)|].
      apply sp_os_filter_op. destruct o; try discriminate Hop; try discriminate Hq; exact I. }
    apply (sp_os_trans _ _ _ H1). repeat split.
Qed.

(** The observer manager of a relation-tier history is the initial one: no observer object, no list,
    figure 0. *)
Definition sp_quiet_obs (s : W) : Prop :=
  w_obs s = [] /\ w_olists s = [] /\ w_oagg s = [] /\ w_opool s = ipool_new /\ w_ototal s = 0 /\ w_omax s = 0.

Lemma sp_quiet_os : forall s s', sp_os s s' -> sp_quiet_obs s -> sp_quiet_obs s'.
Proof. intros s s' (A1 & A2 & A3 & A4 & A5 & A6) (B1 & B2 & B3 & B4 & B5 & B6). repeat split; congruence. Qed.

Theorem reachable_quiet_obs : forall c lines,
  cfg_ok2 c -> Forall (rel_q_line (sc_kinds c)) lines -> length lines + 4 < Nat.pow 2 31 ->
  sp_quiet_obs (Properties.Common.exec c lines).
Proof.
  intros c lines Hc. induction lines as [|l lines IH] using rev_ind; intros HF Hb; [repeat split|].
  apply Forall_app in HF. destruct HF as (HF & Hl). inversion Hl as [|? ? (o & Hd & Hco & _) _]; subst.
  rewrite app_length in Hb. cbn [length] in Hb.
  assert (Hb' : length lines + 4 < Nat.pow 2 31) by lia.
  unfold Properties.Common.exec. rewrite fold_left_app. cbn [fold_left].
  apply (sp_quiet_os _ _ (sp_step_os (sc_debug c) false _ (length lines) l o (reachable_inv2Q c lines Hc HF Hb') Hd Hco)).
  exact (IH HF Hb').
Qed.

(** A quiet manager satisfies the invariant of ObsProofs, so Part 3 applies: nothing is registered. *)
Lemma sp_quiet_registered : forall s, sp_quiet_obs s -> w_ototal s = 0 /\ sp_registered s = [].
Proof. intros s (E1 & _ & _ & _ & E5 & _). split; [exact E5|]. unfold sp_registered. rewrite E1. reflexivity. Qed.

(** ** 5.2 The relation tier: every state reachable by the histories of Rel2HistQ (core operations with
    relations, Shrink, filters, registration, queries; locked states included) *)

Lemma sp_locked_existsb : forall s, LQ s -> is_locked s = existsb r2l_isopen (w_queries s).
Proof.
  intros s HL. apply Bool.eq_iff_eq_true. rewrite (r2l_LQ_locked_iff s HL), existsb_exists. split.
  - intros (qi & q & Hq & Ho). exists q. split; [eapply nth_error_In; exact Hq|apply Nat.leb_le; exact Ho].
  - intros (q & Hin & Ho). destruct (In_nth_error _ _ Hin) as (qi & Hq). exists qi, q. split; [exact Hq|apply Nat.leb_le; exact Ho].
Qed.

Section sp_reach2.
Variables (c : script_cfg) (lines : list (list Z)).
Hypothesis Hc : cfg_ok2 c.
Hypothesis Hl : Forall (rel_q_line (sc_kinds c)) lines.
Hypothesis Hb : length lines + 4 < Nat.pow 2 31.
Let s := Properties.Common.exec c lines.
Let HS : St2 s := proj1 (reachable_inv2Q c lines Hc Hl Hb).

Theorem C19r_used_after_every_history :
  pool_len (w_pool s) = total_rows s /\ pool_len (w_pool s) = active_rows s /\
  pool_cap (w_pool s) = pool_len (w_pool s) + pavail (w_pool s) /\
  pool_len (w_pool s) = length (sp_live_rows s) /\ NoDup (sp_live_rows s) /\
  (forall e, In e (sp_live_rows s) <-> live s e = true).
Proof.
  destruct (used_equals_rows2 s HS) as (U1 & U2). pose proof (proj1 HS) as HW.
  split; [exact U1|]. split; [exact U2|]. split; [apply total_is_used_plus_recycled_WF; exact HW|].
  split; [symmetry; apply sp_live_rows_length; exact HW|]. split; [apply sp_live_rows_NoDup; exact HW|].
  intros e. apply sp_live_rows_in. exact HW.
Qed.

Theorem C19r_counted_once_after_every_history : forall e,
  count_in_world s e = if live s e then 1 else 0.
Proof.
  intros e. destruct (live s e) eqn:Hlv; [apply live_counted_once2|apply dead_counted_zero2]; assumption.
Qed.

Theorem C19r_tables_after_every_history : forall tid t, nth_error (w_tables s) tid = Some t ->
  exists a, nth_error (w_archs s) (t_arch t) = Some a /\
    (if t_free t then In tid (a_free a) /\ ~ In tid (a_tables a) /\ t_len t = 0
     else In tid (a_tables a) /\ ~ In tid (a_free a)) /\
    (forall aid' a', nth_error (w_archs s) aid' = Some a' -> In tid (a_tables a') \/ In tid (a_free a') -> aid' = t_arch t).
Proof. intros tid t. apply sp_table_place. exact HS. Qed.

(** [C19_sizes_sum_after_every_history] for relation worlds (same statement), and the block sums. *)
Theorem C19r_sizes_sum_after_every_history :
  fold_left (fun acc a => acc + fold_left (fun acc tid => acc + match nth_error (w_tables s) tid with Some t => t_len t | None => 0 end) (a_tables a) 0) (w_archs s) 0
  = total_rows s /\
  list_sum (map (sp_arch_size s) (w_archs s)) = pool_len (w_pool s) /\
  list_sum (map (sp_arch_cap s) (w_archs s)) = list_sum (map t_cap (w_tables s)).
Proof.
  split; [apply stats_sizes_sum2_C19; exact HS|]. split; [apply stats_sizes_sum2; exact HS|apply stats_caps_sum2; exact HS].
Qed.

(** The header of the vector in a reachable state, every figure in terms of the abstract world: live
    entities; live + recycled ids; recycled ids; "some query is open"; cache entries; NO observers;
    archetypes. *)
Theorem C19r_header_after_every_history :
  sp_header s = [Zn (length (sp_live_rows s)); Zn (length (sp_live_rows s) + pavail (w_pool s)); Zn (pavail (w_pool s));
                 Zb (existsb r2l_isopen (w_queries s)); Zn (length (w_centries s)); 0%Z; Zn (length (w_archs s))] /\
  (exists fl, length fl = pavail (w_pool s) /\ NoDup fl /\
     forall i, In i fl <-> (2 <= i < length (pe (w_pool s)) /\ forall g, live s (i, g) = false)) /\
  NoDup (w_centries s) /\
  (forall addr, In addr (w_centries s) ->
     exists e f, nth_error (w_cheap s) addr = Some e /\ nth_error (w_filters s) (ce_filter e) = Some f) /\
  w_obs s = [] /\ sp_registered s = [] /\
  (forall i j a b, nth_error (w_archs s) i = Some a -> nth_error (w_archs s) j = Some b -> a_comps a = a_comps b -> i = j).
Proof.
  destruct (sp_header_meaning s HS) as (E & _ & _ & M3 & M4 & M5 & M6).
  pose proof (reachable_quiet_obs c lines Hc Hl Hb) as HQ. fold s in HQ.
  destruct (sp_quiet_registered s HQ) as (Q1 & Q2).
  split.
  { rewrite E, Q1, (sp_locked_existsb s (reachable_LQ c lines Hc Hl Hb)). reflexivity. }
  split; [exact M3|]. split; [exact M4|]. split; [exact M5|]. split; [apply HQ|]. split; [exact Q2|exact M6].
Qed.

Theorem C19r_block_after_every_history : forall aid a, nth_error (w_archs s) aid = Some a ->
  sp_arch_vec s a =
    [Zn (length (a_comps a)); Zn (a_numrel a); Zn (length (a_free a));
     Zn (list_sum (map (v_at s t_len) (sp_arch_tids s aid))); Zn (list_sum (map (v_at s t_cap) (sp_arch_tids s aid)));
     Zn (length (a_tables a))] ++
    flat_map (fun tid => [Zn (v_at s t_len tid); Zn (v_at s t_cap tid)]) (a_tables a) /\
  a_comps a = mk_to_list (a_mask a) (length (w_reg s)) /\
  a_numrel a = length (filter (fun c => ck_rel (kind_of s c)) (a_comps a)) /\
  Permutation (a_tables a ++ a_free a) (sp_arch_tids s aid) /\
  (forall tid, In tid (a_tables a) -> v_at s t_len tid <= v_at s t_cap tid) /\
  list_sum (map (v_at s t_len) (sp_arch_tids s aid)) <= list_sum (map (v_at s t_cap) (sp_arch_tids s aid)).
Proof. intros aid a. apply sp_arch_block_meaning. exact HS. Qed.

(** Stats in a reachable state: total, read-only; Shrink there: the stable part of the vector is kept. *)
Theorem C19r_stats_after_every_history : forall debug,
  step_op debug OStats s = Ok (sp_header s ++ flat_map (sp_arch_vec s) (w_archs s)) s.
Proof. intros debug. reflexivity. Qed.

Theorem C19r_shrink_after_every_history : forall debug stop0,
  St2 (state_of (step_op debug (OShrink stop0) s)) /\
  sp_stable_vec (state_of (step_op debug (OShrink stop0) s)) = sp_stable_vec s.
Proof. intros debug stop0. apply stats_shrink_op. exact HS. Qed.
(** the size of a block = the number of live entities with the archetype's component list *)
Theorem C19r_block_size_after_every_history : forall aid a, nth_error (w_archs s) aid = Some a ->
  sp_arch_size s a = length (filter (sp_in_arch s aid) (sp_live_rows s)) /\
  forall e, live s e = true -> (sp_in_arch s aid e = true <-> comps_of s e = Some (a_comps a)).
Proof. intros aid a. apply stats_block_size_live. exact HS. Qed.
End sp_reach2.

(** ** 5.3 Tier 1 (no relation component): every state reachable by the histories of StorageD with
    observers, filters, registration and queries. Every archetype has exactly one table, no table is
    free; a block is [components; 0; 0; size; capacity; 1; size; capacity]. *)
Section sp_reach1.
Variables (c : script_cfg) (lines : list (list Z)).
Hypothesis Hc : cfg_ok c.
Hypothesis Hl : Forall (StorageD.reg_line (length (sc_kinds c))) lines.
Hypothesis Hb : length lines + 4 < Nat.pow 2 31.
Let s := run_core c lines.
Let H6 : StorageD.Inv6 s (length lines) := StorageD.reachable_inv6_reg c lines Hc Hl Hb.
Let H3 : StorageD.Inv3 s (length lines) := proj1 (proj1 H6).
Let HSt : St s := proj1 (proj1 H3).

Theorem C19t_block_after_every_history : forall aid a, nth_error (w_archs s) aid = Some a ->
  exists tid t, a_tables a = [tid] /\ a_free a = [] /\ a_numrel a = 0 /\
    nth_error (w_tables s) tid = Some t /\ t_arch t = aid /\ t_free t = false /\ t_len t <= t_cap t /\
    sp_arch_vec s a = [Zn (length (a_comps a)); 0%Z; 0%Z; Zn (t_len t); Zn (t_cap t); 1%Z; Zn (t_len t); Zn (t_cap t)].
Proof.
  intros aid a Ha. destruct HSt as (HW & (_ & N2 & N3 & _)).
  destruct (N3 aid a Ha) as (Ef & En & _).
  pose proof (proj2 (proj1 H6) aid a Ha) as Hne.
  pose proof (wf_arch_norel_table _ HW aid a Ha En) as Hle.
  destruct (a_tables a) as [|tid [|t1 tl]] eqn:Et; [congruence| |cbn in Hle; lia].
  destruct (wf_arch_tables _ HW aid a tid Ha) as (t & Ht & Ea); [left; rewrite Et; left; reflexivity|].
  exists tid, t. split; [reflexivity|]. split; [exact Ef|]. split; [exact En|]. split; [exact Ht|]. split; [exact Ea|].
  split; [exact (proj2 (N2 tid t Ht))|].
  destruct (v_tbl_ok s tid t HW Ht) as ((Hlc & _) & _). split; [exact Hlc|].
  unfold sp_arch_vec, sp_arch_size, sp_arch_cap, sp_arch_pairs, sp_tabs. rewrite Et, Ef, En. cbn [flat_map]. rewrite Ht.
  cbn [app fold_left flat_map length Nat.add]. reflexivity.
Qed.

Theorem C19t_tables_after_every_history : forall tid t, nth_error (w_tables s) tid = Some t ->
  t_free t = false /\ exists a, nth_error (w_archs s) (t_arch t) = Some a /\ a_tables a = [tid] /\ a_free a = [].
Proof.
  intros tid t Ht. destruct HSt as (HW & (_ & N2 & N3 & _)). split; [exact (proj2 (N2 tid t Ht))|].
  destruct (StorageD.inv3_v_tables_listed s _ H3 tid t Ht) as (a & Ha & Et). exists a. split; [exact Ha|]. split; [exact Et|].
  exact (proj1 (N3 _ a Ha)).
Qed.

Theorem C19t_used_after_every_history :
  pool_len (w_pool s) = total_rows s /\ pool_cap (w_pool s) = pool_len (w_pool s) + pavail (w_pool s) /\
  pool_len (w_pool s) = length (sp_live_rows s) /\ NoDup (sp_live_rows s) /\
  (forall e, In e (sp_live_rows s) <-> live s e = true) /\
  (forall e, count_in_world s e = if live s e then 1 else 0) /\
  list_sum (map (sp_arch_size s) (w_archs s)) = pool_len (w_pool s).
Proof.
  pose proof (proj1 HSt) as HW.
  split; [apply used_equals_rows_WF; exact HW|]. split; [apply total_is_used_plus_recycled_WF; exact HW|].
  split; [symmetry; apply sp_live_rows_length; exact HW|]. split; [apply sp_live_rows_NoDup; exact HW|].
  split; [intros e; apply sp_live_rows_in; exact HW|]. split.
  - intros e. destruct (live s e) eqn:Hlv; [apply (StorageD.inv3_live_seen_exactly_once s _ H3 e Hlv)|apply (dead_counted_zero s e HSt Hlv)].
  - pose proof (StorageD.inv3_sizes_sum s _ H3) as E. rewrite v_fold_sum in E. cbn [Nat.add] in E.
    rewrite (map_ext _ (sp_arch_size s)) in E by (intros a; apply sp_arch_size_C19).
    rewrite E. symmetry. apply used_equals_rows_WF. exact HW.
Qed.

(** The header figures that do not depend on the tier: recycled ids, distinct cache entries, distinct
    archetypes. (The observer figure of Tier-1 histories is the subject of Part 3.) *)
Theorem C19t_header_after_every_history :
  (exists fl, length fl = pavail (w_pool s) /\ NoDup fl /\
     forall i, In i fl <-> (2 <= i < length (pe (w_pool s)) /\ forall g, live s (i, g) = false)) /\
  NoDup (w_centries s) /\
  (forall addr, In addr (w_centries s) ->
     exists e f, nth_error (w_cheap s) addr = Some e /\ nth_error (w_filters s) (ce_filter e) = Some f) /\
  (forall i j a b, nth_error (w_archs s) i = Some a -> nth_error (w_archs s) j = Some b -> a_comps a = a_comps b -> i = j).
Proof.
  pose proof (proj1 HSt) as HW. split; [apply stats_recycled_meaning; exact HW|]. split; [exact (proj1 (proj2 H6))|]. split.
  - intros addr Hin. destruct (wf_cache _ HW addr Hin) as (e & He & Hlt).
    destruct (nth_error (w_filters s) (ce_filter e)) as [f|] eqn:Hf; [exists e, f; auto|]. apply nth_error_None in Hf. lia.
  - intros i j a b. apply stats_archetypes_distinct. exact HW.
Qed.
End sp_reach1.

(* ================================================================================================ *)
(** * Part 6: non-vacuity *)

(** Configuration [r2_cfg] (components 0,1,2 plain; 3,4 relation components). Two parents; three children
    with relation 3 (one of parent 0, two of parent 1); an entity with component 1; parent 1 dies (its
    children move to the zero-target table, their table is FREED); the child of parent 0 is removed (its
    table stays active but empty); a filter over component 0 is created and registered; a query on it is
    opened (the world is locked); Stats. Three archetypes: [], [0;3] (two active tables, one free), [1]. *)
Definition sp_script : list (list Z) :=
  [[0]; [0]; [2; 2;0;3; 1; 3;0]; [2; 2;0;3; 1; 3;1]; [2; 2;0;3; 1; 3;1]; [1; 1; 1]; [11; 1]; [11; 2];
   [15; 0; 1;0; 0; 0; 0]; [16; 0]; [19; 0; 0]; [38]]%Z.
Definition sp_world : W := Properties.Common.exec Rel2Check.r2_cfg sp_script.
(** the state before the filter is created: unlocked, with an empty active relation table *)
Definition sp_pre : W := Properties.Common.exec Rel2Check.r2_cfg (firstn 8 sp_script).

Example sp_script_covered : forallb (rel_q_line_b (sc_kinds Rel2Check.r2_cfg)) sp_script = true.
Proof. vm_compute. reflexivity. Qed.

Lemma sp_script_lines : Forall (rel_q_line (sc_kinds Rel2Check.r2_cfg)) sp_script.
Proof. apply rel_q_line_b_sound. exact sp_script_covered. Qed.

Lemma sp_firstn_lines : forall k, Forall (rel_q_line (sc_kinds Rel2Check.r2_cfg)) (firstn k sp_script).
Proof.
  intros k. apply Forall_forall. intros l Hl. pose proof sp_script_lines as H. rewrite Forall_forall in H.
  apply H. rewrite <- (firstn_skipn k sp_script). apply in_or_app. left. exact Hl.
Qed.

Lemma sp_script_short : forall k, length (firstn k sp_script) + 4 < Nat.pow 2 31.
Proof. intros k. apply r2l_small. rewrite firstn_length. change (length sp_script) with 12. lia. Qed.

Lemma sp_script_short' : length sp_script + 4 < Nat.pow 2 31.
Proof. apply r2l_small. change (length sp_script) with 12. lia. Qed.

(** every line succeeds; the world is a state of the covered histories *)
Example sp_script_runs : Rel2Check.r2_run sp_script = (true, [0;0;0;0;0;0;0;0;0;0;0;0]%Z).
Proof. vm_compute. reflexivity. Qed.

Example sp_world_inv : Inv2Q sp_world (length sp_script) /\ LQ sp_world /\ sp_quiet_obs sp_world.
Proof.
  split; [exact (reachable_inv2Q _ _ r2q_cfg_ok sp_script_lines sp_script_short')|].
  split; [exact (reachable_LQ _ _ r2q_cfg_ok sp_script_lines sp_script_short')|].
  exact (reachable_quiet_obs _ _ r2q_cfg_ok sp_script_lines sp_script_short').
Qed.

(** the shape: tables (archetype, rows, free, relation label), the lists of the archetypes, the cache entry,
    the open query, the lock *)
Example sp_world_shape :
  Rel2Check.r2_shape sp_world =
    [(0, 1, false, []); (1, 0, false, [(3, (2, 0%N))]); (1, 0, true, [(3, (3, 0%N))]); (2, 1, false, []);
     (1, 2, false, [(3, zero_ent)])] /\
  map (fun a => (a_comps a, a_tables a, a_free a)) (w_archs sp_world) = [([], [0], []); ([0; 3], [1; 4], [2]); ([1], [3], [])] /\
  w_centries sp_world = [0] /\ map (fun e => (ce_filter e, ce_tables e)) (w_cheap sp_world) = [(0, [1; 4])] /\
  map (fun q => (q_tab q, q_lock q)) (w_queries sp_world) = [(1, 0)] /\ is_locked sp_world = true /\
  sp_live_rows sp_world = [(2, 0%N); (7, 0%N); (5, 0%N); (6, 0%N)].
Proof. vm_compute. repeat split; reflexivity. Qed.

(** The computed vector: 4 used, 6 total, 2 recycled, locked, 1 filter, 0 observers, 3 archetypes; blocks
    [comps; relcomps; free; size; capacity; tables; (size, capacity)...]. *)
Example sp_world_vector :
  stats_vec sp_world =
    [4; 6; 2; 1; 1; 0; 3;
     0; 0; 0; 1; 2; 1;  1; 2;
     2; 1; 1; 2; 5; 2;  0; 1;  2; 2;
     1; 0; 0; 1; 2; 1;  1; 2]%Z /\
  (* the last line of the script returned exactly this vector *)
  step_op false OStats sp_world = Ok (stats_vec sp_world) sp_world.
Proof. split; [vm_compute; reflexivity|reflexivity]. Qed.

(** Instances of the theorems at this world. *)
Example sp_world_used :
  pool_len (w_pool sp_world) = total_rows sp_world /\ pool_len (w_pool sp_world) = active_rows sp_world /\
  pool_cap (w_pool sp_world) = pool_len (w_pool sp_world) + pavail (w_pool sp_world) /\
  pool_len (w_pool sp_world) = length (sp_live_rows sp_world) /\ NoDup (sp_live_rows sp_world) /\
  (forall e, In e (sp_live_rows sp_world) <-> live sp_world e = true).
Proof. exact (C19r_used_after_every_history _ _ r2q_cfg_ok sp_script_lines sp_script_short'). Qed.

Example sp_world_counts :
  map (fun e => (live sp_world e, count_in_world sp_world e)) (w_issued sp_world) =
    [(true, 1); (false, 0); (false, 0); (true, 1); (true, 1); (true, 1)] /\
  forall e, count_in_world sp_world e = if live sp_world e then 1 else 0.
Proof.
  split; [vm_compute; reflexivity|].
  exact (C19r_counted_once_after_every_history _ _ r2q_cfg_ok sp_script_lines sp_script_short').
Qed.

Example sp_world_header :
  sp_header sp_world = [4; 6; 2; 1; 1; 0; 3]%Z /\
  sp_header sp_world =
    [Zn (length (sp_live_rows sp_world)); Zn (length (sp_live_rows sp_world) + pavail (w_pool sp_world)); Zn (pavail (w_pool sp_world));
     Zb (existsb r2l_isopen (w_queries sp_world)); Zn (length (w_centries sp_world)); 0%Z; Zn (length (w_archs sp_world))].
Proof.
  split; [vm_compute; reflexivity|].
  exact (proj1 (C19r_header_after_every_history _ _ r2q_cfg_ok sp_script_lines sp_script_short')).
Qed.

(** the block of the relation archetype (number 1): its three tables are 1, 4 (active) and 2 (free) *)
Example sp_world_block :
  sp_arch_tids sp_world 1 = [1; 2; 4] /\
  exists a, nth_error (w_archs sp_world) 1 = Some a /\ a_tables a = [1; 4] /\ a_free a = [2] /\
    sp_arch_vec sp_world a = [2; 1; 1; 2; 5; 2; 0; 1; 2; 2]%Z /\
    Permutation (a_tables a ++ a_free a) (sp_arch_tids sp_world 1).
Proof.
  split; [vm_compute; reflexivity|].
  destruct (nth_error (w_archs sp_world) 1) as [a|] eqn:Ha; [|vm_compute in Ha; discriminate Ha].
  exists a. split; [reflexivity|].
  destruct (C19r_block_after_every_history _ _ r2q_cfg_ok sp_script_lines sp_script_short' 1 a Ha) as (_ & _ & _ & P & _).
  assert (E : Some a = nth_error (w_archs sp_world) 1) by (symmetry; exact Ha).
  vm_compute in E. injection E as ->. split; [reflexivity|]. split; [reflexivity|]. split; [vm_compute; reflexivity|exact P].
Qed.

(** Shrink at [sp_pre] (unlocked; table 1 is an empty active relation table, the free table 2 has capacity 2):
    with an unlimited budget table 1 is freed and table 2 shrinks; with a zero budget the walk stops after
    table 1; the stable part of the vector is the same in all three states, the rest is not. *)
Example sp_shrink_vectors :
  let full := Properties.Common.exec Rel2Check.r2_cfg (firstn 8 sp_script ++ [[14; 0]]%Z) in
  let zero := Properties.Common.exec Rel2Check.r2_cfg (firstn 8 sp_script ++ [[14; 1]]%Z) in
  skipn 15 (firstn 25 (stats_vec sp_pre)) = [2; 1; 1; 2; 5; 2;  0; 1;  2; 2]%Z /\
  skipn 15 (firstn 23 (stats_vec full)) = [2; 1; 2; 2; 4; 1;  2; 2]%Z /\
  skipn 15 (firstn 23 (stats_vec zero)) = [2; 1; 2; 2; 5; 1;  2; 2]%Z /\
  sp_stable_vec sp_pre = [4; 6; 2; 0; 0; 0; 3;  0; 0; 1; 1;  2; 1; 2; 3;  1; 0; 1; 1]%Z /\
  sp_stable_vec full = sp_stable_vec sp_pre /\ sp_stable_vec zero = sp_stable_vec sp_pre.
Proof. vm_compute. repeat split; reflexivity. Qed.

Example sp_pre_shrink : forall clock,
  exists b s', w_shrink_clock clock sp_pre = Ok b s' /\ St2 s' /\ sp_header s' = sp_header sp_pre /\
               sp_stable_vec s' = sp_stable_vec sp_pre.
Proof.
  intros clock.
  assert (HS : St2 sp_pre) by exact (proj1 (reachable_inv2Q _ _ r2q_cfg_ok (sp_firstn_lines 8) (sp_script_short 8))).
  destruct (stats_shrink_clock sp_pre clock HS) as (b & s' & E & HS' & Hh & _ & _ & _ & Hv).
  exists b, s'. split; [exact E|]. split; [exact HS'|]. split; [exact Hh|exact Hv].
Qed.

(** the exact per-table description at [sp_pre], for every clock; and what it gives for the unlimited budget:
    table 1 (empty, relation) is freed, table 2 (free, capacity 2) shrinks to the relation capacity 1 *)
Example sp_pre_shrink_exact : forall clock,
  exists b s' last, w_shrink_clock clock sp_pre = Ok b s' /\ last < 5 /\ (S last = 5 \/ clock last = true) /\
    (forall j, last < j -> nth_error (w_tables s') j = nth_error (w_tables sp_pre) j) /\
    (forall j t, j <= last -> nth_error (w_tables sp_pre) j = Some t ->
       exists t', nth_error (w_tables s') j = Some t' /\
         t_cap t' = Nat.min (t_cap t) (tbl_shrink_target t (sp_mincap (w_cfg sp_pre) t)) /\
         t_free t' = (t_free t || (tbl_has_rels t && Nat.eqb (t_len t) 0))%bool).
Proof.
  intros clock.
  assert (HS : St2 sp_pre) by exact (proj1 (reachable_inv2Q _ _ r2q_cfg_ok (sp_firstn_lines 8) (sp_script_short 8))).
  destruct (stats_shrink_tables_exact sp_pre clock HS) as (b & s' & last & E & _ & L1 & L2 & _ & L4 & L5).
  assert (EL : length (w_tables sp_pre) = 5) by (vm_compute; reflexivity). rewrite EL in L1, L2.
  exists b, s', last. split; [exact E|]. split; [exact L1|]. split; [exact L2|]. split; [exact L4|].
  intros j t Hj Ht. destruct (L5 j t Hj Ht) as (t' & Ht' & _ & Ec & Ef). exists t'. split; [exact Ht'|]. split; assumption.
Qed.

Example sp_pre_shrink_tables :
  map (fun t => (t_len t, t_cap t, t_free t, tbl_has_rels t)) (w_tables sp_pre) =
    [(1, 2, false, false); (0, 1, false, true); (0, 2, true, true); (1, 2, false, false); (2, 2, false, true)] /\
  map (fun t => (t_len t, t_cap t, t_free t, tbl_has_rels t))
      (w_tables (state_of (w_shrink_clock (fun _ => false) sp_pre))) =
    [(1, 2, false, false); (0, 1, true, true); (0, 1, true, true); (1, 2, false, false); (2, 2, false, true)].
Proof. vm_compute. split; reflexivity. Qed.

(** Tier 1: the world of StorageD with an observer, two filters and open queries ([sd_world]). *)
Lemma sp_sd_script_reg : Forall (StorageD.reg_line (length (sc_kinds StorageD.sd_cfg))) StorageD.sd_script.
Proof. apply StorageD.reg_lines_b_ok. vm_compute. reflexivity. Qed.

Example sp_sd_world :
  stats_vec StorageD.sd_world =
    [4; 4; 0; 1; 0; 1; 7;  0; 0; 0; 0; 2; 1; 0; 2;  2; 0; 0; 0; 2; 1; 0; 2;  1; 0; 0; 0; 2; 1; 0; 2;  1; 0; 0; 0; 2; 1; 0; 2;
     2; 0; 0; 2; 2; 1; 2; 2;  3; 0; 0; 1; 2; 1; 1; 2;  2; 0; 0; 1; 2; 1; 1; 2]%Z /\
  w_ototal StorageD.sd_world = length (sp_registered StorageD.sd_world) /\ sp_registered StorageD.sd_world = [0] /\
  forall aid a, nth_error (w_archs StorageD.sd_world) aid = Some a ->
    exists tid t, a_tables a = [tid] /\ a_free a = [] /\ a_numrel a = 0 /\
      nth_error (w_tables StorageD.sd_world) tid = Some t /\ t_arch t = aid /\ t_free t = false /\ t_len t <= t_cap t /\
      sp_arch_vec StorageD.sd_world a = [Zn (length (a_comps a)); 0%Z; 0%Z; Zn (t_len t); Zn (t_cap t); 1%Z; Zn (t_len t); Zn (t_cap t)].
Proof.
  split; [vm_compute; reflexivity|]. split; [vm_compute; reflexivity|]. split; [vm_compute; reflexivity|].
  exact (C19t_block_after_every_history _ _ StorageD.sd_cfg_ok sp_sd_script_reg StorageD.sd_script_short).
Qed.

(** ** Assumption audit *)
Definition sp_all :=
  (sp_table_place, sp_lists_partition, sp_nonfree_listed, sp_free_empty, used_equals_rows2, total_is_used_plus_recycled_WF,
   live_counted_once2, dead_counted_zero2, counted_at_most_once2, sp_live_rows_NoDup, sp_live_rows_length, sp_live_rows_in,
   stats_vec_shape, stats_table_counts, stats_size_le_cap2, stats_pairs_le, stats_sizes_sum2, stats_caps_sum2, stats_sizes_sum2_C19,
   sp_arch_lists_perm, stats_block_size_cap, stats_block_size_live, stats_recycled_meaning, stats_filters_meaning, stats_archetypes_distinct,
   sp_header_meaning, sp_arch_block_meaning,
   stats_observers_lists, stats_observers_registered, stats_observers_after_every_obs_history,
   stats_observers_example, stats_observers_registered_refuted, stats_observers_registered_needs_MInv,
   stats_total_readonly, stats_step, stats_shrink_clock, stats_shrink_tables_exact, stats_shrink_op,
   sp_osp_query_op, sp_step_os, reachable_quiet_obs,
   C19r_used_after_every_history, C19r_counted_once_after_every_history, C19r_tables_after_every_history,
   C19r_sizes_sum_after_every_history, C19r_header_after_every_history, C19r_block_after_every_history, C19r_block_size_after_every_history,
   C19r_stats_after_every_history, C19r_shrink_after_every_history,
   C19t_block_after_every_history, C19t_tables_after_every_history, C19t_used_after_every_history, C19t_header_after_every_history,
   sp_script_runs, sp_world_inv, sp_world_shape, sp_world_vector, sp_world_used, sp_world_counts, sp_world_header, sp_world_block,
   sp_shrink_vectors, sp_pre_shrink, sp_pre_shrink_exact, sp_pre_shrink_tables, sp_sd_world).
Print Assumptions sp_all.
