(** * QueryProofs: filters, the query cursor and Count/EntityAt (filter.go, query_gen.go,
    query_count.go). Properties C03 (queries visit exactly the selected rows, Count, EntityAt),
    C13 (queries do not write the world), C20 (debug build panics on the same calls). To be filled. *)
From Ark Require Import Model.Base Model.Mask Model.Pool Model.Util Model.World Model.Run.
From Ark Require Import Proofs.MaskProofs Proofs.ObsDoc Proofs.TableProofs Proofs.WF Proofs.StorageA Proofs.LockWorld Proofs.Hoare.
From Ark Require Properties.Common.
From RecordUpdate Require Import RecordSet.
Import RecordSetNotations.
From Coq Require Import Lia.

(** ** Filter matching is set inclusion / disjointness (mask level, all bits) *)
Theorem filter_matches_spec : forall f m,
  filter_matches f m = true <->
  subset (f_mask f) m /\ (f_haswithout f = true -> disjoint m (f_without f)).
Proof.
  intros f m. unfold filter_matches.
  rewrite Bool.andb_true_iff, Bool.orb_true_iff, !Bool.negb_true_iff, contains_subset, contains_any_disjoint.
  split; intros [H1 H2]; split; try exact H1.
  - intros Hw. destruct H2 as [H2|H2]; [congruence | exact H2].
  - destruct (f_haswithout f); [right; apply H2; reflexivity | left; reflexivity].
Qed.

(** An exclusive filter (without = complement of the mask within the mask width) matches exactly its own mask. *)
Theorem filter_exclusive_exact : forall bits f m,
  f_haswithout f = true -> f_without f = mk_not bits (f_mask f) ->
  (forall j, mk_get m j = true -> j < bits) -> (forall j, mk_get (f_mask f) j = true -> j < bits) ->
  (filter_matches f m = true <-> m = f_mask f).
Proof.
  intros bits f m Hw He Hm Hf. rewrite filter_matches_spec. split.
  - intros [Hs Hd]. specialize (Hd Hw). apply mk_eq_ext. intros j.
    destruct (mk_get m j) eqn:E1, (mk_get (f_mask f) j) eqn:E2; try reflexivity.
    + exfalso. apply (Hd j). split; [exact E1|]. rewrite He, mk_get_not by (apply Hm; exact E1).
      rewrite E2. reflexivity.
    + apply Hs in E2. congruence.
  - intros ->. split; [intros j Hj; exact Hj|]. intros _ j [H1 H2].
    rewrite He, mk_get_not in H2 by (apply Hf; exact H1). rewrite H1 in H2. discriminate.
Qed.

(** ** Queries never write the world: every query operation only changes the query objects, the
    lock, and nothing else (in particular no storage field and no observer field). *)
Definition query_frame (s s' : W) : Prop :=
  w_cfg s' = w_cfg s /\ w_reg s' = w_reg s /\ w_pool s' = w_pool s /\ w_index s' = w_index s /\
  w_istarget s' = w_istarget s /\ w_archs s' = w_archs s /\ w_tables s' = w_tables s /\
  w_relarchs s' = w_relarchs s /\ w_compindex s' = w_compindex s /\ w_archcount s' = w_archcount s /\
  w_version s' = w_version s /\ w_cheap s' = w_cheap s /\ w_centries s' = w_centries s /\
  w_cpool s' = w_cpool s /\ w_filters s' = w_filters s /\ w_res s' = w_res s /\ w_issued s' = w_issued s /\
  w_obs s' = w_obs s /\ w_olists s' = w_olists s /\ w_oagg s' = w_oagg s /\ w_log s' = w_log s.

(** *** The local loops of the query operations as top-level fixpoints *)
Definition q_nt_go (q : qobj) (tables : list nat) : nat -> nat -> MW (option (nat * nat)) :=
  fix go (fuel : nat) (pos : nat) : MW (option (nat * nat)) :=
  match fuel with
  | O => ret None
  | S f =>
      match nth_error tables pos with
      | None => ret None
      | Some tid =>
          t <- getT tid ;;
          if Nat.eqb (t_len t) 0 then go f (S pos)
          else
            mt <- of_opt (tbl_matches t (q_rels q)) ENil ;;
            if mt then ret (Some (pos, tid)) else go f (S pos)
      end
  end.
Lemma q_nt_go_0 : forall q tables pos, q_nt_go q tables 0 pos = ret None.
Proof. reflexivity. Qed.
Lemma q_nt_go_S : forall q tables f pos, q_nt_go q tables (S f) pos =
  match nth_error tables pos with
  | None => ret None
  | Some tid =>
      t <- getT tid ;;
      if Nat.eqb (t_len t) 0 then q_nt_go q tables f (S pos)
      else
        mt <- of_opt (tbl_matches t (q_rels q)) ENil ;;
        if mt then ret (Some (pos, tid)) else q_nt_go q tables f (S pos)
  end.
Proof. reflexivity. Qed.

Lemma q_next_table_eq : forall qi tables cached,
  query_next_table qi tables cached =
  (q <- getQ qi ;;
   r <- on_err (q_nt_go q tables (S (length tables)) (q_tab q - 1))
          (fun s => s <| w_queries ::= updf qi (fun q0 => q0 <| q_tab := nt_fail_pos s (q_rels q) tables (S (length tables)) (q_tab q - 1) + 2 |>) |>) ;;
   match r with
   | Some (pos, tid) => query_set_table qi pos tid ;;; ret true
   | None =>
       modQ qi (fun q => q <| q_tab := Nat.max (q_tab q) (length tables + 1) |>) ;;;
       whenM cached (query_close qi) ;;;
       ret false
   end).
Proof. reflexivity. Qed.

Lemma q_on_err_ok : forall A (m : MW A) h s a s', m s = Ok a s' -> on_err m h s = Ok a s'.
Proof. intros A m h s a s' H. unfold on_err. rewrite H. reflexivity. Qed.

Definition q_na_go (qi : nat) (archs : list nat) (f : fobj) : nat -> nat -> MW bool :=
  fix go (fuel : nat) (pos : nat) : MW bool :=
  match fuel with
  | O => ret false
  | S fu =>
      match nth_error archs pos with
      | None => ret false
      | Some aid =>
          modQ qi (fun q => q <| q_arch := pos + 2 |>) ;;;
          a <- getA aid ;;
          if negb (filter_matches f (a_mask a)) then go fu (S pos)
          else if negb (arch_has_rels a) then
            match a_tables a with
            | [] => fail EIndex
            | t0 :: _ =>
                t <- getT t0 ;;
                if Nat.ltb 0 (t_len t) then query_set_table qi 0 t0 ;;; ret true
                else go fu (S pos)
            end
          else
            q <- getQ qi ;;
            tabs <- of_opt (arch_get_tables a (q_rels q)) EIndex ;;
            modQ qi (fun q => q <| q_tables := tabs |> <| q_tab := 1 |> <| q_table := None |>) ;;;
            found <- query_next_table qi tabs false ;;
            if found then ret true else go fu (S pos)
      end
  end.
Lemma q_na_go_0 : forall qi archs f pos, q_na_go qi archs f 0 pos = ret false.
Proof. reflexivity. Qed.
Lemma q_na_go_S : forall qi archs f fu pos, q_na_go qi archs f (S fu) pos =
  match nth_error archs pos with
  | None => ret false
  | Some aid =>
      modQ qi (fun q => q <| q_arch := pos + 2 |>) ;;;
      a <- getA aid ;;
      if negb (filter_matches f (a_mask a)) then q_na_go qi archs f fu (S pos)
      else if negb (arch_has_rels a) then
        match a_tables a with
        | [] => fail EIndex
        | t0 :: _ =>
            t <- getT t0 ;;
            if Nat.ltb 0 (t_len t) then query_set_table qi 0 t0 ;;; ret true
            else q_na_go qi archs f fu (S pos)
        end
      else
        q <- getQ qi ;;
        tabs <- of_opt (arch_get_tables a (q_rels q)) EIndex ;;
        modQ qi (fun q => q <| q_tables := tabs |> <| q_tab := 1 |> <| q_table := None |>) ;;;
        found <- query_next_table qi tabs false ;;
        if found then ret true else q_na_go qi archs f fu (S pos)
  end.
Proof. reflexivity. Qed.

Lemma q_next_archetype_eq : forall qi,
  query_next_archetype qi =
  (modQ qi (fun q => q <| q_tables := [] |>) ;;;
   q <- getQ qi ;;
   guard (Nat.leb 1 (q_arch q)) EIndex ;;;
   s <- get ;;
   f <- getF (q_filter q) ;;
   r <- q_na_go qi (query_archetypes s q) f (S (length (query_archetypes s q))) (q_arch q - 1) ;;
   if r then ret true else query_close qi ;;; ret false).
Proof. reflexivity. Qed.

Definition q_tm_go (s : W) (rels : list rel) (need_nonempty : bool) : list nat -> list nat -> res W (list nat) :=
  fix go (l : list nat) (acc : list nat) : res W (list nat) :=
  match l with
  | [] => Ok (rev acc) s
  | tid :: rest =>
      match nth_error (w_tables s) tid with
      | None => Err EIndex s
      | Some t =>
          if (need_nonempty && Nat.eqb (t_len t) 0)%bool then go rest acc
          else match tbl_matches t rels with
               | None => Err ENil s
               | Some true => go rest (tid :: acc)
               | Some false => go rest acc
               end
      end
  end.
Lemma q_tm_go_nil : forall s rels ne acc, q_tm_go s rels ne [] acc = Ok (rev acc) s.
Proof. reflexivity. Qed.
Lemma q_tm_go_cons : forall s rels ne tid rest acc, q_tm_go s rels ne (tid :: rest) acc =
  match nth_error (w_tables s) tid with
  | None => Err EIndex s
  | Some t =>
      if (ne && Nat.eqb (t_len t) 0)%bool then q_tm_go s rels ne rest acc
      else match tbl_matches t rels with
           | None => Err ENil s
           | Some true => q_tm_go s rels ne rest (tid :: acc)
           | Some false => q_tm_go s rels ne rest acc
           end
  end.
Proof. reflexivity. Qed.

Lemma q_tables_matching_eq : forall s tabs rels ne, tables_matching s tabs rels ne = q_tm_go s rels ne tabs [].
Proof. reflexivity. Qed.

Definition q_walk_go (f : fobj) (q : qobj) : list nat -> list (nat * nat) -> MW (list (nat * nat)) :=
  fix go (l : list nat) (acc : list (nat * nat)) : MW (list (nat * nat)) :=
  match l with
  | [] => ret acc
  | aid :: rest =>
      a <- getA aid ;;
      if negb (filter_matches f (a_mask a)) then go rest acc
      else if negb (arch_has_rels a) then
        match a_tables a with
        | t0 :: _ => t <- getT t0 ;; go rest (acc ++ [(t0, t_len t)])
        | [] => fail EIndex
        end
      else
        cand <- of_opt (arch_get_tables a (q_rels q)) EIndex ;;
        ts <- (fun s => count_tables s cand (q_rels q) false) ;;
        go rest (acc ++ ts)
  end.
Lemma q_walk_go_nil : forall f q acc, q_walk_go f q [] acc = ret acc.
Proof. reflexivity. Qed.
Lemma q_walk_go_cons : forall f q aid rest acc, q_walk_go f q (aid :: rest) acc =
  (a <- getA aid ;;
   if negb (filter_matches f (a_mask a)) then q_walk_go f q rest acc
   else if negb (arch_has_rels a) then
     match a_tables a with
     | t0 :: _ => t <- getT t0 ;; q_walk_go f q rest (acc ++ [(t0, t_len t)])
     | [] => fail EIndex
     end
   else
     cand <- of_opt (arch_get_tables a (q_rels q)) EIndex ;;
     ts <- (fun s => count_tables s cand (q_rels q) false) ;;
     q_walk_go f q rest (acc ++ ts)).
Proof. reflexivity. Qed.

Lemma q_walk_eq : forall qi,
  query_walk qi =
  (q <- getQ qi ;;
   s <- get ;;
   match q_cache q with
   | Some addr =>
       e <- of_opt (nth_error (w_cheap s) addr) EIndex ;;
       (fun s => count_tables s (ce_tables e) (q_rels q) true)
   | None =>
       f <- getF (q_filter q) ;;
       q_walk_go f q (query_archetypes s q) []
   end).
Proof. reflexivity. Qed.

Definition q_eat_go (index : nat) : list (nat * nat) -> nat -> MW ent :=
  fix go (l : list (nat * nat)) (count : nat) : MW ent :=
  match l with
  | [] => fail EIndex
  | (tid, len) :: rest =>
      if Nat.ltb index (count + len) then
        t <- getT tid ;; of_opt (nth_error (t_ents t) (index - count)) EIndex
      else go rest (count + len)
  end.
Lemma q_eat_go_nil : forall index count, q_eat_go index [] count = fail EIndex.
Proof. reflexivity. Qed.
Lemma q_eat_go_cons : forall index tid len rest count, q_eat_go index ((tid, len) :: rest) count =
  if Nat.ltb index (count + len) then
    t <- getT tid ;; of_opt (nth_error (t_ents t) (index - count)) EIndex
  else q_eat_go index rest (count + len).
Proof. reflexivity. Qed.

(** The lazy walk of EntityAt: the table loop [entity_at_tables] and the archetype loop as a
    top-level fixpoint. *)
Lemma q_eat_tables_nil : forall index rels ne count, entity_at_tables index rels ne [] count = ret (inr count).
Proof. reflexivity. Qed.
Lemma q_eat_tables_cons : forall index rels ne tid rest count, entity_at_tables index rels ne (tid :: rest) count =
  (t <- getT tid ;;
   if (ne && Nat.eqb (t_len t) 0)%bool then entity_at_tables index rels ne rest count
   else
     mt <- of_opt (tbl_matches t rels) ENil ;;
     if negb mt then entity_at_tables index rels ne rest count
     else if Nat.ltb index (count + t_len t) then
       e <- of_opt (nth_error (t_ents t) (index - count)) EIndex ;; ret (inl e)
     else entity_at_tables index rels ne rest (count + t_len t)).
Proof. reflexivity. Qed.

Definition q_eatl_go (index : nat) (f : fobj) (q : qobj) : list nat -> nat -> MW ent :=
  fix go (l : list nat) (count : nat) : MW ent :=
  match l with
  | [] => fail EIndex
  | aid :: rest =>
      a <- getA aid ;;
      if negb (filter_matches f (a_mask a)) then go rest count
      else if negb (arch_has_rels a) then
        match a_tables a with
        | t0 :: _ =>
            t <- getT t0 ;;
            if Nat.ltb index (count + t_len t) then of_opt (nth_error (t_ents t) (index - count)) EIndex
            else go rest (count + t_len t)
        | [] => fail EIndex
        end
      else
        cand <- of_opt (arch_get_tables a (q_rels q)) EIndex ;;
        r <- entity_at_tables index (q_rels q) false cand count ;;
        match r with inl x => ret x | inr c => go rest c end
  end.
Lemma q_eatl_go_nil : forall index f q count, q_eatl_go index f q [] count = fail EIndex.
Proof. reflexivity. Qed.
Lemma q_eatl_go_cons : forall index f q aid rest count, q_eatl_go index f q (aid :: rest) count =
  (a <- getA aid ;;
   if negb (filter_matches f (a_mask a)) then q_eatl_go index f q rest count
   else if negb (arch_has_rels a) then
     match a_tables a with
     | t0 :: _ =>
         t <- getT t0 ;;
         if Nat.ltb index (count + t_len t) then of_opt (nth_error (t_ents t) (index - count)) EIndex
         else q_eatl_go index f q rest (count + t_len t)
     | [] => fail EIndex
     end
   else
     cand <- of_opt (arch_get_tables a (q_rels q)) EIndex ;;
     r <- entity_at_tables index (q_rels q) false cand count ;;
     match r with inl x => ret x | inr c => q_eatl_go index f q rest c end).
Proof. reflexivity. Qed.

Lemma q_entity_at_eq : forall qi index,
  query_entity_at qi index =
  (q <- getQ qi ;;
   s <- get ;;
   match q_cache q with
   | Some addr =>
       e <- of_opt (nth_error (w_cheap s) addr) EIndex ;;
       r <- entity_at_tables index (q_rels q) true (ce_tables e) 0 ;;
       match r with inl x => ret x | inr _ => fail EIndex end
   | None =>
       f <- getF (q_filter q) ;;
       q_eatl_go index f q (query_archetypes s q) 0
   end).
Proof. reflexivity. Qed.

(** The eager form "index into a complete walk" cut at the end of a prefix of the walk:
    [inl e] = found in the prefix, [inr count] = the running count after it. *)
Definition q_eat_part (index : nat) : list (nat * nat) -> nat -> MW (ent + nat) :=
  fix go (l : list (nat * nat)) (count : nat) : MW (ent + nat) :=
  match l with
  | [] => ret (inr count)
  | (tid, len) :: rest =>
      if Nat.ltb index (count + len) then
        t <- getT tid ;; e <- of_opt (nth_error (t_ents t) (index - count)) EIndex ;; ret (inl e)
      else go rest (count + len)
  end.
Lemma q_eat_part_nil : forall index count, q_eat_part index [] count = ret (inr count).
Proof. reflexivity. Qed.
Lemma q_eat_part_cons : forall index tid len rest count, q_eat_part index ((tid, len) :: rest) count =
  if Nat.ltb index (count + len) then
    t <- getT tid ;; e <- of_opt (nth_error (t_ents t) (index - count)) EIndex ;; ret (inl e)
  else q_eat_part index rest (count + len).
Proof. reflexivity. Qed.

(** *** Frame framework: computations that only change [w_queries] and [w_lock] *)
Definition q_fr {A} (m : MW A) : Prop := forall s, query_frame s (state_of (m s)).

Lemma q_frame_refl : forall s, query_frame s s.
Proof. intros s. unfold query_frame. repeat split. Qed.
Lemma q_frame_trans : forall s1 s2 s3, query_frame s1 s2 -> query_frame s2 s3 -> query_frame s1 s3.
Proof.
  unfold query_frame. intros s1 s2 s3 H1 H2.
  repeat match goal with H : _ /\ _ |- _ => destruct H end.
  repeat split; congruence.
Qed.

Lemma q_fr_readonly : forall A (m : MW A), readonly m -> q_fr m.
Proof. intros A m H s. rewrite H. apply q_frame_refl. Qed.
Lemma q_fr_ret : forall A (a : A), q_fr (ret a).
Proof. intros A a s. apply q_frame_refl. Qed.
Lemma q_fr_fail : forall A e, q_fr (@fail W A e).
Proof. intros A e s. apply q_frame_refl. Qed.
Lemma q_fr_get : q_fr (@get W).
Proof. intros s. apply q_frame_refl. Qed.
Lemma q_fr_guard : forall b e, q_fr (@guard W b e).
Proof. intros b e s. destruct b; apply q_frame_refl. Qed.
Lemma q_fr_of_opt : forall A (o : option A) e, q_fr (@of_opt W A o e).
Proof. intros A o e s. destruct o; apply q_frame_refl. Qed.
Lemma q_fr_bind : forall A B (m : MW A) (k : A -> MW B), q_fr m -> (forall a, q_fr (k a)) -> q_fr (bind m k).
Proof.
  intros A B m k Hm Hk s. unfold bind. specialize (Hm s).
  destruct (m s) as [a s'|e s'] eqn:E; cbn in Hm; [|exact Hm].
  eapply q_frame_trans; [exact Hm | apply Hk].
Qed.
Lemma q_fr_modify : forall f : W -> W, (forall s, query_frame s (f s)) -> q_fr (modify f).
Proof. intros f H s. apply H. Qed.
Lemma q_fr_put_queries : forall (s0 : W) l, query_frame s0 (s0 <| w_queries := l |>).
Proof. intros. unfold query_frame. cbn. repeat split. Qed.
Lemma q_fr_whenM : forall b m, q_fr m -> q_fr (whenM b m).
Proof. intros b m H. destruct b; [exact H | apply q_fr_ret]. Qed.
Lemma q_fr_modQ : forall qi f, q_fr (modQ qi f).
Proof. intros qi f s. unfold modQ, modify, query_frame. cbn. repeat split. Qed.
Lemma q_fr_lockM : q_fr lockM.
Proof.
  intros s. unfold lockM, bind, get. destruct (lock_lock (w_lock s)) as [[b l']|]; cbn;
    unfold query_frame; cbn; repeat split.
Qed.
Lemma q_fr_unlockM : forall b, q_fr (unlockM b).
Proof.
  intros b s. unfold unlockM, bind, get. destruct (lock_unlock (w_lock s) b) as [l'|]; cbn;
    unfold query_frame; cbn; repeat split.
Qed.
Lemma q_fr_getQ : forall qi, q_fr (getQ qi).
Proof. intros qi. apply q_fr_readonly. unfold getQ; ro. Qed.
Lemma q_fr_getT : forall i, q_fr (getT i).
Proof. intros i. apply q_fr_readonly, readonly_getT. Qed.
Lemma q_fr_getA : forall i, q_fr (getA i).
Proof. intros i. apply q_fr_readonly. unfold getA; ro. Qed.
Lemma q_fr_getF : forall i, q_fr (getF i).
Proof. intros i. apply q_fr_readonly, readonly_getF. Qed.

Ltac q_fr_step :=
  lazymatch goal with
  | |- q_fr (ret _) => apply q_fr_ret
  | |- q_fr (fail _) => apply q_fr_fail
  | |- q_fr get => apply q_fr_get
  | |- q_fr (guard _ _) => apply q_fr_guard
  | |- q_fr (of_opt _ _) => apply q_fr_of_opt
  | |- q_fr (modQ _ _) => apply q_fr_modQ
  | |- q_fr (getQ _) => apply q_fr_getQ
  | |- q_fr (getT _) => apply q_fr_getT
  | |- q_fr (getA _) => apply q_fr_getA
  | |- q_fr (getF _) => apply q_fr_getF
  | |- q_fr lockM => apply q_fr_lockM
  | |- q_fr (unlockM _) => apply q_fr_unlockM
  | |- q_fr (whenM _ _) => apply q_fr_whenM
  | |- q_fr (bind _ _) => apply q_fr_bind; [| intros ?]
  end.
Ltac q_fr_tac := repeat q_fr_step.

Lemma q_fr_close : forall qi, q_fr (query_close qi).
Proof. intros qi. unfold query_close. q_fr_tac. destruct (Nat.ltb _ _); q_fr_tac. Qed.

Lemma q_fr_set_table : forall qi pos tid, q_fr (query_set_table qi pos tid).
Proof. intros. unfold query_set_table. q_fr_tac. Qed.

Lemma q_fr_nt_go : forall q tables fuel pos, q_fr (q_nt_go q tables fuel pos).
Proof.
  intros q tables fuel. induction fuel as [|fu IH]; intros pos; [rewrite q_nt_go_0; apply q_fr_ret | rewrite q_nt_go_S].
  destruct (nth_error tables pos) as [tid|]; [|apply q_fr_ret].
  q_fr_tac. destruct (Nat.eqb _ _); [apply IH|]. q_fr_tac.
  match goal with |- q_fr (if ?b then _ else _) => destruct b end; [apply q_fr_ret | apply IH].
Qed.

Lemma q_fr_on_err : forall A (m : MW A) h, q_fr m -> (forall s, query_frame s (h s)) -> q_fr (on_err m h).
Proof.
  intros A m h Hm Hh s. unfold on_err. specialize (Hm s). destruct (m s) as [a s'|e s']; cbn [state_of] in *; [exact Hm|].
  eapply q_frame_trans; [exact Hm | apply Hh].
Qed.

Lemma q_fr_next_table : forall qi tables cached, q_fr (query_next_table qi tables cached).
Proof.
  intros. rewrite q_next_table_eq. q_fr_tac;
    [apply q_fr_on_err; [apply q_fr_nt_go | intros s0; unfold query_frame; cbn; repeat split]|].
  match goal with |- q_fr (match ?r with _ => _ end) => destruct r as [[pos tid]|] end; q_fr_tac.
  - apply q_fr_set_table.
  - apply q_fr_close.
Qed.

Lemma q_fr_na_go : forall qi archs f fuel pos, q_fr (q_na_go qi archs f fuel pos).
Proof.
  intros qi archs f fuel. induction fuel as [|fu IH]; intros pos; [rewrite q_na_go_0; apply q_fr_ret | rewrite q_na_go_S].
  destruct (nth_error archs pos) as [aid|]; [|apply q_fr_ret].
  q_fr_tac. destruct (negb (filter_matches f _)); [apply IH|].
  destruct (negb (arch_has_rels _)).
  - destruct (a_tables _) as [|t0 ?]; q_fr_tac. destruct (Nat.ltb _ _); [|apply IH]. q_fr_tac. apply q_fr_set_table.
  - q_fr_tac; [apply q_fr_next_table|].
    match goal with |- q_fr (if ?b then _ else _) => destruct b end; [apply q_fr_ret | apply IH].
Qed.

Lemma q_fr_next_archetype : forall qi, q_fr (query_next_archetype qi).
Proof.
  intros. rewrite q_next_archetype_eq. q_fr_tac; [apply q_fr_na_go|].
  match goal with |- q_fr (if ?b then _ else _) => destruct b end; q_fr_tac. apply q_fr_close.
Qed.

Lemma q_fr_next_toa : forall qi, q_fr (query_next_table_or_archetype qi).
Proof.
  intros. unfold query_next_table_or_archetype. q_fr_tac.
  match goal with |- q_fr (match q_cache ?q with _ => _ end) => destruct (q_cache q) end.
  - q_fr_tac. apply q_fr_next_table.
  - destruct (Nat.leb _ _); [|apply q_fr_next_archetype].
    q_fr_tac; [apply q_fr_next_table|].
    match goal with |- q_fr (if ?b then _ else _) => destruct b end; [apply q_fr_ret | apply q_fr_next_archetype].
Qed.

Theorem query_open_frame : forall fi rels s, query_frame s (state_of (query_open fi rels s)).
Proof.
  intros fi rels. change (q_fr (query_open fi rels)). unfold query_open.
  apply q_fr_bind; [apply q_fr_getF | intros f].
  apply q_fr_bind; [apply q_fr_whenM, q_fr_readonly, readonly_to_relations | intros _].
  apply q_fr_bind; [apply q_fr_get | intros s0].
  apply q_fr_bind; [destruct (f_cache f); q_fr_tac | intros cache].
  apply q_fr_bind; [apply q_fr_lockM | intros b].
  intros s. unfold bind, get, put, ret. cbn. apply q_fr_put_queries.
Qed.
Theorem query_next_frame : forall d qi s, query_frame s (state_of (query_next d qi s)).
Proof.
  intros d qi. change (q_fr (query_next d qi)). unfold query_next. q_fr_tac.
  match goal with |- q_fr (match q_max ?q with _ => _ end) => destruct (q_max q) end; [|apply q_fr_next_toa].
  destruct (Nat.ltb _ _); [q_fr_tac | apply q_fr_next_toa].
Qed.
Theorem query_close_frame : forall qi s, query_frame s (state_of (query_close qi s)).
Proof. intros qi. apply q_fr_close. Qed.

(** *** Monadic inversion helpers *)
Lemma q_getQ_eq : forall s qi q, nth_error (w_queries s) qi = Some q -> getQ qi s = Ok q s.
Proof. intros s qi q H. unfold getQ, bind, get, of_opt. rewrite H. reflexivity. Qed.
Lemma q_bind_ret : forall A B (a : A) (k : A -> MW B) s, bind (ret a) k s = k a s.
Proof. reflexivity. Qed.
Lemma q_bind_get : forall B (k : W -> MW B) s, bind get k s = k s s.
Proof. reflexivity. Qed.
Lemma q_bind_fail : forall A B e (k : A -> MW B) s, bind (fail e) k s = Err e s.
Proof. reflexivity. Qed.
Lemma q_bind_inv : forall A B (m : MW A) (k : A -> MW B) s b s',
  bind m k s = Ok b s' -> exists a s1, m s = Ok a s1 /\ k a s1 = Ok b s'.
Proof. intros A B m k s b s' H. unfold bind in H. destruct (m s) as [a s1|]; [eauto | discriminate]. Qed.
Lemma q_getA_inv : forall i s a s1, getA i s = Ok a s1 -> s1 = s /\ nth_error (w_archs s) i = Some a.
Proof. intros i s a s1 H. unfold getA, bind, get, of_opt in H. destruct (nth_error (w_archs s) i); inversion H; auto. Qed.
Lemma q_getT_inv : forall i s a s1, getT i s = Ok a s1 -> s1 = s /\ nth_error (w_tables s) i = Some a.
Proof. intros i s a s1 H. unfold getT, bind, get, of_opt in H. destruct (nth_error (w_tables s) i); inversion H; auto. Qed.
Lemma q_getF_inv : forall i s a s1, getF i s = Ok a s1 -> s1 = s /\ nth_error (w_filters s) i = Some a.
Proof. intros i s a s1 H. unfold getF, bind, get, of_opt in H. destruct (nth_error (w_filters s) i); inversion H; auto. Qed.
Lemma q_getQ_inv : forall i s a s1, getQ i s = Ok a s1 -> s1 = s /\ nth_error (w_queries s) i = Some a.
Proof. intros i s a s1 H. unfold getQ, bind, get, of_opt in H. destruct (nth_error (w_queries s) i); inversion H; auto. Qed.
Lemma q_of_opt_inv : forall A (o : option A) e (s : W) a s1, of_opt o e s = Ok a s1 -> s1 = s /\ o = Some a.
Proof. intros A o e s a s1 H. destruct o; inversion H; auto. Qed.
Lemma q_getF_eq : forall s i f, nth_error (w_filters s) i = Some f -> getF i s = Ok f s.
Proof. intros s i f H. unfold getF, bind, get, of_opt. rewrite H. reflexivity. Qed.

(** *** Count / EntityAt / Entity are read-only *)
Lemma q_ro_tm_go : forall s rels ne l acc, state_of (q_tm_go s rels ne l acc) = s.
Proof.
  intros s rels ne l. induction l as [|tid rest IH]; intros acc; [reflexivity | rewrite q_tm_go_cons].
  destruct (nth_error (w_tables s) tid) as [t|]; [|reflexivity].
  destruct (ne && Nat.eqb (t_len t) 0)%bool; [apply IH|].
  destruct (tbl_matches t rels) as [[|]|]; [apply IH | apply IH | reflexivity].
Qed.
Lemma q_ro_count_tables : forall tabs rels ne, readonly (fun s => count_tables s tabs rels ne).
Proof.
  intros tabs rels ne s. unfold count_tables. rewrite q_tables_matching_eq.
  pose proof (q_ro_tm_go s rels ne tabs []) as H. destruct (q_tm_go s rels ne tabs []); exact H.
Qed.
Lemma q_ro_getQ : forall qi, readonly (getQ qi).
Proof. intros. unfold getQ; ro. Qed.
Lemma q_ro_getA : forall i, readonly (getA i).
Proof. intros. unfold getA; ro. Qed.
Lemma q_ro_walk_go : forall f q l acc, readonly (q_walk_go f q l acc).
Proof.
  intros f q l. induction l as [|aid rest IH]; intros acc; [apply readonly_ret | rewrite q_walk_go_cons].
  apply readonly_bind; [apply q_ro_getA | intros a].
  destruct (negb (filter_matches f (a_mask a))); [apply IH|].
  destruct (negb (arch_has_rels a)).
  - destruct (a_tables a) as [|t0 ?]; [apply readonly_fail|].
    apply readonly_bind; [apply readonly_getT | intros t; apply IH].
  - apply readonly_bind; [apply readonly_of_opt | intros cand].
    apply readonly_bind; [apply q_ro_count_tables | intros ts; apply IH].
Qed.
Lemma q_ro_walk : forall qi, readonly (query_walk qi).
Proof.
  intros. rewrite q_walk_eq.
  apply readonly_bind; [apply q_ro_getQ | intros q].
  apply readonly_bind; [apply readonly_get | intros s].
  destruct (q_cache q).
  - apply readonly_bind; [apply readonly_of_opt | intros e; apply q_ro_count_tables].
  - apply readonly_bind; [apply readonly_getF | intros f; apply q_ro_walk_go].
Qed.
Lemma q_ro_eat_go : forall index l count, readonly (q_eat_go index l count).
Proof.
  intros index l. induction l as [|[tid len] rest IH]; intros count; [apply readonly_fail | rewrite q_eat_go_cons].
  destruct (Nat.ltb _ _); [|apply IH].
  apply readonly_bind; [apply readonly_getT | intros t; apply readonly_of_opt].
Qed.

Theorem query_count_readonly : forall qi s, state_of (query_count qi s) = s.
Proof.
  intros qi. change (readonly (query_count qi)). unfold query_count.
  apply readonly_bind; [apply q_ro_walk | intros w; apply readonly_ret].
Qed.
Lemma q_ro_eat_part : forall index l count, readonly (q_eat_part index l count).
Proof.
  intros index l. induction l as [|[tid len] rest IH]; intros count; [apply readonly_ret | rewrite q_eat_part_cons].
  destruct (Nat.ltb _ _); [|apply IH].
  apply readonly_bind; [apply readonly_getT | intros t].
  apply readonly_bind; [apply readonly_of_opt | intros e; apply readonly_ret].
Qed.
Lemma q_ro_eat_tables : forall index rels ne l count, readonly (entity_at_tables index rels ne l count).
Proof.
  intros index rels ne l. induction l as [|tid rest IH]; intros count; [apply readonly_ret | rewrite q_eat_tables_cons].
  apply readonly_bind; [apply readonly_getT | intros t].
  destruct (ne && Nat.eqb (t_len t) 0)%bool; [apply IH|].
  apply readonly_bind; [apply readonly_of_opt | intros mt].
  destruct (negb mt); [apply IH|].
  destruct (Nat.ltb _ _); [|apply IH].
  apply readonly_bind; [apply readonly_of_opt | intros e; apply readonly_ret].
Qed.
Lemma q_ro_eatl_go : forall index f q l count, readonly (q_eatl_go index f q l count).
Proof.
  intros index f q l. induction l as [|aid rest IH]; intros count; [apply readonly_fail | rewrite q_eatl_go_cons].
  apply readonly_bind; [apply q_ro_getA | intros a].
  destruct (negb (filter_matches f (a_mask a))); [apply IH|].
  destruct (negb (arch_has_rels a)).
  - destruct (a_tables a) as [|t0 ?]; [apply readonly_fail|].
    apply readonly_bind; [apply readonly_getT | intros t].
    destruct (Nat.ltb _ _); [apply readonly_of_opt | apply IH].
  - apply readonly_bind; [apply readonly_of_opt | intros cand].
    apply readonly_bind; [apply q_ro_eat_tables | intros r].
    destruct r as [x|c]; [apply readonly_ret | apply IH].
Qed.
Theorem query_entity_at_readonly : forall qi i s, state_of (query_entity_at qi i s) = s.
Proof.
  intros qi i. change (readonly (query_entity_at qi i)). rewrite q_entity_at_eq.
  apply readonly_bind; [apply q_ro_getQ | intros q].
  apply readonly_bind; [apply readonly_get | intros s].
  destruct (q_cache q).
  - apply readonly_bind; [apply readonly_of_opt | intros e].
    apply readonly_bind; [apply q_ro_eat_tables | intros r].
    destruct r as [x|c]; [apply readonly_ret | apply readonly_fail].
  - apply readonly_bind; [apply readonly_getF | intros f; apply q_ro_eatl_go].
Qed.
Theorem query_entity_readonly : forall d qi s, state_of (query_entity d qi s) = s.
Proof.
  intros d qi. change (readonly (query_entity d qi)). unfold query_entity.
  apply readonly_bind; [apply q_ro_getQ | intros q].
  apply readonly_bind; [destruct d; [apply readonly_guard | apply readonly_ret] | intros _].
  apply readonly_bind; [apply readonly_of_opt | intros tid].
  apply readonly_bind; [apply readonly_getT | intros t; apply readonly_of_opt].
Qed.

(** ** Count and EntityAt agree with the walk *)
Theorem query_count_is_walk_sum : forall qi s w s',
  query_walk qi s = Ok w s' -> query_count qi s = Ok (fold_left (fun acc p => acc + snd p) w 0) s'.
Proof. intros qi s w s' H. unfold query_count, bind. rewrite H. reflexivity. Qed.

(** EntityAt i is the i-th entity of the concatenated rows of the walked tables, and fails exactly
    beyond the count. *)
Definition walk_rows (s : W) (w : list (nat * nat)) : list ent :=
  flat_map (fun p : nat * nat => match nth_error (w_tables s) (fst p) with
                                 | Some t => firstn (snd p) (t_ents t)
                                 | None => [] end) w.

Lemma q_nth_error_firstn : forall A (l : list A) n i, i < n -> nth_error (firstn n l) i = nth_error l i.
Proof.
  intros A l. induction l as [|x l IH]; intros n i H.
  - rewrite firstn_nil. reflexivity.
  - destruct n as [|n]; [lia|]. destruct i as [|i]; cbn; [reflexivity|]. apply IH. lia.
Qed.

Lemma q_walk_rows_cons : forall s p w, walk_rows s (p :: w) =
  match nth_error (w_tables s) (fst p) with Some t => firstn (snd p) (t_ents t) | None => [] end ++ walk_rows s w.
Proof. reflexivity. Qed.
Lemma q_walk_rows_app : forall s w1 w2, walk_rows s (w1 ++ w2) = walk_rows s w1 ++ walk_rows s w2.
Proof. intros. unfold walk_rows. apply flat_map_app. Qed.

Lemma q_eat_go_spec : forall s i w count,
  (forall p, In p w -> exists t, nth_error (w_tables s) (fst p) = Some t /\ snd p = t_len t /\ t_len t <= length (t_ents t)) ->
  count <= i ->
  match q_eat_go i w count s with
  | Ok e s' => s' = s /\ nth_error (walk_rows s w) (i - count) = Some e
  | Err _ s' => s' = s /\ length (walk_rows s w) + count <= i
  end.
Proof.
  intros s i w. induction w as [|[tid len] rest IH]; intros count Hw Hc.
  - rewrite q_eat_go_nil. cbn. split; [reflexivity | lia].
  - rewrite q_eat_go_cons, q_walk_rows_cons. cbn [fst snd].
    destruct (Hw (tid, len) (or_introl eq_refl)) as (t & Ht & Hl & Hle). cbn [fst snd] in Ht, Hl.
    rewrite Ht.
    assert (Hfl : length (firstn len (t_ents t)) = len) by (rewrite firstn_length; lia).
    destruct (Nat.ltb_spec i (count + len)) as [Hlt|Hge].
    + unfold bind. rewrite (sa_getT_eq s tid t Ht).
      rewrite nth_error_app1 by lia. rewrite q_nth_error_firstn by lia.
      destruct (nth_error (t_ents t) (i - count)) eqn:E; cbn.
      * split; reflexivity.
      * apply nth_error_None in E. lia.
    + specialize (IH (count + len) (fun p Hp => Hw p (or_intror Hp)) Hge).
      destruct (q_eat_go i rest (count + len) s) as [e s'|e s'].
      * destruct IH as [-> IH]. split; [reflexivity|].
        rewrite nth_error_app2 by lia. rewrite Hfl.
        replace (i - count - len) with (i - (count + len)) by lia. exact IH.
      * destruct IH as [-> IH]. split; [reflexivity|]. rewrite app_length. lia.
Qed.

(** *** The lazy walk of EntityAt agrees with "complete walk, then index" whenever the complete
    walk succeeds; more generally it only depends on the prefix of the walk up to the index. *)
Lemma q_bind_getT : forall B s tid t (k : table -> MW B),
  nth_error (w_tables s) tid = Some t -> bind (getT tid) k s = k t s.
Proof. intros B s tid t k H. unfold bind. rewrite (sa_getT_eq s tid t H). reflexivity. Qed.
Lemma q_bind_getA : forall B s aid a (k : arch -> MW B),
  nth_error (w_archs s) aid = Some a -> bind (getA aid) k s = k a s.
Proof. intros B s aid a k H. unfold getA, bind, get, of_opt. rewrite H. reflexivity. Qed.
Lemma q_bind_getQ : forall B s qi q (k : qobj -> MW B),
  nth_error (w_queries s) qi = Some q -> bind (getQ qi) k s = k q s.
Proof. intros B s qi q k H. unfold bind. rewrite (q_getQ_eq s qi q H). reflexivity. Qed.
Lemma q_bind_getF : forall B s fi f (k : fobj -> MW B),
  nth_error (w_filters s) fi = Some f -> bind (getF fi) k s = k f s.
Proof. intros B s fi f k H. unfold bind. rewrite (q_getF_eq s fi f H). reflexivity. Qed.

Lemma q_eat_part_app : forall index w1 w2 count s,
  q_eat_part index (w1 ++ w2) count s =
  (r <- q_eat_part index w1 count ;;
   match r with inl x => ret (inl x) | inr c => q_eat_part index w2 c end) s.
Proof.
  intros index w1 w2. induction w1 as [|[tid len] rest IH]; intros count s; [reflexivity|].
  cbn [app]. rewrite !q_eat_part_cons. destruct (Nat.ltb index (count + len)).
  - unfold bind. destruct (getT tid s) as [t s1|e s1]; [|reflexivity].
    destruct (nth_error (t_ents t) (index - count)); reflexivity.
  - rewrite IH. reflexivity.
Qed.
Lemma q_eat_go_app : forall index w1 w2 count s,
  q_eat_go index (w1 ++ w2) count s =
  (r <- q_eat_part index w1 count ;;
   match r with inl x => ret x | inr c => q_eat_go index w2 c end) s.
Proof.
  intros index w1 w2. induction w1 as [|[tid len] rest IH]; intros count s; [reflexivity|].
  cbn [app]. rewrite q_eat_go_cons, q_eat_part_cons. destruct (Nat.ltb index (count + len)).
  - unfold bind. destruct (getT tid s) as [t s1|e s1]; [|reflexivity].
    destruct (nth_error (t_ents t) (index - count)); reflexivity.
  - rewrite IH. reflexivity.
Qed.
Lemma q_eat_go_part : forall index w count s,
  q_eat_go index w count s =
  (r <- q_eat_part index w count ;; match r with inl x => ret x | inr _ => fail EIndex end) s.
Proof.
  intros index w count s. rewrite <- (app_nil_r w) at 1. rewrite q_eat_go_app.
  unfold bind. destruct (q_eat_part index w count s) as [[x|c] s1|e s1]; reflexivity.
Qed.

(** The table loop: on the tables of one archetype (or of the cache entry) the lazy scan is the
    partial eager scan of the (table, len) pairs that [count_tables] returns. *)
Lemma q_eat_tables_tm : forall index s rels ne L acc l s',
  q_tm_go s rels ne L acc = Ok l s' ->
  exists l0, l = rev acc ++ l0 /\
    forall count, entity_at_tables index rels ne L count s =
      q_eat_part index (map (fun tid => (tid, match nth_error (w_tables s) tid with Some t => t_len t | None => 0 end)) l0) count s.
Proof.
  intros index s rels ne L. induction L as [|tid L IH]; intros acc l s' H.
  - rewrite q_tm_go_nil in H. inversion H. exists []. rewrite app_nil_r. split; reflexivity.
  - rewrite q_tm_go_cons in H. destruct (nth_error (w_tables s) tid) as [t|] eqn:Et; [|discriminate].
    assert (Hskip : forall acc', q_tm_go s rels ne L acc' = Ok l s' ->
              (forall count, entity_at_tables index rels ne (tid :: L) count s = entity_at_tables index rels ne L count s) ->
              exists l0, l = rev acc' ++ l0 /\
                forall count, entity_at_tables index rels ne (tid :: L) count s =
                  q_eat_part index (map (fun tid => (tid, match nth_error (w_tables s) tid with Some t => t_len t | None => 0 end)) l0) count s).
    { intros acc' H' Hs. destruct (IH acc' l s' H') as (l0 & -> & Hl0). exists l0. split; [reflexivity|].
      intros count. rewrite Hs. apply Hl0. }
    destruct (ne && Nat.eqb (t_len t) 0)%bool eqn:Ene.
    + apply Hskip; [exact H|]. intros count. rewrite q_eat_tables_cons, (q_bind_getT _ s tid t _ Et), Ene. reflexivity.
    + destruct (tbl_matches t rels) as [[|]|] eqn:Em; [| |discriminate].
      * destruct (IH (tid :: acc) l s' H) as (l0 & -> & Hl0). exists (tid :: l0).
        split; [cbn [rev]; rewrite <- app_assoc; reflexivity|].
        intros count. rewrite q_eat_tables_cons, (q_bind_getT _ s tid t _ Et), Ene, Em.
        cbn [map]. rewrite q_eat_part_cons, Et.
        change (bind (of_opt (Some true) ENil) ?k s) with (k true s). cbv beta. cbn [negb].
        destruct (Nat.ltb index (count + t_len t)).
        -- rewrite (q_bind_getT _ s tid t _ Et). reflexivity.
        -- apply Hl0.
      * apply Hskip; [exact H|]. intros count. rewrite q_eat_tables_cons, (q_bind_getT _ s tid t _ Et), Ene, Em. reflexivity.
Qed.
Lemma q_eat_tables_count : forall index s rels ne L ts s',
  count_tables s L rels ne = Ok ts s' ->
  s' = s /\ forall count, entity_at_tables index rels ne L count s = q_eat_part index ts count s.
Proof.
  intros index s rels ne L ts s' H.
  pose proof (q_ro_count_tables L rels ne s) as Hro. cbv beta in Hro. rewrite H in Hro. cbn [state_of] in Hro.
  split; [exact Hro|].
  unfold count_tables in H. rewrite q_tables_matching_eq in H.
  destruct (q_tm_go s rels ne L []) as [l s1|] eqn:E; [|discriminate]. inversion H; subst.
  destruct (q_eat_tables_tm index s rels ne L [] l s E) as (l0 & -> & Hl0). exact Hl0.
Qed.

(** The archetype loop: for a prefix [L1] of the archetype list whose complete walk succeeds,
    the lazy walk over [L1 ++ L2] is the partial eager scan of the walk of [L1], continued lazily
    on [L2] - whatever [L2] contains. *)
Lemma q_eatl_go_app : forall index f q L1 L2 acc s w s',
  q_walk_go f q L1 acc s = Ok w s' ->
  s' = s /\ exists w0, w = acc ++ w0 /\
    forall count, q_eatl_go index f q (L1 ++ L2) count s =
      (r <- q_eat_part index w0 count ;;
       match r with inl x => ret x | inr c => q_eatl_go index f q L2 c end) s.
Proof.
  intros index f q L1 L2. induction L1 as [|aid L IH]; intros acc s w s' H.
  - rewrite q_walk_go_nil in H. inversion H. split; [reflexivity|]. exists []. rewrite app_nil_r. split; reflexivity.
  - rewrite q_walk_go_cons in H. apply q_bind_inv in H. destruct H as (a & s1 & Ha & H).
    apply q_getA_inv in Ha. destruct Ha as [-> Ea].
    assert (Hstep : forall count, q_eatl_go index f q ((aid :: L) ++ L2) count s =
              (if negb (filter_matches f (a_mask a)) then q_eatl_go index f q (L ++ L2) count
               else if negb (arch_has_rels a) then
                 match a_tables a with
                 | t0 :: _ =>
                     t <- getT t0 ;;
                     if Nat.ltb index (count + t_len t) then of_opt (nth_error (t_ents t) (index - count)) EIndex
                     else q_eatl_go index f q (L ++ L2) (count + t_len t)
                 | [] => fail EIndex
                 end
               else
                 cand <- of_opt (arch_get_tables a (q_rels q)) EIndex ;;
                 r <- entity_at_tables index (q_rels q) false cand count ;;
                 match r with inl x => ret x | inr c => q_eatl_go index f q (L ++ L2) c end) s).
    { intros count. cbn [app]. rewrite q_eatl_go_cons. rewrite (q_bind_getA _ s aid a _ Ea). reflexivity. }
    destruct (negb (filter_matches f (a_mask a))).
    { destruct (IH acc s w s' H) as (-> & w0 & -> & Hw0). split; [reflexivity|]. exists w0. split; [reflexivity|].
      intros count. rewrite Hstep. apply Hw0. }
    destruct (negb (arch_has_rels a)).
    + destruct (a_tables a) as [|t0 ?]; [discriminate|].
      apply q_bind_inv in H. destruct H as (t & s1 & Ht & H).
      apply q_getT_inv in Ht. destruct Ht as [-> Et].
      destruct (IH _ s w s' H) as (-> & w0 & -> & Hw0). split; [reflexivity|].
      exists ((t0, t_len t) :: w0). split; [rewrite <- app_assoc; reflexivity|].
      intros count. rewrite Hstep, (q_bind_getT _ s t0 t _ Et), q_eat_part_cons.
      destruct (Nat.ltb index (count + t_len t)).
      * unfold bind. rewrite (sa_getT_eq s t0 t Et).
        destruct (nth_error (t_ents t) (index - count)); reflexivity.
      * apply Hw0.
    + apply q_bind_inv in H. destruct H as (cand & s1 & Hc & H).
      apply q_of_opt_inv in Hc. destruct Hc as [-> Ec].
      apply q_bind_inv in H. destruct H as (ts & s1 & Hts & H).
      destruct (q_eat_tables_count index s (q_rels q) false cand ts s1 Hts) as [-> Hts'].
      destruct (IH _ s w s' H) as (-> & w0 & -> & Hw0). split; [reflexivity|].
      exists (ts ++ w0). split; [rewrite <- app_assoc; reflexivity|].
      intros count. rewrite Hstep, Ec.
      change (bind (of_opt (Some cand) EIndex) ?k s) with (k cand s). cbv beta.
      unfold bind at 1. rewrite Hts'. unfold bind at 1. rewrite q_eat_part_app. unfold bind at 1.
      pose proof (q_ro_eat_part index ts count s) as Hro.
      destruct (q_eat_part index ts count s) as [[x|c] s2|e s2]; cbn [state_of] in Hro; subst s2; [reflexivity| |reflexivity].
      rewrite Hw0. reflexivity.
Qed.

Lemma q_eatl_go_walk : forall index f q L s w s',
  q_walk_go f q L [] s = Ok w s' ->
  q_eatl_go index f q L 0 s = q_eat_go index w 0 s.
Proof.
  intros index f q L s w s' H.
  destruct (q_eatl_go_app index f q L [] [] s w s' H) as (-> & w0 & -> & Hw0).
  cbn [app]. rewrite <- (app_nil_r L) at 1. rewrite Hw0, q_eat_go_part.
  unfold bind. destruct (q_eat_part index w0 0 s) as [[x|c] s1|e s1]; reflexivity.
Qed.

(** EntityAt (lazy) = index into the complete walk, whenever the complete walk succeeds. *)
Theorem query_entity_at_walk : forall qi i s w s',
  query_walk qi s = Ok w s' -> query_entity_at qi i s = q_eat_go i w 0 s.
Proof.
  intros qi i s w s' H. rewrite q_walk_eq in H. rewrite q_entity_at_eq.
  apply q_bind_inv in H. destruct H as (q & s1 & Hq & H).
  apply q_getQ_inv in Hq. destruct Hq as [-> Eq].
  rewrite (q_bind_getQ _ s qi q _ Eq). rewrite q_bind_get in H. rewrite q_bind_get.
  destruct (q_cache q) as [addr|].
  - apply q_bind_inv in H. destruct H as (e & s1 & He & H).
    apply q_of_opt_inv in He. destruct He as [-> Ee]. rewrite Ee.
    change (bind (of_opt (Some e) EIndex) ?k s) with (k e s). cbv beta.
    destruct (q_eat_tables_count i s (q_rels q) true (ce_tables e) w s' H) as [-> Hw].
    rewrite q_eat_go_part. unfold bind. rewrite Hw. reflexivity.
  - apply q_bind_inv in H. destruct H as (f & s1 & Hf & H).
    apply q_getF_inv in Hf. destruct Hf as [-> Ef].
    rewrite (q_bind_getF _ s (q_filter q) f _ Ef).
    apply (q_eatl_go_walk i f q _ s w s' H).
Qed.

Theorem query_entity_at_spec : forall qi s w i,
  query_walk qi s = Ok w s ->
  (forall p, In p w -> exists t, nth_error (w_tables s) (fst p) = Some t /\ snd p = t_len t /\ t_len t <= length (t_ents t)) ->
  match query_entity_at qi i s with
  | Ok e s' => s' = s /\ nth_error (walk_rows s w) i = Some e
  | Err _ s' => s' = s /\ length (walk_rows s w) <= i
  end.
Proof.
  intros qi s w i Hw Hp. rewrite (query_entity_at_walk qi i s w s Hw).
  pose proof (q_eat_go_spec s i w 0 Hp (Nat.le_0_l i)) as H.
  destruct (q_eat_go i w 0 s) as [e s'|e s'].
  - rewrite Nat.sub_0_r in H. exact H.
  - rewrite Nat.add_0_r in H. exact H.
Qed.

(** *** EntityAt is lazy: it succeeds on every index covered by a prefix of the archetype list whose
    walk succeeds, WHATEVER the rest of the list contains - in particular when a later archetype or
    table makes the complete walk (and hence Count) panic. This is the behaviour of
    entityAt / entityAtCache in query_count.go, which return as soon as the index is reached. *)
Theorem query_entity_at_lazy_succeeds : forall qi s q f L1 L2 w1 i,
  nth_error (w_queries s) qi = Some q -> q_cache q = None ->
  nth_error (w_filters s) (q_filter q) = Some f ->
  query_archetypes s q = L1 ++ L2 ->
  q_walk_go f q L1 [] s = Ok w1 s ->
  (forall p, In p w1 -> exists t, nth_error (w_tables s) (fst p) = Some t /\ snd p = t_len t /\ t_len t <= length (t_ents t)) ->
  i < length (walk_rows s w1) ->
  exists e, query_entity_at qi i s = Ok e s /\ nth_error (walk_rows s w1) i = Some e.
Proof.
  intros qi s q f L1 L2 w1 i Hq Hc Hf HL Hw Hp Hi.
  rewrite q_entity_at_eq, (q_bind_getQ _ s qi q _ Hq), q_bind_get, Hc, (q_bind_getF _ s (q_filter q) f _ Hf), HL.
  destruct (q_eatl_go_app i f q L1 L2 [] s w1 s Hw) as (_ & w0 & Hw0eq & Hw0).
  cbn [app] in Hw0eq. subst w0. rewrite Hw0.
  pose proof (q_eat_go_spec s i w1 0 Hp (Nat.le_0_l i)) as Hs. rewrite q_eat_go_part in Hs.
  unfold bind in Hs |- *.
  destruct (q_eat_part i w1 0 s) as [[x|c] s1|e s1]; cbn in Hs.
  - destruct Hs as [-> Hs]. rewrite Nat.sub_0_r in Hs. exists x. split; [reflexivity | exact Hs].
  - destruct Hs as [_ Hs]. lia.
  - destruct Hs as [_ Hs]. lia.
Qed.

(** A reachable state: entity 2 in the zero archetype, entity 3 in archetype {1,2} (both relation
    components, target entity 2), entity 4 in archetype {1}; an unsafe filter without ids; a query
    with the per-query relations (1 -> 2), (2 -> 2). The table of archetype {1} lacks component 2.
    REGRESSION: before the repair of table.Matches / archetype.GetTables (a relation on a component
    the table lacks is now "no match"; it used to be a nil dereference) Count panicked here while
    EntityAt 0 and 1 - found before that table is reached - succeeded (the model infidelity that
    made [query_entity_at] lazy). Now Count is 2 and EntityAt 2 is out of range. *)
Definition q_lazy_cfg : script_cfg :=
  {| sc_cap := 2; sc_caprel := 1; sc_bits := 256; sc_debug := false; sc_kinds := map kind_of_code [0; 7; 8]%Z |}.
(** (The query is opened with [query_open] directly: at operation level UnsafeFilter.Query now rejects relations
    on components its filter does not require - [check_unsafe_rels] in Run.v - so this state is no longer
    reachable through the script language; the cursor functions are total on it all the same.) *)
Definition q_lazy_world : W :=
  state_of (query_open 0 [(1, (2, 0%N)); (2, (2, 0%N))]
    (Common.exec q_lazy_cfg
      [ [0]; [2; 2; 1; 2; 2; 1; 0; 2; 0]; [2; 1; 1; 1; 1; 0];
        [15; 1; 0; 0; 0; 0] ]%Z)).
Example query_entity_at_lazy_example :
  query_count 0 q_lazy_world = Ok 2 q_lazy_world /\
  query_entity_at 0 0 q_lazy_world = Ok (2, 0%N) q_lazy_world /\
  query_entity_at 0 1 q_lazy_world = Ok (3, 0%N) q_lazy_world /\
  query_entity_at 0 2 q_lazy_world = Err EIndex q_lazy_world.
Proof. vm_compute. repeat split; reflexivity. Qed.

(** Laziness is still observable in the model on a state with a defective archetype list (an
    archetype without relation components and without table appended at the end: not reachable any
    more since createArchetype creates that table): the complete walk of Count fails there, EntityAt
    for an index found earlier succeeds. *)
Definition q_lazy_world_bad : W :=
  q_lazy_world <| w_archs ::= fun l => l ++ [{| a_mask := 1%N; a_comps := [0]; a_isrel := [false]; a_tables := []; a_free := [];
                                                  a_reltabs := [[]]; a_tgttabs := []; a_numrel := 0 |}] |>.
Corollary query_entity_at_lazy_witness :
  exists s qi e er, query_count qi s = Err er s /\ query_entity_at qi 0 s = Ok e s.
Proof.
  exists q_lazy_world_bad, 0, (2, 0%N), EIndex. vm_compute. split; reflexivity.
Qed.

(** ** The cursor visits exactly the walked rows, in order (uncached and cached queries).
    [drain d fuel qi s]: call Next/Entity until Next returns false, collecting the entities. *)
Fixpoint drain (d : bool) (fuel : nat) (qi : nat) (s : W) : res W (list ent) :=
  match fuel with
  | O => Ok [] s
  | S f =>
      match query_next d qi s with
      | Err e s' => Err e s'
      | Ok false s' => Ok [] s'
      | Ok true s' =>
          match query_entity d qi s' with
          | Err e s'' => Err e s''
          | Ok x s'' => match drain d f qi s'' with
                        | Ok xs s3 => Ok (x :: xs) s3
                        | Err e s3 => Err e s3
                        end
          end
      end
  end.

(** *** List helpers *)
Lemma q_skipn_nth : forall A (l : list A) n x, nth_error l n = Some x -> skipn n l = x :: skipn (S n) l.
Proof.
  intros A l. induction l as [|y l IH]; intros n x H; destruct n as [|n]; cbn in H; try discriminate.
  - inversion H. reflexivity.
  - cbn [skipn]. rewrite (IH n x H). reflexivity.
Qed.
Lemma q_skipn_none : forall A (l : list A) n, nth_error l n = None -> skipn n l = [].
Proof. intros A l n H. apply skipn_all2. apply nth_error_None. exact H. Qed.
Arguments q_skipn_nth {A l n x} _.
Arguments q_skipn_none {A l n} _.
Lemma q_upd_upd : forall A (l : list A) i x y, upd i y (upd i x l) = upd i y l.
Proof.
  intros A l. induction l as [|h l IH]; intros i x y; [destruct i; reflexivity|].
  destruct i as [|i]; cbn; [reflexivity|]. rewrite IH. reflexivity.
Qed.
Lemma q_upd_same : forall A (l : list A) i x, nth_error l i = Some x -> upd i x l = l.
Proof.
  intros A l. induction l as [|h l IH]; intros i x H; [destruct i; reflexivity|].
  destruct i as [|i]; cbn in *; [congruence|]. rewrite IH by exact H. reflexivity.
Qed.
Lemma q_updf_upd : forall A (f : A -> A) (l : list A) i x, i < length l -> updf i f (upd i x l) = upd i (f x) l.
Proof.
  intros A f l i x H. unfold updf. rewrite sa_nth_error_upd_eq by exact H. apply q_upd_upd.
Qed.

(** *** The rows a cursor still has to visit, as pure functions of the tables/archetypes *)
Fixpoint q_trows (T : list table) (rels : list rel) (L : list nat) : option (list ent) :=
  match L with
  | [] => Some []
  | tid :: rest =>
      match nth_error T tid with
      | None => None
      | Some t =>
          if Nat.eqb (t_len t) 0 then q_trows T rels rest
          else match tbl_matches t rels with
               | None => None
               | Some true => match q_trows T rels rest with
                              | Some r => Some (firstn (t_len t) (t_ents t) ++ r)
                              | None => None
                              end
               | Some false => q_trows T rels rest
               end
      end
  end.

Fixpoint q_arows (s : W) (f : fobj) (rels : list rel) (L : list nat) : option (list ent) :=
  match L with
  | [] => Some []
  | aid :: rest =>
      match nth_error (w_archs s) aid with
      | None => None
      | Some a =>
          if negb (filter_matches f (a_mask a)) then q_arows s f rels rest
          else if negb (arch_has_rels a) then
            match a_tables a with
            | [] => None
            | t0 :: _ =>
                match nth_error (w_tables s) t0 with
                | None => None
                | Some t => match q_arows s f rels rest with
                            | Some r => Some (firstn (t_len t) (t_ents t) ++ r)
                            | None => None
                            end
                end
            end
          else
            match arch_get_tables a rels with
            | None => None
            | Some tabs =>
                match q_trows (w_tables s) rels tabs, q_arows s f rels rest with
                | Some r1, Some r2 => Some (r1 ++ r2)
                | _, _ => None
                end
            end
      end
  end.

Definition q_rows_of (T : list table) (l : list nat) : list ent :=
  flat_map (fun tid => match nth_error T tid with Some t => firstn (t_len t) (t_ents t) | None => [] end) l.

Lemma q_trows_dead : forall T rels L, q_trows T rels L = Some [] -> forall k, q_trows T rels (skipn k L) = Some [].
Proof.
  intros T rels L. induction L as [|tid L IH]; intros H k.
  - rewrite skipn_nil. reflexivity.
  - destruct k as [|k]; [exact H|]. cbn [skipn]. apply IH. cbn [q_trows] in H.
    destruct (nth_error T tid) as [t|]; [|discriminate].
    destruct (Nat.eqb (t_len t) 0); [exact H|].
    destruct (tbl_matches t rels) as [[|]|]; [|exact H|discriminate].
    destruct (q_trows T rels L) as [r|]; [|discriminate].
    injection H as H1. apply app_eq_nil in H1. destruct H1 as [_ H1]. subst r. reflexivity.
Qed.

(** *** The walk computes the same rows *)
Lemma q_tm_go_rows : forall s rels ne L acc l s',
  q_tm_go s rels ne L acc = Ok l s' ->
  s' = s /\ exists l0, l = rev acc ++ l0 /\ q_trows (w_tables s) rels L = Some (q_rows_of (w_tables s) l0).
Proof.
  intros s rels ne L. induction L as [|tid L IH]; intros acc l s' H.
  - rewrite q_tm_go_nil in H. inversion H. split; [reflexivity|]. exists []. rewrite app_nil_r. split; reflexivity.
  - rewrite q_tm_go_cons in H. cbn [q_trows].
    destruct (nth_error (w_tables s) tid) as [t|] eqn:Et; [|discriminate].
    assert (Hcons : forall l0, q_rows_of (w_tables s) (tid :: l0) = firstn (t_len t) (t_ents t) ++ q_rows_of (w_tables s) l0).
    { intros l0. unfold q_rows_of. cbn [flat_map]. rewrite Et. reflexivity. }
    assert (Htrue : q_tm_go s rels ne L (tid :: acc) = Ok l s' ->
                    s' = s /\ exists l0, l = rev acc ++ l0 /\
                      match q_trows (w_tables s) rels L with
                      | Some r => Some (firstn (t_len t) (t_ents t) ++ r) | None => None end
                      = Some (q_rows_of (w_tables s) l0)).
    { intros H'. apply IH in H'. destruct H' as (-> & l0 & -> & Hr). split; [reflexivity|].
      exists (tid :: l0). split; [cbn [rev]; rewrite <- app_assoc; reflexivity|].
      rewrite Hr, Hcons. reflexivity. }
    destruct (Nat.eqb (t_len t) 0) eqn:El.
    + destruct ne; cbn [andb] in H; [apply IH; exact H|].
      destruct (tbl_matches t rels) as [[|]|]; [|apply IH; exact H|discriminate].
      apply IH in H. destruct H as (-> & l0 & -> & Hr). split; [reflexivity|].
      exists (tid :: l0). split; [cbn [rev]; rewrite <- app_assoc; reflexivity|].
      rewrite Hr, Hcons. apply Nat.eqb_eq in El. rewrite El. reflexivity.
    + rewrite Bool.andb_false_r in H.
      destruct (tbl_matches t rels) as [[|]|]; [apply Htrue; exact H|apply IH; exact H|discriminate].
Qed.

Lemma q_walk_rows_map : forall s l,
  walk_rows s (map (fun tid => (tid, match nth_error (w_tables s) tid with Some t => t_len t | None => 0 end)) l)
  = q_rows_of (w_tables s) l.
Proof.
  intros s l. induction l as [|tid l IH]; [reflexivity|].
  cbn [map]. rewrite q_walk_rows_cons, IH. unfold q_rows_of. cbn [flat_map fst snd].
  destruct (nth_error (w_tables s) tid); reflexivity.
Qed.

Lemma q_count_tables_rows : forall s L rels ne w s',
  count_tables s L rels ne = Ok w s' -> s' = s /\ q_trows (w_tables s) rels L = Some (walk_rows s w).
Proof.
  intros s L rels ne w s' H. unfold count_tables in H. rewrite q_tables_matching_eq in H.
  destruct (q_tm_go s rels ne L []) as [l s1|] eqn:E; [|discriminate]. inversion H; subst.
  apply q_tm_go_rows in E. destruct E as (-> & l0 & -> & Hr). split; [reflexivity|].
  cbn [rev app]. rewrite q_walk_rows_map. exact Hr.
Qed.

Lemma q_walk_go_rows : forall f q L acc s w s',
  q_walk_go f q L acc s = Ok w s' ->
  s' = s /\ exists w0, w = acc ++ w0 /\ q_arows s f (q_rels q) L = Some (walk_rows s w0).
Proof.
  intros f q L. induction L as [|aid L IH]; intros acc s w s' H.
  - rewrite q_walk_go_nil in H. inversion H. split; [reflexivity|]. exists []. rewrite app_nil_r. split; reflexivity.
  - rewrite q_walk_go_cons in H. apply q_bind_inv in H. destruct H as (a & s1 & Ha & H).
    apply q_getA_inv in Ha. destruct Ha as [-> Ea]. cbn [q_arows]. rewrite Ea.
    destruct (negb (filter_matches f (a_mask a))); [apply IH; exact H|].
    destruct (negb (arch_has_rels a)).
    + destruct (a_tables a) as [|t0 ?]; [discriminate|].
      apply q_bind_inv in H. destruct H as (t & s1 & Ht & H).
      apply q_getT_inv in Ht. destruct Ht as [-> Et]. rewrite Et.
      apply IH in H. destruct H as (-> & w0 & -> & Hr). split; [reflexivity|].
      exists ((t0, t_len t) :: w0). split; [rewrite <- app_assoc; reflexivity|].
      rewrite Hr, q_walk_rows_cons. cbn [fst snd]. rewrite Et. reflexivity.
    + apply q_bind_inv in H. destruct H as (cand & s1 & Hc & H).
      apply q_of_opt_inv in Hc. destruct Hc as [-> Ec]. rewrite Ec.
      apply q_bind_inv in H. destruct H as (ts & s1 & Hts & H).
      apply q_count_tables_rows in Hts. destruct Hts as [-> Hts]. rewrite Hts.
      apply IH in H. destruct H as (-> & w0 & -> & Hr). split; [reflexivity|].
      exists (ts ++ w0). split; [rewrite <- app_assoc; reflexivity|].
      rewrite Hr, q_walk_rows_app. reflexivity.
Qed.

(** *** Symbolic execution of the cursor operations: all states reached while iterating query [qi]
    are [q_st q'] - the base world with only the query object replaced. *)
Section QDrain.
Variable s0 : W.
Variable qi : nat.
Hypothesis Hqi : qi < length (w_queries s0).
Hypothesis Hshape : forall tid t, nth_error (w_tables s0) tid = Some t -> t_len t <= length (t_ents t).

Definition q_st (q : qobj) : W := s0 <| w_queries := upd qi q (w_queries s0) |>.

Lemma q_st_getQ : forall q, getQ qi (q_st q) = Ok q (q_st q).
Proof. intros q. apply q_getQ_eq. unfold q_st; cbn. apply sa_nth_error_upd_eq. exact Hqi. Qed.

Lemma q_st_modQ : forall f q, modQ qi f (q_st q) = Ok tt (q_st (f q)).
Proof.
  intros f q. unfold modQ, modify, q_st. f_equal. unfold set; simpl. rewrite q_updf_upd by exact Hqi. reflexivity.
Qed.

Lemma q_st_getT : forall q tid t, nth_error (w_tables s0) tid = Some t -> getT tid (q_st q) = Ok t (q_st q).
Proof. intros q tid t H. apply sa_getT_eq. exact H. Qed.
Lemma q_st_getA : forall q aid a, nth_error (w_archs s0) aid = Some a -> getA aid (q_st q) = Ok a (q_st q).
Proof. intros q aid a H. apply sa_getA_eq. exact H. Qed.
Lemma q_st_getF : forall q i f, nth_error (w_filters s0) i = Some f -> getF i (q_st q) = Ok f (q_st q).
Proof. intros q i f H. apply q_getF_eq. exact H. Qed.

(** The scan of [query_next_table]. *)
Lemma q_nt_go_spec : forall q L fuel pos s R,
  length L < fuel + pos ->
  q_trows (w_tables s) (q_rels q) (skipn pos L) = Some R ->
  (exists pos' tid t R', q_nt_go q L fuel pos s = Ok (Some (pos', tid)) s /\ pos <= pos' /\
      nth_error (w_tables s) tid = Some t /\ 0 < t_len t /\
      q_trows (w_tables s) (q_rels q) (skipn (S pos') L) = Some R' /\
      R = firstn (t_len t) (t_ents t) ++ R')
  \/ (q_nt_go q L fuel pos s = Ok None s /\ R = []).
Proof.
  intros q L fuel. induction fuel as [|fu IH]; intros pos s R Hf HR.
  - right. rewrite skipn_all2 in HR by lia. cbn in HR. split; [reflexivity | congruence].
  - rewrite q_nt_go_S. destruct (nth_error L pos) as [tid|] eqn:En.
    + rewrite (q_skipn_nth En) in HR. cbn [q_trows] in HR.
      destruct (nth_error (w_tables s) tid) as [t|] eqn:Et; [|discriminate].
      rewrite (sa_bind_ok (sa_getT_eq s tid t Et)).
      destruct (Nat.eqb (t_len t) 0) eqn:El.
      * destruct (IH (S pos) s R ltac:(lia) HR) as [(pos' & tid' & t' & R' & H1 & H2 & H3)|H]; [left|right; exact H].
        exists pos', tid', t', R'. split; [exact H1|]. split; [lia | exact H3].
      * apply Nat.eqb_neq in El.
        destruct (tbl_matches t (q_rels q)) as [[|]|]; [| |discriminate].
        -- left. destruct (q_trows (w_tables s) (q_rels q) (skipn (S pos) L)) as [R'|] eqn:ER; [|discriminate].
           exists pos, tid, t, R'. cbn. repeat split; try lia; try assumption. congruence.
        -- cbn [of_opt]. rewrite q_bind_ret.
           destruct (IH (S pos) s R ltac:(lia) HR) as [(pos' & tid' & t' & R' & H1 & H2 & H3)|H]; [left|right; exact H].
           exists pos', tid', t', R'. split; [exact H1|]. split; [lia | exact H3].
    + right. rewrite (q_skipn_none En) in HR. cbn in HR. split; [reflexivity | congruence].
Qed.

Definition q_at (q : qobj) (pos tid : nat) (t : table) : qobj :=
  q <| q_tab := pos + 2 |> <| q_table := Some tid |> <| q_index := 0 |> <| q_max := Some (t_len t - 1) |>.

Lemma q_set_table_spec : forall q pos tid t,
  nth_error (w_tables s0) tid = Some t -> 0 < t_len t ->
  query_set_table qi pos tid (q_st q) = Ok tt (q_st (q_at q pos tid t)).
Proof.
  intros q pos tid t Ht Hl. unfold query_set_table.
  rewrite (sa_bind_ok (q_st_getT q tid t Ht)). rewrite q_st_modQ. unfold q_at.
  destruct (Nat.eqb_spec (t_len t) 0); [lia | reflexivity].
Qed.

Lemma q_next_table_spec : forall q L cached R,
  1 <= q_tab q ->
  q_trows (w_tables s0) (q_rels q) (skipn (q_tab q - 1) L) = Some R ->
  (exists pos tid t R', query_next_table qi L cached (q_st q) = Ok true (q_st (q_at q pos tid t)) /\
      nth_error (w_tables s0) tid = Some t /\ 0 < t_len t /\
      q_trows (w_tables s0) (q_rels q) (skipn (S pos) L) = Some R' /\
      R = firstn (t_len t) (t_ents t) ++ R')
  \/ (R = [] /\
      query_next_table qi L cached (q_st q) =
      bind (whenM cached (query_close qi)) (fun _ => ret false)
           (q_st (q <| q_tab := Nat.max (q_tab q) (length L + 1) |>))).
Proof.
  intros q L cached R Hq HR. rewrite q_next_table_eq.
  rewrite (sa_bind_ok (q_st_getQ q)).
  destruct (q_nt_go_spec q L (S (length L)) (q_tab q - 1) (q_st q) R ltac:(lia) HR)
    as [(pos & tid & t & R' & H1 & H2 & H3 & H4 & H5 & H6)|[H1 H2]].
  - left. exists pos, tid, t, R'. rewrite (sa_bind_ok (q_on_err_ok _ _ _ _ _ _ H1)).
    rewrite (sa_bind_ok (q_set_table_spec q pos tid t H3 H4)). repeat split; assumption.
  - right. split; [exact H2|]. rewrite (sa_bind_ok (q_on_err_ok _ _ _ _ _ _ H1)). rewrite (sa_bind_ok (q_st_modQ _ q)). reflexivity.
Qed.

Lemma q_next_table_uncached : forall q L R,
  1 <= q_tab q ->
  q_trows (w_tables s0) (q_rels q) (skipn (q_tab q - 1) L) = Some R ->
  (exists pos tid t R', query_next_table qi L false (q_st q) = Ok true (q_st (q_at q pos tid t)) /\
      nth_error (w_tables s0) tid = Some t /\ 0 < t_len t /\
      q_trows (w_tables s0) (q_rels q) (skipn (S pos) L) = Some R' /\
      R = firstn (t_len t) (t_ents t) ++ R')
  \/ (R = [] /\
      query_next_table qi L false (q_st q) = Ok false (q_st (q <| q_tab := Nat.max (q_tab q) (length L + 1) |>))).
Proof.
  intros q L R Hq HR. destruct (q_next_table_spec q L false R Hq HR) as [H|[H1 H2]]; [left; exact H|].
  right. split; [exact H1|]. rewrite H2. reflexivity.
Qed.

(** A finished iteration: the query object is closed and its lock bit released. *)
Definition q_final (b : nat) (s' : W) : Prop :=
  exists qc l', s' = s0 <| w_queries := upd qi qc (w_queries s0) |> <| w_lock := l' |> /\
                q_tab qc = 0 /\ mk_get (lk_mask l') b = false.

Lemma q_close_spec : forall q,
  1 <= q_tab q -> mk_get (lk_mask (w_lock s0)) (q_lock q) = true ->
  exists s', query_close qi (q_st q) = Ok tt s' /\ q_final (q_lock q) s'.
Proof.
  intros q Hq Hl. unfold query_close. rewrite (sa_bind_ok (q_st_getQ q)).
  destruct (Nat.ltb_spec (q_tab q) 1); [lia|].
  rewrite (sa_bind_ok (q_st_modQ _ q)).
  unfold unlockM, bind, get, lock_unlock. cbn. rewrite Hl. cbn.
  eexists. split; [reflexivity|]. eexists _, _. split; [reflexivity|]. cbn.
  split; [reflexivity|]. rewrite mk_get_clear, Nat.eqb_refl. reflexivity.
Qed.

Definition q_static (q q' : qobj) : Prop :=
  q_filter q' = q_filter q /\ q_rels q' = q_rels q /\ q_cache q' = q_cache q /\
  q_lock q' = q_lock q /\ q_rare q' = q_rare q.
Lemma q_static_refl : forall q, q_static q q.
Proof. intros q. unfold q_static. repeat split. Qed.
Lemma q_static_trans : forall q1 q2 q3, q_static q1 q2 -> q_static q2 q3 -> q_static q1 q3.
Proof. unfold q_static. intros q1 q2 q3 (?&?&?&?&?) (?&?&?&?&?). repeat split; congruence. Qed.

(** The cursor points at row 0 of the non-empty table [tid]. *)
Definition q_cur (q : qobj) (tid : nat) (t : table) : Prop :=
  q_table q = Some tid /\ nth_error (w_tables s0) tid = Some t /\ 0 < t_len t /\
  q_max q = Some (t_len t - 1) /\ q_index q = 0 /\ 2 <= q_tab q.

Lemma q_cur_at : forall q pos tid t, nth_error (w_tables s0) tid = Some t -> 0 < t_len t -> q_cur (q_at q pos tid t) tid t.
Proof. intros. unfold q_cur, q_at. cbn. repeat split; try assumption; lia. Qed.

(** The archetype loop. *)
Lemma q_na_go_spec : forall archs f fuel pos q R,
  length archs < fuel + pos -> 1 <= q_tab q ->
  q_arows s0 f (q_rels q) (skipn pos archs) = Some R ->
  (forall k, q_trows (w_tables s0) (q_rels q) (skipn k (q_tables q)) = Some []) ->
  (exists q' tid t R1 R2, q_na_go qi archs f fuel pos (q_st q) = Ok true (q_st q') /\ q_static q q' /\
      q_cur q' tid t /\ 2 <= q_arch q' /\
      q_trows (w_tables s0) (q_rels q) (skipn (q_tab q' - 1) (q_tables q')) = Some R1 /\
      q_arows s0 f (q_rels q) (skipn (q_arch q' - 1) archs) = Some R2 /\
      R = firstn (t_len t) (t_ents t) ++ R1 ++ R2)
  \/ (exists q', q_na_go qi archs f fuel pos (q_st q) = Ok false (q_st q') /\ q_static q q' /\
        1 <= q_tab q' /\ R = []).
Proof.
  intros archs f fuel. induction fuel as [|fu IH]; intros pos q R Hf Hq HR Hd.
  - right. exists q. rewrite skipn_all2 in HR by lia. cbn in HR.
    split; [reflexivity|]. split; [apply q_static_refl|]. split; [exact Hq | congruence].
  - rewrite q_na_go_S. destruct (nth_error archs pos) as [aid|] eqn:En.
    2:{ right. exists q. rewrite (q_skipn_none En) in HR. cbn in HR.
        split; [reflexivity|]. split; [apply q_static_refl|]. split; [exact Hq | congruence]. }
    rewrite (q_skipn_nth En) in HR. cbn [q_arows] in HR.
    destruct (nth_error (w_archs s0) aid) as [a|] eqn:Ea; [|discriminate].
    rewrite (sa_bind_ok (q_st_modQ _ q)).
    set (q1 := q <| q_arch := pos + 2 |>).
    assert (Hs1 : q_static q q1) by (unfold q_static; repeat split).
    rewrite (sa_bind_ok (q_st_getA q1 aid a Ea)).
    (* continuing with the next archetype *)
    assert (Hnext : forall R', q_arows s0 f (q_rels q) (skipn (S pos) archs) = Some R' ->
      (exists q' tid t R1 R2, q_na_go qi archs f fu (S pos) (q_st q1) = Ok true (q_st q') /\ q_static q q' /\
          q_cur q' tid t /\ 2 <= q_arch q' /\
          q_trows (w_tables s0) (q_rels q) (skipn (q_tab q' - 1) (q_tables q')) = Some R1 /\
          q_arows s0 f (q_rels q) (skipn (q_arch q' - 1) archs) = Some R2 /\
          R' = firstn (t_len t) (t_ents t) ++ R1 ++ R2)
      \/ (exists q', q_na_go qi archs f fu (S pos) (q_st q1) = Ok false (q_st q') /\ q_static q q' /\
            1 <= q_tab q' /\ R' = [])).
    { intros R' HR'. apply (IH (S pos) q1 R'); [lia | exact Hq | exact HR' | exact Hd]. }
    destruct (negb (filter_matches f (a_mask a))); [apply Hnext; exact HR|].
    destruct (negb (arch_has_rels a)).
    + destruct (a_tables a) as [|t0 ?]; [discriminate|].
      destruct (nth_error (w_tables s0) t0) as [t|] eqn:Et; [|discriminate].
      destruct (q_arows s0 f (q_rels q) (skipn (S pos) archs)) as [R2|] eqn:ER2; [|discriminate].
      injection HR as HR. rewrite (sa_bind_ok (q_st_getT q1 t0 t Et)).
      destruct (Nat.ltb_spec 0 (t_len t)) as [Hl|Hl].
      * left. rewrite (sa_bind_ok (q_set_table_spec q1 0 t0 t Et Hl)).
        exists (q_at q1 0 t0 t), t0, t, [], R2.
        split; [reflexivity|]. split; [unfold q_static; repeat split|].
        split; [apply q_cur_at; assumption|]. split; [cbn; lia|].
        split; [exact (Hd 1)|]. split; [|symmetry; exact HR].
        cbn. replace (pos + 2 - 1) with (S pos) by lia. exact ER2.
      * assert (El : t_len t = 0) by lia. rewrite El in HR. cbn in HR. subst R2.
        apply Hnext. reflexivity.
    + rewrite (sa_bind_ok (q_st_getQ q1)). change (q_rels q1) with (q_rels q).
      destruct (arch_get_tables a (q_rels q)) as [tabs|]; [|discriminate]. cbn [of_opt]. rewrite q_bind_ret.
      destruct (q_trows (w_tables s0) (q_rels q) tabs) as [r1|] eqn:Er1; [|discriminate].
      destruct (q_arows s0 f (q_rels q) (skipn (S pos) archs)) as [r2|] eqn:Er2; [|discriminate].
      injection HR as HR. rewrite (sa_bind_ok (q_st_modQ _ q1)).
      set (q2 := q1 <| q_tables := tabs |> <| q_tab := 1 |> <| q_table := None |>).
      destruct (q_next_table_uncached q2 tabs r1 ltac:(cbn; lia) Er1)
        as [(pos' & tid & t & R' & H1 & H2 & H3 & H4 & H5)|[H1 H2]].
      * left. rewrite (sa_bind_ok H1). exists (q_at q2 pos' tid t), tid, t, R', r2.
        split; [reflexivity|]. split; [unfold q_static; repeat split|].
        split; [apply q_cur_at; assumption|]. split; [cbn; lia|].
        split; [cbn; replace (pos' + 2 - 1) with (S pos') by lia; exact H4|].
        split; [cbn; replace (pos + 2 - 1) with (S pos) by lia; exact Er2|].
        rewrite <- HR, H5, app_assoc. reflexivity.
      * rewrite (sa_bind_ok H2).
        subst r1. cbn [app] in HR. subst r2.
        set (q3 := q2 <| q_tab := Nat.max (q_tab q2) (length tabs + 1) |>).
        assert (Hq3 : 1 <= q_tab q3) by (unfold q3, q2; cbn; destruct (length tabs + 1); lia).
        destruct (IH (S pos) q3 R ltac:(lia) Hq3 Er2 ltac:(intros k; apply q_trows_dead; exact Er1))
          as [(q' & tid & t & R1 & R2 & G1 & G2 & G3)|(q' & G1 & G2 & G3)].
        -- left. exists q', tid, t, R1, R2. split; [exact G1|]. split; [|exact G3].
           eapply q_static_trans; [|exact G2]. unfold q_static; repeat split.
        -- right. exists q'. split; [exact G1|]. split; [|exact G3].
           eapply q_static_trans; [|exact G2]. unfold q_static; repeat split.
Qed.

(** The rows still to visit after the current table, for a running cursor. *)
Definition q_rest (q : qobj) (R : list ent) : Prop :=
  1 <= q_tab q /\
  match q_cache q with
  | Some addr => exists e, nth_error (w_cheap s0) addr = Some e /\
                 q_trows (w_tables s0) (q_rels q) (skipn (q_tab q - 1) (ce_tables e)) = Some R
  | None => exists f R1 R2, nth_error (w_filters s0) (q_filter q) = Some f /\ 1 <= q_arch q /\
                 (q_arch q = 1 -> q_tables q = []) /\
                 q_trows (w_tables s0) (q_rels q) (skipn (q_tab q - 1) (q_tables q)) = Some R1 /\
                 q_arows s0 f (q_rels q) (skipn (q_arch q - 1) (query_archetypes s0 q)) = Some R2 /\
                 R = R1 ++ R2
  end.

Lemma q_next_archetype_spec : forall q f R,
  1 <= q_arch q -> 1 <= q_tab q -> q_cache q = None ->
  nth_error (w_filters s0) (q_filter q) = Some f ->
  q_arows s0 f (q_rels q) (skipn (q_arch q - 1) (query_archetypes s0 q)) = Some R ->
  mk_get (lk_mask (w_lock s0)) (q_lock q) = true ->
  (exists q' tid t R', query_next_archetype qi (q_st q) = Ok true (q_st q') /\ q_lock q' = q_lock q /\
      q_cur q' tid t /\ q_rest q' R' /\ R = firstn (t_len t) (t_ents t) ++ R')
  \/ (R = [] /\ exists s', query_next_archetype qi (q_st q) = Ok false s' /\ q_final (q_lock q) s').
Proof.
  intros q f R Ha Ht Hc Hf HR Hl. rewrite q_next_archetype_eq.
  rewrite (sa_bind_ok (q_st_modQ _ q)).
  set (q1 := q <| q_tables := [] |>).
  rewrite (sa_bind_ok (q_st_getQ q1)).
  change (q_arch q1) with (q_arch q). change (q_filter q1) with (q_filter q).
  destruct (Nat.leb_spec 1 (q_arch q)); [|lia]. cbn [guard]. rewrite q_bind_ret.
  rewrite q_bind_get.
  change (query_archetypes (q_st q1) q1) with (query_archetypes s0 q).
  rewrite (sa_bind_ok (q_st_getF q1 _ f Hf)).
  destruct (q_na_go_spec (query_archetypes s0 q) f (S (length (query_archetypes s0 q))) (q_arch q - 1) q1 R
              ltac:(lia) Ht HR ltac:(intros k; cbn; rewrite skipn_nil; reflexivity))
    as [(q' & tid & t & R1 & R2 & G1 & G2 & G3 & G4 & G5 & G6 & G7)|(q' & G1 & G2 & G3 & G4)].
  - rewrite (sa_bind_ok G1). cbv iota. left. exists q', tid, t, (R1 ++ R2).
    destruct G2 as (S1 & S2 & S3 & S4 & S5). cbn in S1, S2, S3, S4, S5.
    split; [reflexivity|]. split; [exact S4|]. split; [exact G3|]. split; [|exact G7].
    destruct G3 as (_ & _ & _ & _ & _ & G3). split; [lia|]. rewrite S3, Hc.
    exists f, R1, R2. rewrite S1, S2. unfold query_archetypes. rewrite S5.
    split; [exact Hf|]. split; [lia|]. split; [lia|]. split; [exact G5|]. split; [exact G6 | reflexivity].
  - rewrite (sa_bind_ok G1). cbv iota. right. split; [exact G4|].
    destruct G2 as (S1 & S2 & S3 & S4 & S5). cbn in S4.
    destruct (q_close_spec q' G3 ltac:(rewrite S4; exact Hl)) as (s' & C1 & C2).
    exists s'. rewrite (sa_bind_ok C1). split; [reflexivity|]. rewrite <- S4. exact C2.
Qed.

(** One step past the current table. *)
Lemma q_next_toa_spec : forall q R,
  q_rest q R -> mk_get (lk_mask (w_lock s0)) (q_lock q) = true ->
  (exists q' tid t R', query_next_table_or_archetype qi (q_st q) = Ok true (q_st q') /\ q_lock q' = q_lock q /\
      q_cur q' tid t /\ q_rest q' R' /\ R = firstn (t_len t) (t_ents t) ++ R')
  \/ (R = [] /\ exists s', query_next_table_or_archetype qi (q_st q) = Ok false s' /\ q_final (q_lock q) s').
Proof.
  intros q R [Ht HR] Hl. unfold query_next_table_or_archetype.
  rewrite (sa_bind_ok (q_st_getQ q)).
  destruct (Nat.leb_spec 1 (q_tab q)); [|lia]. cbn [guard]. rewrite q_bind_ret.
  destruct (q_cache q) as [addr|] eqn:Ec.
  - destruct HR as (e & He & HR). rewrite q_bind_get.
    change (w_cheap (q_st q)) with (w_cheap s0). rewrite He. cbn [of_opt]. rewrite q_bind_ret.
    destruct (q_next_table_spec q (ce_tables e) true R Ht HR)
      as [(pos & tid & t & R' & H1 & H2 & H3 & H4 & H5)|[H1 H2]].
    + left. exists (q_at q pos tid t), tid, t, R'. split; [exact H1|]. split; [reflexivity|].
      split; [apply q_cur_at; assumption|]. split; [|exact H5].
      split; [cbn; lia|]. cbn. rewrite Ec. exists e. split; [exact He|].
      replace (pos + 2 - 1) with (S pos) by lia. exact H4.
    + right. split; [exact H1|]. rewrite H2. cbn [whenM].
      set (q1 := q <| q_tab := Nat.max (q_tab q) (length (ce_tables e) + 1) |>).
      destruct (q_close_spec q1 ltac:(unfold q1; cbn; lia) Hl) as (s' & C1 & C2).
      exists s'. rewrite (sa_bind_ok C1). split; [reflexivity | exact C2].
  - destruct HR as (f & R1 & R2 & Hf & Ha & Hfresh & HR1 & HR2 & ->).
    destruct (Nat.leb_spec 2 (q_arch q)) as [Ha2|Ha2].
    + destruct (q_next_table_uncached q (q_tables q) R1 Ht HR1)
        as [(pos & tid & t & R' & H1 & H2 & H3 & H4 & H5)|[H1 H2]].
      * rewrite (sa_bind_ok H1). left. exists (q_at q pos tid t), tid, t, (R' ++ R2).
        split; [reflexivity|]. split; [reflexivity|].
        split; [apply q_cur_at; assumption|]. split; [|rewrite H5, app_assoc; reflexivity].
        split; [cbn; lia|]. cbn. rewrite Ec. exists f, R', R2.
        split; [exact Hf|]. split; [exact Ha|]. split; [lia|].
        split; [replace (pos + 2 - 1) with (S pos) by lia; exact H4|]. split; [exact HR2 | reflexivity].
      * rewrite (sa_bind_ok H2). subst R1. cbn [app].
        set (q1 := q <| q_tab := Nat.max (q_tab q) (length (q_tables q) + 1) |>).
        destruct (q_next_archetype_spec q1 f R2 Ha ltac:(unfold q1; cbn; lia) Ec Hf HR2 Hl) as [HH|HH]; [left|right]; exact HH.
    + assert (E1 : q_arch q = 1) by lia. rewrite (Hfresh E1), skipn_nil in HR1. cbn in HR1.
      injection HR1 as <-. cbn [app].
      destruct (q_next_archetype_spec q f R2 Ha Ht Ec Hf HR2 Hl) as [HH|HH]; [left|right]; exact HH.
Qed.

(** The rows of the current table that are still to come. *)
Definition q_valid (q : qobj) : Prop :=
  match q_max q with
  | None => True
  | Some mx => exists tid t, q_table q = Some tid /\ nth_error (w_tables s0) tid = Some t /\
                             q_index q <= mx /\ mx < length (t_ents t) /\ 2 <= q_tab q
  end.
Definition q_cur_rows (q : qobj) : list ent :=
  match q_max q, q_table q with
  | Some mx, Some tid =>
      match nth_error (w_tables s0) tid with
      | Some t => skipn (S (q_index q)) (firstn (S mx) (t_ents t))
      | None => []
      end
  | _, _ => []
  end.

Lemma q_entity_spec : forall d q tid t x,
  2 <= q_tab q -> q_table q = Some tid -> nth_error (w_tables s0) tid = Some t ->
  nth_error (t_ents t) (q_index q) = Some x ->
  query_entity d qi (q_st q) = Ok x (q_st q).
Proof.
  intros d q tid t x Ht Hq Htt Hx. unfold query_entity. rewrite (sa_bind_ok (q_st_getQ q)).
  assert (G : whenM d (guard (Nat.leb 2 (q_tab q)) EMisuse) (q_st q) = Ok tt (q_st q)).
  { destruct d; cbn [whenM]; [|reflexivity]. destruct (Nat.leb_spec 2 (q_tab q)); [reflexivity | lia]. }
  rewrite (sa_bind_ok G). rewrite Hq. cbn [of_opt]. rewrite q_bind_ret.
  rewrite (sa_bind_ok (q_st_getT q tid t Htt)). rewrite Hx. reflexivity.
Qed.

Lemma q_drain_spec : forall d fuel q R,
  q_valid q -> q_rest q R -> mk_get (lk_mask (w_lock s0)) (q_lock q) = true ->
  length (q_cur_rows q ++ R) < fuel ->
  exists s', drain d fuel qi (q_st q) = Ok (q_cur_rows q ++ R) s' /\ q_final (q_lock q) s'.
Proof.
  intros d fuel. induction fuel as [|fu IH]; intros q R Hv Hr Hl Hlen; [lia|].
  cbn [drain].
  (* advancing past the current table *)
  assert (Hadv : q_cur_rows q = [] ->
    (query_next d qi (q_st q) = query_next_table_or_archetype qi (q_st q)) ->
    exists s', match query_next d qi (q_st q) with
               | Ok true s1 => match query_entity d qi s1 with
                               | Ok x s2 => match drain d fu qi s2 with
                                            | Ok xs s3 => Ok (x :: xs) s3 | Err e s3 => Err e s3 end
                               | Err e s2 => Err e s2 end
               | Ok false s1 => Ok [] s1
               | Err e s1 => Err e s1
               end = Ok (q_cur_rows q ++ R) s' /\ q_final (q_lock q) s').
  { intros Hc Hn. rewrite Hn, Hc. cbn [app]. rewrite Hc in Hlen. cbn [app] in Hlen.
    destruct (q_next_toa_spec q R Hr Hl) as [(q' & tid & t & R' & H1 & H2 & H3 & H4 & H5)|(H1 & s' & H2 & H3)].
    - rewrite H1. destruct H3 as (C1 & C2 & C3 & C4 & C5 & C6).
      pose proof (Hshape tid t C2) as Hsh.
      destruct (nth_error (t_ents t) 0) as [x|] eqn:Ex; [|apply nth_error_None in Ex; lia].
      rewrite (q_entity_spec d q' tid t x C6 C1 C2 ltac:(rewrite C5; exact Ex)).
      assert (Hv' : q_valid q').
      { unfold q_valid. rewrite C4. exists tid, t. repeat split; try assumption; lia. }
      assert (Hrows : firstn (t_len t) (t_ents t) = x :: q_cur_rows q').
      { unfold q_cur_rows. rewrite C4, C1, C2, C5. replace (S (t_len t - 1)) with (t_len t) by lia.
        change (firstn (t_len t) (t_ents t)) with (skipn 0 (firstn (t_len t) (t_ents t))) at 1.
        apply q_skipn_nth. rewrite q_nth_error_firstn by lia. exact Ex. }
      destruct (IH q' R' Hv' H4 ltac:(rewrite H2; exact Hl)) as (s' & D1 & D2).
      { subst R. rewrite Hrows in Hlen. cbn [app length] in Hlen. lia. }
      exists s'. rewrite D1. split; [|rewrite <- H2; exact D2].
      subst R. rewrite Hrows. reflexivity.
    - exists s'. rewrite H2. subst R. split; [reflexivity | exact H3]. }
  assert (Hg : whenM d (guard (Nat.leb 1 (q_tab q)) EMisuse) (q_st q) = Ok tt (q_st q)).
  { destruct Hr as [Ht _]. destruct d; cbn [whenM]; [|reflexivity].
    destruct (Nat.leb_spec 1 (q_tab q)); [reflexivity | lia]. }
  assert (Hnext : query_next d qi (q_st q) =
                  match q_max q with
                  | Some mx => if Nat.ltb (q_index q) mx then Ok true (q_st (q <| q_index ::= S |>))
                               else query_next_table_or_archetype qi (q_st q)
                  | None => query_next_table_or_archetype qi (q_st q)
                  end).
  { unfold query_next. rewrite (sa_bind_ok (q_st_getQ q)). rewrite (sa_bind_ok Hg).
    destruct (q_max q); [|reflexivity]. destruct (Nat.ltb (q_index q) n); [|reflexivity].
    rewrite (sa_bind_ok (q_st_modQ _ q)). reflexivity. }
  destruct (q_max q) as [mx|] eqn:Em.
  2:{ apply Hadv; [unfold q_cur_rows; rewrite Em; reflexivity | exact Hnext]. }
  unfold q_valid in Hv. rewrite Em in Hv. destruct Hv as (tid & t & V1 & V2 & V3 & V4 & V5).
  destruct (Nat.ltb_spec (q_index q) mx) as [Hlt|Hge].
  - rewrite Hnext. set (q1 := q <| q_index ::= S |>).
    destruct (nth_error (t_ents t) (S (q_index q))) as [x|] eqn:Ex; [|apply nth_error_None in Ex; lia].
    rewrite (q_entity_spec d q1 tid t x V5 V1 V2 Ex).
    assert (Hrows : q_cur_rows q = x :: q_cur_rows q1).
    { unfold q_cur_rows. change (q_max q1) with (q_max q). change (q_table q1) with (q_table q).
      change (q_index q1) with (S (q_index q)). rewrite Em, V1, V2.
      apply q_skipn_nth. rewrite q_nth_error_firstn by lia. exact Ex. }
    assert (Hv1 : q_valid q1).
    { unfold q_valid. change (q_max q1) with (q_max q). rewrite Em. exists tid, t.
      repeat split; try assumption; change (q_index q1) with (S (q_index q)); lia. }
    destruct (IH q1 R Hv1 Hr Hl) as (s' & D1 & D2).
    { rewrite Hrows in Hlen. cbn [app length] in Hlen. lia. }
    exists s'. rewrite D1. split; [|exact D2]. rewrite Hrows. reflexivity.
  - apply Hadv; [|rewrite Hnext; reflexivity].
    unfold q_cur_rows. rewrite Em, V1, V2. apply skipn_all2. rewrite firstn_length. lia.
Qed.

(** A fresh cursor on a world whose walk succeeds. *)
Lemma q_rest_fresh : forall q w,
  nth_error (w_queries s0) qi = Some q ->
  q_arch q = 1 -> q_tab q = 1 -> q_tables q = [] ->
  query_walk qi s0 = Ok w s0 ->
  q_rest q (walk_rows s0 w).
Proof.
  intros q w Hq Ha Ht Htabs Hw. rewrite q_walk_eq in Hw.
  rewrite (sa_bind_ok (q_getQ_eq s0 qi q Hq)) in Hw. rewrite q_bind_get in Hw.
  split; [lia|]. rewrite Ht. cbn [Nat.sub skipn].
  destruct (q_cache q) as [addr|].
  - apply q_bind_inv in Hw. destruct Hw as (e & s1 & He & Hw). apply q_of_opt_inv in He. destruct He as [-> He].
    exists e. split; [exact He|]. apply q_count_tables_rows in Hw. apply Hw.
  - apply q_bind_inv in Hw. destruct Hw as (f & s1 & Hf & Hw). apply q_getF_inv in Hf. destruct Hf as [-> Hf].
    apply q_walk_go_rows in Hw. destruct Hw as (_ & w0 & -> & Hr). cbn [app] in *.
    exists f, [], (walk_rows s0 w0). rewrite Ha, Htabs. cbn [Nat.sub skipn].
    split; [exact Hf|]. split; [lia|]. split; [reflexivity|]. split; [reflexivity|]. split; [exact Hr | reflexivity].
Qed.
End QDrain.

Lemma q_st_init : forall s qi q, nth_error (w_queries s) qi = Some q -> q_st s qi q = s.
Proof. intros s qi q H. unfold q_st. rewrite (q_upd_same _ _ _ _ H). destruct s; reflexivity. Qed.

(** A freshly opened query (cursor before the first table): iterating it to exhaustion yields exactly
    the rows of the non-empty tables of its walk, in walk order, and leaves the query closed with its
    lock bit released. Preconditions: the tables and archetypes the walk mentions exist and every
    table is shaped ([len <= length ents]) - all implied by [WF]. *)
Theorem drain_is_walk : forall d qi s q w,
  WF s -> nth_error (w_queries s) qi = Some q ->
  q_arch q = 1 -> q_tab q = 1 -> q_max q = None -> q_index q = 0 -> q_table q = None -> q_tables q = [] ->
  mk_get (lk_mask (w_lock s)) (q_lock q) = true ->
  query_walk qi s = Ok w s ->
  forall fuel, length (walk_rows s w) < fuel ->
  match drain d fuel qi s with
  | Ok es s' => es = walk_rows s w /\ query_frame s s' /\
                (exists q', nth_error (w_queries s') qi = Some q' /\ q_tab q' = 0) /\
                mk_get (lk_mask (w_lock s')) (q_lock q) = false
  | Err _ _ => False
  end.
Proof.
  intros d qi s q w HWF Hq Ha Ht Hm Hi Htb Htabs Hl Hw fuel Hfuel.
  assert (Hqi : qi < length (w_queries s)) by (eapply sa_nth_error_lt; eassumption).
  assert (Hshape : forall tid t, nth_error (w_tables s) tid = Some t -> t_len t <= length (t_ents t)).
  { intros tid t H. pose proof (wf_tables s HWF) as HF. rewrite Forall_forall in HF.
    apply nth_error_In in H. apply HF in H. destruct H as ((H1 & H2 & _) & _). lia. }
  pose proof (q_rest_fresh s qi Hqi Hshape q w Hq Ha Ht Htabs Hw) as Hr.
  destruct (q_drain_spec s qi Hqi Hshape d fuel q (walk_rows s w)) as (s' & D1 & D2).
  - unfold q_valid. rewrite Hm. exact I.
  - exact Hr.
  - exact Hl.
  - unfold q_cur_rows. rewrite Hm. exact Hfuel.
  - rewrite (q_st_init s qi q Hq) in D1. rewrite D1. unfold q_cur_rows; rewrite Hm; cbn [app].
    destruct D2 as (qc & l' & -> & Hc1 & Hc2).
    split; [reflexivity|]. split; [unfold query_frame; cbn; repeat split|].
    split; [exists qc; split; [cbn; apply sa_nth_error_upd_eq; exact Hqi | exact Hc1] | cbn; exact Hc2].
Qed.

(** ** Debug build: the additional cursor checks change no outcome on well-formed cursors.
    A cursor is well formed if closed cursors have no row window and no current table, and a cursor
    has a current table exactly when it points at a table. *)
Definition cursor_ok (q : qobj) : Prop :=
  (q_tab q = 0 -> q_max q = None /\ q_index q = 0 /\ q_table q = None) /\
  (q_tab q = 1 -> q_table q = None /\ q_max q = None) /\
  (2 <= q_tab q -> q_table q <> None).

Theorem debug_same_next : forall qi s q,
  nth_error (w_queries s) qi = Some q -> cursor_ok q ->
  is_err (query_next true qi s) = is_err (query_next false qi s) /\
  (is_err (query_next false qi s) = false -> query_next true qi s = query_next false qi s).
Proof.
  intros qi s q Hq Hc. unfold query_next.
  rewrite !(sa_bind_ok (q_getQ_eq s qi q Hq)). cbn [whenM].
  destruct (Nat.leb 1 (q_tab q)) eqn:E.
  - cbn [guard]. split; reflexivity.
  - apply Nat.leb_gt in E. assert (E0 : q_tab q = 0) by lia.
    destruct Hc as (H0 & _). destruct (H0 E0) as (Hm & _). rewrite Hm.
    unfold query_next_table_or_archetype.
    cbn [guard]. rewrite q_bind_ret, q_bind_fail.
    rewrite !(sa_bind_ok (q_getQ_eq s qi q Hq)). rewrite E0. cbn.
    split; [reflexivity | discriminate].
Qed.

Theorem debug_same_entity : forall qi s q,
  nth_error (w_queries s) qi = Some q -> cursor_ok q ->
  is_err (query_entity true qi s) = is_err (query_entity false qi s) /\
  (is_err (query_entity false qi s) = false -> query_entity true qi s = query_entity false qi s).
Proof.
  intros qi s q Hq Hc. unfold query_entity.
  rewrite !(sa_bind_ok (q_getQ_eq s qi q Hq)). cbn [whenM].
  destruct (Nat.leb 2 (q_tab q)) eqn:E.
  - cbn [guard]. split; reflexivity.
  - apply Nat.leb_gt in E. destruct Hc as (H0 & H1 & _).
    assert (Ht : q_table q = None).
    { destruct (Nat.eq_dec (q_tab q) 0) as [E0|E0]; [apply H0; exact E0 | apply H1; lia]. }
    rewrite Ht. cbn. split; [reflexivity | discriminate].
Qed.

(** The query operations keep cursors well formed. *)
Definition q_T : W -> Prop := fun _ => True.
Definition q_J (qi : nat) (s : W) : Prop :=
  forall k q, k <> qi -> nth_error (w_queries s) k = Some q -> cursor_ok q.
Definition q_I (qi : nat) (s : W) : Prop :=
  q_J qi s /\ forall q, nth_error (w_queries s) qi = Some q -> 1 <= q_tab q.
Definition q_F (s : W) : Prop := forall k q, nth_error (w_queries s) k = Some q -> cursor_ok q.

Lemma q_nth_error_updf_ne : forall A (f : A -> A) l i k, k <> i -> nth_error (updf i f l) k = nth_error l k.
Proof.
  intros A f l i k H. unfold updf. destruct (nth_error l i); [|reflexivity].
  apply sa_nth_error_upd_ne. congruence.
Qed.
Lemma q_nth_error_updf_eq : forall A (f : A -> A) l i y, nth_error (updf i f l) i = Some y ->
  exists x, nth_error l i = Some x /\ y = f x.
Proof.
  intros A f l i y H. unfold updf in H. destruct (nth_error l i) as [x|] eqn:E; [|congruence].
  exists x. split; [reflexivity|]. rewrite sa_nth_error_upd_eq in H by (eapply sa_nth_error_lt; eassumption).
  congruence.
Qed.

Lemma q_hoare_ro : forall A (m : MW A) (P : W -> Prop), readonly m -> hoare P m (fun _ => P) q_T.
Proof.
  intros A m P H s Hs. specialize (H s). destruct (m s); cbn in H; subst; [exact Hs | exact I].
Qed.
Lemma q_hoare_getQ : forall qi (P : W -> Prop),
  hoare P (getQ qi) (fun q s => P s /\ nth_error (w_queries s) qi = Some q) q_T.
Proof.
  intros qi P s Hs. unfold getQ, bind, get. destruct (nth_error (w_queries s) qi) eqn:E; cbn; [auto | exact I].
Qed.
Lemma q_hoare_modQ : forall qi f (P : W -> Prop) (Q : unit -> W -> Prop),
  (forall s, P s -> Q tt (s <| w_queries ::= updf qi f |>)) -> hoare P (modQ qi f) Q q_T.
Proof. intros qi f P Q H s Hs. unfold modQ, modify. apply H. exact Hs. Qed.

Lemma q_J_modQ : forall qi f s, q_J qi s -> q_J qi (s <| w_queries ::= updf qi f |>).
Proof.
  intros qi f s H k q Hk Hn. cbn in Hn. rewrite q_nth_error_updf_ne in Hn by exact Hk. eapply H; eassumption.
Qed.
Lemma q_I_modQ : forall qi f s, (forall q, 1 <= q_tab q -> 1 <= q_tab (f q)) ->
  q_I qi s -> q_I qi (s <| w_queries ::= updf qi f |>).
Proof.
  intros qi f s Hf [HJ H1]. split; [apply q_J_modQ; exact HJ|].
  intros q Hn. cbn in Hn. apply q_nth_error_updf_eq in Hn. destruct Hn as (x & Hx & ->). apply Hf, H1, Hx.
Qed.
Lemma q_F_modQ : forall qi f s, (forall q, cursor_ok (f q)) -> q_J qi s -> q_F (s <| w_queries ::= updf qi f |>).
Proof.
  intros qi f s Hf HJ k q Hn. cbn in Hn. destruct (Nat.eq_dec k qi) as [->|Hk].
  - apply q_nth_error_updf_eq in Hn. destruct Hn as (x & _ & ->). apply Hf.
  - rewrite q_nth_error_updf_ne in Hn by exact Hk. eapply HJ; eassumption.
Qed.

Lemma q_ok_set_table : forall qi pos tid, hoare (q_J qi) (query_set_table qi pos tid) (fun _ => q_F) q_T.
Proof.
  intros. unfold query_set_table.
  eapply hoare_bind; [apply q_hoare_ro, readonly_getT | intros t].
  apply q_hoare_modQ. intros s Hs. apply q_F_modQ; [|exact Hs].
  intros q. unfold cursor_ok. cbn. repeat split; try lia. congruence.
Qed.

Lemma q_ok_unlockM : forall b, hoare q_F (unlockM b) (fun _ => q_F) q_T.
Proof.
  intros b s Hs. unfold unlockM, bind, get. destruct (lock_unlock (w_lock s) b); cbn; [exact Hs | exact I].
Qed.

Lemma q_ok_close : forall qi, hoare (q_I qi) (query_close qi) (fun _ => q_F) q_T.
Proof.
  intros qi. unfold query_close.
  eapply hoare_bind; [apply q_hoare_getQ | intros q].
  destruct (Nat.ltb_spec (q_tab q) 1) as [Hlt|Hge].
  - intros s [[_ H1] Hq]. apply H1 in Hq. lia.
  - eapply hoare_bind; [|intros ?; apply q_ok_unlockM].
    apply q_hoare_modQ. intros s [[HJ _] _]. apply q_F_modQ; [|exact HJ].
    intros x. unfold cursor_ok. cbn. repeat split; lia.
Qed.

Lemma q_ro_nt_go : forall q tables fuel pos, readonly (q_nt_go q tables fuel pos).
Proof.
  intros q tables fuel. induction fuel as [|fu IH]; intros pos; [rewrite q_nt_go_0; apply readonly_ret | rewrite q_nt_go_S].
  destruct (nth_error tables pos) as [tid|]; [|apply readonly_ret].
  apply readonly_bind; [apply readonly_getT | intros t].
  destruct (Nat.eqb _ _); [apply IH|].
  apply readonly_bind; [apply readonly_of_opt | intros mt]. destruct mt; [apply readonly_ret | apply IH].
Qed.

Lemma q_I_J : forall qi s, q_I qi s -> q_J qi s.
Proof. intros qi s [H _]. exact H. Qed.

Lemma q_hoare_on_err_T : forall A (P : W -> Prop) (m : MW A) h (Q : A -> W -> Prop),
  hoare P m Q q_T -> hoare P (on_err m h) Q q_T.
Proof.
  intros A P m h Q H s Hs. specialize (H s Hs). unfold on_err. destruct (m s) as [a s'|e s']; [exact H | exact I].
Qed.

Lemma q_ok_next_table : forall qi L cached,
  hoare (q_I qi) (query_next_table qi L cached)
        (fun r s => if r then q_F s else if cached then q_F s else q_I qi s) q_T.
Proof.
  intros. rewrite q_next_table_eq.
  eapply hoare_bind; [apply q_hoare_ro, q_ro_getQ | intros q].
  eapply hoare_bind; [apply q_hoare_on_err_T, q_hoare_ro, q_ro_nt_go | intros r].
  destruct r as [[pos tid]|].
  - eapply hoare_bind; [|intros ?; apply hoare_ret; intros s Hs; exact Hs].
    eapply hoare_conseq; [apply q_ok_set_table | apply q_I_J | auto | auto].
  - eapply hoare_bind with (R := fun _ => q_I qi).
    + apply q_hoare_modQ. intros s Hs. apply q_I_modQ; [|exact Hs]. intros x Hx. cbn. lia.
    + intros ?. destruct cached; cbn [whenM].
      * eapply hoare_bind; [apply q_ok_close | intros ?; apply hoare_ret; auto].
      * eapply hoare_bind with (R := fun _ => q_I qi); [apply hoare_ret; auto | intros ?; apply hoare_ret; auto].
Qed.

Lemma q_ok_na_go : forall qi archs f fuel pos,
  hoare (q_I qi) (q_na_go qi archs f fuel pos) (fun r s => if r then q_F s else q_I qi s) q_T.
Proof.
  intros qi archs f fuel. induction fuel as [|fu IH]; intros pos;
    [rewrite q_na_go_0; apply hoare_ret; auto | rewrite q_na_go_S].
  destruct (nth_error archs pos) as [aid|]; [|apply hoare_ret; auto].
  eapply hoare_bind with (R := fun _ => q_I qi).
  { apply q_hoare_modQ. intros s Hs. apply q_I_modQ; [|exact Hs]. intros x Hx. exact Hx. }
  intros ?. eapply hoare_bind; [apply q_hoare_ro, q_ro_getA | intros ar].
  destruct (negb (filter_matches f (a_mask ar))); [apply IH|].
  destruct (negb (arch_has_rels ar)).
  - destruct (a_tables ar) as [|t0 ?]; [apply hoare_fail; intros; exact I|].
    eapply hoare_bind; [apply q_hoare_ro, readonly_getT | intros t].
    destruct (Nat.ltb 0 (t_len t)); [|apply IH].
    eapply hoare_bind; [|intros ?; apply hoare_ret; intros s Hs; exact Hs].
    eapply hoare_conseq; [apply q_ok_set_table | apply q_I_J | auto | auto].
  - eapply hoare_bind; [apply q_hoare_ro, q_ro_getQ | intros q].
    eapply hoare_bind; [apply q_hoare_ro, readonly_of_opt | intros tabs].
    eapply hoare_bind with (R := fun _ => q_I qi).
    { apply q_hoare_modQ. intros s Hs. apply q_I_modQ; [|exact Hs]. intros x Hx. cbn. lia. }
    intros ?. eapply hoare_bind; [apply q_ok_next_table | intros found].
    destruct found; [apply hoare_ret; auto | apply IH].
Qed.

Lemma q_ok_next_archetype : forall qi, hoare (q_I qi) (query_next_archetype qi) (fun _ => q_F) q_T.
Proof.
  intros. rewrite q_next_archetype_eq.
  eapply hoare_bind with (R := fun _ => q_I qi).
  { apply q_hoare_modQ. intros s Hs. apply q_I_modQ; [|exact Hs]. intros x Hx. exact Hx. }
  intros ?. eapply hoare_bind; [apply q_hoare_ro, q_ro_getQ | intros q].
  eapply hoare_bind; [apply q_hoare_ro, readonly_guard | intros ?].
  eapply hoare_bind; [apply q_hoare_ro, readonly_get | intros s0].
  eapply hoare_bind; [apply q_hoare_ro, readonly_getF | intros f].
  eapply hoare_bind; [apply q_ok_na_go | intros r].
  destruct r; [apply hoare_ret; auto|].
  eapply hoare_bind; [apply q_ok_close | intros ?; apply hoare_ret; auto].
Qed.

Lemma q_ok_next_toa : forall qi, hoare q_F (query_next_table_or_archetype qi) (fun _ => q_F) q_T.
Proof.
  intros. unfold query_next_table_or_archetype.
  eapply hoare_bind; [apply q_hoare_getQ | intros q].
  eapply hoare_bind with (R := fun _ => q_I qi).
  { apply hoare_guard; [|intros; exact I]. intros s [HF Hq] Hg. apply Nat.leb_le in Hg.
    split; [intros k x _ Hx; eapply HF; exact Hx|]. intros x Hx. congruence. }
  intros ?. destruct (q_cache q) as [addr|].
  - eapply hoare_bind; [apply q_hoare_ro, readonly_get | intros s0].
    eapply hoare_bind; [apply q_hoare_ro, readonly_of_opt | intros e].
    eapply hoare_conseq; [apply q_ok_next_table | auto | | auto].
    intros r s Hr. destruct r; exact Hr.
  - destruct (Nat.leb 2 (q_arch q)); [|apply q_ok_next_archetype].
    eapply hoare_bind; [apply q_ok_next_table | intros found].
    destruct found; [apply hoare_ret; auto | apply q_ok_next_archetype].
Qed.

Lemma q_ok_next : forall d qi, hoare q_F (query_next d qi) (fun _ => q_F) q_T.
Proof.
  intros. unfold query_next.
  eapply hoare_bind; [apply q_hoare_getQ | intros q].
  eapply hoare_bind with (R := fun _ s => q_F s /\ nth_error (w_queries s) qi = Some q).
  { destruct d; cbn [whenM]; [|apply hoare_ret; auto]. apply hoare_guard; [auto | intros; exact I]. }
  intros ?.
  assert (Htoa : hoare (fun s => q_F s /\ nth_error (w_queries s) qi = Some q)
                       (query_next_table_or_archetype qi) (fun _ => q_F) q_T).
  { eapply hoare_conseq; [apply q_ok_next_toa | | auto | auto]. intros s [H _]; exact H. }
  destruct (q_max q) as [mx|] eqn:Em; [|exact Htoa].
  destruct (Nat.ltb (q_index q) mx); [|exact Htoa].
  eapply hoare_bind; [|intros ?; apply hoare_ret; intros s Hs; exact Hs].
  apply q_hoare_modQ. intros s [HF Hq] k x Hx. cbn in Hx.
  destruct (Nat.eq_dec k qi) as [->|Hk].
  - apply q_nth_error_updf_eq in Hx. destruct Hx as (y & Hy & ->).
    assert (y = q) by congruence. subst y.
    destruct (HF _ _ Hq) as (H0 & H1 & H2). unfold cursor_ok. cbn.
    split; [|split].
    + intros Ht. destruct (H0 Ht) as (Hm & _). congruence.
    + intros Ht. destruct (H1 Ht) as (_ & Hm). congruence.
    + exact H2.
  - rewrite q_nth_error_updf_ne in Hx by exact Hk. eapply HF; exact Hx.
Qed.

Theorem cursor_ok_preserved : forall d qi s,
  (forall k q, nth_error (w_queries s) k = Some q -> cursor_ok q) ->
  let s' := state_of (query_next d qi s) in
  is_err (query_next d qi s) = false ->
  forall k q, nth_error (w_queries s') k = Some q -> cursor_ok q.
Proof.
  intros d qi s H s' He. pose proof (q_ok_next d qi s H) as Hh. subst s'.
  destruct (query_next d qi s); [exact Hh | discriminate].
Qed.

