(** * QueryProofs: filters, the query cursor and Count/EntityAt (filter.go, query_gen.go,
    query_count.go). Properties C03 (queries visit exactly the selected rows, Count, EntityAt),
    C13 (queries do not write the world), C20 (debug build panics on the same calls). To be filled. *)
From Ark Require Import Model.Base Model.Mask Model.Pool Model.Util Model.World Model.Run.
From Ark Require Import Proofs.MaskProofs Proofs.ObsDoc Proofs.TableProofs Proofs.WF Proofs.StorageA.
From RecordUpdate Require Import RecordSet.
Import RecordSetNotations.
From Coq Require Import Lia.

(** ** Filter matching is set inclusion / disjointness (mask level, all bits) *)
Theorem filter_matches_spec : forall f m,
  filter_matches f m = true <->
  subset (f_mask f) m /\ (f_haswithout f = true -> disjoint m (f_without f)).
Admitted.

(** An exclusive filter (without = complement of the mask within the mask width) matches exactly its own mask. *)
Theorem filter_exclusive_exact : forall bits f m,
  f_haswithout f = true -> f_without f = mk_not bits (f_mask f) ->
  (forall j, mk_get m j = true -> j < bits) -> (forall j, mk_get (f_mask f) j = true -> j < bits) ->
  (filter_matches f m = true <-> m = f_mask f).
Admitted.

(** ** Queries never write the world: every query operation only changes the query objects, the
    lock, and nothing else (in particular no storage field and no observer field). *)
Definition query_frame (s s' : W) : Prop :=
  w_cfg s' = w_cfg s /\ w_reg s' = w_reg s /\ w_pool s' = w_pool s /\ w_index s' = w_index s /\
  w_istarget s' = w_istarget s /\ w_archs s' = w_archs s /\ w_tables s' = w_tables s /\
  w_relarchs s' = w_relarchs s /\ w_compindex s' = w_compindex s /\ w_archcount s' = w_archcount s /\
  w_version s' = w_version s /\ w_cheap s' = w_cheap s /\ w_centries s' = w_centries s /\
  w_cpool s' = w_cpool s /\ w_filters s' = w_filters s /\ w_res s' = w_res s /\ w_issued s' = w_issued s /\
  w_obs s' = w_obs s /\ w_olists s' = w_olists s /\ w_oagg s' = w_oagg s /\ w_log s' = w_log s.

Theorem query_open_frame : forall fi rels s, query_frame s (state_of (query_open fi rels s)).
Admitted.
Theorem query_next_frame : forall d qi s, query_frame s (state_of (query_next d qi s)).
Admitted.
Theorem query_close_frame : forall qi s, query_frame s (state_of (query_close qi s)).
Admitted.
Theorem query_count_readonly : forall qi s, state_of (query_count qi s) = s.
Admitted.
Theorem query_entity_at_readonly : forall qi i s, state_of (query_entity_at qi i s) = s.
Admitted.
Theorem query_entity_readonly : forall d qi s, state_of (query_entity d qi s) = s.
Admitted.

(** ** Count and EntityAt agree with the walk *)
Theorem query_count_is_walk_sum : forall qi s w s',
  query_walk qi s = Ok w s' -> query_count qi s = Ok (fold_left (fun acc p => acc + snd p) w 0) s'.
Admitted.

(** EntityAt i is the i-th entity of the concatenated rows of the walked tables, and fails exactly
    beyond the count. *)
Definition walk_rows (s : W) (w : list (nat * nat)) : list ent :=
  flat_map (fun p : nat * nat => match nth_error (w_tables s) (fst p) with
                                 | Some t => firstn (snd p) (t_ents t)
                                 | None => [] end) w.

Theorem query_entity_at_spec : forall qi s w i,
  query_walk qi s = Ok w s ->
  (forall p, In p w -> exists t, nth_error (w_tables s) (fst p) = Some t /\ snd p = t_len t /\ t_len t <= length (t_ents t)) ->
  match query_entity_at qi i s with
  | Ok e s' => s' = s /\ nth_error (walk_rows s w) i = Some e
  | Err _ s' => s' = s /\ length (walk_rows s w) <= i
  end.
Admitted.

(** ** The cursor visits exactly the walked rows, in order (uncached and cached queries).
    [drain d fuel qi s]: call Next/Entity until Next returns false, collecting the entities. *)
Fixpoint drain (d : bool) (fuel : nat) (qi : nat) (s : W) : res W (list ent) :=
  match fuel with
  | O => Ok [] s
  | S f =>
      match query_next d qi s with
      | Err e s' => Err e s'
      | Ok false s' => Ok [] s'
      | Ok true s' =>
          match query_entity d qi s' with
          | Err e s'' => Err e s''
          | Ok x s'' => match drain d f qi s'' with
                        | Ok xs s3 => Ok (x :: xs) s3
                        | Err e s3 => Err e s3
                        end
          end
      end
  end.

(** A freshly opened query (cursor before the first table): iterating it to exhaustion yields exactly
    the rows of the non-empty tables of its walk, in walk order, and leaves the query closed with its
    lock bit released. Preconditions: the tables and archetypes the walk mentions exist and every
    table is shaped ([len <= length ents]) - all implied by [WF]. *)
Theorem drain_is_walk : forall d qi s q w,
  WF s -> nth_error (w_queries s) qi = Some q ->
  q_arch q = 1 -> q_tab q = 1 -> q_max q = None -> q_index q = 0 -> q_table q = None -> q_tables q = [] ->
  mk_get (lk_mask (w_lock s)) (q_lock q) = true ->
  query_walk qi s = Ok w s ->
  forall fuel, length (walk_rows s w) < fuel ->
  match drain d fuel qi s with
  | Ok es s' => es = walk_rows s w /\ query_frame s s' /\
                (exists q', nth_error (w_queries s') qi = Some q' /\ q_tab q' = 0) /\
                mk_get (lk_mask (w_lock s')) (q_lock q) = false
  | Err _ _ => False
  end.
Admitted.

(** ** Debug build: the additional cursor checks change no outcome on well-formed cursors.
    A cursor is well formed if closed cursors have no row window and no current table, and a cursor
    has a current table exactly when it points at a table. *)
Definition cursor_ok (q : qobj) : Prop :=
  (q_tab q = 0 -> q_max q = None /\ q_index q = 0 /\ q_table q = None) /\
  (q_tab q = 1 -> q_table q = None /\ q_max q = None) /\
  (2 <= q_tab q -> q_table q <> None).

Theorem debug_same_next : forall qi s q,
  nth_error (w_queries s) qi = Some q -> cursor_ok q ->
  is_err (query_next true qi s) = is_err (query_next false qi s) /\
  (is_err (query_next false qi s) = false -> query_next true qi s = query_next false qi s).
Admitted.

Theorem debug_same_entity : forall qi s q,
  nth_error (w_queries s) qi = Some q -> cursor_ok q ->
  is_err (query_entity true qi s) = is_err (query_entity false qi s) /\
  (is_err (query_entity false qi s) = false -> query_entity true qi s = query_entity false qi s).
Admitted.

(** The query operations keep cursors well formed. *)
Theorem cursor_ok_preserved : forall d qi s,
  (forall k q, nth_error (w_queries s) k = Some q -> cursor_ok q) ->
  let s' := state_of (query_next d qi s) in
  is_err (query_next d qi s) = false ->
  forall k q, nth_error (w_queries s') k = Some q -> cursor_ok q.
Admitted.
