(** * Rel2HistQL: the bookkeeping between the world lock and the open queries, over the histories of
    Rel2HistQ (worlds with relation components, filters, registration, queries). Helper prefix [r2l_].

    [Inv2Q] of Rel2HistQ needs no clause about [w_lock] and [w_queries]. This file proves the clause anyway,
    as an ADDITIONAL invariant of the same histories:

      [LQ s]: the lock pool is well-formed ([LockProofs.Inv']) for a set [held] of bits such that a bit is held
              iff it is the lock bit of an OPEN query object ([1 <= q_tab]), and two open query objects never
              share a bit.

    Consequences in every reachable state ([reachable_LQ]): the world is locked iff some query is open
    ([reachable_locked_iff_open]); [Close] of an open query (and the [Next] that exhausts it) always finds its
    bit held - the unlock is never unbalanced; a walk that fails half-way ([on_err] / [nt_fail_pos]) leaves the
    query open and the world locked (the Go cursor keeps its lock until Close is called).

    Proof: a Hoare logic over [hoare] of Hoare.v with the error postcondition [LQ]: the cursor functions are run
    under the precondition "query [qi] is open" ([r2l_Po]); only [query_close] changes the open status, and
    nothing follows it. The core class: [w_queries] is untouched ([r2q_kf_step_op]) and the lock is untouched in a
    world without observers ([r2l_core_side]). *)
From Ark Require Import Model.Base Model.Mask Model.Pool Model.Util Model.World Model.Run.
From Ark Require Import Proofs.TableProofs Proofs.MaskProofs Proofs.Hoare Proofs.WF Proofs.StorageA Proofs.StorageBDefs
  Proofs.StorageB_sb1 Proofs.StorageB_sb2 Proofs.StorageB_sb3 Proofs.LockWorld Proofs.StorageC Proofs.RelProofs
  Proofs.CacheProofs Proofs.QueryProofs
  Proofs.Rel2Defs Proofs.Rel2Struct Proofs.Rel2Remove Proofs.Rel2SetRel Proofs.Rel2Ops Proofs.Rel2Maint Proofs.Rel2Hist
  Proofs.Rel2Cache Proofs.Rel2HistQ.
From Ark Require Properties.Common Proofs.Rel2Check Proofs.StorageD Proofs.LockProofs Proofs.LockSpec.
From RecordUpdate Require Import RecordSet.
Import RecordSetNotations.
From Coq Require Import Lia.
Close Scope Z_scope.

(* ================================================================================================ *)
(** * Part 1: the clause *)

Definition r2l_isopen (q : qobj) : bool := Nat.leb 1 (q_tab q).

(** query object [qi] is open and holds lock bit [b] *)
Definition r2l_open (s : W) (qi b : nat) : Prop :=
  exists q, nth_error (w_queries s) qi = Some q /\ r2l_isopen q = true /\ q_lock q = b.

Definition r2l_lock_inv (l : lockst) (held : list nat) : Prop :=
  LockProofs.Inv' (ip (lk_pool l)) (inext (lk_pool l)) (iavail (lk_pool l)) (lk_mask l) held.

Definition LQ (s : W) : Prop :=
  exists held, r2l_lock_inv (w_lock s) held /\
    (forall b, In b held <-> exists qi, r2l_open s qi b) /\
    (forall qi qj b, r2l_open s qi b -> r2l_open s qj b -> qi = qj).

Lemma r2l_LQ_ext : forall s s', w_lock s' = w_lock s -> (forall i b, r2l_open s' i b <-> r2l_open s i b) -> LQ s -> LQ s'.
Proof.
  intros s s' El Ho (held & H1 & H2 & H3). exists held. rewrite El. split; [exact H1|]. split.
  - intros b. rewrite (H2 b). split; intros (qi & H); exists qi; apply Ho; exact H.
  - intros qi qj b A B. apply (H3 qi qj b); apply Ho; assumption.
Qed.

Lemma r2l_LQ_same : forall s s', w_lock s' = w_lock s -> w_queries s' = w_queries s -> LQ s -> LQ s'.
Proof. intros s s' El Eq. apply r2l_LQ_ext; [exact El|]. intros i b. unfold r2l_open. rewrite Eq. tauto. Qed.

(** an update of query [qi] that keeps its lock bit and its open status *)
Lemma r2l_open_updf : forall (s : W) qi f,
  (forall q, nth_error (w_queries s) qi = Some q -> q_lock (f q) = q_lock q /\ r2l_isopen (f q) = r2l_isopen q) ->
  forall i b, r2l_open (s <| w_queries ::= updf qi f |>) i b <-> r2l_open s i b.
Proof.
  intros s qi f Hf i b. unfold r2l_open.
  change (w_queries (s <| w_queries ::= updf qi f |>)) with (updf qi f (w_queries s)). rewrite TableProofs.nth_error_updf.
  destruct (Nat.eqb_spec qi i) as [<-|Hne]; [|tauto].
  destruct (nth_error (w_queries s) qi) as [q|] eqn:Hq; cbn [option_map].
  - destruct (Hf q eq_refl) as (E1 & E2). split.
    + intros (q' & Hq' & Ho & Hl). injection Hq' as <-. exists q. rewrite <- E2, <- E1. auto.
    + intros (q' & Hq' & Ho & Hl). injection Hq' as <-. exists (f q). rewrite E2, E1. auto.
  - split; intros (q' & Hq' & _); discriminate.
Qed.

(** the world is locked iff a bit is held *)
Lemma r2l_locked_iff : forall l held, r2l_lock_inv l held -> (lock_is_locked l = true <-> held <> []).
Proof.
  intros l held (fl & _ & _ & _ & _ & _ & _ & _ & _ & Hm).
  unfold lock_is_locked, mk_is_zero. rewrite negb_true_iff, N.eqb_neq. split; intros H.
  - intros Hnil. apply H. apply N.bits_inj_iff. intros n. rewrite N.bits_0.
    destruct (N.testbit (lk_mask l) n) eqn:E; auto.
    rewrite <- (N2Nat.id n) in E. apply (Hm (N.to_nat n)) in E. rewrite Hnil in E. destruct E.
  - intros H0. destruct held as [|b t]; [congruence|].
    assert (Hb : mk_get (lk_mask l) b = true) by (apply Hm; left; auto).
    unfold mk_get in Hb. rewrite H0, N.bits_0 in Hb. discriminate.
Qed.

Theorem r2l_LQ_locked_iff : forall s, LQ s ->
  (is_locked s = true <-> exists qi q, nth_error (w_queries s) qi = Some q /\ 1 <= q_tab q).
Proof.
  intros s (held & H1 & H2 & _). unfold is_locked. rewrite (r2l_locked_iff _ held H1). split.
  - intros Hne. destruct held as [|b t]; [congruence|]. destruct (proj1 (H2 b) (or_introl eq_refl)) as (qi & q & Hq & Ho & _).
    exists qi, q. split; [exact Hq|]. apply Nat.leb_le. exact Ho.
  - intros (qi & q & Hq & Ho) Hnil. assert (Hin : In (q_lock q) held).
    { apply H2. exists qi, q. split; [exact Hq|]. split; [apply Nat.leb_le; exact Ho|reflexivity]. }
    rewrite Hnil in Hin. destruct Hin.
Qed.

Lemma r2l_LQ_init : forall c, LQ (init_world c).
Proof.
  intros c. exists []. split; [exact LockProofs.Inv_init|]. split.
  - intros b. split; [intros []|]. intros (qi & q & Hq & _). unfold init_world in Hq. cbn [w_queries] in Hq. destruct qi; discriminate.
  - intros qi qj b (q & Hq & _). unfold init_world in Hq. cbn [w_queries] in Hq. destruct qi; discriminate.
Qed.

(* ================================================================================================ *)
(** * Part 2: Close and Open *)

Lemma r2l_lock_destruct : forall (l : lockst),
  l = {| lk_pool := {| ip := ip (lk_pool l); inext := inext (lk_pool l); iavail := iavail (lk_pool l) |}; lk_mask := lk_mask l |}.
Proof. intros [[a b c] m]. reflexivity. Qed.

Lemma r2l_unlock_spec : forall l held b, r2l_lock_inv l held ->
  match lock_unlock l b with
  | Some l' => In b held /\ r2l_lock_inv l' (LockSpec.remove_nat b held)
  | None => ~ In b held
  end.
Proof. intros l held b H. rewrite (r2l_lock_destruct l). apply (LockProofs.lock_unlock_spec _ _ _ _ _ b H). Qed.

Lemma r2l_lock_spec : forall l held, r2l_lock_inv l held ->
  match lock_lock l with
  | Some (b, l') => ~ In b held /\ r2l_lock_inv l' (b :: held)
  | None => True
  end.
Proof.
  intros l held H. rewrite (r2l_lock_destruct l). pose proof (LockProofs.lock_lock_spec _ _ _ _ _ H) as S.
  destruct (lock_lock _) as [[b l']|]; [|exact I]. destruct S as (S1 & _ & _ & S4). split; assumption.
Qed.

Definition r2l_fclose (q : qobj) : qobj :=
  q <| q_arch := 0 |> <| q_tab := 0 |> <| q_index := 0 |> <| q_max := None |> <| q_tables := [] |> <| q_table := None |> <| q_cache := None |>.

(** Close, for an arbitrary index: unknown and closed queries are left alone; an open query is closed and its
    bit released - the unlock is never unbalanced. *)
Theorem r2l_close : forall qi, hoare LQ (query_close qi) (fun _ => LQ) LQ.
Proof.
  intros qi s HL. unfold query_close.
  destruct (nth_error (w_queries s) qi) as [q|] eqn:Hq.
  2:{ assert (E : getQ qi s = Err EIndex s) by (unfold getQ, bind, get, of_opt; rewrite Hq; reflexivity).
      rewrite (sa_bind_err E). exact HL. }
  rewrite (q_bind_getQ _ s qi q _ Hq). destruct (Nat.ltb (q_tab q) 1) eqn:Elt; [exact HL|].
  apply Nat.ltb_ge in Elt.
  set (s1 := s <| w_queries ::= updf qi r2l_fclose |>).
  assert (E1 : modQ qi r2l_fclose s = Ok tt s1) by reflexivity.
  change (match (modQ qi r2l_fclose ;;; unlockM (q_lock q)) s with Ok _ s' => LQ s' | Err _ s' => LQ s' end).
  rewrite (sa_bind_ok E1).
  destruct HL as (held & H1 & H2 & H3).
  assert (Hopen : r2l_open s qi (q_lock q)).
  { exists q. split; [exact Hq|]. split; [apply Nat.leb_le; exact Elt|reflexivity]. }
  assert (Hheld : In (q_lock q) held) by (apply H2; exists qi; exact Hopen).
  pose proof (r2l_unlock_spec (w_lock s) held (q_lock q) H1) as HU.
  unfold unlockM. rewrite sb2_bind_get. change (w_lock s1) with (w_lock s).
  destruct (lock_unlock (w_lock s) (q_lock q)) as [l'|]; [|contradiction].
  destruct HU as (_ & HI'). unfold put.
  (* the open queries of the final state are those of [s] except [qi] *)
  assert (Hop : forall i b, r2l_open (s1 <| w_lock := l' |>) i b <-> (r2l_open s i b /\ i <> qi)).
  { intros i b. unfold r2l_open. cbn. rewrite TableProofs.nth_error_updf. destruct (Nat.eqb_spec qi i) as [<-|Hne].
    - rewrite Hq. cbn [option_map]. split.
      + intros (q' & Hq' & Ho & _). injection Hq' as <-. discriminate Ho.
      + intros (_ & Hc). congruence.
    - split; [intros H; split; [exact H|congruence]|intros (H & _); exact H]. }
  exists (LockSpec.remove_nat (q_lock q) held). split; [exact HI'|]. split.
  - intros b. rewrite LockProofs.in_remove_nat, H2. split.
    + intros ((i & Hi) & Hb). exists i. apply Hop. split; [exact Hi|]. intros ->.
      destruct Hi as (q' & Hq' & _ & Hl). rewrite Hq in Hq'. injection Hq' as <-. congruence.
    + intros (i & Hi). apply Hop in Hi. destruct Hi as (Hi & Hne). split; [exists i; exact Hi|].
      intros ->. apply Hne. apply (H3 i qi _ Hi Hopen).
  - intros i j b Hi Hj. apply Hop in Hi, Hj. apply (H3 i j b (proj1 Hi) (proj1 Hj)).
Qed.

(** Open: a successful lock hands out a bit no open query holds *)
Lemma r2l_open_state : forall (s : W) b l' q, LQ s -> lock_lock (w_lock s) = Some (b, l') ->
  q_lock q = b -> r2l_isopen q = true -> LQ (s <| w_lock := l' |> <| w_queries ::= fun l => l ++ [q] |>).
Proof.
  intros s b l' q (held & H1 & H2 & H3) El Eb Eo.
  pose proof (r2l_lock_spec (w_lock s) held H1) as HS. rewrite El in HS. destruct HS as (Hfresh & HI').
  set (s' := s <| w_lock := l' |> <| w_queries ::= fun l => l ++ [q] |>).
  assert (Hop : forall i b0, r2l_open s' i b0 <-> (r2l_open s i b0 \/ (i = length (w_queries s) /\ b0 = b))).
  { intros i b0. unfold r2l_open, s'. cbn. split.
    - intros (q' & Hq' & Ho & Hl). apply sa_nth_error_snoc in Hq'. destruct Hq' as [(_ & Hq')|(-> & ->)].
      + left. exists q'. auto.
      + right. split; [reflexivity|congruence].
    - intros [(q' & Hq' & Ho & Hl)|(-> & ->)].
      + exists q'. split; [apply sa_nth_error_snoc_old; exact Hq'|auto].
      + exists q. split; [apply sa_nth_error_snoc_new|auto]. }
  assert (Hlt : forall i b0, r2l_open s i b0 -> i < length (w_queries s)).
  { intros i b0 (q' & Hq' & _). eapply sa_nth_error_lt; eauto. }
  exists (b :: held). split; [exact HI'|]. split.
  - intros b0. cbn [In]. rewrite H2. split.
    + intros [<-|(i & Hi)]; [exists (length (w_queries s)); apply Hop; right; split; reflexivity|exists i; apply Hop; left; exact Hi].
    + intros (i & Hi). apply Hop in Hi. destruct Hi as [Hi|(_ & ->)]; [right; exists i; exact Hi|left; reflexivity].
  - intros i j b0 Hi Hj. apply Hop in Hi, Hj. destruct Hi as [Hi|(-> & ->)], Hj as [Hj|(-> & Eb0)].
    + apply (H3 i j b0 Hi Hj).
    + subst b0. exfalso. apply Hfresh. apply H2. exists i. exact Hi.
    + exfalso. apply Hfresh. apply H2. exists j. exact Hj.
    + reflexivity.
Qed.

Theorem r2l_query_open : forall fi rels, hoare LQ (query_open fi rels) (fun _ => LQ) LQ.
Proof.
  intros fi rels s HL. unfold query_open.
  assert (RO : forall A (m : MW A) B (k : A -> MW B), readonly m ->
            (forall a, match k a s with Ok _ s' => LQ s' | Err _ s' => LQ s' end) ->
            match bind m k s with Ok _ s' => LQ s' | Err _ s' => LQ s' end).
  { intros A m B k Hm Hk. destruct (sc_ro_cases _ m Hm s) as [(a & E)|(er & E)].
    - rewrite (sa_bind_ok E). apply Hk.
    - rewrite (sa_bind_err E). exact HL. }
  apply RO; [apply readonly_getF|]. intros f.
  apply RO; [destruct (negb (f_unsafe f)); [apply readonly_to_relations|apply readonly_ret]|]. intros _.
  rewrite sb2_bind_get.
  apply RO; [destruct (f_cache f); ro|]. intros cache.
  unfold lockM at 1. unfold bind at 1. unfold bind at 1. unfold get at 1.
  destruct (lock_lock (w_lock s)) as [[b l']|] eqn:El; [|exact HL].
  cbn. apply (r2l_open_state s b l' _ HL El); reflexivity.
Qed.

(* ================================================================================================ *)
(** * Part 3: the cursor *)

(** query [qi] is open *)
Definition r2l_Po (qi : nat) (s : W) : Prop :=
  LQ s /\ exists q, nth_error (w_queries s) qi = Some q /\ r2l_isopen q = true.

Lemma r2l_Po_LQ : forall qi s, r2l_Po qi s -> LQ s.
Proof. intros qi s H. apply H. Qed.

Lemma r2l_h_ro : forall A (m : MW A) (P E : W -> Prop), readonly m -> (forall s, P s -> E s) -> hoare P m (fun _ => P) E.
Proof. intros A m P E Hm HPE s Hs. specialize (Hm s). destruct (m s) as [a s'|e s']; cbn in Hm; subst; auto. Qed.

Lemma r2l_h_getQ : forall qi (P E : W -> Prop), (forall s, P s -> E s) ->
  hoare P (getQ qi) (fun q s => P s /\ nth_error (w_queries s) qi = Some q) E.
Proof.
  intros qi P E HPE s Hs. unfold getQ, bind, get, of_opt. destruct (nth_error (w_queries s) qi) as [q|] eqn:Hq; cbn; auto.
Qed.

Lemma r2l_h_on_err : forall A (m : MW A) h (P : W -> Prop) (Q : A -> W -> Prop) (E0 E : W -> Prop),
  hoare P m Q E0 -> (forall s, E0 s -> E (h s)) -> hoare P (on_err m h) Q E.
Proof. intros A m h P Q E0 E Hm Hh s Hs. unfold on_err. specialize (Hm s Hs). destruct (m s); [exact Hm|apply Hh; exact Hm]. Qed.

(** an update of the cursor that keeps the lock bit and does not close the query *)
Definition r2l_keeps (f : qobj -> qobj) : Prop :=
  forall q, q_lock (f q) = q_lock q /\ (r2l_isopen q = true -> r2l_isopen (f q) = true).

Lemma r2l_Po_updf : forall qi f (s : W), r2l_keeps f -> r2l_Po qi s -> r2l_Po qi (s <| w_queries ::= updf qi f |>).
Proof.
  intros qi f s Hf (HL & q & Hq & Ho). split.
  - apply (r2l_LQ_ext s); [reflexivity| |exact HL]. apply r2l_open_updf.
    intros q' Hq'. rewrite Hq in Hq'. injection Hq' as <-. destruct (Hf q) as (E1 & E2). split; [exact E1|]. rewrite Ho. apply E2. exact Ho.
  - exists (f q). split; [|apply (Hf q); exact Ho].
    change (w_queries (s <| w_queries ::= updf qi f |>)) with (updf qi f (w_queries s)).
    rewrite TableProofs.nth_error_updf, Nat.eqb_refl, Hq. reflexivity.
Qed.

Lemma r2l_h_modQ : forall qi f (E : W -> Prop), r2l_keeps f -> hoare (r2l_Po qi) (modQ qi f) (fun _ => r2l_Po qi) E.
Proof. intros qi f E Hf s Hs. unfold modQ, modify. apply (r2l_Po_updf qi f s Hf Hs). Qed.

(** an update that changes neither the lock bit nor the open status needs no precondition *)
Lemma r2l_h_modQ_neutral : forall qi f, (forall q, q_lock (f q) = q_lock q /\ r2l_isopen (f q) = r2l_isopen q) ->
  hoare LQ (modQ qi f) (fun _ => LQ) LQ.
Proof.
  intros qi f Hf s HL. unfold modQ, modify. apply (r2l_LQ_ext s); [reflexivity| |exact HL].
  apply r2l_open_updf. intros q _. apply Hf.
Qed.

Lemma r2l_keeps_tab : forall (g : qobj -> qobj) n, (forall q, q_lock (g q) = q_lock q /\ q_tab (g q) = n q) ->
  (forall q, 1 <= q_tab q -> 1 <= n q) -> r2l_keeps g.
Proof.
  intros g n Hg Hn q. destruct (Hg q) as (E1 & E2). split; [exact E1|]. unfold r2l_isopen. rewrite E2.
  intros H. apply Nat.leb_le. apply Hn. apply Nat.leb_le. exact H.
Qed.

Lemma r2l_ro_nt_go : forall q tables fuel pos, readonly (q_nt_go q tables fuel pos).
Proof.
  intros q tables fuel. induction fuel as [|fu IH]; intros pos; [rewrite q_nt_go_0; apply readonly_ret|rewrite q_nt_go_S].
  destruct (nth_error tables pos) as [tid|]; [|apply readonly_ret].
  apply readonly_bind; [apply readonly_getT|]. intros t. destruct (Nat.eqb (t_len t) 0); [apply IH|].
  apply readonly_bind; [apply readonly_of_opt|]. intros mt. destruct mt; [apply readonly_ret|apply IH].
Qed.

Lemma r2l_set_table : forall qi pos tid, hoare (r2l_Po qi) (query_set_table qi pos tid) (fun _ => r2l_Po qi) LQ.
Proof.
  intros qi pos tid. unfold query_set_table.
  eapply hoare_bind; [apply r2l_h_ro; [apply readonly_getT|apply r2l_Po_LQ]|]. intros t.
  apply r2l_h_modQ. apply (r2l_keeps_tab _ (fun _ => pos + 2)); [intros q; split; reflexivity|intros; lia].
Qed.

Lemma r2l_if_Po : forall (c : bool) qi s, r2l_Po qi s -> if c then LQ s else r2l_Po qi s.
Proof. intros c qi s H. destruct c; [apply (r2l_Po_LQ qi s H)|exact H]. Qed.

(** nextTable on an open query: a cached query that is exhausted closes itself; an uncached one stays open;
    a walk that fails leaves the cursor at the failing position, open. *)
Lemma r2l_next_table : forall qi tables cached,
  hoare (r2l_Po qi) (query_next_table qi tables cached) (fun _ s => if cached then LQ s else r2l_Po qi s) LQ.
Proof.
  intros qi tables cached. rewrite q_next_table_eq.
  eapply hoare_bind; [apply (r2l_h_ro _ (getQ qi) (r2l_Po qi) LQ); [apply q_ro_getQ|apply r2l_Po_LQ]|]. intros q.
  apply hoare_bind with (R := fun _ => r2l_Po qi).
  - apply r2l_h_on_err with (E0 := r2l_Po qi); [apply r2l_h_ro; [apply r2l_ro_nt_go|auto]|].
    intros s Hs. apply (r2l_Po_LQ qi). apply r2l_Po_updf; [|exact Hs].
    apply (r2l_keeps_tab _ (fun _ => nt_fail_pos s (q_rels q) tables (S (length tables)) (q_tab q - 1) + 2)); [intros q0; split; reflexivity|intros; lia].
  - intros [[pos tid]|].
    + eapply hoare_bind; [apply r2l_set_table|]. intros ?u. apply hoare_ret. intros s Hs. apply r2l_if_Po. exact Hs.
    + eapply hoare_bind.
      { apply r2l_h_modQ. apply (r2l_keeps_tab _ (fun q0 => Nat.max (q_tab q0) (length tables + 1))); [intros q0; split; reflexivity|intros; lia]. }
      intros ?u. apply hoare_bind with (R := fun _ s => if cached then LQ s else r2l_Po qi s).
      * destruct cached; cbn [whenM].
        -- eapply hoare_conseq; [apply r2l_close|apply r2l_Po_LQ|auto|auto].
        -- apply hoare_ret. auto.
      * intros ?u. apply hoare_ret. auto.
Qed.

Lemma r2l_na_go : forall qi archs f fuel pos, hoare (r2l_Po qi) (q_na_go qi archs f fuel pos) (fun _ => r2l_Po qi) LQ.
Proof.
  intros qi archs f fuel. induction fuel as [|fu IH]; intros pos; [rewrite q_na_go_0; apply hoare_ret; auto|rewrite q_na_go_S].
  destruct (nth_error archs pos) as [aid|]; [|apply hoare_ret; auto].
  eapply hoare_bind.
  { apply r2l_h_modQ. apply (r2l_keeps_tab _ (fun q0 => q_tab q0)); [intros q0; split; reflexivity|auto]. }
  intros ?u. eapply hoare_bind; [apply r2l_h_ro; [apply q_ro_getA|apply r2l_Po_LQ]|]. intros a.
  destruct (negb (filter_matches f (a_mask a))); [apply IH|].
  destruct (negb (arch_has_rels a)).
  - destruct (a_tables a) as [|t0 tl]; [apply hoare_fail; apply r2l_Po_LQ|].
    eapply hoare_bind; [apply r2l_h_ro; [apply readonly_getT|apply r2l_Po_LQ]|]. intros t.
    destruct (Nat.ltb 0 (t_len t)); [|apply IH].
    eapply hoare_bind; [apply r2l_set_table|]. intros ?u. apply hoare_ret. auto.
  - eapply hoare_bind; [apply (r2l_h_ro _ (getQ qi) (r2l_Po qi) LQ); [apply q_ro_getQ|apply r2l_Po_LQ]|]. intros q.
    eapply hoare_bind; [apply r2l_h_ro; [apply readonly_of_opt|apply r2l_Po_LQ]|]. intros tabs.
    eapply hoare_bind.
    { apply r2l_h_modQ. apply (r2l_keeps_tab _ (fun _ => 1)); [intros q0; split; reflexivity|auto]. }
    intros ?u. eapply hoare_bind; [apply (r2l_next_table qi tabs false)|]. intros found. cbv beta iota.
    destruct found; [apply hoare_ret; auto|apply IH].
Qed.

Lemma r2l_next_archetype : forall qi, hoare (r2l_Po qi) (query_next_archetype qi) (fun _ => LQ) LQ.
Proof.
  intros qi. rewrite q_next_archetype_eq.
  eapply hoare_bind.
  { apply r2l_h_modQ. apply (r2l_keeps_tab _ (fun q0 => q_tab q0)); [intros q0; split; reflexivity|auto]. }
  intros ?u. eapply hoare_bind; [apply (r2l_h_ro _ (getQ qi) (r2l_Po qi) LQ); [apply q_ro_getQ|apply r2l_Po_LQ]|]. intros q.
  eapply hoare_bind; [apply r2l_h_ro; [apply readonly_guard|apply r2l_Po_LQ]|]. intros ?u.
  eapply hoare_bind; [apply r2l_h_ro; [apply readonly_get|apply r2l_Po_LQ]|]. intros s0.
  eapply hoare_bind; [apply r2l_h_ro; [apply readonly_getF|apply r2l_Po_LQ]|]. intros f.
  eapply hoare_bind; [apply r2l_na_go|]. intros r.
  destruct r; [apply hoare_ret; apply r2l_Po_LQ|].
  eapply hoare_bind; [eapply hoare_conseq; [apply r2l_close|apply r2l_Po_LQ|intros a s H; exact H|auto]|].
  intros ?u. apply hoare_ret. auto.
Qed.

Lemma r2l_next_toa : forall qi, hoare LQ (query_next_table_or_archetype qi) (fun _ => LQ) LQ.
Proof.
  intros qi. unfold query_next_table_or_archetype.
  eapply hoare_bind; [apply (r2l_h_getQ qi LQ LQ); auto|]. intros q.
  apply hoare_bind with (R := fun _ => r2l_Po qi).
  - apply hoare_guard.
    + intros s (HL & Hq) Hb. split; [exact HL|]. exists q. split; [exact Hq|exact Hb].
    + intros s (HL & _) _. exact HL.
  - intros ?u. destruct (q_cache q) as [addr|].
    + eapply hoare_bind; [apply r2l_h_ro; [apply readonly_get|apply r2l_Po_LQ]|]. intros s0.
      eapply hoare_bind; [apply r2l_h_ro; [apply readonly_of_opt|apply r2l_Po_LQ]|]. intros e.
      apply (r2l_next_table qi (ce_tables e) true).
    + destruct (Nat.leb 2 (q_arch q)); [|apply r2l_next_archetype].
      eapply hoare_bind; [apply (r2l_next_table qi (q_tables q) false)|]. intros found. cbv beta iota.
      destruct found; [apply hoare_ret; apply r2l_Po_LQ|apply r2l_next_archetype].
Qed.

(** Next, for an arbitrary index and cursor state *)
Theorem r2l_query_next : forall d qi, hoare LQ (query_next d qi) (fun _ => LQ) LQ.
Proof.
  intros d qi. unfold query_next.
  eapply hoare_bind; [apply r2l_h_ro; [apply q_ro_getQ|auto]|]. intros q.
  eapply hoare_bind; [apply r2l_h_ro; [destruct d; [apply readonly_guard|apply readonly_ret]|auto]|]. intros ?u.
  destruct (q_max q) as [mx|]; [|apply r2l_next_toa].
  destruct (Nat.ltb (q_index q) mx); [|apply r2l_next_toa].
  eapply hoare_bind; [apply r2l_h_modQ_neutral; intros q0; split; reflexivity|]. intros ?u. apply hoare_ret. auto.
Qed.

Lemma r2l_drain_go : forall d qi fuel acc, hoare LQ (StorageD.sd_drain_go d qi fuel acc) (fun _ => LQ) LQ.
Proof.
  intros d qi fuel. induction fuel as [|fu IH]; intros acc; [apply hoare_ret; auto|].
  cbn [StorageD.sd_drain_go]. eapply hoare_bind; [apply r2l_query_next|]. intros more.
  destruct more; [|apply hoare_ret; auto].
  eapply hoare_bind; [apply r2l_h_ro; [apply StorageD.sd_ro_query_entity|auto]|]. intros e. apply IH.
Qed.

(** Every query operation keeps the clause, with arbitrary arguments, in both outcomes. *)
Theorem r2l_query_op : forall debug o, r2q_query_op o = true -> hoare LQ (step_op debug o) (fun _ => LQ) LQ.
Proof.
  intros debug o Hq. destruct o; try discriminate Hq; [rewrite StorageD.sd_step_op_QueryAll | cbn [step_op] ..].
  - eapply hoare_bind; [apply r2l_h_ro; [apply readonly_resolveR|auto]|]. intros rl.
    eapply hoare_bind; [apply r2l_h_ro; [apply readonly_resolve_relidx|auto]|]. intros ?rl.
    eapply hoare_bind; [apply r2l_h_ro; [apply readonly_check_unsafe_rels|auto]|]. intros ?u0.
    eapply hoare_bind; [apply r2l_query_open|]. intros qi.
    eapply hoare_bind; [apply r2l_h_ro; [apply StorageD.sd_ro_query_count|auto]|]. intros cnt.
    eapply hoare_bind; [apply r2l_drain_go|]. intros es.
    eapply hoare_bind; [apply r2l_close|]. intros ?u. apply hoare_ret. auto.
  - eapply hoare_bind; [apply r2l_h_ro; [apply readonly_resolveR|auto]|]. intros rl.
    eapply hoare_bind; [apply r2l_h_ro; [apply readonly_resolve_relidx|auto]|]. intros ?rl.
    eapply hoare_bind; [apply r2l_h_ro; [apply readonly_check_unsafe_rels|auto]|]. intros ?u0.
    eapply hoare_bind; [apply r2l_query_open|]. intros qi. apply hoare_ret. auto.
  - eapply hoare_bind; [apply r2l_query_next|]. intros b. apply hoare_ret. auto.
  - eapply hoare_bind; [apply r2l_close|]. intros b. apply hoare_ret. auto.
  - eapply hoare_bind; [apply r2l_h_ro; [apply StorageD.sd_ro_query_count|auto]|]. intros b. apply hoare_ret. auto.
  - eapply hoare_bind; [apply r2l_h_ro; [apply StorageD.sd_ro_query_entity_at|auto]|]. intros b. apply hoare_ret. auto.
  - eapply hoare_bind; [apply r2l_h_ro; [apply StorageD.sd_ro_query_entity|auto]|]. intros b. apply hoare_ret. auto.
Qed.

(** Close of an existing query object never fails: the unlock is balanced. *)
Theorem r2l_close_ok : forall qi s q, LQ s -> nth_error (w_queries s) qi = Some q ->
  exists s', query_close qi s = Ok tt s' /\ LQ s' /\
    (exists q', nth_error (w_queries s') qi = Some q' /\ r2l_isopen q' = false).
Proof.
  intros qi s q HL Hq. pose proof (r2l_close qi s HL) as HC. unfold query_close in *.
  rewrite (q_bind_getQ _ s qi q _ Hq) in *. destruct (Nat.ltb (q_tab q) 1) eqn:Elt.
  - exists s. split; [reflexivity|]. split; [exact HL|]. exists q. split; [exact Hq|].
    unfold r2l_isopen. apply Nat.ltb_lt in Elt. apply Nat.leb_gt. exact Elt.
  - apply Nat.ltb_ge in Elt.
    set (s1 := s <| w_queries ::= updf qi r2l_fclose |>) in *.
    assert (E1 : modQ qi r2l_fclose s = Ok tt s1) by reflexivity.
    change (match (modQ qi r2l_fclose ;;; unlockM (q_lock q)) s with Ok _ s' => LQ s' | Err _ s' => LQ s' end) in HC.
    change (exists s', (modQ qi r2l_fclose ;;; unlockM (q_lock q)) s = Ok tt s' /\ LQ s' /\
              (exists q', nth_error (w_queries s') qi = Some q' /\ r2l_isopen q' = false)).
    rewrite (sa_bind_ok E1) in *.
    destruct HL as (held & H1 & H2 & _).
    assert (Hheld : In (q_lock q) held).
    { apply H2. exists qi, q. split; [exact Hq|]. split; [apply Nat.leb_le; exact Elt|reflexivity]. }
    pose proof (r2l_unlock_spec (w_lock s) held (q_lock q) H1) as HU.
    unfold unlockM in *. rewrite sb2_bind_get in *. change (w_lock s1) with (w_lock s) in *.
    destruct (lock_unlock (w_lock s) (q_lock q)) as [l'|]; [|contradiction].
    unfold put in *. eexists. split; [reflexivity|]. split; [exact HC|].
    exists (r2l_fclose q). split; [|reflexivity]. cbn. rewrite TableProofs.nth_error_updf, Nat.eqb_refl, Hq. reflexivity.
Qed.

(* ================================================================================================ *)
(** * Part 4: the core class and the filter operations leave the lock and the query objects alone *)

(** in a world without observers the side state (lock included) is kept *)
Definition r2l_sd (s s' : W) : Prop := r2e_noobs s -> side_same s s'.

Lemma r2l_sd_refl : forall s, r2l_sd s s.
Proof. intros s _. apply sa_side_same_refl. Qed.
Lemma r2l_sd_trans : forall s1 s2 s3, r2l_sd s1 s2 -> r2l_sd s2 s3 -> r2l_sd s1 s3.
Proof.
  intros s1 s2 s3 H1 H2 Hn. pose proof (H1 Hn) as A. apply (sa_side_same_trans s1 s2 s3 A). apply H2. apply (r2e_noobs_side s1 s2 A Hn).
Qed.

Definition r2l_sdp {A} (m : MW A) : Prop := r2e_pres r2l_sd m.

Lemma r2l_sdp_ro : forall A (m : MW A), readonly m -> r2l_sdp m.
Proof. intros A m H. apply (r2e_pres_ro r2l_sd r2l_sd_refl). exact H. Qed.
Lemma r2l_sdp_bind : forall A B (m : MW A) (k : A -> MW B), r2l_sdp m -> (forall a, r2l_sdp (k a)) -> r2l_sdp (bind m k).
Proof. intros A B m k. apply (r2e_pres_bind r2l_sd r2l_sd_trans). Qed.
Lemma r2l_sdp_whenM : forall b m, r2l_sdp m -> r2l_sdp (whenM b m).
Proof. intros b m. apply (r2e_pres_whenM r2l_sd r2l_sd_refl). Qed.
Lemma r2l_sdp_fkp : forall A (m : MW A), r2e_fkp m -> r2l_sdp m.
Proof. intros A m H s Hn. apply (H s Hn). Qed.
Lemma r2l_sdp_fc : forall A (m : MW A), (forall s, r2e_fc s (state_of (m s))) -> r2l_sdp m.
Proof. intros A m H s Hn. apply (H s Hn). Qed.

Lemma r2l_fkp_write_cell : forall tid ci row v, r2e_fkp (write_cell tid ci row v).
Proof. intros. unfold write_cell. r2e_fk_tac. Qed.

Ltac r2l_sd_step :=
  match goal with
  | |- r2l_sdp (ret _) => apply r2l_sdp_ro, readonly_ret
  | |- r2l_sdp (fail _) => apply r2l_sdp_ro, readonly_fail
  | |- r2l_sdp get => apply r2l_sdp_ro, readonly_get
  | |- r2l_sdp (guard _ _) => apply r2l_sdp_ro, readonly_guard
  | |- r2l_sdp (of_opt _ _) => apply r2l_sdp_ro, readonly_of_opt
  | |- r2l_sdp (getT _) => apply r2l_sdp_ro, readonly_getT
  | |- r2l_sdp (get_index _) => apply r2l_sdp_ro, readonly_get_index
  | |- r2l_sdp check_locked => apply r2l_sdp_ro, sc_ro_check_locked
  | |- r2l_sdp (arch_mask_of_table _) => apply r2l_sdp_ro, sc_ro_arch_mask
  | |- r2l_sdp (resolveH _) => apply r2l_sdp_ro, readonly_resolveH
  | |- r2l_sdp (resolveR _) => apply r2l_sdp_ro, readonly_resolveR
  | |- r2l_sdp (cell_of _ _ _) => apply r2l_sdp_ro, sc_ro_cell_of
  | |- r2l_sdp (whenM _ _) => apply r2l_sdp_whenM
  | |- r2l_sdp (bind _ _) => apply r2l_sdp_bind; [|intros ?]
  | |- r2l_sdp (let '(_, _) := ?x in _) => destruct x
  | |- r2l_sdp (match ?x with _ => _ end) => destruct x
  | |- r2l_sdp (if ?x then _ else _) => destruct x
  end.
Ltac r2l_sd_tac := repeat r2l_sd_step.

Definition r2l_plain (o : op) : bool :=
  match o with ORemoveEntity _ | OShrink _ => false | _ => rel_core_op o end.

Lemma r2l_sdp_step_op : forall debug o, r2l_plain o = true -> r2l_sdp (step_op debug o).
Proof.
  intros debug o Hc. destruct o; cbn [r2l_plain rel_core_op] in Hc; try discriminate Hc; cbn [step_op]; r2l_sd_tac.
  all: first [apply r2l_sdp_fc, r2e_fc_create_entity|apply r2l_sdp_fc, r2e_fc_new_entity|apply r2l_sdp_fc, r2e_fc_copy_entity
             |apply r2l_sdp_fkp, r2e_fkp_w_add|apply r2l_sdp_fkp, r2e_fkp_w_remove|apply r2l_sdp_fkp, r2e_fkp_w_exchange
             |apply r2l_sdp_fkp, r2e_fkp_w_set_relations|apply r2l_sdp_fkp, r2l_fkp_write_cell
             |apply r2l_sdp_fkp, r2e_fkp_fire_create|apply r2l_sdp_fkp, r2e_fkp_fire_create_rel|apply r2l_sdp_fkp, r2e_fkp_fire_add|idtac].
Qed.

(** An operation of the core class keeps the lock (and the rest of the side state), locked or not. *)
Theorem r2l_core_side : forall debug s n o, Inv2Q s n -> rel_core_op o = true -> side_same s (state_of (step_op debug o s)).
Proof.
  intros debug s n o (HS & HK & Hno & _) Hc. destruct (r2l_plain o) eqn:Hp; [apply (r2l_sdp_step_op debug o Hp s Hno)|].
  destruct o; cbn [r2l_plain] in Hp; try congruence; cbn [step_op].
  - (* RemoveEntity *)
    unfold bind at 1. rewrite sc_resolveH. destruct (handle s h) as [e|]; [|apply sa_side_same_refl].
    destruct (is_locked s) eqn:Hl.
    + rewrite (sa_bind_err (sb1_check_locked_err s Hl)). apply sa_side_same_refl.
    + rewrite (sa_bind_ok (sb1_check_locked_ok s Hl)). pose proof (r2e_remove_entity_spec s e HS HK Hno) as Hs.
      unfold bind. destruct (storage_remove_entity e s) as [u s1|er s1]; cbn [state_of ret].
      * destruct Hs as (_ & _ & _ & _ & _ & _ & _ & R8 & _). exact R8.
      * destruct Hs as (-> & _). apply sa_side_same_refl.
  - (* Shrink *)
    destruct (is_locked s) eqn:Hl.
    + destruct (structural_blocked debug (OShrink stop0) s eq_refl Hl) as (er & E). cbn [step_op] in E. rewrite E. apply sa_side_same_refl.
    + destruct (D_shrink_spec_w s stop0 HS Hl) as (b & s1 & E & _ & _ & _ & _ & _ & _ & D7 & _).
      rewrite (sa_bind_ok E). exact D7.
Qed.

(** the filter operations *)
Definition r2l_lq (s s' : W) : Prop := w_lock s' = w_lock s /\ w_queries s' = w_queries s.

Lemma r2l_lq_refl : forall s, r2l_lq s s.
Proof. intros s. split; reflexivity. Qed.
Lemma r2l_lq_trans : forall s1 s2 s3, r2l_lq s1 s2 -> r2l_lq s2 s3 -> r2l_lq s1 s3.
Proof. intros s1 s2 s3 (A1 & A2) (B1 & B2). split; congruence. Qed.

Lemma r2l_lq_filter_op : forall debug o s,
  match o with OFilterNew _ _ _ _ _ | OFilterRegister _ | OFilterUnregister _ => True | _ => False end ->
  r2l_lq s (state_of (step_op debug o s)).
Proof.
  intros debug o s Ho. destruct o; try contradiction; cbn [step_op].
  - revert s. change (r2e_pres r2l_lq (rels <- resolveR rels;;
        s <- get;; whenM (negb unsafe) (to_relations (mk_of_list ids) rels);;;
        modify (fun s0 : wstate => s0 <| w_filters ::= fun l => l ++
           [{| f_ids := ids; f_mask := mk_of_list ids;
               f_without := if excl then mk_not (cf_bits (w_cfg s)) (mk_of_list ids) else mk_of_list without;
               f_haswithout := (excl || negb (is_nil without))%bool; f_cache := None; f_rels := rels; f_unsafe := unsafe |}] |>);;;
        ret [Zn (length (w_filters s))])).
    apply (r2e_pres_bind r2l_lq r2l_lq_trans); [apply (r2e_pres_ro r2l_lq r2l_lq_refl), readonly_resolveR|]. intros rl.
    apply (r2e_pres_getbind r2l_lq). intros s.
    assert (X : r2e_pres r2l_lq (whenM (negb unsafe) (to_relations (mk_of_list ids) rl);;;
        modify (fun s0 : wstate => s0 <| w_filters ::= fun l => l ++
           [{| f_ids := ids; f_mask := mk_of_list ids;
               f_without := if excl then mk_not (cf_bits (w_cfg s)) (mk_of_list ids) else mk_of_list without;
               f_haswithout := (excl || negb (is_nil without))%bool; f_cache := None; f_rels := rl; f_unsafe := unsafe |}] |>);;;
        ret [Zn (length (w_filters s))])).
    { apply (r2e_pres_bind r2l_lq r2l_lq_trans).
      { apply (r2e_pres_ro r2l_lq r2l_lq_refl). destruct (negb unsafe); [apply readonly_to_relations|apply readonly_ret]. }
      intros _. apply (r2e_pres_bind r2l_lq r2l_lq_trans); [|intros _; apply (r2e_pres_ro r2l_lq r2l_lq_refl), readonly_ret].
      apply (r2e_pres_modify r2l_lq). intros s1. split; reflexivity. }
    apply X.
  - rewrite r2q_state_bind_ret.
    destruct (StorageD.sd_register_shape f s) as [E|(f0 & id & p' & Hf & [E|(tabs & EU & E)])]; rewrite E; split; reflexivity.
  - rewrite r2q_state_bind_ret.
    destruct (StorageD.sd_unregister_shape f s) as [E|(idx & Hidx & E)]; rewrite E; split; reflexivity.
Qed.

(* ================================================================================================ *)
(** * Part 5: one step, all histories *)

Lemma r2l_LQ_log : forall (s : W) l, LQ s -> LQ (s <| w_log := l |>).
Proof. intros s l. apply r2l_LQ_same; reflexivity. Qed.

(** One step of a line of the class keeps the clause, in both outcomes (no side condition on the arguments is needed). *)
Theorem step_LQ : forall debug wd s n line o,
  Inv2Q s n -> LQ s -> decode_op line = Some o -> rel_q_op o = true -> LQ (fst (step debug wd s line)).
Proof.
  intros debug wd s n line o HI HL Hd Hop.
  pose proof (r2q_Inv2Q_log s n [] HI) as HI0. pose proof (r2l_LQ_log s [] HL) as HL0.
  unfold rel_q_op in Hop. destruct (rel_core_op o) eqn:Hc.
  - rewrite (r2e_step_state debug wd s line o Hd Hc). set (s0 := s <| w_log := [] |>) in *.
    pose proof (r2l_core_side debug s0 n o HI0 Hc) as (El & _).
    pose proof (r2q_kf_step_op debug o Hc s0) as (_ & Eq).
    apply (r2l_LQ_same s0); [| |exact HL0].
    + rewrite <- El. unfold sc_issue. destruct (step_op debug o s0) as [[|i [|g rest]] s1|er s1]; try reflexivity.
      destruct (returns_entity o); reflexivity.
    + rewrite <- Eq. unfold sc_issue. destruct (step_op debug o s0) as [[|i [|g rest]] s1|er s1]; try reflexivity.
      destruct (returns_entity o); reflexivity.
  - cbn [orb] in Hop. rewrite (r2q_step_state_new debug wd s line o Hd Hop). set (s0 := s <| w_log := [] |>) in *.
    apply r2l_LQ_log. destruct (r2q_query_op o) eqn:Hq.
    + pose proof (r2l_query_op debug o Hq s0 HL0) as H. destruct (step_op debug o s0); exact H.
    + assert (Hf : match o with OFilterNew _ _ _ _ _ | OFilterRegister _ | OFilterUnregister _ => True | _ => False end)
        by (destruct o; try discriminate Hop; try discriminate Hq; exact I).
      destruct (r2l_lq_filter_op debug o s0 Hf) as (El & Eq). apply (r2l_LQ_same s0); assumption.
Qed.

Theorem reachable_LQ : forall c lines,
  cfg_ok2 c -> Forall (rel_q_line (sc_kinds c)) lines -> length lines + 4 < Nat.pow 2 31 ->
  LQ (Properties.Common.exec c lines).
Proof.
  intros c lines Hc. induction lines as [|l lines IH] using rev_ind; intros HF Hb; [apply r2l_LQ_init|].
  apply Forall_app in HF. destruct HF as (HF & Hl). inversion Hl as [|? ? (o & Hd & Hco & _) _]; subst.
  rewrite app_length in Hb. cbn [length] in Hb.
  assert (Hb' : length lines + 4 < Nat.pow 2 31) by lia.
  unfold Properties.Common.exec. rewrite fold_left_app. cbn [fold_left].
  apply (step_LQ (sc_debug c) false _ (length lines) l o (reachable_inv2Q c lines Hc HF Hb') (IH HF Hb') Hd Hco).
Qed.

(** In every reachable state: the world is locked iff some query object is open. *)
Theorem reachable_locked_iff_open : forall c lines,
  cfg_ok2 c -> Forall (rel_q_line (sc_kinds c)) lines -> length lines + 4 < Nat.pow 2 31 ->
  let s := Properties.Common.exec c lines in
  is_locked s = true <-> exists qi q, nth_error (w_queries s) qi = Some q /\ 1 <= q_tab q.
Proof. intros c lines Hc Hl Hb. apply r2l_LQ_locked_iff. apply (reachable_LQ c lines Hc Hl Hb). Qed.

(** ... every open query holds its own lock bit ... *)
Theorem reachable_open_bits : forall c lines,
  cfg_ok2 c -> Forall (rel_q_line (sc_kinds c)) lines -> length lines + 4 < Nat.pow 2 31 ->
  let s := Properties.Common.exec c lines in
  (forall qi q, nth_error (w_queries s) qi = Some q -> 1 <= q_tab q -> mk_get (lk_mask (w_lock s)) (q_lock q) = true) /\
  (forall qi qj q q', nth_error (w_queries s) qi = Some q -> nth_error (w_queries s) qj = Some q' ->
     1 <= q_tab q -> 1 <= q_tab q' -> q_lock q = q_lock q' -> qi = qj) /\
  (forall b, mk_get (lk_mask (w_lock s)) b = true ->
     exists qi q, nth_error (w_queries s) qi = Some q /\ 1 <= q_tab q /\ q_lock q = b).
Proof.
  intros c lines Hc Hl Hb s. destruct (reachable_LQ c lines Hc Hl Hb) as (held & H1 & H2 & H3). fold s in H1, H2, H3.
  pose proof H1 as (fl & _ & _ & _ & _ & _ & _ & _ & _ & Hm).
  split; [|split].
  - intros qi q Hq Ho. apply Hm. apply H2. exists qi, q. split; [exact Hq|]. split; [apply Nat.leb_le; exact Ho|reflexivity].
  - intros qi qj q q' Hq Hq' Ho Ho' E. apply (H3 qi qj (q_lock q)).
    + exists q. split; [exact Hq|]. split; [apply Nat.leb_le; exact Ho|reflexivity].
    + exists q'. split; [exact Hq'|]. split; [apply Nat.leb_le; exact Ho'|symmetry; exact E].
  - intros b Hbit. apply Hm in Hbit. apply H2 in Hbit. destruct Hbit as (qi & q & Hq & Ho & El).
    exists qi, q. split; [exact Hq|]. split; [apply Nat.leb_le; exact Ho|exact El].
Qed.

(** ... and Close of any existing query object succeeds (its unlock is balanced) and keeps the clause. *)
Theorem reachable_close_ok : forall c lines qi q,
  cfg_ok2 c -> Forall (rel_q_line (sc_kinds c)) lines -> length lines + 4 < Nat.pow 2 31 ->
  nth_error (w_queries (Properties.Common.exec c lines)) qi = Some q ->
  exists s', step_op (sc_debug c) (OQueryClose qi) (Properties.Common.exec c lines) = Ok [] s' /\ LQ s' /\
    (exists q', nth_error (w_queries s') qi = Some q' /\ q_tab q' = 0).
Proof.
  intros c lines qi q Hc Hl Hb Hq.
  destruct (r2l_close_ok qi _ q (reachable_LQ c lines Hc Hl Hb) Hq) as (s' & E & HL' & q' & Hq' & Ho).
  exists s'. cbn [step_op]. rewrite (sa_bind_ok E). split; [reflexivity|]. split; [exact HL'|].
  exists q'. split; [exact Hq'|]. unfold r2l_isopen in Ho. apply Nat.leb_gt in Ho. lia.
Qed.

(* ================================================================================================ *)
(** * Part 6: non-vacuity (the script of Rel2HistQ) *)

Lemma r2l_small : forall k, k <= 39 -> k + 4 < Nat.pow 2 31.
Proof.
  intros k Hk. assert (H : 64 <= Nat.pow 2 31).
  { change 64 with (Nat.pow 2 6). apply Nat.pow_le_mono_r; lia. }
  lia.
Qed.

Lemma r2l_prefix_LQ : forall k, LQ (Properties.Common.exec Rel2Check.r2_cfg (firstn k r2q_script)).
Proof.
  intros k. apply (reachable_LQ Rel2Check.r2_cfg (firstn k r2q_script) r2q_cfg_ok (r2q_firstn_lines k)).
  apply r2l_small. rewrite firstn_length. change (length r2q_script) with 39. lia.
Qed.

Example r2l_mid_LQ : LQ r2q_mid.
Proof. exact (r2l_prefix_LQ 13). Qed.

(** (cursor, lock bit) of the query objects, the lock mask as a number, and [is_locked]: after 13 steps (query 0 open),
    after 20 (two open queries with bits 0 and 1), after 21 (query 0 exhausted by Next: closed, its bit released, the
    world still locked by query 1), after 24 (query 1 closed: unlocked), at the end. *)
Example r2l_script_locks :
  map (fun k => let s := Properties.Common.exec Rel2Check.r2_cfg (firstn k r2q_script) in
                (map (fun q => (q_tab q, q_lock q)) (w_queries s), lk_mask (w_lock s), is_locked s)) [13; 20; 21; 24; 39] =
  [([(1, 0)], 1%N, true);
   ([(2, 0); (1, 1)], 3%N, true);
   ([(0, 0); (1, 1)], 2%N, true);
   ([(0, 0); (0, 1)], 0%N, false);
   ([(0, 0); (0, 1); (0, 1); (0, 1); (0, 1); (0, 1)], 0%N, false)].
Proof. vm_compute. reflexivity. Qed.

Example r2l_mid_close : exists s', step_op false (OQueryClose 0) r2q_mid = Ok [] s' /\ LQ s' /\ is_locked s' = false.
Proof.
  destruct (reachable_close_ok Rel2Check.r2_cfg (firstn 13 r2q_script) 0
              (nth 0 (w_queries r2q_mid) (r2l_fclose (nth 0 (w_queries r2q_mid) {| q_filter := 0; q_rels := []; q_cache := None; q_lock := 0; q_arch := 0; q_tab := 0; q_index := 0; q_max := None; q_tables := []; q_table := None; q_rare := None |})))
              r2q_cfg_ok (r2q_firstn_lines 13)) as (s' & E & HL' & _).
  - apply r2l_small. rewrite firstn_length. change (length r2q_script) with 39. lia.
  - vm_compute. reflexivity.
  - exists s'. split; [exact E|]. split; [exact HL'|].
    change (step_op (sc_debug Rel2Check.r2_cfg) (OQueryClose 0) (Properties.Common.exec Rel2Check.r2_cfg (firstn 13 r2q_script)))
      with (step_op false (OQueryClose 0) r2q_mid) in E.
    assert (X : is_locked (state_of (step_op false (OQueryClose 0) r2q_mid)) = false) by (vm_compute; reflexivity).
    rewrite E in X. exact X.
Qed.

(** ** Assumption audit *)
Definition r2l_all :=
  (r2l_LQ_locked_iff, r2l_close, r2l_close_ok, r2l_query_open, r2l_query_next, r2l_query_op, r2l_core_side, r2l_lq_filter_op,
   step_LQ, reachable_LQ, reachable_locked_iff_open, reachable_open_bits, reachable_close_ok,
   r2l_mid_LQ, r2l_script_locks, r2l_mid_close).
Print Assumptions r2l_all.
