(** * ConcProofs: concurrent use of queries (property C13).

    In Go every query operation (Next, Entity, Count, EntityAt, Close) touches only its own query
    object, reads the storage (which cannot change while the world is locked) and takes/releases a
    lock bit inside a mutex. An execution of several goroutines is therefore an interleaving of
    ATOMIC query operations on distinct query objects. This file proves NON-INTERFERENCE for the
    model: in every interleaving, every query behaves exactly as if it ran alone, and once all
    queries are closed or exhausted the world is unlocked. *)
From Ark Require Import Model.Base Model.Mask Model.Pool Model.Util Model.World Model.Run.
From Ark Require Import Proofs.MaskProofs Proofs.WF Proofs.StorageA Proofs.LockWorld Proofs.Hoare Proofs.QueryProofs.
From Ark Require Import Properties.Common.
From Ark Require Proofs.LockProofs.
From RecordUpdate Require Import RecordSet.
Import RecordSetNotations.
From Coq Require Import Lia.

(** ** The per-query view, the operation language *)

(** What query [qi] can see: the storage (fixed while the world is locked), the cache, the filters
    and its own query object. NOT the lock, NOT the other query objects. *)
Definition qview (qi : nat) (s : W) :=
  (w_cfg s, w_reg s, w_pool s, w_index s, w_archs s, w_tables s, w_relarchs s, w_compindex s,
   w_cheap s, w_centries s, w_filters s, nth_error (w_queries s) qi).

Inductive qop := QNext | QEntity | QCount | QEntityAt (i : nat) | QClose.

Definition run_qop (debug : bool) (qi : nat) (o : qop) : MW (list Z) :=
  match o with
  | QNext => b <- query_next debug qi ;; ret [Zb b]
  | QEntity => e <- query_entity debug qi ;; ret (Zent e)
  | QCount => n <- query_count qi ;; ret [Zn n]
  | QEntityAt i => e <- query_entity_at qi i ;; ret (Zent e)
  | QClose => query_close qi ;;; ret []
  end.

(** What the calling goroutine observes: the returned value or the panic. *)
Definition cc_obs {A} (r : res W A) : A + err :=
  match r with Ok a _ => inl a | Err e _ => inr e end.

(** The one piece of the lock a query depends on: whether its own bit is set. *)
Definition cc_bit (qi : nat) (s : W) : option bool :=
  option_map (fun q => mk_get (lk_mask (w_lock s)) (q_lock q)) (nth_error (w_queries s) qi).

Definition cc_R0 (qi : nat) (s1 s2 : W) : Prop := qview qi s1 = qview qi s2.
Definition cc_R (qi : nat) (s1 s2 : W) : Prop := qview qi s1 = qview qi s2 /\ cc_bit qi s1 = cc_bit qi s2.

Lemma cc_view_inv : forall qi s1 s2, qview qi s1 = qview qi s2 ->
  w_archs s1 = w_archs s2 /\ w_tables s1 = w_tables s2 /\ w_compindex s1 = w_compindex s2 /\
  w_cheap s1 = w_cheap s2 /\ w_filters s1 = w_filters s2 /\
  nth_error (w_queries s1) qi = nth_error (w_queries s2) qi.
Proof.
  intros qi s1 s2 H. unfold qview in H. injection H. intros. repeat split; assumption.
Qed.

(** ** Reduction lemmas *)
Lemma cc_getQ_red : forall qi s, getQ qi s =
  match nth_error (w_queries s) qi with Some q => Ok q s | None => Err EIndex s end.
Proof. intros. unfold getQ, bind, get, of_opt. destruct (nth_error (w_queries s) qi); reflexivity. Qed.
Lemma cc_getT_red : forall i s, getT i s =
  match nth_error (w_tables s) i with Some q => Ok q s | None => Err EIndex s end.
Proof. intros. unfold getT, bind, get, of_opt. destruct (nth_error (w_tables s) i); reflexivity. Qed.
Lemma cc_getA_red : forall i s, getA i s =
  match nth_error (w_archs s) i with Some q => Ok q s | None => Err EIndex s end.
Proof. intros. unfold getA, bind, get, of_opt. destruct (nth_error (w_archs s) i); reflexivity. Qed.
Lemma cc_getF_red : forall i s, getF i s =
  match nth_error (w_filters s) i with Some q => Ok q s | None => Err EIndex s end.
Proof. intros. unfold getF, bind, get, of_opt. destruct (nth_error (w_filters s) i); reflexivity. Qed.
Lemma cc_modQ_red : forall qi f s, modQ qi f s = Ok tt (s <| w_queries ::= updf qi f |>).
Proof. reflexivity. Qed.
Lemma cc_unlockM_red : forall b s, unlockM b s =
  match lock_unlock (w_lock s) b with
  | Some l' => Ok tt (s <| w_lock := l' |>)
  | None => Err EUnbalanced s
  end.
Proof. intros. unfold unlockM, bind, get. destruct (lock_unlock (w_lock s) b); reflexivity. Qed.

Lemma cc_length_upd : forall A (l : list A) i x, length (upd i x l) = length l.
Proof. intros A l. induction l as [|h l IH]; intros [|i] x; cbn; auto. Qed.
Lemma cc_length_updf : forall A (f : A -> A) l i, length (updf i f l) = length l.
Proof. intros. unfold updf. destruct (nth_error l i); [apply cc_length_upd | reflexivity]. Qed.
Lemma cc_nth_updf_eq : forall A (f : A -> A) l i, nth_error (updf i f l) i = option_map f (nth_error l i).
Proof.
  intros. unfold updf. destruct (nth_error l i) as [x|] eqn:E; cbn.
  - apply sa_nth_error_upd_eq. eapply sa_nth_error_lt; eassumption.
  - exact E.
Qed.

(** Functions of the whole state that only read the storage. *)
Lemma cc_tm_go_tables : forall s1 s2 rels ne l acc, w_tables s1 = w_tables s2 ->
  match q_tm_go s1 rels ne l acc, q_tm_go s2 rels ne l acc with
  | Ok a x1, Ok b x2 => a = b /\ x1 = s1 /\ x2 = s2
  | Err e x1, Err e' x2 => e = e' /\ x1 = s1 /\ x2 = s2
  | _, _ => False
  end.
Proof.
  intros s1 s2 rels ne l. induction l as [|tid rest IH]; intros acc H.
  - rewrite !q_tm_go_nil. auto.
  - rewrite !q_tm_go_cons. rewrite H.
    destruct (nth_error (w_tables s2) tid) as [t|]; [|auto].
    destruct (ne && Nat.eqb (t_len t) 0)%bool; [apply IH; exact H|].
    destruct (tbl_matches t rels) as [[|]|]; [apply IH; exact H | apply IH; exact H | auto].
Qed.

Lemma cc_count_tables_tables : forall s1 s2 tabs rels ne, w_tables s1 = w_tables s2 ->
  match count_tables s1 tabs rels ne, count_tables s2 tabs rels ne with
  | Ok a x1, Ok b x2 => a = b /\ x1 = s1 /\ x2 = s2
  | Err e x1, Err e' x2 => e = e' /\ x1 = s1 /\ x2 = s2
  | _, _ => False
  end.
Proof.
  intros s1 s2 tabs rels ne H. unfold count_tables. rewrite !q_tables_matching_eq.
  pose proof (cc_tm_go_tables s1 s2 rels ne tabs [] H) as G. rewrite H.
  destruct (q_tm_go s1 rels ne tabs []) as [a x1|e x1], (q_tm_go s2 rels ne tabs []) as [b x2|e' x2];
    try contradiction; destruct G as (-> & -> & ->); auto.
Qed.

Lemma cc_nt_fail_pos_tables : forall s1 s2 rels tables fuel pos, w_tables s1 = w_tables s2 ->
  nt_fail_pos s1 rels tables fuel pos = nt_fail_pos s2 rels tables fuel pos.
Proof.
  intros s1 s2 rels tables fuel. induction fuel as [|fu IH]; intros pos H; cbn [nt_fail_pos]; [reflexivity|].
  rewrite H. destruct (nth_error tables pos) as [tid|]; [|reflexivity].
  destruct (nth_error (w_tables s2) tid) as [t|]; [|reflexivity].
  rewrite !(IH (S pos) H). reflexivity.
Qed.

Lemma cc_archetypes_eq : forall s1 s2 q, w_compindex s1 = w_compindex s2 -> w_archs s1 = w_archs s2 ->
  query_archetypes s1 q = query_archetypes s2 q.
Proof. intros s1 s2 q H1 H2. unfold query_archetypes. rewrite H1, H2. reflexivity. Qed.

(** ** Relational (two-run) logic: [cc_ok R m] = run from [R]-related states, [m] gives the same
    value or the same panic and [R]-related states. *)
Section CCRel.
Variable qi : nat.
Variable R : W -> W -> Prop.
Hypothesis HRv : forall s1 s2, R s1 s2 -> qview qi s1 = qview qi s2.

Definition cc_rr {A} (r1 r2 : res W A) : Prop :=
  match r1, r2 with
  | Ok a s1, Ok b s2 => a = b /\ R s1 s2
  | Err e s1, Err e' s2 => e = e' /\ R s1 s2
  | _, _ => False
  end.
Definition cc_ok {A} (m : MW A) : Prop := forall s1 s2, R s1 s2 -> cc_rr (m s1) (m s2).

Lemma cc_ok_app : forall A (m : MW A) s1 s2, cc_ok m -> R s1 s2 -> cc_rr (m s1) (m s2).
Proof. intros A m s1 s2 H HR. apply H. exact HR. Qed.
Lemma cc_ok_ret : forall A (a : A), cc_ok (ret a).
Proof. intros A a s1 s2 HR. cbn. auto. Qed.
Lemma cc_ok_fail : forall A e, cc_ok (@fail W A e).
Proof. intros A e s1 s2 HR. cbn. auto. Qed.
Lemma cc_ok_guard : forall b e, cc_ok (@guard W b e).
Proof. intros b e. destruct b; [apply cc_ok_ret | apply cc_ok_fail]. Qed.
Lemma cc_ok_of_opt : forall A (o : option A) e, cc_ok (@of_opt W A o e).
Proof. intros A o e. destruct o; [apply cc_ok_ret | apply cc_ok_fail]. Qed.
Lemma cc_ok_bind : forall A B (m : MW A) (k : A -> MW B), cc_ok m -> (forall a, cc_ok (k a)) -> cc_ok (bind m k).
Proof.
  intros A B m k Hm Hk s1 s2 HR. unfold bind. specialize (Hm s1 s2 HR).
  destruct (m s1) as [a x1|e x1], (m s2) as [b x2|e' x2]; cbn in Hm; try contradiction.
  - destruct Hm as [-> HR']. apply Hk. exact HR'.
  - exact Hm.
Qed.
Lemma cc_ok_whenM : forall b m, cc_ok m -> cc_ok (whenM b m).
Proof. intros b m H. destruct b; [exact H | apply cc_ok_ret]. Qed.
Lemma cc_ok_get_bind : forall A (k : W -> MW A),
  (forall s1 s2, R s1 s2 -> cc_rr (k s1 s1) (k s2 s2)) -> cc_ok (bind get k).
Proof. intros A k H s1 s2 HR. unfold bind, get. apply H. exact HR. Qed.

Lemma cc_ok_getQ : cc_ok (getQ qi).
Proof.
  intros s1 s2 HR. destruct (cc_view_inv _ _ _ (HRv _ _ HR)) as (_ & _ & _ & _ & _ & Hq).
  rewrite !cc_getQ_red, Hq. destruct (nth_error (w_queries s2) qi); cbn; auto.
Qed.
Lemma cc_ok_getT : forall i, cc_ok (getT i).
Proof.
  intros i s1 s2 HR. destruct (cc_view_inv _ _ _ (HRv _ _ HR)) as (_ & Ht & _).
  rewrite !cc_getT_red, Ht. destruct (nth_error (w_tables s2) i); cbn; auto.
Qed.
Lemma cc_ok_getA : forall i, cc_ok (getA i).
Proof.
  intros i s1 s2 HR. destruct (cc_view_inv _ _ _ (HRv _ _ HR)) as (Ha & _).
  rewrite !cc_getA_red, Ha. destruct (nth_error (w_archs s2) i); cbn; auto.
Qed.
Lemma cc_ok_getF : forall i, cc_ok (getF i).
Proof.
  intros i s1 s2 HR. destruct (cc_view_inv _ _ _ (HRv _ _ HR)) as (_ & _ & _ & _ & Hf & _).
  rewrite !cc_getF_red, Hf. destruct (nth_error (w_filters s2) i); cbn; auto.
Qed.
Lemma cc_ok_count_tables : forall tabs rels ne, cc_ok (fun s => count_tables s tabs rels ne).
Proof.
  intros tabs rels ne s1 s2 HR. destruct (cc_view_inv _ _ _ (HRv _ _ HR)) as (_ & Ht & _).
  pose proof (cc_count_tables_tables s1 s2 tabs rels ne Ht) as G.
  destruct (count_tables s1 tabs rels ne) as [a x1|e x1], (count_tables s2 tabs rels ne) as [b x2|e' x2];
    try contradiction; destruct G as (-> & -> & ->); cbn; auto.
Qed.

(** *** The read-only operations: Entity, Count, EntityAt *)
Lemma cc_ok_nt_go : forall q tables fuel pos, cc_ok (q_nt_go q tables fuel pos).
Proof.
  intros q tables fuel. induction fuel as [|fu IH]; intros pos; [rewrite q_nt_go_0; apply cc_ok_ret | rewrite q_nt_go_S].
  destruct (nth_error tables pos) as [tid|]; [|apply cc_ok_ret].
  apply cc_ok_bind; [apply cc_ok_getT | intros t].
  destruct (Nat.eqb _ _); [apply IH|].
  apply cc_ok_bind; [apply cc_ok_of_opt | intros mt]. destruct mt; [apply cc_ok_ret | apply IH].
Qed.

Lemma cc_ok_walk_go : forall f q l acc, cc_ok (q_walk_go f q l acc).
Proof.
  intros f q l. induction l as [|aid rest IH]; intros acc; [apply cc_ok_ret | rewrite q_walk_go_cons].
  apply cc_ok_bind; [apply cc_ok_getA | intros a].
  destruct (negb (filter_matches f (a_mask a))); [apply IH|].
  destruct (negb (arch_has_rels a)).
  - destruct (a_tables a) as [|t0 ?]; [apply cc_ok_fail|].
    apply cc_ok_bind; [apply cc_ok_getT | intros t; apply IH].
  - apply cc_ok_bind; [apply cc_ok_of_opt | intros cand].
    apply cc_ok_bind; [apply cc_ok_count_tables | intros ts; apply IH].
Qed.

Lemma cc_ok_walk : cc_ok (query_walk qi).
Proof.
  rewrite q_walk_eq. apply cc_ok_bind; [apply cc_ok_getQ | intros q].
  apply cc_ok_get_bind. intros s1 s2 HR.
  destruct (cc_view_inv _ _ _ (HRv _ _ HR)) as (Ha & Ht & Hc & Hh & Hf & Hq).
  destruct (q_cache q) as [addr|].
  - rewrite Hh. apply cc_ok_app; [|exact HR].
    apply cc_ok_bind; [apply cc_ok_of_opt | intros e; apply cc_ok_count_tables].
  - rewrite (cc_archetypes_eq s1 s2 q Hc Ha). apply cc_ok_app; [|exact HR].
    apply cc_ok_bind; [apply cc_ok_getF | intros f; apply cc_ok_walk_go].
Qed.

Lemma cc_ok_eat_go : forall index l count, cc_ok (q_eat_go index l count).
Proof.
  intros index l. induction l as [|[tid len] rest IH]; intros count; [apply cc_ok_fail | rewrite q_eat_go_cons].
  destruct (Nat.ltb _ _); [|apply IH].
  apply cc_ok_bind; [apply cc_ok_getT | intros t; apply cc_ok_of_opt].
Qed.

Lemma cc_ok_count : cc_ok (query_count qi).
Proof. unfold query_count. apply cc_ok_bind; [apply cc_ok_walk | intros w; apply cc_ok_ret]. Qed.
Lemma cc_ok_eat_tables : forall index rels ne l count, cc_ok (entity_at_tables index rels ne l count).
Proof.
  intros index rels ne l. induction l as [|tid rest IH]; intros count; [apply cc_ok_ret | rewrite q_eat_tables_cons].
  apply cc_ok_bind; [apply cc_ok_getT | intros t].
  destruct (ne && Nat.eqb (t_len t) 0)%bool; [apply IH|].
  apply cc_ok_bind; [apply cc_ok_of_opt | intros mt].
  destruct (negb mt); [apply IH|].
  destruct (Nat.ltb _ _); [|apply IH].
  apply cc_ok_bind; [apply cc_ok_of_opt | intros e; apply cc_ok_ret].
Qed.
Lemma cc_ok_eatl_go : forall index f q l count, cc_ok (q_eatl_go index f q l count).
Proof.
  intros index f q l. induction l as [|aid rest IH]; intros count; [apply cc_ok_fail | rewrite q_eatl_go_cons].
  apply cc_ok_bind; [apply cc_ok_getA | intros a].
  destruct (negb (filter_matches f (a_mask a))); [apply IH|].
  destruct (negb (arch_has_rels a)).
  - destruct (a_tables a) as [|t0 ?]; [apply cc_ok_fail|].
    apply cc_ok_bind; [apply cc_ok_getT | intros t].
    destruct (Nat.ltb _ _); [apply cc_ok_of_opt | apply IH].
  - apply cc_ok_bind; [apply cc_ok_of_opt | intros cand].
    apply cc_ok_bind; [apply cc_ok_eat_tables | intros r].
    destruct r as [x|c]; [apply cc_ok_ret | apply IH].
Qed.
Lemma cc_ok_entity_at : forall i, cc_ok (query_entity_at qi i).
Proof.
  intros i. rewrite q_entity_at_eq. apply cc_ok_bind; [apply cc_ok_getQ | intros q].
  apply cc_ok_get_bind. intros s1 s2 HR.
  destruct (cc_view_inv _ _ _ (HRv _ _ HR)) as (Ha & Ht & Hc & Hh & Hf & Hq).
  destruct (q_cache q) as [addr|].
  - rewrite Hh. apply cc_ok_app; [|exact HR].
    apply cc_ok_bind; [apply cc_ok_of_opt | intros e].
    apply cc_ok_bind; [apply cc_ok_eat_tables | intros r].
    destruct r as [x|c]; [apply cc_ok_ret | apply cc_ok_fail].
  - rewrite (cc_archetypes_eq s1 s2 q Hc Ha). apply cc_ok_app; [|exact HR].
    apply cc_ok_bind; [apply cc_ok_getF | intros f; apply cc_ok_eatl_go].
Qed.
Lemma cc_ok_entity : forall d, cc_ok (query_entity d qi).
Proof.
  intros d. unfold query_entity. apply cc_ok_bind; [apply cc_ok_getQ | intros q].
  apply cc_ok_bind; [apply cc_ok_whenM, cc_ok_guard | intros _].
  apply cc_ok_bind; [apply cc_ok_of_opt | intros tid].
  apply cc_ok_bind; [apply cc_ok_getT | intros t; apply cc_ok_of_opt].
Qed.

(** *** The cursor operations: Next, Close. These write the query object and release the lock bit. *)
Section CCRelW.
Hypothesis HRm : forall f s1 s2, (forall q, q_lock (f q) = q_lock q) -> R s1 s2 ->
  R (s1 <| w_queries ::= updf qi f |>) (s2 <| w_queries ::= updf qi f |>).
Hypothesis HRc : cc_ok (query_close qi).

Lemma cc_ok_modQ : forall f, (forall q, q_lock (f q) = q_lock q) -> cc_ok (modQ qi f).
Proof. intros f Hf s1 s2 HR. rewrite !cc_modQ_red. cbn. split; [reflexivity|]. apply HRm; assumption. Qed.

Lemma cc_ok_set_table : forall pos tid, cc_ok (query_set_table qi pos tid).
Proof.
  intros. unfold query_set_table. apply cc_ok_bind; [apply cc_ok_getT | intros t].
  apply cc_ok_modQ. intros q. reflexivity.
Qed.

Lemma cc_ok_next_table : forall tables cached, cc_ok (query_next_table qi tables cached).
Proof.
  intros. rewrite q_next_table_eq. apply cc_ok_bind; [apply cc_ok_getQ | intros q].
  apply cc_ok_bind.
  - intros s1 s2 HR. unfold on_err. pose proof (cc_ok_nt_go q tables (S (length tables)) (q_tab q - 1) s1 s2 HR) as G.
    destruct (q_nt_go q tables (S (length tables)) (q_tab q - 1) s1) as [a x1|e x1],
             (q_nt_go q tables (S (length tables)) (q_tab q - 1) s2) as [b x2|e' x2]; cbn in G; try contradiction.
    + exact G.
    + destruct G as [-> G]. unfold cc_rr. split; [reflexivity|].
      destruct (cc_view_inv _ _ _ (HRv _ _ G)) as (_ & Ht & _).
      rewrite (cc_nt_fail_pos_tables x1 x2 (q_rels q) tables (S (length tables)) (q_tab q - 1) Ht).
      apply HRm; [|exact G]. intros q0. reflexivity.
  - intros r. destruct r as [[pos tid]|].
    + apply cc_ok_bind; [apply cc_ok_set_table | intros _; apply cc_ok_ret].
    + apply cc_ok_bind; [apply cc_ok_modQ; intros q0; reflexivity | intros _].
      apply cc_ok_bind; [apply cc_ok_whenM, HRc | intros _; apply cc_ok_ret].
Qed.

Lemma cc_ok_na_go : forall archs f fuel pos, cc_ok (q_na_go qi archs f fuel pos).
Proof.
  intros archs f fuel. induction fuel as [|fu IH]; intros pos; [rewrite q_na_go_0; apply cc_ok_ret | rewrite q_na_go_S].
  destruct (nth_error archs pos) as [aid|]; [|apply cc_ok_ret].
  apply cc_ok_bind; [apply cc_ok_modQ; intros q0; reflexivity | intros _].
  apply cc_ok_bind; [apply cc_ok_getA | intros a].
  destruct (negb (filter_matches f (a_mask a))); [apply IH|].
  destruct (negb (arch_has_rels a)).
  - destruct (a_tables a) as [|t0 ?]; [apply cc_ok_fail|].
    apply cc_ok_bind; [apply cc_ok_getT | intros t].
    destruct (Nat.ltb 0 (t_len t)); [|apply IH].
    apply cc_ok_bind; [apply cc_ok_set_table | intros _; apply cc_ok_ret].
  - apply cc_ok_bind; [apply cc_ok_getQ | intros q].
    apply cc_ok_bind; [apply cc_ok_of_opt | intros tabs].
    apply cc_ok_bind; [apply cc_ok_modQ; intros q0; reflexivity | intros _].
    apply cc_ok_bind; [apply cc_ok_next_table | intros found].
    destruct found; [apply cc_ok_ret | apply IH].
Qed.

Lemma cc_ok_next_archetype : cc_ok (query_next_archetype qi).
Proof.
  rewrite q_next_archetype_eq.
  apply cc_ok_bind; [apply cc_ok_modQ; intros q0; reflexivity | intros _].
  apply cc_ok_bind; [apply cc_ok_getQ | intros q].
  apply cc_ok_bind; [apply cc_ok_guard | intros _].
  apply cc_ok_get_bind. intros s1 s2 HR.
  destruct (cc_view_inv _ _ _ (HRv _ _ HR)) as (Ha & Ht & Hc & Hh & Hf & Hq).
  rewrite (cc_archetypes_eq s1 s2 q Hc Ha). apply cc_ok_app; [|exact HR].
  apply cc_ok_bind; [apply cc_ok_getF | intros f].
  apply cc_ok_bind; [apply cc_ok_na_go | intros r].
  destruct r; [apply cc_ok_ret|].
  apply cc_ok_bind; [apply HRc | intros _; apply cc_ok_ret].
Qed.

Lemma cc_ok_next_toa : cc_ok (query_next_table_or_archetype qi).
Proof.
  unfold query_next_table_or_archetype.
  apply cc_ok_bind; [apply cc_ok_getQ | intros q].
  apply cc_ok_bind; [apply cc_ok_guard | intros _].
  destruct (q_cache q) as [addr|].
  - apply cc_ok_get_bind. intros s1 s2 HR.
    destruct (cc_view_inv _ _ _ (HRv _ _ HR)) as (Ha & Ht & Hc & Hh & Hf & Hq).
    rewrite Hh. apply cc_ok_app; [|exact HR].
    apply cc_ok_bind; [apply cc_ok_of_opt | intros e; apply cc_ok_next_table].
  - destruct (Nat.leb 2 (q_arch q)); [|apply cc_ok_next_archetype].
    apply cc_ok_bind; [apply cc_ok_next_table | intros found].
    destruct found; [apply cc_ok_ret | apply cc_ok_next_archetype].
Qed.

Lemma cc_ok_next : forall d, cc_ok (query_next d qi).
Proof.
  intros d. unfold query_next.
  apply cc_ok_bind; [apply cc_ok_getQ | intros q].
  apply cc_ok_bind; [apply cc_ok_whenM, cc_ok_guard | intros _].
  destruct (q_max q) as [mx|]; [|apply cc_ok_next_toa].
  destruct (Nat.ltb (q_index q) mx); [|apply cc_ok_next_toa].
  apply cc_ok_bind; [apply cc_ok_modQ; intros q0; reflexivity | intros _; apply cc_ok_ret].
Qed.
End CCRelW.
End CCRel.

(** ** Instances: [cc_R0] (view only) for the read-only operations, [cc_R] (view + own lock bit) for all *)
Lemma cc_R0_view : forall qi s1 s2, cc_R0 qi s1 s2 -> qview qi s1 = qview qi s2.
Proof. intros qi s1 s2 H. exact H. Qed.
Lemma cc_R_view : forall qi s1 s2, cc_R qi s1 s2 -> qview qi s1 = qview qi s2.
Proof. intros qi s1 s2 [H _]. exact H. Qed.

Lemma cc_view_modQ : forall qi f s1 s2, qview qi s1 = qview qi s2 ->
  qview qi (s1 <| w_queries ::= updf qi f |>) = qview qi (s2 <| w_queries ::= updf qi f |>).
Proof.
  intros qi f s1 s2 H. unfold qview in *. cbn. rewrite !cc_nth_updf_eq.
  injection H. intros -> -> -> -> -> -> -> -> -> -> -> ->. reflexivity.
Qed.

Lemma cc_R_modQ : forall qi f s1 s2, (forall q, q_lock (f q) = q_lock q) -> cc_R qi s1 s2 ->
  cc_R qi (s1 <| w_queries ::= updf qi f |>) (s2 <| w_queries ::= updf qi f |>).
Proof.
  intros qi f s1 s2 Hf [Hv Hb]. split; [apply cc_view_modQ; exact Hv|].
  destruct (cc_view_inv _ _ _ Hv) as (_ & _ & _ & _ & _ & Hq).
  unfold cc_bit in *. cbn [w_queries w_lock set eta_wstate]. 
  change (w_lock (s1 <| w_queries ::= updf qi f |>)) with (w_lock s1).
  change (w_lock (s2 <| w_queries ::= updf qi f |>)) with (w_lock s2).
  change (w_queries (s1 <| w_queries ::= updf qi f |>)) with (updf qi f (w_queries s1)).
  change (w_queries (s2 <| w_queries ::= updf qi f |>)) with (updf qi f (w_queries s2)).
  rewrite !cc_nth_updf_eq. rewrite Hq in *.
  destruct (nth_error (w_queries s2) qi) as [q|]; cbn [option_map] in *; [|reflexivity].
  rewrite Hf. exact Hb.
Qed.

Lemma cc_close_red : forall qi s, query_close qi s =
  match nth_error (w_queries s) qi with
  | None => Err EIndex s
  | Some q =>
      if Nat.ltb (q_tab q) 1 then Ok tt s
      else
        let s1 := s <| w_queries ::= updf qi (fun q => q <| q_arch := 0 |> <| q_tab := 0 |> <| q_index := 0 |> <| q_max := None |>
                        <| q_tables := [] |> <| q_table := None |> <| q_cache := None |>) |> in
        match lock_unlock (w_lock s) (q_lock q) with
        | Some l' => Ok tt (s1 <| w_lock := l' |>)
        | None => Err EUnbalanced s1
        end
  end.
Proof.
  intros qi s. unfold query_close. unfold bind at 1. rewrite cc_getQ_red.
  destruct (nth_error (w_queries s) qi) as [q|]; [|reflexivity].
  destruct (Nat.ltb (q_tab q) 1); [reflexivity|].
  unfold bind. rewrite cc_modQ_red, cc_unlockM_red. reflexivity.
Qed.

Lemma cc_lock_unlock_red : forall l b, lock_unlock l b =
  if mk_get (lk_mask l) b
  then Some {| lk_pool := ipool_recycle (lk_pool l) b; lk_mask := mk_clear (lk_mask l) b |}
  else None.
Proof. reflexivity. Qed.

Lemma cc_R_close : forall qi, cc_ok (cc_R qi) (query_close qi).
Proof.
  intros qi s1 s2 [Hv Hb]. destruct (cc_view_inv _ _ _ Hv) as (_ & _ & _ & _ & _ & Hq).
  rewrite !cc_close_red. pose proof Hb as Hb'. unfold cc_bit in Hb'. rewrite Hq in *.
  destruct (nth_error (w_queries s2) qi) as [q|] eqn:E2; [|cbn; split; [reflexivity | split; assumption]].
  destruct (Nat.ltb (q_tab q) 1); [cbn; split; [reflexivity | split; assumption]|].
  cbn in Hb'. injection Hb' as Hb'. cbv zeta. rewrite !cc_lock_unlock_red, Hb'.
  set (f := fun q0 : qobj => q0 <| q_arch := 0 |> <| q_tab := 0 |> <| q_index := 0 |> <| q_max := None |>
                        <| q_tables := [] |> <| q_table := None |> <| q_cache := None |>).
  assert (Hf : forall q0, q_lock (f q0) = q_lock q0) by (intros q0; reflexivity).
  pose proof (cc_R_modQ qi f s1 s2 Hf (conj Hv Hb)) as [Gv Gb].
  destruct (mk_get (lk_mask (w_lock s2)) (q_lock q)) eqn:Em.
  - cbn [cc_rr]. split; [reflexivity|]. split.
    + unfold qview in *. cbn. cbn in Gv. exact Gv.
    + unfold cc_bit in *. cbn. cbn in Gb. rewrite !cc_nth_updf_eq in *. rewrite Hq, E2 in *. cbn.
      rewrite !mk_get_clear, Nat.eqb_refl. reflexivity.
  - cbn [cc_rr]. split; [reflexivity|]. split; assumption.
Qed.

(** ** Statement 2: a query operation depends only on the view (and the query's own lock bit) *)
Lemma cc_ok_run_qop : forall d qi o, cc_ok (cc_R qi) (run_qop d qi o).
Proof.
  intros d qi o. destruct o; cbn [run_qop]; (apply cc_ok_bind; [|intros ?; apply cc_ok_ret]).
  - apply (cc_ok_next qi (cc_R qi) (cc_R_view qi) (cc_R_modQ qi) (cc_R_close qi)).
  - apply (cc_ok_entity qi (cc_R qi) (cc_R_view qi)).
  - apply (cc_ok_count qi (cc_R qi) (cc_R_view qi)).
  - apply (cc_ok_entity_at qi (cc_R qi) (cc_R_view qi)).
  - apply cc_R_close.
Qed.

Definition cc_reads (o : qop) : bool :=
  match o with QNext | QClose => false | _ => true end.

Lemma cc_ok_run_qop_read : forall d qi o, cc_reads o = true -> cc_ok (cc_R0 qi) (run_qop d qi o).
Proof.
  intros d qi o Ho. destruct o; try discriminate Ho; cbn [run_qop]; (apply cc_ok_bind; [|intros ?; apply cc_ok_ret]).
  - apply (cc_ok_entity qi (cc_R0 qi) (cc_R0_view qi)).
  - apply (cc_ok_count qi (cc_R0 qi) (cc_R0_view qi)).
  - apply (cc_ok_entity_at qi (cc_R0 qi) (cc_R0_view qi)).
Qed.

Lemma cc_rr_obs : forall A R (r1 r2 : res W A), cc_rr R r1 r2 ->
  cc_obs r1 = cc_obs r2 /\ R (state_of r1) (state_of r2).
Proof.
  intros A R r1 r2 H. destruct r1, r2; cbn in *; try contradiction; destruct H as [-> H]; auto.
Qed.

(** Same view and same status of the query's own lock bit: same result (value or panic), and the
    resulting states have the same view and own-bit status again.
    ([_partial]: the statement as first asked - a lock-bit condition for Close only - is false,
    because an exhausting Next closes the query too; see [qop_depends_only_on_view_refuted] below.
    This is the strongest true form: the ONLY part of the lock an operation depends on is whether
    the query's own bit is set.) *)
Theorem qop_depends_only_on_view_partial : forall d qi o s1 s2,
  qview qi s1 = qview qi s2 -> cc_bit qi s1 = cc_bit qi s2 ->
  let r1 := run_qop d qi o s1 in
  let r2 := run_qop d qi o s2 in
  cc_obs r1 = cc_obs r2 /\
  qview qi (state_of r1) = qview qi (state_of r2) /\ cc_bit qi (state_of r1) = cc_bit qi (state_of r2).
Proof.
  intros d qi o s1 s2 Hv Hb r1 r2.
  destruct (cc_rr_obs _ _ _ _ (cc_ok_run_qop d qi o s1 s2 (conj Hv Hb))) as [H1 [H2 H3]]. auto.
Qed.

(** The form with "the query's lock bit is held in both states". *)
Corollary qop_depends_only_on_view_held : forall d qi o s1 s2,
  qview qi s1 = qview qi s2 ->
  (forall q, nth_error (w_queries s1) qi = Some q -> mk_get (lk_mask (w_lock s1)) (q_lock q) = true) ->
  (forall q, nth_error (w_queries s2) qi = Some q -> mk_get (lk_mask (w_lock s2)) (q_lock q) = true) ->
  let r1 := run_qop d qi o s1 in
  let r2 := run_qop d qi o s2 in
  cc_obs r1 = cc_obs r2 /\ qview qi (state_of r1) = qview qi (state_of r2).
Proof.
  intros d qi o s1 s2 Hv H1 H2 r1 r2.
  assert (Hb : cc_bit qi s1 = cc_bit qi s2).
  { destruct (cc_view_inv _ _ _ Hv) as (_ & _ & _ & _ & _ & Hq). unfold cc_bit. rewrite Hq in *.
    destruct (nth_error (w_queries s2) qi) as [q|]; [|reflexivity]. cbn.
    rewrite (H1 q eq_refl), (H2 q eq_refl). reflexivity. }
  destruct (qop_depends_only_on_view_partial d qi o s1 s2 Hv Hb) as (G1 & G2 & _). auto.
Qed.

(** Entity, Count, EntityAt do not depend on the lock at all (and change nothing). *)
Theorem qop_read_depends_only_on_view : forall d qi o s1 s2,
  cc_reads o = true -> qview qi s1 = qview qi s2 ->
  cc_obs (run_qop d qi o s1) = cc_obs (run_qop d qi o s2) /\
  state_of (run_qop d qi o s1) = s1 /\ state_of (run_qop d qi o s2) = s2.
Proof.
  intros d qi o s1 s2 Ho Hv.
  destruct (cc_rr_obs _ _ _ _ (cc_ok_run_qop_read d qi o Ho s1 s2 Hv)) as [H1 _].
  split; [exact H1|].
  assert (Hro : readonly (run_qop d qi o)).
  { destruct o; try discriminate Ho; cbn [run_qop]; (apply readonly_bind; [|intros ?; apply readonly_ret]).
    - exact (query_entity_readonly d qi).
    - exact (query_count_readonly qi).
    - exact (query_entity_at_readonly qi i). }
  split; apply Hro.
Qed.

(** ** What one operation on query [qi] does to the query objects and the lock.
    Hoare proof over the code of Next: while the query is open the lock is untouched ([cc_I]);
    closing it releases exactly its own bit ([cc_C]); the other query objects never change. *)
Section CCEffect.
Variable s0 : W.
Variable qi : nat.
Variable b0 : nat.

Definition cc_oth (s : W) : Prop :=
  length (w_queries s) = length (w_queries s0) /\
  forall k, k <> qi -> nth_error (w_queries s) k = nth_error (w_queries s0) k.
Definition cc_closed_lock : lockst :=
  match lock_unlock (w_lock s0) b0 with Some l' => l' | None => w_lock s0 end.
Definition cc_I (s : W) : Prop :=
  cc_oth s /\ exists q, nth_error (w_queries s) qi = Some q /\ q_lock q = b0 /\ 1 <= q_tab q /\ w_lock s = w_lock s0.
Definition cc_C (s : W) : Prop :=
  cc_oth s /\ exists q, nth_error (w_queries s) qi = Some q /\ q_lock q = b0 /\ q_tab q = 0 /\ w_lock s = cc_closed_lock.
Definition cc_F (s : W) : Prop := cc_I s \/ cc_C s.

Lemma cc_h_ro : forall A (m : MW A), readonly m -> hoare cc_I m (fun _ => cc_I) cc_F.
Proof.
  intros A m H s Hs. specialize (H s). destruct (m s); cbn in H; subst; [exact Hs | left; exact Hs].
Qed.

Lemma cc_oth_modQ : forall f s, cc_oth s -> cc_oth (s <| w_queries ::= updf qi f |>).
Proof.
  intros f s [Hlen Hoth]. split.
  - cbn. rewrite cc_length_updf. exact Hlen.
  - intros k Hk. cbn. rewrite q_nth_error_updf_ne by exact Hk. apply Hoth. exact Hk.
Qed.

Lemma cc_I_modQ : forall f s, (forall q, q_lock (f q) = q_lock q) -> (forall q, 1 <= q_tab q -> 1 <= q_tab (f q)) ->
  cc_I s -> cc_I (s <| w_queries ::= updf qi f |>).
Proof.
  intros f s Hl Ht [Ho (q & Hq & Hb & Hopen & Hlk)]. split; [apply cc_oth_modQ; exact Ho|].
  exists (f q). cbn. rewrite cc_nth_updf_eq, Hq. cbn [option_map].
  split; [reflexivity|]. split; [rewrite Hl; exact Hb|]. split; [apply Ht; exact Hopen | exact Hlk].
Qed.

Lemma cc_h_modQ : forall f, (forall q, q_lock (f q) = q_lock q) -> (forall q, 1 <= q_tab q -> 1 <= q_tab (f q)) ->
  hoare cc_I (modQ qi f) (fun _ => cc_I) cc_F.
Proof. intros f Hl Ht s Hs. rewrite cc_modQ_red. apply cc_I_modQ; assumption. Qed.

Lemma cc_h_close : hoare cc_I (query_close qi) (fun _ => cc_C) cc_F.
Proof.
  intros s [Ho (q & Hq & Hb & Hopen & Hlk)]. rewrite cc_close_red, Hq.
  destruct (Nat.ltb_spec (q_tab q) 1) as [Hlt|Hge]; [lia|]. cbv zeta. rewrite Hlk, Hb.
  set (f := fun q0 : qobj => q0 <| q_arch := 0 |> <| q_tab := 0 |> <| q_index := 0 |> <| q_max := None |>
                        <| q_tables := [] |> <| q_table := None |> <| q_cache := None |>).
  assert (HC : forall l', l' = cc_closed_lock -> cc_C (s <| w_queries ::= updf qi f |> <| w_lock := l' |>)).
  { intros l' El. split.
    - destruct (cc_oth_modQ f s Ho) as [H1 H2]. split; [exact H1 | exact H2].
    - exists (f q). cbn. rewrite cc_nth_updf_eq, Hq. cbn [option_map].
      split; [reflexivity|]. split; [exact Hb|]. split; [reflexivity | exact El]. }
  assert (HC' : lock_unlock (w_lock s0) b0 = None -> cc_C (s <| w_queries ::= updf qi f |>)).
  { intros En. split; [apply cc_oth_modQ; exact Ho|].
    exists (f q). cbn. rewrite cc_nth_updf_eq, Hq. cbn [option_map].
    split; [reflexivity|]. split; [exact Hb|]. split; [reflexivity|]. unfold cc_closed_lock. rewrite En. exact Hlk. }
  destruct (lock_unlock (w_lock s0) b0) as [l'|] eqn:El.
  - apply HC. unfold cc_closed_lock. rewrite El. reflexivity.
  - right. apply HC'. reflexivity.
Qed.

Lemma cc_h_set_table : forall pos tid, hoare cc_I (query_set_table qi pos tid) (fun _ => cc_I) cc_F.
Proof.
  intros. unfold query_set_table.
  eapply hoare_bind; [apply cc_h_ro, readonly_getT | intros t].
  apply cc_h_modQ; intros q; cbn; [reflexivity | lia].
Qed.

Lemma cc_h_next_table : forall L cached,
  hoare cc_I (query_next_table qi L cached) (fun r s => if r then cc_I s else if cached then cc_C s else cc_I s) cc_F.
Proof.
  intros. rewrite q_next_table_eq.
  eapply hoare_bind; [apply cc_h_ro, q_ro_getQ | intros q].
  eapply hoare_bind with (R := fun _ => cc_I).
  - intros s Hs. unfold on_err. pose proof (q_ro_nt_go q L (S (length L)) (q_tab q - 1) s) as Hro.
    destruct (q_nt_go q L (S (length L)) (q_tab q - 1) s) as [a s'|e s']; cbn in Hro; subst s'; [exact Hs|].
    left. apply cc_I_modQ; [intros x; reflexivity | intros x _; cbn; lia | exact Hs].
  - intros r. destruct r as [[pos tid]|].
    + eapply hoare_bind; [apply cc_h_set_table | intros ?; apply hoare_ret; intros s Hs; exact Hs].
    + eapply hoare_bind with (R := fun _ => cc_I);
        [apply cc_h_modQ; intros x; cbn; [reflexivity | lia] | intros ?].
      destruct cached; cbn [whenM].
      * eapply hoare_bind; [apply cc_h_close | intros ?; apply hoare_ret; auto].
      * eapply hoare_bind with (R := fun _ => cc_I); [apply hoare_ret; auto | intros ?; apply hoare_ret; auto].
Qed.

Lemma cc_h_na_go : forall archs f fuel pos, hoare cc_I (q_na_go qi archs f fuel pos) (fun _ => cc_I) cc_F.
Proof.
  intros archs f fuel. induction fuel as [|fu IH]; intros pos;
    [rewrite q_na_go_0; apply hoare_ret; auto | rewrite q_na_go_S].
  destruct (nth_error archs pos) as [aid|]; [|apply hoare_ret; auto].
  eapply hoare_bind with (R := fun _ => cc_I);
    [apply cc_h_modQ; intros x; cbn; [reflexivity | lia] | intros ?].
  eapply hoare_bind; [apply cc_h_ro, q_ro_getA | intros ar].
  destruct (negb (filter_matches f (a_mask ar))); [apply IH|].
  destruct (negb (arch_has_rels ar)).
  - destruct (a_tables ar) as [|t0 ?]; [apply hoare_fail; intros s Hs; left; exact Hs|].
    eapply hoare_bind; [apply cc_h_ro, readonly_getT | intros t].
    destruct (Nat.ltb 0 (t_len t)); [|apply IH].
    eapply hoare_bind; [apply cc_h_set_table | intros ?; apply hoare_ret; intros s Hs; exact Hs].
  - eapply hoare_bind; [apply cc_h_ro, q_ro_getQ | intros q].
    eapply hoare_bind; [apply cc_h_ro, readonly_of_opt | intros tabs].
    eapply hoare_bind with (R := fun _ => cc_I);
      [apply cc_h_modQ; intros x; cbn; [reflexivity | lia] | intros ?].
    eapply hoare_bind; [apply cc_h_next_table | intros found].
    destruct found; [apply hoare_ret; auto | apply IH].
Qed.

Lemma cc_h_next_archetype :
  hoare cc_I (query_next_archetype qi) (fun r s => if r then cc_I s else cc_C s) cc_F.
Proof.
  rewrite q_next_archetype_eq.
  eapply hoare_bind with (R := fun _ => cc_I);
    [apply cc_h_modQ; intros x; cbn; [reflexivity | lia] | intros ?].
  eapply hoare_bind; [apply cc_h_ro, q_ro_getQ | intros q].
  eapply hoare_bind; [apply cc_h_ro, readonly_guard | intros ?].
  eapply hoare_bind; [apply cc_h_ro, readonly_get | intros sx].
  eapply hoare_bind; [apply cc_h_ro, readonly_getF | intros f].
  eapply hoare_bind; [apply cc_h_na_go | intros r].
  destruct r; [apply hoare_ret; auto|].
  eapply hoare_bind; [apply cc_h_close | intros ?; apply hoare_ret; auto].
Qed.

Lemma cc_h_next_toa :
  hoare cc_I (query_next_table_or_archetype qi) (fun r s => if r then cc_I s else cc_C s) cc_F.
Proof.
  unfold query_next_table_or_archetype.
  eapply hoare_bind; [apply cc_h_ro, q_ro_getQ | intros q].
  eapply hoare_bind; [apply cc_h_ro, readonly_guard | intros ?].
  destruct (q_cache q) as [addr|].
  - eapply hoare_bind; [apply cc_h_ro, readonly_get | intros sx].
    eapply hoare_bind; [apply cc_h_ro, readonly_of_opt | intros e].
    eapply hoare_conseq; [apply cc_h_next_table | auto | | auto].
    intros r s Hr. destruct r; exact Hr.
  - destruct (Nat.leb 2 (q_arch q)); [|apply cc_h_next_archetype].
    eapply hoare_bind; [apply cc_h_next_table | intros found].
    destruct found; [apply hoare_ret; auto | apply cc_h_next_archetype].
Qed.

Lemma cc_h_next : forall d, hoare cc_I (query_next d qi) (fun r s => if r then cc_I s else cc_C s) cc_F.
Proof.
  intros d. unfold query_next.
  eapply hoare_bind; [apply cc_h_ro, q_ro_getQ | intros q].
  eapply hoare_bind with (R := fun _ => cc_I).
  { destruct d; cbn [whenM]; [apply cc_h_ro, readonly_guard | apply hoare_ret; auto]. }
  intros ?. destruct (q_max q) as [mx|]; [|apply cc_h_next_toa].
  destruct (Nat.ltb (q_index q) mx); [|apply cc_h_next_toa].
  eapply hoare_bind; [apply cc_h_modQ; intros x; cbn; [reflexivity | lia] | intros ?; apply hoare_ret; auto].
Qed.

Lemma cc_next_open : forall d q, nth_error (w_queries s0) qi = Some q -> q_lock q = b0 -> 1 <= q_tab q ->
  match query_next d qi s0 with
  | Ok true s' => cc_I s'
  | Ok false s' => cc_C s'
  | Err _ s' => cc_F s'
  end.
Proof.
  intros d q Hq Hb Ht.
  assert (HI : cc_I s0).
  { split; [split; [reflexivity | intros; reflexivity]|]. exists q. auto. }
  pose proof (cc_h_next d s0 HI) as H. destruct (query_next d qi s0) as [[|] s'|e s']; exact H.
Qed.
End CCEffect.

(** ** The effect of one operation, for all operations and all states *)
Definition cc_eff (qi : nat) (s s' : W) : Prop :=
  length (w_queries s') = length (w_queries s) /\
  (forall k, k <> qi -> nth_error (w_queries s') k = nth_error (w_queries s) k) /\
  match nth_error (w_queries s) qi with
  | None => nth_error (w_queries s') qi = None /\ w_lock s' = w_lock s
  | Some q =>
      exists q', nth_error (w_queries s') qi = Some q' /\ q_lock q' = q_lock q /\
        (((q_tab q' = 0 <-> q_tab q = 0) /\ w_lock s' = w_lock s) \/
         (1 <= q_tab q /\ q_tab q' = 0 /\
          w_lock s' = match lock_unlock (w_lock s) (q_lock q) with Some l' => l' | None => w_lock s end))
  end.

Lemma cc_eff_refl : forall qi s, cc_eff qi s s.
Proof.
  intros qi s. split; [reflexivity|]. split; [intros; reflexivity|].
  destruct (nth_error (w_queries s) qi) as [q|]; [|split; reflexivity].
  exists q. split; [reflexivity|]. split; [reflexivity|]. left. split; [tauto | reflexivity].
Qed.

Lemma cc_state_bind_ret : forall A B (m : MW A) (f : A -> B) s,
  state_of (bind m (fun x => ret (f x)) s) = state_of (m s).
Proof. intros A B m f s. unfold bind. destruct (m s); reflexivity. Qed.

Lemma cc_state_run_qop : forall d qi o s,
  state_of (run_qop d qi o s) =
  match o with
  | QNext => state_of (query_next d qi s)
  | QEntity => state_of (query_entity d qi s)
  | QCount => state_of (query_count qi s)
  | QEntityAt i => state_of (query_entity_at qi i s)
  | QClose => state_of (query_close qi s)
  end.
Proof. intros d qi o s. destruct o; cbn [run_qop]; apply cc_state_bind_ret. Qed.

Lemma cc_run_qop_read_state : forall d qi o s, cc_reads o = true -> state_of (run_qop d qi o s) = s.
Proof.
  intros d qi o s Ho. rewrite cc_state_run_qop. destruct o; try discriminate Ho.
  - apply query_entity_readonly.
  - apply query_count_readonly.
  - apply query_entity_at_readonly.
Qed.

Lemma cc_next_none : forall d qi s, nth_error (w_queries s) qi = None -> query_next d qi s = Err EIndex s.
Proof. intros d qi s H. unfold query_next. unfold bind at 1. rewrite cc_getQ_red, H. reflexivity. Qed.

Lemma cc_next_closed : forall d qi s q, nth_error (w_queries s) qi = Some q -> q_tab q = 0 ->
  query_next d qi s =
  if d then Err EMisuse s else
  match q_max q with
  | Some mx => if Nat.ltb (q_index q) mx
               then Ok true (s <| w_queries ::= updf qi (fun q => q <| q_index ::= S |>) |>)
               else Err EMisuse s
  | None => Err EMisuse s
  end.
Proof.
  intros d qi s q Hq Ht. unfold query_next. rewrite (sa_bind_ok (q_getQ_eq s qi q Hq)). rewrite Ht.
  assert (Htoa : query_next_table_or_archetype qi s = Err EMisuse s).
  { unfold query_next_table_or_archetype. rewrite (sa_bind_ok (q_getQ_eq s qi q Hq)). rewrite Ht. reflexivity. }
  destruct d; cbn [whenM Nat.leb guard]; [reflexivity|]. rewrite q_bind_ret.
  destruct (q_max q) as [mx|]; [|exact Htoa]. destruct (Nat.ltb (q_index q) mx); [|exact Htoa].
  rewrite (sa_bind_ok (cc_modQ_red qi _ s)). reflexivity.
Qed.

Lemma cc_eff_of_oth : forall s qi s' q q',
  cc_oth s qi s' -> nth_error (w_queries s) qi = Some q -> nth_error (w_queries s') qi = Some q' ->
  q_lock q' = q_lock q ->
  (((q_tab q' = 0 <-> q_tab q = 0) /\ w_lock s' = w_lock s) \/
   (1 <= q_tab q /\ q_tab q' = 0 /\
    w_lock s' = match lock_unlock (w_lock s) (q_lock q) with Some l' => l' | None => w_lock s end)) ->
  cc_eff qi s s'.
Proof.
  intros s qi s' q q' [H1 H2] Hq Hq' Hl Hd. split; [exact H1|]. split; [exact H2|].
  rewrite Hq. exists q'. auto.
Qed.

Theorem cc_step_eff : forall d qi o s, cc_eff qi s (state_of (run_qop d qi o s)).
Proof.
  intros d qi o s. destruct (cc_reads o) eqn:Ho.
  { rewrite (cc_run_qop_read_state d qi o s Ho). apply cc_eff_refl. }
  rewrite cc_state_run_qop. destruct o; try discriminate Ho.
  - (* Next *)
    destruct (nth_error (w_queries s) qi) as [q|] eqn:Hq.
    2:{ rewrite (cc_next_none d qi s Hq). apply cc_eff_refl. }
    destruct (Nat.eq_dec (q_tab q) 0) as [Ht|Ht].
    + rewrite (cc_next_closed d qi s q Hq Ht).
      assert (Hm : cc_eff qi s (s <| w_queries ::= updf qi (fun q => q <| q_index ::= S |>) |>)).
      { split; [cbn; apply cc_length_updf|]. split; [intros k Hk; cbn; apply q_nth_error_updf_ne; exact Hk|].
        rewrite Hq. eexists. split; [cbn; rewrite cc_nth_updf_eq, Hq; reflexivity|].
        split; [reflexivity|]. left. split; [cbn; tauto | reflexivity]. }
      destruct d; [apply cc_eff_refl|]. destruct (q_max q) as [mx|]; [|apply cc_eff_refl].
      destruct (Nat.ltb (q_index q) mx); [exact Hm | apply cc_eff_refl].
    + pose proof (cc_next_open s qi (q_lock q) d q Hq eq_refl ltac:(lia)) as H.
      assert (HI : forall s', cc_I s qi (q_lock q) s' -> cc_eff qi s s').
      { intros s' [Ho' (q' & Hq' & Hl & Hopen & Hlk)]. eapply cc_eff_of_oth; try eassumption.
        left. split; [lia | exact Hlk]. }
      assert (HC : forall s', cc_C s qi (q_lock q) s' -> cc_eff qi s s').
      { intros s' [Ho' (q' & Hq' & Hl & Hcl & Hlk)]. eapply cc_eff_of_oth; try eassumption.
        right. split; [lia|]. split; [exact Hcl | exact Hlk]. }
      destruct (query_next d qi s) as [[|] s'|e s']; cbn [state_of]; [apply HI, H | apply HC, H|].
      destruct H as [H|H]; [apply HI, H | apply HC, H].
  - (* Close *)
    rewrite cc_close_red. destruct (nth_error (w_queries s) qi) as [q|] eqn:Hq; [|apply cc_eff_refl].
    destruct (Nat.ltb_spec (q_tab q) 1) as [Hlt|Hge]; [apply cc_eff_refl|]. cbv zeta.
    set (f := fun q0 : qobj => q0 <| q_arch := 0 |> <| q_tab := 0 |> <| q_index := 0 |> <| q_max := None |>
                        <| q_tables := [] |> <| q_table := None |> <| q_cache := None |>).
    destruct (lock_unlock (w_lock s) (q_lock q)) as [l'|] eqn:El; cbn [state_of].
    + split; [cbn; apply cc_length_updf|]. split; [intros k Hk; cbn; apply q_nth_error_updf_ne; exact Hk|].
      rewrite Hq. exists (f q). split; [cbn; rewrite cc_nth_updf_eq, Hq; reflexivity|].
      split; [reflexivity|]. right. split; [exact Hge|]. split; [reflexivity|]. rewrite El. reflexivity.
    + split; [cbn; apply cc_length_updf|]. split; [intros k Hk; cbn; apply q_nth_error_updf_ne; exact Hk|].
      rewrite Hq. exists (f q). split; [cbn; rewrite cc_nth_updf_eq, Hq; reflexivity|].
      split; [reflexivity|]. right. split; [exact Hge|]. split; [reflexivity|]. rewrite El. reflexivity.
Qed.

(** All storage fields are untouched (QueryProofs), and so is the view of every other query. *)
Lemma cc_frame_run_qop : forall d qi o s, query_frame s (state_of (run_qop d qi o s)).
Proof.
  intros d qi o s. rewrite cc_state_run_qop. destruct o.
  - apply query_next_frame.
  - rewrite query_entity_readonly. apply q_frame_refl.
  - rewrite query_count_readonly. apply q_frame_refl.
  - rewrite query_entity_at_readonly. apply q_frame_refl.
  - apply query_close_frame.
Qed.

Theorem qop_preserves_others : forall d qi o s,
  let s' := state_of (run_qop d qi o s) in
  query_frame s s' /\ length (w_queries s') = length (w_queries s) /\
  forall qj, qj <> qi -> qview qj s' = qview qj s.
Proof.
  intros d qi o s s'. pose proof (cc_frame_run_qop d qi o s) as Hf. fold s' in Hf.
  destruct (cc_step_eff d qi o s) as (Hlen & Hoth & _). fold s' in Hlen, Hoth.
  split; [exact Hf|]. split; [exact Hlen|]. intros qj Hj. unfold qview. rewrite (Hoth qj Hj).
  unfold query_frame in Hf.
  destruct Hf as (H1 & H2 & H3 & H4 & H5 & H6 & H7 & H8 & H9 & H10 & H11 & H12 & H13 & H14 & H15 & _).
  rewrite H1, H2, H3, H4, H6, H7, H8, H9, H12, H13, H15. reflexivity.
Qed.

(** ** Interleavings *)

(** Side condition (an invariant of every world, see [cc_open_inv] below): two distinct OPEN queries
    hold distinct lock bits. (Closed queries may carry a stale bit number that was reused since.) *)
Definition cc_distinct (s : W) : Prop :=
  forall i j qa qb, i <> j -> nth_error (w_queries s) i = Some qa -> nth_error (w_queries s) j = Some qb ->
    1 <= q_tab qa -> 1 <= q_tab qb -> q_lock qa <> q_lock qb.

Lemma cc_eff_open_back : forall qj s s' k q', cc_eff qj s s' ->
  nth_error (w_queries s') k = Some q' -> 1 <= q_tab q' ->
  exists q, nth_error (w_queries s) k = Some q /\ 1 <= q_tab q /\ q_lock q = q_lock q'.
Proof.
  intros qj s s' k q' (Hlen & Hoth & Hm) Hq' Ho. destruct (Nat.eq_dec k qj) as [->|Hk].
  - destruct (nth_error (w_queries s) qj) as [q|].
    + destruct Hm as (q'' & Hq'' & Hl & Hd). rewrite Hq' in Hq''. injection Hq'' as <-.
      exists q. split; [reflexivity|]. destruct Hd as [[Hiff _]|(_ & Hc & _)]; [|lia].
      split; [|symmetry; exact Hl]. destruct (q_tab q); [|lia]. destruct Hiff as [_ Hiff]. specialize (Hiff eq_refl). lia.
    + destruct Hm as [Hn _]. congruence.
  - rewrite (Hoth k Hk) in Hq'. exists q'. auto.
Qed.

Lemma cc_distinct_eff : forall qj s s', cc_eff qj s s' -> cc_distinct s -> cc_distinct s'.
Proof.
  intros qj s s' He Hd i j qa qb Hij Ha Hb Hoa Hob.
  destruct (cc_eff_open_back qj s s' i qa He Ha Hoa) as (qa0 & Ha0 & Hoa0 & <-).
  destruct (cc_eff_open_back qj s s' j qb He Hb Hob) as (qb0 & Hb0 & Hob0 & <-).
  eapply Hd; eassumption.
Qed.

Lemma cc_eff_bit_other : forall qi qj s s' q, cc_eff qj s s' -> cc_distinct s -> qi <> qj ->
  nth_error (w_queries s) qi = Some q -> 1 <= q_tab q -> cc_bit qi s' = cc_bit qi s.
Proof.
  intros qi qj s s' q (Hlen & Hoth & Hm) Hd Hij Hq Ho. unfold cc_bit. rewrite (Hoth qi Hij), Hq. cbn [option_map].
  f_equal. destruct (nth_error (w_queries s) qj) as [qq|] eqn:Eq.
  - destruct Hm as (q' & Hq' & Hl & [[_ Hlk]|(Hoq & Hc & Hlk)]); rewrite Hlk; [reflexivity|].
    rewrite cc_lock_unlock_red. destruct (mk_get (lk_mask (w_lock s)) (q_lock qq)); [|reflexivity].
    cbn [lk_mask]. rewrite mk_get_clear.
    assert (Hne : q_lock qq <> q_lock q) by (eapply (Hd qj qi); eauto).
    apply Nat.eqb_neq in Hne. rewrite Hne. reflexivity.
  - destruct Hm as [_ Hlk]. rewrite Hlk. reflexivity.
Qed.

(** Events: (query, operation, observed result). *)
Definition cc_ev := (nat * qop * (list Z + err))%type.

(** Running an interleaving: every step is atomic; a panic of one call is just a failed result,
    the other goroutines go on (from the state at the point of the panic). *)
Fixpoint cc_run (d : bool) (tr : list (nat * qop)) (s : W) : list cc_ev * W :=
  match tr with
  | [] => ([], s)
  | (qi, o) :: t =>
      let r := run_qop d qi o s in
      let rest := cc_run d t (state_of r) in
      ((qi, o, cc_obs r) :: fst rest, snd rest)
  end.

Definition cc_of (qi : nat) (l : list cc_ev) : list cc_ev := filter (fun p => Nat.eqb (fst (fst p)) qi) l.
Definition cc_tr_of (qi : nat) (tr : list (nat * qop)) : list (nat * qop) := filter (fun p => Nat.eqb (fst p) qi) tr.

Lemma cc_run_cons : forall d qi o t s, cc_run d ((qi, o) :: t) s =
  ((qi, o, cc_obs (run_qop d qi o s)) :: fst (cc_run d t (state_of (run_qop d qi o s))),
   snd (cc_run d t (state_of (run_qop d qi o s)))).
Proof. reflexivity. Qed.

(** The simulation relation between the interleaved run and the solo run of query [qi]. *)
Definition cc_Rc (qi : nat) (sg ss : W) : Prop :=
  qview qi sg = qview qi ss /\
  (forall q, nth_error (w_queries sg) qi = Some q -> 1 <= q_tab q -> cc_bit qi sg = cc_bit qi ss).

Lemma cc_Rc_step : forall d qi o sg ss, cc_Rc qi sg ss ->
  cc_obs (run_qop d qi o sg) = cc_obs (run_qop d qi o ss) /\
  cc_Rc qi (state_of (run_qop d qi o sg)) (state_of (run_qop d qi o ss)).
Proof.
  intros d qi o sg ss [Hv Hb].
  destruct (cc_view_inv _ _ _ Hv) as (_ & _ & _ & _ & _ & Hqq).
  assert (Hgen : cc_bit qi sg = cc_bit qi ss ->
    cc_obs (run_qop d qi o sg) = cc_obs (run_qop d qi o ss) /\
    cc_Rc qi (state_of (run_qop d qi o sg)) (state_of (run_qop d qi o ss))).
  { intros Hbit. destruct (qop_depends_only_on_view_partial d qi o sg ss Hv Hbit) as (G1 & G2 & G3).
    split; [exact G1|]. split; [exact G2 | intros; exact G3]. }
  destruct (nth_error (w_queries sg) qi) as [q|] eqn:Hq.
  2:{ apply Hgen. unfold cc_bit. rewrite Hq, <- Hqq. reflexivity. }
  destruct (Nat.eq_dec (q_tab q) 0) as [Hc|Ho]; [|apply Hgen, (Hb q eq_refl); lia].
  symmetry in Hqq.
  destruct (cc_reads o) eqn:Hr.
  { destruct (qop_read_depends_only_on_view d qi o sg ss Hr Hv) as (G1 & G2 & G3).
    split; [exact G1|]. rewrite G2, G3. split; [exact Hv|]. intros q1 Hq1 Ho1. rewrite Hq in Hq1. injection Hq1 as <-. lia. }
  destruct o; try discriminate Hr; cbn [run_qop]; unfold bind.
  - rewrite (cc_next_closed d qi sg q Hq Hc), (cc_next_closed d qi ss q Hqq Hc).
    assert (Hsame : cc_Rc qi sg ss).
    { split; [exact Hv|]. intros q1 Hq1 Ho1. rewrite Hq in Hq1. injection Hq1 as <-. lia. }
    destruct d; [cbn; split; [reflexivity | exact Hsame]|].
    destruct (q_max q) as [mx|]; [|cbn; split; [reflexivity | exact Hsame]].
    destruct (Nat.ltb (q_index q) mx); [|cbn; split; [reflexivity | exact Hsame]].
    cbn [cc_obs state_of ret]. split; [reflexivity|]. split; [apply cc_view_modQ; exact Hv|].
    intros q1 Hq1 Ho1. cbn in Hq1. rewrite cc_nth_updf_eq, Hq in Hq1. cbn in Hq1. injection Hq1 as <-.
    cbn in Ho1. lia.
  - rewrite !cc_close_red, Hq, Hqq, Hc. cbn. split; [reflexivity|]. split; [exact Hv|].
    intros q1 Hq1 Ho1. rewrite Hq in Hq1. injection Hq1 as <-. lia.
Qed.

Lemma cc_sim : forall d qi tr sg ss, cc_distinct sg -> cc_Rc qi sg ss ->
  cc_of qi (fst (cc_run d tr sg)) = fst (cc_run d (cc_tr_of qi tr) ss) /\
  cc_Rc qi (snd (cc_run d tr sg)) (snd (cc_run d (cc_tr_of qi tr) ss)).
Proof.
  intros d qi tr. induction tr as [|[qj o] t IH]; intros sg ss Hd HR.
  - cbn. split; [reflexivity | exact HR].
  - rewrite cc_run_cons. cbn [fst snd]. unfold cc_tr_of. cbn [filter fst]. fold (cc_tr_of qi t).
    unfold cc_of. cbn [filter fst]. fold (cc_of qi (fst (cc_run d t (state_of (run_qop d qj o sg))))).
    pose proof (cc_step_eff d qj o sg) as He.
    pose proof (cc_distinct_eff qj _ _ He Hd) as Hd'.
    destruct (Nat.eqb_spec qj qi) as [->|Hne].
    + rewrite cc_run_cons. cbn [fst snd].
      destruct (cc_Rc_step d qi o sg ss HR) as [Hobs HR'].
      destruct (IH _ _ Hd' HR') as [IH1 IH2]. split; [|exact IH2].
      rewrite Hobs, IH1. reflexivity.
    + apply IH; [exact Hd'|]. destruct HR as [Hv Hb].
      destruct (qop_preserves_others d qj o sg) as (_ & _ & Hview).
      split; [rewrite (Hview qi ltac:(congruence)); exact Hv|].
      destruct He as (Hlen & Hoth & Hm). intros q Hq Ho. rewrite (Hoth qi ltac:(congruence)) in Hq.
      rewrite (cc_eff_bit_other qi qj sg _ q (conj Hlen (conj Hoth Hm)) Hd ltac:(congruence) Hq Ho).
      apply (Hb q Hq Ho).
Qed.

(** Statement 3. In any interleaving, the results observed for query [qi] are exactly those of
    running only [qi]'s operations, and [qi]'s query object ends up the same. *)
Theorem interleaving_noninterference : forall d tr s qi,
  cc_distinct s ->
  cc_of qi (fst (cc_run d tr s)) = fst (cc_run d (cc_tr_of qi tr) s) /\
  qview qi (snd (cc_run d tr s)) = qview qi (snd (cc_run d (cc_tr_of qi tr) s)).
Proof.
  intros d tr s qi Hd.
  destruct (cc_sim d qi tr s s Hd (conj eq_refl (fun _ _ _ => eq_refl))) as [H1 [H2 _]]. auto.
Qed.

(** The storage is the same before and after any interleaving. *)
Theorem interleaving_frame : forall d tr s,
  query_frame s (snd (cc_run d tr s)) /\ length (w_queries (snd (cc_run d tr s))) = length (w_queries s).
Proof.
  intros d tr. induction tr as [|[qj o] t IH]; intros s.
  - cbn. split; [apply q_frame_refl | reflexivity].
  - rewrite cc_run_cons. cbn [snd]. destruct (IH (state_of (run_qop d qj o s))) as [H1 H2].
    destruct (qop_preserves_others d qj o s) as (G1 & G2 & _).
    split; [eapply q_frame_trans; eassumption | congruence].
Qed.

(** ** Statement 4: when all queries have finished, the world is unlocked *)

(** The lock mask holds exactly the bits of the open queries (the LockProofs invariant
    "mask = held bits", with held = the bits of the open queries; see [cc_open_inv]). *)
Definition cc_mask_exact (s : W) : Prop :=
  forall b, mk_get (lk_mask (w_lock s)) b = true <->
            exists i q, nth_error (w_queries s) i = Some q /\ 1 <= q_tab q /\ q_lock q = b.

Definition cc_closed_at (k : nat) (s : W) : Prop :=
  exists q, nth_error (w_queries s) k = Some q /\ q_tab q = 0.

Lemma cc_eff_closed_stays : forall qj s s' k, cc_eff qj s s' -> cc_closed_at k s -> cc_closed_at k s'.
Proof.
  intros qj s s' k (Hlen & Hoth & Hm) (q & Hq & Hc). destruct (Nat.eq_dec k qj) as [->|Hk].
  - rewrite Hq in Hm. destruct Hm as (q' & Hq' & _ & [[Hiff _]|(Ho & _)]); [|lia].
    exists q'. split; [exact Hq' | apply Hiff; exact Hc].
  - exists q. rewrite (Hoth k Hk). auto.
Qed.

Lemma cc_exact_eff : forall qj s s', cc_eff qj s s' -> cc_distinct s -> cc_mask_exact s -> cc_mask_exact s'.
Proof.
  intros qj s s' He Hd Hx. pose proof He as (Hlen & Hoth & Hm).
  destruct (nth_error (w_queries s) qj) as [q|] eqn:Hq.
  2:{ destruct Hm as [Hn Hlk]. intros b. rewrite Hlk, (Hx b). split; intros (i & qa & Ha & Hoa & Hla).
      - exists i, qa. destruct (Nat.eq_dec i qj) as [->|Hi]; [congruence|]. rewrite (Hoth i Hi). auto.
      - exists i, qa. destruct (Nat.eq_dec i qj) as [->|Hi]; [congruence|]. rewrite <- (Hoth i Hi). auto. }
  destruct Hm as (q' & Hq' & Hl & [[Hiff Hlk]|(Ho & Hc & Hlk)]).
  - intros b. rewrite Hlk, (Hx b). split; intros (i & qa & Ha & Hoa & Hla).
    + destruct (Nat.eq_dec i qj) as [->|Hi].
      * exists qj, q'. rewrite Hq in Ha. injection Ha as <-. split; [exact Hq'|]. split; [lia | congruence].
      * exists i, qa. rewrite (Hoth i Hi). auto.
    + destruct (Nat.eq_dec i qj) as [->|Hi].
      * exists qj, q. rewrite Hq' in Ha. injection Ha as <-. split; [exact Hq|]. split; [lia | congruence].
      * exists i, qa. rewrite <- (Hoth i Hi). auto.
  - assert (Hheld : mk_get (lk_mask (w_lock s)) (q_lock q) = true) by (apply Hx; exists qj, q; auto).
    rewrite cc_lock_unlock_red, Hheld in Hlk.
    intros b. rewrite Hlk. cbn [lk_mask]. rewrite mk_get_clear. split.
    + intros Hb. apply Bool.andb_true_iff in Hb. destruct Hb as [Hne Hb].
      apply Bool.negb_true_iff, Nat.eqb_neq in Hne.
      apply Hx in Hb. destruct Hb as (i & qa & Ha & Hoa & Hla).
      destruct (Nat.eq_dec i qj) as [->|Hi]; [congruence|]. exists i, qa. rewrite (Hoth i Hi). auto.
    + intros (i & qa & Ha & Hoa & Hla).
      destruct (Nat.eq_dec i qj) as [->|Hi]; [rewrite Hq' in Ha; injection Ha as <-; lia|].
      rewrite (Hoth i Hi) in Ha. apply Bool.andb_true_iff. split.
      * apply Bool.negb_true_iff, Nat.eqb_neq. subst b. eapply (Hd qj i); eauto.
      * apply Hx. exists i, qa. auto.
Qed.

Lemma cc_run_inv : forall d tr s, cc_distinct s -> cc_mask_exact s ->
  cc_distinct (snd (cc_run d tr s)) /\ cc_mask_exact (snd (cc_run d tr s)).
Proof.
  intros d tr. induction tr as [|[qj o] t IH]; intros s Hd Hx; [cbn; auto|].
  rewrite cc_run_cons. cbn [snd]. pose proof (cc_step_eff d qj o s) as He.
  apply IH; [eapply cc_distinct_eff | eapply cc_exact_eff]; eassumption.
Qed.

Lemma cc_mk_get_0 : forall j, mk_get 0%N j = false.
Proof. intros j. unfold mk_get. apply N.bits_0. Qed.

Lemma cc_all_closed_unlocked : forall s, cc_mask_exact s ->
  (forall k q, nth_error (w_queries s) k = Some q -> q_tab q = 0) -> is_locked s = false.
Proof.
  intros s Hx Hall. unfold is_locked, lock_is_locked.
  assert (E : lk_mask (w_lock s) = 0%N).
  { apply mk_eq_ext. intros j. rewrite cc_mk_get_0.
    destruct (mk_get (lk_mask (w_lock s)) j) eqn:Ej; [|reflexivity].
    apply Hx in Ej. destruct Ej as (i & q & Hq & Ho & _). apply Hall in Hq. lia. }
  rewrite E. reflexivity.
Qed.

(** If, after an interleaving, every query of the world is closed, the world is unlocked. *)
Theorem all_finished_unlocked : forall d tr s,
  cc_distinct s -> cc_mask_exact s ->
  (forall k q, nth_error (w_queries (snd (cc_run d tr s))) k = Some q -> q_tab q = 0) ->
  is_locked (snd (cc_run d tr s)) = false.
Proof.
  intros d tr s Hd Hx Hall. apply cc_all_closed_unlocked; [|exact Hall].
  apply (cc_run_inv d tr s Hd Hx).
Qed.

(** A query is finished by Close, or by a Next that returned false (exhausted); a finished query
    stays finished whatever is called on it (or on any other query) afterwards. *)
Lemma cc_close_closes : forall d k s q, nth_error (w_queries s) k = Some q ->
  cc_closed_at k (state_of (run_qop d k QClose s)).
Proof.
  intros d k s q Hq. rewrite cc_state_run_qop, cc_close_red, Hq.
  destruct (Nat.ltb_spec (q_tab q) 1) as [Hlt|Hge]; [exists q; cbn; split; [exact Hq | lia]|].
  cbv zeta. destruct (lock_unlock (w_lock s) (q_lock q)); cbn [state_of];
    (eexists; split; [cbn; rewrite cc_nth_updf_eq, Hq; reflexivity | reflexivity]).
Qed.

Lemma cc_next_false_closes : forall d k s q, nth_error (w_queries s) k = Some q ->
  cc_obs (run_qop d k QNext s) = inl [Zb false] ->
  cc_closed_at k (state_of (run_qop d k QNext s)).
Proof.
  intros d k s q Hq Hobs. cbn [run_qop] in *. unfold bind in *.
  destruct (Nat.eq_dec (q_tab q) 0) as [Hc|Ho].
  - rewrite (cc_next_closed d k s q Hq Hc) in Hobs.
    destruct d; [discriminate Hobs|]. destruct (q_max q) as [mx|]; [|discriminate Hobs].
    destruct (Nat.ltb (q_index q) mx); discriminate Hobs.
  - pose proof (cc_next_open s k (q_lock q) d q Hq eq_refl ltac:(lia)) as H.
    destruct (query_next d k s) as [[|] s'|e s']; [discriminate Hobs | | discriminate Hobs].
    cbn [state_of ret]. destruct H as [_ (q' & Hq' & _ & Hc & _)]. exists q'. auto.
Qed.

Lemma cc_fin_closed : forall d tr s k, k < length (w_queries s) ->
  (cc_closed_at k s \/ In (k, QClose) tr \/ In (k, QNext, inl [Zb false]) (fst (cc_run d tr s))) ->
  cc_closed_at k (snd (cc_run d tr s)).
Proof.
  intros d tr. induction tr as [|[qj o] t IH]; intros s k Hk H.
  - cbn in *. destruct H as [H|[[]|[]]]. exact H.
  - rewrite cc_run_cons in *. cbn [fst snd] in *.
    pose proof (cc_step_eff d qj o s) as He.
    assert (Hk' : k < length (w_queries (state_of (run_qop d qj o s)))) by (destruct He as [-> _]; exact Hk).
    destruct (nth_error (w_queries s) k) as [q|] eqn:Hq; [|apply nth_error_None in Hq; lia].
    apply (IH _ k Hk'). destruct H as [H|[[H|H]|[H|H]]].
    + left. eapply cc_eff_closed_stays; eassumption.
    + left. injection H as -> ->. eapply cc_close_closes; eassumption.
    + right. left. exact H.
    + left. injection H as -> -> Hobs. eapply cc_next_false_closes; eassumption.
    + right. right. exact H.
Qed.

(** Statement 4, in terms of the interleaving itself: every query of the world was already closed,
    or is closed by some Close in the interleaving, or was iterated until Next returned false. *)
Theorem all_finished_unlocked_trace : forall d tr s,
  cc_distinct s -> cc_mask_exact s ->
  (forall k, k < length (w_queries s) ->
     cc_closed_at k s \/ In (k, QClose) tr \/ In (k, QNext, inl [Zb false]) (fst (cc_run d tr s))) ->
  is_locked (snd (cc_run d tr s)) = false.
Proof.
  intros d tr s Hd Hx Hfin. apply all_finished_unlocked; [exact Hd | exact Hx|].
  intros k q Hq. destruct (interleaving_frame d tr s) as [_ Hlen].
  assert (Hk : k < length (w_queries s)) by (rewrite <- Hlen; eapply sa_nth_error_lt; eassumption).
  destruct (cc_fin_closed d tr s k Hk (Hfin k Hk)) as (q' & Hq' & Hc). congruence.
Qed.

(** ** Where the side conditions come from: the world-level lock invariant.
    [cc_inv]: the bit pool satisfies the LockProofs invariant with held bits = the bits of the open
    queries, and distinct open queries hold distinct bits. It holds initially, and is preserved by
    creating a query ([query_open], concurrent creation = some order of these atomic steps) and by
    every query operation. It yields both side conditions of the theorems above. *)
Definition cc_opens (s : W) (b : nat) : Prop :=
  exists i q, nth_error (w_queries s) i = Some q /\ 1 <= q_tab q /\ q_lock q = b.

Definition cc_pool_inv (l : lockst) (held : list nat) : Prop :=
  LockProofs.Inv' (ip (lk_pool l)) (inext (lk_pool l)) (iavail (lk_pool l)) (lk_mask l) held.

Definition cc_inv (s : W) : Prop :=
  cc_distinct s /\ exists held, cc_pool_inv (w_lock s) held /\ forall b, In b held <-> cc_opens s b.

Theorem cc_inv_side_conditions : forall s, cc_inv s -> cc_distinct s /\ cc_mask_exact s.
Proof.
  intros s [Hd (held & Hp & Hh)]. split; [exact Hd|].
  destruct Hp as (fl & _ & _ & _ & _ & _ & _ & _ & _ & Hm).
  intros b. rewrite (Hm b). apply Hh.
Qed.

Theorem cc_inv_init : forall c, cc_inv (init_world c).
Proof.
  intros c. split.
  - intros i j qa qb _ Ha. cbn in Ha. destruct i; discriminate Ha.
  - exists []. split; [exact LockProofs.Inv_init|].
    intros b. split; [intros []|]. intros (i & q & Hq & _). cbn in Hq. destruct i; discriminate Hq.
Qed.

Lemma cc_opens_eff : forall qj s s', cc_eff qj s s' -> cc_distinct s ->
  (w_lock s' = w_lock s /\ forall b, cc_opens s' b <-> cc_opens s b) \/
  (exists q, nth_error (w_queries s) qj = Some q /\ 1 <= q_tab q /\
     w_lock s' = match lock_unlock (w_lock s) (q_lock q) with Some l' => l' | None => w_lock s end /\
     forall b, cc_opens s' b <-> (cc_opens s b /\ b <> q_lock q)).
Proof.
  intros qj s s' (Hlen & Hoth & Hm) Hd.
  destruct (nth_error (w_queries s) qj) as [q|] eqn:Hq.
  2:{ left. destruct Hm as [Hn Hlk]. split; [exact Hlk|]. intros b. split; intros (i & qa & Ha & Hoa & Hla).
      - exists i, qa. destruct (Nat.eq_dec i qj) as [->|Hi]; [congruence|]. rewrite <- (Hoth i Hi). auto.
      - exists i, qa. destruct (Nat.eq_dec i qj) as [->|Hi]; [congruence|]. rewrite (Hoth i Hi). auto. }
  destruct Hm as (q' & Hq' & Hl & [[Hiff Hlk]|(Ho & Hc & Hlk)]).
  - left. split; [exact Hlk|]. intros b. split; intros (i & qa & Ha & Hoa & Hla).
    + destruct (Nat.eq_dec i qj) as [->|Hi].
      * exists qj, q. rewrite Hq' in Ha. injection Ha as <-. split; [exact Hq|]. split; [lia | congruence].
      * exists i, qa. rewrite <- (Hoth i Hi). auto.
    + destruct (Nat.eq_dec i qj) as [->|Hi].
      * exists qj, q'. rewrite Hq in Ha. injection Ha as <-. split; [exact Hq'|]. split; [lia | congruence].
      * exists i, qa. rewrite (Hoth i Hi). auto.
  - right. exists q. split; [reflexivity|]. split; [exact Ho|]. split; [exact Hlk|].
    intros b. split.
    + intros (i & qa & Ha & Hoa & Hla).
      destruct (Nat.eq_dec i qj) as [->|Hi]; [rewrite Hq' in Ha; injection Ha as <-; lia|].
      rewrite (Hoth i Hi) in Ha. split; [exists i, qa; auto|].
      subst b. intros E. symmetry in E. revert E. eapply (Hd qj i); eauto.
    + intros [(i & qa & Ha & Hoa & Hla) Hne].
      destruct (Nat.eq_dec i qj) as [->|Hi]; [congruence|]. exists i, qa. rewrite (Hoth i Hi). auto.
Qed.

Theorem cc_inv_step : forall d qj o s, cc_inv s -> cc_inv (state_of (run_qop d qj o s)).
Proof.
  intros d qj o s [Hd (held & Hp & Hh)]. pose proof (cc_step_eff d qj o s) as He.
  split; [eapply cc_distinct_eff; eassumption|].
  destruct (cc_opens_eff qj _ _ He Hd) as [[Hlk Ho]|(q & Hq & Hopen & Hlk & Ho)].
  - exists held. rewrite Hlk. split; [exact Hp|]. intros b. rewrite (Ho b). apply Hh.
  - exists (LockSpec.remove_nat (q_lock q) held). rewrite Hlk.
    assert (Hin : In (q_lock q) held) by (apply Hh; exists qj, q; auto).
    unfold cc_pool_inv in *. destruct (w_lock s) as [[ipl nx av] m]. cbn [lk_pool lk_mask ip inext iavail] in Hp.
    pose proof (LockProofs.lock_unlock_spec ipl nx av m held (q_lock q) Hp) as Hs.
    destruct (lock_unlock _ (q_lock q)) as [l'|]; [|contradiction].
    destruct Hs as [_ Hs]. split; [exact Hs|].
    intros b. rewrite LockProofs.in_remove_nat, (Ho b), (Hh b). reflexivity.
Qed.

Lemma cc_inv_run : forall d tr s, cc_inv s -> cc_inv (snd (cc_run d tr s)).
Proof.
  intros d tr. induction tr as [|[qj o] t IH]; intros s H; [exact H|].
  rewrite cc_run_cons. cbn [snd]. apply IH, cc_inv_step, H.
Qed.

Lemma cc_lockM_red : forall s, lockM s =
  match lock_lock (w_lock s) with
  | Some (b, l') => Ok b (s <| w_lock := l' |>)
  | None => Err EBits s
  end.
Proof. intros s. unfold lockM, bind, get. destruct (lock_lock (w_lock s)) as [[b l']|]; reflexivity. Qed.

Lemma cc_inv_ro : forall A (m : MW A), readonly m -> hoare cc_inv m (fun _ => cc_inv) cc_inv.
Proof. intros A m H s Hs. specialize (H s). destruct (m s); cbn in H; subst; exact Hs. Qed.

(** Creating a query (any filter, cached or not, with or without relation targets) keeps the
    invariant - also when it fails (unknown filter, bad relation, or all 64 lock bits in use). *)
Theorem cc_inv_open : forall fi rels, hoare cc_inv (query_open fi rels) (fun _ => cc_inv) cc_inv.
Proof.
  intros fi rels. unfold query_open.
  eapply hoare_bind; [apply cc_inv_ro, readonly_getF | intros f].
  eapply hoare_bind; [apply cc_inv_ro; destruct (negb (f_unsafe f)); cbn [whenM]; [apply readonly_to_relations | apply readonly_ret] | intros ?].
  eapply hoare_bind; [apply cc_inv_ro, readonly_get | intros sx].
  eapply hoare_bind; [apply cc_inv_ro; destruct (f_cache f); ro | intros cache].
  intros s [Hd (held & Hp & Hh)]. unfold bind at 1. rewrite cc_lockM_red.
  unfold cc_pool_inv in Hp. destruct (w_lock s) as [[ipl nx av] m] eqn:El. cbn [lk_pool lk_mask ip inext iavail] in Hp.
  pose proof (LockProofs.lock_lock_spec ipl nx av m held Hp) as Hs.
  destruct (lock_lock _) as [[b l']|].
  2:{ split; [exact Hd|]. exists held. rewrite El. split; [exact Hp | exact Hh]. }
  destruct Hs as (Hnin & _ & _ & Hp').
  unfold bind, get, put, ret. cbn [state_of].
  match goal with |- cc_inv (_ <| w_queries ::= fun l => l ++ [?qq] |>) => set (qn := qq) end.
  assert (Hqs : forall i q, nth_error (w_queries s ++ [qn]) i = Some q ->
            (nth_error (w_queries s) i = Some q) \/ (i = length (w_queries s) /\ q = qn)).
  { intros i q H. apply sa_nth_error_snoc in H. destruct H as [[_ H]|H]; auto. }
  split.
  - intros i j qa qb Hij Ha Hb Hoa Hob. cbn in Ha, Hb.
    destruct (Hqs _ _ Ha) as [Ha'|[Ei ->]], (Hqs _ _ Hb) as [Hb'|[Ej ->]].
    + eapply Hd; eassumption.
    + cbn. intros E. apply Hnin. apply Hh. exists i, qa. auto.
    + cbn. intros E. apply Hnin. apply Hh. exists j, qb. auto.
    + lia.
  - exists (b :: held). split; [exact Hp'|]. intros x. split.
    + intros [<-|Hx].
      * exists (length (w_queries s)), qn. cbn. split; [apply sa_nth_error_snoc_new|]. split; [lia | reflexivity].
      * apply Hh in Hx. destruct Hx as (i & q & Hq & Ho & Hl). exists i, q. cbn.
        split; [apply sa_nth_error_snoc_old; exact Hq | auto].
    + intros (i & q & Hq & Ho & Hl). cbn in Hq. destruct (Hqs _ _ Hq) as [Hq'|[Ei ->]].
      * right. apply Hh. exists i, q. auto.
      * left. subst x. reflexivity.
Qed.

(** ** Every query gets exactly its matching entities, also when interleaved.
    Non-interference composed with [drain_is_walk] (C03): if the goroutine of query [qi] runs the
    usual loop "for Next() { Entity() }" on a freshly opened query, then - whatever the other
    goroutines do to their queries in between - it observes exactly the rows of its walk, in
    order, each once, and then Next returns false. *)
Fixpoint cc_drain_ops (qi n : nat) : list (nat * qop) :=
  match n with
  | O => [(qi, QNext)]
  | S m => (qi, QNext) :: (qi, QEntity) :: cc_drain_ops qi m
  end.
Fixpoint cc_drain_events (qi : nat) (es : list ent) : list cc_ev :=
  match es with
  | [] => [(qi, QNext, inl [Zb false])]
  | e :: t => (qi, QNext, inl [Zb true]) :: (qi, QEntity, inl (Zent e)) :: cc_drain_events qi t
  end.

Lemma cc_drain_S : forall d f qi s, drain d (S f) qi s =
  match query_next d qi s with
  | Err e s' => Err e s'
  | Ok false s' => Ok [] s'
  | Ok true s' =>
      match query_entity d qi s' with
      | Err e s'' => Err e s''
      | Ok x s'' => match drain d f qi s'' with
                    | Ok xs s3 => Ok (x :: xs) s3
                    | Err e s3 => Err e s3
                    end
      end
  end.
Proof. reflexivity. Qed.

Lemma cc_run_qop_next_ok : forall d qi s b s1, query_next d qi s = Ok b s1 -> run_qop d qi QNext s = Ok [Zb b] s1.
Proof. intros d qi s b s1 H. cbn [run_qop]. unfold bind. rewrite H. reflexivity. Qed.
Lemma cc_run_qop_entity_ok : forall d qi s x s1, query_entity d qi s = Ok x s1 -> run_qop d qi QEntity s = Ok (Zent x) s1.
Proof. intros d qi s x s1 H. cbn [run_qop]. unfold bind. rewrite H. reflexivity. Qed.

Lemma cc_drain_run : forall d qi n s es s', drain d (S n) qi s = Ok es s' -> length es = n ->
  cc_run d (cc_drain_ops qi n) s = (cc_drain_events qi es, s').
Proof.
  intros d qi n. induction n as [|m IH]; intros s es s' H Hlen; rewrite cc_drain_S in H;
    destruct (query_next d qi s) as [[|] s1|e s1] eqn:En; try discriminate H.
  - destruct (query_entity d qi s1) as [x s2|e s2]; [|discriminate H]. cbn [drain] in H.
    injection H as <- <-. discriminate Hlen.
  - injection H as <- <-. cbn [cc_drain_ops cc_drain_events]. rewrite cc_run_cons.
    rewrite (cc_run_qop_next_ok d qi s false s1 En). reflexivity.
  - destruct (query_entity d qi s1) as [x s2|e s2] eqn:Ee; [|discriminate H].
    destruct (drain d (S m) qi s2) as [xs s3|e s3] eqn:Ed; [|discriminate H].
    injection H as <- <-. cbn [length] in Hlen. injection Hlen as Hlen.
    cbn [cc_drain_ops cc_drain_events]. rewrite !cc_run_cons.
    rewrite (cc_run_qop_next_ok d qi s true s1 En). cbn [cc_obs state_of].
    rewrite (cc_run_qop_entity_ok d qi s1 x s2 Ee). cbn [cc_obs state_of].
    rewrite (IH s2 xs s3 Ed Hlen). reflexivity.
  - injection H as <- <-. discriminate Hlen.
Qed.

Theorem interleaved_drain_is_walk : forall d tr s qi q w,
  WF s -> cc_distinct s -> nth_error (w_queries s) qi = Some q ->
  q_arch q = 1 -> q_tab q = 1 -> q_max q = None -> q_index q = 0 -> q_table q = None -> q_tables q = [] ->
  mk_get (lk_mask (w_lock s)) (q_lock q) = true ->
  query_walk qi s = Ok w s ->
  cc_tr_of qi tr = cc_drain_ops qi (length (walk_rows s w)) ->
  cc_of qi (fst (cc_run d tr s)) = cc_drain_events qi (walk_rows s w).
Proof.
  intros d tr s qi q w HWF Hd Hq Ha Ht Hm Hi Htb Htabs Hl Hw Htr.
  destruct (interleaving_noninterference d tr s qi Hd) as [-> _]. rewrite Htr.
  pose proof (drain_is_walk d qi s q w HWF Hq Ha Ht Hm Hi Htb Htabs Hl Hw (S (length (walk_rows s w))) ltac:(lia)) as H.
  destruct (drain d (S (length (walk_rows s w))) qi s) as [es s'|e s'] eqn:Ed; [|contradiction].
  destruct H as (-> & _). rewrite (cc_drain_run d qi _ s _ s' Ed eq_refl). reflexivity.
Qed.

(** ** Statement 2 as first asked: the lock-bit condition only for Close  — (refuted)

    (refuted) forall d qi o s1 s2, qview qi s1 = qview qi s2 ->
                (o = QClose -> the query's lock bit is held in s1 and in s2) ->
                cc_obs (run_qop d qi o s1) = cc_obs (run_qop d qi o s2).

    False for Next: a Next that exhausts the query closes it, i.e. releases the query's lock bit,
    and panics ("unbalanced unlock") when the bit is not set. The true statements are
    [qop_depends_only_on_view_partial] (same own-bit status, all operations) and
    [qop_read_depends_only_on_view] (no lock condition for Entity / Count / EntityAt). *)

(** ** A concrete reachable world: entities 2:{0} 3:{0,1} 4:{1} 5:{0,1}; filters over component 0, 1
    and 2; four open queries: two sharing filter 0, one on filter 1, one on filter 2 (no matches). *)
Definition cc_w0 : W :=
  exec small_cfg [[1; 1; 0]; [1; 2; 0; 1]; [1; 1; 1]; [1; 2; 0; 1];
                  [15; 0; 1; 0; 0; 0; 0]; [15; 0; 1; 1; 0; 0; 0]; [15; 0; 1; 2; 0; 0; 0]]%Z.
Definition cc_open (fi : nat) (s : W) : W := state_of (query_open fi [] s).
Definition cc_w : W := cc_open 2 (cc_open 0 (cc_open 1 (cc_open 0 cc_w0))).

(** The same world, reached by the operation script (op 19 = open query). *)
Example cc_w_reachable :
  cc_w = exec small_cfg [[1; 1; 0]; [1; 2; 0; 1]; [1; 1; 1]; [1; 2; 0; 1];
                         [15; 0; 1; 0; 0; 0; 0]; [15; 0; 1; 1; 0; 0; 0]; [15; 0; 1; 2; 0; 0; 0];
                         [19; 0; 0]; [19; 1; 0]; [19; 0; 0]; [19; 2; 0]]%Z.
Proof. vm_compute. reflexivity. Qed.

Lemma cc_view_set_lock : forall qi s l, qview qi s = qview qi (s <| w_lock := l |>).
Proof. reflexivity. Qed.

Theorem qop_depends_only_on_view_refuted :
  ~ (forall d qi o s1 s2, qview qi s1 = qview qi s2 ->
       (o = QClose -> forall q, nth_error (w_queries s1) qi = Some q ->
          mk_get (lk_mask (w_lock s1)) (q_lock q) = true /\ mk_get (lk_mask (w_lock s2)) (q_lock q) = true) ->
       cc_obs (run_qop d qi o s1) = cc_obs (run_qop d qi o s2)).
Proof.
  intros H.
  specialize (H false 3 QNext cc_w (cc_w <| w_lock := lock_new |>) (cc_view_set_lock 3 cc_w lock_new)
                (fun E => ltac:(discriminate E))).
  vm_compute in H. discriminate H.
Qed.

Lemma cc_inv_fresh : forall s, w_queries s = [] -> w_lock s = lock_new -> cc_inv s.
Proof.
  intros s Hq Hl. split.
  - intros i j qa qb _ Ha. rewrite Hq in Ha. destruct i; discriminate Ha.
  - exists []. rewrite Hl. split; [exact LockProofs.Inv_init|].
    intros b. split; [intros []|]. intros (i & q & Hi & _). rewrite Hq in Hi. destruct i; discriminate Hi.
Qed.

Lemma cc_inv_cc_open : forall fi s, cc_inv s -> cc_inv (cc_open fi s).
Proof.
  intros fi s H. unfold cc_open. pose proof (cc_inv_open fi [] s H) as G.
  destruct (query_open fi [] s); exact G.
Qed.

Example cc_w_inv : cc_inv cc_w.
Proof.
  unfold cc_w. do 4 apply cc_inv_cc_open. apply cc_inv_fresh; vm_compute; reflexivity.
Qed.

(** One interleaving of the four goroutines (including calls after Close, which panic). *)
Definition cc_tr : list (nat * qop) :=
  [(0, QNext); (1, QCount); (1, QNext); (0, QEntity); (2, QClose); (1, QEntity); (3, QNext); (0, QNext);
   (0, QEntity); (1, QNext); (0, QEntityAt 1); (1, QEntity); (0, QNext); (2, QNext); (1, QNext);
   (0, QEntity); (1, QEntity); (0, QNext); (1, QClose); (0, QCount); (1, QNext)].

Example cc_example_interleaved :
  fst (cc_run false cc_tr cc_w) =
  [(0, QNext, inl [1%Z]); (1, QCount, inl [3%Z]); (1, QNext, inl [1%Z]); (0, QEntity, inl [2%Z; 0%Z]);
   (2, QClose, inl []); (1, QEntity, inl [3%Z; 0%Z]); (3, QNext, inl [0%Z]); (0, QNext, inl [1%Z]);
   (0, QEntity, inl [3%Z; 0%Z]); (1, QNext, inl [1%Z]); (0, QEntityAt 1, inl [3%Z; 0%Z]); (1, QEntity, inl [5%Z; 0%Z]);
   (0, QNext, inl [1%Z]); (2, QNext, inr EMisuse); (1, QNext, inl [1%Z]); (0, QEntity, inl [5%Z; 0%Z]);
   (1, QEntity, inl [4%Z; 0%Z]); (0, QNext, inl [0%Z]); (1, QClose, inl []); (0, QCount, inl [3%Z]);
   (1, QNext, inr EMisuse)].
Proof. vm_compute. reflexivity. Qed.

Example cc_example_solo0 :
  fst (cc_run false (cc_tr_of 0 cc_tr) cc_w) =
  [(0, QNext, inl [1%Z]); (0, QEntity, inl [2%Z; 0%Z]); (0, QNext, inl [1%Z]); (0, QEntity, inl [3%Z; 0%Z]);
   (0, QEntityAt 1, inl [3%Z; 0%Z]); (0, QNext, inl [1%Z]); (0, QEntity, inl [5%Z; 0%Z]); (0, QNext, inl [0%Z]);
   (0, QCount, inl [3%Z])].
Proof. vm_compute. reflexivity. Qed.

Example cc_example_solo1 :
  fst (cc_run false (cc_tr_of 1 cc_tr) cc_w) =
  [(1, QCount, inl [3%Z]); (1, QNext, inl [1%Z]); (1, QEntity, inl [3%Z; 0%Z]); (1, QNext, inl [1%Z]);
   (1, QEntity, inl [5%Z; 0%Z]); (1, QNext, inl [1%Z]); (1, QEntity, inl [4%Z; 0%Z]); (1, QClose, inl []);
   (1, QNext, inr EMisuse)].
Proof. vm_compute. reflexivity. Qed.

Example cc_example_equal :
  (forall qi, qi < 4 -> cc_of qi (fst (cc_run false cc_tr cc_w)) = fst (cc_run false (cc_tr_of qi cc_tr) cc_w)) /\
  is_locked cc_w = true /\ is_locked (snd (cc_run false cc_tr cc_w)) = false.
Proof.
  split.
  - intros qi Hq. destruct qi as [|[|[|[|]]]]; try lia; vm_compute; reflexivity.
  - split; vm_compute; reflexivity.
Qed.

(** The same two facts for this world obtained from the theorems (hypotheses are satisfiable). *)
Example cc_example_by_theorem :
  (forall d tr qi, cc_of qi (fst (cc_run d tr cc_w)) = fst (cc_run d (cc_tr_of qi tr) cc_w)) /\
  is_locked (snd (cc_run false cc_tr cc_w)) = false.
Proof.
  destruct (cc_inv_side_conditions cc_w cc_w_inv) as [Hd Hx]. split.
  - intros d tr qi. apply (interleaving_noninterference d tr cc_w qi Hd).
  - apply (all_finished_unlocked_trace false cc_tr cc_w Hd Hx). intros k Hk.
    change (length (w_queries cc_w)) with 4 in Hk.
    destruct k as [|[|[|[|]]]]; try lia.
    + right. right. rewrite cc_example_interleaved. cbn. auto 25.
    + right. left. cbn. auto 25.
    + right. left. cbn. auto 25.
    + right. right. rewrite cc_example_interleaved. cbn. auto 25.
Qed.

Definition cc_all := (qop_depends_only_on_view_partial, qop_depends_only_on_view_held, qop_read_depends_only_on_view,
  qop_depends_only_on_view_refuted, cc_step_eff, qop_preserves_others,
  interleaving_noninterference, interleaving_frame, interleaved_drain_is_walk,
  all_finished_unlocked, all_finished_unlocked_trace,
  cc_inv_side_conditions, cc_inv_init, cc_inv_open, cc_inv_step, cc_inv_run,
  cc_w_reachable, cc_w_inv, cc_example_interleaved, cc_example_solo0, cc_example_solo1, cc_example_equal,
  cc_example_by_theorem).
Print Assumptions cc_all.
