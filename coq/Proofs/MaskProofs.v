(** * MaskProofs: the two bit-mask implementations refine the [N]-based masks of the world model,
    for every component ID below their width. Properties C18 (capacity usable, toTypes), C20 (tiny
    build), C03 (filter matching is set inclusion). To be filled. *)
From Ark Require Import Model.Base Model.Mask.

Definition word_ok (x : N) : Prop := (x < w64)%N.
Definition m256_ok (b : m256) : Prop := word_ok (b0 b) /\ word_ok (b1 b) /\ word_ok (b2 b) /\ word_ok (b3 b).

(** *** Set semantics of the N-based masks *)
Theorem mk_get_set : forall m i j, mk_get (mk_set m i) j = (Nat.eqb i j || mk_get m j)%bool.
Admitted.
Theorem mk_get_clear : forall m i j, mk_get (mk_clear m i) j = (negb (Nat.eqb i j) && mk_get m j)%bool.
Admitted.
Theorem mk_get_or : forall a b j, mk_get (mk_or a b) j = (mk_get a j || mk_get b j)%bool.
Admitted.
Theorem mk_contains_spec : forall a b, mk_contains a b = true <-> (forall j, mk_get b j = true -> mk_get a j = true).
Admitted.
Theorem mk_contains_any_spec : forall a b, mk_contains_any a b = true <-> (exists j, mk_get a j = true /\ mk_get b j = true).
Admitted.
Theorem mk_get_not : forall bits m j, j < bits -> mk_get (mk_not bits m) j = negb (mk_get m j).
Admitted.
Theorem mk_get_of_list : forall l j, mk_get (mk_of_list l) j = true <-> In j l.
Admitted.
Theorem mk_to_list_spec : forall m n j, In j (mk_to_list m n) <-> (j < n /\ mk_get m j = true).
Admitted.
Theorem mk_to_list_sorted : forall m n, NoDup (mk_to_list m n) /\
  (forall i j x y, i < j -> nth_error (mk_to_list m n) i = Some x -> nth_error (mk_to_list m n) j = Some y -> x < y).
Admitted.
Theorem mk_eq_ext : forall a b, (forall j, mk_get a j = mk_get b j) -> a = b.
Admitted.

(** *** bitMask256 refines N-masks (all 256 bits, i.e. every word and its boundaries) *)
Theorem m256_get_refines : forall b i, m256_ok b -> i < 256 ->
  m256_get b (N.of_nat i) = mk_get (m256_to_N b) i.
Admitted.
Theorem m256_set_refines : forall b i, m256_ok b -> i < 256 ->
  m256_ok (m256_set b (N.of_nat i)) /\ m256_to_N (m256_set b (N.of_nat i)) = mk_set (m256_to_N b) i.
Admitted.
Theorem m256_clear_refines : forall b i, m256_ok b -> i < 256 ->
  m256_ok (m256_clear b (N.of_nat i)) /\ m256_to_N (m256_clear b (N.of_nat i)) = mk_clear (m256_to_N b) i.
Admitted.
Theorem m256_or_refines : forall a b, m256_ok a -> m256_ok b ->
  m256_ok (m256_or a b) /\ m256_to_N (m256_or a b) = mk_or (m256_to_N a) (m256_to_N b).
Admitted.
Theorem m256_not_refines : forall b, m256_ok b ->
  m256_ok (m256_not b) /\ m256_to_N (m256_not b) = mk_not 256 (m256_to_N b).
Admitted.
Theorem m256_contains_refines : forall a b, m256_ok a -> m256_ok b ->
  m256_contains a b = mk_contains (m256_to_N a) (m256_to_N b).
Admitted.
Theorem m256_contains_any_refines : forall a b, m256_ok a -> m256_ok b ->
  m256_contains_any a b = mk_contains_any (m256_to_N a) (m256_to_N b).
Admitted.
Theorem m256_is_zero_refines : forall b, m256_ok b -> m256_is_zero b = mk_is_zero (m256_to_N b).
Admitted.
Theorem m256_equals_refines : forall a b, m256_ok a -> m256_ok b ->
  m256_equals a b = N.eqb (m256_to_N a) (m256_to_N b).
Admitted.
Theorem m256_zero_ok : m256_ok m256_zero /\ m256_to_N m256_zero = 0%N.
Admitted.

(** toTypes (as repaired): for every registered count up to and including 256 and every mask whose
    bits are all below that count, the result is the ascending list of set bits. *)
Theorem m256_to_types_spec : forall b total, m256_ok b -> total <= 256 ->
  (forall j, mk_get (m256_to_N b) j = true -> j < total) ->
  m256_to_types b total = mk_to_list (m256_to_N b) total.
Admitted.

(** *** bitMask64 refines N-masks below 64 bits *)
Theorem m64_get_refines : forall b i, word_ok b -> i < 64 -> m64_get b (N.of_nat i) = mk_get b i.
Admitted.
Theorem m64_set_refines : forall b i, word_ok b -> i < 64 ->
  word_ok (m64_set b (N.of_nat i)) /\ m64_set b (N.of_nat i) = mk_set b i.
Admitted.
Theorem m64_clear_refines : forall b i, word_ok b -> i < 64 ->
  word_ok (m64_clear b (N.of_nat i)) /\ m64_clear b (N.of_nat i) = mk_clear b i.
Admitted.
Theorem m64_not_refines : forall b, word_ok b -> word_ok (m64_not b) /\ m64_not b = mk_not 64 b.
Admitted.
Theorem m64_to_types_spec : forall b total, word_ok b -> total <= 64 ->
  (forall j, mk_get b j = true -> j < total) ->
  m64_to_types b total = mk_to_list b total.
Admitted.

(** Both widths agree on masks that only use bits below 64 (tiny build = default build there). *)
Theorem m64_m256_agree : forall x, word_ok x ->
  m256_to_N {| b0 := x; b1 := 0; b2 := 0; b3 := 0 |} = x.
Admitted.
