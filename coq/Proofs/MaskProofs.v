(** * MaskProofs: the two bit-mask implementations refine the [N]-based masks of the world model,
    for every component ID below their width. Properties C18 (capacity usable, toTypes), C20 (tiny
    build), C03 (filter matching is set inclusion). *)
From Ark Require Import Model.Base Model.Mask.
From Coq Require Import Lia ZifyN ZifyNat ZifyBool Sorted.

Local Ltac Zify.zify_post_hook ::= Z.div_mod_to_equations.

Definition word_ok (x : N) : Prop := (x < w64)%N.
Definition m256_ok (b : m256) : Prop := word_ok (b0 b) /\ word_ok (b1 b) /\ word_ok (b2 b) /\ word_ok (b3 b).

(** *** Auxiliary facts *)

Lemma of_nat_eqb : forall i j, N.eqb (N.of_nat i) (N.of_nat j) = Nat.eqb i j.
Proof.
  intros i j. destruct (N.eqb_spec (N.of_nat i) (N.of_nat j)), (Nat.eqb_spec i j); try reflexivity; lia.
Qed.

(** *** Set semantics of the N-based masks *)
Theorem mk_get_set : forall m i j, mk_get (mk_set m i) j = (Nat.eqb i j || mk_get m j)%bool.
Proof.
  intros. unfold mk_get, mk_set. rewrite N.setbit_eqb, of_nat_eqb. reflexivity.
Qed.

Theorem mk_get_clear : forall m i j, mk_get (mk_clear m i) j = (negb (Nat.eqb i j) && mk_get m j)%bool.
Proof.
  intros. unfold mk_get, mk_clear. rewrite N.clearbit_eqb, of_nat_eqb. apply andb_comm.
Qed.

Theorem mk_get_or : forall a b j, mk_get (mk_or a b) j = (mk_get a j || mk_get b j)%bool.
Proof.
  intros. unfold mk_get, mk_or. apply N.lor_spec.
Qed.

Theorem mk_contains_spec : forall a b, mk_contains a b = true <-> (forall j, mk_get b j = true -> mk_get a j = true).
Proof.
  intros a b. unfold mk_contains, mk_get. rewrite N.eqb_eq. split.
  - intros H j Hb. rewrite <- H in Hb. rewrite N.land_spec in Hb.
    apply andb_true_iff in Hb. tauto.
  - intros H. apply N.bits_inj. intro n. rewrite N.land_spec.
    specialize (H (N.to_nat n)). rewrite N2Nat.id in H.
    destruct (N.testbit b n).
    + rewrite H by reflexivity. reflexivity.
    + apply andb_false_r.
Qed.

Theorem mk_contains_any_spec : forall a b, mk_contains_any a b = true <-> (exists j, mk_get a j = true /\ mk_get b j = true).
Proof.
  intros a b. unfold mk_contains_any, mk_get. rewrite negb_true_iff, N.eqb_neq. split.
  - intros H. apply N.bit_log2 in H. rewrite N.land_spec in H. apply andb_true_iff in H.
    exists (N.to_nat (N.log2 (N.land a b))). rewrite N2Nat.id. exact H.
  - intros (j & Ha & Hb) H.
    assert (E : N.testbit (N.land a b) (N.of_nat j) = true).
    { rewrite N.land_spec, Ha, Hb. reflexivity. }
    rewrite H, N.bits_0 in E. discriminate.
Qed.

Theorem mk_get_not : forall bits m j, j < bits -> mk_get (mk_not bits m) j = negb (mk_get m j).
Proof.
  intros bits m j H. unfold mk_get, mk_not. rewrite N.lxor_spec.
  rewrite N.ones_spec_low by lia. apply xorb_true_r.
Qed.

Lemma mk_get_fold_set : forall l m j,
  mk_get (fold_left mk_set l m) j = true <-> (mk_get m j = true \/ In j l).
Proof.
  induction l as [|x l IH]; intros m j; simpl.
  - tauto.
  - rewrite IH, mk_get_set, orb_true_iff, Nat.eqb_eq. tauto.
Qed.

Theorem mk_get_of_list : forall l j, mk_get (mk_of_list l) j = true <-> In j l.
Proof.
  intros l j. unfold mk_of_list. rewrite mk_get_fold_set.
  unfold mk_get. rewrite N.bits_0. split; [intros [H|H]; [discriminate|exact H] | tauto].
Qed.

Lemma mk_to_list_from_spec : forall m n i j,
  In j (mk_to_list_from m i n) <-> (i <= j < i + n /\ mk_get m j = true).
Proof.
  intros m n. induction n as [|n IH]; intros i j; cbn [mk_to_list_from].
  - simpl. split; [tauto | lia].
  - destruct (mk_get m i) eqn:E.
    + simpl. rewrite IH. split.
      * intros [->|H]; [split; [lia|exact E] | split; [lia|tauto]].
      * intros (H1 & H2). destruct (Nat.eq_dec i j); [left; assumption | right; split; [lia|assumption]].
    + rewrite IH. split.
      * intros (H1 & H2). split; [lia|assumption].
      * intros (H1 & H2). split; [|assumption].
        destruct (Nat.eq_dec i j); [subst; congruence | lia].
Qed.

Theorem mk_to_list_spec : forall m n j, In j (mk_to_list m n) <-> (j < n /\ mk_get m j = true).
Proof.
  intros. unfold mk_to_list. rewrite mk_to_list_from_spec. split; intros (H1 & H2); (split; [lia|assumption]).
Qed.

Lemma mk_to_list_from_ssorted : forall m n i, StronglySorted lt (mk_to_list_from m i n).
Proof.
  intros m n. induction n as [|n IH]; intros i; cbn [mk_to_list_from].
  - constructor.
  - destruct (mk_get m i); [|apply IH].
    constructor; [apply IH|].
    apply Forall_forall. intros x Hx. apply mk_to_list_from_spec in Hx. lia.
Qed.

Lemma ssorted_lt_nodup : forall l, StronglySorted lt l -> NoDup l.
Proof.
  induction 1 as [|a l Hs IH Hf]; constructor; [|exact IH].
  intro Hin. rewrite Forall_forall in Hf. apply Hf in Hin. lia.
Qed.

Lemma ssorted_lt_nth : forall l, StronglySorted lt l ->
  forall i j x y, i < j -> nth_error l i = Some x -> nth_error l j = Some y -> x < y.
Proof.
  induction 1 as [|a l Hs IH Hf]; intros i j x y Hij Hi Hj.
  - destruct i; discriminate.
  - destruct j as [|j]; [lia|]. simpl in Hj.
    destruct i as [|i]; simpl in Hi.
    + injection Hi as <-. rewrite Forall_forall in Hf. apply Hf.
      eapply nth_error_In; eassumption.
    + eapply IH; [|eassumption|eassumption]. lia.
Qed.

Theorem mk_to_list_sorted : forall m n, NoDup (mk_to_list m n) /\
  (forall i j x y, i < j -> nth_error (mk_to_list m n) i = Some x -> nth_error (mk_to_list m n) j = Some y -> x < y).
Proof.
  intros m n. unfold mk_to_list. split.
  - apply ssorted_lt_nodup, mk_to_list_from_ssorted.
  - apply ssorted_lt_nth, mk_to_list_from_ssorted.
Qed.

Theorem mk_eq_ext : forall a b, (forall j, mk_get a j = mk_get b j) -> a = b.
Proof.
  intros a b H. apply N.bits_inj. intro n. specialize (H (N.to_nat n)).
  unfold mk_get in H. rewrite N2Nat.id in H. exact H.
Qed.

(** *** Word-level auxiliary facts *)

Lemma w64_pow : w64 = (2 ^ 64)%N.
Proof. reflexivity. Qed.

Lemma word_ok_bits : forall x, word_ok x <-> (forall i, (64 <= i)%N -> N.testbit x i = false).
Proof.
  intro x. unfold word_ok. rewrite w64_pow. split.
  - intros H i Hi. destruct (N.eq_dec x 0) as [->|Hx]; [apply N.bits_0|].
    apply N.bits_above_log2. apply N.log2_lt_pow2 in H; lia.
  - intros H.
    assert (E : x = (x mod 2 ^ 64)%N).
    { apply N.bits_inj. intro i. destruct (N.ltb_spec i 64).
      - rewrite N.mod_pow2_bits_low by assumption. reflexivity.
      - rewrite N.mod_pow2_bits_high by assumption. apply H. assumption. }
    rewrite E. apply N.mod_lt. apply N.pow_nonzero. discriminate.
Qed.

Lemma word_high_bits : forall x i, word_ok x -> (64 <= i)%N -> N.testbit x i = false.
Proof. intros x i H. apply word_ok_bits. exact H. Qed.
Arguments word_high_bits [x i] _ _.

Lemma wnot_spec : forall x i,
  N.testbit (wnot x) i = if (i <? 64)%N then negb (N.testbit x i) else N.testbit x i.
Proof.
  intros x i. unfold wnot. rewrite N.lxor_spec. destruct (N.ltb_spec i 64).
  - rewrite N.ones_spec_low by lia. apply xorb_true_r.
  - rewrite N.ones_spec_high by lia. apply xorb_false_r.
Qed.

Lemma word_ok_lor : forall x y, word_ok x -> word_ok y -> word_ok (N.lor x y).
Proof.
  intros x y Hx Hy. apply word_ok_bits. intros i Hi.
  rewrite N.lor_spec, (word_high_bits Hx Hi), (word_high_bits Hy Hi). reflexivity.
Qed.

Lemma word_ok_land_l : forall x y, word_ok x -> word_ok (N.land x y).
Proof.
  intros x y Hx. apply word_ok_bits. intros i Hi.
  rewrite N.land_spec, (word_high_bits Hx Hi). reflexivity.
Qed.

Lemma word_ok_wnot : forall x, word_ok x -> word_ok (wnot x).
Proof.
  intros x Hx. apply word_ok_bits. intros i Hi. rewrite wnot_spec.
  destruct (N.ltb_spec i 64); [lia|]. apply (word_high_bits Hx Hi).
Qed.

Lemma word_ok_pow2 : forall k, (k < 64)%N -> word_ok (2 ^ k).
Proof.
  intros k Hk. apply word_ok_bits. intros i Hi. apply N.pow2_bits_false. lia.
Qed.

Lemma land_pow2_eqb : forall x k, N.eqb (N.land x (2 ^ k)) (2 ^ k) = N.testbit x k.
Proof.
  intros x k. destruct (N.testbit x k) eqn:E.
  - apply N.eqb_eq. apply N.bits_inj. intro m. rewrite N.land_spec, N.pow2_bits_eqb.
    destruct (N.eqb_spec k m) as [->|Hn]; [rewrite E; reflexivity | apply andb_false_r].
  - apply N.eqb_neq. intro H.
    assert (F : N.testbit (N.land x (2 ^ k)) k = N.testbit (2 ^ k) k) by (rewrite H; reflexivity).
    rewrite N.land_spec, E, N.pow2_bits_true in F. discriminate.
Qed.

Lemma shiftr6 : forall n, N.shiftr n 6 = (n / 64)%N.
Proof. intro n. rewrite N.shiftr_div_pow2. reflexivity. Qed.

Lemma land63 : forall n, N.land n 63 = (n mod 64)%N.
Proof. intro n. change 63%N with (N.ones 6). rewrite N.land_ones. reflexivity. Qed.

Lemma word_ok_word : forall b k, m256_ok b -> word_ok (m256_word b k).
Proof.
  intros b k (H0 & H1 & H2 & H3).
  destruct k as [|[[p|p|]|[p|p|]|]]; assumption.
Qed.

Lemma setword_ok : forall b idx x, m256_ok b -> word_ok x -> m256_ok (m256_setword b idx x).
Proof.
  intros b idx x (H0 & H1 & H2 & H3) Hx.
  destruct idx as [|[[p|p|]|[p|p|]|]]; unfold m256_ok; cbn [m256_setword b0 b1 b2 b3]; tauto.
Qed.

Lemma word_setword : forall b idx x k, (idx < 4)%N -> (k < 4)%N ->
  m256_word (m256_setword b idx x) k = if (k =? idx)%N then x else m256_word b k.
Proof.
  intros b idx x k Hi Hk.
  assert (Ei : (idx = 0 \/ idx = 1 \/ idx = 2 \/ idx = 3)%N) by lia.
  assert (Ek : (k = 0 \/ k = 1 \/ k = 2 \/ k = 3)%N) by lia.
  destruct Ei as [->|[->|[->| ->]]]; destruct Ek as [->|[->|[->| ->]]]; reflexivity.
Qed.

(** The bits of the abstraction, word by word. *)
Lemma m256_to_N_testbit : forall b j, m256_ok b ->
  N.testbit (m256_to_N b) j =
  if (j <? 256)%N then N.testbit (m256_word b (j / 64)) (j mod 64) else false.
Proof.
  intros b j (H0 & H1 & H2 & H3).
  unfold m256_to_N. rewrite !N.lor_spec.
  destruct (N.ltb_spec j 256) as [Hj|Hj].
  - assert (Hc : (j / 64 = 0 \/ j / 64 = 1 \/ j / 64 = 2 \/ j / 64 = 3)%N) by lia.
    destruct Hc as [Hc|[Hc|[Hc|Hc]]]; rewrite Hc; cbn [m256_word].
    + rewrite (N.shiftl_spec_low (b1 b) 64 j), (N.shiftl_spec_low (b2 b) 128 j),
        (N.shiftl_spec_low (b3 b) 192 j) by lia.
      rewrite !orb_false_r. f_equal. lia.
    + rewrite (word_high_bits (i:=j) H0) by lia.
      rewrite (N.shiftl_spec_high' (b1 b) 64 j) by lia.
      rewrite (N.shiftl_spec_low (b2 b) 128 j), (N.shiftl_spec_low (b3 b) 192 j) by lia.
      rewrite !orb_false_r. cbn [orb]. f_equal. lia.
    + rewrite (word_high_bits (i:=j) H0) by lia.
      rewrite (N.shiftl_spec_high' (b1 b) 64 j) by lia.
      rewrite (word_high_bits (i:=j - 64) H1) by lia.
      rewrite (N.shiftl_spec_high' (b2 b) 128 j) by lia.
      rewrite (N.shiftl_spec_low (b3 b) 192 j) by lia.
      rewrite !orb_false_r. cbn [orb]. f_equal. lia.
    + rewrite (word_high_bits (i:=j) H0) by lia.
      rewrite (N.shiftl_spec_high' (b1 b) 64 j) by lia.
      rewrite (word_high_bits (i:=j - 64) H1) by lia.
      rewrite (N.shiftl_spec_high' (b2 b) 128 j) by lia.
      rewrite (word_high_bits (i:=j - 128) H2) by lia.
      rewrite (N.shiftl_spec_high' (b3 b) 192 j) by lia.
      cbn [orb]. f_equal. lia.
  - rewrite (word_high_bits (i:=j) H0) by lia.
    rewrite (N.shiftl_spec_high' (b1 b) 64 j) by lia.
    rewrite (word_high_bits (i:=j - 64) H1) by lia.
    rewrite (N.shiftl_spec_high' (b2 b) 128 j) by lia.
    rewrite (word_high_bits (i:=j - 128) H2) by lia.
    rewrite (N.shiftl_spec_high' (b3 b) 192 j) by lia.
    rewrite (word_high_bits (i:=j - 192) H3) by lia.
    reflexivity.
Qed.

Lemma m256_get_word : forall b n,
  m256_get b n = N.testbit (m256_word b (n / 64)) (n mod 64).
Proof.
  intros b n. unfold m256_get. cbv zeta.
  rewrite shiftr6, land63, N.shiftl_1_l. apply land_pow2_eqb.
Qed.

(** *** bitMask256 refines N-masks (all 256 bits, i.e. every word and its boundaries) *)
Theorem m256_get_refines : forall b i, m256_ok b -> i < 256 ->
  m256_get b (N.of_nat i) = mk_get (m256_to_N b) i.
Proof.
  intros b i Hb Hi. rewrite m256_get_word. unfold mk_get.
  rewrite m256_to_N_testbit by assumption.
  destruct (N.ltb_spec (N.of_nat i) 256); [reflexivity | lia].
Qed.

Theorem m256_set_refines : forall b i, m256_ok b -> i < 256 ->
  m256_ok (m256_set b (N.of_nat i)) /\ m256_to_N (m256_set b (N.of_nat i)) = mk_set (m256_to_N b) i.
Proof.
  intros b i Hb Hi. set (n := N.of_nat i). assert (Hn : (n < 256)%N) by lia.
  assert (Hok : m256_ok (m256_set b n)).
  { unfold m256_set. cbv zeta. apply setword_ok; [assumption|].
    apply word_ok_lor; [apply word_ok_word; assumption|].
    rewrite land63, N.shiftl_1_l. apply word_ok_pow2. lia. }
  split; [exact Hok|].
  apply N.bits_inj. intro j. unfold mk_set. fold n. rewrite N.setbit_eqb.
  rewrite !m256_to_N_testbit by assumption.
  destruct (N.ltb_spec j 256) as [Hj|Hj].
  - unfold m256_set. cbv zeta. rewrite shiftr6, land63, N.shiftl_1_l.
    rewrite word_setword by lia.
    destruct (N.eqb_spec (j / 64) (n / 64)) as [E|E].
    + rewrite N.lor_spec, N.pow2_bits_eqb, E.
      replace (n mod 64 =? j mod 64)%N with (n =? j)%N
        by (destruct (N.eqb_spec n j), (N.eqb_spec (n mod 64) (j mod 64)); try reflexivity; lia).
      apply orb_comm.
    + replace (n =? j)%N with false by (destruct (N.eqb_spec n j); [subst; congruence | reflexivity]).
      reflexivity.
  - replace (n =? j)%N with false by (destruct (N.eqb_spec n j); [lia | reflexivity]).
    reflexivity.
Qed.

Theorem m256_clear_refines : forall b i, m256_ok b -> i < 256 ->
  m256_ok (m256_clear b (N.of_nat i)) /\ m256_to_N (m256_clear b (N.of_nat i)) = mk_clear (m256_to_N b) i.
Proof.
  intros b i Hb Hi. set (n := N.of_nat i). assert (Hn : (n < 256)%N) by lia.
  assert (Hok : m256_ok (m256_clear b n)).
  { unfold m256_clear. cbv zeta. apply setword_ok; [assumption|].
    apply word_ok_land_l. apply word_ok_word; assumption. }
  split; [exact Hok|].
  apply N.bits_inj. intro j. unfold mk_clear. fold n. rewrite N.clearbit_eqb.
  rewrite !m256_to_N_testbit by assumption.
  destruct (N.ltb_spec j 256) as [Hj|Hj]; [|reflexivity].
  unfold m256_clear. cbv zeta. rewrite shiftr6, land63, N.shiftl_1_l.
  rewrite word_setword by lia.
  destruct (N.eqb_spec (j / 64) (n / 64)) as [E|E].
  - rewrite N.land_spec, wnot_spec, N.pow2_bits_eqb, E.
    destruct (N.ltb_spec (j mod 64) 64); [|lia].
    replace (n mod 64 =? j mod 64)%N with (n =? j)%N
      by (destruct (N.eqb_spec n j), (N.eqb_spec (n mod 64) (j mod 64)); try reflexivity; lia).
    reflexivity.
  - replace (n =? j)%N with false by (destruct (N.eqb_spec n j); [subst; congruence | reflexivity]).
    cbn [negb]. rewrite andb_true_r. reflexivity.
Qed.

Lemma word_or : forall a b k,
  m256_word (m256_or a b) k = N.lor (m256_word a k) (m256_word b k).
Proof. intros a b k. destruct k as [|[[p|p|]|[p|p|]|]]; reflexivity. Qed.

Theorem m256_or_refines : forall a b, m256_ok a -> m256_ok b ->
  m256_ok (m256_or a b) /\ m256_to_N (m256_or a b) = mk_or (m256_to_N a) (m256_to_N b).
Proof.
  intros a b Ha Hb.
  assert (Hok : m256_ok (m256_or a b)).
  { destruct Ha as (A0 & A1 & A2 & A3), Hb as (B0 & B1 & B2 & B3).
    unfold m256_ok, m256_or; cbn [b0 b1 b2 b3]. repeat split; apply word_ok_lor; assumption. }
  split; [exact Hok|].
  apply N.bits_inj. intro j. unfold mk_or. rewrite N.lor_spec.
  rewrite !m256_to_N_testbit by assumption.
  destruct (j <? 256)%N; [|reflexivity].
  rewrite word_or, N.lor_spec. reflexivity.
Qed.

Lemma word_not : forall b k, m256_word (m256_not b) k = wnot (m256_word b k).
Proof. intros b k. destruct k as [|[[p|p|]|[p|p|]|]]; reflexivity. Qed.

Theorem m256_not_refines : forall b, m256_ok b ->
  m256_ok (m256_not b) /\ m256_to_N (m256_not b) = mk_not 256 (m256_to_N b).
Proof.
  intros b Hb.
  assert (Hok : m256_ok (m256_not b)).
  { destruct Hb as (B0 & B1 & B2 & B3).
    unfold m256_ok, m256_not; cbn [b0 b1 b2 b3]. repeat split; apply word_ok_wnot; assumption. }
  split; [exact Hok|].
  apply N.bits_inj. intro j. unfold mk_not. change (N.of_nat 256) with 256%N.
  rewrite N.lxor_spec. rewrite !m256_to_N_testbit by assumption.
  destruct (N.ltb_spec j 256) as [Hj|Hj].
  - rewrite N.ones_spec_low by assumption. rewrite word_not, wnot_spec.
    destruct (N.ltb_spec (j mod 64) 64); [|lia].
    rewrite xorb_true_r. reflexivity.
  - rewrite N.ones_spec_high by assumption. reflexivity.
Qed.

(** Word-wise intersection (not part of the Go API; [Contains]/[ContainsAny] compute it inline). *)
Definition m256_and (a b : m256) : m256 :=
  {| b0 := N.land (b0 a) (b0 b); b1 := N.land (b1 a) (b1 b);
     b2 := N.land (b2 a) (b2 b); b3 := N.land (b3 a) (b3 b) |}.

Lemma word_and : forall a b k,
  m256_word (m256_and a b) k = N.land (m256_word a k) (m256_word b k).
Proof. intros a b k. destruct k as [|[[p|p|]|[p|p|]|]]; reflexivity. Qed.

Lemma m256_and_refines : forall a b, m256_ok a -> m256_ok b ->
  m256_ok (m256_and a b) /\ m256_to_N (m256_and a b) = N.land (m256_to_N a) (m256_to_N b).
Proof.
  intros a b Ha Hb.
  assert (Hok : m256_ok (m256_and a b)).
  { destruct Ha as (A0 & A1 & A2 & A3).
    unfold m256_ok, m256_and; cbn [b0 b1 b2 b3]. repeat split; apply word_ok_land_l; assumption. }
  split; [exact Hok|].
  apply N.bits_inj. intro j. rewrite N.land_spec.
  rewrite !m256_to_N_testbit by assumption.
  destruct (j <? 256)%N; [|reflexivity].
  rewrite word_and, N.land_spec. reflexivity.
Qed.

Lemma m256_to_N_word_inj : forall a b, m256_ok a -> m256_ok b -> m256_to_N a = m256_to_N b ->
  forall k, (k < 4)%N -> m256_word a k = m256_word b k.
Proof.
  intros a b Ha Hb H k Hk. apply N.bits_inj. intro i.
  destruct (N.ltb_spec i 64) as [Hi|Hi].
  - pose proof (m256_to_N_testbit a (64 * k + i)%N Ha) as E1.
    pose proof (m256_to_N_testbit b (64 * k + i)%N Hb) as E2.
    rewrite H in E1. rewrite E1 in E2. clear E1.
    destruct (N.ltb_spec (64 * k + i)%N 256%N); [|lia].
    replace ((64 * k + i) / 64)%N with k in E2 by lia.
    replace ((64 * k + i) mod 64)%N with i in E2 by lia.
    exact E2.
  - rewrite (word_high_bits (word_ok_word a k Ha) Hi), (word_high_bits (word_ok_word b k Hb) Hi).
    reflexivity.
Qed.

Lemma m256_to_N_inj : forall a b, m256_ok a -> m256_ok b -> m256_to_N a = m256_to_N b -> a = b.
Proof.
  intros a b Ha Hb H.
  pose proof (m256_to_N_word_inj a b Ha Hb H) as Hw.
  pose proof (Hw 0%N eq_refl) as E0. pose proof (Hw 1%N eq_refl) as E1.
  pose proof (Hw 2%N eq_refl) as E2. pose proof (Hw 3%N eq_refl) as E3.
  destruct a as [a0 a1 a2 a3], b as [c0 c1 c2 c3]. cbn [m256_word b0 b1 b2 b3] in E0, E1, E2, E3. subst. reflexivity.
Qed.

Theorem m256_equals_refines : forall a b, m256_ok a -> m256_ok b ->
  m256_equals a b = N.eqb (m256_to_N a) (m256_to_N b).
Proof.
  intros a b Ha Hb. apply eq_true_iff_eq. unfold m256_equals.
  rewrite !andb_true_iff, !N.eqb_eq. split.
  - intros (((E0 & E1) & E2) & E3). destruct a as [a0 a1 a2 a3], b as [c0 c1 c2 c3]. cbn [b0 b1 b2 b3] in E0, E1, E2, E3.
    subst. reflexivity.
  - intros H. apply m256_to_N_inj in H; try assumption. subst. repeat split.
Qed.

Theorem m256_contains_refines : forall a b, m256_ok a -> m256_ok b ->
  m256_contains a b = mk_contains (m256_to_N a) (m256_to_N b).
Proof.
  intros a b Ha Hb. destruct (m256_and_refines a b Ha Hb) as (Hok & E).
  change (m256_contains a b) with (m256_equals (m256_and a b) b).
  rewrite m256_equals_refines by assumption. rewrite E. reflexivity.
Qed.

Theorem m256_zero_ok : m256_ok m256_zero /\ m256_to_N m256_zero = 0%N.
Proof.
  split; [|reflexivity]. unfold m256_ok, word_ok, m256_zero; cbn [b0 b1 b2 b3].
  repeat split; reflexivity.
Qed.

Theorem m256_is_zero_refines : forall b, m256_ok b -> m256_is_zero b = mk_is_zero (m256_to_N b).
Proof.
  intros b Hb. change (m256_is_zero b) with (m256_equals b m256_zero).
  rewrite m256_equals_refines by (assumption || apply m256_zero_ok). reflexivity.
Qed.

Theorem m256_contains_any_refines : forall a b, m256_ok a -> m256_ok b ->
  m256_contains_any a b = mk_contains_any (m256_to_N a) (m256_to_N b).
Proof.
  intros a b Ha Hb. destruct (m256_and_refines a b Ha Hb) as (Hok & E).
  unfold mk_contains_any. rewrite <- E.
  change (N.eqb (m256_to_N (m256_and a b)) 0) with (mk_is_zero (m256_to_N (m256_and a b))).
  rewrite <- m256_is_zero_refines by assumption.
  unfold m256_contains_any, m256_is_zero, m256_and; cbn [b0 b1 b2 b3].
  rewrite !negb_andb. reflexivity.
Qed.

(** *** toTypes *)

Lemma mk_to_list_from_app : forall m a b i,
  mk_to_list_from m i (a + b) = mk_to_list_from m i a ++ mk_to_list_from m (i + a) b.
Proof.
  intros m a. induction a as [|a IH]; intros b i.
  - rewrite Nat.add_0_r. reflexivity.
  - cbn [Nat.add mk_to_list_from]. rewrite IH. rewrite Nat.add_succ_r. cbn [Nat.add].
    destruct (mk_get m i); reflexivity.
Qed.

Lemma mk_to_list_from_nil : forall m n i,
  (forall j, i <= j < i + n -> mk_get m j = false) -> mk_to_list_from m i n = [].
Proof.
  intros m n. induction n as [|n IH]; intros i H; cbn [mk_to_list_from]; [reflexivity|].
  rewrite H by lia. apply IH. intros j Hj. apply H. lia.
Qed.

Lemma mk_to_list_from_trunc : forall m total,
  (forall j, mk_get m j = true -> j < total) ->
  forall n i, mk_to_list_from m i (Nat.min (total - i) n) = mk_to_list_from m i n.
Proof.
  intros m total H n. induction n as [|n IH]; intros i.
  - rewrite Nat.min_0_r. reflexivity.
  - destruct (le_lt_dec total i) as [Hle|Hlt].
    + replace (total - i) with 0 by lia. cbn [Nat.min]. change (mk_to_list_from m i 0) with (@nil nat).
      symmetry. apply mk_to_list_from_nil. intros j Hj.
      destruct (mk_get m j) eqn:E; [|reflexivity]. apply H in E. lia.
    + replace (total - i) with (S (total - S i)) by lia.
      rewrite <- Nat.succ_min_distr. cbn [mk_to_list_from]. rewrite IH. reflexivity.
Qed.

Lemma mk_to_list_from_256 : forall m,
  mk_to_list_from m 0 256 =
  mk_to_list_from m 0 64 ++ mk_to_list_from m 64 64 ++ mk_to_list_from m 128 64 ++ mk_to_list_from m 192 64.
Proof.
  intro m. change 256 with (64 + (64 + (64 + 64))).
  rewrite !mk_to_list_from_app. reflexivity.
Qed.

Lemma m256_scan_spec : forall b base, m256_ok b -> forall cnt j, base + j + cnt <= 256 ->
  m256_scan b base j cnt = mk_to_list_from (m256_to_N b) (base + j) cnt.
Proof.
  intros b base Hb cnt. induction cnt as [|cnt IH]; intros j Hj; cbn [m256_scan mk_to_list_from].
  - reflexivity.
  - rewrite m256_get_refines by (assumption || lia). rewrite IH by lia.
    rewrite Nat.add_succ_r. reflexivity.
Qed.

Lemma word_zero_bits : forall b k, m256_ok b -> k < 4 -> m256_word b (N.of_nat k) = 0%N ->
  forall j, 64 * k <= j < 64 * k + 64 -> mk_get (m256_to_N b) j = false.
Proof.
  intros b k Hb Hk Hz j Hj. unfold mk_get. rewrite m256_to_N_testbit by assumption.
  destruct (N.ltb_spec (N.of_nat j) 256); [|reflexivity].
  replace (N.of_nat j / 64)%N with (N.of_nat k) by lia.
  rewrite Hz. apply N.bits_0.
Qed.

Lemma m256_to_types_piece : forall b total i, m256_ok b -> i < 4 ->
  (forall j, mk_get (m256_to_N b) j = true -> j < total) ->
  (if N.eqb (m256_word b (N.of_nat i)) 0 then []
   else m256_scan b (64 * i) 0 (Nat.min (total - 64 * i) 64)) =
  mk_to_list_from (m256_to_N b) (64 * i) 64.
Proof.
  intros b total i Hb Hi H.
  rewrite <- (mk_to_list_from_trunc (m256_to_N b) total H 64 (64 * i)).
  destruct (N.eqb_spec (m256_word b (N.of_nat i)) 0) as [Hz|Hz].
  - symmetry. apply mk_to_list_from_nil. intros j Hj.
    apply (word_zero_bits b i Hb Hi Hz). lia.
  - rewrite m256_scan_spec by (assumption || lia). rewrite Nat.add_0_r. reflexivity.
Qed.

(** toTypes (as repaired): for every registered count up to and including 256 and every mask whose
    bits are all below that count, the result is the ascending list of set bits. *)
Theorem m256_to_types_spec : forall b total, m256_ok b -> total <= 256 ->
  (forall j, mk_get (m256_to_N b) j = true -> j < total) ->
  m256_to_types b total = mk_to_list (m256_to_N b) total.
Proof.
  intros b total Hb Ht H. unfold m256_to_types. cbn [flat_map].
  rewrite (m256_to_types_piece b total 0 Hb), (m256_to_types_piece b total 1 Hb),
    (m256_to_types_piece b total 2 Hb), (m256_to_types_piece b total 3 Hb) by (assumption || lia).
  rewrite app_nil_r. unfold mk_to_list.
  transitivity (mk_to_list_from (m256_to_N b) 0 256).
  - rewrite mk_to_list_from_256. reflexivity.
  - rewrite <- (mk_to_list_from_trunc (m256_to_N b) total H 256 0). f_equal. lia.
Qed.

(** *** bitMask64 refines N-masks below 64 bits *)

Lemma m64_bit : forall n, (n < 64)%N -> (N.shiftl 1 n mod w64)%N = (2 ^ n)%N.
Proof.
  intros n Hn. rewrite N.shiftl_1_l. apply N.mod_small. rewrite w64_pow.
  apply N.pow_lt_mono_r; lia.
Qed.

Theorem m64_get_refines : forall b i, word_ok b -> i < 64 -> m64_get b (N.of_nat i) = mk_get b i.
Proof.
  intros b i Hb Hi. unfold m64_get, mk_get. cbv zeta. rewrite m64_bit by lia. apply land_pow2_eqb.
Qed.

Theorem m64_set_refines : forall b i, word_ok b -> i < 64 ->
  word_ok (m64_set b (N.of_nat i)) /\ m64_set b (N.of_nat i) = mk_set b i.
Proof.
  intros b i Hb Hi. unfold m64_set, mk_set. rewrite m64_bit by lia. split.
  - apply word_ok_lor; [assumption|]. apply word_ok_pow2. lia.
  - apply N.bits_inj. intro j. rewrite N.lor_spec, N.setbit_eqb, N.pow2_bits_eqb. apply orb_comm.
Qed.

Theorem m64_clear_refines : forall b i, word_ok b -> i < 64 ->
  word_ok (m64_clear b (N.of_nat i)) /\ m64_clear b (N.of_nat i) = mk_clear b i.
Proof.
  intros b i Hb Hi. unfold m64_clear, mk_clear. rewrite m64_bit by lia. split.
  - apply word_ok_land_l. assumption.
  - apply N.bits_inj. intro j. rewrite N.land_spec, N.clearbit_eqb, wnot_spec, N.pow2_bits_eqb.
    destruct (N.ltb_spec j 64) as [Hj|Hj]; [reflexivity|].
    rewrite (word_high_bits Hb Hj). reflexivity.
Qed.

Theorem m64_not_refines : forall b, word_ok b -> word_ok (m64_not b) /\ m64_not b = mk_not 64 b.
Proof.
  intros b Hb. split; [apply word_ok_wnot; assumption | reflexivity].
Qed.

Lemma m64_scan_spec : forall b, word_ok b -> forall cnt j, j + cnt <= 64 ->
  m64_scan b j cnt = mk_to_list_from b j cnt.
Proof.
  intros b Hb cnt. induction cnt as [|cnt IH]; intros j Hj; cbn [m64_scan mk_to_list_from].
  - reflexivity.
  - rewrite m64_get_refines by (assumption || lia). rewrite IH by lia. reflexivity.
Qed.

Theorem m64_to_types_spec : forall b total, word_ok b -> total <= 64 ->
  (forall j, mk_get b j = true -> j < total) ->
  m64_to_types b total = mk_to_list b total.
Proof.
  intros b total Hb Ht H. unfold m64_to_types, mk_to_list.
  destruct (N.eqb_spec b 0) as [->|Hz].
  - symmetry. apply mk_to_list_from_nil. intros j _. unfold mk_get. apply N.bits_0.
  - apply m64_scan_spec; [assumption | lia].
Qed.

(** Both widths agree on masks that only use bits below 64 (tiny build = default build there). *)
Theorem m64_m256_agree : forall x, word_ok x ->
  m256_to_N {| b0 := x; b1 := 0; b2 := 0; b3 := 0 |} = x.
Proof.
  intros x _. unfold m256_to_N; cbn [b0 b1 b2 b3].
  rewrite !N.shiftl_0_l, !N.lor_0_r. reflexivity.
Qed.

(** *** Assumption audit: every theorem is closed under the global context *)
