(** * PoolSpec: statements about the entity pool (pool.go) over all histories. Property C02.

    A history is a list of pool operations applied to [pool_new]:
    [PGet] takes an entity, [PRecycle k] recycles the k-th handle ever issued if it is alive
    (this is how World.RemoveEntity uses the pool: only alive handles are recycled),
    [PReset] is entityPool.Reset. The ghost state records the handles issued and recycled
    since the last reset. *)
From Ark Require Import Model.Base Model.Mask Model.Pool.

Inductive pop := PGet | PRecycle (k : nat) | PReset.

Record ghost := { g_pool : pool; g_issued : list ent; g_removed : list ent }.

Definition ghost0 : ghost := {| g_pool := pool_new; g_issued := []; g_removed := [] |}.

Definition ent_in (e : ent) (l : list ent) : bool := existsb (ent_eqb e) l.

Definition gstep (g : ghost) (o : pop) : ghost :=
  match o with
  | PGet =>
      let '(e, p') := pool_get (g_pool g) in
      {| g_pool := p'; g_issued := g_issued g ++ [e]; g_removed := g_removed g |}
  | PRecycle k =>
      match nth_error (g_issued g) k with
      | Some e =>
          if pool_alive (g_pool g) e then
            match pool_recycle (g_pool g) e with
            | Some p' => {| g_pool := p'; g_issued := g_issued g; g_removed := g_removed g ++ [e] |}
            | None => g
            end
          else g
      | None => g
      end
  | PReset => {| g_pool := pool_reset (g_pool g); g_issued := []; g_removed := [] |}
  end.

Definition grun (ops : list pop) : ghost := fold_left gstep ops ghost0.

(** No generation counter wrapped around: every slot was recycled fewer than 2^32 - 1 times.
    (Generations are uint32; after 2^32 recycles of one ID a handle value repeats, so this is the
    boundary of the claim.) *)
Definition no_wrap (p : pool) : Prop :=
  forall i id g, 2 <= i -> nth_error (pe p) i = Some (id, g) -> (g < max_u32)%N.

(** The hypothesis under which freshness is claimed: at no point of the history had a slot's
    generation reached 2^32 - 1. *)
Definition never_wrapped (ops : list pop) : Prop :=
  forall n, no_wrap (g_pool (grun (firstn n ops))).
