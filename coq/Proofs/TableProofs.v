(** * TableProofs: the table/column layer (table.go, column.go) as pure functions. Property C11
    (logic half: rows beyond len are zero, fresh rows read as zero, whatever happened before) and
    the row-level facts the storage proofs need (C01). To be filled. *)
From Ark Require Import Model.Base Model.Mask Model.Pool Model.Util Model.World.
From RecordUpdate Require Import RecordSet.
Import RecordSetNotations.

(** Shape: lengths agree with the capacity; [clean]: every cell at a row >= len is zero. *)
Definition tbl_shape (t : table) : Prop :=
  t_len t <= t_cap t /\ length (t_ents t) = t_cap t /\
  length (t_cols t) = length (t_ids t) /\ length (t_kinds t) = length (t_ids t) /\
  Forall (fun c : list Z => length c = t_cap t) (t_cols t).

Definition tbl_clean (t : table) : Prop :=
  Forall (fun c : list Z => forall r, t_len t <= r -> nth r c 0%Z = 0%Z) (t_cols t).

(** Zero-size columns only ever hold zeros. *)
Definition tbl_zs (t : table) : Prop :=
  forall i k c, nth_error (t_kinds t) i = Some k -> ck_zs k = true -> nth_error (t_cols t) i = Some c ->
  forall r, nth r c 0%Z = 0%Z.

Definition tbl_ok (t : table) : Prop := tbl_shape t /\ tbl_clean t /\ tbl_zs t.

(** The cell of column [ci] at row [r], and the entity at row [r]. *)
Definition cell (t : table) (ci r : nat) : Z := nth r (nth ci (t_cols t) []) 0%Z.
Definition row_ent (t : table) (r : nat) : ent := nth r (t_ents t) zero_ent.


(** ** List library *)
From Coq Require Import Lia Permutation.

Ltac bdestr :=
  repeat match goal with
  | |- context [Nat.eqb ?a ?b] => destruct (Nat.eqb_spec a b)
  | |- context [Nat.leb ?a ?b] => destruct (Nat.leb_spec a b)
  | |- context [Nat.ltb ?a ?b] => destruct (Nat.ltb_spec a b)
  end; simpl.

Lemma upd_length : forall A i (x : A) l, length (upd i x l) = length l.
Proof. intros A i x l; revert i; induction l; intros [|i]; simpl; auto. Qed.

Lemma nth_upd : forall A (l : list A) i j (x d : A),
  nth j (upd i x l) d = if (i =? j) && (i <? length l) then x else nth j l d.
Proof.
  induction l; intros i j x d.
  - simpl. rewrite Bool.andb_false_r. destruct i, j; reflexivity.
  - destruct i, j; simpl; auto.
    rewrite IHl. reflexivity.
Qed.

Lemma nth_upd_eq : forall A (l : list A) i (x d : A), i < length l -> nth i (upd i x l) d = x.
Proof. intros. rewrite nth_upd. bdestr; try lia; auto. Qed.

Lemma nth_upd_neq : forall A (l : list A) i j (x d : A), i <> j -> nth j (upd i x l) d = nth j l d.
Proof. intros. rewrite nth_upd. bdestr; try lia; auto. Qed.

Lemma nth_error_upd : forall A (l : list A) i j (x : A),
  nth_error (upd i x l) j =
  if i =? j then match nth_error l j with Some _ => Some x | None => None end else nth_error l j.
Proof.
  induction l; intros i j x.
  - destruct i, j; simpl; try reflexivity; destruct (_ =? _); reflexivity.
  - destruct i, j; simpl; auto.
Qed.

Lemma updf_length : forall A i (f : A -> A) l, length (updf i f l) = length l.
Proof. intros. unfold updf. destruct (nth_error l i); auto using upd_length. Qed.

Lemma nth_error_updf : forall A (l : list A) i j (f : A -> A),
  nth_error (updf i f l) j = if i =? j then option_map f (nth_error l j) else nth_error l j.
Proof.
  intros. unfold updf. destruct (nth_error l i) eqn:E.
  - rewrite nth_error_upd. bdestr; auto. subst. rewrite E. reflexivity.
  - bdestr; auto. subst. rewrite E. reflexivity.
Qed.

Lemma nth_firstn' : forall A (l : list A) n r (d : A), r < n -> nth r (firstn n l) d = nth r l d.
Proof.
  induction l; intros n r d H; destruct n, r; simpl; auto; try lia.
  apply IHl. lia.
Qed.

Lemma resize_length : forall A c n (d : A) l, n <= length l -> n <= c -> length (resize c n d l) = c.
Proof.
  intros. unfold resize. rewrite app_length, firstn_length_le, repeat_length by assumption. lia.
Qed.

Lemma nth_resize : forall A c n (d : A) l r, n <= length l ->
  nth r (resize c n d l) d = if r <? n then nth r l d else d.
Proof.
  intros. unfold resize. bdestr.
  - rewrite app_nth1 by (rewrite firstn_length_le; lia). apply nth_firstn'. assumption.
  - rewrite app_nth2 by (rewrite firstn_length_le; lia). apply nth_repeat.
Qed.

Lemma copy_into_length : forall A (src dst : list A) off, length (copy_into dst off src) = length dst.
Proof.
  induction src; intros; simpl; auto. rewrite IHsrc. apply upd_length.
Qed.

Lemma nth_copy_into : forall A (src dst : list A) off r (d : A),
  nth r (copy_into dst off src) d =
  if (off <=? r) && (r <? off + length src) && (r <? length dst) then nth (r - off) src d else nth r dst d.
Proof.
  induction src; intros dst off r d.
  - simpl. bdestr; auto; lia.
  - simpl copy_into. rewrite IHsrc. rewrite upd_length, nth_upd. simpl length.
    bdestr; try lia; auto.
    + subst. rewrite Nat.sub_diag. reflexivity.
    + replace (r - off) with (S (r - S off)) by lia. reflexivity.
Qed.

Lemma map2_length : forall A B C (f : A -> B -> C) la lb,
  length (map2 f la lb) = Nat.min (length la) (length lb).
Proof. induction la; destruct lb; simpl; auto. Qed.

Lemma nth_error_map2 : forall A B C (f : A -> B -> C) la lb i,
  nth_error (map2 f la lb) i =
  match nth_error la i, nth_error lb i with Some a, Some b => Some (f a b) | _, _ => None end.
Proof.
  induction la; destruct lb, i; simpl; auto.
  destruct (nth_error la i); reflexivity.
Qed.

Lemma Forall_nth_error : forall A (P : A -> Prop) l,
  Forall P l <-> (forall i x, nth_error l i = Some x -> P x).
Proof.
  intros. rewrite Forall_forall. split; intros H.
  - intros i x E. apply H. eapply nth_error_In; eauto.
  - intros x Hin. apply In_nth_error in Hin. destruct Hin as [i E]. eauto.
Qed.

Lemma zero_range_length : forall n col start, length (zero_range col start n) = length col.
Proof. induction n; intros; simpl; auto. rewrite IHn. apply upd_length. Qed.

Lemma nth_zero_range : forall n col start r,
  nth r (zero_range col start n) 0%Z =
  if (start <=? r) && (r <? start + n) then 0%Z else nth r col 0%Z.
Proof.
  induction n; intros col start r.
  - simpl. bdestr; auto; lia.
  - simpl zero_range. rewrite IHn, nth_upd.
    bdestr; try lia; auto.
    subst. apply nth_overflow. assumption.
Qed.

(** ** cap_pow2 *)
Lemma pow2_ge_ge : forall fuel p n, n <= p * Nat.pow 2 fuel -> n <= pow2_ge fuel p n.
Proof.
  induction fuel; intros p n H.
  - simpl in *. lia.
  - simpl pow2_ge. destruct (Nat.leb_spec n p); auto.
    apply IHfuel. rewrite Nat.pow_succ_r' in H. lia.
Qed.

Lemma cap_pow2_ge : forall n, n <= Nat.pow 2 31 -> n <= cap_pow2 n.
Proof.
  intros n H. unfold cap_pow2. apply pow2_ge_ge.
  rewrite (Nat.pow_succ_r' 2 31). lia.
Qed.

(** ** Column-wise characterisation of [tbl_ok] *)
Definition col_ok (cap len : nat) (kinds : list ckind) (i : nat) (c : list Z) : Prop :=
  length c = cap /\ (forall r, len <= r -> nth r c 0%Z = 0%Z) /\
  (forall k, nth_error kinds i = Some k -> ck_zs k = true -> forall r, nth r c 0%Z = 0%Z).

Lemma tbl_ok_iff : forall t, tbl_ok t <->
  (t_len t <= t_cap t /\ length (t_ents t) = t_cap t /\ length (t_cols t) = length (t_ids t) /\
   length (t_kinds t) = length (t_ids t) /\
   forall i c, nth_error (t_cols t) i = Some c -> col_ok (t_cap t) (t_len t) (t_kinds t) i c).
Proof.
  intros t. unfold tbl_ok, tbl_shape, tbl_clean, tbl_zs, col_ok.
  rewrite !Forall_nth_error. split.
  - intros ((H1 & H2 & H3 & H4 & H5) & H6 & H7). repeat split; auto.
    + eapply H5; eauto.
    + eapply H6; eauto.
    + intros k Ek Hz r. eapply H7; eauto.
  - intros (H1 & H2 & H3 & H4 & H5). repeat split; auto.
    + intros i x E. apply (H5 i x E).
    + intros i x E. apply (H5 i x E).
    + intros i k c Ek Hz Ec. destruct (H5 i c Ec) as (_ & _ & H). eauto.
Qed.

Lemma tbl_ok_intro : forall t,
  t_len t <= t_cap t -> length (t_ents t) = t_cap t -> length (t_cols t) = length (t_ids t) ->
  length (t_kinds t) = length (t_ids t) ->
  (forall i c, nth_error (t_cols t) i = Some c -> col_ok (t_cap t) (t_len t) (t_kinds t) i c) ->
  tbl_ok t.
Proof. intros. apply tbl_ok_iff. auto. Qed.

Lemma tbl_ok_elim : forall t, tbl_ok t ->
  t_len t <= t_cap t /\ length (t_ents t) = t_cap t /\ length (t_cols t) = length (t_ids t) /\
  length (t_kinds t) = length (t_ids t) /\
  forall i c, nth_error (t_cols t) i = Some c -> col_ok (t_cap t) (t_len t) (t_kinds t) i c.
Proof. intros. apply tbl_ok_iff. auto. Qed.

Lemma cell_some : forall t ci r c, nth_error (t_cols t) ci = Some c -> cell t ci r = nth r c 0%Z.
Proof. intros t ci r c H. unfold cell. rewrite (nth_error_nth (t_cols t) ci [] H). reflexivity. Qed.

Lemma cell_none : forall t ci r, nth_error (t_cols t) ci = None -> cell t ci r = 0%Z.
Proof.
  intros t ci r H. unfold cell. apply nth_error_None in H. rewrite (nth_overflow (t_cols t) [] H).
  destruct r; reflexivity.
Qed.

Lemma cell_clean : forall t ci r, tbl_ok t -> t_len t <= r -> cell t ci r = 0%Z.
Proof.
  intros t ci r H Hr. apply tbl_ok_elim in H. destruct H as (_ & _ & _ & _ & H5).
  destruct (nth_error (t_cols t) ci) eqn:E.
  - rewrite (cell_some _ _ _ _ E). destruct (H5 _ _ E) as (_ & C & _). auto.
  - apply cell_none. assumption.
Qed.

Theorem new_table_ok : forall aid a kinds cap targets rels,
  length kinds = length (a_comps a) -> tbl_ok (new_table aid a kinds cap targets rels).
Proof.
  intros. apply tbl_ok_intro; unfold new_table; cbn.
  - lia.
  - apply repeat_length.
  - apply map_length.
  - assumption.
  - intros i c E. rewrite nth_error_map in E. destruct (nth_error (a_comps a) i); inversion E; subst.
    split; [apply repeat_length|]. split; intros; apply nth_repeat.
Qed.

(** adjustCapacity (growth and shrinking): rows below len are preserved, the rest is zero. *)
Theorem tbl_adjust_ok : forall t c, tbl_ok t -> t_len t <= c -> tbl_ok (tbl_adjust t c).
Proof.
  intros t c H Hc. apply tbl_ok_elim in H. destruct H as (H1 & H2 & H3 & H4 & H5).
  apply tbl_ok_intro; unfold tbl_adjust; cbn.
  - assumption.
  - apply resize_length; lia.
  - rewrite map_length. assumption.
  - assumption.
  - intros i col E. rewrite nth_error_map in E.
    destruct (nth_error (t_cols t) i) eqn:E0; inversion E; subst.
    destruct (H5 _ _ E0) as (L & C & Z). split; [|split].
    + apply resize_length; lia.
    + intros r Hr. rewrite nth_resize by lia. bdestr; auto; lia.
    + intros k Ek Hz r. rewrite nth_resize by lia. bdestr; eauto.
Qed.

Theorem tbl_adjust_rows : forall t c ci r, tbl_ok t -> t_len t <= c -> r < t_len t ->
  cell (tbl_adjust t c) ci r = cell t ci r /\ row_ent (tbl_adjust t c) r = row_ent t r.
Proof.
  intros t c ci r H Hc Hr. apply tbl_ok_elim in H. destruct H as (H1 & H2 & H3 & H4 & H5). split.
  - destruct (nth_error (t_cols t) ci) eqn:E.
    + rewrite (cell_some t _ _ _ E). destruct (H5 _ _ E) as (L & _).
      erewrite cell_some.
      2:{ unfold tbl_adjust; cbn. rewrite nth_error_map, E. reflexivity. }
      rewrite nth_resize by lia. bdestr; auto; lia.
    + rewrite (cell_none t _ _ E). apply cell_none.
      unfold tbl_adjust; cbn. rewrite nth_error_map, E. reflexivity.
  - unfold row_ent, tbl_adjust; cbn. rewrite nth_resize by lia. bdestr; auto; lia.
Qed.

Theorem tbl_adjust_len : forall t c, t_len (tbl_adjust t c) = t_len t /\ t_cap (tbl_adjust t c) = c.
Proof. intros. split; reflexivity. Qed.

(** ** Growth, alloc, add *)
Lemma set_len_ok : forall t l, tbl_ok t -> t_len t <= l -> l <= t_cap t -> tbl_ok (t <| t_len := l |>).
Proof.
  intros t l H Hl Hc. apply tbl_ok_elim in H. destruct H as (H1 & H2 & H3 & H4 & H5).
  apply tbl_ok_intro; cbn; auto.
  intros i c E. destruct (H5 _ _ E) as (L & C & Z). split; [|split]; auto.
  intros; apply C; lia.
Qed.

Lemma set_ents_ok : forall t es, tbl_ok t -> length es = t_cap t -> tbl_ok (t <| t_ents := es |>).
Proof.
  intros t es H Hl. apply tbl_ok_elim in H. destruct H as (H1 & H2 & H3 & H4 & H5).
  apply tbl_ok_intro; cbn; auto.
Qed.

Lemma tbl_extend_facts : forall t n, tbl_ok t -> t_len t + n <= Nat.pow 2 31 ->
  tbl_ok (tbl_extend t n) /\ t_len (tbl_extend t n) = t_len t /\ t_len t + n <= t_cap (tbl_extend t n) /\
  (forall ci r, r < t_len t -> cell (tbl_extend t n) ci r = cell t ci r) /\
  (forall r, r < t_len t -> row_ent (tbl_extend t n) r = row_ent t r) /\
  t_ids (tbl_extend t n) = t_ids t /\ t_kinds (tbl_extend t n) = t_kinds t /\
  t_arch (tbl_extend t n) = t_arch t /\ t_rels (tbl_extend t n) = t_rels t /\
  t_targets (tbl_extend t n) = t_targets t /\ t_free (tbl_extend t n) = t_free t.
Proof.
  intros t n H Hn. unfold tbl_extend. destruct (Nat.leb_spec (t_len t + n) (t_cap t)).
  - split; [assumption|]. repeat split; auto.
  - pose proof (cap_pow2_ge _ Hn) as Hc.
    set (c := cap_pow2 (t_len t + n)) in *. clearbody c.
    assert (t_len t <= c) by lia.
    split; [apply tbl_adjust_ok; auto|].
    split; [reflexivity|]. split; [exact Hc|].
    split; [intros ci r Hr; apply (proj1 (tbl_adjust_rows t c ci r H H1 Hr))|].
    split; [intros r Hr; apply (proj2 (tbl_adjust_rows t c 0 r H H1 Hr))|].
    repeat split; reflexivity.
Qed.

Lemma tbl_alloc_facts : forall t n, tbl_ok t -> t_len t + n <= Nat.pow 2 31 ->
  tbl_ok (tbl_alloc t n) /\ t_len (tbl_alloc t n) = t_len t + n /\ t_len t + n <= t_cap (tbl_alloc t n) /\
  (forall ci r, t_len t <= r -> cell (tbl_alloc t n) ci r = 0%Z) /\
  (forall ci r, r < t_len t -> cell (tbl_alloc t n) ci r = cell t ci r) /\
  (forall r, r < t_len t -> row_ent (tbl_alloc t n) r = row_ent t r) /\
  t_ids (tbl_alloc t n) = t_ids t /\ t_kinds (tbl_alloc t n) = t_kinds t /\
  t_arch (tbl_alloc t n) = t_arch t /\ t_rels (tbl_alloc t n) = t_rels t /\
  t_targets (tbl_alloc t n) = t_targets t /\ t_free (tbl_alloc t n) = t_free t /\
  length (t_ents (tbl_alloc t n)) = t_cap (tbl_alloc t n) /\
  length (t_cols (tbl_alloc t n)) = length (t_ids t).
Proof.
  intros t n H Hn. unfold tbl_alloc. cbv zeta.
  destruct (tbl_extend_facts t n H Hn) as (O & L & C & Hc & He & F1 & F2 & F3 & F4 & F5 & F6).
  set (t1 := tbl_extend t n) in *. clearbody t1.
  split; [apply set_len_ok; auto; lia|].
  split; [cbn; lia|]. split; [exact C|].
  split; [intros ci r Hr; change (cell t1 ci r = 0%Z); apply cell_clean; auto; lia|].
  split; [exact Hc|]. split; [exact He|].
  apply tbl_ok_elim in O. destruct O as (_ & O2 & O3 & _).
  cbn. repeat split; auto. congruence.
Qed.

(** Add: the new row is the old len, holds the entity, all its cells read as zero (C11: a component
    added without an initial value is zero whatever occupied the storage before); old rows unchanged. *)
Theorem tbl_add_ok : forall t e, tbl_ok t -> t_len t < Nat.pow 2 31 -> tbl_ok (snd (tbl_add t e)).
Proof.
  intros t e H Hn. assert (Hn' : t_len t + 1 <= Nat.pow 2 31) by lia.
  destruct (tbl_alloc_facts t 1 H Hn') as (O & _ & _ & _ & _ & _ & _ & _ & _ & _ & _ & _ & Le & _).
  unfold tbl_add. simpl snd. apply set_ents_ok; auto.
  rewrite upd_length. assumption.
Qed.

Theorem tbl_add_spec : forall t e, tbl_ok t -> t_len t < Nat.pow 2 31 ->
  let '(idx, t') := tbl_add t e in
  idx = t_len t /\ t_len t' = S (t_len t) /\ row_ent t' idx = e /\
  (forall ci, cell t' ci idx = 0%Z) /\
  (forall ci r, r < t_len t -> cell t' ci r = cell t ci r) /\
  (forall r, r < t_len t -> row_ent t' r = row_ent t r) /\
  t_ids t' = t_ids t /\ t_kinds t' = t_kinds t /\ t_arch t' = t_arch t /\ t_rels t' = t_rels t /\
  t_targets t' = t_targets t /\ t_free t' = t_free t.
Proof.
  intros t e H Hn. assert (Hn' : t_len t + 1 <= Nat.pow 2 31) by lia.
  destruct (tbl_alloc_facts t 1 H Hn') as (O & L & C & Z & Hc & He & F1 & F2 & F3 & F4 & F5 & F6 & Le & _).
  unfold tbl_add. cbv zeta. set (t1 := tbl_alloc t 1) in *. clearbody t1.
  split; [reflexivity|]. split; [cbn; lia|].
  split; [unfold row_ent; cbn; apply nth_upd_eq; lia|].
  split; [intros ci; change (cell t1 ci (t_len t) = 0%Z); apply Z; lia|].
  split; [exact Hc|].
  split; [intros r Hr; unfold row_ent; cbn; rewrite nth_upd_neq by lia; apply He; assumption|].
  cbn. repeat split; assumption.
Qed.

(** Alloc n rows: all new rows read as zero. *)
Theorem tbl_alloc_ok : forall t n, tbl_ok t -> t_len t + n <= Nat.pow 2 31 -> tbl_ok (tbl_alloc t n).
Proof. intros t n H Hn. apply (tbl_alloc_facts t n H Hn). Qed.

Theorem tbl_alloc_spec : forall t n, tbl_ok t -> t_len t + n <= Nat.pow 2 31 ->
  t_len (tbl_alloc t n) = t_len t + n /\
  (forall ci r, t_len t <= r -> cell (tbl_alloc t n) ci r = 0%Z) /\
  (forall ci r, r < t_len t -> cell (tbl_alloc t n) ci r = cell t ci r) /\
  (forall r, r < t_len t -> row_ent (tbl_alloc t n) r = row_ent t r).
Proof.
  intros t n H Hn.
  destruct (tbl_alloc_facts t n H Hn) as (O & L & C & Z & Hc & He & _). auto.
Qed.

(** ** Remove *)
Lemma swap_length : forall A (sw : bool) index last (l : list A),
  length (if sw then match nth_error l last with Some v => upd index v l | None => l end else l) = length l.
Proof.
  intros. destruct sw; auto. destruct (nth_error l last); auto using upd_length.
Qed.

Lemma swap_nth : forall A (sw : bool) index last (l : list A) d r,
  last < length l -> index < length l ->
  nth r (if sw then match nth_error l last with Some v => upd index v l | None => l end else l) d =
  if sw && (index =? r) then nth last l d else nth r l d.
Proof.
  intros A sw index last l d r Hl Hi. destruct sw; simpl; auto.
  rewrite (nth_error_nth' l d Hl). rewrite nth_upd. bdestr; auto; lia.
Qed.

Lemma tbl_remove_col : forall t index ci,
  nth_error (t_cols (snd (tbl_remove t index))) ci =
  match nth_error (t_kinds t) ci, nth_error (t_cols t) ci with
  | Some k, Some col =>
      Some (col_zero k (if negb (index =? t_len t - 1)
                        then match nth_error col (t_len t - 1) with Some v => upd index v col | None => col end
                        else col) (t_len t - 1))
  | _, _ => None
  end.
Proof. intros. unfold tbl_remove. cbn. rewrite nth_error_map2. reflexivity. Qed.

Lemma tbl_remove_cell : forall t index ci r, tbl_ok t -> index < t_len t ->
  cell (snd (tbl_remove t index)) ci r =
  if r =? t_len t - 1 then 0%Z else if r =? index then cell t ci (t_len t - 1) else cell t ci r.
Proof.
  intros t index ci r H Hi. apply tbl_ok_elim in H. destruct H as (H1 & H2 & H3 & H4 & H5).
  pose proof (tbl_remove_col t index ci) as E.
  destruct (nth_error (t_cols t) ci) as [col|] eqn:Ec.
  - destruct (nth_error (t_kinds t) ci) as [k|] eqn:Ek.
    2:{ apply nth_error_None in Ek. assert (ci < length (t_cols t)) by (apply nth_error_Some; congruence). lia. }
    rewrite (cell_some _ _ _ _ E). rewrite !(cell_some t _ _ _ Ec).
    destruct (H5 _ _ Ec) as (L & C & Zs).
    unfold col_zero. destruct (ck_zs k) eqn:Hz.
    + rewrite swap_nth by lia. rewrite !(Zs k Ek Hz). bdestr; reflexivity.
    + rewrite nth_upd, swap_length, swap_nth by lia. bdestr; auto; lia.
  - assert (E' : nth_error (t_cols (snd (tbl_remove t index))) ci = None).
    { rewrite E. destruct (nth_error (t_kinds t) ci); reflexivity. }
    rewrite (cell_none _ _ _ E'). rewrite !(cell_none t _ _ Ec). bdestr; reflexivity.
Qed.

(** Remove (swap-remove): row [index] receives the old last row, the vacated last row is zeroed,
    all other rows are unchanged. *)
Theorem tbl_remove_ok : forall t index, tbl_ok t -> index < t_len t -> tbl_ok (snd (tbl_remove t index)).
Proof.
  intros t index H Hi. pose proof (tbl_remove_col t index) as E.
  apply tbl_ok_elim in H. destruct H as (H1 & H2 & H3 & H4 & H5).
  apply tbl_ok_intro.
  - unfold tbl_remove; cbn. lia.
  - unfold tbl_remove; cbn. rewrite swap_length. assumption.
  - unfold tbl_remove; cbn. rewrite map2_length. lia.
  - unfold tbl_remove; cbn. assumption.
  - intros i c Ei. rewrite E in Ei.
    destruct (nth_error (t_kinds t) i) as [k|] eqn:Ek; [|discriminate].
    destruct (nth_error (t_cols t) i) as [col|] eqn:Ec; [|discriminate].
    inversion Ei; subst c; clear Ei.
    destruct (H5 _ _ Ec) as (L & C & Zs).
    change (t_cap (snd (tbl_remove t index))) with (t_cap t).
    change (t_len (snd (tbl_remove t index))) with (t_len t - 1).
    change (t_kinds (snd (tbl_remove t index))) with (t_kinds t).
    unfold col_zero. split; [|split].
    + destruct (ck_zs k); rewrite ?upd_length, swap_length; assumption.
    + intros r Hr. destruct (ck_zs k) eqn:Hz.
      * rewrite swap_nth by lia. rewrite !(Zs k Ek Hz). bdestr; reflexivity.
      * rewrite nth_upd, swap_length, swap_nth by lia. bdestr; auto; try lia; apply C; lia.
    + intros k' Ek' Hz r. rewrite Ek in Ek'. inversion Ek'; subst k'. rewrite Hz.
      rewrite swap_nth by lia. rewrite !(Zs k Ek Hz). bdestr; reflexivity.
Qed.

Theorem tbl_remove_spec : forall t index, tbl_ok t -> index < t_len t ->
  let '(swapped, t') := tbl_remove t index in
  swapped = negb (Nat.eqb index (t_len t - 1)) /\ t_len t' = t_len t - 1 /\
  (forall ci, index < t_len t' -> cell t' ci index = cell t ci (t_len t - 1)) /\
  (index < t_len t' -> row_ent t' index = row_ent t (t_len t - 1)) /\
  (forall ci r, r < t_len t' -> r <> index -> cell t' ci r = cell t ci r) /\
  (forall r, r < t_len t' -> r <> index -> row_ent t' r = row_ent t r) /\
  t_ids t' = t_ids t /\ t_kinds t' = t_kinds t /\ t_arch t' = t_arch t /\ t_rels t' = t_rels t /\
  t_targets t' = t_targets t /\ t_free t' = t_free t /\ t_cap t' = t_cap t.
Proof.
  intros t index H Hi.
  pose proof (fun ci r => tbl_remove_cell t index ci r H Hi) as Hc.
  apply tbl_ok_elim in H. destruct H as (H1 & H2 & H3 & H4 & H5).
  destruct (tbl_remove t index) as [swapped t'] eqn:E.
  assert (Es : swapped = fst (tbl_remove t index)) by (rewrite E; reflexivity).
  assert (Et : t' = snd (tbl_remove t index)) by (rewrite E; reflexivity).
  clear E. subst swapped t'.
  split; [reflexivity|]. split; [reflexivity|].
  change (t_len (snd (tbl_remove t index))) with (t_len t - 1).
  split; [intros ci Hl; rewrite Hc; bdestr; auto; lia|].
  split; [intros Hl; unfold row_ent, tbl_remove; cbn; rewrite swap_nth by lia; bdestr; auto; lia|].
  split; [intros ci r Hl Hne; rewrite Hc; bdestr; auto; lia|].
  split; [intros r Hl Hne; unfold row_ent, tbl_remove; cbn; rewrite swap_nth by lia; bdestr; auto; lia|].
  repeat split; reflexivity.
Qed.

(** ** Reset *)
Lemma col_reset_length : forall k col len, length (col_reset k col len) = length col.
Proof.
  intros. unfold col_reset. destruct (len =? 0); auto.
  destruct (_ && _); [destruct (ck_zs k)|]; auto using zero_range_length, repeat_length.
Qed.

Lemma col_reset_zero : forall k col len,
  (forall r, len <= r -> nth r col 0%Z = 0%Z) ->
  (ck_zs k = true -> forall r, nth r col 0%Z = 0%Z) ->
  forall r, nth r (col_reset k col len) 0%Z = 0%Z.
Proof.
  intros k col len C Z r. unfold col_reset. destruct (Nat.eqb_spec len 0).
  - apply C. lia.
  - destruct (_ && _).
    + destruct (ck_zs k); auto. rewrite nth_zero_range. bdestr; auto. apply C. lia.
    + apply nth_repeat.
Qed.

(** Reset: empty, and every cell up to the capacity is zero (both zeroing strategies). *)
Theorem tbl_reset_ok : forall t, tbl_ok t -> tbl_ok (tbl_reset t).
Proof.
  intros t H. apply tbl_ok_elim in H. destruct H as (H1 & H2 & H3 & H4 & H5).
  apply tbl_ok_intro; unfold tbl_reset; cbn; auto.
  - lia.
  - rewrite map2_length. lia.
  - intros i c E. rewrite nth_error_map2 in E.
    destruct (nth_error (t_kinds t) i) as [k|] eqn:Ek; [|discriminate].
    destruct (nth_error (t_cols t) i) as [col|] eqn:Ec; [|discriminate].
    inversion E; subst c; clear E.
    destruct (H5 _ _ Ec) as (L & C & Zs).
    split; [rewrite col_reset_length; assumption|].
    split; intros; apply col_reset_zero; auto; apply Zs; auto.
Qed.

Theorem tbl_reset_spec : forall t, tbl_ok t ->
  t_len (tbl_reset t) = 0 /\ (forall ci r, cell (tbl_reset t) ci r = 0%Z) /\ t_cap (tbl_reset t) = t_cap t.
Proof.
  intros t H. split; [reflexivity|]. split; [|reflexivity].
  intros ci r. apply cell_clean; [apply tbl_reset_ok; assumption|].
  change (t_len (tbl_reset t)) with 0. lia.
Qed.

(** The two zeroing strategies of column.Reset agree on clean columns (so [isTrivial] and the
    64-row threshold never affect values). *)
Theorem col_reset_paths_agree : forall k1 k2 col len,
  ck_zs k1 = ck_zs k2 -> (forall r, len <= r -> nth r col 0%Z = 0%Z) -> len <= length col ->
  (ck_zs k1 = true -> forall r, nth r col 0%Z = 0%Z) ->
  forall r, nth r (col_reset k1 col len) 0%Z = nth r (col_reset k2 col len) 0%Z.
Proof.
  intros k1 k2 col len Hk C Hl Z r.
  rewrite !col_reset_zero; auto. rewrite <- Hk. assumption.
Qed.

(** ** AddAll *)
Lemma tbl_add_all_col : forall dst src count ci,
  nth_error (t_cols (tbl_add_all dst src count)) ci =
  match nth_error (t_cols (tbl_alloc dst count)) ci, nth_error (t_cols src) ci with
  | Some dc, Some sc => Some (copy_into dc (t_len (tbl_alloc dst count) - count) (firstn count sc))
  | _, _ => None
  end.
Proof. intros. unfold tbl_add_all. cbn. rewrite nth_error_map2. reflexivity. Qed.

Opaque tbl_alloc.

Lemma firstn_length_le' : forall A n (l : list A), length (firstn n l) <= n.
Proof. intros. rewrite firstn_length. lia. Qed.

(** AddAll: the first [count] rows of [src] are appended to [dst]. *)
Theorem tbl_add_all_ok : forall dst src count, tbl_ok dst -> tbl_ok src ->
  t_kinds dst = t_kinds src -> t_ids dst = t_ids src -> count <= t_len src ->
  t_len dst + count <= Nat.pow 2 31 -> tbl_ok (tbl_add_all dst src count).
Proof.
  intros dst src count Hd Hs Hk Hid Hc Hn.
  pose proof (tbl_add_all_col dst src count) as E.
  destruct (tbl_alloc_facts dst count Hd Hn) as (O & L & C & Z0 & _ & _ & F1 & F2 & _ & _ & _ & _ & Le & Lc).
  apply tbl_ok_elim in O. destruct O as (O1 & O2 & O3 & O4 & O5).
  apply tbl_ok_elim in Hs. destruct Hs as (S1 & S2 & S3 & S4 & S5).
  apply tbl_ok_intro.
  - unfold tbl_add_all; cbn. assumption.
  - unfold tbl_add_all; cbn. rewrite copy_into_length. assumption.
  - unfold tbl_add_all; cbn. rewrite map2_length. rewrite O3, S3, F1, Hid. lia.
  - unfold tbl_add_all; cbn. assumption.
  - intros i c Ei. rewrite E in Ei.
    change (t_cap (tbl_add_all dst src count)) with (t_cap (tbl_alloc dst count)).
    change (t_len (tbl_add_all dst src count)) with (t_len (tbl_alloc dst count)).
    change (t_kinds (tbl_add_all dst src count)) with (t_kinds (tbl_alloc dst count)).
    set (d := tbl_alloc dst count) in *. clearbody d.
    destruct (nth_error (t_cols d) i) as [dc|] eqn:Edc; [|discriminate].
    destruct (nth_error (t_cols src) i) as [sc|] eqn:Esc; [|discriminate].
    inversion Ei; subst c; clear Ei.
    replace (t_len d - count) with (t_len dst) by lia.
    destruct (O5 _ _ Edc) as (Ld & Cd & Zd). destruct (S5 _ _ Esc) as (Lsc & Csc & Zsc).
    pose proof (firstn_length_le' _ count sc) as Hf.
    split; [|split].
    + rewrite copy_into_length. assumption.
    + intros r Hr. rewrite nth_copy_into. bdestr; try lia; apply Cd; assumption.
    + intros k Ek Hz r. rewrite nth_copy_into.
      destruct (_ && _) eqn:Hb.
      * apply Bool.andb_true_iff in Hb. destruct Hb as (Hb & _).
        apply Bool.andb_true_iff in Hb. destruct Hb as (Hb1 & Hb2).
        apply Nat.leb_le in Hb1. apply Nat.ltb_lt in Hb2.
        rewrite nth_firstn' by lia. apply (Zsc k); auto. congruence.
      * apply (Zd k); auto.
Qed.

Theorem tbl_add_all_spec : forall dst src count, tbl_ok dst -> tbl_ok src ->
  t_kinds dst = t_kinds src -> t_ids dst = t_ids src -> count <= t_len src ->
  t_len dst + count <= Nat.pow 2 31 ->
  let d := tbl_add_all dst src count in
  t_len d = t_len dst + count /\
  (forall ci r, r < t_len dst -> cell d ci r = cell dst ci r) /\
  (forall r, r < t_len dst -> row_ent d r = row_ent dst r) /\
  (forall ci i, i < count -> ci < length (t_ids dst) -> cell d ci (t_len dst + i) = cell src ci i) /\
  (forall i, i < count -> row_ent d (t_len dst + i) = row_ent src i).
Proof.
  intros dst src count Hd Hs Hk Hid Hc Hn. cbv zeta.
  pose proof (tbl_add_all_col dst src count) as E.
  destruct (tbl_alloc_facts dst count Hd Hn) as (O & L & C & Z0 & Hcell & Hent & F1 & F2 & _ & _ & _ & _ & Le & Lc).
  apply tbl_ok_elim in O. destruct O as (O1 & O2 & O3 & O4 & O5).
  apply tbl_ok_elim in Hs. destruct Hs as (S1 & S2 & S3 & S4 & S5).
  assert (Hstart : t_len (tbl_alloc dst count) - count = t_len dst) by lia.
  assert (Hidl : length (t_ids dst) = length (t_ids src)) by congruence.
  rewrite Hstart in E.
  split; [exact L|].
  split; [|split; [|split]].
  - intros ci r Hr. rewrite <- Hcell by assumption.
    specialize (E ci).
    destruct (nth_error (t_cols (tbl_alloc dst count)) ci) as [dc|] eqn:Edc.
    + destruct (nth_error (t_cols src) ci) as [sc|] eqn:Esc.
      * rewrite (cell_some _ _ _ _ E), (cell_some _ _ _ _ Edc).
        rewrite nth_copy_into. bdestr; auto; lia.
      * apply nth_error_None in Esc.
        assert (ci < length (t_cols (tbl_alloc dst count))) by (apply nth_error_Some; congruence). lia.
    + rewrite (cell_none _ _ _ E), (cell_none _ _ _ Edc). reflexivity.
  - intros r Hr. rewrite <- Hent by assumption.
    unfold row_ent, tbl_add_all; cbn. rewrite Hstart.
    rewrite nth_copy_into. bdestr; auto; lia.
  - intros ci i Hi Hci. specialize (E ci).
    destruct (nth_error (t_cols (tbl_alloc dst count)) ci) as [dc|] eqn:Edc.
    2:{ apply nth_error_None in Edc. lia. }
    destruct (nth_error (t_cols src) ci) as [sc|] eqn:Esc.
    2:{ apply nth_error_None in Esc. lia. }
    rewrite (cell_some _ _ _ _ E), (cell_some _ _ _ _ Esc).
    destruct (O5 _ _ Edc) as (Ld & _). destruct (S5 _ _ Esc) as (Lsc & _).
    rewrite nth_copy_into. rewrite firstn_length_le by lia.
    bdestr; try lia. rewrite nth_firstn' by lia. f_equal. lia.
  - intros i Hi. unfold row_ent, tbl_add_all; cbn. rewrite Hstart.
    rewrite nth_copy_into. rewrite firstn_length_le by lia.
    bdestr; try lia. rewrite nth_firstn' by lia. f_equal. lia.
Qed.

Transparent tbl_alloc.

(** ** Cell writes *)
Lemma col_upd_ok : forall cap len kinds i col row v,
  col_ok cap len kinds i col -> row < len ->
  (forall k, nth_error kinds i = Some k -> ck_zs k = false) ->
  col_ok cap len kinds i (upd row v col).
Proof.
  intros cap len kinds i col row v (L & C & Zs) Hr Hk. split; [|split].
  - rewrite upd_length. assumption.
  - intros r Hl. rewrite nth_upd_neq by lia. auto.
  - intros k Ek Hz. rewrite (Hk k Ek) in Hz. discriminate.
Qed.

Lemma updf_col_ok : forall t ci f,
  tbl_ok t ->
  (forall col, nth_error (t_cols t) ci = Some col -> col_ok (t_cap t) (t_len t) (t_kinds t) ci col ->
               col_ok (t_cap t) (t_len t) (t_kinds t) ci (f col)) ->
  tbl_ok (t <| t_cols ::= updf ci f |>).
Proof.
  intros t ci f H Hf. apply tbl_ok_elim in H. destruct H as (H1 & H2 & H3 & H4 & H5).
  apply tbl_ok_intro; cbn; auto.
  - rewrite updf_length. assumption.
  - intros i c E. rewrite nth_error_updf in E. destruct (Nat.eqb_spec ci i).
    + subst i. destruct (nth_error (t_cols t) ci) as [col|] eqn:Ec; [|discriminate].
      inversion E; subst c. apply Hf; auto.
    + apply H5. assumption.
Qed.

(** Writes and copies inside the used rows keep the table clean. *)
Theorem col_write_ok : forall t ci row v k, tbl_ok t -> row < t_len t ->
  nth_error (t_kinds t) ci = Some k -> ck_zs k = false ->
  tbl_ok (t <| t_cols ::= updf ci (upd row v) |>).
Proof.
  intros t ci row v k H Hr Ek Hz. apply updf_col_ok; auto.
  intros col _ Hc. apply col_upd_ok; auto.
  intros k' Ek'. congruence.
Qed.

Theorem col_set_ok : forall t ci row k src j, tbl_ok t -> row < t_len t ->
  nth_error (t_kinds t) ci = Some k ->
  (ck_zs k = true -> forall r, nth r src 0%Z = 0%Z) ->
  tbl_ok (t <| t_cols ::= updf ci (fun dst => col_set k dst row src j) |>).
Proof.
  intros t ci row k src j H Hr Ek Hsrc. apply updf_col_ok; auto.
  intros col _ Hc. unfold col_set. destruct (ck_zs k) eqn:Hz; auto.
  destruct (nth_error src j); auto.
  apply col_upd_ok; auto. intros k' Ek'. congruence.
Qed.

(** ** tableIDs.Remove *)
Lemma index_of_none : forall id l, index_of id l = None -> ~ In id l.
Proof.
  induction l; simpl; intros H; auto.
  destruct (Nat.eqb_spec a id); [discriminate|].
  destruct (index_of id l); [discriminate|].
  intros [Ha|Hin]; auto. apply IHl; auto.
Qed.

Lemma index_of_split : forall id l i, index_of id l = Some i ->
  exists l1 l2, l = l1 ++ id :: l2 /\ length l1 = i.
Proof.
  induction l; simpl; intros i H; [discriminate|].
  destruct (Nat.eqb_spec a id).
  - inversion H; subst. exists [], l. auto.
  - destruct (index_of id l) eqn:E; [|discriminate]. inversion H; subst.
    destruct (IHl n0 eq_refl) as (l1 & l2 & El & Hl). exists (a :: l1), l2. subst l. simpl. auto.
Qed.

Lemma upd_app : forall A (l1 l2 : list A) x y, upd (length l1) x (l1 ++ y :: l2) = l1 ++ x :: l2.
Proof. induction l1; intros; simpl; auto. rewrite IHl1. reflexivity. Qed.

Lemma firstn_length_app : forall A (a b : list A), firstn (length a) (a ++ b) = a.
Proof. induction a; intros; simpl; auto. rewrite IHa. reflexivity. Qed.

Lemma perm_remove_spec : forall (id : nat) l rest res, NoDup l ->
  Permutation l (id :: rest) -> Permutation res rest ->
  NoDup res /\ (forall x, In x res <-> (In x l /\ x <> id)).
Proof.
  intros id l rest res Hnd Hp Hr.
  assert (Hnd' : NoDup (id :: rest)) by (eapply Permutation_NoDup; eauto).
  inversion Hnd' as [|? ? Hni Hndr]; subst.
  split.
  - eapply Permutation_NoDup; [apply Permutation_sym; eassumption|assumption].
  - intros x. split.
    + intros Hin. assert (Hx : In x rest) by (eapply Permutation_in; eauto). split.
      * eapply Permutation_in; [apply Permutation_sym; eassumption|]. right. assumption.
      * intros ->. contradiction.
    + intros (Hin & Hne). assert (Hx : In x (id :: rest)) by (eapply Permutation_in; eauto).
      destruct Hx as [Hx|Hx]; [congruence|].
      eapply Permutation_in; [apply Permutation_sym; eassumption|assumption].
Qed.

(** tableIDs.Remove on a duplicate-free list removes exactly that ID (order changes by one swap). *)
Theorem tids_remove_spec : forall id l, NoDup l ->
  NoDup (tids_remove id l) /\ (forall x, In x (tids_remove id l) <-> (In x l /\ x <> id)).
Proof.
  intros id l Hnd. unfold tids_remove. destruct (index_of id l) as [i|] eqn:E.
  - destruct (index_of_split _ _ _ E) as (l1 & l2 & El & Hi). cbv zeta.
    destruct (exists_last (l := id :: l2)) as (m & x & Em); [discriminate|].
    destruct m as [|y m].
    + (* id is the last element *)
      simpl in Em. inversion Em; subst x l2. subst l. clear Em.
      replace (length (l1 ++ [id]) - 1) with (length l1) by (rewrite app_length; simpl; lia).
      rewrite Hi, Nat.eqb_refl. subst i. rewrite firstn_length_app.
      apply perm_remove_spec with (rest := l1); auto.
      apply Permutation_sym, Permutation_cons_append.
    + simpl in Em. inversion Em; subst y l2. subst l. clear Em.
      replace (l1 ++ id :: m ++ [x]) with ((l1 ++ id :: m) ++ [x]) in * by (rewrite <- app_assoc; reflexivity).
      replace (length ((l1 ++ id :: m) ++ [x]) - 1) with (length (l1 ++ id :: m))
        by (rewrite (app_length (l1 ++ id :: m)); simpl; lia).
      destruct (Nat.eqb_spec i (length (l1 ++ id :: m))) as [Heq|Hne].
      { rewrite app_length in Heq. simpl in Heq. lia. }
      rewrite nth_error_app2 by lia. rewrite Nat.sub_diag. simpl nth_error.
      subst i. rewrite <- app_assoc. simpl app. rewrite upd_app.
      replace (l1 ++ x :: m ++ [x]) with ((l1 ++ x :: m) ++ [x]) by (rewrite <- app_assoc; reflexivity).
      replace (length (l1 ++ id :: m)) with (length (l1 ++ x :: m)) by (rewrite !app_length; reflexivity).
      rewrite firstn_length_app.
      apply perm_remove_spec with (rest := x :: l1 ++ m).
      * rewrite <- app_assoc in Hnd. exact Hnd.
      * eapply Permutation_trans; [apply Permutation_sym, Permutation_middle|].
        apply perm_skip. rewrite app_assoc. apply Permutation_sym, Permutation_cons_append.
      * apply Permutation_sym, Permutation_middle.
  - apply index_of_none in E. split; auto.
    intros x. split; [|tauto]. intros Hin. split; auto. intros ->. contradiction.
Qed.

(** ** Assumption audit *)
