(** * TableProofs: the table/column layer (table.go, column.go) as pure functions. Property C11
    (logic half: rows beyond len are zero, fresh rows read as zero, whatever happened before) and
    the row-level facts the storage proofs need (C01). To be filled. *)
From Ark Require Import Model.Base Model.Mask Model.Pool Model.Util Model.World.
From RecordUpdate Require Import RecordSet.
Import RecordSetNotations.

(** Shape: lengths agree with the capacity; [clean]: every cell at a row >= len is zero. *)
Definition tbl_shape (t : table) : Prop :=
  t_len t <= t_cap t /\ length (t_ents t) = t_cap t /\
  length (t_cols t) = length (t_ids t) /\ length (t_kinds t) = length (t_ids t) /\
  Forall (fun c : list Z => length c = t_cap t) (t_cols t).

Definition tbl_clean (t : table) : Prop :=
  Forall (fun c : list Z => forall r, t_len t <= r -> nth r c 0%Z = 0%Z) (t_cols t).

(** Zero-size columns only ever hold zeros. *)
Definition tbl_zs (t : table) : Prop :=
  forall i k c, nth_error (t_kinds t) i = Some k -> ck_zs k = true -> nth_error (t_cols t) i = Some c ->
  forall r, nth r c 0%Z = 0%Z.

Definition tbl_ok (t : table) : Prop := tbl_shape t /\ tbl_clean t /\ tbl_zs t.

(** The cell of column [ci] at row [r], and the entity at row [r]. *)
Definition cell (t : table) (ci r : nat) : Z := nth r (nth ci (t_cols t) []) 0%Z.
Definition row_ent (t : table) (r : nat) : ent := nth r (t_ents t) zero_ent.

Theorem new_table_ok : forall aid a kinds cap targets rels,
  length kinds = length (a_comps a) -> tbl_ok (new_table aid a kinds cap targets rels).
Admitted.

(** adjustCapacity (growth and shrinking): rows below len are preserved, the rest is zero. *)
Theorem tbl_adjust_ok : forall t c, tbl_ok t -> t_len t <= c -> tbl_ok (tbl_adjust t c).
Admitted.
Theorem tbl_adjust_rows : forall t c ci r, tbl_ok t -> t_len t <= c -> r < t_len t ->
  cell (tbl_adjust t c) ci r = cell t ci r /\ row_ent (tbl_adjust t c) r = row_ent t r.
Admitted.
Theorem tbl_adjust_len : forall t c, t_len (tbl_adjust t c) = t_len t /\ t_cap (tbl_adjust t c) = c.
Admitted.

(** Add: the new row is the old len, holds the entity, all its cells read as zero (C11: a component
    added without an initial value is zero whatever occupied the storage before); old rows unchanged. *)
Theorem tbl_add_ok : forall t e, tbl_ok t -> t_len t < Nat.pow 2 31 -> tbl_ok (snd (tbl_add t e)).
Admitted.
Theorem tbl_add_spec : forall t e, tbl_ok t -> t_len t < Nat.pow 2 31 ->
  let '(idx, t') := tbl_add t e in
  idx = t_len t /\ t_len t' = S (t_len t) /\ row_ent t' idx = e /\
  (forall ci, cell t' ci idx = 0%Z) /\
  (forall ci r, r < t_len t -> cell t' ci r = cell t ci r) /\
  (forall r, r < t_len t -> row_ent t' r = row_ent t r) /\
  t_ids t' = t_ids t /\ t_kinds t' = t_kinds t /\ t_arch t' = t_arch t /\ t_rels t' = t_rels t /\
  t_targets t' = t_targets t /\ t_free t' = t_free t.
Admitted.

(** Alloc n rows: all new rows read as zero. *)
Theorem tbl_alloc_ok : forall t n, tbl_ok t -> t_len t + n <= Nat.pow 2 31 -> tbl_ok (tbl_alloc t n).
Admitted.
Theorem tbl_alloc_spec : forall t n, tbl_ok t -> t_len t + n <= Nat.pow 2 31 ->
  t_len (tbl_alloc t n) = t_len t + n /\
  (forall ci r, t_len t <= r -> cell (tbl_alloc t n) ci r = 0%Z) /\
  (forall ci r, r < t_len t -> cell (tbl_alloc t n) ci r = cell t ci r) /\
  (forall r, r < t_len t -> row_ent (tbl_alloc t n) r = row_ent t r).
Admitted.

(** Remove (swap-remove): row [index] receives the old last row, the vacated last row is zeroed,
    all other rows are unchanged. *)
Theorem tbl_remove_ok : forall t index, tbl_ok t -> index < t_len t -> tbl_ok (snd (tbl_remove t index)).
Admitted.
Theorem tbl_remove_spec : forall t index, tbl_ok t -> index < t_len t ->
  let '(swapped, t') := tbl_remove t index in
  swapped = negb (Nat.eqb index (t_len t - 1)) /\ t_len t' = t_len t - 1 /\
  (forall ci, index < t_len t' -> cell t' ci index = cell t ci (t_len t - 1)) /\
  (index < t_len t' -> row_ent t' index = row_ent t (t_len t - 1)) /\
  (forall ci r, r < t_len t' -> r <> index -> cell t' ci r = cell t ci r) /\
  (forall r, r < t_len t' -> r <> index -> row_ent t' r = row_ent t r) /\
  t_ids t' = t_ids t /\ t_kinds t' = t_kinds t /\ t_arch t' = t_arch t /\ t_rels t' = t_rels t /\
  t_targets t' = t_targets t /\ t_free t' = t_free t /\ t_cap t' = t_cap t.
Admitted.

(** Reset: empty, and every cell up to the capacity is zero (both zeroing strategies). *)
Theorem tbl_reset_ok : forall t, tbl_ok t -> tbl_ok (tbl_reset t).
Admitted.
Theorem tbl_reset_spec : forall t, tbl_ok t ->
  t_len (tbl_reset t) = 0 /\ (forall ci r, cell (tbl_reset t) ci r = 0%Z) /\ t_cap (tbl_reset t) = t_cap t.
Admitted.

(** The two zeroing strategies of column.Reset agree on clean columns (so [isTrivial] and the
    64-row threshold never affect values). *)
Theorem col_reset_paths_agree : forall k1 k2 col len,
  ck_zs k1 = ck_zs k2 -> (forall r, len <= r -> nth r col 0%Z = 0%Z) -> len <= length col ->
  (ck_zs k1 = true -> forall r, nth r col 0%Z = 0%Z) ->
  forall r, nth r (col_reset k1 col len) 0%Z = nth r (col_reset k2 col len) 0%Z.
Admitted.

(** AddAll: the first [count] rows of [src] are appended to [dst]. *)
Theorem tbl_add_all_ok : forall dst src count, tbl_ok dst -> tbl_ok src ->
  t_kinds dst = t_kinds src -> t_ids dst = t_ids src -> count <= t_len src ->
  t_len dst + count <= Nat.pow 2 31 -> tbl_ok (tbl_add_all dst src count).
Admitted.
Theorem tbl_add_all_spec : forall dst src count, tbl_ok dst -> tbl_ok src ->
  t_kinds dst = t_kinds src -> t_ids dst = t_ids src -> count <= t_len src ->
  t_len dst + count <= Nat.pow 2 31 ->
  let d := tbl_add_all dst src count in
  t_len d = t_len dst + count /\
  (forall ci r, r < t_len dst -> cell d ci r = cell dst ci r) /\
  (forall r, r < t_len dst -> row_ent d r = row_ent dst r) /\
  (forall ci i, i < count -> ci < length (t_ids dst) -> cell d ci (t_len dst + i) = cell src ci i) /\
  (forall i, i < count -> row_ent d (t_len dst + i) = row_ent src i).
Admitted.

(** Writes and copies inside the used rows keep the table clean. *)
Theorem col_write_ok : forall t ci row v k, tbl_ok t -> row < t_len t ->
  nth_error (t_kinds t) ci = Some k -> ck_zs k = false ->
  tbl_ok (t <| t_cols ::= updf ci (upd row v) |>).
Admitted.
Theorem col_set_ok : forall t ci row k src j, tbl_ok t -> row < t_len t ->
  nth_error (t_kinds t) ci = Some k ->
  (ck_zs k = true -> forall r, nth r src 0%Z = 0%Z) ->
  tbl_ok (t <| t_cols ::= updf ci (fun dst => col_set k dst row src j) |>).
Admitted.

(** tableIDs.Remove on a duplicate-free list removes exactly that ID (order changes by one swap). *)
Theorem tids_remove_spec : forall id l, NoDup l ->
  NoDup (tids_remove id l) /\ (forall x, In x (tids_remove id l) <-> (In x l /\ x <> id)).
Admitted.
